#!/bin/sh
# setup_cmd: offline; generates build/ and pre-warms the go build cache for the harness test binaries.
set -e
cd "$(dirname "$0")"
mkdir -p build evidence replays
export GOFLAGS=-mod=mod GOPROXY=off
unset GOTOOLCHAIN GOSUMDB || true
PKGS="db rest auth base"
for p in $PKGS; do
  ./check --build $p >build/setup.$p.log 2>&1 &
done
wait
for p in db rest auth; do
  ./check --build $p --race >build/setup.$p.race.log 2>&1 &
done
wait
tail -n 2 build/setup.*.log
rm -f build/bin/warm.*.test
echo setup done
