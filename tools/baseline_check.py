#!/usr/bin/env python3
"""tools/baseline_check.py [pkg-pattern ...]  Runs the repository suite with the hook guard OFF (no -tags verif, no overlay)
and compares with /root/.vp/BASELINE.json stable_pass: prints every stable test that did not pass. Exit 0 iff none."""
import json, os, subprocess, sys, collections
pk = sys.argv[1:] or ["./..."]
env = dict(os.environ, GOFLAGS="-mod=mod", GOPROXY="off")
for k in ("GOTOOLCHAIN", "GOSUMDB"):
    env.pop(k, None)
p = subprocess.Popen(["go", "test", "-json", "-vet=off", "-count=1", "-timeout", "25m"] + pk, cwd="/repo", env=env, stdout=subprocess.PIPE, stderr=subprocess.STDOUT, text=True)
res = {}
raw = open(os.environ["RAW_OUT"], "w") if os.environ.get("RAW_OUT") else None
for line in p.stdout:
    if raw:
        raw.write(line)
    try:
        ev = json.loads(line)
    except Exception:
        continue
    if ev.get("Test") and ev.get("Action") in ("pass", "fail", "skip"):
        res[ev["Package"] + "::" + ev["Test"]] = ev["Action"]
p.wait()
base = json.load(open("/root/.vp/BASELINE.json"))
stable = base["stable_pass"]
pkgs_run = {k.split("::")[0] for k in res}
bad = [t for t in stable if t.split("::")[0] in pkgs_run and res.get(t) != "pass"]
print("tests seen: %d, stable tests in the packages run: %d, stable tests not passing: %d" % (len(res), sum(1 for t in stable if t.split("::")[0] in pkgs_run), len(bad)))
for t in bad[:60]:
    print("  NOT PASSING:", t, res.get(t))
sys.exit(1 if bad else 0)
