#!/usr/bin/env python3
"""tools/confirm_seed.py <seeded-name> [...]   Confirms a seeded change in a scratch worktree of /repo (HEAD):
demo passes without the patch, fails with it, and the suites of the touched packages (+ ./rest/ when db/ is touched)
still pass with it (known sandbox failures excepted). Writes the outcome into seeded/<name>/meta.json ("confirmed")."""
import json, os, re, subprocess, sys, shutil, time
VERIF = os.path.dirname(os.path.dirname(os.path.abspath(__file__)))
KNOWN_FLAKY = {"TestInitOIDCClient", "TestConcurrentSetConfig", "TestLogFilePathWritable"}
ENV = dict(os.environ, GOFLAGS="-mod=mod", GOPROXY="off")
for k in ("GOTOOLCHAIN", "GOSUMDB"):
    ENV.pop(k, None)
def sh(cmd, cwd, timeout=3000):
    p = subprocess.run(cmd, cwd=cwd, env=ENV, shell=True, stdout=subprocess.PIPE, stderr=subprocess.STDOUT, text=True, timeout=timeout)
    return p.returncode, p.stdout
def confirm(name):
    d = os.path.join(VERIF, "seeded", name)
    meta = json.load(open(os.path.join(d, "meta.json")))
    wt = "/tmp/vseed/" + name
    subprocess.run(["git", "-C", "/repo", "worktree", "remove", "--force", wt], capture_output=True)
    os.makedirs("/tmp/vseed", exist_ok=True)
    at = os.environ.get("CONFIRM_AT", "HEAD")  # a seed whose patch conflicts textually with a later fix commit is confirmed at the commit before it
    subprocess.run(["git", "-C", "/repo", "worktree", "add", "--detach", wt, at, "-q"], check=True)
    out = {"at_repo_commit": subprocess.run(["git", "-C", wt, "log", "--format=%h", "-1"], capture_output=True, text=True).stdout.strip()}
    try:
        demo = open(os.path.join(d, "demo_test.go")).read()
        m = re.search(r"^package (\w+)", demo, re.M)
        pkgname = m.group(1)
        cmd = meta.get("demo_cmd", "")
        m2 = re.search(r"\./([\w/]+)/?(\s|$)", cmd)
        pkgdir = m2.group(1).rstrip("/") if m2 else {"db": "db", "auth": "auth", "rest": "rest", "base": "base"}.get(pkgname, pkgname)
        m3 = re.search(r"-run\s+'?\"?([^'\"\s]+)", cmd)
        runre = m3.group(1) if m3 else "Seed"
        shutil.copyfile(os.path.join(d, "demo_test.go"), os.path.join(wt, pkgdir, "zz_seed_demo_test.go"))
        rc0, o0 = sh("go test -vet=off -count=1 -run '%s' ./%s/" % (runre, pkgdir), wt)
        out["demo_without_patch"] = "PASS" if rc0 == 0 and "no tests to run" not in o0 else "FAIL(rc=%d)" % rc0
        rc, o = sh("git apply %s" % os.path.join(d, "patch.diff"), wt)
        if rc != 0:
            out["error"] = "patch does not apply: " + o[-300:]
            return out
        rc1, o1 = sh("go test -vet=off -count=1 -run '%s' ./%s/" % (runre, pkgdir), wt)
        out["demo_with_patch"] = "FAIL" if rc1 != 0 else "PASS(unexpected)"
        os.remove(os.path.join(wt, pkgdir, "zz_seed_demo_test.go"))
        files = [l[6:].split("\t")[0].strip() for l in open(os.path.join(d, "patch.diff")) if l.startswith("+++ b/")]
        pkgs = sorted({os.path.dirname(f) for f in files})
        if any(p.startswith("db") or p.startswith("auth") or p.startswith("base") or p.startswith("channels") for p in pkgs) and "rest" not in pkgs:
            pkgs.append("rest")
        suites = {}
        for p in pkgs:
            rc2, o2 = sh("go test -vet=off -count=1 -timeout 25m ./%s/" % p, wt, timeout=2400)
            fails = sorted(set(re.findall(r"^--- FAIL: (\w+)", o2, re.M)))
            unexpected = [f for f in fails if f not in KNOWN_FLAKY]
            suites[p] = "ok" if rc2 == 0 else ("ok-except-known-sandbox-failures %s" % fails if not unexpected and fails else "FAIL %s" % unexpected)
        out["suites_with_patch"] = suites
        out["confirmed"] = out["demo_without_patch"] == "PASS" and out["demo_with_patch"] == "FAIL" and all(v.startswith("ok") for v in suites.values())
    finally:
        subprocess.run(["git", "-C", "/repo", "worktree", "remove", "--force", wt], capture_output=True)
        subprocess.run(["git", "-C", "/repo", "worktree", "prune"], capture_output=True)
    return out
for name in sys.argv[1:]:
    t0 = time.time()
    try:
        res = confirm(name)
    except Exception as ex:
        res = {"error": repr(ex)}
    res["wall_s"] = round(time.time() - t0)
    mp = os.path.join(VERIF, "seeded", name, "meta.json")
    meta = json.load(open(mp))
    meta["confirmed_by_coordinator"] = res
    json.dump(meta, open(mp, "w"), indent=1)
    print(name, json.dumps(res), flush=True)
