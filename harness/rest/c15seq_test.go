//go:build verif

package rest

// C15 part "sequences": seeded random histories mixing uninterrupted changes, changes whose node dies at a random
// storage step, loads (also by nodes that die in the middle of the recovery they perform), node restarts and
// scheduled race rounds, with one model carried through the whole history.
// C15 part "stress": free-running (unscheduled) concurrent nodes under the race detector with a config retry
// timeout far above the operation latency, i.e. with the protocol's timing assumption respected.

import (
	"fmt"
	"strings"
	"testing"
	"time"

	"verif/vlib"
)

type c15SeqWitness struct {
	Steps    []c15StepResult   `json:"steps"`
	Rounds   []*c15RaceWitness `json:"race_rounds,omitempty"`
	Registry string            `json:"registry_now"`
	Docs     map[string]string `json:"config_docs_now"`
	Ops      []string          `json:"storage_ops"`
}

// c15ShadowFromModel guesses the present databases (for generating plausible changes): singleton states exactly,
// ambiguous ones by a coin.
func c15ShadowFromModel(r *vlib.Rand, m *c15Model) c15Shadow {
	s := c15Shadow{}
	for _, db := range c15DBs {
		var vs []string
		for v := range m.Allowed[db] {
			vs = append(vs, v)
		}
		// deterministic order
		for i := 0; i < len(vs); i++ {
			for j := i + 1; j < len(vs); j++ {
				if vs[j] < vs[i] {
					vs[i], vs[j] = vs[j], vs[i]
				}
			}
		}
		v := vs[r.Intn(len(vs))]
		if v == "" {
			continue
		}
		var cols []string
		for _, full := range m.Cols[v] {
			if full == "_default._default" {
				cols = append(cols, "D")
			} else {
				cols = append(cols, strings.TrimPrefix(full, c15Scope+"."))
			}
		}
		s[db] = cols
	}
	return s
}

func c15RunSequence(run *vlib.Run, cl *c15Cluster, r *vlib.Rand, idx int) {
	cl.Reset()
	m := newC15Model()
	w := &c15SeqWitness{}
	wit := func() any {
		raw := cl.RawState()
		w.Registry = string(raw.Registry)
		w.Docs = map[string]string{}
		for db, b := range raw.Cfg {
			w.Docs[db] = string(b)
		}
		w.Ops = cl.LogStrings()
		return w
	}
	pool := []*c15Node{cl.NewNode(), cl.NewNode(), cl.NewNode()}
	alive := func() *c15Node {
		var a []*c15Node
		for _, n := range pool {
			if !n.conn.Dead() {
				a = append(a, n)
			}
		}
		if len(a) == 0 {
			n := cl.NewNode()
			pool = append(pool, n)
			return n
		}
		return a[r.Intn(len(a))]
	}
	mark := uint32(5000)
	steps := r.Range(6, 10)
	shape := map[string]bool{}
	for si := 0; si < steps; si++ {
		k := r.Intn(20)
		switch {
		case k < 7: // uninterrupted change
			n := alive()
			ch := c15GenChange(r, c15ShadowFromModel(r, m), &mark, r.Chance(4, 5))
			before := cl.RawState()
			expect := m.Expect(ch)
			out := n.Exec(ch)
			m.Apply(ch, out)
			w.Steps = append(w.Steps, c15StepResult{Step: "change: " + ch.String(), Node: n.Name, Outcome: out, Model: m.String()})
			run.Count("seq_changes", 1)
			shape["change"] = true
			got := out.Class
			if out.Reason != "" {
				got += ":" + out.Reason
			}
			if expect != "" && got != expect {
				if expect == "ack" && out.Class == "rejected" {
					blocked := c15BlockedBy(before, ch)
					run.Violation("progress-after-interruption", fmt.Sprintf("C15|valid-change-not-accepted|result=%s|blocked-by=%s", got, blocked),
						fmt.Sprintf("[seq] %s is valid for the determined state but got %s (%s); blocked by %s", ch, got, out.Err, blocked), wit())
					// the state is unchanged by a rejection: carry on
				} else {
					run.Violation("outcome", fmt.Sprintf("C15|seq|unexpected-outcome|op=%s|expected=%s|got=%s|registry-markers=%s", ch.Kind, expect, got, before.Markers(ch.DB)),
						fmt.Sprintf("%s on a fully determined state: expected %s, got %s (%s)", ch, expect, got, out.Err), wit())
					return
				}
			}
			if out.Class == "rejected" && before.Settled() {
				run.Count("rejected_changes_byte_compared", 1)
				if after := cl.RawState(); !before.Equal(after) {
					run.Violation("rejected-leaves-state", fmt.Sprintf("C15|seq|rejected-change-modified-stored-state|op=%s|reason=%s", ch.Kind, out.Reason),
						fmt.Sprintf("%s was rejected (%s) but registry/config documents changed: before registry=%s after registry=%s", ch, out.Reason, before.Registry, after.Registry), wit())
					return
				}
			}
		case k < 11: // change whose node dies at a random mutating step
			n := alive()
			ch := c15GenChange(r, c15ShadowFromModel(r, m), &mark, r.Chance(9, 10))
			kk, applied := r.Range(1, 4), r.Bool()
			n.conn.Arm(kk, applied)
			out := n.Exec(ch)
			label := c15KillLabel(ch.Kind, n, kk, applied)
			m.Apply(ch, out)
			if n.conn.Dead() {
				run.Count("crash_scenarios", 1)
				shape["crash"] = true
			} else {
				n.conn.Revive() // disarm
			}
			w.Steps = append(w.Steps, c15StepResult{Step: "change: " + ch.String() + " [" + label + "]", Node: n.Name, Outcome: out, Model: m.String()})
		case k < 15: // load, sometimes by a node that dies while recovering
			n := alive()
			if r.Chance(1, 4) {
				kk, applied := r.Range(1, 2), r.Bool()
				n.conn.Arm(kk, applied)
				_, err, _ := n.Load(1)
				if n.conn.Dead() {
					run.Count("crashes_during_recovery", 1)
					shape["crash-in-recovery"] = true
				} else {
					n.conn.Revive()
				}
				w.Steps = append(w.Steps, c15StepResult{Step: fmt.Sprintf("load with kill at mutating op %d (applied=%v), err=%v", kk, applied, err), Node: n.Name, Model: m.String()})
				continue
			}
			v, ok := c15CheckLoad(run, n, m, c15CheckCtx{Part: "seq", Phase: fmt.Sprintf("load at step %d", si), SigTail: "mid-sequence", Witness: wit, Narrow: true})
			w.Steps = append(w.Steps, c15StepResult{Step: "load", Node: n.Name, View: v.String(), Model: m.String()})
			if !ok {
				return
			}
			shape["load"] = true
		case k < 16: // a dead node restarts
			for _, n := range pool {
				if n.conn.Dead() {
					n.conn.Revive()
					w.Steps = append(w.Steps, c15StepResult{Step: "restart", Node: n.Name})
					shape["restart"] = true
					break
				}
			}
		default: // race round on the current state
			s := c15ShadowFromModel(r, m)
			rc := c15RaceCase{}
			for a := 0; a < 2; a++ {
				if r.Chance(1, 5) {
					rc.Actors = append(rc.Actors, []c15ActorOp{{Load: true}})
				} else {
					rc.Actors = append(rc.Actors, []c15ActorOp{{Ch: c15GenChange(r, s, &mark, r.Chance(7, 8))}})
				}
			}
			rw := &c15RaceWitness{Case: rc}
			w.Rounds = append(w.Rounds, rw)
			w.Steps = append(w.Steps, c15StepResult{Step: "race round: " + rc.Key()})
			if _, ok := c15RaceRound(run, cl, m, rc, vlib.RandomChooser(r.Fork(uint64(si)+11), 50), "seq", rw); !ok {
				return
			}
			w.Steps = append(w.Steps, c15StepResult{Step: "race round settled", Model: m.String()})
			shape["race"] = true
		}
	}
	// settle and check progress
	n := cl.NewNode()
	view, ok := c15CheckLoad(run, n, m, c15CheckCtx{Part: "seq", Phase: "final load", SigTail: "end-of-sequence", Witness: wit, Narrow: true})
	w.Steps = append(w.Steps, c15StepResult{Step: "final load", Node: n.Name, View: view.String(), Model: m.String()})
	if !ok {
		return
	}
	for fi, db := range []string{c15DBs[idx%3], c15DBs[(idx+1)%3]} {
		var ch c15Change
		mark++
		if view[db] == "" {
			free := c15Free(m, view, db)
			if len(free) == 0 {
				continue
			}
			ch = c15Change{Kind: "create", DB: db, Cols: []string{free[(idx+fi)%len(free)]}, Mark: mark}
		} else if (idx+fi)%2 == 0 {
			ch = c15Change{Kind: "delete", DB: db}
		} else {
			var cols []string
			for _, full := range m.Cols[view[db]] {
				if full == "_default._default" {
					cols = append(cols, "D")
				} else {
					cols = append(cols, strings.TrimPrefix(full, c15Scope+"."))
				}
			}
			ch = c15Change{Kind: "update", DB: db, Cols: cols, Mark: mark}
		}
		if !c15FollowUp(run, cl, n, m, ch, "end-of-sequence", "seq", wit, &w.Steps) {
			continue
		}
		v, ok := c15CheckLoad(run, cl.NewNode(), m, c15CheckCtx{Part: "seq", Phase: "load after final follow-up", SigTail: "end-of-sequence-follow-up", Witness: wit, Narrow: true})
		if !ok {
			return
		}
		view = v
	}
	run.Eval()
	var sh []string
	for k := range shape {
		sh = append(sh, k)
	}
	if len(shape) >= 3 {
		run.Nontrivial(fmt.Sprintf("seq%d", idx))
	}
	run.Distinct("final_registry_states", cl.RawState().Shape())
	if idx < 2 {
		var st []string
		for _, s := range w.Steps {
			st = append(st, s.Step)
		}
		run.Sample(map[string]any{"sequence": st, "final_view": view.String()})
	}
}

func TestVerif_C15_Sequences(t *testing.T) {
	run := vlib.Start(t, "C15", "sequences")
	defer run.Finish()
	cl := newC15Cluster(t)
	defer cl.Close()
	cl.sites.Store(true)
	n := run.N(120, 3000)
	only, onlySet := run.OnlyCase()
	for i := 0; i < n; i++ {
		if onlySet && i != only {
			continue
		}
		c15RunSequence(run, cl, run.CaseRand(i), i)
	}
}

// TestVerif_C15_Stress: free-running nodes (the chooser releases every actor at once), real goroutine
// concurrency, race detector on. The config retry timeout is 300 ms, far above the latency of a storage
// operation, so a live writer is never presumed dead.
func TestVerif_C15_Stress(t *testing.T) {
	run := vlib.Start(t, "C15", "stress")
	defer run.Finish()
	cl := newC15Cluster(t)
	defer cl.Close()
	cl.sites.Store(true)
	c15StressTimeout = 300 * time.Millisecond
	defer func() { c15StressTimeout = 0 }()
	free := func(depth int, last string, opts []vlib.Option) int { return -1 }
	fixed := c15FixedRaceCases()
	n := run.N(60, 1000)
	for i := 0; i < n; i++ {
		r := run.CaseRand(i)
		var rc c15RaceCase
		if r.Chance(1, 2) {
			rc = vlib.Pick(r, fixed)
		} else {
			rc = c15GenRaceCase(r)
		}
		// no unrecovered interruption in the prefix: recovery of those needs the (long) timeout to expire
		for pi := range rc.Prefix {
			rc.Prefix[pi].KillAt = 0
		}
		cl.Reset()
		m := newC15Model()
		w := &c15RaceWitness{Case: rc}
		c15RunPrefix(cl, m, rc.Prefix, &w.Prefix)
		if _, ok := c15RaceRound(run, cl, m, rc, free, "stress", w); ok {
			run.Nontrivial(fmt.Sprintf("stress%d", i))
		}
		if i < 2 {
			run.Sample(map[string]any{"case": rc.Key(), "final_model": m.String()})
		}
	}
}
