//go:build verif

package rest

// C02, live part: feeds and connections that stay open while grants change.
//
// Every user keeps open: two continuous REST _changes feeds with include_docs (through a real HTTP server),
// a longpoll loop with include_docs, a continuous BLIP pull that stores every revision (V3) and one whose
// client fails to store any revision (V4, error replies to every rev). The scenario advances in grant EPOCHS:
//
//   epoch e:  one grant mutation (acknowledged by the admin API)  ->  barrier (the change cache has
//             processed it and a plain GET by every user answers as the model says)  ->  new documents in
//             every channel (written AFTER the acknowledgement) + a sentinel in a channel every user holds
//             ->  every listener has received the sentinel (the streams are drained)  ->  getAttachment for
//             every attachment of the model on the open BLIP connections.
//
// Oracle (marker scan, time-aware): a token streamed to a user is forbidden iff the model says the user
// could not see the revision in ANY epoch between the earliest moment the entry can have been produced
// (the later of: the epoch the revision was written in; the last epoch whose sentinel that listener had
// already received / the epoch the request was sent in) and the epoch in which it was read. Revisions
// written after a grant change was acknowledged therefore get no in-flight allowance, everything else does.
// For getAttachment on an open connection the allowance is one full epoch (the exchange of a revision
// delivered in the previous epoch may still be completing).

import (
	"bufio"
	"bytes"
	"context"
	"encoding/json"
	"fmt"
	"net/http"
	"net/http/httptest"
	"net/url"
	"sort"
	"strings"
	"sync"
	"sync/atomic"
	"testing"
	"time"

	"github.com/couchbase/go-blip"
	"github.com/couchbase/sync_gateway/base"
	"github.com/couchbase/sync_gateway/db"
	"verif/vlib"
)

const c02LiveWatchdog = 30 * time.Second

type c02Live struct {
	c   *c02Corpus
	t   *testing.T
	run *vlib.Run
	rnd *vlib.Rand

	mu sync.RWMutex // model: written by the scenario goroutine, read by the listeners

	X, Y, Z     string
	roleChans   map[string][]string
	roleDeleted map[string]bool
	userDirect  map[string][]string
	userRoles   map[string][]string
	docGrants   map[string][]string // user -> channels granted by the grant document
	grantDoc    *c02Doc
	probes      map[string]*c02Doc // channel -> a document that stays in that channel
	movable     *c02Doc
	sentinelTok map[string]int // doc-id token of a sentinel -> its epoch
	lastLoss    map[string]string
	epochKinds  []string
	timeline    []string

	srv       *httptest.Server
	listeners []*c02Listener
	stopped   atomic.Bool
	aborted   bool
}

type c02Listener struct {
	lv      *c02Live
	u       *c02User
	surface string // family name used in signatures
	detail  string
	mu      sync.Mutex
	seen    int // highest epoch whose sentinel this listener has received
	stop    func()
	done    chan struct{}
	// blip
	bt        *BlipTester
	errReply  bool
	errCodes  int
	revsSeen  int
	attServed int
}

func (l *c02Listener) sentinelSeen() int {
	l.mu.Lock()
	defer l.mu.Unlock()
	return l.seen
}

func (l *c02Listener) noteSentinels(hits []c02Hit) {
	for _, h := range hits {
		if e, ok := l.lv.sentinelTok[h.marker.token]; ok {
			l.mu.Lock()
			if e > l.seen {
				l.seen = e
			}
			l.mu.Unlock()
		}
	}
}

func (lv *c02Live) curEpoch() int { return lv.c.epoch }

// ---------------------------------------------------------------------------------------------
// access model over time

func (lv *c02Live) computeEff(u *c02User) map[string]bool {
	eff := map[string]bool{"!": true}
	for _, x := range lv.userDirect[u.name] {
		eff[x] = true
	}
	for _, rn := range lv.userRoles[u.name] {
		if lv.roleDeleted[rn] {
			continue
		}
		for _, x := range lv.roleChans[rn] {
			eff[x] = true
		}
	}
	for _, x := range lv.docGrants[u.name] {
		eff[x] = true
	}
	return eff
}

// newEpoch closes the current epoch: records every user's effective channels for the new one.
// Caller holds lv.mu for writing.
func (lv *c02Live) newEpoch(kind string) {
	if len(lv.c.users[0].effHist) > 0 {
		lv.c.epoch++
	}
	lv.epochKinds = append(lv.epochKinds, kind)
	for _, u := range lv.c.users {
		eff := lv.computeEff(u)
		for ch := range u.eff {
			if !eff[ch] {
				lv.lastLoss[u.name+"|"+ch] = kind
				lv.run.Count("access_losses", 1)
				lv.run.Distinct("access_loss_kinds", kind)
			}
		}
		u.eff = eff
		u.direct = lv.userDirect[u.name]
		u.roles = lv.userRoles[u.name]
		u.effHist = append(u.effHist, eff)
	}
	lv.timeline = append(lv.timeline, fmt.Sprintf("--- epoch %d: %s", lv.c.epoch, kind))
}

func (lv *c02Live) visibleIn(u *c02User, chs []string, from, to int) bool {
	if from < 0 {
		from = 0
	}
	for e := from; e <= to && e < len(u.effHist); e++ {
		for _, c := range chs {
			if u.effHist[e][c] {
				return true
			}
		}
	}
	return false
}

// allowed: may the user have been sent this token by something produced no earlier than epoch lo and read in
// epoch hi? Caller holds lv.mu for reading.
func (lv *c02Live) allowed(u *c02User, m *c02Marker, lo, hi int) bool {
	if m.kind == c02KindDocID {
		for _, r := range m.doc.revs {
			if lv.visibleIn(u, r.channels, r.epoch, hi) {
				return true
			}
		}
		return false
	}
	for _, r := range m.revs {
		from := lo
		if r.epoch > from {
			from = r.epoch
		}
		if from > hi {
			return true // cannot be judged: written after the read epoch was sampled
		}
		if lv.visibleIn(u, r.channels, from, hi) {
			return true
		}
	}
	return false
}

func (lv *c02Live) lostBy(u *c02User, m *c02Marker) string {
	var revs []*c02Rev
	if m.kind == c02KindDocID {
		revs = m.doc.revs
	} else {
		revs = m.revs
	}
	for _, r := range revs {
		for _, ch := range r.channels {
			if k, ok := lv.lastLoss[u.name+"|"+ch]; ok {
				return k
			}
		}
	}
	return "never-held"
}

// judge scans one streamed line / message / response and applies the time-aware oracle.
func (lv *c02Live) judge(l *c02Listener, what string, data [][]byte, lo int, exemptSrc []string, witness func() map[string]any) {
	run := lv.run
	lv.mu.RLock()
	defer lv.mu.RUnlock()
	var hits []c02Hit
	n := 0
	for i, d := range data {
		layer := "body"
		if i > 0 {
			layer = "property"
		}
		lv.c.scan(d, layer, 0, &hits)
		n += len(d)
	}
	l.noteSentinels(hits)
	run.Eval()
	run.Count("messages_scanned", 1)
	run.Count("bytes_scanned", n)
	surface := "live|" + l.surface + "|" + what
	run.Nontrivial(surface + "|" + l.u.kind + "|" + lv.epochKinds[len(lv.epochKinds)-1])
	hi := lv.curEpoch()
	exempt := lv.c.tokensIn(exemptSrc...)
	seen := map[string]bool{}
	allowedSeen := 0
	for _, h := range hits {
		m := h.marker
		if seen[m.token] {
			continue
		}
		seen[m.token] = true
		if m.kind == c02KindDocID && exempt[m.token] {
			continue
		}
		if lv.allowed(l.u, m, lo, hi) {
			allowedSeen++
			continue
		}
		revKind := "-"
		if m.kind != c02KindDocID && len(m.revs) > 0 {
			revKind = "new-document"
			if m.revs[0].parent != nil {
				revKind = "new-revision-of-existing-document"
			}
		}
		sig := fmt.Sprintf("C02|live|%s|%s|leak=%s|rev=%s|access-lost-by=%s", l.surface, what, m.kind, revKind, lv.lostBy(l.u, m))
		run.Count("violations_observed", 1)
		w := witness()
		w["listener"] = l.detail
		w["leaked_token"] = m.token
		w["leaked_kind"] = m.kind.String()
		w["leaked_doc"] = m.doc.id
		var revs []map[string]any
		for _, r := range m.revs {
			revs = append(revs, map[string]any{"rev": r.revID, "channels": r.channels, "written_in_epoch": r.epoch})
		}
		w["leaked_revisions"] = revs
		w["found_in"] = h.where
		w["context"] = h.ctx
		var ops []string
		for _, o := range lv.c.ops {
			if strings.Contains(o, m.doc.id) {
				ops = append(ops, o)
			}
		}
		w["admin_writes_of_the_document"] = ops
		w["produced_no_earlier_than_epoch"] = lo
		w["read_in_epoch"] = hi
		hist := []string{}
		for e, eff := range l.u.effHist {
			hist = append(hist, fmt.Sprintf("epoch %d (%s): %v", e, lv.epochKinds[e], c02Keys(eff)))
		}
		w["user"] = map[string]any{"name": l.u.name, "basic_auth": l.u.name + ":" + RestTesterDefaultUserPassword, "effective_channels_by_epoch": hist}
		w["timeline"] = lv.timeline
		w["default_collection"] = lv.c.defColl
		run.Violation("marker-scan-live", sig,
			fmt.Sprintf("user %s received the %s token of %s (revision channels %v, written in epoch %d) on %s [%s] in epoch %d (%s), although its effective channels were %v since epoch %d",
				l.u.name, m.kind, m.doc.id[:3]+"…", c02LiveChannels(m), c02FirstEpoch(m), l.detail, what, hi, lv.epochKinds[hi], c02Keys(l.u.effHist[hi]), lo), w)
	}
	run.Count("allowed_tokens_seen", allowedSeen)
	lv.c.obs.shape(surface, allowedSeen > 0)
}

func c02LiveChannels(m *c02Marker) [][]string {
	if m.kind != c02KindDocID {
		return c02RevChannels(m)
	}
	var out [][]string
	for _, r := range m.doc.revs {
		out = append(out, r.channels)
	}
	return out
}

func c02FirstEpoch(m *c02Marker) int {
	if len(m.revs) > 0 {
		return m.revs[0].epoch
	}
	if len(m.doc.revs) > 0 {
		return m.doc.revs[0].epoch
	}
	return 0
}

// ---------------------------------------------------------------------------------------------
// listeners

func (lv *c02Live) startContinuous(u *c02User, name, query string) {
	l := &c02Listener{lv: lv, u: u, surface: "rest _changes continuous", detail: "GET _changes?" + query, done: make(chan struct{})}
	ctx, cancel := context.WithCancel(context.Background())
	l.stop = cancel
	req, err := http.NewRequestWithContext(ctx, http.MethodGet, lv.srv.URL+"/"+lv.c.rt.GetSingleKeyspace()+"/_changes?"+query, nil)
	if err != nil {
		lv.t.Fatalf("C02 live: %v", err)
	}
	req.SetBasicAuth(u.name, RestTesterDefaultUserPassword)
	resp, err := (&http.Client{Transport: &http.Transport{DisableKeepAlives: true}}).Do(req)
	if err != nil || resp.StatusCode != 200 {
		lv.t.Fatalf("C02 live: continuous feed for %s: %v %v", u.name, err, resp)
	}
	lv.run.Count("feeds_opened", 1)
	go func() {
		defer close(l.done)
		defer func() { _ = resp.Body.Close() }()
		rd := bufio.NewReaderSize(resp.Body, 1<<16)
		for {
			line, err := rd.ReadBytes('\n')
			if len(bytes.TrimSpace(line)) > 0 {
				lo := l.sentinelSeen()
				ln := append([]byte{}, line...)
				lv.run.Count("continuous_lines", 1)
				lv.judge(l, name, [][]byte{ln}, lo, nil, func() map[string]any {
					return map[string]any{"request": "GET /" + lv.c.rt.GetSingleKeyspace() + "/_changes?" + query, "streamed_line": c02Trunc(string(ln), 6000)}
				})
			}
			if err != nil {
				return
			}
		}
	}()
	lv.listeners = append(lv.listeners, l)
}

func (lv *c02Live) startLongpoll(u *c02User) {
	l := &c02Listener{lv: lv, u: u, surface: "rest _changes longpoll", detail: "GET _changes?feed=longpoll&include_docs=true (loop)", done: make(chan struct{})}
	ctx, cancel := context.WithCancel(context.Background())
	l.stop = cancel
	lv.run.Count("feeds_opened", 1)
	go func() {
		defer close(l.done)
		since := "0"
		for !lv.stopped.Load() {
			lv.mu.RLock()
			sent := lv.curEpoch()
			lv.mu.RUnlock()
			path := "/{{.keyspace}}/_changes?feed=longpoll&include_docs=true&timeout=1500&since=" + url.QueryEscape(since)
			req := Request("GET", lv.c.rt.mustTemplateResource(path), "").WithContext(ctx)
			req.SetBasicAuth(u.name, RestTesterDefaultUserPassword)
			resp := lv.c.rt.Send(req)
			if ctx.Err() != nil {
				return
			}
			body := append([]byte{}, resp.Body.Bytes()...)
			lv.run.Count("longpoll_responses", 1)
			lv.judge(l, "include_docs", [][]byte{body}, sent, nil, func() map[string]any {
				return map[string]any{"request": "GET " + path, "request_sent_in_epoch": sent, "response": map[string]any{"status": resp.Code, "body": c02Trunc(string(body), 6000)}}
			})
			var out struct {
				LastSeq any `json:"last_seq"`
			}
			if resp.Code == 200 && json.Unmarshal(body, &out) == nil && out.LastSeq != nil {
				since = fmt.Sprint(out.LastSeq)
			} else {
				time.Sleep(20 * time.Millisecond)
			}
		}
	}()
	lv.listeners = append(lv.listeners, l)
}

// startBlip opens a continuous pull. errReply: the client fails to store every revision (error reply, no
// attachment download); otherwise it downloads the revision's attachments and acknowledges.
func (lv *c02Live) startBlip(u *c02User, proto string, errReply bool) {
	bt, err := createBlipTesterWithSpec(lv.c.rt, BlipTesterSpec{connectingUsername: u.name, blipProtocols: []string{proto}})
	if err != nil || bt == nil {
		lv.run.Count("blip_connect_failed", 1)
		return
	}
	bt.avoidRestTesterClose = true
	mode := "client stores every rev"
	if errReply {
		mode = "client answers every rev with an error"
	}
	l := &c02Listener{lv: lv, u: u, surface: "blip continuous pull", detail: proto + " continuous pull, " + mode, done: make(chan struct{}), bt: bt, errReply: errReply}
	l.stop = func() { bt.sender.Close() }
	close(l.done)
	lv.run.Count("connections", 1)
	bctx := bt.blipContext
	bctx.FatalErrorHandler = func(err error) {}
	bctx.HandlerPanicHandler = func(request, response *blip.Message, err any) {
		lv.run.Note("live blip client handler panic (%s): %v", request.Profile(), err)
	}
	observe := func(what string, msg *blip.Message) []byte {
		body, _ := msg.Body()
		props := c02PropsBytes(msg.Properties)
		lo := l.sentinelSeen()
		lv.judge(l, what, [][]byte{body, props}, lo, nil, func() map[string]any {
			return map[string]any{"received": map[string]any{"profile": msg.Profile(), "properties": msg.Properties, "body": c02Trunc(string(body), 6000)}}
		})
		return body
	}
	bctx.HandlerForProfile[db.MessageChanges] = func(msg *blip.Message) {
		body := observe("changes", msg)
		if msg.NoReply() {
			return
		}
		var entries [][]any
		if len(body) > 0 && string(body) != "null" {
			_ = json.Unmarshal(body, &entries)
		}
		answer := make([]any, len(entries))
		for i := range answer {
			answer[i] = []any{}
		}
		b, _ := json.Marshal(answer)
		resp := msg.Response()
		resp.Properties[db.ChangesResponseMaxHistory] = "20"
		resp.SetBody(b)
	}
	bctx.HandlerForProfile[db.MessageRev] = func(msg *blip.Message) {
		body := observe("rev", msg)
		l.mu.Lock()
		l.revsSeen++
		n := l.revsSeen
		l.mu.Unlock()
		if msg.NoReply() {
			return
		}
		if l.errReply {
			code := []int{500, 409, 403}[n%3]
			msg.Response().SetError("HTTP", code, "client could not save the revision")
			lv.run.Count("rev_error_replies", 1)
			return
		}
		var doc struct {
			Atts map[string]struct {
				Digest string `json:"digest"`
			} `json:"_attachments"`
		}
		_ = json.Unmarshal(body, &doc)
		for _, a := range doc.Atts {
			lv.mu.RLock()
			ma := lv.c.atts[a.Digest]
			lv.mu.RUnlock()
			if ma != nil {
				l.getAttachment("getAttachment(own, rev in flight)", ma, true)
			}
		}
		msg.Response().SetBody([]byte{})
	}
	bctx.HandlerForProfile[db.MessageNoRev] = func(msg *blip.Message) { observe("norev", msg) }
	bctx.DefaultHandler = func(msg *blip.Message) { observe("other", msg) }

	rq := blip.NewRequest()
	rq.SetProfile(db.MessageSubChanges)
	rq.Properties[db.SubChangesContinuous] = "true"
	rq.Properties[db.SubChangesBatch] = "20"
	rq.Properties[db.SubChangesRevocations] = "true"
	bt.addCollectionProperty(rq)
	if !bt.sender.Send(rq) {
		lv.run.Count("blip_send_failed", 1)
		return
	}
	lv.listeners = append(lv.listeners, l)
}

// getAttachment asks for one attachment on the listener's connection and judges the answer.
// inFlight: asked from inside the rev handler (the revision is being sent right now).
func (l *c02Listener) getAttachment(what string, a *c02Att, inFlight bool) {
	lv := l.lv
	rq := blip.NewRequest()
	rq.SetProfile(db.MessageGetAttachment)
	rq.Properties[db.GetAttachmentDigest] = a.digest
	if l.bt.activeSubprotocol >= db.CBMobileReplicationV3 {
		rq.Properties[db.GetAttachmentID] = a.marker.doc.id
	}
	l.bt.addCollectionProperty(rq)
	lv.mu.RLock()
	sent := lv.curEpoch()
	lv.mu.RUnlock()
	if !l.bt.sender.Send(rq) {
		lv.run.Count("blip_send_failed", 1)
		return
	}
	ch := make(chan *blip.Message, 1)
	go func() { ch <- rq.Response() }()
	var resp *blip.Message
	select {
	case resp = <-ch:
	case <-time.After(c02LiveWatchdog):
		lv.run.Inconclusive("live: no response to getAttachment within the watchdog")
		return
	}
	body, _ := resp.Body()
	if resp.Type() != blip.ErrorType {
		l.mu.Lock()
		l.attServed++
		l.mu.Unlock()
		lv.run.Count("attachments_served", 1)
	} else {
		lv.run.Count("attachment_requests_refused", 1)
	}
	lo := sent - 1 // the exchange of a revision delivered in the previous epoch may still be completing
	if inFlight {
		lo = l.sentinelSeen()
	}
	lv.judge(l, what, [][]byte{body, c02PropsBytes(resp.Properties)}, lo, []string{string(c02PropsBytes(rq.Properties))}, func() map[string]any {
		return map[string]any{"client_sent": map[string]any{"profile": "getAttachment", "properties": rq.Properties, "sent_in_epoch": sent},
			"received": map[string]any{"type": fmt.Sprint(resp.Type()), "properties": resp.Properties, "body": c02Trunc(string(body), 3000)}}
	})
}

// ---------------------------------------------------------------------------------------------
// scenario

func (lv *c02Live) admin(method, path, body string, want int) {
	resp := lv.c.rt.SendAdminRequest(method, path, body)
	lv.timeline = append(lv.timeline, fmt.Sprintf("admin %s %s %s -> %d", method, path, c02Trunc(body, 300), resp.Code))
	if resp.Code != want {
		lv.t.Fatalf("C02 live: admin %s %s -> %d %s", method, path, resp.Code, c02Trunc(resp.Body.String(), 300))
	}
}

func (lv *c02Live) putUser(name string) {
	ds := lv.c.rt.GetSingleDataStore()
	roles := lv.userRoles[name]
	if roles == nil {
		roles = []string{}
	}
	lv.admin("PUT", "/{{.db}}/_user/"+name, GetUserPayload(lv.t, "", "", "", ds, lv.userDirect[name], roles), 200)
}

func (lv *c02Live) putRole(name string) {
	ds := lv.c.rt.GetSingleDataStore()
	chs := lv.roleChans[name]
	if chs == nil {
		chs = []string{}
	}
	lv.admin("PUT", "/{{.db}}/_role/"+name, GetRolePayload(lv.t, "", ds, chs), 200)
}

type c02LiveStep struct {
	kind  string
	apply func()
}

func c02Without(xs []string, x string) []string {
	out := []string{}
	for _, v := range xs {
		if v != x {
			out = append(out, v)
		}
	}
	return out
}

func (lv *c02Live) writeGrantDoc(chans []string) {
	var parent *c02Rev
	if len(lv.grantDoc.revs) > 0 {
		parent = lv.grantDoc.winner()
	}
	extra := map[string]any{}
	if len(chans) > 0 {
		extra["grant"] = map[string]any{"users": []string{"lu_g"}, "chans": chans}
	}
	lv.c.addRev(lv.grantDoc, parent, c02RevSpec{channels: []string{"G"}, extra: extra})
	lv.timeline = append(lv.timeline, fmt.Sprintf("grant document %s: access(lu_g, %v)", lv.grantDoc.id[:3], chans))
	lv.docGrants["lu_g"] = chans
}

func (lv *c02Live) chains() [][]c02LiveStep {
	X, Y, Z := lv.X, lv.Y, lv.Z
	hold := c02LiveStep{kind: "hold (no grant change)", apply: func() {}}
	return [][]c02LiveStep{
		{ // direct channel of a user
			{"user-channel-removed", func() { lv.userDirect["lu_d"] = []string{"M"}; lv.putUser("lu_d") }},
			hold,
			{"user-channel-added", func() { lv.userDirect["lu_d"] = []string{"M", X}; lv.putUser("lu_d") }},
		},
		{ // role membership, number of roles changes
			{"role-membership-removed", func() { lv.userRoles["lu_dr"] = []string{}; lv.putUser("lu_dr") }},
			hold,
			{"role-membership-added", func() { lv.userRoles["lu_dr"] = []string{"r3"}; lv.putUser("lu_dr") }},
		},
		{ // role swapped for another one (same number of roles), then the new role loses its channel
			{"role-membership-swapped", func() { lv.userRoles["lu_r"] = []string{"r2"}; lv.putUser("lu_r") }},
			hold,
			{"role-channel-removed", func() { lv.roleChans["r2"] = []string{}; lv.putRole("r2") }},
			hold,
			{"role-channel-added", func() { lv.roleChans["r2"] = []string{Y}; lv.putRole("r2") }},
			{"role-membership-swapped", func() { lv.userRoles["lu_r"] = []string{"r1"}; lv.putUser("lu_r") }},
		},
		{ // a role loses a channel
			{"role-channel-removed", func() { lv.roleChans["r3"] = []string{}; lv.putRole("r3") }},
			hold,
			{"role-channel-added", func() { lv.roleChans["r3"] = []string{Z}; lv.putRole("r3") }},
		},
		{ // one of two roles swapped, then the new role is deleted
			{"role-membership-swapped", func() { lv.userRoles["lu_r2"] = []string{"r4", "r6"}; lv.putUser("lu_r2") }},
			hold,
			{"role-deleted", func() { lv.roleDeleted["r6"] = true; lv.admin("DELETE", "/{{.db}}/_role/r6", "", 200) }},
			hold,
			{"role-membership-swapped", func() { lv.userRoles["lu_r2"] = []string{"r4", "r5"}; lv.putUser("lu_r2") }},
		},
		{ // a document moves out of a channel and back
			{"document-moved", func() {
				lv.c.addRev(lv.movable, lv.movable.winner(), c02RevSpec{channels: []string{Y}, att: true, carry: lv.rnd.Bool()})
			}},
			hold,
			{"document-moved", func() {
				lv.c.addRev(lv.movable, lv.movable.winner(), c02RevSpec{channels: []string{X}, att: true, carry: lv.rnd.Bool()})
			}},
		},
		{ // a grant made by a document's access() call is withdrawn and made again
			{"document-grant-removed", func() { lv.writeGrantDoc(nil) }},
			hold,
			{"document-grant-added", func() { lv.writeGrantDoc([]string{Z}) }},
		},
		{ // a role gains a channel (backfill) and loses it again
			{"role-channel-added", func() { lv.roleChans["r1"] = []string{X, Z}; lv.putRole("r1") }},
			{"role-channel-removed", func() { lv.roleChans["r1"] = []string{X}; lv.putRole("r1") }},
			hold,
		},
	}
}

// barrier: the change cache has processed every mutation, and a plain GET of a document of each channel by
// each user answers as the model says. false = watchdog (inconclusive).
func (lv *c02Live) barrier() bool {
	lv.c.rt.WaitForPendingChanges()
	deadline := time.Now().Add(c02LiveWatchdog)
	for {
		ok := true
		for _, u := range lv.c.users {
			for ch, d := range lv.probes {
				resp := lv.c.rt.SendUserRequest("GET", "/{{.keyspace}}/"+d.id, "", u.name)
				want := 403
				if u.eff[ch] {
					want = 200
				}
				if resp.Code != want {
					ok = false
				}
			}
		}
		if ok {
			return true
		}
		if time.Now().After(deadline) {
			lv.run.Inconclusive("live: plain reads did not reflect the acknowledged grant change within the watchdog")
			return false
		}
		time.Sleep(10 * time.Millisecond)
	}
}

func (lv *c02Live) writeEpochDocs() {
	for _, ch := range []string{lv.X, lv.Y, lv.Z} {
		d := lv.c.newDoc("live-" + lv.epochKinds[len(lv.epochKinds)-1])
		lv.c.addRev(d, nil, c02RevSpec{channels: []string{ch}, att: true})
		for _, u := range lv.c.users {
			if !u.eff[ch] {
				lv.run.Count("revisions_written_while_a_listening_user_may_not_see_them", 1)
				if _, lost := lv.lastLoss[u.name+"|"+ch]; lost {
					lv.run.Count("revisions_written_to_a_channel_a_listening_user_has_lost", 1)
				}
			}
		}
	}
	s := lv.c.newDoc("sentinel")
	lv.sentinelTok[s.marker.token] = lv.c.epoch
	lv.c.addRev(s, nil, c02RevSpec{channels: []string{"M"}})
	lv.run.Count("documents_written_during_open_feeds", 4)
}

func (lv *c02Live) drain() bool {
	e := lv.c.epoch
	deadline := time.Now().Add(c02LiveWatchdog)
	for {
		all := true
		for _, l := range lv.listeners {
			if l.sentinelSeen() < e {
				all = false
				break
			}
		}
		if all {
			lv.run.Count("epochs_drained", 1)
			return true
		}
		if time.Now().After(deadline) {
			var late []string
			for _, l := range lv.listeners {
				if l.sentinelSeen() < e {
					late = append(late, l.u.name+": "+l.detail)
				}
			}
			lv.run.Inconclusive("live: a listener did not receive the epoch's sentinel within the watchdog")
			lv.run.Note("live corpus %d epoch %d (%s): sentinel not received by %v", lv.c.idx, e, lv.epochKinds[e], late)
			return false
		}
		time.Sleep(3 * time.Millisecond)
	}
}

// probeAttachments asks for every attachment of the model on every open BLIP connection.
func (lv *c02Live) probeAttachments() {
	// the attachments of the initial corpus and of everything written in the last three epochs (an access loss is
	// always followed by a hold epoch, so every attachment delivered before a loss is asked for after it)
	lv.mu.RLock()
	var atts []*c02Att
	for _, a := range lv.c.allAtts() {
		for _, r := range a.marker.revs {
			if r.epoch == 0 || r.epoch >= lv.curEpoch()-3 {
				atts = append(atts, a)
				break
			}
		}
	}
	lv.mu.RUnlock()
	var wg sync.WaitGroup
	for _, l := range lv.listeners {
		if l.bt == nil {
			continue
		}
		wg.Add(1)
		go func(l *c02Listener) {
			defer wg.Done()
			what := "getAttachment(all, after the epoch's revisions were stored)"
			if l.errReply {
				what = "getAttachment(all, after error replies to the epoch's revisions)"
			}
			for _, a := range atts {
				lv.mu.RLock()
				forbidden := !lv.allowed(l.u, a.marker, lv.curEpoch(), lv.curEpoch())
				lv.mu.RUnlock()
				if forbidden {
					lv.run.Count("forbidden_attachment_requests_on_open_connections", 1)
				}
				l.getAttachment(what, a, false)
			}
		}(l)
	}
	wg.Wait()
}

func c02LiveCorpus(t *testing.T, run *vlib.Run, obs *c02Obs, ci int, sampleOnce *sync.Once) {
	rnd := run.CaseRand(ci)
	c := &c02Corpus{t: t, run: run, rnd: rnd, idx: ci, markers: map[string]*c02Marker{}, atts: map[string]*c02Att{}, roles: map[string][]string{}, obs: obs}
	c.defColl = ci%2 == 1
	cfg := &RestTesterConfig{SyncFn: c02SyncFn}
	if c.defColl {
		c.rt = NewRestTesterDefaultCollection(t, cfg)
	} else {
		c.rt = NewRestTester(t, cfg)
	}
	defer c.rt.Close()
	perm := rnd.Perm(3)
	letters := []string{"A", "B", "C"}
	lv := &c02Live{c: c, t: t, run: run, rnd: rnd, X: letters[perm[0]], Y: letters[perm[1]], Z: letters[perm[2]],
		roleChans: map[string][]string{}, roleDeleted: map[string]bool{}, userDirect: map[string][]string{}, userRoles: map[string][]string{},
		docGrants: map[string][]string{}, probes: map[string]*c02Doc{}, sentinelTok: map[string]int{}, lastLoss: map[string]string{}}
	X, Y, Z := lv.X, lv.Y, lv.Z
	for rn, chs := range map[string][]string{"r1": {X}, "r2": {Y}, "r3": {Z}, "r4": {X}, "r5": {Z}, "r6": {Y}} {
		lv.roleChans[rn] = chs
	}
	for _, rn := range []string{"r1", "r2", "r3", "r4", "r5", "r6"} {
		c.rt.CreateRole(rn, lv.roleChans[rn])
		lv.timeline = append(lv.timeline, fmt.Sprintf("role %s channels=%v", rn, lv.roleChans[rn]))
	}
	mk := func(name, kind string, direct, roles []string) {
		lv.userDirect[name] = append([]string{"M"}, direct...)
		lv.userRoles[name] = roles
		c.rt.CreateUser(name, lv.userDirect[name], roles...)
		c.users = append(c.users, &c02User{name: name, kind: kind, eff: map[string]bool{}})
		lv.timeline = append(lv.timeline, fmt.Sprintf("user %s channels=%v roles=%v", name, lv.userDirect[name], roles))
	}
	mk("lu_d", "direct", []string{X}, nil)
	mk("lu_r", "role", nil, []string{"r1"})
	mk("lu_dr", "direct+role", []string{Y}, []string{"r3"})
	mk("lu_r2", "two-roles", nil, []string{"r4", "r5"})
	mk("lu_g", "doc-grant", nil, nil)

	// epoch 0: initial corpus
	lv.mu.Lock()
	lv.grantDoc = c.newDoc("grant")
	lv.writeGrantDoc([]string{Z})
	for _, ch := range []string{X, Y, Z} {
		d := c.newDoc("probe")
		c.addRev(d, nil, c02RevSpec{channels: []string{ch}, att: true})
		lv.probes[ch] = d
	}
	lv.movable = c.newDoc("movable")
	r1 := c.addRev(lv.movable, nil, c02RevSpec{channels: []string{X}, att: true})
	c.addRev(lv.movable, r1, c02RevSpec{channels: []string{X}, att: true, carry: true})
	lv.newEpoch("initial")
	lv.writeEpochDocs()
	lv.mu.Unlock()
	c.rt.WaitForPendingChanges()
	c.validateModel()

	lv.srv = httptest.NewServer(c.rt.TestPublicHandler())
	for _, u := range c.users {
		lv.startContinuous(u, "include_docs", "feed=continuous&include_docs=true&since=0")
		lv.startContinuous(u, "include_docs+style=all_docs+revocations", "feed=continuous&include_docs=true&style=all_docs&revocations=true&since=0")
		lv.startLongpoll(u)
		lv.startBlip(u, db.CBMobileReplicationV3.SubprotocolString(), false)
		lv.startBlip(u, db.CBMobileReplicationV4.SubprotocolString(), true)
	}
	defer func() {
		lv.stopped.Store(true)
		for _, l := range lv.listeners {
			l.stop()
		}
		lv.srv.CloseClientConnections()
		for _, l := range lv.listeners {
			select {
			case <-l.done:
			case <-time.After(10 * time.Second):
				run.Note("live: a listener did not stop (%s)", l.detail)
			}
		}
		lv.srv.Close()
	}()
	run.Count("corpora", 1)
	run.Count("listeners", len(lv.listeners))
	if !lv.drain() {
		return
	}
	lv.probeAttachments()

	chains := lv.chains()
	order := rnd.Perm(len(chains))
	for _, ci2 := range order {
		for _, st := range chains[ci2] {
			lv.mu.Lock()
			st.apply()
			lv.newEpoch(st.kind)
			lv.mu.Unlock()
			run.Distinct("grant_change_kinds", st.kind)
			run.Count("epochs", 1)
			if !lv.barrier() {
				return
			}
			if c.epoch%5 == 0 {
				c.validateModel()
			}
			lv.mu.Lock()
			lv.writeEpochDocs()
			lv.mu.Unlock()
			if !lv.drain() {
				return
			}
			lv.probeAttachments()
		}
	}
	run.Count("scenarios_completed", 1)
	sampleOnce.Do(func() {
		tl := lv.timeline
		if len(tl) > 40 {
			tl = tl[:40]
		}
		var ls []string
		for _, l := range lv.listeners[:5] {
			ls = append(ls, l.u.name+": "+l.detail)
		}
		sort.Strings(ls)
		run.Sample(map[string]any{"kind": fmt.Sprintf("live corpus %d", ci), "epochs": c.epoch, "listeners_per_user": ls, "timeline_head": tl})
	})
}

func TestVerif_C02_Live(t *testing.T) {
	run := vlib.Start(t, "C02", "live")
	defer run.Finish()
	base.SetUpTestLogging(t, base.LevelError, base.KeyNone)
	obs := c02NewObs(run)
	defer obs.finish()
	n := run.N(6, 40)
	if s := c02Corpora(run); s != 6 && s != 100 {
		n = s
	}
	only, onlySet := run.OnlyCase()
	work := make(chan int)
	var pool sync.WaitGroup
	var sampleOnce sync.Once
	for w := 0; w < c02Par(); w++ {
		pool.Add(1)
		go func() {
			defer pool.Done()
			for ci := range work {
				c02LiveCorpus(t, run, obs, ci, &sampleOnce)
			}
		}()
	}
	for ci := 0; ci < n; ci++ {
		if onlySet && ci != only {
			continue
		}
		work <- ci
	}
	close(work)
	pool.Wait()
}
