//go:build verif

package rest

import (
	"encoding/json"
	"fmt"
	"net/http"
	"sort"
	"strings"
	"sync"
	"sync/atomic"
	"testing"
	"time"

	"github.com/couchbase/sync_gateway/base"
	"github.com/couchbase/sync_gateway/db"
	"verif/vlib"
)

// C18 — resync equals evaluating the new sync function from scratch.
//
// Differential between
//
//	R: corpus written under f1 (new_edits=false pushes with fixed revision ids), sync function changed to f2
//	   through PUT /{keyspace}/_config/sync, database taken offline, POST /{db}/_resync, database online;
//	F: a second RestTester where the same pushes, in the same order, are made under f2 from the start.
//
// What resync does with a revision f2 rejects is taken from the code (db/database.go getResyncedDocument:
// "Probably the validator rejected the doc" -> channels = nil, access = nil): the revision stays, it is
// in no channel and grants nothing. F therefore runs the *nullified* f2 (rejection replaced by
// "return before any channel()/access()/role() call"), which keeps the revision trees of R and F
// identical and states exactly "the function produces nothing for a rejected revision".
//
// R runs on a vStore: the H1 log shows which document writes each resync performs.

const c18Watchdog = 120 * time.Second

type c18DB struct {
	t    testing.TB
	rt   *RestTester
	name string // "R" / "F"
}

func (d *c18DB) admin(method, path, body string) *TestResponse {
	return d.rt.SendAdminRequest(method, path, body)
}

type c18Abort struct{ why string }

// must panics with c18Abort (caught per case => inconclusive): a harness step that has to work did not.
func (d *c18DB) must(method, path, body string, want ...int) *TestResponse {
	resp := d.admin(method, path, body)
	for _, w := range want {
		if resp.Code == w {
			return resp
		}
	}
	panic(c18Abort{fmt.Sprintf("%s: %s %s -> %d %s", d.name, method, path, resp.Code, strings.TrimSpace(resp.Body.String()))})
}

func (d *c18DB) createPrincipals(ps []c18Principal) {
	ds := d.rt.GetSingleDataStore()
	for _, p := range ps {
		if !p.IsRole {
			continue
		}
		d.must("PUT", "/{{.db}}/_role/"+p.Name, GetRolePayload(d.t, p.Name, ds, p.Channels), 201)
	}
	for _, p := range ps {
		if p.IsRole {
			continue
		}
		d.must("PUT", "/{{.db}}/_user/"+p.Name, GetUserPayload(d.t, p.Name, RestTesterDefaultUserPassword, "", ds, p.Channels, p.Roles), 201)
	}
}

func (d *c18DB) push(rev c18Rev) {
	body := map[string]any{}
	for k, v := range rev.Body {
		body[k] = v
	}
	gen, digest, _ := strings.Cut(rev.Rev, "-")
	ids := append([]string{digest}, rev.Anc...)
	var start int
	_, _ = fmt.Sscanf(gen, "%d", &start)
	body["_revisions"] = map[string]any{"start": start, "ids": ids}
	if rev.Deleted {
		body["_deleted"] = true
	}
	b, _ := json.Marshal(body)
	d.must("PUT", "/{{.keyspace}}/"+rev.Doc+"?new_edits=false", string(b), 201)
}

// c18TB turns the fatal assertions of sync_gateway's test helpers into an inconclusive case (the
// helpers would otherwise call FailNow from a worker goroutine).
type c18TB struct {
	testing.TB
	name string
	last string
}

func (b *c18TB) Errorf(format string, args ...any) { b.last = fmt.Sprintf(format, args...) }
func (b *c18TB) FailNow()                          { panic(c18Abort{b.name + ": helper failed: " + b.last}) }
func (b *c18TB) Fatalf(format string, args ...any) { b.Errorf(format, args...); b.FailNow() }
func (b *c18TB) Helper()                           {}

// settle waits (state predicate, watchdog inside the helper => inconclusive) until the change cache has seen every allocated sequence.
func (d *c18DB) settle() {
	d.rt.GetDatabase().WaitForPendingChanges(&c18TB{TB: d.t, name: d.name})
}

func (d *c18DB) waitState(want string) {
	deadline := time.Now().Add(c18Watchdog)
	for {
		resp := d.admin("GET", "/{{.db}}/", "")
		var root struct {
			State string `json:"state"`
		}
		_ = json.Unmarshal(resp.Body.Bytes(), &root)
		if resp.Code == 200 && root.State == want {
			return
		}
		if time.Now().After(deadline) {
			panic(c18Abort{fmt.Sprintf("%s: database did not reach state %s (last %d %s)", d.name, want, resp.Code, root.State)})
		}
		time.Sleep(10 * time.Millisecond)
	}
}

type c18ResyncStatus struct {
	Status        string `json:"status"`
	LastError     string `json:"last_error"`
	DocsChanged   int64  `json:"docs_changed"`
	DocsProcessed int64  `json:"docs_processed"`
	DocsErrored   int64  `json:"docs_errored"`
}

// resync: the database must already be offline. Returns the completed status.
func (d *c18DB) resync(regen bool) c18ResyncStatus {
	q := "/{{.db}}/_resync?action=start"
	if regen {
		q += "&regenerate_sequences=true"
	}
	d.must("POST", q, "", 200)
	deadline := time.Now().Add(c18Watchdog)
	for {
		resp := d.admin("GET", "/{{.db}}/_resync", "")
		var st c18ResyncStatus
		_ = json.Unmarshal(resp.Body.Bytes(), &st)
		if resp.Code == 200 && st.Status == string(db.BackgroundProcessStateCompleted) {
			return st
		}
		if resp.Code == 200 && (st.Status == string(db.BackgroundProcessStateError) || st.Status == string(db.BackgroundProcessStateStopped)) {
			panic(c18Abort{fmt.Sprintf("%s: resync ended in state %s: %s", d.name, st.Status, st.LastError)})
		}
		if time.Now().After(deadline) {
			panic(c18Abort{fmt.Sprintf("%s: resync did not complete (last %d %s)", d.name, resp.Code, strings.TrimSpace(resp.Body.String()))})
		}
		time.Sleep(10 * time.Millisecond)
	}
}

// load reads the named principals the way a running deployment does: the admin API computes and stores a
// principal's channels and roles when it is read, and a user authenticating does the same.
func (d *c18DB) load(c *c18Case, names []string) {
	for _, n := range names {
		for _, p := range c.Principals {
			if p.Name != n {
				continue
			}
			if p.IsRole {
				d.must("GET", "/{{.db}}/_role/"+n, "", 200)
			} else {
				d.must("GET", "/{{.db}}/_user/"+n, "", 200)
				if resp := d.rt.SendUserRequest("GET", "/{{.db}}/", "", n); resp.Code != 200 {
					panic(c18Abort{fmt.Sprintf("%s: GET / as %s -> %d", d.name, n, resp.Code)})
				}
			}
		}
	}
}

func c18FindKey(v any, key string, visit func(any)) {
	switch x := v.(type) {
	case map[string]any:
		for k, e := range x {
			if k == key {
				visit(e)
			} else {
				c18FindKey(e, key, visit)
			}
		}
	case []any:
		for _, e := range x {
			c18FindKey(e, key, visit)
		}
	}
}

// storedUserState classifies the stored user document without loading the user:
// channels (computed+valid | pending | never computed) x roles (pending | not pending).
func (d *c18DB) storedUserState(name string) string {
	dbc := d.rt.GetDatabase()
	raw, _, err := dbc.MetadataStore.GetRaw(d.rt.Context(), dbc.MetadataKeys.UserKey(name))
	if err != nil {
		panic(c18Abort{d.name + ": raw read of user " + name + ": " + err.Error()})
	}
	var v map[string]any
	if err := json.Unmarshal(raw, &v); err != nil {
		panic(c18Abort{d.name + ": user document unparsable"})
	}
	scope := any(v)
	if ca, ok := v["collection_access"]; ok {
		scope = ca
	}
	chInval, chComputed := false, false
	c18FindKey(scope, "channel_inval_seq", func(e any) {
		if f, ok := e.(float64); ok && f > 0 {
			chInval = true
		}
	})
	c18FindKey(scope, "all_channels", func(e any) {
		if m, ok := e.(map[string]any); ok && len(m) > 0 {
			chComputed = true
		}
	})
	rolesPending := false
	if f, ok := v["role_inval_seq"].(float64); ok && f > 0 {
		rolesPending = true
	}
	ch := "channels_never_computed"
	switch {
	case chInval:
		ch = "channels_pending"
	case chComputed:
		ch = "channels_valid"
	}
	if rolesPending {
		return ch + "_roles_pending"
	}
	return ch + "_roles_not_pending"
}

// ---------------------------------------------------------------------------------------------
// observation

type c18LeafObs struct {
	Deleted  bool     `json:"deleted,omitempty"`
	Channels []string `json:"channels"`
}

type c18DocObs struct {
	Status     int                   `json:"status"`
	Winner     string                `json:"winner"`
	Tombstone  bool                  `json:"tombstone,omitempty"`
	Leaves     map[string]c18LeafObs `json:"leaves"`
	Access     map[string][]string   `json:"access"`
	RoleAccess map[string][]string   `json:"role_access"`
	Sequence   uint64                `json:"sequence"`
}

type c18PrincObs struct {
	Status   int      `json:"status"`
	Channels []string `json:"all_channels"`
	Roles    []string `json:"roles,omitempty"`
}

type c18UserView struct {
	Get     map[string]int `json:"get"`      // doc -> status of GET as the user
	GetRev  map[string]int `json:"get_rev"`  // doc@rev -> status of GET ?rev= as the user (leaves of live docs)
	AllDocs []string       `json:"all_docs"` // ids listed by _all_docs as the user
	Changes []string       `json:"changes"`  // ids listed by _changes?since=0&active_only=true as the user
}

type c18Obs struct {
	Docs  map[string]c18DocObs   `json:"docs"`
	Users map[string]c18PrincObs `json:"users"`
	Roles map[string]c18PrincObs `json:"roles"`
	Views map[string]c18UserView `json:"views"`
}

func c18Contains(xs []string, x string) bool {
	for _, y := range xs {
		if y == x {
			return true
		}
	}
	return false
}

func c18Sorted(m map[string]struct{}) []string {
	out := make([]string, 0, len(m))
	for k := range m {
		out = append(out, k)
	}
	sort.Strings(out)
	return out
}

func c18AccessNames(m db.UserAccessMap) map[string][]string {
	out := map[string][]string{}
	for name, ts := range m {
		var chs []string
		for ch := range ts {
			chs = append(chs, ch)
		}
		sort.Strings(chs)
		if len(chs) > 0 {
			out[name] = chs
		}
	}
	return out
}

func (d *c18DB) observeDoc(id string) c18DocObs {
	o := c18DocObs{Leaves: map[string]c18LeafObs{}, Access: map[string][]string{}, RoleAccess: map[string][]string{}}
	resp := d.admin("GET", "/{{.keyspace}}/_raw/"+id+"?include_doc=false&redact=false", "")
	o.Status = resp.Code
	if resp.Code != 200 {
		return o
	}
	var raw struct {
		Xattrs struct {
			Sync *db.SyncData `json:"_sync"`
		} `json:"_xattrs"`
		Sync *db.SyncData `json:"_sync"`
	}
	raw.Xattrs.Sync = &db.SyncData{History: db.RevTree{}}
	if err := json.Unmarshal(resp.Body.Bytes(), &raw); err != nil {
		panic(c18Abort{fmt.Sprintf("%s: _raw/%s unparsable: %v: %s", d.name, id, err, resp.Body.String())})
	}
	sd := raw.Xattrs.Sync
	if sd == nil || len(sd.History) == 0 {
		sd = raw.Sync
	}
	if sd == nil || len(sd.History) == 0 {
		panic(c18Abort{fmt.Sprintf("%s: _raw/%s has no _sync history: %s", d.name, id, resp.Body.String())})
	}
	o.Winner = sd.GetRevTreeID()
	o.Sequence = sd.Sequence
	for _, leaf := range sd.History.GetLeaves() {
		info := sd.History[leaf]
		lo := c18LeafObs{Deleted: info.Deleted, Channels: []string{}}
		if leaf == o.Winner {
			o.Tombstone = info.Deleted
			for ch, removal := range sd.Channels {
				if removal == nil {
					lo.Channels = append(lo.Channels, ch)
				}
			}
		} else {
			for ch := range info.Channels {
				lo.Channels = append(lo.Channels, ch)
			}
		}
		sort.Strings(lo.Channels)
		o.Leaves[leaf] = lo
	}
	o.Access = c18AccessNames(sd.Access)
	o.RoleAccess = c18AccessNames(sd.RoleAccess)
	return o
}

// c18FindStrings collects the string elements of every array stored under key anywhere in v.
func c18FindStrings(v any, key string, into map[string]struct{}) {
	switch x := v.(type) {
	case map[string]any:
		for k, e := range x {
			if k == key {
				if arr, ok := e.([]any); ok {
					for _, s := range arr {
						if str, ok := s.(string); ok {
							into[str] = struct{}{}
						}
					}
				}
				continue
			}
			c18FindStrings(e, key, into)
		}
	case []any:
		for _, e := range x {
			c18FindStrings(e, key, into)
		}
	}
}

func (d *c18DB) observePrincipal(p c18Principal) c18PrincObs {
	path := "/{{.db}}/_user/" + p.Name
	if p.IsRole {
		path = "/{{.db}}/_role/" + p.Name
	}
	resp := d.admin("GET", path, "")
	o := c18PrincObs{Status: resp.Code}
	if resp.Code != 200 {
		return o
	}
	var v map[string]any
	if err := json.Unmarshal(resp.Body.Bytes(), &v); err != nil {
		panic(c18Abort{d.name + ": principal unparsable: " + resp.Body.String()})
	}
	chs := map[string]struct{}{}
	c18FindStrings(v, "all_channels", chs)
	o.Channels = c18Sorted(chs)
	if !p.IsRole {
		rs := map[string]struct{}{}
		if arr, ok := v["roles"].([]any); ok {
			for _, s := range arr {
				if str, ok := s.(string); ok {
					rs[str] = struct{}{}
				}
			}
		}
		o.Roles = c18Sorted(rs)
	}
	return o
}

func (d *c18DB) observeView(c *c18Case, user string) c18UserView {
	v := c18UserView{Get: map[string]int{}, GetRev: map[string]int{}}
	for _, doc := range c.Docs {
		v.Get[doc.ID] = d.rt.SendUserRequest("GET", "/{{.keyspace}}/"+doc.ID, "", user).Code
		if doc.Live {
			for _, leaf := range doc.Leafs {
				v.GetRev[doc.ID+"@"+leaf] = d.rt.SendUserRequest("GET", "/{{.keyspace}}/"+doc.ID+"?rev="+leaf, "", user).Code
			}
		}
	}
	resp := d.rt.SendUserRequest("GET", "/{{.keyspace}}/_all_docs", "", user)
	if resp.Code != 200 {
		panic(c18Abort{fmt.Sprintf("%s: _all_docs as %s -> %d %s", d.name, user, resp.Code, resp.Body.String())})
	}
	var ad struct {
		Rows []struct {
			ID string `json:"id"`
		} `json:"rows"`
	}
	_ = json.Unmarshal(resp.Body.Bytes(), &ad)
	v.AllDocs = []string{}
	for _, r := range ad.Rows {
		v.AllDocs = append(v.AllDocs, r.ID)
	}
	sort.Strings(v.AllDocs)
	resp = d.rt.SendUserRequest("GET", "/{{.keyspace}}/_changes?since=0&active_only=true", "", user)
	if resp.Code != 200 {
		panic(c18Abort{fmt.Sprintf("%s: _changes as %s -> %d %s", d.name, user, resp.Code, resp.Body.String())})
	}
	var ch struct {
		Results []struct {
			ID      string   `json:"id"`
			Deleted bool     `json:"deleted"`
			Removed []string `json:"removed"`
		} `json:"results"`
	}
	_ = json.Unmarshal(resp.Body.Bytes(), &ch)
	set := map[string]struct{}{}
	for _, r := range ch.Results {
		if r.Deleted || strings.HasPrefix(r.ID, "_user/") || strings.HasPrefix(r.ID, "_role/") {
			continue
		}
		set[r.ID] = struct{}{}
	}
	v.Changes = c18Sorted(set)
	return v
}

func (d *c18DB) observe(c *c18Case) *c18Obs {
	o := &c18Obs{Docs: map[string]c18DocObs{}, Users: map[string]c18PrincObs{}, Roles: map[string]c18PrincObs{}, Views: map[string]c18UserView{}}
	for _, doc := range c.Docs {
		o.Docs[doc.ID] = d.observeDoc(doc.ID)
	}
	for _, p := range c.Principals {
		if p.IsRole {
			o.Roles[p.Name] = d.observePrincipal(p)
		} else {
			o.Users[p.Name] = d.observePrincipal(p)
		}
	}
	for _, p := range c.Principals {
		if !p.IsRole {
			o.Views[p.Name] = d.observeView(c, p.Name)
		}
	}
	return o
}

// ---------------------------------------------------------------------------------------------
// comparison

func c18Diff(r, f []string) string {
	rs, fs := map[string]bool{}, map[string]bool{}
	for _, x := range r {
		rs[x] = true
	}
	for _, x := range f {
		fs[x] = true
	}
	extra, missing := false, false
	for x := range rs {
		if !fs[x] {
			extra = true
		}
	}
	for x := range fs {
		if !rs[x] {
			missing = true
		}
	}
	switch {
	case extra && missing:
		return "resynced-has-stale-and-lacks-new"
	case extra:
		return "resynced-has-stale-extra"
	case missing:
		return "resynced-lacks"
	}
	return ""
}

func c18MapDiff(r, f map[string][]string) string {
	keys := map[string]struct{}{}
	for k := range r {
		keys[k] = struct{}{}
	}
	for k := range f {
		keys[k] = struct{}{}
	}
	extra, missing := false, false
	for k := range keys {
		switch c18Diff(r[k], f[k]) {
		case "resynced-has-stale-extra":
			extra = true
		case "resynced-lacks":
			missing = true
		case "resynced-has-stale-and-lacks-new":
			extra, missing = true, true
		}
	}
	switch {
	case extra && missing:
		return "resynced-has-stale-and-lacks-new"
	case extra:
		return "resynced-has-stale-extra"
	case missing:
		return "resynced-lacks"
	}
	return ""
}

func c18StatusMapDiff(r, f map[string]int) (string, []string) {
	var keys []string
	extra, missing := false, false
	for k, rv := range r {
		fv := f[k]
		if rv == fv {
			continue
		}
		keys = append(keys, fmt.Sprintf("%s: resynced=%d fresh=%d", k, rv, fv))
		if rv == 200 && fv != 200 {
			extra = true
		} else if fv == 200 && rv != 200 {
			missing = true
		} else {
			extra, missing = true, true
		}
	}
	sort.Strings(keys)
	switch {
	case extra && missing:
		return "resynced-shows-stale-and-hides-new", keys
	case extra:
		return "resynced-shows-what-fresh-hides", keys
	case missing:
		return "resynced-hides-what-fresh-shows", keys
	}
	return "", nil
}

type c18Env struct {
	t              *testing.T
	run            *vlib.Run
	diagSeen       atomic.Int32 // tombstone diagnostics are counted always, spelled out only a few times
	storedAtResync sync.Map     // case index -> stored state of each user when the function changed
}

func (e *c18Env) diagNote(format string, a ...any) {
	if e.diagSeen.Add(1) <= 8 {
		e.run.Note(format, a...)
	}
}

func (e *c18Env) witness(c *c18Case, extra map[string]any) map[string]any {
	w := map[string]any{
		"case":        c,
		"f1_source":   c.F1.Source(false),
		"f2_source":   c.F2.Source(false),
		"f2_in_fresh": c.F2.Source(true),
		"how_to_replay": "R: RestTester (persistent config, rosmar, conflicts allowed via EnableAllowConflicts) with sync function f1_source; create principals; (pushes[:late_from], then GET _user/_role of loaded_before_late_pushes and one authenticated GET / per user, then pushes[late_from:], then the same for loaded_before_resync; nobody else is read before the resync) PUT each push as " +
			"/{keyspace}/<doc>?new_edits=false with _revisions{start,ids=[digest]+anc} (and _deleted) in the listed order; PUT /{keyspace}/_config/sync f2_source; POST /{db}/_offline; " +
			"POST /{db}/_resync?action=start[&regenerate_sequences=true]; wait for completed; POST /{db}/_online; read. F: fresh RestTester with f2_in_fresh, same principals, same pushes. " +
			"Re-run only this case: VERIF_CASE=<case> VERIF_SEED=<seed> ./check C18 <tier>",
	}
	for k, v := range extra {
		w[k] = v
	}
	return w
}

func c18DocWritesInLog(ops []*base.VerifOp) map[string]int {
	out := map[string]int{}
	for _, op := range ops {
		if !op.Mutating || !op.Applied || strings.HasSuffix(op.Kind, ".mid") {
			continue
		}
		if strings.HasPrefix(op.Key, base.SyncDocPrefix) || strings.HasPrefix(op.Key, "_sync") {
			continue
		}
		out[op.Key]++
	}
	return out
}

const c18FixedBase = 100000 // case indexes of the fixed minimal histories

func (e *c18Env) runCase(idx int) {
	run := e.run
	var c *c18Case
	if idx >= c18FixedBase {
		for _, fc := range c18FixedCases(c18FixedBase) {
			if fc.Idx == idx {
				c = fc
			}
		}
		if c == nil {
			return
		}
		run.Count("fixed_histories_run", 1)
	} else {
		c = c18GenCase(run.CaseRand(idx), idx)
	}
	defer func() {
		if p := recover(); p != nil {
			if a, ok := p.(c18Abort); ok {
				run.Inconclusive("harness step failed")
				run.Note("case %d inconclusive: %s", idx, a.why)
				return
			}
			panic(p)
		}
	}()
	run.Eval()
	f1src, f2src, f2fresh := c.F1.Source(false), c.F2.Source(false), c.F2.Source(true)

	// ---- R: written under f1, switched to f2, resynced
	vs := newVStore(e.t)
	rtR := vs.NewRestTester(e.t, &RestTesterConfig{SyncFn: f1src, PersistentConfig: true})
	defer rtR.Close()
	if resp := rtR.CreateDatabase("db", rtR.NewDbConfig()); resp.Code != 201 {
		panic(c18Abort{"R: create database: " + resp.Body.String()})
	}
	R := &c18DB{t: e.t, rt: rtR, name: "R"}
	rtR.GetDatabase().EnableAllowConflicts(e.t)
	R.createPrincipals(c.Principals)
	for _, rev := range c.Revs[:c.LateFrom] {
		R.push(rev)
	}
	R.load(c, c.LoadEarly)
	for _, rev := range c.Revs[c.LateFrom:] {
		R.push(rev)
	}
	R.settle()
	R.load(c, c.LoadLate)
	run.Count("principals_loaded_before_late_writes", len(c.LoadEarly))
	run.Count("principals_loaded_before_resync", len(c.LoadLate))
	run.Count("principals_not_loaded_before_resync", len(c.Principals)-len(c.LoadLate))
	run.Count("writes_after_first_load", len(c.Revs)-c.LateFrom)
	switch len(c.LoadLate) {
	case 0:
		run.Count("cases_no_principal_loaded_before_resync", 1)
	case len(c.Principals):
		run.Count("cases_all_principals_loaded_before_resync", 1)
	default:
		run.Count("cases_some_principals_loaded_before_resync", 1)
	}
	// stored state of every user at the moment the function changes (raw read: does not load the principal)
	pending := map[string]string{}
	for _, p := range c.Principals {
		if p.IsRole {
			continue
		}
		st := R.storedUserState(p.Name)
		pending[p.Name] = st
		run.Count("users_at_resync_"+st, 1)
	}
	// state under f1, documents only (reading principals here would load them and hide pending invalidations)
	before := &c18Obs{Docs: map[string]c18DocObs{}}
	for _, doc := range c.Docs {
		before.Docs[doc.ID] = R.observeDoc(doc.ID)
	}
	R.must("PUT", "/{{.keyspace}}/_config/sync", f2src, 200)
	R.must("POST", "/{{.db}}/_offline", "", 200)
	// the database refuses document writes while offline / resyncing: writes cannot race a resync in this version
	if resp := R.admin("PUT", "/{{.keyspace}}/c18race", `{"a":"c0"}`); resp.Code == http.StatusServiceUnavailable {
		run.Count("writes_refused_while_offline", 1)
	} else {
		run.Note("case %d: a document write while offline answered %d (expected 503): racing writes may be possible", idx, resp.Code)
		run.Count("writes_accepted_while_offline", 1)
	}
	vs.ResetLog()
	st1 := R.resync(c.Regen)
	if resp := R.admin("PUT", "/{{.keyspace}}/c18race", `{"a":"c0"}`); resp.Code == http.StatusServiceUnavailable {
		run.Count("writes_refused_while_offline", 1)
	}
	writes1 := c18DocWritesInLog(vs.Log())
	run.Count("resyncs_run", 1)
	run.Count("docs_changed_by_first_resync", int(st1.DocsChanged))
	run.Count("docs_processed_by_first_resync", int(st1.DocsProcessed))
	run.Count("doc_writes_logged_first_resync", len(writes1))
	if int(st1.DocsChanged) != len(writes1) {
		run.Count("diag_docs_changed_counter_differs_from_logged_document_writes", 1)
		run.Note("diagnostic: case %d first resync reports docs_changed=%d, the storage log shows %d documents written", idx, st1.DocsChanged, len(writes1))
	}
	if st1.DocsErrored != 0 {
		run.Violation("resync-status", fmt.Sprintf("C18|first-resync-reports-errored-documents|regen=%v", c.Regen),
			fmt.Sprintf("first resync reported docs_errored=%d", st1.DocsErrored), e.witness(c, map[string]any{"status": st1}))
	}
	R.must("POST", "/{{.db}}/_online", "", 200)
	R.waitState("Online")
	R.settle()
	obsR := R.observe(c)

	// ---- F: the same pushes under (nullified) f2 from the start
	rtF := NewRestTester(e.t, &RestTesterConfig{SyncFn: f2fresh})
	defer rtF.Close()
	_ = rtF.Bucket()
	F := &c18DB{t: e.t, rt: rtF, name: "F"}
	rtF.GetDatabase().EnableAllowConflicts(e.t)
	F.createPrincipals(c.Principals)
	for _, rev := range c.Revs {
		F.push(rev)
	}
	F.settle()
	obsF := F.observe(c)
	truth := F.evaluateLeaves(c)

	e.storedAtResync.Store(c.Idx, pending)
	e.compare(c, before, obsR, obsF, truth, st1, writes1)

	// ---- second resync: must change nothing
	R.must("POST", "/{{.db}}/_offline", "", 200)
	vs.ResetLog()
	st2 := R.resync(false)
	writes2 := c18DocWritesInLog(vs.Log())
	run.Count("resyncs_run", 1)
	run.Count("second_resyncs_checked", 1)
	if len(writes2) > 0 || st2.DocsChanged != 0 {
		var keys []string
		for k := range writes2 {
			keys = append(keys, k)
		}
		sort.Strings(keys)
		run.Violation("second-resync-idempotent",
			fmt.Sprintf("C18|second-resync-changes-documents|first-regen=%v", c.Regen),
			fmt.Sprintf("a second resync (no function change, regenerate_sequences=false) wrote documents %v and reported docs_changed=%d", keys, st2.DocsChanged),
			e.witness(c, map[string]any{"second_status": st2, "documents_written": writes2, "resynced_state": obsR}))
	}
	if st1.DocsChanged > 0 && c.F1.key() != c.F2.key() {
		run.Nontrivial(c.shapeKey())
	}
	run.Distinct("function_pairs", c.F1.key()+"→"+c.F2.key())
	run.Sample(map[string]any{"case": idx, "f1": f1src, "f2": f2src, "edits": c.Edits, "regenerate_sequences": c.Regen, "docs": c.Docs,
		"first_resync": st1, "second_resync": st2, "pushes": len(c.Revs)})
}

// c18Truth is what the (nullified) f2 produces for one revision body evaluated from scratch: the body is
// written as a document of its own in the fresh database (after F has been observed) and read back.
type c18Truth struct {
	Channels   []string            `json:"channels"`
	Access     map[string][]string `json:"access"`
	RoleAccess map[string][]string `json:"role_access"`
}

// evaluateLeaves: for every live leaf of every live document, evaluate f2 on that revision alone.
// (A conflicting leaf that once was the winner keeps no channel record on the normal write path - the
// fresh database is then not a usable reference for that leaf, the function itself is.)
func (d *c18DB) evaluateLeaves(c *c18Case) map[string]c18Truth {
	out := map[string]c18Truth{}
	for _, rev := range c.Revs {
		doc := c.doc(rev.Doc)
		if !rev.Leaf || rev.Deleted || doc == nil || !doc.Live {
			continue
		}
		id := "ev_" + rev.Doc + "_" + rev.Rev
		b, _ := json.Marshal(rev.Body)
		d.must("PUT", "/{{.keyspace}}/"+id, string(b), 201)
		o := d.observeDoc(id)
		if o.Status != 200 {
			panic(c18Abort{fmt.Sprintf("%s: evaluation document %s not readable: %d", d.name, id, o.Status)})
		}
		out[rev.Doc+"@"+rev.Rev] = c18Truth{Channels: o.Leaves[o.Winner].Channels, Access: o.Access, RoleAccess: o.RoleAccess}
	}
	return out
}

func (c *c18Case) rejectedByF2(docID, revID string) string {
	if c.F2.Rej == "none" {
		return "no"
	}
	for _, rev := range c.Revs {
		if rev.Doc == docID && rev.Rev == revID {
			if k, ok := rev.Body["k"].(int); ok && k == c.F2.RejK {
				return "throw-at-" + c.F2.Rej
			}
		}
	}
	return "no"
}

func c18GrantNames(r, f map[string][]string, _ bool, into map[string]struct{}) {
	keys := map[string]struct{}{}
	for k := range r {
		keys[k] = struct{}{}
	}
	for k := range f {
		keys[k] = struct{}{}
	}
	for k := range keys {
		if c18Diff(r[k], f[k]) != "" {
			into[k] = struct{}{} // access: the grantee ("u1" / "role:r1"); role_access: the user whose roles differ
		}
	}
}

func (e *c18Env) compare(c *c18Case, before, R, F *c18Obs, truth map[string]c18Truth, st1 c18ResyncStatus, writes1 map[string]int) {
	run := e.run
	extra := func(m map[string]any) map[string]any {
		m["resynced"] = R
		m["fresh"] = F
		m["function_evaluated_per_leaf"] = truth
		m["first_resync_status"] = st1
		m["documents_written_by_first_resync"] = writes1
		if st, ok := e.storedAtResync.Load(c.Idx); ok {
			m["stored_user_state_when_the_function_changed"] = st
		}
		return e.witness(c, m)
	}
	// names (as they appear in _sync.access / role_access keys) whose grants differ between R and the reference
	liveNames, tombNames := map[string]struct{}{}, map[string]struct{}{}
	liveKinds := map[string]struct{}{}
	freshUnreliable := false
	freshLeafOK := map[string]bool{} // doc@leaf -> the fresh database agrees with the function on that leaf's channels
	reported := map[string]bool{}    // doc / doc@leaf whose channel assignment already differs (reported at document level)

	for _, d := range c.Docs {
		dr, df := R.Docs[d.ID], F.Docs[d.ID]
		if dr.Status != 200 || df.Status != 200 || dr.Winner != df.Winner || len(dr.Leaves) != len(df.Leaves) {
			// same pushes, same order: the trees must agree or the harness is broken, not the property
			run.Inconclusive("revision trees of R and F differ")
			run.Note("case %d doc %s: R status=%d winner=%s leaves=%d, F status=%d winner=%s leaves=%d", c.Idx, d.ID, dr.Status, dr.Winner, len(dr.Leaves), df.Status, df.Winner, len(df.Leaves))
			freshUnreliable = true
			continue
		}
		bd := before.Docs[d.ID]
		changedByResync := vlib.JSON(bd.Leaves) != vlib.JSON(dr.Leaves) || vlib.JSON(bd.Access) != vlib.JSON(dr.Access) || vlib.JSON(bd.RoleAccess) != vlib.JSON(dr.RoleAccess)
		if !d.Live {
			// tombstones: own channel maps are non-deciding diagnostics; the grants they keep feed the cause attribution
			run.Count("tombstones_seen", 1)
			if vlib.JSON(dr.Leaves) != vlib.JSON(df.Leaves) {
				run.Count("diag_tombstone_channel_maps_differ", 1)
				e.diagNote("diagnostic: tombstone (%s) channel maps differ: resynced=%s fresh=%s", d.Shape, vlib.JSON(dr.Leaves), vlib.JSON(df.Leaves))
			}
			if c18MapDiff(dr.Access, df.Access) != "" || c18MapDiff(dr.RoleAccess, df.RoleAccess) != "" {
				c18GrantNames(dr.Access, df.Access, false, tombNames)
				c18GrantNames(dr.RoleAccess, df.RoleAccess, true, tombNames)
				run.Count("diag_tombstone_grants_differ", 1)
				e.diagNote("diagnostic: tombstone (%s) grants differ: resynced access=%s role_access=%s fresh access=%s role_access=%s", d.Shape, vlib.JSON(dr.Access), vlib.JSON(dr.RoleAccess), vlib.JSON(df.Access), vlib.JSON(df.RoleAccess))
			}
			continue
		}
		run.Count("documents_compared", 1)
		if changedByResync {
			run.Count("live_documents_changed_by_resync", 1)
		}
		written := "document-rewritten-by-resync"
		if writes1[d.ID] == 0 {
			written = "document-not-rewritten-by-resync"
		}
		for leaf, lr := range dr.Leaves {
			lf := df.Leaves[leaf]
			kind := "conflicting-leaf"
			if leaf == dr.Winner {
				kind = "winner"
			}
			if lr.Deleted {
				// a tombstoned branch of a live document: diagnostic only
				if vlib.JSON(lr.Channels) != vlib.JSON(lf.Channels) {
					run.Count("diag_tombstoned_leaf_channels_differ", 1)
				}
				continue
			}
			tr, ok := truth[d.ID+"@"+leaf]
			if !ok {
				run.Inconclusive("no from-scratch evaluation for a live leaf")
				continue
			}
			run.Count("leaves_compared", 1)
			if kind == "conflicting-leaf" {
				run.Count("conflicting_leaves_compared", 1)
			}
			rej := c.rejectedByF2(d.ID, leaf)
			if rej != "no" {
				run.Count("leaves_rejected_by_f2_compared", 1)
			}
			freshLeafOK[d.ID+"@"+leaf] = c18Diff(lf.Channels, tr.Channels) == ""
			if !freshLeafOK[d.ID+"@"+leaf] {
				if kind == "winner" {
					freshUnreliable = true
					run.Inconclusive("fresh database disagrees with the function on a winning revision")
				} else {
					// not a C18 matter: the normal write path keeps no channel record for a leaf that was the winner and
					// was then demoted by a revision on another branch (db/crud.go documentUpdateFunc records channels only
					// for a revision that is non-winning when it arrives)
					run.Count("diag_fresh_db_conflicting_leaf_channels_differ_from_function", 1)
				}
			}
			if diff := c18Diff(lr.Channels, tr.Channels); diff != "" {
				sig := fmt.Sprintf("C18|doc-channels|leaf=winner|rejected-by-f2=%s", rej)
				if kind != "winner" {
					sig = "C18|doc-channels|leaf=conflicting-leaf|" + written
				}
				reported[d.ID+"@"+leaf] = true
				if kind == "winner" {
					reported[d.ID] = true
				}
				run.Violation("doc-channels", sig,
					fmt.Sprintf("document %s (%s, %s) leaf %s (%s, rejected by f2: %s): channels after resync %v, f2 evaluated on that revision %v (fresh database: %v) [%s]", d.ID, d.Shape, written, leaf, kind, rej, lr.Channels, tr.Channels, lf.Channels, diff),
					extra(map[string]any{"doc": d.ID, "leaf": leaf}))
			}
			if kind != "winner" {
				continue
			}
			if c18MapDiff(df.Access, tr.Access) != "" || c18MapDiff(df.RoleAccess, tr.RoleAccess) != "" {
				freshUnreliable = true
				run.Inconclusive("fresh database disagrees with the function on a winning revision")
				run.Note("case %d doc %s: fresh access=%s role_access=%s, function alone access=%s role_access=%s", c.Idx, d.ID, vlib.JSON(df.Access), vlib.JSON(df.RoleAccess), vlib.JSON(tr.Access), vlib.JSON(tr.RoleAccess))
			}
			if diff := c18MapDiff(dr.Access, tr.Access); diff != "" {
				c18GrantNames(dr.Access, tr.Access, false, liveNames)
				liveKinds["access/rejected-by-f2="+rej] = struct{}{}
				run.Violation("doc-access", fmt.Sprintf("C18|doc-access-grants|rejected-by-f2=%s", rej),
					fmt.Sprintf("document %s (%s, %s): access grants after resync %s, f2 evaluated on the winning revision %s [%s]", d.ID, d.Shape, written, vlib.JSON(dr.Access), vlib.JSON(tr.Access), diff),
					extra(map[string]any{"doc": d.ID}))
			}
			if diff := c18MapDiff(dr.RoleAccess, tr.RoleAccess); diff != "" {
				c18GrantNames(dr.RoleAccess, tr.RoleAccess, true, liveNames)
				liveKinds["role/rejected-by-f2="+rej] = struct{}{}
				run.Violation("doc-role-access", fmt.Sprintf("C18|doc-role-grants|rejected-by-f2=%s", rej),
					fmt.Sprintf("document %s (%s, %s): role grants after resync %s, f2 evaluated on the winning revision %s [%s]", d.ID, d.Shape, written, vlib.JSON(dr.RoleAccess), vlib.JSON(tr.RoleAccess), diff),
					extra(map[string]any{"doc": d.ID}))
			}
		}
	}
	if freshUnreliable {
		return
	}

	// cause attribution for one principal: its own name, or a role it holds in either database, appears in differing grants
	causeOf := func(p c18Principal) string {
		names := []string{p.Name}
		if p.IsRole {
			names = []string{"role:" + p.Name}
		} else {
			for _, r := range append(append([]string{}, R.Users[p.Name].Roles...), F.Users[p.Name].Roles...) {
				names = append(names, "role:"+r)
			}
		}
		for _, n := range names {
			if _, ok := liveNames[n]; ok {
				return "live-document-grants-differ[" + strings.Join(c18Sorted(liveKinds), ",") + "]"
			}
		}
		for _, n := range names {
			if _, ok := tombNames[n]; ok {
				return "tombstone-keeps-grants-of-old-function"
			}
		}
		return fmt.Sprintf("document-grants-agree-principal-stale|regen=%v", c.Regen)
	}

	// principals
	differs := map[string]bool{}
	for _, p := range c.Principals {
		var pr, pf c18PrincObs
		what := "user"
		if p.IsRole {
			what = "role"
			pr, pf = R.Roles[p.Name], F.Roles[p.Name]
			run.Count("roles_compared", 1)
		} else {
			pr, pf = R.Users[p.Name], F.Users[p.Name]
			run.Count("users_compared", 1)
		}
		if pr.Status != 200 || pf.Status != 200 {
			run.Inconclusive("principal not readable")
			continue
		}
		dc, dr := c18Diff(pr.Channels, pf.Channels), ""
		if !p.IsRole {
			dr = c18Diff(pr.Roles, pf.Roles)
		}
		if dc == "" && dr == "" {
			continue
		}
		differs[p.Name] = true
		run.Violation("principal-effective-access", "C18|effective-access-differs|cause="+causeOf(p),
			fmt.Sprintf("%s %s (loaded before the resync: %v): after resync channels %v roles %v; from scratch under f2 channels %v roles %v", what, p.Name, c18Contains(c.LoadLate, p.Name), pr.Channels, pr.Roles, pf.Channels, pf.Roles),
			extra(map[string]any{"principal": p.Name}))
	}
	// a user inherits the difference of a role it holds
	for _, p := range c.Principals {
		if p.IsRole {
			continue
		}
		for _, r := range append(append([]string{}, R.Users[p.Name].Roles...), F.Users[p.Name].Roles...) {
			if differs[r] {
				differs[p.Name] = true
			}
		}
	}

	// what each user can see. A difference for a user whose effective access already differs is a consequence of
	// that (reported above) and only counted; with equal effective access it is a finding of its own.
	for _, p := range c.Principals {
		if p.IsRole {
			continue
		}
		vr, vf := R.Views[p.Name], F.Views[p.Name]
		liveOnly := func(m map[string]int) map[string]int {
			out := map[string]int{}
			for k, v := range m {
				if d := c.doc(k); d != nil && d.Live && !reported[k] {
					out[k] = v
				}
			}
			return out
		}
		liveIDs := func(ids []string) []string {
			out := []string{}
			for _, id := range ids {
				if d := c.doc(id); d != nil && d.Live && !reported[id] {
					out = append(out, id)
				}
			}
			return out
		}
		revR, revF := map[string]int{}, map[string]int{}
		for k, v := range vr.GetRev {
			id, leaf, _ := strings.Cut(k, "@")
			lo, ok := R.Docs[id].Leaves[leaf]
			if !ok || lo.Deleted {
				continue // leaves that are deletions: diagnostics only
			}
			if reported[k] {
				run.Count("leaf_reads_skipped_channel_difference_already_reported", 1)
				continue
			}
			if !freshLeafOK[k] {
				run.Count("leaf_reads_skipped_fresh_db_not_a_reference", 1)
				continue
			}
			revR[k], revF[k] = v, vf.GetRev[k]
		}
		run.Count("visibility_checks", len(liveOnly(vr.Get))+len(revR)+2)
		for _, st := range liveOnly(vr.Get) {
			if st == 200 {
				run.Count("documents_visible_to_some_user", 1)
			} else {
				run.Count("documents_hidden_from_some_user", 1)
			}
		}
		type vd struct{ oracle, what, diff, msg string }
		var found []vd
		if diff, keys := c18StatusMapDiff(liveOnly(vr.Get), liveOnly(vf.Get)); diff != "" {
			found = append(found, vd{"visible-get", "GET", diff, fmt.Sprintf("GET of live documents differs: %v", keys)})
		}
		if diff, keys := c18StatusMapDiff(revR, revF); diff != "" {
			found = append(found, vd{"visible-get-rev", "GET?rev", diff, fmt.Sprintf("GET ?rev= of live leaves differs: %v", keys)})
		}
		if diff := c18Diff(liveIDs(vr.AllDocs), liveIDs(vf.AllDocs)); diff != "" {
			found = append(found, vd{"visible-alldocs", "_all_docs", diff, fmt.Sprintf("_all_docs lists %v after resync, %v from scratch", vr.AllDocs, vf.AllDocs)})
		}
		if diff := c18Diff(liveIDs(vr.Changes), liveIDs(vf.Changes)); diff != "" {
			found = append(found, vd{"visible-changes", "_changes", diff, fmt.Sprintf("_changes (active_only) lists %v after resync, %v from scratch", vr.Changes, vf.Changes)})
		}
		for _, f := range found {
			if differs[p.Name] {
				run.Count("visibility_differences_following_from_effective_access", 1)
				continue
			}
			run.Violation(f.oracle, fmt.Sprintf("C18|user-visible-documents(%s)|effective-access-agrees|regen=%v", f.what, c.Regen),
				fmt.Sprintf("user %s (same effective channels and roles in both databases): %s [%s]", p.Name, f.msg, f.diff), extra(map[string]any{"user": p.Name}))
		}
	}
}

func TestVerif_C18_Resync(t *testing.T) {
	run := vlib.Start(t, "C18", "resync")
	defer run.Finish()
	e := &c18Env{t: t, run: run}
	run.Note("writes racing a resync are out of reach in this version: POST /{db}/_resync requires the database to be offline (rest/api.go handlePostResync) and an offline/resyncing database answers document writes with 503 (probed in every case: counter writes_refused_while_offline)")
	n := run.N(40, 600)
	var jobs []int
	for _, fc := range c18FixedCases(c18FixedBase) {
		jobs = append(jobs, fc.Idx)
	}
	for i := 0; i < n; i++ {
		jobs = append(jobs, i)
	}
	if only, ok := run.OnlyCase(); ok {
		jobs = []int{only}
	}
	ch := make(chan int, len(jobs))
	var wg sync.WaitGroup
	workers := 6
	for w := 0; w < workers; w++ {
		wg.Add(1)
		go func() {
			defer wg.Done()
			for i := range ch {
				e.runCase(i)
			}
		}()
	}
	for _, j := range jobs {
		ch <- j
	}
	close(ch)
	wg.Wait()
}
