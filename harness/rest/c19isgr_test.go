//go:build verif

package rest

// C19, replication to another peer: bodies written on one RestTester peer are pushed to / pulled by a second
// peer with inter-Sync-Gateway replication (V3 revtree and V4 version-vector sub-protocols) and read there.

import (
	"encoding/json"
	"fmt"
	"testing"
	"time"

	"github.com/couchbase/sync_gateway/db"
	"verif/vlib"
)

func TestVerif_C19_ISGR(t *testing.T) {
	run := vlib.Start(t, "C19", "isgr")
	defer run.Finish()
	n := run.N(200, 1500)
	for pi, proto := range []db.CBMobileSubprotocolVersion{db.CBMobileReplicationV3, db.CBMobileReplicationV4} {
		name := "V3"
		if proto == db.CBMobileReplicationV4 {
			name = "V4"
		}
		t.Run(name, func(t *testing.T) { c19ISGR(t, run, proto.SubprotocolString(), name, pi, n) })
	}
	c19Seen.Lock()
	run.Count("distinct_write_read_pairs", len(c19Seen.pairs))
	c19Seen.Unlock()
}

func c19WaitReplication(c *c19Ctx, id string) bool {
	deadline := time.Now().Add(c19Watchdog)
	last := ""
	for time.Now().Before(deadline) {
		resp := c.rt.SendAdminRequest("GET", "/{{.db}}/_replicationStatus/"+id, "")
		var st struct {
			Status       string `json:"status"`
			ErrorMessage string `json:"error_message"`
		}
		_ = json.Unmarshal(resp.Body.Bytes(), &st)
		last = resp.Body.String()
		if resp.Code == 200 && st.Status == db.ReplicationStateStopped {
			c.run.Note("replication %s finished: %s", id, c19Trunc(last, 400))
			return true
		}
		if st.Status == db.ReplicationStateError {
			break
		}
		time.Sleep(20 * time.Millisecond)
	}
	c.run.Note("replication %s did not stop: %s", id, c19Trunc(last, 400))
	c.run.Inconclusive("one-shot replication did not reach the stopped state within the watchdog")
	return false
}

func c19ISGR(t *testing.T, run *vlib.Run, proto, pname string, pi, n int) {
	syncFn := `function(doc){channel("c19");}`
	peers := SetupISGRPeersWithOpts(t, TestISGRPeerOpts{
		ActivePeerSupportedBLIPSubProtocols: []string{proto},
		ActiveRestTesterConfig:              &RestTesterConfig{DatabaseConfig: &DatabaseConfig{DbConfig: DbConfig{Name: "activedb"}}, SgReplicateEnabled: true, SyncFn: syncFn},
		PassiveRestTesterConfig:             &RestTesterConfig{DatabaseConfig: &DatabaseConfig{DbConfig: DbConfig{Name: "passivedb"}}, SyncFn: syncFn},
	})
	active := &c19Ctx{t: t, run: run, rt: peers.ActiveRT, tag: "isgr-" + pname + "-active"}
	passive := &c19Ctx{t: t, run: run, rt: peers.PassiveRT, tag: "isgr-" + pname + "-passive"}
	run.Count("peer_pairs", 1)
	only, onlyOK := run.OnlyCase()

	mk := func(c *c19Ctx, side string, base int) []*c19Doc {
		var docs []*c19Doc
		for i := 0; i < n; i++ {
			ci := base + i
			if onlyOK && ci != only {
				continue
			}
			r := run.CaseRand(ci)
			body, feats := c19GenBody(r, ci)
			st := c19NewStyle(r.Fork(3))
			d := &c19Doc{CI: ci, WPath: "PUT", ID: fmt.Sprintf("c19i-%s-%s-%d", pname, side, ci), Feats: feats}
			d.R1 = &c19Rev{Stage: "rev1", WPath: "PUT", Text: c19Render(body, st)}
			if err := c19SelfCheck(body, d.R1.Text); err != nil {
				t.Fatalf("monitor self-check failed on case %d: %v", ci, err)
			}
			run.Count("monitor_selfchecks", 1)
			d.R1.Exp, _ = c19Parse([]byte(d.R1.Text))
			for _, f := range feats {
				run.Distinct("features", f)
			}
			resp := c.rt.SendAdminRequest("PUT", c.keyspaceURL(d.ID), d.R1.Text)
			var wr c19WriteResp
			_ = json.Unmarshal(resp.Body.Bytes(), &wr)
			if resp.Code == 201 && wr.Rev != "" {
				c.acceptedWrite(d, wr.Rev)
			} else {
				c.rejected(d, fmt.Sprintf("%d %s", resp.Code, c19Trunc(resp.Body.String(), 200)))
			}
			docs = append(docs, d)
			if i == 0 && pi == 0 && side == "a" {
				run.Sample(map[string]any{"case": ci, "doc_id": d.ID, "written_on": "active peer", "body": d.R1.Text, "sub_protocol": proto})
			}
		}
		c.rt.WaitForPendingChanges()
		return docs
	}
	// different bodies per protocol and per side
	onActive := mk(active, "a", pi*2*n)
	onPassive := mk(passive, "p", pi*2*n+n)

	readOn := func(c *c19Ctx, docs []*c19Doc, read string) {
		for _, d := range docs {
			if !d.Accepted {
				continue
			}
			path := c.keyspaceURL(d.ID)
			resp := c.rt.SendAdminRequest("GET", path, "")
			request := "GET " + path + " on the other peer after the one-shot replication"
			raw := resp.Body.Bytes()
			if resp.Code == 404 {
				c.readFailed(d, d.R1, read, "document-not-sent", string(raw), request)
				continue
			}
			if resp.Code != 200 {
				c.readFailed(d, d.R1, read, fmt.Sprintf("status=%d", resp.Code), string(raw), request)
				continue
			}
			got, err := c19Parse(raw)
			if err != nil {
				run.Eval()
				c19Violation(run, "value-equality", "C19|write=PUT|read="+read+"|response-not-valid-json", fmt.Sprintf("doc %s: %s returned %s: %v", d.ID, request, c19Trunc(string(raw), 300), err),
					map[string]any{"case": d.CI, "doc_id": d.ID, "written_body": d.R1.Text, "read_request": request, "response": c19Trunc(string(raw), 6000)})
				continue
			}
			c.check(d, d.R1, read, got, string(raw), request)
			run.Count("replicated_documents_compared", 1)
		}
		// and the feed of the receiving peer
		c.rt.WaitForPendingChanges()
		c.readChanges(read+"+changes-include_docs", "0", docs, c19PickR1)
	}

	active.rt.CreateReplication("c19push"+pname, peers.PassiveDBURL, db.ActiveReplicatorTypePush, nil, false, db.ConflictResolverDefault, "")
	if c19WaitReplication(active, "c19push"+pname) {
		run.Count("replications_completed", 1)
		passive.rt.WaitForPendingChanges()
		readOn(passive, onActive, "isgr-push-"+pname+"+GET-on-peer")
	}
	active.rt.CreateReplication("c19pull"+pname, peers.PassiveDBURL, db.ActiveReplicatorTypePull, nil, false, db.ConflictResolverDefault, "")
	if c19WaitReplication(active, "c19pull"+pname) {
		run.Count("replications_completed", 1)
		active.rt.WaitForPendingChanges()
		readOn(active, onPassive, "isgr-pull-"+pname+"+GET-on-peer")
	}
}
