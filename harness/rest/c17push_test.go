//go:build verif

package rest

import (
	"sync/atomic"
	"errors"
	"context"
	"encoding/json"
	"fmt"
	"net/url"
	"strings"
	"sync"
	"testing"
	"time"

	"github.com/couchbase/sync_gateway/base"
	"github.com/couchbase/sync_gateway/channels"
	"github.com/couchbase/sync_gateway/db"
	"verif/vlib"
)

// C17 at the system level: a real push replication between two gateways. Every value that reaches the
// active side's checkpoint document is judged at the moment it is written: every change of the active
// database with a sequence at or below it must already be stored on the passive side (processed) or have
// been known there before the replication started. The passive side stores revisions slowly, checkpoint
// ticks are frequent, and the schedule perturbation point between the "already known" and the "expected"
// notification of a changes response is widened (hook H2, build tag verif).

func TestVerif_C17_Push(t *testing.T) {
	run := vlib.Start(t, "C17", "push")
	defer run.Finish()
	rounds := run.N(6, 60)
	for round := 0; round < rounds; round++ {
		for _, proto := range []string{db.CBMobileReplicationV3.SubprotocolString(), db.CBMobileReplicationV4.SubprotocolString()} {
			// a subtest per round: the peers' cleanups (registered by the setup helper) run when it ends
			t.Run(fmt.Sprintf("r%d-%s", round, proto), func(t *testing.T) { c17PushRound(t, run, round, proto, false) })
		}
	}
}

// Two changes batches of one push in flight (DefaultMaxConcurrentChangesBatches = 2): the batch size is 2-3, the first
// batch consists of wanted revisions whose documents the ACTIVE side reads slowly (so its revisions are sent, and its
// sequences announced to the checkpointer, late), later batches are mostly already known to the passive side and are
// answered at once. Same oracle: every persisted checkpoint value is judged when it is written.
func TestVerif_C17_PushBatches(t *testing.T) {
	run := vlib.Start(t, "C17", "push-batches")
	defer run.Finish()
	rounds := run.N(6, 60)
	for round := 0; round < rounds; round++ {
		for _, proto := range []string{db.CBMobileReplicationV3.SubprotocolString(), db.CBMobileReplicationV4.SubprotocolString()} {
			t.Run(fmt.Sprintf("r%d-%s", round, proto), func(t *testing.T) { c17PushRound(t, run, round, proto, true) })
		}
	}
}

func c17PushRound(t *testing.T, run *vlib.Run, round int, proto string, batches bool) {
	r := run.CaseRand(round)
	vsA := newVStore(t) // active
	vsP := newVStore(t) // passive
	ctx := base.TestCtx(t)
	t.Cleanup(func() { vsA.Close(ctx); vsP.Close(ctx) })
	peers := SetupISGRPeersWithOpts(t, TestISGRPeerOpts{
		ActivePeerSupportedBLIPSubProtocols: []string{proto},
		ActiveRestTesterConfig: &RestTesterConfig{DatabaseConfig: &DatabaseConfig{DbConfig: DbConfig{Name: "activedb"}}, SgReplicateEnabled: true,
			SyncFn: channels.DocChannelsSyncFunction, CustomTestBucket: vsA.vtb},
		PassiveRestTesterConfig: &RestTesterConfig{DatabaseConfig: &DatabaseConfig{DbConfig: DbConfig{Name: "passivedb"}},
			SyncFn: channels.DocChannelsSyncFunction, CustomTestBucket: vsP.vtb},
	})
	active, passive := peers.ActiveRT, peers.PassiveRT

	// corpus: n documents on the active side; a PRNG-chosen subset is already on the passive side with the same revision
	n := r.Range(4, 9)
	batchSize := 200
	if batches {
		batchSize = r.Range(2, 3)
		n = batchSize + r.Range(2, 5)
	}
	type docT struct {
		ID    string
		Seq   uint64
		Known bool
	}
	docs := make([]*docT, n)
	for i := range docs {
		d := &docT{ID: fmt.Sprintf("c17p-%d-%d", round, i), Known: r.Bool()}
		if i == 0 {
			d.Known = false
		}
		if i == n-1 {
			d.Known = true // the batch ends on an already known change: the shape that lets a checkpoint run ahead
		}
		if batches {
			// first batch: wanted; later batches: already known except, sometimes, one wanted revision
			d.Known = i >= batchSize && !(i == batchSize && r.Chance(1, 3))
		}
		body := fmt.Sprintf(`{"channels":["alice"],"n":%d,"_revisions":{"start":1,"ids":["abc%d"]}}`, i, i)
		resp := active.SendAdminRequest("PUT", "/{{.keyspace}}/"+d.ID+"?new_edits=false", body)
		if resp.Code != 201 {
			t.Fatalf("active put: %d %s", resp.Code, resp.Body.String())
		}
		if d.Known {
			resp = passive.SendAdminRequest("PUT", "/{{.keyspace}}/"+d.ID+"?new_edits=false", body)
			if resp.Code != 201 {
				t.Fatalf("passive put: %d %s", resp.Code, resp.Body.String())
			}
		}
		d.Seq = active.GetDocumentSequence(d.ID)
		docs[i] = d
	}
	active.WaitForPendingChanges()
	passive.WaitForPendingChanges()
	passiveRaw := base.GetBaseDataStore(passive.GetSingleDataStore())

	// the passive side stores pushed revisions slowly
	delay := time.Duration(r.Range(30, 80)) * time.Millisecond
	vsP.SetFault(func(op *base.VerifOp, actor string) base.VerifDecision {
		if op.Kind == "WriteUpdateWithXattrs" && strings.HasPrefix(op.Key, "c17p-") {
			time.Sleep(delay)
		}
		return base.VerifDecision{}
	})
	if batches {
		// the active side reads the documents of the first batch slowly while it sends their revisions
		slow := map[string]bool{}
		for i := 0; i < batchSize; i++ {
			slow[docs[i].ID] = true
		}
		rdelay := time.Duration(r.Range(40, 90)) * time.Millisecond
		vsA.SetFault(func(op *base.VerifOp, actor string) base.VerifDecision {
			if slow[op.Key] && strings.HasPrefix(op.Kind, "Get") {
				time.Sleep(rdelay)
			}
			return base.VerifDecision{}
		})
		defer vsA.SetFault(nil)
	}
	// widen the window between the two notifications of a changes response
	db.SetVerifPointHook(func(name string) {
		if name == "push-changes-response-between-known-and-expected" {
			time.Sleep(25 * time.Millisecond)
		}
	})
	defer db.SetVerifPointHook(nil)

	// monitor: every value reaching the active side's checkpoint document
	var mu sync.Mutex
	var checkpoints []string
	judged := 0
	var lastSeq db.SequenceID
	vsA.SetPostHook(func(op *base.VerifOp) {
		if !op.Applied || !strings.Contains(op.Key, db.CheckpointDocIDPrefix) || len(op.Value) == 0 {
			return
		}
		var cp struct {
			LastSeq string `json:"last_sequence"`
		}
		if json.Unmarshal(op.Value, &cp) != nil || cp.LastSeq == "" {
			return
		}
		seq, err := db.ParsePlainSequenceID(cp.LastSeq)
		if err != nil {
			return
		}
		mu.Lock()
		defer mu.Unlock()
		checkpoints = append(checkpoints, cp.LastSeq)
		judged++
		if seq.Before(lastSeq) {
			run.Violation("monotone", "C17|push|persisted-checkpoint-moved-backwards", fmt.Sprintf("local checkpoint %s written after %s", cp.LastSeq, lastSeq.String()), map[string]any{"checkpoints": checkpoints, "protocol": proto})
		}
		lastSeq = seq
		var behind []string
		for _, d := range docs {
			if d.Known || d.Seq > seq.SafeSequence() {
				continue
			}
			if ok, _ := passiveRaw.Exists(context.Background(), d.ID); !ok {
				behind = append(behind, fmt.Sprintf("%s(seq %d)", d.ID, d.Seq))
			}
		}
		if len(behind) > 0 {
			shape := []string{}
			for _, d := range docs {
				k := "wanted"
				if d.Known {
					k = "known"
				}
				shape = append(shape, fmt.Sprintf("%d:%s", d.Seq, k))
			}
			sig := "C17|push|persisted-checkpoint-ahead-of-a-sent-unprocessed-change"
			if batches {
				sig = "C17|push|two-batches-in-flight|persisted-checkpoint-ahead-of-an-unprocessed-change-of-an-earlier-batch"
			}
			run.Violation("safety", sig,
				fmt.Sprintf("checkpoint %s was persisted while %v had not been stored by the passive peer yet (a restart from this checkpoint skips them)", cp.LastSeq, behind),
				map[string]any{"protocol": proto, "batch": shape, "changes_batch_size": batchSize, "checkpoints": checkpoints, "passive_store_delay_ms": delay.Milliseconds()})
		}
	})
	defer vsA.SetPostHook(nil)

	replID := fmt.Sprintf("c17push%d%s", round, strings.ReplaceAll(proto, ".", ""))
	stats, err := base.SyncGatewayStats.NewDBStats(replID, false, false, false, false, nil, nil)
	if err != nil {
		t.Fatalf("stats: %v", err)
	}
	rstats, err := stats.DBReplicatorStats(replID)
	if err != nil {
		t.Fatalf("rstats: %v", err)
	}
	remote, _ := url.Parse(peers.PassiveDBURL)
	ar, err := db.NewActiveReplicator(active.Context(), &db.ActiveReplicatorConfig{
		ID: replID, Direction: db.ActiveReplicatorTypePush, RemoteDBURL: remote,
		ActiveDB:               &db.Database{DatabaseContext: active.GetDatabase()},
		ChangesBatchSize:       uint16(batchSize),
		CheckpointInterval:     2 * time.Millisecond,
		ReplicationStatsMap:    rstats,
		CollectionsEnabled:     !active.GetDatabase().OnlyDefaultCollection(),
		SupportedBLIPProtocols: []string{proto},
		Continuous:             true,
	})
	if err != nil {
		t.Fatalf("replicator: %v", err)
	}
	if err := ar.Start(active.Context()); err != nil {
		t.Fatalf("start: %v", err)
	}
	// bounded wait: every wanted document stored on the passive side
	deadline := time.Now().Add(30 * time.Second)
	for {
		missing := 0
		for _, d := range docs {
			if ok, _ := passiveRaw.Exists(context.Background(), d.ID); !ok {
				missing++
			}
		}
		if missing == 0 {
			break
		}
		if time.Now().After(deadline) {
			run.Inconclusive("push did not deliver every document within the watchdog")
			break
		}
		time.Sleep(5 * time.Millisecond)
	}
	time.Sleep(30 * time.Millisecond) // a few more checkpoint ticks
	_ = ar.Stop()
	vsP.SetFault(nil)
	mu.Lock()
	run.Count("checkpoint_values_judged", judged)
	run.Count("documents_pushed", n)
	mu.Unlock()
	run.Eval()
	if judged > 0 {
		run.Nontrivial(fmt.Sprintf("%d/%s/%d", round, proto, judged))
	}
	if round == 0 {
		run.Sample(map[string]any{"protocol": proto, "documents": docs, "checkpoints": checkpoints})
	}
}


// C17 at the system level, pull direction: the active gateway pulls from the passive one. The checkpoint value is a
// sequence of the PASSIVE database; every value reaching the active side's checkpoint document is judged when it is
// written: every change of the passive database at or below it must already be stored on the active side or have been
// there before the replication started. The active side stores pulled revisions slowly, the changes batch size is 2-3 so
// that several batches are in flight, and a PRNG-chosen subset of the documents is already known to the active side.
func TestVerif_C17_Pull(t *testing.T) {
	run := vlib.Start(t, "C17", "pull")
	defer run.Finish()
	rounds := run.N(6, 60)
	for round := 0; round < rounds; round++ {
		for _, proto := range []string{db.CBMobileReplicationV3.SubprotocolString(), db.CBMobileReplicationV4.SubprotocolString()} {
			t.Run(fmt.Sprintf("r%d-%s", round, proto), func(t *testing.T) { c17PullRound(t, run, round, proto) })
		}
	}
}

func c17PullRound(t *testing.T, run *vlib.Run, round int, proto string) {
	r := run.CaseRand(round)
	vsA := newVStore(t) // active (pulling)
	vsP := newVStore(t) // passive
	ctx := base.TestCtx(t)
	t.Cleanup(func() { vsA.Close(ctx); vsP.Close(ctx) })
	peers := SetupISGRPeersWithOpts(t, TestISGRPeerOpts{
		ActivePeerSupportedBLIPSubProtocols: []string{proto},
		ActiveRestTesterConfig: &RestTesterConfig{DatabaseConfig: &DatabaseConfig{DbConfig: DbConfig{Name: "activedb"}}, SgReplicateEnabled: true,
			SyncFn: channels.DocChannelsSyncFunction, CustomTestBucket: vsA.vtb},
		PassiveRestTesterConfig: &RestTesterConfig{DatabaseConfig: &DatabaseConfig{DbConfig: DbConfig{Name: "passivedb"}},
			SyncFn: channels.DocChannelsSyncFunction, CustomTestBucket: vsP.vtb},
	})
	active, passive := peers.ActiveRT, peers.PassiveRT
	batchSize := vlib.Pick(r, []int{2, 3, 200})
	n := r.Range(5, 9)
	type docT struct {
		ID    string
		Seq   uint64 // sequence in the passive database
		Known bool
	}
	docs := make([]*docT, n)
	firstWanted := r.Intn(3)
	for i := range docs {
		d := &docT{ID: fmt.Sprintf("c17l-%d-%d", round, i), Known: r.Bool()}
		if i <= firstWanted {
			d.Known = false
		}
		if batchSize < 200 && i >= batchSize {
			d.Known = r.Chance(3, 4)
		}
		body := fmt.Sprintf(`{"channels":["alice"],"n":%d,"_revisions":{"start":1,"ids":["abc%d"]}}`, i, i)
		resp := passive.SendAdminRequest("PUT", "/{{.keyspace}}/"+d.ID+"?new_edits=false", body)
		if resp.Code != 201 {
			t.Fatalf("passive put: %d %s", resp.Code, resp.Body.String())
		}
		if d.Known {
			resp = active.SendAdminRequest("PUT", "/{{.keyspace}}/"+d.ID+"?new_edits=false", body)
			if resp.Code != 201 {
				t.Fatalf("active put: %d %s", resp.Code, resp.Body.String())
			}
		}
		d.Seq = passive.GetDocumentSequence(d.ID)
		docs[i] = d
	}
	active.WaitForPendingChanges()
	passive.WaitForPendingChanges()
	activeRaw := base.GetBaseDataStore(active.GetSingleDataStore())

	delay := time.Duration(r.Range(30, 80)) * time.Millisecond
	slowFirst := r.Bool() // only the first batch's documents are stored slowly / all are
	slowLookup := batchSize < 200 && r.Bool() // the pulling side looks up the first batch's documents slowly while it answers the changes message
	// in a third of the rounds the pulling side's store refuses the write of one wanted document once (transient storage error):
	// that revision stays announced-and-unprocessed for the rest of the run, so no persisted checkpoint may reach its sequence
	refusedDoc := ""
	if r.Chance(1, 3) {
		var wanted []string
		for _, d := range docs {
			if !d.Known {
				wanted = append(wanted, d.ID)
			}
		}
		if len(wanted) > 0 {
			refusedDoc = wanted[r.Intn(len(wanted))]
		}
	}
	var refusedOnce atomic.Bool
	vsA.SetFault(func(op *base.VerifOp, actor string) base.VerifDecision {
		if refusedDoc != "" && op.Kind == "WriteUpdateWithXattrs" && op.Key == refusedDoc && refusedOnce.CompareAndSwap(false, true) {
			run.Count("pulled_revisions_refused_once_by_a_transient_storage_error", 1)
			return base.VerifDecision{Action: base.VerifFailBefore, Err: errors.New("verif: injected transient storage error")}
		}
		if slowLookup && strings.HasPrefix(op.Kind, "Get") && strings.HasPrefix(op.Key, "c17l-") {
			for i := 0; i < batchSize && i < len(docs); i++ {
				if docs[i].ID == op.Key {
					time.Sleep(delay)
				}
			}
		}
		if op.Kind == "WriteUpdateWithXattrs" && strings.HasPrefix(op.Key, "c17l-") {
			if slowFirst {
				for i := 0; i < batchSize && i < len(docs); i++ {
					if docs[i].ID == op.Key {
						time.Sleep(delay)
					}
				}
			} else {
				time.Sleep(delay)
			}
		}
		return base.VerifDecision{}
	})
	defer vsA.SetFault(nil)

	// widen the window between the two checkpointer notifications of a pulled changes batch (hook H2)
	db.SetVerifPointHook(func(name string) {
		if name == "pull-changes-between-expected-and-known" {
			time.Sleep(25 * time.Millisecond)
		}
	})
	defer db.SetVerifPointHook(nil)

	var mu sync.Mutex
	var checkpoints []string
	judged := 0
	var lastSeq db.SequenceID
	vsA.SetPostHook(func(op *base.VerifOp) {
		if !op.Applied || !strings.Contains(op.Key, db.CheckpointDocIDPrefix) || len(op.Value) == 0 {
			return
		}
		var cp struct {
			LastSeq string `json:"last_sequence"`
		}
		if json.Unmarshal(op.Value, &cp) != nil || cp.LastSeq == "" {
			return
		}
		seq, err := db.ParsePlainSequenceID(cp.LastSeq)
		if err != nil {
			return
		}
		mu.Lock()
		defer mu.Unlock()
		checkpoints = append(checkpoints, cp.LastSeq)
		judged++
		if seq.Before(lastSeq) {
			run.Violation("monotone", "C17|pull|persisted-checkpoint-moved-backwards", fmt.Sprintf("local checkpoint %s written after %s", cp.LastSeq, lastSeq.String()), map[string]any{"checkpoints": checkpoints, "protocol": proto})
		}
		lastSeq = seq
		var behind []string
		for _, d := range docs {
			if d.Known || d.Seq > seq.SafeSequence() {
				continue
			}
			if ok, _ := activeRaw.Exists(context.Background(), d.ID); !ok {
				behind = append(behind, fmt.Sprintf("%s(seq %d)", d.ID, d.Seq))
			}
		}
		if len(behind) > 0 {
			shape := []string{}
			for _, d := range docs {
				k := "wanted"
				if d.Known {
					k = "known"
				}
				shape = append(shape, fmt.Sprintf("%d:%s", d.Seq, k))
			}
			sig := "C17|pull|persisted-checkpoint-ahead-of-an-announced-unprocessed-change"
			if batchSize < 200 {
				sig = "C17|pull|several-batches-in-flight|persisted-checkpoint-ahead-of-an-announced-unprocessed-change"
			}
			run.Violation("safety", sig,
				fmt.Sprintf("checkpoint %s was persisted while %v had not been stored by the pulling peer yet (a restart from this checkpoint skips them)", cp.LastSeq, behind),
				map[string]any{"protocol": proto, "feed": shape, "changes_batch_size": batchSize, "checkpoints": checkpoints, "active_store_delay_ms": delay.Milliseconds(), "only_first_batch_slow": slowFirst, "first_batch_looked_up_slowly": slowLookup})
		}
	})
	defer vsA.SetPostHook(nil)

	replID := fmt.Sprintf("c17pull%d%s", round, strings.ReplaceAll(proto, ".", ""))
	stats, err := base.SyncGatewayStats.NewDBStats(replID, false, false, false, false, nil, nil)
	if err != nil {
		t.Fatalf("stats: %v", err)
	}
	rstats, err := stats.DBReplicatorStats(replID)
	if err != nil {
		t.Fatalf("rstats: %v", err)
	}
	remote, _ := url.Parse(peers.PassiveDBURL)
	ar, err := db.NewActiveReplicator(active.Context(), &db.ActiveReplicatorConfig{
		ID: replID, Direction: db.ActiveReplicatorTypePull, RemoteDBURL: remote,
		ActiveDB:               &db.Database{DatabaseContext: active.GetDatabase()},
		ChangesBatchSize:       uint16(batchSize),
		CheckpointInterval:     2 * time.Millisecond,
		ReplicationStatsMap:    rstats,
		CollectionsEnabled:     !active.GetDatabase().OnlyDefaultCollection(),
		SupportedBLIPProtocols: []string{proto},
		Continuous:             true,
	})
	if err != nil {
		t.Fatalf("replicator: %v", err)
	}
	if err := ar.Start(active.Context()); err != nil {
		t.Fatalf("start: %v", err)
	}
	deadline := time.Now().Add(30 * time.Second)
	for {
		missing := 0
		for _, d := range docs {
			if d.ID == refusedDoc && refusedOnce.Load() {
				continue // refused once: only a restart of the replication retries it
			}
			if ok, _ := activeRaw.Exists(context.Background(), d.ID); !ok {
				missing++
			}
		}
		if missing == 0 {
			break
		}
		if time.Now().After(deadline) {
			run.Inconclusive("pull did not deliver every document within the watchdog")
			break
		}
		time.Sleep(5 * time.Millisecond)
	}
	time.Sleep(30 * time.Millisecond)
	if refusedOnce.Load() {
		time.Sleep(120 * time.Millisecond) // let some checkpoint ticks pass after the refusal
	}
	_ = ar.Stop()
	mu.Lock()
	run.Count("checkpoint_values_judged", judged)
	run.Count("documents_pulled", n)
	mu.Unlock()
	run.Eval()
	if judged > 0 {
		run.Nontrivial(fmt.Sprintf("%d/%s/%d/%d", round, proto, batchSize, judged))
	}
	if round == 0 {
		run.Sample(map[string]any{"protocol": proto, "documents": docs, "checkpoints": checkpoints, "changes_batch_size": batchSize})
	}
}
