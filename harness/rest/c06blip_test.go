//go:build verif

package rest

// C06, part "blip": a database and a replicating client. The client is the repository's BlipTesterClient (V3
// revision-tree and V4 version-vector sub-protocols), which holds its own documents. A case is a seeded script of
// client-side and server-side edits / deletes / resurrections of 3 documents interleaved with one-shot pushes and
// one-shot pulls of the client, optionally with a server-side write forced into the compute->CAS window of a pushed
// revision. At the end pull + push rounds are repeated until one complete round changes neither side; then every
// document must have the same current revision (V3: revision id, V4: current version), body and tombstone state on
// the client and on the server, and that idle round must not have transferred a revision in either direction.
//
// The test client resolves a pulled conflict "last write wins" and cannot push back a local win (it does not fold
// the server's version into its vector), so its clock is set far behind the server's: every conflict is won by
// the server's revision on the client. Which side wins is not part of the oracle.

import (
	"encoding/json"
	"fmt"
	"reflect"
	"runtime"
	"strconv"
	"strings"
	"sync"
	"sync/atomic"
	"testing"
	"time"

	"github.com/couchbase/go-blip"
	"github.com/couchbase/sync_gateway/base"
	"github.com/couchbase/sync_gateway/db"
	"verif/vlib"
)

// c06SoftTB is handed to the repository's test client: an assertion failing inside that test double (its handlers
// run on their own goroutines) is recorded and makes the case inconclusive instead of failing the whole check.
type c06SoftTB struct {
	testing.TB
	mu     sync.Mutex
	failed bool
	msgs   []string
}

func (s *c06SoftTB) record(msg string) {
	s.mu.Lock()
	s.failed = true
	if len(s.msgs) < 5 {
		s.msgs = append(s.msgs, c06Trunc(msg, 1500))
	}
	s.mu.Unlock()
}
func (s *c06SoftTB) Errorf(format string, a ...any) { s.record(fmt.Sprintf(format, a...)) }
func (s *c06SoftTB) Error(a ...any)                 { s.record(fmt.Sprint(a...)) }
func (s *c06SoftTB) Fatalf(format string, a ...any) {
	s.record(fmt.Sprintf(format, a...))
	runtime.Goexit()
}
func (s *c06SoftTB) Fatal(a ...any) { s.record(fmt.Sprint(a...)); runtime.Goexit() }
func (s *c06SoftTB) Fail()          { s.record("Fail()") }
func (s *c06SoftTB) FailNow()       { s.record("FailNow()"); runtime.Goexit() }
func (s *c06SoftTB) Helper()        {}
func (s *c06SoftTB) Failed() bool {
	s.mu.Lock()
	defer s.mu.Unlock()
	return s.failed
}
func (s *c06SoftTB) messages() []string {
	s.mu.Lock()
	defer s.mu.Unlock()
	return append([]string{}, s.msgs...)
}

type c06bEnv struct {
	*c06Env
	soft *c06SoftTB
	srv  *c06Peer
	btc  *BlipTesterClient
	btcc *BlipTesterCollectionClient
	hlvC bool

	mu         sync.Mutex
	handled    map[uint64]bool
	maxHandled uint64
	start      uint64
	inflight   int
	caughtUp   uint64
	expected   int
	received   int
	revsPulled int
	clock      atomic.Uint64
}

func (e *c06bEnv) wrap(profile string, h blip.Handler) blip.Handler {
	return func(msg *blip.Message) {
		e.mu.Lock()
		e.inflight++
		e.mu.Unlock()
		h(msg)
		n := uint64(msg.SerialNumber())
		asked, caught := 0, false
		switch profile {
		case db.MessageChanges:
			body, _ := msg.Body()
			if msg.NoReply() || len(body) == 0 || string(body) == "null" || string(body) == "[]" {
				caught = true
			} else if resp := msg.Response(); resp != nil {
				rb, _ := resp.Body()
				var answers []any
				_ = json.Unmarshal(rb, &answers)
				for _, a := range answers {
					if a != nil {
						asked++
					}
				}
			}
		}
		e.mu.Lock()
		e.handled[n] = true
		if n > e.maxHandled {
			e.maxHandled = n
		}
		if caught && n > e.caughtUp {
			e.caughtUp = n
		}
		e.expected += asked
		if profile == db.MessageRev || profile == db.MessageNoRev {
			e.received++
			if profile == db.MessageRev {
				e.revsPulled++
			}
		}
		e.inflight--
		e.mu.Unlock()
	}
}

func c06bSetup(t *testing.T, run *vlib.Run, c *c06Case) *c06bEnv {
	e := &c06bEnv{c06Env: &c06Env{t: t, run: run, c: c, hlv: c.Proto == "V4", harness: base.VerifGoroutineID(), written: map[string]map[string]bool{}},
		handled: map[uint64]bool{}, hlvC: c.Proto == "V4"}
	for i := 0; i < c06NumDocs; i++ {
		id := fmt.Sprintf("c06b%d", i)
		e.docIDs = append(e.docIDs, id)
		e.written[id] = map[string]bool{}
	}
	vs := newVStore(t)
	rt := vs.NewRestTester(t, &RestTesterConfig{GuestEnabled: false, DatabaseConfig: &DatabaseConfig{DbConfig: DbConfig{Name: fmt.Sprintf("c06b%d", c.Index)}}})
	t.Cleanup(rt.Close)
	e.srv = &c06Peer{name: "server", rt: rt, vs: vs}
	rt.CreateUser("c06bob", []string{"*"})
	p := e.srv
	p.vs.SetFault(func(op *base.VerifOp, _ string) base.VerifDecision {
		if _, mine := p.inHook.Load(op.Gid); mine {
			p.hookOps.Store(op.N, true)
		}
		return base.VerifDecision{}
	})
	p.vs.SetMid(func(op *base.VerifOp, _ string) error {
		if !p.midArmed.Load() || op.Gid == e.harness || !e.isDocKey(op.Key) {
			return nil
		}
		if _, mine := p.inHook.Load(op.Gid); mine {
			return nil
		}
		if int(p.midDoc.Load()) != e.docIndex(op.Key) {
			return nil
		}
		if op.Deleted && p.midDelete.Load() {
			// a local delete inside the window of a replicated tombstone write makes rosmar answer "deleteBody=true on a
			// tombstone" instead of a CAS mismatch (an artefact of the test store): stay armed for the next write
			return nil
		}
		if !p.midArmed.CompareAndSwap(true, false) {
			return nil
		}
		if fn := p.midFn.Load(); fn != nil {
			p.inHook.Store(op.Gid, true)
			(*fn)(e.docIndex(op.Key))
			p.inHook.Delete(op.Gid)
		}
		return nil
	})

	runner := NewBlipTesterClientRunner(t)
	proto := db.CBMobileReplicationV3.SubprotocolString()
	if e.hlvC {
		proto = db.CBMobileReplicationV4.SubprotocolString()
	}
	runner.SetSubprotocols([]string{proto})
	e.btc = runner.NewBlipTesterClientOptsWithRT(rt, &BlipTesterClientOpts{Username: "c06bob", AllowCreationWithoutBlipTesterClientRunner: true,
		SourceID: fmt.Sprintf("c06cl%d", c.Index)})
	t.Cleanup(e.btc.Close)
	e.btcc = runner.SingleCollection(e.btc.id)
	// the client's clock is far behind the server's (see the file comment)
	e.clock.Store(1000)
	e.btc.SetHLCClockForTest(func() uint64 { return e.clock.Add(1000) })
	bctx := e.btc.pullReplication.bt.blipContext
	for profile, h := range bctx.HandlerForProfile {
		bctx.HandlerForProfile[profile] = e.wrap(profile, h)
	}
	// from here on the test client's own assertions go to the soft TB (registered last = restored first at cleanup)
	e.soft = &c06SoftTB{TB: t}
	rt.UpdateTB(e.soft)
	t.Cleanup(func() { rt.UpdateTB(t) })
	return e
}

// clientBroken: an assertion inside the test client failed; the case cannot be judged.
func (e *c06bEnv) clientBroken() bool {
	if !e.soft.Failed() {
		return false
	}
	e.run.Inconclusive("blip: an assertion inside the repository's test client failed (case not judged)")
	e.run.Count("test_client_assertion_failures", 1)
	e.run.Note("blip case %d (%s): test client assertion: %v; trace tail: %v", e.c.Index, e.c.Proto, e.soft.messages(), c06Tail(e.traceCopy(), 8))
	return true
}

// client-side view of one document
type c06bClientDoc struct {
	Exists  bool   `json:"exists"`
	Deleted bool   `json:"deleted"`
	Rev     string `json:"rev,omitempty"`
	CV      string `json:"cv,omitempty"`
	Body    any    `json:"body,omitempty"`
	BodyRaw string `json:"body_raw,omitempty"`
	version *DocVersion
}

func (e *c06bEnv) clientDoc(id string) *c06bClientDoc {
	body, _, ver := e.btcc.GetDoc(id)
	d := &c06bClientDoc{}
	if ver == nil {
		return d
	}
	d.Exists, d.version = true, ver
	d.Rev = ver.RevTreeID
	if !ver.CV.IsEmpty() {
		d.CV = ver.CV.String()
	}
	if body == nil {
		d.Deleted = true
		return d
	}
	d.BodyRaw = string(body)
	if v, err := c06DecodeJSON(body); err == nil {
		if m, ok := v.(map[string]any); ok {
			for _, k := range []string{"_id", "_rev", "_cv", "_deleted", "_revisions", "_exp"} {
				delete(m, k)
			}
			d.Body = m
		}
	}
	return d
}

func (d *c06bClientDoc) fp() string {
	return fmt.Sprintf("%v|%v|%s|%s|%s", d.Exists, d.Deleted, d.Rev, d.CV, d.BodyRaw)
}

func (e *c06bEnv) clientWrite(doc int, kind string) {
	id := e.docIDs[doc]
	cur := e.clientDoc(id)
	e.writeN++
	marker := fmt.Sprintf("%s-c%d-client-w%d-%s", e.c.Tag, e.c.Index, e.writeN, id)
	body := []byte(fmt.Sprintf(`{"marker":%q,"n":%d}`, marker, e.writeN))
	switch {
	case kind == "delete" && (!cur.Exists || cur.Deleted):
		e.tr("client: delete %s skipped (not live)", id)
		return
	case kind == "delete":
		v, _ := e.btcc.Delete(id, cur.version)
		e.tr("client: delete %s (parent %s%s) -> %s%s", id, cur.Rev, cur.CV, v.RevTreeID, c06bCV(v))
		e.run.Count("client_delete", 1)
	case !cur.Exists:
		v := e.btcc.AddRev(id, nil, body)
		e.written[id][marker] = true
		e.tr("client: create %s -> %s%s", id, v.RevTreeID, c06bCV(v))
		e.run.Count("client_create", 1)
	default:
		v := e.btcc.AddRev(id, cur.version, body)
		e.written[id][marker] = true
		what := "edit"
		if cur.Deleted {
			what = "resurrect"
		}
		e.tr("client: %s %s (parent %s%s) -> %s%s", what, id, cur.Rev, cur.CV, v.RevTreeID, c06bCV(v))
		e.run.Count("client_"+what, 1)
	}
	e.run.Count("client_writes", 1)
}

func c06bCV(v DocVersion) string {
	if v.CV.IsEmpty() {
		return ""
	}
	return v.CV.String()
}

func (e *c06bEnv) clientHasDocs() bool {
	for _, id := range e.docIDs {
		if e.clientDoc(id).Exists {
			return true
		}
	}
	return false
}

// push: one one-shot push of everything the client holds; completed = the client's push goroutine has ended.
func (e *c06bEnv) push() (revsSent int, ok bool) {
	if !e.clientHasDocs() {
		e.tr("client: push skipped (client holds no document)")
		return 0, true
	}
	before := e.pushedRevs()
	e.btcc.StartPushWithOpts(BlipTesterPushOptions{Continuous: false, Since: "0"})
	e.run.Count("client_pushes", 1)
	deadline := time.Now().Add(c06Watchdog)
	for e.btcc.pushRunning.IsTrue() {
		if e.soft.Failed() {
			return 0, false
		}
		if time.Now().After(deadline) {
			e.tr("WATCHDOG waiting for the client's push to end")
			return 0, false
		}
		time.Sleep(time.Millisecond)
	}
	n := e.pushedRevs() - before
	e.tr("client: push completed (%d rev messages sent)", n)
	return n, true
}

func (e *c06bEnv) clientState() string {
	var parts []string
	for _, id := range e.docIDs {
		parts = append(parts, id+"="+e.clientDoc(id).fp())
	}
	return strings.Join(parts, " ; ")
}

func (e *c06bEnv) pushedRevs() int {
	n := 0
	for _, m := range e.btc.pushReplication.GetMessages() {
		if m.Properties["Profile"] == db.MessageRev {
			n++
		}
	}
	return n
}

// pull: one one-shot pull since 0; completed = the server's "caught up" message arrived, every server message
// numbered up to it has been handled, no handler is running and every requested revision arrived as rev / norev.
func (e *c06bEnv) pull() (revs int, ok bool) {
	e.mu.Lock()
	e.caughtUp, e.expected, e.received, e.revsPulled = 0, 0, 0, 0
	e.start = e.maxHandled
	e.mu.Unlock()
	e.btcc.StartPullSince(BlipTesterPullOptions{Continuous: false, Since: "0"})
	e.run.Count("client_pulls", 1)
	deadline := time.Now().Add(c06Watchdog)
	for {
		done := false
		e.mu.Lock()
		if e.caughtUp > 0 && e.inflight == 0 && e.received >= e.expected {
			done = true
			for n := e.start + 1; n <= e.caughtUp; n++ {
				if !e.handled[n] {
					done = false
					break
				}
			}
		}
		revs = e.revsPulled
		e.mu.Unlock()
		if done {
			e.tr("client: pull completed (%d rev messages received); client now holds %s", revs, e.clientState())
			return revs, true
		}
		if e.soft.Failed() {
			return revs, false
		}
		if time.Now().After(deadline) {
			e.tr("WATCHDOG waiting for the client's pull to complete")
			return revs, false
		}
		time.Sleep(time.Millisecond)
	}
}

func c06bGenScript(r *vlib.Rand) []c06Step {
	var st []c06Step
	side := func() string {
		if r.Bool() {
			return "client"
		}
		return "server"
	}
	kind := func() string {
		if r.Chance(1, 3) {
			return "delete"
		}
		return "put"
	}
	for d := 0; d < c06NumDocs; d++ {
		switch r.Intn(4) {
		case 0:
			st = append(st, c06Step{Op: "write", Peer: "client", Doc: d, Kind: "put"})
		case 1:
			st = append(st, c06Step{Op: "write", Peer: "server", Doc: d, Kind: "put"})
		case 2:
			st = append(st, c06Step{Op: "write", Peer: "client", Doc: d, Kind: "put"}, c06Step{Op: "write", Peer: "server", Doc: d, Kind: "put"})
		}
	}
	n := r.Range(8, 16)
	for i := 0; i < n; i++ {
		switch x := r.Intn(20); {
		case x < 10:
			st = append(st, c06Step{Op: "write", Peer: side(), Doc: r.Intn(c06NumDocs), Kind: kind()})
		case x < 14:
			st = append(st, c06Step{Op: "push"})
		case x < 18:
			st = append(st, c06Step{Op: "pull"})
		default:
			st = append(st, c06Step{Op: "arm-mid", Peer: "server", Doc: r.Intn(c06NumDocs), Kind: kind()})
		}
	}
	return st
}

type c06bPair struct {
	Doc    string         `json:"doc"`
	Server *c06Doc        `json:"server"`
	Client *c06bClientDoc `json:"client"`
}

func (e *c06bEnv) snapshotB() []c06bPair {
	var out []c06bPair
	for _, id := range e.docIDs {
		out = append(out, c06bPair{Doc: id, Server: e.srv.read(id), Client: e.clientDoc(id)})
	}
	return out
}

func (e *c06bEnv) fpB() string {
	s := e.fingerprint(e.srv)
	for _, id := range e.docIDs {
		s += ";" + e.clientDoc(id).fp()
	}
	return s
}

func (e *c06bEnv) runCase() {
	c := e.c
	for i, s := range c.Steps {
		switch s.Op {
		case "write":
			if s.Peer == "client" {
				e.clientWrite(s.Doc, s.Kind)
			} else {
				e.write(e.srv, s.Doc, s.Kind, "")
			}
		case "push":
			if _, ok := e.push(); !ok {
				if !e.clientBroken() {
					e.run.Inconclusive("blip: the client's push did not end within the watchdog")
				}
				return
			}
		case "pull":
			if _, ok := e.pull(); !ok {
				if !e.clientBroken() {
					e.run.Inconclusive("blip: the client's pull did not complete within the watchdog")
				}
				return
			}
		case "arm-mid":
			st := s
			p := e.srv
			fn := func(doc int) {
				e.run.Count("mid_window_server_writes", 1)
				e.write(p, doc, st.Kind, " [inside the compute->CAS window of a pushed revision]")
			}
			p.midDoc.Store(int32(s.Doc))
			p.midDelete.Store(s.Kind == "delete")
			p.midFn.Store(&fn)
			p.midArmed.Store(true)
			e.tr("step %d: armed: next pushed write of %s gets a server-side %s in its compute->CAS window", i, e.docIDs[s.Doc], s.Kind)
		}
	}
	e.srv.midArmed.Store(false)
	if e.clientBroken() {
		return
	}
	// rounds of pull + push until one complete round changes nothing
	type round struct {
		Round      int      `json:"round"`
		Changed    bool     `json:"anything_changed"`
		RevsPulled int      `json:"rev_messages_received_by_client"`
		RevsPushed int      `json:"rev_messages_sent_by_client"`
		DocWrites  []string `json:"server_document_writes_in_storage_log,omitempty"`
	}
	var rounds []round
	var idle *round
	for r := 1; r <= c06MaxPasses; r++ {
		if !e.awaitFeeds(e.srv) {
			e.run.Inconclusive("blip: the server's changes feed did not reach the current revisions within the watchdog")
			return
		}
		before := e.fpB()
		n0 := e.harvest(e.srv)
		pulled, ok1 := e.pull()
		pushed, ok2 := 0, true
		if ok1 {
			pushed, ok2 = e.push()
		}
		e.harvest(e.srv)
		if e.clientBroken() {
			return
		}
		if !ok1 || !ok2 {
			e.run.Inconclusive("blip: a pull / push of the final rounds did not complete within the watchdog")
			return
		}
		rd := round{Round: r, RevsPulled: pulled, RevsPushed: pushed, Changed: before != e.fpB()}
		for _, op := range e.srv.opsCopy()[n0:] {
			if op.Applied {
				rd.DocWrites = append(rd.DocWrites, fmt.Sprintf("%s(%s) cas %d->%d", op.Kind, op.Key, op.CasIn, op.CasOut))
			}
		}
		rounds = append(rounds, rd)
		e.tr("round %d: changed=%v pulled=%d pushed=%d server-writes=%d", r, rd.Changed, pulled, pushed, len(rd.DocWrites))
		e.run.Count("final_rounds", 1)
		if !rd.Changed {
			idle = &rounds[len(rounds)-1]
			break
		}
	}
	if idle == nil {
		e.run.Inconclusive("blip: pull + push rounds kept changing client or server (never caught up)")
		e.run.Note("blip case %d never idle: %+v", c.Index, rounds)
		return
	}
	e.run.Count("cases_caught_up", 1)
	pairs := e.snapshotB()
	wit := func() map[string]any {
		return map[string]any{"case": c, "trace": e.traceCopy(), "documents": pairs, "rounds": rounds,
			"how_to_replay": "one Sync Gateway database and a BLIP client (sub-protocol as in the case) holding its own documents; apply the trace in order"}
	}
	sig := "C06|blip|" + c.Proto
	e.run.Count("idle_reruns_checked", 1)
	// The test client re-proposes every document it holds with "previous version = the version itself" for documents
	// it pulled; the server answers "send it" for those (a real client does not propose what it pulled), so the
	// number of rev messages the client re-sends is recorded, not judged. What is judged: the server sent nothing
	// and wrote nothing.
	e.run.Count("client_rev_messages_resent_in_idle_round", idle.RevsPushed)
	if idle.RevsPulled != 0 {
		e.run.Violation("idle-rerun", sig+"|rerun-of-caught-up-pull-transfers-revisions(messages)",
			fmt.Sprintf("a pull + push round that changed neither side transferred %d rev messages to the client", idle.RevsPulled), wit())
	}
	if len(idle.DocWrites) != 0 {
		e.run.Violation("idle-rerun", sig+"|rerun-of-caught-up-pull-and-push-writes-documents(storage-log)",
			fmt.Sprintf("a pull + push round that changed neither side wrote documents on the server: %v", idle.DocWrites), wit())
	}
	good := true
	for _, pr := range pairs {
		e.run.Count("documents_compared", 1)
		s, cl := pr.Server, pr.Client
		if s.RawErr != "" {
			e.run.Violation("observation", sig+"|admin-views-of-the-server-disagree", "doc "+pr.Doc+": "+s.RawErr, wit())
			good = false
			continue
		}
		st := func() string {
			cs := "missing"
			if cl.Exists && cl.Deleted {
				cs = "tombstone"
			} else if cl.Exists {
				cs = "live"
			}
			return c06State(s) + "-on-server-vs-" + cs + "-on-client"
		}
		field := ""
		switch {
		case s.Exists != cl.Exists:
			field = "existence(" + st() + ")"
		case !s.Exists:
			continue
		case s.Deleted != cl.Deleted:
			field = "tombstone-state(" + st() + ")"
		case e.hlvC && s.CV != cl.CV, !e.hlvC && s.Rev != cl.Rev:
			field = "current-revision(" + st() + ")"
		case !s.Deleted && !reflect.DeepEqual(s.Body, cl.Body):
			field = "body"
		}
		if field == "" {
			continue
		}
		good = false
		e.run.Violation("converged", sig+"|after-pull-and-push-caught-up|client-and-server-differ-in-"+field,
			fmt.Sprintf("doc %s: server has %s %s (cv %s) body %s; client has exists=%v deleted=%v %s (cv %s) body %s", pr.Doc, c06State(s), s.Rev, s.CV, s.BodyRaw,
				cl.Exists, cl.Deleted, cl.Rev, cl.CV, cl.BodyRaw), wit())
	}
	if good {
		e.run.Count("cases_converged", 1)
	}
}

func TestVerif_C06_Blip(t *testing.T) {
	run := vlib.Start(t, "C06", "blip")
	defer run.Finish()
	scripts := run.N(40, 300)
	only, onlyOK := run.OnlyCase()
	sem := make(chan struct{}, 6)
	t.Run("cases", func(t *testing.T) {
		idx := 0
		for s := 0; s < scripts; s++ {
			steps := c06bGenScript(run.CaseRand(s).Fork(1))
			for _, proto := range []string{"V3", "V4"} {
				c := &c06Case{Index: idx, Tag: "b" + strconv.Itoa(s), Script: s, Direction: "client", Proto: proto, Steps: steps}
				idx++
				if onlyOK && c.Index != only {
					continue
				}
				t.Run(fmt.Sprintf("%d-%s", c.Index, proto), func(t *testing.T) {
					t.Parallel()
					sem <- struct{}{}
					// registered first = runs last: the slot is free only after the case's buckets went back to the pool
					t.Cleanup(func() { <-sem })
					e := c06bSetup(t, run, c)
					t.Cleanup(func() {
						if t.Failed() {
							t.Logf("C06 blip case %d (%s) failed inside the test client; trace:\n%s", c.Index, c.Proto, strings.Join(e.traceCopy(), "\n"))
						}
					})
					run.Eval()
					run.Count("cases_"+proto, 1)
					if c.Index < 2 {
						run.Sample(c)
					}
					e.runCase()
					st := e.srv.rt.GetDatabase().DbStats
					run.Count("server_documents_pushed_by_client", int(st.CBLReplicationPush().DocPushCount.Value()))
					run.Count("server_writes_refused_as_conflict", int(st.Database().ConflictWriteCount.Value()))
					run.Count("server_documents_pulled_by_client", int(st.CBLReplicationPull().RevSendCount.Value()))
					cw, sw := 0, 0
					for _, l := range e.traceCopy() {
						if len(l) > 7 && l[:7] == "client:" {
							cw++
						}
						if len(l) > 7 && l[:7] == "server:" {
							sw++
						}
					}
					if cw > 0 && sw > 0 {
						run.Nontrivial(fmt.Sprintf("blip/%d/%s", c.Script, proto))
					}
				})
			}
		}
	})
}
