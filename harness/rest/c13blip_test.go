//go:build verif

package rest

import (
	"encoding/json"
	"fmt"
	"sort"
	"strconv"
	"strings"
	"sync"
	"time"

	"github.com/couchbase/go-blip"
	"github.com/couchbase/sync_gateway/db"
)

// C13, BLIP client model: a BlipTesterClient (revocations enabled, sub-protocol V3 = revision ids in even
// histories, V4 = version vectors in odd ones) runs one-shot pulls, each resuming from the sequence of the last
// changes row it received. Everything the client receives (changes rows with their deleted/revoked/removed flag
// bits and the client's own answer, rev, norev) is recorded by a wrapper around the client's handlers; the
// replica is computed from that record after the pull has completed.

const c13BlipWatchdog = 40 * time.Second

type c13BlipMsg struct {
	Serial  uint64  `json:"serial"`
	Profile string  `json:"profile"`
	Rows    [][]any `json:"rows,omitempty"`
	Answers []any   `json:"answers,omitempty"`
	ID      string  `json:"id,omitempty"`
	Rev     string  `json:"rev,omitempty"`
	Deleted bool    `json:"deleted,omitempty"`
	Removed bool    `json:"removed_body,omitempty"`
	Err     string  `json:"error,omitempty"`
	Reason  string  `json:"reason,omitempty"`
	used    bool
}

type c13BlipSession struct {
	runner *BlipTestClientRunner
	btc    *BlipTesterClient
	btcc   *BlipTesterCollectionClient

	mu         sync.Mutex
	msgs       []*c13BlipMsg // messages of the current pull
	handled    map[uint64]bool
	maxHandled uint64
	inflight   int
	start      uint64 // highest server message number handled before the current pull
	caughtUp   uint64 // number of the "caught up" message of the current pull (0: not seen)
	expected   int
	received   int
}

func (s *c13BlipSession) wrap(profile string, orig blip.Handler) blip.Handler {
	return func(msg *blip.Message) {
		s.mu.Lock()
		s.inflight++
		s.mu.Unlock()
		if orig != nil {
			orig(msg)
		}
		rec := &c13BlipMsg{Serial: uint64(msg.SerialNumber()), Profile: profile}
		body, _ := msg.Body()
		switch profile {
		case db.MessageChanges:
			if len(body) > 0 && string(body) != "null" {
				_ = json.Unmarshal(body, &rec.Rows)
			}
			if !msg.NoReply() && len(rec.Rows) > 0 {
				if resp := msg.Response(); resp != nil {
					rb, _ := resp.Body()
					_ = json.Unmarshal(rb, &rec.Answers)
					// One feed can list the same document more than once (the same revision as a change of one
					// channel and as back-fill of another; or an older removal entry of one channel followed by the
					// current revision). The BlipTesterClient would ask for every copy and then fail its own
					// assertions ("incoming CV has lower version than the local revision") when they arrive; this
					// client asks only for the last listed revision of a document and declines the earlier rows.
					last := map[string]int{}
					for i, row := range rec.Rows {
						if len(row) >= 3 {
							last[fmt.Sprint(row[1])] = i
						}
					}
					changed := false
					for i, row := range rec.Rows {
						if i >= len(rec.Answers) || len(row) < 3 || rec.Answers[i] == nil {
							continue
						}
						if last[fmt.Sprint(row[1])] != i {
							rec.Answers[i] = nil
							changed = true
						}
					}
					if changed {
						if nb, err := json.Marshal(rec.Answers); err == nil {
							resp.SetBody(nb)
						}
					}
				}
			}
		case db.MessageRev:
			rec.ID = msg.Properties[db.RevMessageID]
			rec.Rev = msg.Properties[db.RevMessageRev]
			rec.Deleted = msg.Properties[db.RevMessageDeleted] == "1" || msg.Properties[db.RevMessageDeleted] == "true"
			var b map[string]any
			if json.Unmarshal(body, &b) == nil && b["_removed"] == true {
				rec.Removed = true
			}
		case db.MessageNoRev:
			rec.ID = msg.Properties[db.NorevMessageId]
			rec.Rev = msg.Properties[db.NorevMessageRev]
			rec.Err = msg.Properties[db.NorevMessageError]
			rec.Reason = msg.Properties[db.NorevMessageReason]
		}
		s.mu.Lock()
		s.msgs = append(s.msgs, rec)
		s.handled[rec.Serial] = true
		if rec.Serial > s.maxHandled {
			s.maxHandled = rec.Serial
		}
		switch profile {
		case db.MessageChanges:
			if len(rec.Rows) == 0 {
				s.caughtUp = rec.Serial
			}
			for _, a := range rec.Answers {
				if a != nil {
					s.expected++
				}
			}
		case db.MessageRev, db.MessageNoRev:
			s.received++
		}
		s.inflight--
		s.mu.Unlock()
	}
}

func (e *c13Env) openBlip(v4 bool) bool {
	s := &c13BlipSession{handled: map[uint64]bool{}}
	s.runner = NewBlipTesterClientRunner(e.t)
	proto := db.CBMobileReplicationV3.SubprotocolString()
	if v4 {
		proto = db.CBMobileReplicationV4.SubprotocolString()
	}
	s.runner.SetSubprotocols([]string{proto})
	s.btc = s.runner.NewBlipTesterClientOptsWithRT(e.rt, &BlipTesterClientOpts{
		Username:        e.user,
		SendRevocations: true,
		AllowCreationWithoutBlipTesterClientRunner: true,
	})
	s.btcc = s.runner.SingleCollection(s.btc.id)
	// record everything the client receives on the pull connection (the connection is idle until subChanges)
	bctx := s.btc.pullReplication.bt.blipContext
	for profile, h := range bctx.HandlerForProfile {
		bctx.HandlerForProfile[profile] = s.wrap(profile, h)
	}
	e.blip = s
	if e.cl.Pulls == 0 {
		e.run.Count("blip_clients_"+strings.ToLower(strings.ReplaceAll(proto, "+", "")), 1)
	}
	return true
}

func (e *c13Env) closeBlip() {
	if e.blip != nil && e.blip.btc != nil {
		e.blip.btc.Close()
	}
	e.blip = nil
}

func c13BlipSeq(v any) string {
	switch x := v.(type) {
	case float64:
		return strconv.FormatUint(uint64(x), 10)
	case string:
		return x
	default:
		return fmt.Sprint(v)
	}
}

// blipPull runs one one-shot pull since the last received sequence and applies the recorded messages.
func (e *c13Env) blipPull() (*c13PullObs, bool) {
	// a connection per pull: the user is loaded when the client connects, as for every REST request (a long-lived
	// connection refreshes its user on a change notification that arrives some time after the write)
	e.openBlip(e.blipV4)
	defer e.closeBlip()
	s, cl := e.blip, e.cl
	s.mu.Lock()
	s.msgs, s.caughtUp, s.expected, s.received = nil, 0, 0, 0
	s.start = s.maxHandled
	s.mu.Unlock()
	s.btcc.StartPullSince(BlipTesterPullOptions{Continuous: false, Since: cl.Since})

	// completed = the "caught up" message arrived, every server message numbered up to it has been handled, no
	// handler is running, and every revision the client asked for has arrived as rev or norev
	deadline := time.Now().Add(c13BlipWatchdog)
	done := false
	for !done && time.Now().Before(deadline) {
		s.mu.Lock()
		if s.caughtUp > 0 && s.inflight == 0 && s.received >= s.expected {
			all := true
			for n := s.start + 1; n <= s.caughtUp; n++ {
				if !s.handled[n] {
					all = false
					break
				}
			}
			done = all
		}
		s.mu.Unlock()
		if !done {
			time.Sleep(time.Millisecond)
		}
	}
	s.mu.Lock()
	msgs := append([]*c13BlipMsg{}, s.msgs...)
	s.mu.Unlock()
	sort.Slice(msgs, func(i, j int) bool { return msgs[i].Serial < msgs[j].Serial })
	if !done {
		e.log("pull", "BLIP one-shot pull since="+cl.Since, 0, msgs)
		e.run.Inconclusive("blip: pull did not complete within the watchdog")
		e.run.Note("history %d: blip pull since=%s incomplete: %s", e.idx, cl.Since, c13JSON(msgs))
		return nil, false
	}

	obs := &c13PullObs{Pages: 1}
	byKey := map[string][]*c13BlipMsg{}
	for _, m := range msgs {
		if m.Profile == db.MessageRev || m.Profile == db.MessageNoRev {
			k := m.ID + "\x00" + m.Rev
			byKey[k] = append(byKey[k], m)
		}
	}
	since := cl.Since
	for _, m := range msgs {
		if m.Profile != db.MessageChanges {
			continue
		}
		for i, row := range m.Rows {
			if len(row) < 3 {
				continue
			}
			ro := c13RowObs{Seq: c13BlipSeq(row[0])}
			ro.ID, _ = row[1].(string)
			ro.Rev, _ = row[2].(string)
			if len(row) > 3 {
				switch f := row[3].(type) {
				case float64:
					ro.Flags = int(f)
				case bool:
					if f {
						ro.Flags = 1
					}
				}
			}
			ro.Deleted, ro.Revoked = ro.Flags&1 != 0, ro.Flags&2 != 0
			since = ro.Seq
			if !e.ownDoc(ro.ID) {
				e.run.Count("rows_of_other_histories_ignored", 1)
				continue
			}
			wanted := i < len(m.Answers) && m.Answers[i] != nil
			switch {
			case ro.Revoked:
				delete(cl.Replica, ro.ID)
				obs.Revoked = append(obs.Revoked, ro.ID)
				ro.Applied = "purge(revoked)"
			case !wanted:
				// the client answered that it already holds exactly this revision
				e.run.Count("blip_rows_already_known", 1)
				switch {
				case ro.Deleted:
					delete(cl.Replica, ro.ID)
					ro.Applied = "remove(deleted, known)"
				case ro.Flags&4 != 0:
					delete(cl.Replica, ro.ID)
					ro.Applied = "purge(removed, known)"
				default:
					cl.Replica[ro.ID] = ro.Rev
					ro.Applied = "keep " + ro.Rev + " (known)"
				}
			case ro.Flags&4 != 0:
				// removed from every channel the user can see: the flag alone tells the client to purge; the
				// revision it asked for may come as a removal body, or as norev when it is no longer current
				delete(cl.Replica, ro.ID)
				ro.Applied = "purge(removed from all channels)"
				if ro.Deleted {
					ro.Applied = "remove(deleted, removed from all channels)"
				}
				for _, x := range byKey[ro.ID+"\x00"+ro.Rev] {
					if !x.used {
						x.used = true
						if x.Profile == db.MessageNoRev {
							e.run.Count("blip_norev", 1)
							ro.Applied += ", norev " + x.Err
						} else if x.Removed {
							e.run.Count("blip_removed_bodies", 1)
						}
						break
					}
				}
			default:
				k := ro.ID + "\x00" + ro.Rev
				var got *c13BlipMsg
				for _, x := range byKey[k] {
					if !x.used {
						got = x
						break
					}
				}
				switch {
				case got == nil:
					ro.Applied = "requested, nothing received under this revision"
					e.run.Inconclusive("blip: requested revision answered under another id/rev")
				case got.Profile == db.MessageNoRev:
					got.used = true
					ro.Applied = "norev(" + got.Err + " " + got.Reason + "): nothing applied"
					e.run.Count("blip_norev", 1)
				case got.Deleted:
					got.used = true
					delete(cl.Replica, ro.ID)
					ro.Applied = "remove(rev deleted)"
				case got.Removed:
					got.used = true
					delete(cl.Replica, ro.ID)
					ro.Applied = "purge(rev body _removed)"
					e.run.Count("blip_removed_bodies", 1)
				default:
					got.used = true
					cl.Replica[ro.ID] = got.Rev
					ro.Applied = "upsert " + got.Rev
					e.run.Count("revisions_received", 1)
				}
			}
			obs.Rows = append(obs.Rows, ro)
		}
	}
	e.log("pull", "BLIP one-shot pull since="+cl.Since, 200, map[string]any{"messages": msgs, "rows": obs.Rows, "next_since": since})
	cl.Since = since
	return obs, true
}
