//go:build verif

package rest

// C12 at the REST boundary: HTTP 200 vs 401 through the public API with basic auth and session cookies,
// judged by the same CredModel as the auth-level check. Default bcrypt cost, few histories.

import (
	"encoding/json"
	"fmt"
	"net/http"
	"os"
	"strconv"
	"strings"
	"testing"
	"time"

	sgbucket "github.com/couchbase/sg-bucket"
	"github.com/couchbase/sync_gateway/base"
	"golang.org/x/crypto/bcrypt"
	"verif/vlib"
)

type c12rUser struct {
	exists, disabled bool
	pw               string
	epoch, incarn    int
	old              []string
}

type c12rSess struct {
	idx               int
	id, user          string
	epoch, incarn     int
	oneTime, short    bool
	deleted, consumed bool
}

type c12rOp struct {
	N      int    `json:"n"`
	Req    string `json:"request"`
	Auth   string `json:"auth,omitempty"`
	Body   string `json:"body,omitempty"`
	Expect string `json:"expect,omitempty"`
	Status int    `json:"status"`
	Note   string `json:"note,omitempty"`
}

type c12rHist struct {
	run   *vlib.Run
	rt    *RestTester
	vs    *vStore
	idx   int
	r     *vlib.Rand
	names []string
	users map[string]*c12rUser
	sess  []*c12rSess
	ops   []c12rOp
	epoch int
	pwN   int

	sawAccept, sawStale bool
}

// c12rBaseline: signatures observed on the unchanged tree (candidate findings); see VERIF_C12_KNOWN in the auth harness.
var c12rBaseline = map[string]bool{
	"C12|rest|cookie|user-disabled-after-session-created|authenticated":                  true,
	"C12|rest|websocket-session-token|user-disabled-after-session-created|authenticated": true,
	"C12|rest|basic-auth|wrong-password-same-bcrypt-key|authenticated":                   true,
	"C12|rest|session-login-body|wrong-password-same-bcrypt-key|authenticated":           true,
}

func c12rQ(s string) string { return strconv.Quote(s) }

func (h *c12rHist) rec(o c12rOp) *c12rOp {
	o.N = len(h.ops)
	h.ops = append(h.ops, o)
	return &h.ops[len(h.ops)-1]
}

func (h *c12rHist) violation(oracle, sig, msg string) {
	if c12rBaseline[sig] && os.Getenv("VERIF_C12_KNOWN") == "notes" {
		h.run.Count("baseline_findings_recorded_as_notes", 1)
		h.run.Distinct("baseline_signatures_as_notes", sig)
		return
	}
	h.run.Violation(oracle, sig, fmt.Sprintf("rest history %d request %d: %s", h.idx, len(h.ops)-1, msg),
		map[string]any{"case": h.idx, "db_config": "allow_empty_password=true, guest disabled, default bcrypt cost",
			"note": "requests in order against one RestTester; admin = admin port; auth strings are Go-quoted", "requests": h.ops})
}

func (h *c12rHist) genPassword() (string, string) {
	h.pwN++
	mark := fmt.Sprintf("rpw%d.%d.%04x", h.idx, h.pwN, h.r.Intn(0x10000))
	switch k := h.r.Intn(16); {
	case k < 3:
		return "", "empty"
	case k < 5:
		return "pä߀💥" + mark, "unicode"
	case k < 6:
		return "a\x00" + mark, "nul-inside"
	case k < 7:
		return mark + ":with:colons", "colons"
	case k < 8:
		return (mark + strings.Repeat("L", 72))[:72], "len72"
	default:
		return mark, "ascii"
	}
}

func (h *c12rHist) wrongPassword(name string) (string, string) {
	u := h.users[name]
	p := u.pw
	for try := 0; try < 8; try++ {
		var w, class string
		switch h.r.Intn(8) {
		case 0:
			w, class = "", "empty"
		case 1:
			if len(u.old) > 0 {
				w, class = vlib.Pick(h.r, u.old), "old-password"
			}
		case 2:
			w, class = h.users[vlib.Pick(h.r, h.names)].pw, "other-users-password"
		case 3:
			if len(p) > 1 {
				w, class = p[:h.r.Range(1, len(p)-1)], "prefix"
			}
		case 4:
			if len(p) > 1 {
				w, class = p[h.r.Range(1, len(p)-1):], "suffix"
			}
		case 5:
			w, class = p+"x", "plus-suffix"
		case 6:
			w, class = strings.ToUpper(p), "upper"
		default:
			w, class = fmt.Sprintf("guess%x", h.r.Intn(1<<20)), "random"
		}
		if class != "" && w != p {
			return w, class
		}
	}
	return p + "#", "plus-suffix"
}

func c12rBcryptKey(pw string) [72]byte {
	k := append([]byte(pw), 0)
	var out [72]byte
	for i := range out {
		out[i] = k[i%len(k)]
	}
	return out
}

func (h *c12rHist) expectPassword(name, pw string) (bool, string) {
	u := h.users[name]
	switch {
	case !u.exists:
		return true, "user-missing"
	case u.disabled:
		return true, "user-disabled"
	case pw != u.pw:
		if u.pw != "" && c12rBcryptKey(pw) == c12rBcryptKey(u.pw) {
			return true, "wrong-password-same-bcrypt-key"
		}
		return true, "wrong-password"
	}
	return false, ""
}

func (h *c12rHist) expectSession(s *c12rSess) (bool, string) {
	if s == nil {
		return true, "unknown-session-id"
	}
	u := h.users[s.user]
	switch {
	case s.deleted:
		return true, "session-deleted"
	case s.consumed:
		return true, "one-time-session-already-used"
	case !u.exists:
		return true, "user-deleted"
	case u.incarn != s.incarn:
		if u.pw == "" {
			return true, "session-of-deleted-user-after-recreate(new-password-empty)"
		}
		return true, "session-of-deleted-user-after-recreate"
	case u.epoch != s.epoch:
		if u.pw == "" {
			return true, "session-before-password-change-or-logout-all(new-password-empty)"
		}
		return true, "session-before-password-change-or-logout-all"
	case u.disabled:
		return true, "user-disabled-after-session-created"
	}
	return false, ""
}

func (h *c12rHist) admin(method, path, body string) *TestResponse {
	resp := h.rt.SendAdminRequest(method, path, body)
	h.rec(c12rOp{Req: "admin " + method + " " + path, Body: body, Status: resp.Code})
	return resp
}

func (h *c12rHist) putUser(name string, create bool) {
	pw, class := h.genPassword()
	b, _ := json.Marshal(map[string]any{"name": name, "password": pw})
	resp := h.admin("PUT", "/db/_user/"+name, string(b))
	if resp.Code != 200 && resp.Code != 201 {
		h.run.Count("unexpected_op_error", 1)
		h.run.Note("rest history %d: PUT user (%s) -> %d %s", h.idx, class, resp.Code, resp.Body.String())
		return
	}
	u := h.users[name]
	h.epoch++
	if u.exists {
		u.old = append(u.old, u.pw)
		u.pw, u.epoch = pw, h.epoch
		h.run.Count("password_changes", 1)
	} else {
		old := u.old
		*u = c12rUser{exists: true, pw: pw, epoch: h.epoch, incarn: h.epoch, old: old}
	}
	h.run.Distinct("password_classes", class)
}

func (h *c12rHist) setDisabled(name string, disabled bool) {
	resp := h.admin("PUT", "/db/_user/"+name, fmt.Sprintf(`{"name":%q,"disabled":%v}`, name, disabled))
	if resp.Code != 200 {
		h.run.Count("unexpected_op_error", 1)
		return
	}
	h.users[name].disabled = disabled
}

func (h *c12rHist) deleteUser(name string) {
	resp := h.admin("DELETE", "/db/_user/"+name, "")
	if resp.Code != 200 {
		h.run.Count("unexpected_op_error", 1)
		return
	}
	u := h.users[name]
	u.old = append(u.old, u.pw)
	u.exists, u.disabled = false, false
	h.run.Count("user_deletes", 1)
}

func (h *c12rHist) addSession(id, name string, oneTime, short bool) *c12rSess {
	u := h.users[name]
	s := &c12rSess{idx: len(h.sess), id: id, user: name, epoch: u.epoch, incarn: u.incarn, oneTime: oneTime, short: short}
	h.sess = append(h.sess, s)
	h.run.Count("sessions_created", 1)
	return s
}

// judgePassword: a request that carried (name, pw) came back with `accepted`.
// c12rSite maps an endpoint to the authentication call site it reaches (signatures name the site, messages the endpoint).
func c12rSite(how string) string {
	switch how {
	case "GET-db-basic", "POST-_session-basic":
		return "basic-auth"
	case "POST-_session-body":
		return "session-login-body"
	case "blipsync-with-session-token":
		return "websocket-session-token"
	}
	return "cookie"
}

func (h *c12rHist) judgePassword(o *c12rOp, name, pw, class, how string, accepted bool) {
	mustReject, reason := h.expectPassword(name, pw)
	o.Expect = "accept"
	if mustReject {
		o.Expect = "reject:" + reason
	}
	h.run.Count("attempts_password", 1)
	if accepted {
		h.run.Count("accepted_password", 1)
		h.sawAccept = true
		// differential against the stored document
		dbc := h.rt.GetDatabase()
		raw, _, err := dbc.MetadataStore.GetRaw(h.rt.Context(), dbc.MetadataKeys.UserKey(name))
		var st struct {
			Hash     []byte `json:"passwordhash_bcrypt"`
			Disabled bool   `json:"disabled"`
		}
		full := false
		if err == nil && json.Unmarshal(raw, &st) == nil && !st.Disabled {
			if st.Hash == nil {
				full = pw == ""
			} else {
				full = bcrypt.CompareHashAndPassword(st.Hash, []byte(pw)) == nil
			}
		}
		h.run.Count("fastpath_rechecks", 1)
		if !full {
			h.violation("fast-path-differential", "C12|rest|"+c12rSite(how)+"|accepted-but-full-check-on-stored-hash-rejects",
				fmt.Sprintf("%s accepted password %s for %s but the stored hash / disabled flag rejects it", how, c12rQ(pw), name))
		}
	}
	if mustReject {
		h.run.Count("must_reject_password", 1)
		h.run.Distinct("reject_reasons", "password:"+reason)
		if class == "old-password" {
			h.sawStale = true
		}
		if accepted {
			h.violation("model", "C12|rest|"+c12rSite(how)+"|"+reason+"|authenticated",
				fmt.Sprintf("%s with password %s (class %s) for %s must give 401 (%s) but authenticated (status %d)", how, c12rQ(pw), class, name, reason, o.Status))
		}
	} else if !accepted {
		h.run.Count("unexpected_reject", 1)
		h.run.Inconclusive("model expected accept for a password request")
		h.run.Note("rest history %d request %d: correct password rejected with %d", h.idx, o.N, o.Status)
	}
}

func (h *c12rHist) judgeSession(o *c12rOp, s *c12rSess, how string, accepted bool) {
	mustReject, reason := h.expectSession(s)
	o.Expect = "accept"
	if mustReject {
		o.Expect = "reject:" + reason
	} else if s.short {
		o.Expect = "either(ttl 1s)"
	}
	h.run.Count("attempts_session", 1)
	if accepted {
		h.run.Count("accepted_session", 1)
		h.sawAccept = true
	}
	if mustReject {
		h.run.Count("must_reject_session", 1)
		h.run.Distinct("reject_reasons", "session:"+reason)
		if strings.HasPrefix(reason, "session-before") || strings.HasPrefix(reason, "session-of-deleted") {
			h.sawStale = true
		}
		if accepted {
			h.violation("model", "C12|rest|"+c12rSite(how)+"|"+reason+"|authenticated",
				fmt.Sprintf("%s with session %s must give 401 (%s) but authenticated (status %d)", how, o.Auth, reason, o.Status))
		}
	} else if !accepted && !s.short {
		h.run.Count("unexpected_reject", 1)
		h.run.Inconclusive("model expected accept for a session request")
		h.run.Note("rest history %d request %d: live session rejected with %d", h.idx, o.N, o.Status)
	}
	if accepted && s != nil && s.oneTime {
		s.consumed = true
	}
}

func (h *c12rHist) cookieHeader(id string) map[string]string {
	return map[string]string{"Cookie": "SyncGatewaySession=" + id}
}

// presentSession: GET /db/ with cookie (200 vs 401), GET /db/_session with cookie (identity), or _blipsync
// with the session id smuggled in the websocket protocol header (426 after successful auth vs 401).
func (h *c12rHist) presentSession(s *c12rSess, id string) {
	label := "bogus"
	if s != nil {
		label = fmt.Sprintf("s%d(%s)", s.idx, s.user)
	}
	switch k := h.r.Intn(6); {
	case k < 3:
		resp := h.rt.SendRequestWithHeaders("GET", "/db/", "", h.cookieHeader(id))
		o := h.rec(c12rOp{Req: "GET /db/", Auth: "cookie " + label, Status: resp.Code})
		h.judgeSession(o, s, "GET-db-with-cookie", resp.Code == 200)
	case k < 4:
		resp := h.rt.SendRequestWithHeaders("GET", "/db/_session", "", h.cookieHeader(id))
		var body struct {
			UserCtx struct {
				Name *string `json:"name"`
			} `json:"userCtx"`
		}
		_ = json.Unmarshal(resp.Body.Bytes(), &body)
		who := ""
		if body.UserCtx.Name != nil {
			who = *body.UserCtx.Name
		}
		o := h.rec(c12rOp{Req: "GET /db/_session", Auth: "cookie " + label, Status: resp.Code, Note: "userCtx.name=" + who})
		if who != "" && (s == nil || who != s.user) {
			h.violation("identity", "C12|rest|cookie|authenticated-as-different-user", "session reported user "+who)
		}
		h.judgeSession(o, s, "GET-_session-with-cookie", who != "")
	default:
		hd := map[string]string{"Sec-WebSocket-Protocol": "BLIP_3+CBMobile_3, " + blipSessionIDPrefix + id, "Upgrade": "websocket", "Connection": "Upgrade"}
		resp := h.rt.SendRequestWithHeaders("GET", "/db/_blipsync", "", hd)
		o := h.rec(c12rOp{Req: "GET /db/_blipsync", Auth: "websocket-protocol session token " + label, Status: resp.Code})
		h.judgeSession(o, s, "blipsync-with-session-token", resp.Code != 401 && resp.Code != 403)
	}
}

func (h *c12rHist) cookieFrom(resp *TestResponse) string {
	for _, c := range resp.Result().Cookies() {
		if c.Name == "SyncGatewaySession" && c.Value != "" {
			return c.Value
		}
	}
	return ""
}

// oneTimeConsumeFails: a one-time session is issued and then presented as the session cookie while the storage Delete
// that consumes it fails (a temporary storage error, or key-not-found as for the loser of two concurrent
// presentations on Couchbase Server). deleteOneTimeSession documents this as "not allowing login": no route may treat
// the request as that user, report the user, or mint a session from it — in particular not the public-privilege
// routes GET/POST /db/_session, where the handler tolerates cookie errors to fall through to guest access.
func (h *c12rHist) oneTimeConsumeFails(name string) {
	u := h.users[name]
	resp := h.rt.SendUserRequestWithHeaders("POST", "/db/_session?one_time=true", "{}", nil, name, u.pw)
	o := h.rec(c12rOp{Req: "POST /db/_session?one_time=true", Auth: "basic " + name + ":" + c12rQ(u.pw), Body: "{}", Status: resp.Code})
	var body struct {
		ID string `json:"one_time_session_id"`
	}
	_ = json.Unmarshal(resp.Body.Bytes(), &body)
	h.judgePassword(o, name, u.pw, "correct", "POST-_session-basic", resp.Code == 200)
	if resp.Code != 200 || body.ID == "" {
		return
	}
	s := h.addSession(body.ID, name, true, false)
	o.Note = fmt.Sprintf("session s%d one_time=true", s.idx)
	var ferr error = errInjected
	fname := "injected temporary storage error"
	if h.r.Bool() {
		ferr, fname = sgbucket.MissingError{Key: body.ID}, "key-not-found"
	}
	h.vs.SetFault(func(op *base.VerifOp, _ string) base.VerifDecision {
		if (op.Kind == "Delete" || op.Kind == "Remove") && strings.Contains(op.Key, body.ID) {
			h.run.Count("session_deletes_failed_by_injection", 1)
			return base.VerifDecision{Action: base.VerifFailBefore, Err: ferr}
		}
		return base.VerifDecision{}
	})
	label := fmt.Sprintf("cookie s%d(%s) one-time; Delete(session) fails: %s", s.idx, name, fname)
	judge := func(o *c12rOp, accepted bool, what string) {
		o.Expect = "reject:one-time-session-consuming-delete-failed"
		h.run.Count("attempts_session", 1)
		h.run.Count("must_reject_session", 1)
		h.run.Count("one_time_presented_with_failing_delete", 1)
		h.run.Distinct("reject_reasons", "session:one-time-session-consuming-delete-failed")
		if accepted {
			h.run.Count("accepted_session", 1)
			h.violation("model", "C12|rest|cookie|one-time-session-consuming-delete-failed|"+what,
				fmt.Sprintf("%s with %s: the one-time session could not be consumed, yet the request was treated as user %s (status %d)", o.Req, label, name, o.Status))
		}
	}
	for _, k := range h.r.Perm(4)[:h.r.Range(2, 4)] {
		switch k {
		case 0:
			resp := h.rt.SendRequestWithHeaders("GET", "/db/_session", "", h.cookieHeader(s.id))
			var b struct {
				UserCtx struct {
					Name *string `json:"name"`
				} `json:"userCtx"`
			}
			_ = json.Unmarshal(resp.Body.Bytes(), &b)
			who := ""
			if b.UserCtx.Name != nil {
				who = *b.UserCtx.Name
			}
			o := h.rec(c12rOp{Req: "GET /db/_session", Auth: label, Status: resp.Code, Note: "userCtx.name=" + who})
			judge(o, who != "", "user-reported")
		case 1:
			resp := h.rt.SendRequestWithHeaders("POST", "/db/_session", "{}", h.cookieHeader(s.id))
			minted := h.cookieFrom(resp)
			o := h.rec(c12rOp{Req: "POST /db/_session", Auth: label, Body: "{}", Status: resp.Code, Note: fmt.Sprintf("Set-Cookie session: %v", minted != "" && minted != s.id)})
			judge(o, resp.Code == 200 || (minted != "" && minted != s.id), "session-minted")
		case 2:
			resp := h.rt.SendRequestWithHeaders("POST", "/db/_session?one_time=true", "{}", h.cookieHeader(s.id))
			var b struct {
				ID string `json:"one_time_session_id"`
			}
			_ = json.Unmarshal(resp.Body.Bytes(), &b)
			o := h.rec(c12rOp{Req: "POST /db/_session?one_time=true", Auth: label, Body: "{}", Status: resp.Code})
			judge(o, resp.Code == 200 || b.ID != "", "session-minted")
		default:
			resp := h.rt.SendRequestWithHeaders("GET", "/db/", "", h.cookieHeader(s.id))
			o := h.rec(c12rOp{Req: "GET /db/", Auth: label, Status: resp.Code})
			judge(o, resp.Code == 200, "authenticated")
		}
	}
	h.vs.SetFault(nil)
}

func (h *c12rHist) pick(exists bool) (string, bool) {
	var c []string
	for _, n := range h.names {
		if h.users[n].exists == exists {
			c = append(c, n)
		}
	}
	if len(c) == 0 {
		return "", false
	}
	return vlib.Pick(h.r, c), true
}

func (h *c12rHist) attemptPassword(name string) (string, string) {
	if h.r.Chance(1, 2) {
		return h.users[name].pw, "correct"
	}
	return h.wrongPassword(name)
}

func (h *c12rHist) step() {
	r := h.r
	existing, haveExisting := h.pick(true)
	missing, haveMissing := h.pick(false)
	k := r.Intn(100)
	switch {
	case !haveExisting || (k < 8 && haveMissing):
		h.putUser(missing, true)
	case k < 17:
		h.putUser(existing, false)
	case k < 24:
		u := h.users[existing]
		h.setDisabled(existing, !u.disabled || r.Chance(1, 6))
	case k < 28:
		h.deleteUser(existing)
	case k < 38: // login with name/password in the body
		name := existing
		if r.Chance(1, 6) {
			name = vlib.Pick(r, h.names)
		}
		pw, class := h.attemptPassword(name)
		b, _ := json.Marshal(map[string]string{"name": name, "password": pw})
		resp := h.rt.SendRequest("POST", "/db/_session", string(b))
		o := h.rec(c12rOp{Req: "POST /db/_session", Body: string(b), Status: resp.Code})
		id := h.cookieFrom(resp)
		h.judgePassword(o, name, pw, class, "POST-_session-body", resp.Code == 200 && id != "")
		if resp.Code == 200 && id != "" {
			s := h.addSession(id, name, false, false)
			o.Note = fmt.Sprintf("session s%d", s.idx)
		}
	case k < 44: // login / one-time session with basic auth
		name := existing
		pw, class := h.attemptPassword(name)
		oneTime := r.Bool()
		path := "/db/_session"
		if oneTime {
			path += "?one_time=true"
		}
		resp := h.rt.SendUserRequestWithHeaders("POST", path, "{}", nil, name, pw)
		o := h.rec(c12rOp{Req: "POST " + path, Auth: "basic " + name + ":" + c12rQ(pw), Body: "{}", Status: resp.Code})
		var body struct {
			ID string `json:"one_time_session_id"`
		}
		_ = json.Unmarshal(resp.Body.Bytes(), &body)
		id := h.cookieFrom(resp)
		if oneTime {
			id = body.ID
		}
		h.judgePassword(o, name, pw, class, "POST-_session-basic", resp.Code == 200)
		if resp.Code == 200 && id != "" {
			s := h.addSession(id, name, oneTime, false)
			o.Note = fmt.Sprintf("session s%d one_time=%v", s.idx, oneTime)
		}
	case k < 50: // admin-created session (no password), sometimes with ttl 1 s
		short := r.Chance(1, 2)
		ttl := 3600
		if short {
			ttl = 1
		}
		resp := h.admin("POST", "/db/_session", fmt.Sprintf(`{"name":%q,"ttl":%d}`, existing, ttl))
		var body struct {
			ID string `json:"session_id"`
		}
		_ = json.Unmarshal(resp.Body.Bytes(), &body)
		if resp.Code == 200 && body.ID != "" {
			if h.users[existing].disabled {
				h.violation("model", "C12|rest|admin-POST-_session|user-disabled|session-issued", "admin session created for a disabled user")
			}
			s := h.addSession(body.ID, existing, false, short)
			h.ops[len(h.ops)-1].Note = fmt.Sprintf("session s%d", s.idx)
		}
	case k < 56: // logout / admin delete session / delete all sessions of a user
		if len(h.sess) == 0 {
			return
		}
		s := vlib.Pick(r, h.sess)
		switch r.Intn(3) {
		case 0:
			resp := h.rt.SendRequestWithHeaders("DELETE", "/db/_session", "", h.cookieHeader(s.id))
			o := h.rec(c12rOp{Req: "DELETE /db/_session", Auth: fmt.Sprintf("cookie s%d(%s)", s.idx, s.user), Status: resp.Code})
			h.judgeSession(o, s, "DELETE-_session-with-cookie", resp.Code == 200)
			if resp.Code == 200 {
				s.deleted = true
			}
		case 1:
			resp := h.admin("DELETE", "/db/_session/"+s.id, "")
			if resp.Code == 200 {
				s.deleted = true
			}
		default:
			resp := h.admin("DELETE", "/db/_user/"+s.user+"/_session", "")
			if resp.Code == 200 && h.users[s.user].exists {
				h.epoch++
				h.users[s.user].epoch = h.epoch
			}
		}
	case k < 74: // basic auth on a regular endpoint
		name := existing
		if r.Chance(1, 6) {
			name = vlib.Pick(r, h.names)
		}
		pw, class := h.attemptPassword(name)
		resp := h.rt.SendUserRequestWithHeaders("GET", "/db/", "", nil, name, pw)
		o := h.rec(c12rOp{Req: "GET /db/", Auth: "basic " + name + ":" + c12rQ(pw), Status: resp.Code})
		h.judgePassword(o, name, pw, class, "GET-db-basic", resp.Code == 200)
	case k < 81:
		if u := h.users[existing]; u.disabled {
			h.setDisabled(existing, false)
		} else {
			h.oneTimeConsumeFails(existing)
		}
	default:
		if len(h.sess) == 0 || r.Chance(1, 12) {
			h.presentSession(nil, fmt.Sprintf("bogus%x", r.Intn(1<<30)))
		} else {
			s := vlib.Pick(r, h.sess)
			h.presentSession(s, s.id)
		}
	}
}

func TestVerif_C12_Rest(t *testing.T) {
	run := vlib.Start(t, "C12", "rest")
	defer run.Finish()
	vs := newVStore(t)
	vs.logOn.Store(false)
	rt := vs.NewRestTester(t, &RestTesterConfig{
		DatabaseConfig: &DatabaseConfig{DbConfig: DbConfig{AllowEmptyPassword: base.Ptr(true)}},
		// RestTester lowers the bcrypt cost to MinCost; this part runs at the product default
		MutateStartupConfig: func(sc *StartupConfig) { sc.Auth.BcryptCost = 0 },
	})
	defer rt.Close()
	run.Max("bcrypt_cost", rt.GetDatabase().Options.BcryptCost)
	// sanity: guest is disabled, so an unauthenticated request is refused
	if resp := rt.SendRequest("GET", "/db/", ""); resp.Code != http.StatusUnauthorized {
		t.Fatalf("guest not disabled: %d", resp.Code)
	}
	nh, nops := run.N(20, 200), 24
	var pending []*c12rHist
	// Expiry, one direction only and batched: every history with a usable user gets two fresh ttl=1s sessions; one
	// of them is presented 0.3 s later (> 10% of the ttl: the refresh path rewrites it with a new expiry); then the ttl
	// is waited out (>= 3x) once and every 1 s session of the batch must be refused.
	checkExpired := func() {
		if len(pending) == 0 {
			return
		}
		var refresh []*c12rSess
		var owners []*c12rHist
		for _, h := range pending {
			for _, n := range h.names {
				if u := h.users[n]; u.exists && !u.disabled {
					for k := 0; k < 2; k++ {
						resp := h.admin("POST", "/db/_session", fmt.Sprintf(`{"name":%q,"ttl":1}`, n))
						var body struct {
							ID string `json:"session_id"`
						}
						_ = json.Unmarshal(resp.Body.Bytes(), &body)
						if resp.Code == 200 && body.ID != "" {
							s := h.addSession(body.ID, n, false, true)
							if k == 0 {
								refresh, owners = append(refresh, s), append(owners, h)
							}
						}
					}
					break
				}
			}
		}
		time.Sleep(300 * time.Millisecond)
		for i, s := range refresh {
			resp := rt.SendRequestWithHeaders("GET", "/db/", "", owners[i].cookieHeader(s.id))
			owners[i].rec(c12rOp{Req: "GET /db/ (0.3 s after creation: refreshes the ttl)", Auth: fmt.Sprintf("cookie s%d", s.idx), Expect: "either(ttl 1s)", Status: resp.Code})
			if resp.Code == 200 {
				run.Count("expiry_refresh_presentations", 1)
			}
		}
		time.Sleep(3500 * time.Millisecond)
		for _, h := range pending {
			for _, s := range h.sess {
				if !s.short {
					continue
				}
				otherwise, _ := h.expectSession(s)
				resp := rt.SendRequestWithHeaders("GET", "/db/", "", h.cookieHeader(s.id))
				run.Count("expired_presented", 1)
				if !otherwise {
					run.Count("expired_otherwise_live", 1)
				}
				if resp.Code == 200 {
					h.rec(c12rOp{Req: "GET /db/ (3.5 s after last use, ttl 1 s)", Auth: fmt.Sprintf("cookie s%d", s.idx), Expect: "reject:expired", Status: resp.Code})
					h.violation("model", "C12|rest|cookie|session-expired|authenticated", "expired session authenticated")
				}
			}
		}
		pending = nil
	}
	only, onlyOK := run.OnlyCase()
	for i := 0; i < nh; i++ {
		if onlyOK && only != i {
			continue
		}
		h := &c12rHist{run: run, rt: rt, vs: vs, idx: i, r: run.CaseRand(i), users: map[string]*c12rUser{}}
		for _, n := range []string{"alice", "bob", "carol"} {
			name := fmt.Sprintf("s%dh%d_%s", run.Seed, i, n)
			h.names = append(h.names, name)
			h.users[name] = &c12rUser{}
		}
		for len(h.ops) < nops {
			h.step()
		}
		run.Eval()
		if h.sawAccept && h.sawStale {
			kinds := make([]string, len(h.ops))
			for j, o := range h.ops {
				kinds[j] = o.Req + "/" + o.Expect
			}
			run.Nontrivial(strings.Join(kinds, ";"))
		}
		if i < 1 {
			run.Sample(map[string]any{"case": i, "requests": h.ops})
		}
		pending = append(pending, h)
		if (i+1)%50 == 0 {
			checkExpired()
		}
	}
	checkExpired()
}
