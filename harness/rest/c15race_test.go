//go:build verif

package rest

// C15 part "races": two or three nodes change the same / different databases (and load) with every metadata
// storage operation a scheduling point of vlib.Sched: depth-first enumeration under a preemption bound, plus
// random schedules. Oracle: per-database linearizability of a versioned register (porcupine), structural
// checks on every load, registry agreement and ownership at quiescence, progress afterwards.

import (
	"fmt"
	"sort"
	"strings"
	"sync"
	"testing"
	"time"

	"github.com/anishathalye/porcupine"
	"verif/vlib"
)

type c15ActorOp struct {
	Load bool      `json:"load,omitempty"`
	Ch   c15Change `json:"change,omitempty"`
}

func (o c15ActorOp) String() string {
	if o.Load {
		return "load"
	}
	return o.Ch.String()
}

type c15RaceCase struct {
	Prefix []c15Step      `json:"prefix"`
	Actors [][]c15ActorOp `json:"actors"`
}

func (c c15RaceCase) Key() string {
	var p []string
	for _, s := range c.Prefix {
		p = append(p, s.String())
	}
	var as []string
	for _, a := range c.Actors {
		var os []string
		for _, o := range a {
			os = append(os, o.String())
		}
		as = append(as, strings.Join(os, ", "))
	}
	return strings.Join(p, " ; ") + " => " + strings.Join(as, " || ")
}

// history record of one operation as seen at the API boundary
type c15HistOp struct {
	Actor   string            `json:"actor"`
	Op      string            `json:"op"`
	Call    int64             `json:"call"`
	Return  int64             `json:"return"`
	Outcome *c15Outcome       `json:"outcome,omitempty"`
	View    map[string]string `json:"view,omitempty"` // loads: db -> version
	LoadErr string            `json:"load_err,omitempty"`
	change  *c15Change
}

type c15PIn struct {
	Kind     string // load create update delete
	Seen     string
	New      string
	Attempts []string
}

type c15POut struct {
	Class    string // ack rejected failed | loaded loaderr
	Reason   string
	Observed string
}

func c15RegisterModel(init []string) porcupine.Model {
	nm := porcupine.NondeterministicModel{
		Init: func() []interface{} {
			out := make([]interface{}, len(init))
			for i, v := range init {
				out[i] = v
			}
			return out
		},
		Step: func(st interface{}, input interface{}, output interface{}) []interface{} {
			s := st.(string)
			in := input.(c15PIn)
			out := output.(c15POut)
			same := []interface{}{s}
			none := []interface{}{}
			maybe := func(vs ...string) []interface{} {
				r := []interface{}{s}
				for _, v := range vs {
					if v != s {
						r = append(r, v)
					}
				}
				return r
			}
			switch in.Kind {
			case "load":
				if out.Class == "loaderr" || s == out.Observed {
					return same
				}
				return none
			case "create":
				switch out.Class {
				case "ack":
					if s == "" {
						return []interface{}{in.New}
					}
					return none
				case "rejected":
					if out.Reason == "exists" && s == "" {
						return none
					}
					return same
				default:
					return maybe(in.Attempts...)
				}
			case "update":
				switch out.Class {
				case "ack":
					if s != "" && s == in.Seen {
						return []interface{}{in.New}
					}
					return none
				case "rejected":
					if out.Reason == "notfound" {
						if s == "" {
							return same
						}
						return none
					}
					if in.Seen != "" && s != in.Seen {
						return none
					}
					return same
				default:
					return maybe(in.Attempts...)
				}
			case "delete":
				switch out.Class {
				case "ack":
					if s != "" {
						return []interface{}{""}
					}
					return none
				case "rejected":
					if out.Reason == "notfound" && s != "" {
						return none
					}
					return same
				default:
					return maybe("")
				}
			}
			return none
		},
		Equal: func(a, b interface{}) bool { return a.(string) == b.(string) },
	}
	return nm.ToModel()
}

type c15RaceWitness struct {
	Case     c15RaceCase       `json:"case"`
	Choices  []int             `json:"schedule_choices"`
	Trace    []string          `json:"schedule_trace"`
	Prefix   []c15StepResult   `json:"prefix_results"`
	Initial  string            `json:"model_before_race"`
	History  []*c15HistOp      `json:"history"`
	After    []c15StepResult   `json:"after_race"`
	Registry string            `json:"registry_now"`
	Docs     map[string]string `json:"config_docs_now"`
	Ops      []string          `json:"storage_ops"`
}

// c15RaceRound runs the actors under the scheduler on the current store state and judges the round. m is the
// model before the round (possibly with several allowed versions per database); on return it is the singleton
// model of the settled view. Returns false when a violation was reported (or the round was inconclusive).
func c15RaceRound(run *vlib.Run, cl *c15Cluster, m *c15Model, rc c15RaceCase, chooser vlib.Chooser, part string, w *c15RaceWitness) (*vlib.Sched, bool) {
	wit := func() any {
		raw := cl.RawState()
		w.Registry = string(raw.Registry)
		w.Docs = map[string]string{}
		for db, b := range raw.Cfg {
			w.Docs[db] = string(b)
		}
		w.Ops = cl.LogStrings()
		return w
	}
	w.Initial = m.String()
	cl.ClearPresumedDead()
	initial := map[string][]string{}
	for _, db := range c15DBs {
		for v := range m.Allowed[db] {
			initial[db] = append(initial[db], v)
		}
		sort.Strings(initial[db])
	}
	var hmu sync.Mutex
	var hist []*c15HistOp
	nodes := make([]*c15Node, len(rc.Actors))
	sc := vlib.NewSched(chooser)
	sc.BlockWait = 3 * time.Second
	sc.HardWait = 40 * time.Second
	concurrentBad := false
	for i := range rc.Actors {
		i := i
		nodes[i] = cl.NewNode()
		name := string(rune('A' + i))
		n := nodes[i]
		ops := rc.Actors[i]
		sc.Go(name, func() {
			for _, op := range ops {
				h := &c15HistOp{Actor: name + "(" + n.Name + ")", Op: op.String()}
				if op.Load {
					h.Call = cl.clock.Add(1)
					cfgs, err := n.bc.GetDatabaseConfigs(cl.ctx, cl.bucket, c15Group)
					h.Return = cl.clock.Add(1)
					if err != nil {
						h.LoadErr = c15Trunc(err.Error(), 160)
					} else {
						h.View = map[string]string{}
						for _, cfg := range cfgs {
							h.View[cfg.Name] = cfg.Version
						}
						if !c15CheckConcurrentLoad(run, cl, n, cfgs, part, wit) {
							concurrentBad = true
						}
					}
				} else {
					ch := op.Ch
					h.change = &ch
					h.Outcome = n.Exec(ch)
					h.Call, h.Return = h.Outcome.Call, h.Outcome.Return
				}
				hmu.Lock()
				hist = append(hist, h)
				w.History = hist
				hmu.Unlock()
			}
		})
	}
	cl.sched.Store(sc)
	sc.Run()
	cl.sched.Store(nil)
	w.Choices, w.Trace = sc.Choices, sc.Trace
	run.Eval()
	run.Count("schedules", 1)
	run.Distinct("schedules", rc.Key()+"|"+sc.Fingerprint())
	run.Max("steps_in_one_schedule", len(sc.Trace))
	if sc.Deadlock {
		run.Inconclusive("scheduler-hard-timeout")
		return sc, false
	}
	if sc.Blocked > 0 {
		run.Count("scheduler_blocked_grants", sc.Blocked)
	}
	switches := 0
	for i := 1; i < len(sc.Trace); i++ {
		if strings.SplitN(sc.Trace[i], ":", 2)[0] != strings.SplitN(sc.Trace[i-1], ":", 2)[0] {
			switches++
		}
	}
	if switches >= 2 {
		run.Nontrivial(rc.Key() + "|" + sc.Fingerprint())
	}
	for _, h := range hist {
		if h.Outcome != nil {
			run.Count("race_outcome_"+h.Outcome.Class, 1)
			for _, v := range h.Outcome.Attempts {
				m.Cols[v] = c15ColNames(h.change.Cols)
			}
			if len(h.Outcome.Attempts) > 1 {
				run.Count("changes_with_cas_retry", 1)
			}
		} else if h.LoadErr != "" {
			run.Count("concurrent_load_errors", 1)
		} else {
			run.Count("concurrent_loads", 1)
		}
	}
	// timing class of the round: did a node run a recovery action (registry rollback / config cleanup, i.e. its
	// config retry timeout expired) while writers of this round were alive?
	timing := "no-recovery-action"
	if cl.PresumedDead() {
		timing = "live-writer-presumed-dead"
	} else if cl.RecoveryOps() > 0 {
		timing = "recovery-action-no-slow-writer"
	}
	run.Count("schedules_timing_"+timing, 1)
	for _, class := range []string{"snapshot-has-no-entry", "document-is-the-version-being-deleted", "document-version-differs-from-version-being-deleted", "snapshot-has-live-entry"} {
		if n := cl.Cleanups(class); n > 0 {
			run.Count("cleanup_deletes_"+class, n)
		}
	}
	// what the cleaning node observed is part of the history shape: a cleanup that removed a config document which
	// was NOT the version the node's registry snapshot recorded as being deleted (somebody re-created the database)
	// is a different root cause from a cleanup decided on a snapshot without any entry
	if cl.Cleanups("document-version-differs-from-version-being-deleted") > 0 {
		timing += "|cleanup=removed-config-document-that-was-not-the-version-being-deleted"
	}
	if cl.Cleanups("snapshot-has-live-entry") > 0 {
		timing += "|cleanup=removed-config-document-of-live-registry-entry"
	}
	if concurrentBad {
		return sc, false
	}

	// settle: two sequential loads (a fresh node, then one of the racing nodes); structural checks use a
	// permissive model (every version known so far), the ordering questions go to porcupine
	perm := newC15Model()
	perm.Cols = m.Cols
	for _, db := range c15DBs {
		for _, v := range initial[db] {
			perm.Add(db, v)
		}
	}
	for _, h := range hist {
		if h.Outcome != nil {
			for _, v := range h.Outcome.Attempts {
				perm.Add(h.change.DB, v)
			}
		}
	}
	settleNodes := []*c15Node{cl.NewNode(), nodes[0]}
	var view c15View
	for i, n := range settleNodes {
		call := cl.clock.Add(1)
		v, ok := c15CheckLoad(run, n, perm, c15CheckCtx{Part: part, Phase: fmt.Sprintf("settling load #%d after the race", i+1),
			SigTail: "after-race|timing=" + timing, Witness: wit, Narrow: false})
		ret := cl.clock.Add(1)
		w.After = append(w.After, c15StepResult{Step: fmt.Sprintf("settling load #%d", i+1), Node: n.Name, View: v.String()})
		if !ok {
			return sc, false
		}
		hv := map[string]string{}
		for db, x := range v {
			hv[db] = x
		}
		hist = append(hist, &c15HistOp{Actor: "settle(" + n.Name + ")", Op: "load", Call: call, Return: ret, View: hv})
		w.History = hist
		view = v
	}

	// per-database linearizability
	for _, db := range c15DBs {
		var ops []porcupine.Operation
		for ci, h := range hist {
			switch {
			case h.change != nil && h.change.DB == db:
				o := h.Outcome
				ops = append(ops, porcupine.Operation{ClientId: ci % 8, Call: h.Call, Return: h.Return,
					Input:  c15PIn{Kind: h.change.Kind, Seen: o.Seen, New: o.New, Attempts: o.Attempts},
					Output: c15POut{Class: o.Class, Reason: o.Reason}})
			case h.change == nil && h.LoadErr != "":
				// a failed load observed nothing
			case h.change == nil:
				ops = append(ops, porcupine.Operation{ClientId: ci % 8, Call: h.Call, Return: h.Return,
					Input: c15PIn{Kind: "load"}, Output: c15POut{Class: "loaded", Observed: h.View[db]}})
			}
		}
		model := c15RegisterModel(initial[db])
		res := porcupine.CheckOperationsTimeout(model, ops, 20*time.Second)
		run.Count("linearizability_checks", 1)
		switch res {
		case porcupine.Unknown:
			run.Inconclusive("porcupine-timeout")
			return sc, false
		case porcupine.Illegal:
			// diagnose: which single observation makes the history impossible
			diag := "no-single-operation-explains-it"
			// (1) an acknowledged change that nothing could have overwritten is not what the settled view shows
			final := view[db]
			anyDelete := false
			for _, o := range ops {
				if in := o.Input.(c15PIn); in.Kind == "delete" && o.Output.(c15POut).Class != "rejected" {
					anyDelete = true
				}
			}
			for i := range ops {
				in, out := ops[i].Input.(c15PIn), ops[i].Output.(c15POut)
				if in.Kind == "load" || out.Class != "ack" {
					continue
				}
				want := in.New
				if in.Kind == "delete" {
					want = ""
				}
				overwritable := false
				for j := range ops {
					jin, jout := ops[j].Input.(c15PIn), ops[j].Output.(c15POut)
					if j != i && jin.Kind != "load" && jout.Class != "rejected" && ops[j].Return > ops[i].Call {
						overwritable = true
					}
				}
				if final != want && (!overwritable || (final == "" && !anyDelete)) {
					diag = "acknowledged-" + in.Kind + "-not-reflected"
					break
				}
			}
			if diag == "no-single-operation-explains-it" {
				// (2) two acknowledged creates and no delete that could separate them; (3) two acknowledged
				// updates that both replaced the same version
				creates := 0
				seenBy := map[string]int{}
				for _, o := range ops {
					in, out := o.Input.(c15PIn), o.Output.(c15POut)
					if out.Class != "ack" {
						continue
					}
					if in.Kind == "create" {
						creates++
					}
					if in.Kind == "update" {
						seenBy[in.Seen]++
					}
				}
				if creates >= 2 && !anyDelete {
					diag = "acknowledged-create-not-reflected"
				}
				for _, n := range seenBy {
					if n >= 2 {
						diag = "acknowledged-update-not-reflected"
					}
				}
			}
			for i := range ops {
				if diag != "no-single-operation-explains-it" {
					break
				}
				in, out := ops[i].Input.(c15PIn), ops[i].Output.(c15POut)
				if in.Kind == "load" || out.Class != "ack" {
					continue
				}
				// would the history be fine if this acknowledged change had not been acknowledged (and nobody had
				// seen its version)? then the acknowledged change is the one that got lost
				var alt []porcupine.Operation
				for j := range ops {
					o := ops[j]
					if j == i {
						o.Output = c15POut{Class: "failed"}
					} else if oin := o.Input.(c15PIn); oin.Kind == "load" && in.Kind != "delete" && o.Output.(c15POut).Observed == in.New {
						continue
					}
					alt = append(alt, o)
				}
				if porcupine.CheckOperationsTimeout(model, alt, 20*time.Second) == porcupine.Ok {
					diag = "acknowledged-" + in.Kind + "-not-reflected"
					break
				}
			}
			if diag == "no-single-operation-explains-it" {
				for i := range ops {
					if ops[i].Input.(c15PIn).Kind != "load" {
						continue
					}
					alt := append(append([]porcupine.Operation{}, ops[:i]...), ops[i+1:]...)
					if porcupine.CheckOperationsTimeout(model, alt, 20*time.Second) == porcupine.Ok {
						diag = "load-observed-version-that-was-not-current"
						break
					}
				}
			}
			run.Violation("linearizable-per-database", "C15|history-not-linearizable|"+diag+"|timing="+timing,
				fmt.Sprintf("[%s] history of %s is not linearizable as a versioned register starting from %v (%s; timing: %s; leftover markers: %s). History: %s",
					part, db, initial[db], diag, timing, cl.RawState().Markers(db), c15HistString(hist, db)), wit())
			return sc, false
		}
	}
	for _, db := range c15DBs {
		m.Set(db, view[db])
	}
	return sc, true
}

// c15CheckConcurrentLoad: the part of the oracle that needs no quiescence (complete configs, disjoint ownership).
func c15CheckConcurrentLoad(run *vlib.Run, cl *c15Cluster, n *c15Node, cfgs []*DatabaseConfig, part string, wit func() any) bool {
	ok := true
	owner := map[string]string{}
	run.Count("loads_checked", 1)
	for _, cfg := range cfgs {
		cl.mu.Lock()
		ws := cl.writes[cfg.Version]
		cl.mu.Unlock()
		got := c15Canon(cfg)
		match := false
		for _, w := range ws {
			if w.Canon == got && w.DB == cfg.Name {
				match = true
			}
		}
		if !match {
			run.Violation("complete-config", "C15|"+part+"|loaded-config-is-a-mixture|concurrent-load",
				fmt.Sprintf("node %s loaded %s version %s = %s which is not a config written under that version", n.Name, cfg.Name, cfg.Version, got), wit())
			ok = false
		}
		for _, c := range c15Owned(cfg.Scopes) {
			if o, taken := owner[c]; taken {
				run.Violation("ownership", "C15|"+part+"|collection-owned-by-two-loaded-databases|concurrent-load",
					fmt.Sprintf("collection %s is in the loaded configs of %s and %s", c, o, cfg.Name), wit())
				ok = false
			}
			owner[c] = cfg.Name
		}
	}
	return ok
}

// c15HistShape: the multiset of operation kinds/outcomes (of one database, or of all) — signature material.
func c15HistShape(hist []*c15HistOp, db string) string {
	set := map[string]bool{}
	for _, h := range hist {
		if h.change == nil {
			continue
		}
		if db != "" && h.change.DB != db {
			continue
		}
		s := h.change.Kind + ":" + h.Outcome.Class
		if h.Outcome.Reason != "" {
			s += ":" + h.Outcome.Reason
		}
		set[s] = true
	}
	var out []string
	for k := range set {
		out = append(out, k)
	}
	sort.Strings(out)
	if len(out) == 0 {
		return "ops=loads-only"
	}
	return "ops=" + strings.Join(out, "+")
}

func c15HistString(hist []*c15HistOp, db string) string {
	var out []string
	for _, h := range hist {
		switch {
		case h.change != nil && h.change.DB == db:
			o := h.Outcome
			out = append(out, fmt.Sprintf("[%d,%d] %s %s -> %s %s seen=%s new=%s", h.Call, h.Return, h.Actor, h.Op, o.Class, o.Reason, c15VersionClass(o.Seen), c15VersionClass(o.New)))
		case h.change == nil && h.LoadErr == "":
			v := h.View[db]
			if v == "" {
				v = "absent"
			}
			out = append(out, fmt.Sprintf("[%d,%d] %s load -> %s", h.Call, h.Return, h.Actor, c15VersionClass(v)))
		}
	}
	return strings.Join(out, "; ")
}

// c15RunRaceCase: reset, prefix, one round, then progress follow-ups.
func c15RunRaceCase(run *vlib.Run, cl *c15Cluster, rc c15RaceCase, chooser vlib.Chooser, idx int) *vlib.Sched {
	cl.Reset()
	m := newC15Model()
	w := &c15RaceWitness{Case: rc}
	c15RunPrefix(cl, m, rc.Prefix, &w.Prefix)
	run.Distinct("registry_states", cl.RawState().Shape())
	sc, ok := c15RaceRound(run, cl, m, rc, chooser, "race", w)
	if !ok {
		return sc
	}
	wit := func() any {
		raw := cl.RawState()
		w.Registry = string(raw.Registry)
		w.Ops = cl.LogStrings()
		return w
	}
	// progress: a valid change on a database that took part in the race and on another one
	view := c15View{}
	for _, db := range c15DBs {
		view[db], _ = m.Singleton(db)
	}
	touched := ""
	for _, a := range rc.Actors {
		for _, o := range a {
			if !o.Load && touched == "" {
				touched = o.Ch.DB
			}
		}
	}
	if touched == "" {
		touched = "db1"
	}
	n := cl.NewNode()
	mark := uint32(800000 + idx*10)
	var fus []c15Change
	if view[touched] == "" {
		if free := c15Free(m, view, touched); len(free) > 0 {
			fus = append(fus, c15Change{Kind: "create", DB: touched, Cols: free[:1], Mark: mark + 1})
		}
	} else if idx%2 == 0 {
		fus = append(fus, c15Change{Kind: "delete", DB: touched})
	} else {
		var cols []string
		for _, full := range m.Cols[view[touched]] {
			if full == "_default._default" {
				cols = append(cols, "D")
			} else {
				cols = append(cols, strings.TrimPrefix(full, c15Scope+"."))
			}
		}
		fus = append(fus, c15Change{Kind: "update", DB: touched, Cols: cols, Mark: mark + 1})
	}
	for _, ch := range fus {
		if !c15FollowUp(run, cl, n, m, ch, "same-db", "race", wit, &w.After) {
			return sc
		}
	}
	// another database takes a free collection (after the follow-up above)
	v2, ok := c15CheckLoad(run, n, m, c15CheckCtx{Part: "race", Phase: "load after follow-up", SigTail: "after-race-follow-up", Witness: wit, Narrow: true})
	if !ok {
		return sc
	}
	for _, db := range c15DBs {
		if db != touched && v2[db] == "" {
			if free := c15Free(m, v2, db); len(free) > 0 {
				pick := free[idx%len(free)]
				if !c15FollowUp(run, cl, n, m, c15Change{Kind: "create", DB: db, Cols: []string{pick}, Mark: mark + 2}, "other-db:create", "race", wit, &w.After) {
					return sc
				}
				c15CheckLoad(run, cl.NewNode(), m, c15CheckCtx{Part: "race", Phase: "final load", SigTail: "after-race-follow-up-2", Witness: wit, Narrow: true})
			}
			break
		}
	}
	if idx < 2 {
		run.Sample(map[string]any{"case": rc.Key(), "schedule": sc.Trace, "final_view": v2.String()})
	}
	return sc
}

func c15FixedRaceCases() []c15RaceCase {
	cr := func(db string, m uint32, cols ...string) c15Change {
		return c15Change{Kind: "create", DB: db, Cols: cols, Mark: m}
	}
	up := func(db string, m uint32, cols ...string) c15Change {
		return c15Change{Kind: "update", DB: db, Cols: cols, Mark: m}
	}
	del := func(db string) c15Change { return c15Change{Kind: "delete", DB: db} }
	ok := func(ch c15Change) c15Step { return c15Step{Ch: ch} }
	die := func(ch c15Change, k int, applied bool) c15Step { return c15Step{Ch: ch, KillAt: k, Applied: applied} }
	c := func(ch c15Change) c15ActorOp { return c15ActorOp{Ch: ch} }
	ld := c15ActorOp{Load: true}
	p0 := []c15Step{ok(cr("db1", 1, "c1", "c2"))}
	pdel := []c15Step{ok(cr("db1", 1, "c1")), die(del("db1"), 2, false)}
	pdel2 := []c15Step{ok(cr("db1", 1, "c1")), ok(up("db1", 2, "c1", "c2")), die(del("db1"), 2, false)}
	return []c15RaceCase{
		{p0, [][]c15ActorOp{{c(up("db1", 10, "c1"))}, {c(up("db1", 20, "c2", "c3"))}}},
		{p0, [][]c15ActorOp{{c(up("db1", 10, "c1"))}, {c(cr("db2", 20, "c2"))}}},
		{p0, [][]c15ActorOp{{c(cr("db2", 10, "c3"))}, {c(cr("db3", 20, "c3"))}}},
		{p0, [][]c15ActorOp{{c(del("db1"))}, {c(up("db1", 20, "c1"))}}},
		{p0, [][]c15ActorOp{{c(del("db1"))}, {c(cr("db2", 20, "c1"))}}},
		{p0, [][]c15ActorOp{{c(cr("db2", 10, "c3"))}, {ld, ld}}},
		{p0, [][]c15ActorOp{{c(up("db1", 10, "c1"))}, {ld}, {c(cr("db2", 20, "c2"))}}},
		{p0, [][]c15ActorOp{{c(up("db1", 10, "c3"))}, {ld, ld}}},
		{p0, [][]c15ActorOp{{c(del("db1"))}, {ld, ld}}},
		{nil, [][]c15ActorOp{{c(cr("db1", 10, "c1"))}, {c(cr("db1", 20, "c2"))}}},
		{nil, [][]c15ActorOp{{c(cr("db1", 10, "c1"))}, {c(cr("db2", 20, "c1"))}}},
		{nil, [][]c15ActorOp{{c(cr("db1", 10, "c1"))}, {ld, ld}}},
		{[]c15Step{ok(cr("db1", 1, "c1", "c2")), die(up("db1", 2, "c1"), 1, true)}, [][]c15ActorOp{{ld}, {c(up("db1", 20, "c3"))}}},
		{[]c15Step{ok(cr("db1", 1, "c1", "c2")), die(up("db1", 2, "c1"), 1, true)}, [][]c15ActorOp{{ld}, {ld}}},
		{[]c15Step{ok(cr("db1", 1, "c1")), die(del("db1"), 1, true)}, [][]c15ActorOp{{c(cr("db1", 10, "c2"))}, {c(cr("db2", 20, "c1"))}}},
		{[]c15Step{die(cr("db1", 1, "c1"), 1, true)}, [][]c15ActorOp{{c(cr("db1", 10, "c1"))}, {ld}}},
		{p0, [][]c15ActorOp{{c(up("db1", 10, "c1")), c(up("db1", 11, "c1", "c3"))}, {c(up("db1", 20, "c2"))}}},
		{p0, [][]c15ActorOp{{c(del("db1"))}, {c(cr("db1", 20, "c3"))}}},
		{p0, [][]c15ActorOp{{c(del("db1"))}, {c(cr("db1", 20, "c1")), ld}}},
		// a delete that died between the registry mark and the removal of the config document, then two nodes race
		// the recovery: one waits for the document to disappear while the other cleans up and re-creates the
		// database at a generation not above the deleted one
		{pdel, [][]c15ActorOp{{c(cr("db1", 10, "c2"))}, {c(cr("db1", 20, "c3"))}}},
		{pdel, [][]c15ActorOp{{c(del("db1"))}, {c(cr("db1", 20, "c3"))}}},
		{pdel, [][]c15ActorOp{{c(up("db1", 10, "c2"))}, {c(cr("db1", 20, "c3"))}}},
		{pdel2, [][]c15ActorOp{{c(cr("db1", 10, "c3"))}, {c(cr("db1", 20, "c1")), ld}}},
		{pdel2, [][]c15ActorOp{{c(del("db1")), c(cr("db2", 11, "c1"))}, {c(cr("db1", 20, "c1"))}}},
	}
}

func c15GenRaceCase(r *vlib.Rand) c15RaceCase {
	s := c15Shadow{}
	mark := uint32(1000)
	var rc c15RaceCase
	plen := r.Range(0, 2)
	for i := 0; i < plen; i++ {
		st := c15Step{Ch: c15GenChange(r, s, &mark, true)}
		if r.Chance(1, 4) {
			st.KillAt = r.Range(1, 3)
			st.Applied = r.Bool()
		}
		if st.KillAt == 0 {
			s.apply(st.Ch)
		}
		rc.Prefix = append(rc.Prefix, st)
	}
	na := 2
	if r.Chance(1, 4) {
		na = 3
	}
	for a := 0; a < na; a++ {
		var ops []c15ActorOp
		for k := r.Range(1, 2); k > 0; k-- {
			if r.Chance(1, 4) {
				ops = append(ops, c15ActorOp{Load: true})
			} else {
				// every actor draws from the same shadow: changes are valid alone and may collide with each other
				ops = append(ops, c15ActorOp{Ch: c15GenChange(r, s, &mark, r.Chance(7, 8))})
			}
		}
		rc.Actors = append(rc.Actors, ops)
	}
	return rc
}

// c15PointChooser takes the non-preemptive default everywhere except at the given choice depths.
func c15PointChooser(points map[int]int) vlib.Chooser {
	return func(depth int, last string, opts []vlib.Option) int {
		if alt, ok := points[depth]; ok && alt < len(opts) {
			return alt
		}
		return 0
	}
}

type c15Spec [][2]int // (choice depth, alternative) pairs, ascending depth

func (sp c15Spec) points() map[int]int {
	m := map[int]int{}
	for _, p := range sp {
		m[p[0]] = p[1]
	}
	return m
}

// c15Layered enumerates schedules by number of deviations from the non-preemptive default: the default, then every
// single deviation, then deviations added to those (seeded order) until the budget is used.
func c15Layered(run *vlib.Run, cl *c15Cluster, rc c15RaceCase, r *vlib.Rand, budget int, maxLayers int, idx *int) (runs int, complete bool) {
	type done struct {
		spec c15Spec
		ns   []int
	}
	exec := func(sp c15Spec) done {
		*idx++
		sc := c15RunRaceCase(run, cl, rc, c15PointChooser(sp.points()), *idx)
		runs++
		return done{sp, append([]int{}, sc.Ns...)}
	}
	layer := []done{exec(nil)}
	for l := 1; l <= maxLayers; l++ {
		var cands []c15Spec
		for _, d := range layer {
			from := 0
			if len(d.spec) > 0 {
				from = d.spec[len(d.spec)-1][0] + 1
			}
			for depth := from; depth < len(d.ns); depth++ {
				for alt := 1; alt < d.ns[depth]; alt++ {
					cands = append(cands, append(append(c15Spec{}, d.spec...), [2]int{depth, alt}))
				}
			}
		}
		if len(cands) == 0 {
			return runs, true
		}
		if runs+len(cands) > budget {
			p := r.Perm(len(cands))
			sh := make([]c15Spec, len(cands))
			for i, j := range p {
				sh[i] = cands[j]
			}
			cands = sh
		}
		var next []done
		for _, sp := range cands {
			if runs >= budget {
				return runs, false
			}
			next = append(next, exec(sp))
		}
		layer = next
	}
	return runs, false
}

func TestVerif_C15_Races(t *testing.T) {
	run := vlib.Start(t, "C15", "races")
	defer run.Finish()
	cl := newC15Cluster(t)
	defer cl.Close()
	cl.sites.Store(true)

	idx := 0
	fixed := c15FixedRaceCases()
	rnd := run.Rand()
	// (a) layered enumeration: default, all single deviations, then double (and triple in the thorough tier)
	perCase := run.N(90, 1000)
	for fi, rc := range fixed {
		n, complete := c15Layered(run, cl, rc, rnd.Fork(uint64(fi)), perCase, run.N(2, 3), &idx)
		run.Count("layered_schedules", n)
		if complete {
			run.Count("cases_enumerated_completely_within_layers", 1)
		}
	}
	// (b) vlib explorer: depth-first with preemption bound 2 on a seed-chosen subset
	dfs := run.N(40, 300)
	for k := 0; k < run.N(4, len(fixed)); k++ {
		rc := fixed[(int(run.Seed)*5+k*3)%len(fixed)]
		ex := vlib.NewExplorer(2, 80)
		for !ex.Exhausted() && ex.Runs < dfs {
			idx++
			sc := c15RunRaceCase(run, cl, rc, ex.Chooser(), idx)
			ex.Done(sc)
		}
		run.Count("dfs_schedules", ex.Runs)
		if ex.Exhausted() {
			run.Count("cases_exhausted_within_preemption_bound", 1)
		}
	}
	// (c) random cases under random schedules
	nRandom := run.N(400, 6000)
	for i := 0; i < nRandom; i++ {
		r := run.CaseRand(i)
		idx++
		var rc c15RaceCase
		if r.Chance(1, 4) {
			rc = vlib.Pick(r, fixed)
		} else {
			rc = c15GenRaceCase(r)
		}
		c15RunRaceCase(run, cl, rc, vlib.RandomChooser(r.Fork(7), 50), idx)
		run.Count("random_schedules", 1)
	}
}
