//go:build verif

package rest

// C02 — No document content is disclosed outside the reader's channels.
//
// Oracle: MARKER SCAN. Every revision body, every attachment and every document ID carries a unique
// secret token. The harness keeps a model (documents, revisions, their channels; users, their effective
// channels) and scans the raw bytes of everything a non-admin user receives (HTTP status line aside:
// headers and body; BLIP properties and body) for tokens the model says that user must not see.
//
// This file: model, corpus builder, scanner, shared bookkeeping and the REST part.
// c02blip_test.go: the replication-protocol part.

import (
	"bytes"
	"compress/gzip"
	"encoding/base64"
	"encoding/json"
	"fmt"
	"io"
	"net/url"
	"os"
	"sort"
	"strings"
	"sync"
	"testing"

	"github.com/couchbase/sync_gateway/base"
	"github.com/couchbase/sync_gateway/db"
	"verif/vlib"
)

// ---------------------------------------------------------------------------------------------
// model

const c02TokenPrefix = "SECRET"
const c02TokenLen = 20 // SECRET + kind letter + '-' + 12 hex

type c02Kind int

const (
	c02KindBody c02Kind = iota
	c02KindAtt
	c02KindDocID
)

func (k c02Kind) String() string { return [...]string{"body", "attachment", "docid"}[k] }

type c02Marker struct {
	token string
	kind  c02Kind
	doc   *c02Doc
	revs  []*c02Rev // body: the revision; attachment: every revision carrying it; docid: nil
}

type c02Att struct {
	name   string
	data   []byte
	digest string
	marker *c02Marker
}

type c02Rev struct {
	doc      *c02Doc
	n        int // index in doc.revs
	revID    string
	cv       string
	parent   *c02Rev
	channels []string
	deleted  bool
	marker   *c02Marker // nil for a body-less tombstone
	atts     []*c02Att  // attachments carried by this revision
	children int
	winner   bool
	// history facts recorded while the corpus is written (they name the history shape in signatures)
	writtenAsCurrent       bool // this revision was the document's current revision right after it was written
	supersededWhileCurrent bool // it was the document's current revision when its first child was written
	epoch                  int  // live part: the grant epoch in which the revision was written
}

func (r *c02Rev) leaf() bool { return r.children == 0 }

type c02Doc struct {
	id     string
	kind   string
	marker *c02Marker
	revs   []*c02Rev
}

func (d *c02Doc) winner() *c02Rev {
	for _, r := range d.revs {
		if r.winner {
			return r
		}
	}
	return nil
}

type c02User struct {
	name   string
	kind   string // how access is obtained (stable label for signatures)
	direct []string
	roles  []string
	eff    map[string]bool // effective channels (incl. "!"), "*" = everything
	// live part: effective channels per grant epoch (index = epoch)
	effHist []map[string]bool
}

func (u *c02User) star() bool { return u.eff["*"] }

func (u *c02User) canSeeChannels(chs []string) bool {
	if u.star() {
		return true
	}
	for _, c := range chs {
		if u.eff[c] {
			return true
		}
	}
	return false
}

func (u *c02User) canSeeRev(r *c02Rev) bool { return u.canSeeChannels(r.channels) }

func (u *c02User) everSawDoc(d *c02Doc) bool {
	for _, r := range d.revs {
		if u.canSeeRev(r) {
			return true
		}
	}
	return false
}

// allowed is the property's right-hand side: may this user receive this token?
func (u *c02User) allowed(m *c02Marker) bool {
	switch m.kind {
	case c02KindDocID:
		return u.everSawDoc(m.doc)
	default:
		for _, r := range m.revs {
			if u.canSeeRev(r) {
				return true
			}
		}
		return false
	}
}

type c02Corpus struct {
	t       testing.TB
	run     *vlib.Run
	rnd     *vlib.Rand
	idx     int
	rt      *RestTester
	defColl bool
	docs    []*c02Doc
	users   []*c02User
	roles   map[string][]string
	markers map[string]*c02Marker
	atts    map[string]*c02Att // by digest
	ops     []string           // admin operations that built the corpus (witness)
	midSeq  uint64
	obs     *c02Obs
	epoch   int // live part: current grant epoch (stamped on every revision written)
}

func (c *c02Corpus) newMarker(kind c02Kind, doc *c02Doc) *c02Marker {
	for {
		tok := fmt.Sprintf("%s%c-%012x", c02TokenPrefix, "BAD"[kind], c.rnd.Uint64()&0xffffffffffff)
		if _, dup := c.markers[tok]; dup {
			continue
		}
		m := &c02Marker{token: tok, kind: kind, doc: doc}
		c.markers[tok] = m
		return m
	}
}

func (c *c02Corpus) admin(method, path, body string, want ...int) *TestResponse {
	resp := c.rt.SendAdminRequest(method, path, body)
	ok := len(want) == 0
	for _, w := range want {
		if resp.Code == w {
			ok = true
		}
	}
	op := fmt.Sprintf("%s %s %s -> %d", method, path, c02Trunc(body, 300), resp.Code)
	c.ops = append(c.ops, op)
	if !ok {
		c.t.Fatalf("C02 corpus %d: admin %s -> %d %s", c.idx, op, resp.Code, c02Trunc(resp.Body.String(), 400))
	}
	return resp
}

func c02Trunc(s string, n int) string {
	if len(s) > n {
		return s[:n] + "…"
	}
	return s
}

const c02SyncFn = `function(doc, oldDoc){
	channel(doc.ch);
	if (doc.grant) { access(doc.grant.users, doc.grant.chans); }
	if (doc.grole) { role(doc.grole.users, doc.grole.roles); }
}`

// c02RevSpec describes a revision to write.
type c02RevSpec struct {
	channels  []string
	deleted   bool // tombstone
	bodyless  bool // tombstone written with DELETE (no body, no marker)
	att       bool // add a fresh attachment
	carry     bool // carry over the parent's attachments as stubs
	extra     map[string]any
	forceRev  string // new_edits=false: explicit revision id (conflicting branch)
	forceHist []string
}

func (c *c02Corpus) newDoc(kind string) *c02Doc {
	d := &c02Doc{kind: kind}
	d.marker = c.newMarker(c02KindDocID, d)
	d.id = fmt.Sprintf("d%02d-%s", len(c.docs), d.marker.token)
	c.docs = append(c.docs, d)
	return d
}

func c02RevDigest(revID string) string {
	if i := strings.IndexByte(revID, '-'); i >= 0 {
		return revID[i+1:]
	}
	return revID
}

func c02RevGen(revID string) int {
	var g int
	_, _ = fmt.Sscanf(revID, "%d-", &g)
	return g
}

// addRev writes one revision through the admin API and records it in the model.
func (c *c02Corpus) addRev(d *c02Doc, parent *c02Rev, sp c02RevSpec) *c02Rev {
	r := &c02Rev{doc: d, n: len(d.revs), parent: parent, channels: append([]string{}, sp.channels...), deleted: sp.deleted, epoch: c.epoch}
	path := "/{{.keyspace}}/" + d.id
	if sp.bodyless {
		r.channels = nil
		resp := c.admin("DELETE", path+"?rev="+url.QueryEscape(parent.revID), "", 200)
		var out struct{ Rev, Cv string }
		_ = json.Unmarshal(resp.Body.Bytes(), &out)
		r.revID, r.cv = out.Rev, out.Cv
	} else {
		r.marker = c.newMarker(c02KindBody, d)
		r.marker.revs = []*c02Rev{r}
		body := map[string]any{
			"ch":     r.channels,
			"marker": r.marker.token,
			"nested": map[string]any{"deep": []any{r.marker.token, len(d.revs)}},
			"note":   fmt.Sprintf("corpus %d doc %s rev #%d kind %s", c.idx, d.id[:3], r.n, d.kind),
		}
		for k, v := range sp.extra {
			body[k] = v
		}
		if sp.deleted {
			body["_deleted"] = true
		}
		atts := map[string]any{}
		if sp.carry && parent != nil && !sp.deleted {
			for _, a := range parent.atts {
				atts[a.name] = map[string]any{"stub": true, "digest": a.digest, "revpos": 1, "length": len(a.data)}
				r.atts = append(r.atts, a)
				a.marker.revs = append(a.marker.revs, r)
			}
			// the real stub (with the right revpos) comes from the server
			if len(parent.atts) > 0 {
				resp := c.rt.SendAdminRequest("GET", path+"?rev="+url.QueryEscape(parent.revID), "")
				var pb map[string]any
				if resp.Code == 200 && json.Unmarshal(resp.Body.Bytes(), &pb) == nil {
					if pa, ok := pb["_attachments"].(map[string]any); ok {
						for k, v := range pa {
							atts[k] = v
						}
					}
				}
			}
		}
		if sp.att && !sp.deleted {
			a := &c02Att{name: fmt.Sprintf("att-r%d.bin", r.n)}
			a.marker = c.newMarker(c02KindAtt, d)
			a.marker.revs = []*c02Rev{r}
			var buf bytes.Buffer
			buf.WriteString("ATTACHMENT\x00\xff\xfe ")
			for i := 0; i < 6; i++ {
				buf.WriteString(a.marker.token)
				buf.WriteString(" | ")
			}
			buf.WriteString(fmt.Sprintf("end of %s", a.name))
			a.data = buf.Bytes()
			a.digest = db.Sha1DigestKey(a.data)
			atts[a.name] = map[string]any{"content_type": "application/octet-stream", "data": base64.StdEncoding.EncodeToString(a.data)}
			r.atts = append(r.atts, a)
			c.atts[a.digest] = a
		}
		if len(atts) > 0 {
			body["_attachments"] = atts
		}
		q := ""
		if sp.forceRev != "" {
			body["_rev"] = sp.forceRev
			ids := []string{c02RevDigest(sp.forceRev)}
			for _, h := range sp.forceHist {
				ids = append(ids, c02RevDigest(h))
			}
			body["_revisions"] = map[string]any{"start": c02RevGen(sp.forceRev), "ids": ids}
			q = "?new_edits=false"
		} else if parent != nil {
			q = "?rev=" + url.QueryEscape(parent.revID)
		}
		jb, _ := json.Marshal(body)
		resp := c.admin("PUT", path+q, string(jb), 201)
		var out struct{ Rev, Cv string }
		_ = json.Unmarshal(resp.Body.Bytes(), &out)
		r.revID = out.Rev
		if sp.forceRev == "" {
			r.cv = out.Cv
		}
	}
	if r.revID == "" {
		c.t.Fatalf("C02 corpus: no rev id returned for %s", d.id)
	}
	if parent != nil {
		if parent.children == 0 {
			parent.supersededWhileCurrent = parent.winner
		}
		parent.children++
	}
	d.revs = append(d.revs, r)
	c.learnWinner(d, false)
	r.writtenAsCurrent = r.winner
	return r
}

// channel letters of this corpus, permuted per corpus so that the users' grants differ between corpora.
type c02Chans struct{ A, B, C string }

func (c *c02Corpus) pickSubset(cs c02Chans, nonEmpty bool) []string {
	all := []string{cs.A, cs.B, cs.C}
	for {
		var out []string
		for _, x := range all {
			if c.rnd.Chance(2, 5) {
				out = append(out, x)
			}
		}
		if len(out) > 0 || !nonEmpty {
			return out
		}
	}
}

func (c *c02Corpus) pickOne(cs c02Chans) string {
	return vlib.Pick(c.rnd, []string{cs.A, cs.B, cs.C})
}

func (c *c02Corpus) pickOther(cs c02Chans, not ...string) string {
	for {
		x := c.pickOne(cs)
		ok := true
		for _, n := range not {
			if n == x {
				ok = false
			}
		}
		if ok {
			return x
		}
	}
}

// c02BuildCorpus creates a database, principals and documents. Document kinds cover current, superseded,
// channel-moved, tombstoned (with and without body), resurrected, conflicting (live/live, live/tombstoned),
// channel-less, public and never-granted-channel revisions, each with attachments.
func c02BuildCorpus(t testing.TB, run *vlib.Run, idx int, rnd *vlib.Rand) *c02Corpus {
	c := &c02Corpus{t: t, run: run, rnd: rnd, idx: idx, markers: map[string]*c02Marker{}, atts: map[string]*c02Att{}, roles: map[string][]string{}}
	cfg := &RestTesterConfig{SyncFn: c02SyncFn}
	// default collection for corpora 1,2,5,6,9,10,...: with the rotating window of document kinds below, every kind
	// meets both kinds of collection within six corpora
	c.defColl = idx%4 == 1 || idx%4 == 2
	if c.defColl {
		c.rt = NewRestTesterDefaultCollection(t, cfg)
	} else {
		c.rt = NewRestTester(t, cfg)
	}
	// Conflicting revisions are legacy data in a current database: the REST configuration no longer accepts
	// allow_conflicts, so the database-level option is switched on while the corpus is written and off again
	// before anything is read.
	c.rt.GetDatabase().Options.AllowConflicts = base.Ptr(true)
	perm := rnd.Perm(3)
	letters := []string{"A", "B", "C"}
	cs := c02Chans{A: letters[perm[0]], B: letters[perm[1]], C: letters[perm[2]]}

	// roles and users: subsets of {direct grant, via role, public only, star} (+ grants made by documents)
	mkRole := func(name string, chans []string) {
		c.rt.CreateRole(name, chans)
		c.roles[name] = chans
		c.ops = append(c.ops, fmt.Sprintf("role %s channels=%v", name, chans))
	}
	mkRole("rB", []string{cs.B})
	mkRole("rC", []string{cs.C})
	mkRole("rAC", []string{cs.A, cs.C})
	mkRole("rstar", []string{"*"})
	mkUser := func(name, kind string, direct []string, roles []string) *c02User {
		c.rt.CreateUser(name, direct, roles...)
		u := &c02User{name: name, kind: kind, direct: direct, roles: roles}
		c.users = append(c.users, u)
		c.ops = append(c.ops, fmt.Sprintf("user %s channels=%v roles=%v", name, direct, roles))
		return u
	}
	mkUser("u_pub", "public-only", nil, nil)
	mkUser("u_dA", "direct", []string{cs.A}, nil)
	mkUser("u_rB", "role", nil, []string{"rB"})
	mkUser("u_dA_rC", "direct+role", []string{cs.A}, []string{"rC"})
	mkUser("u_dBC", "direct2", []string{cs.B, cs.C}, nil)
	mkUser("u_rAC", "role2", nil, []string{"rAC"})
	mkUser("u_star", "star", []string{"*"}, nil)
	mkUser("u_rstar", "role-star", nil, []string{"rstar"})
	uDyn := mkUser("u_dyn", "doc-grant", nil, nil)
	uDynRole := mkUser("u_dynrole", "doc-role-grant", nil, nil)

	dynChan := c.pickOne(cs)
	dynRole := vlib.Pick(rnd, []string{"rB", "rC"})

	// documents
	kinds := []string{"current", "superseded", "moved", "moved-back", "tombstone", "tombstone-body", "resurrected",
		"conflict", "conflict-deep", "conflict-tombstoned", "no-channel", "public", "public-to-private", "never-granted", "multi-channel", "grant"}
	// every corpus holds the grant document and a rotating window of the other kinds (all kinds in the
	// thorough tier): kinds i*7 .. i*7+6 (mod 15), so 15 corpora cover every kind 7 times, 6 corpora at least twice
	var chosen []string
	if perCorpus := c02KindsPerCorpus(run); perCorpus >= len(kinds) {
		chosen = kinds
	} else {
		others := kinds[:len(kinds)-1]
		for k := 0; k < perCorpus-1; k++ {
			chosen = append(chosen, others[(idx*(perCorpus-1)+k)%len(others)])
		}
		chosen = append(chosen, "grant")
	}
	order := rnd.Perm(len(chosen))
	for _, ki := range order {
		kind := chosen[ki]
		d := c.newDoc(kind)
		switch kind {
		case "current":
			c.addRev(d, nil, c02RevSpec{channels: []string{c.pickOne(cs)}, att: true})
		case "superseded":
			x := c.pickOne(cs)
			r1 := c.addRev(d, nil, c02RevSpec{channels: []string{x}, att: true})
			r2 := c.addRev(d, r1, c02RevSpec{channels: []string{x}, att: true, carry: rnd.Bool()})
			c.addRev(d, r2, c02RevSpec{channels: []string{x}, att: true, carry: rnd.Bool()})
		case "moved":
			x := c.pickOne(cs)
			y := c.pickOther(cs, x)
			r1 := c.addRev(d, nil, c02RevSpec{channels: []string{x}, att: true})
			r2 := c.addRev(d, r1, c02RevSpec{channels: []string{y}, att: true, carry: rnd.Bool()})
			if rnd.Bool() {
				c.addRev(d, r2, c02RevSpec{channels: []string{y}, att: true})
			}
		case "moved-back":
			x := c.pickOne(cs)
			y := c.pickOther(cs, x)
			r1 := c.addRev(d, nil, c02RevSpec{channels: []string{x}, att: true})
			r2 := c.addRev(d, r1, c02RevSpec{channels: []string{y}, att: true})
			c.addRev(d, r2, c02RevSpec{channels: []string{x}, att: true, carry: rnd.Bool()})
		case "tombstone":
			r1 := c.addRev(d, nil, c02RevSpec{channels: []string{c.pickOne(cs)}, att: true})
			if rnd.Bool() {
				r1 = c.addRev(d, r1, c02RevSpec{channels: r1.channels, att: true})
			}
			c.addRev(d, r1, c02RevSpec{deleted: true, bodyless: true})
		case "tombstone-body":
			x := c.pickOne(cs)
			r1 := c.addRev(d, nil, c02RevSpec{channels: []string{x}, att: true})
			y := x
			if rnd.Bool() {
				y = c.pickOther(cs, x)
			}
			c.addRev(d, r1, c02RevSpec{channels: []string{y}, deleted: true})
		case "resurrected":
			x := c.pickOne(cs)
			r1 := c.addRev(d, nil, c02RevSpec{channels: []string{x}, att: true})
			r2 := c.addRev(d, r1, c02RevSpec{deleted: true, bodyless: true})
			c.addRev(d, r2, c02RevSpec{channels: []string{c.pickOther(cs, x)}, att: true})
		case "conflict":
			x := c.pickOne(cs)
			y := c.pickOther(cs, x)
			r1 := c.addRev(d, nil, c02RevSpec{channels: []string{x}, att: true})
			c.addRev(d, r1, c02RevSpec{channels: []string{x}, att: true, carry: rnd.Bool()})
			c.addRev(d, r1, c02RevSpec{channels: []string{y}, att: true, forceRev: fmt.Sprintf("2-%s", c02Hex(rnd, 16)), forceHist: []string{r1.revID}})
		case "conflict-deep":
			x := c.pickOne(cs)
			y := c.pickOther(cs, x)
			z := c.pickOther(cs, x, y)
			r1 := c.addRev(d, nil, c02RevSpec{channels: []string{x}, att: true})
			r2a := c.addRev(d, r1, c02RevSpec{channels: []string{y}, att: true})
			c.addRev(d, r2a, c02RevSpec{channels: []string{y}, att: true, carry: true})
			b2 := fmt.Sprintf("2-%s", c02Hex(rnd, 16))
			r2b := c.addRev(d, r1, c02RevSpec{channels: []string{z}, att: true, forceRev: b2, forceHist: []string{r1.revID}})
			c.addRev(d, r2b, c02RevSpec{channels: []string{z}, att: true, forceRev: fmt.Sprintf("3-%s", c02Hex(rnd, 16)), forceHist: []string{b2, r1.revID}})
			if rnd.Bool() {
				c.addRev(d, r1, c02RevSpec{channels: []string{x}, att: true, forceRev: fmt.Sprintf("2-%s", c02Hex(rnd, 16)), forceHist: []string{r1.revID}})
			}
		case "conflict-tombstoned":
			x := c.pickOne(cs)
			y := c.pickOther(cs, x)
			r1 := c.addRev(d, nil, c02RevSpec{channels: []string{x}, att: true})
			c.addRev(d, r1, c02RevSpec{channels: []string{x}, att: true})
			b2 := fmt.Sprintf("2-%s", c02Hex(rnd, 16))
			r2b := c.addRev(d, r1, c02RevSpec{channels: []string{y}, att: true, forceRev: b2, forceHist: []string{r1.revID}})
			// tombstone (with a body in channel y) on top of the conflicting branch
			c.addRev(d, r2b, c02RevSpec{channels: []string{y}, deleted: true, forceRev: fmt.Sprintf("3-%s", c02Hex(rnd, 16)), forceHist: []string{b2, r1.revID}})
		case "no-channel":
			// the current revision is in no channel at all (readable through the all-channels wildcard only);
			// sometimes an earlier revision was in a channel
			var r0 *c02Rev
			if rnd.Bool() {
				r0 = c.addRev(d, nil, c02RevSpec{channels: []string{c.pickOne(cs)}, att: true})
			}
			c.addRev(d, r0, c02RevSpec{channels: []string{}, att: true, carry: rnd.Bool()})
		case "public":
			r1 := c.addRev(d, nil, c02RevSpec{channels: []string{"!"}, att: true})
			if rnd.Bool() {
				c.addRev(d, r1, c02RevSpec{channels: []string{"!"}, att: true, carry: true})
			}
		case "public-to-private":
			r1 := c.addRev(d, nil, c02RevSpec{channels: []string{"!"}, att: true})
			c.addRev(d, r1, c02RevSpec{channels: []string{c.pickOne(cs)}, att: true, carry: rnd.Bool()})
		case "never-granted":
			r1 := c.addRev(d, nil, c02RevSpec{channels: []string{"Z"}, att: true})
			if rnd.Bool() {
				c.addRev(d, r1, c02RevSpec{channels: []string{"Z", "Y"}, att: true})
			}
		case "multi-channel":
			x := c.pickOne(cs)
			y := c.pickOther(cs, x)
			r1 := c.addRev(d, nil, c02RevSpec{channels: []string{x, y}, att: true})
			if rnd.Bool() {
				c.addRev(d, r1, c02RevSpec{channels: []string{y, "Z"}, att: true})
			}
		case "grant":
			c.addRev(d, nil, c02RevSpec{channels: []string{c.pickOne(cs)}, att: true, extra: map[string]any{
				"grant": map[string]any{"users": []string{"u_dyn"}, "chans": []string{dynChan}},
				"grole": map[string]any{"users": []string{"u_dynrole"}, "roles": []string{"role:" + dynRole}},
			}})
		}
		if len(c.docs) == len(chosen)/2 {
			c.midSeq, _ = c.rt.GetDatabase().LastSequence(c.rt.Context())
		}
	}
	c.rt.GetDatabase().Options.AllowConflicts = nil
	c.rt.WaitForPendingChanges()

	// effective channels (AccessModel): admin grants ∪ roles ∪ document grants ∪ public channel
	for _, u := range c.users {
		u.eff = map[string]bool{"!": true}
		for _, x := range u.direct {
			u.eff[x] = true
		}
		roles := append([]string{}, u.roles...)
		if u == uDyn {
			u.eff[dynChan] = true
		}
		if u == uDynRole {
			roles = append(roles, dynRole)
		}
		for _, rn := range roles {
			for _, x := range c.roles[rn] {
				u.eff[x] = true
			}
		}
	}
	c.learnWinners()
	c.validateModel()
	return c
}

func c02Hex(r *vlib.Rand, n int) string {
	const hx = "0123456789abcdef"
	b := make([]byte, n)
	for i := range b {
		b[i] = hx[r.Intn(16)]
	}
	return string(b)
}

// learnWinners asks the server (admin API) which leaf is the current revision of each document and
// validates the model's channel assignment against the stored metadata.
func (c *c02Corpus) learnWinners() {
	for _, d := range c.docs {
		c.learnWinner(d, true)
	}
}

func (c *c02Corpus) learnWinner(d *c02Doc, validate bool) {
	{
		resp := c.rt.SendAdminRequest("GET", "/{{.keyspace}}/_raw/"+d.id+"?include_doc=false", "")
		if resp.Code != 200 {
			c.t.Fatalf("C02: _raw %s -> %d %s", d.id, resp.Code, resp.Body.String())
		}
		var rawx struct {
			Xattrs struct {
				Sync struct {
					Rev      json.RawMessage `json:"rev"`
					Channels map[string]any  `json:"channels"`
					History  struct {
						Revs        []string            `json:"revs"`
						ChannelsMap map[string][]string `json:"channelsMap"`
					} `json:"history"`
				} `json:"_sync"`
			} `json:"_xattrs"`
		}
		if err := json.Unmarshal(resp.Body.Bytes(), &rawx); err != nil {
			c.t.Fatalf("C02: _raw %s: %v", d.id, err)
		}
		raw := rawx.Xattrs
		cur := ""
		var s string
		var o struct {
			Rev string `json:"rev"`
		}
		if json.Unmarshal(raw.Sync.Rev, &s) == nil {
			cur = s
		} else if json.Unmarshal(raw.Sync.Rev, &o) == nil {
			cur = o.Rev
		}
		found := false
		for _, r := range d.revs {
			r.winner = r.revID == cur
			found = found || r.winner
		}
		if !found {
			c.t.Fatalf("C02: current revision %q of %s is not in the model (%s)", cur, d.id, c02Trunc(resp.Body.String(), 600))
		}
		if !validate {
			return
		}
		if os.Getenv("VERIF_C02_DEBUG") != "" && strings.HasPrefix(d.kind, "conflict") {
			fmt.Printf("C02-DEBUG raw %s (%s): %s\n", d.id, d.kind, resp.Body.String())
		}
		// model validation: the server's channel assignment of the current revision and of every other leaf
		// must be the one the model derives from the body
		w := d.winner()
		var active []string
		for ch, rem := range raw.Sync.Channels {
			if rem == nil {
				active = append(active, ch)
			}
		}
		if !c02SameSet(active, w.channels) {
			c.t.Fatalf("C02 model mismatch: %s (%s) current rev %s: server channels %v, model %v", d.id, d.kind, w.revID, active, w.channels)
		}
		for i, rid := range raw.Sync.History.Revs {
			for _, r := range d.revs {
				// (a leaf the tree holds no channels for is readable by nobody but all-channel users: fail-closed)
				if chs, ok := raw.Sync.History.ChannelsMap[fmt.Sprint(i)]; ok && r.revID == rid && r.leaf() && !r.winner {
					if !c02SameSet(chs, r.channels) {
						c.t.Fatalf("C02 model mismatch: %s (%s) leaf %s: server channels %v, model %v", d.id, d.kind, rid, chs, r.channels)
					}
					c.run.Count("model_leaf_channels_validated", 1)
				}
			}
		}
		c.run.Count("model_current_channels_validated", 1)
	}
}

func c02SameSet(a, b []string) bool {
	ma := map[string]bool{}
	for _, x := range a {
		ma[x] = true
	}
	mb := map[string]bool{}
	for _, x := range b {
		mb[x] = true
	}
	if len(ma) != len(mb) {
		return false
	}
	for x := range ma {
		if !mb[x] {
			return false
		}
	}
	return true
}

// validateModel compares the model's effective channels of every user with what the admin API reports.
func (c *c02Corpus) validateModel() {
	for _, u := range c.users {
		resp := c.rt.SendAdminRequest("GET", "/{{.db}}/_user/"+u.name, "")
		if resp.Code != 200 {
			c.t.Fatalf("C02: GET _user/%s -> %d", u.name, resp.Code)
		}
		var pc struct {
			AllChannels      []string `json:"all_channels"`
			CollectionAccess map[string]map[string]struct {
				AllChannels []string `json:"all_channels"`
			} `json:"collection_access"`
		}
		if err := json.Unmarshal(resp.Body.Bytes(), &pc); err != nil {
			c.t.Fatalf("C02: _user/%s: %v", u.name, err)
		}
		got := pc.AllChannels
		for _, sc := range pc.CollectionAccess {
			for _, ca := range sc {
				got = append(got, ca.AllChannels...)
			}
		}
		var want []string
		for x := range u.eff {
			want = append(want, x)
		}
		if !c02SameSet(got, want) {
			c.t.Fatalf("C02 model mismatch: user %s effective channels: server %v, model %v (%s)", u.name, got, want, c02Trunc(resp.Body.String(), 500))
		}
		c.run.Count("model_user_channels_validated", 1)
	}
}

// ---------------------------------------------------------------------------------------------
// scanner

type c02Hit struct {
	marker *c02Marker
	where  string // raw | gzip | base64 | base64+gzip | header | property
	ctx    string // bytes around the hit (decoded layer)
}

// c02Scan finds every known token in b, also inside gzip streams and base64 runs embedded in b.
func (c *c02Corpus) scan(b []byte, layer string, depth int, out *[]c02Hit) {
	// raw
	for off := 0; ; {
		i := bytes.Index(b[off:], []byte(c02TokenPrefix))
		if i < 0 {
			break
		}
		p := off + i
		off = p + len(c02TokenPrefix)
		if p+c02TokenLen > len(b) {
			continue
		}
		if m, ok := c.markers[string(b[p:p+c02TokenLen])]; ok {
			lo, hi := p-120, p+c02TokenLen+120
			if lo < 0 {
				lo = 0
			}
			if hi > len(b) {
				hi = len(b)
			}
			*out = append(*out, c02Hit{marker: m, where: layer, ctx: string(b[lo:hi])})
		}
	}
	if depth >= 3 {
		return
	}
	// gzip members
	for off := 0; ; {
		i := bytes.Index(b[off:], []byte{0x1f, 0x8b, 0x08})
		if i < 0 {
			break
		}
		p := off + i
		off = p + 3
		zr, err := gzip.NewReader(bytes.NewReader(b[p:]))
		if err != nil {
			continue
		}
		zr.Multistream(false)
		dec, _ := io.ReadAll(io.LimitReader(zr, 8<<20)) // a truncated stream still yields a prefix
		if len(dec) > 0 {
			c.scan(dec, layer+"+gzip", depth+1, out)
		}
	}
	// base64 runs
	isB64 := func(ch byte) bool {
		return ch >= 'A' && ch <= 'Z' || ch >= 'a' && ch <= 'z' || ch >= '0' && ch <= '9' || ch == '+' || ch == '/'
	}
	for i := 0; i < len(b); {
		if !isB64(b[i]) {
			i++
			continue
		}
		j := i
		for j < len(b) && isB64(b[j]) {
			j++
		}
		if j-i >= 24 {
			runb := b[i:j]
			if len(runb)%4 == 1 {
				runb = runb[:len(runb)-1]
			}
			dec := make([]byte, base64.RawStdEncoding.DecodedLen(len(runb)))
			n, _ := base64.RawStdEncoding.Decode(dec, runb)
			if n >= c02TokenLen {
				c.scan(dec[:n], layer+"+base64", depth+1, out)
			}
		}
		i = j
	}
}

// ---------------------------------------------------------------------------------------------
// bookkeeping shared by the REST and BLIP parts

type c02Obs struct {
	run *vlib.Run
	mu  sync.Mutex
	// forbidden (user, revision) pairs a request explicitly targeted
	probed map[string]bool
	// distinct request / message shapes (surface × flags × kind of revision addressed) and those on which an
	// allowed token was actually seen (so the scanner demonstrably reads that surface)
	shapes, sighted map[string]bool
}

func c02NewObs(run *vlib.Run) *c02Obs {
	return &c02Obs{run: run, probed: map[string]bool{}, shapes: map[string]bool{}, sighted: map[string]bool{}}
}

func (o *c02Obs) shape(name string, sighted bool) {
	o.mu.Lock()
	o.shapes[name] = true
	if sighted {
		o.sighted[name] = true
	}
	o.mu.Unlock()
}

func (o *c02Obs) finish() {
	o.mu.Lock()
	defer o.mu.Unlock()
	o.run.Count("distinct_shapes", len(o.shapes))
	o.run.Count("distinct_shapes_with_allowed_token_sighting", len(o.sighted))
}

func (c *c02Corpus) revKind(r *c02Rev) string {
	switch {
	case r == nil:
		return "-"
	case r.deleted && r.winner:
		return "tombstone-current"
	case r.deleted:
		return "tombstone-branch"
	case r.winner:
		return "current"
	case r.leaf():
		return "conflict-leaf"
	default:
		return "superseded"
	}
}

// histClass names the history shape of the revision(s) a token belongs to (stable, id-free).
func (c *c02Corpus) histClass(m *c02Marker) string {
	if m.kind == c02KindDocID || len(m.revs) == 0 {
		return "-"
	}
	r := m.revs[0]
	wr := "written-as-current"
	if !r.writtenAsCurrent {
		wr = "written-as-non-winning-branch"
	}
	if m.kind == c02KindAtt {
		return "attachment-of-rev-" + wr
	}
	if r.leaf() {
		return wr
	}
	if r.supersededWhileCurrent {
		return wr + "+superseded-while-current"
	}
	return wr + "+superseded-while-not-current"
}

// c02Family maps a request shape to its surface family (coarse: endpoint / message type; the full shape,
// flags and sub-protocol go into the message and the witness).
func c02Family(surface string) string {
	parts := strings.Split(surface, "|")
	if len(parts) < 2 {
		return surface
	}
	ep := parts[1]
	if parts[0] == "blip" && len(parts) >= 3 {
		ep = parts[2]
		if i := strings.IndexByte(ep, '('); i >= 0 {
			ep = ep[:i]
		}
		return "blip|" + ep
	}
	ep = strings.TrimPrefix(ep, "GET ")
	ep = strings.TrimPrefix(ep, "POST ")
	ep = strings.TrimPrefix(ep, "HEAD ")
	if ep == "doc" && len(parts) > 2 && strings.HasPrefix(parts[2], "open_revs") {
		ep = "doc open_revs"
	}
	return parts[0] + "|" + ep
}

// judge applies the oracle to the hits of one response/message.
//   surface: stable name of the request shape (no ids); exempt: tokens the client itself sent in the request.
func (c *c02Corpus) judge(surface, phase string, u *c02User, hits []c02Hit, exempt map[string]bool, witness func() map[string]any) (allowedSeen int) {
	seen := map[string]bool{}
	for _, h := range hits {
		m := h.marker
		if seen[m.token] {
			continue
		}
		seen[m.token] = true
		if m.kind == c02KindDocID && exempt[m.token] {
			continue
		}
		if u.allowed(m) {
			allowedSeen++
			c.run.Distinct("surfaces_with_sighting_"+m.kind.String(), surface)
			if m.kind != c02KindDocID && len(m.revs) > 0 {
				c.run.Count("allowed_"+m.kind.String()+"_tokens_seen_of_"+c.revKind(m.revs[0])+"_revisions", 1)
			}
			continue
		}
		revKind := "-"
		relation := "doc-never-visible"
		if u.everSawDoc(m.doc) {
			relation = "other-revision-visible"
		}
		if m.kind != c02KindDocID && len(m.revs) > 0 {
			revKind = c.revKind(m.revs[0])
		}
		sig := fmt.Sprintf("C02|%s|leak=%s|rev=%s|history=%s|reader=%s", c02Family(surface), m.kind, revKind, c.histClass(m), relation)
		c.run.Count("violations_observed", 1)
		c.run.Distinct("violating_shapes", surface)
		w := witness()
		w["surface"] = surface
		w["found_in"] = h.where
		w["leaked_token"] = m.token
		w["leaked_kind"] = m.kind.String()
		w["leaked_doc"] = m.doc.id
		w["leaked_doc_kind"] = m.doc.kind
		var revs []map[string]any
		for _, r := range m.revs {
			revs = append(revs, map[string]any{"rev": r.revID, "cv": r.cv, "channels": r.channels, "deleted": r.deleted, "kind": c.revKind(r), "written_as_current": r.writtenAsCurrent, "superseded_while_current": r.supersededWhileCurrent})
		}
		w["leaked_revisions"] = revs
		w["doc_revisions"] = c.describeDoc(m.doc)
		w["user"] = map[string]any{"name": u.name, "access": u.kind, "direct": u.direct, "roles": u.roles, "effective_channels": c02Keys(u.eff)}
		w["context"] = h.ctx
		w["cache_phase"] = phase
		w["corpus"] = c.idx
		w["default_collection"] = c.defColl
		var ops []string
		for _, o := range c.ops {
			if strings.Contains(o, m.doc.id) || strings.HasPrefix(o, "user ") || strings.HasPrefix(o, "role ") {
				ops = append(ops, o)
			}
		}
		w["corpus_ops_for_doc"] = ops
		c.run.Violation("marker-scan", sig,
			fmt.Sprintf("user %s (%s, channels %v) received the %s token of %s (%s doc; %s revision, channels %v) via %s, found in %s [%s cache]",
				u.name, u.kind, c02Keys(u.eff), m.kind, m.doc.id[:3]+"…", m.doc.kind, revKind, c02RevChannels(m), surface, h.where, phase), w)
	}
	return allowedSeen
}

func c02RevChannels(m *c02Marker) [][]string {
	var out [][]string
	for _, r := range m.revs {
		out = append(out, r.channels)
	}
	return out
}

func c02Keys(m map[string]bool) []string {
	var out []string
	for k := range m {
		out = append(out, k)
	}
	sort.Strings(out)
	return out
}

func (c *c02Corpus) describeDoc(d *c02Doc) []map[string]any {
	var out []map[string]any
	for _, r := range d.revs {
		p := ""
		if r.parent != nil {
			p = r.parent.revID
		}
		var an []string
		for _, a := range r.atts {
			an = append(an, a.name+"="+a.marker.token)
		}
		out = append(out, map[string]any{"rev": r.revID, "parent": p, "channels": r.channels, "deleted": r.deleted, "kind": c.revKind(r), "written_as_current": r.writtenAsCurrent, "attachments": an})
	}
	return out
}

// tokensIn returns the known tokens that occur in a request (echoing those back discloses nothing).
func (c *c02Corpus) tokensIn(parts ...string) map[string]bool {
	out := map[string]bool{}
	for _, s := range parts {
		for _, v := range []string{s, c02Unescape(s)} {
			var hits []c02Hit
			c.scan([]byte(v), "request", 3, &hits)
			for _, h := range hits {
				out[h.marker.token] = true
			}
		}
	}
	return out
}

func c02Unescape(s string) string {
	if u, err := url.QueryUnescape(s); err == nil {
		return u
	}
	return s
}

// ---------------------------------------------------------------------------------------------
// REST part

type c02Req struct {
	shape   string // stable shape name: surface × flags × kind of revision addressed
	method  string
	path    string
	body    string
	headers map[string]string
	// the revisions this request explicitly addresses (for the "forbidden pairs probed" count)
	targets []*c02Rev
	// positive direction: this is a plain read of the current revision of doc / of its attachment
	posDoc *c02Doc
	posAtt *c02Att
}

func c02Q(kv ...string) string {
	var parts []string
	for i := 0; i+1 < len(kv); i += 2 {
		if kv[i+1] == "" && kv[i] == "" {
			continue
		}
		parts = append(parts, url.QueryEscape(kv[i])+"="+url.QueryEscape(kv[i+1]))
	}
	if len(parts) == 0 {
		return ""
	}
	return "?" + strings.Join(parts, "&")
}

func c02JSON(v any) string { b, _ := json.Marshal(v); return string(b) }

// docRequests enumerates every single-document request shape for one document.
func (c *c02Corpus) docRequests(d *c02Doc) []c02Req {
	var out []c02Req
	base := "/{{.keyspace}}/" + d.id
	type target struct {
		label string
		rev   *c02Rev
		val   string
	}
	targets := []target{{label: "norev"}}
	for _, r := range d.revs {
		targets = append(targets, target{label: "rev:" + c.revKind(r), rev: r, val: r.revID})
		if r.cv != "" {
			targets = append(targets, target{label: "cv:" + c.revKind(r), rev: r, val: r.cv})
		}
	}
	mpRelated := map[string]string{"Accept": "multipart/related"}
	mpRelatedGz := map[string]string{"Accept": "multipart/related", "X-Accept-Part-Encoding": "gzip"}
	for _, tg := range targets {
		tv := func(kv ...string) string {
			if tg.rev != nil {
				kv = append([]string{"rev", tg.val}, kv...)
			}
			return c02Q(kv...)
		}
		var tl []*c02Rev
		if tg.rev != nil {
			tl = []*c02Rev{tg.rev}
		} else {
			tl = []*c02Rev{d.winner()}
		}
		since := d.revs[0].revID
		if tg.rev != nil && tg.rev.parent != nil {
			since = tg.rev.parent.revID
		}
		sinceJSON := c02JSON([]string{since})
		add := func(flags string, hdr map[string]string, hname string, q string) {
			rq := c02Req{shape: "GET doc|" + tg.label + "|" + flags + hname, method: "GET", path: base + q, headers: hdr, targets: tl}
			if tg.rev == nil && flags == "plain" && hdr == nil {
				rq.posDoc = d
			}
			out = append(out, rq)
		}
		if strings.HasPrefix(tg.label, "cv:") {
			// the version-vector form of the same revision goes through the same code after the cache lookup:
			// the flag families once each
			add("plain", nil, "", tv())
			add("revs", nil, "", tv("revs", "true"))
			add("attachments", nil, "", tv("attachments", "true"))
			add("attachments", mpRelated, "|multipart", tv("attachments", "true"))
			add("attachments+atts_since", nil, "", tv("attachments", "true", "atts_since", sinceJSON))
			add("attachments+revs+show_exp+show_cv", nil, "", tv("attachments", "true", "revs", "true", "show_exp", "true", "show_cv", "true"))
			continue
		}
		add("plain", nil, "", tv())
		add("revs", nil, "", tv("revs", "true"))
		add("revs+revs_limit", nil, "", tv("revs", "true", "revs_limit", "1"))
		add("revs+revs_from", nil, "", tv("revs", "true", "revs_from", sinceJSON))
		add("attachments", nil, "", tv("attachments", "true"))
		add("attachments", mpRelated, "|multipart", tv("attachments", "true"))
		add("attachments", mpRelatedGz, "|multipart-gzip", tv("attachments", "true"))
		add("attachments+atts_since", nil, "", tv("attachments", "true", "atts_since", sinceJSON))
		add("attachments+atts_since", mpRelated, "|multipart", tv("attachments", "true", "atts_since", sinceJSON))
		add("attachments+revs+show_exp+show_cv", nil, "", tv("attachments", "true", "revs", "true", "show_exp", "true", "show_cv", "true"))
		add("attachments+revs+show_exp+show_cv", mpRelated, "|multipart", tv("attachments", "true", "revs", "true", "show_exp", "true", "show_cv", "true"))
		add("show_cv", nil, "", tv("show_cv", "true"))
		add("show_exp", nil, "", tv("show_exp", "true"))
		add("plain", mpRelated, "|multipart", tv())
		add("replicator2", nil, "", tv("replicator2", "true"))
		out = append(out, c02Req{shape: "HEAD doc|" + tg.label, method: "HEAD", path: base + tv(), targets: tl})
	}
	// open_revs
	var allRevs, leaves []string
	for _, r := range d.revs {
		allRevs = append(allRevs, r.revID)
		if r.leaf() {
			leaves = append(leaves, r.revID)
		}
	}
	mpMixed := map[string]string{"Accept": "multipart/mixed"}
	for _, or := range []struct{ label, val string }{{"all", "all"}, {"list-all-revs", c02JSON(allRevs)}, {"list-leaves", c02JSON(leaves)}} {
		for _, fl := range []struct {
			label string
			kv    []string
		}{{"plain", nil}, {"revs", []string{"revs", "true"}}, {"attachments", []string{"attachments", "true"}}, {"revs+revs_limit+show_exp", []string{"revs", "true", "revs_limit", "2", "show_exp", "true"}}, {"atts_since", []string{"attachments", "true", "atts_since", c02JSON([]string{d.revs[0].revID})}}} {
			if or.label != "all" && (fl.label == "revs+revs_limit+show_exp" || fl.label == "atts_since") {
				continue
			}
			q := c02Q(append([]string{"open_revs", or.val}, fl.kv...)...)
			out = append(out, c02Req{shape: "GET doc|open_revs=" + or.label + "|" + fl.label, method: "GET", path: base + q, targets: d.revs})
			out = append(out, c02Req{shape: "GET doc|open_revs=" + or.label + "|" + fl.label + "|multipart", method: "GET", path: base + q, headers: mpMixed, targets: d.revs})
		}
	}
	// attachments
	seenAtt := map[string]bool{}
	for _, r := range d.revs {
		for _, a := range r.atts {
			if seenAtt[a.digest] {
				continue
			}
			seenAtt[a.digest] = true
			ap := base + "/" + a.name
			tgs := []target{{label: "norev"}}
			for _, cr := range a.marker.revs {
				tgs = append(tgs, target{label: "rev:" + c.revKind(cr), rev: cr, val: cr.revID})
				if cr.cv != "" {
					tgs = append(tgs, target{label: "cv:" + c.revKind(cr), rev: cr, val: cr.cv})
				}
			}
			for _, tg := range tgs {
				q := func(kv ...string) string {
					if tg.rev != nil {
						kv = append([]string{"rev", tg.val}, kv...)
					}
					return c02Q(kv...)
				}
				var tl []*c02Rev
				if tg.rev != nil {
					tl = []*c02Rev{tg.rev}
				}
				rq := c02Req{shape: "GET attachment|" + tg.label + "|plain", method: "GET", path: ap + q(), targets: tl}
				if tg.rev == nil {
					w := d.winner()
					for _, wa := range w.atts {
						if wa == a {
							rq.posAtt = a
							rq.posDoc = d
						}
					}
				}
				out = append(out, rq)
				out = append(out, c02Req{shape: "GET attachment|" + tg.label + "|meta", method: "GET", path: ap + q("meta", "true"), targets: tl})
				if strings.HasPrefix(tg.label, "cv:") {
					continue
				}
				out = append(out, c02Req{shape: "GET attachment|" + tg.label + "|range", method: "GET", path: ap + q(), headers: map[string]string{"Range": "bytes=8-120"}, targets: tl})
				out = append(out, c02Req{shape: "GET attachment|" + tg.label + "|content_encoding=false", method: "GET", path: ap + q("content_encoding", "false"), targets: tl})
				out = append(out, c02Req{shape: "HEAD attachment|" + tg.label, method: "HEAD", path: ap + q(), targets: tl})
			}
		}
	}
	return out
}

// dbRequests enumerates the database-level request shapes (bulk get, all-docs, changes, revs-diff).
func (c *c02Corpus) dbRequests() []c02Req {
	var out []c02Req
	ks := "/{{.keyspace}}/"
	var allRevTargets []*c02Rev
	var ids []string
	for _, d := range c.docs {
		ids = append(ids, d.id)
		allRevTargets = append(allRevTargets, d.revs...)
	}
	// _bulk_get
	mk := func(byCV, attsSince, noRev bool) string {
		var docs []map[string]any
		for _, d := range c.docs {
			if noRev {
				docs = append(docs, map[string]any{"id": d.id})
				continue
			}
			for _, r := range d.revs {
				e := map[string]any{"id": d.id, "rev": r.revID}
				if byCV {
					if r.cv == "" {
						continue
					}
					e["rev"] = r.cv
				}
				if attsSince {
					e["atts_since"] = []string{d.revs[0].revID}
					e["revs_limit"] = 2
				}
				docs = append(docs, e)
			}
		}
		return c02JSON(map[string]any{"docs": docs})
	}
	bodies := []struct{ label, body string }{{"revids", mk(false, false, false)}, {"cvs", mk(true, false, false)}, {"revids+atts_since", mk(false, true, false)}, {"norev", mk(false, false, true)}}
	flags := []struct {
		label string
		kv    []string
	}{{"plain", nil}, {"revs", []string{"revs", "true"}}, {"attachments", []string{"attachments", "true"}}, {"revs+attachments", []string{"revs", "true", "attachments", "true"}}, {"show_exp", []string{"show_exp", "true"}}, {"revs+revs_limit", []string{"revs", "true", "revs_limit", "1"}}}
	for _, b := range bodies {
		for _, f := range flags {
			out = append(out, c02Req{shape: "POST _bulk_get|" + b.label + "|" + f.label, method: "POST", path: ks + "_bulk_get" + c02Q(f.kv...), body: b.body, targets: allRevTargets})
			if b.label == "revids" && (f.label == "attachments" || f.label == "revs+attachments" || f.label == "plain") {
				out = append(out, c02Req{shape: "POST _bulk_get|" + b.label + "|" + f.label + "|part-gzip", method: "POST", path: ks + "_bulk_get" + c02Q(f.kv...), body: b.body, headers: map[string]string{"X-Accept-Part-Encoding": "gzip"}, targets: allRevTargets})
			}
		}
	}
	// _all_docs
	keysJSON := c02JSON(append(append([]string{}, ids...), "no-such-doc"))
	adFlags := []struct {
		label string
		kv    []string
	}{
		{"plain", nil}, {"include_docs", []string{"include_docs", "true"}}, {"channels", []string{"channels", "true"}}, {"update_seq", []string{"update_seq", "true"}},
		{"revs+include_docs", []string{"revs", "true", "include_docs", "true"}}, {"access", []string{"access", "true"}},
		{"include_docs+channels+update_seq+revs", []string{"include_docs", "true", "channels", "true", "update_seq", "true", "revs", "true"}},
		{"startkey+endkey", []string{"startkey", `"d"`, "endkey", `"e"`}}, {"startkey+endkey+include_docs", []string{"startkey", `"d"`, "endkey", `"e"`, "include_docs", "true"}},
		{"limit", []string{"limit", "5"}}, {"limit+include_docs", []string{"limit", "5", "include_docs", "true"}},
	}
	for _, f := range adFlags {
		out = append(out, c02Req{shape: "GET _all_docs|" + f.label, method: "GET", path: ks + "_all_docs" + c02Q(f.kv...)})
		out = append(out, c02Req{shape: "GET _all_docs|keys|" + f.label, method: "GET", path: ks + "_all_docs" + c02Q(append([]string{"keys", keysJSON}, f.kv...)...)})
		out = append(out, c02Req{shape: "POST _all_docs|keys|" + f.label, method: "POST", path: ks + "_all_docs" + c02Q(f.kv...), body: c02JSON(map[string]any{"keys": append(append([]string{}, ids...), "no-such-doc")})})
	}
	// _changes
	allCh := "A,B,C,!,Z"
	for _, inc := range []bool{false, true} {
		for _, style := range []bool{false, true} {
			for _, active := range []bool{false, true} {
				for _, filt := range []string{"none", "bychannel", "bychannel-star", "doc_ids"} {
					var kv []string
					pb := map[string]any{}
					label := filt
					if inc {
						kv = append(kv, "include_docs", "true")
						pb["include_docs"] = true
						label += "+include_docs"
					}
					if style {
						kv = append(kv, "style", "all_docs")
						pb["style"] = "all_docs"
						label += "+style=all_docs"
					}
					if active {
						kv = append(kv, "active_only", "true")
						pb["active_only"] = true
						label += "+active_only"
					}
					switch filt {
					case "bychannel":
						kv = append(kv, "filter", "sync_gateway/bychannel", "channels", allCh)
						pb["filter"], pb["channels"] = "sync_gateway/bychannel", allCh
					case "bychannel-star":
						kv = append(kv, "filter", "sync_gateway/bychannel", "channels", "*")
						pb["filter"], pb["channels"] = "sync_gateway/bychannel", "*"
					case "doc_ids":
						kv = append(kv, "filter", "_doc_ids", "doc_ids", c02JSON(ids))
						pb["filter"], pb["doc_ids"] = "_doc_ids", ids
					}
					out = append(out, c02Req{shape: "GET _changes|" + label, method: "GET", path: ks + "_changes" + c02Q(kv...)})
					out = append(out, c02Req{shape: "POST _changes|" + label, method: "POST", path: ks + "_changes", body: c02JSON(pb)})
				}
			}
		}
	}
	mid := fmt.Sprintf("%d", c.midSeq)
	for _, x := range []struct {
		label string
		kv    []string
	}{
		{"version_type=cv", []string{"version_type", "cv"}}, {"version_type=cv+include_docs", []string{"version_type", "cv", "include_docs", "true"}},
		{"since=mid+include_docs", []string{"since", mid, "include_docs", "true"}}, {"since=mid+style=all_docs", []string{"since", mid, "style", "all_docs"}},
		{"limit+include_docs", []string{"limit", "4", "include_docs", "true"}}, {"revocations+include_docs", []string{"revocations", "true", "include_docs", "true"}},
		{"doc_ids+since=mid+include_docs", []string{"filter", "_doc_ids", "doc_ids", c02JSON(ids), "since", mid, "include_docs", "true"}},
		{"doc_ids+version_type=cv+include_docs", []string{"filter", "_doc_ids", "doc_ids", c02JSON(ids), "version_type", "cv", "include_docs", "true"}},
		{"longpoll+include_docs", []string{"feed", "longpoll", "timeout", "20", "heartbeat", "0", "include_docs", "true"}},
		{"request_plus+include_docs", []string{"request_plus", "true", "include_docs", "true"}},
	} {
		out = append(out, c02Req{shape: "GET _changes|" + x.label, method: "GET", path: ks + "_changes" + c02Q(x.kv...)})
	}
	// _revs_diff
	rd := map[string][]string{}
	for _, d := range c.docs {
		for _, r := range d.revs {
			rd[d.id] = append(rd[d.id], r.revID)
		}
		rd[d.id] = append(rd[d.id], "9-deadbeef")
	}
	out = append(out, c02Req{shape: "POST _revs_diff", method: "POST", path: ks + "_revs_diff", body: c02JSON(rd)})
	return out
}

func (c *c02Corpus) doREST(obs *c02Obs, phase string, u *c02User, rq c02Req) {
	run := c.run
	resp := c.rt.SendUserRequestWithHeaders(rq.method, rq.path, rq.body, rq.headers, u.name, RestTesterDefaultUserPassword)
	run.Eval()
	body := resp.Body.Bytes()
	run.Count("responses_scanned", 1)
	run.Count("bytes_scanned", len(body))
	run.Distinct("shapes", rq.shape)
	run.Nontrivial(rq.shape + "|" + phase + "|" + u.kind)
	if resp.Code >= 500 && resp.Code != 501 {
		run.Count("status_5xx", 1)
		run.Distinct("shapes_with_5xx", rq.shape)
		run.Note("5xx: user %s %s %s -> %d %s", u.name, rq.method, c02Trunc(rq.path, 200), resp.Code, c02Trunc(string(body), 200))
	}
	switch {
	case resp.Code == 200 || resp.Code == 206:
		run.Count("status_2xx", 1)
	case resp.Code == 403:
		run.Count("status_403", 1)
	case resp.Code == 404:
		run.Count("status_404", 1)
	}
	var hits []c02Hit
	c.scan(body, "body", 0, &hits)
	var hb bytes.Buffer
	_ = resp.Header().Write(&hb)
	run.Count("bytes_scanned", hb.Len())
	c.scan(hb.Bytes(), "header", 0, &hits)
	exempt := c.tokensIn(rq.path, rq.body)
	for _, tr := range rq.targets {
		if tr != nil && tr.marker != nil && !u.canSeeRev(tr) {
			key := fmt.Sprintf("%d|%s|%s|%s", c.idx, u.name, tr.doc.id, tr.revID)
			obs.mu.Lock()
			if !obs.probed[key] {
				obs.probed[key] = true
				run.Count("forbidden_user_rev_pairs_probed", 1)
			}
			obs.mu.Unlock()
		}
	}
	witness := func() map[string]any {
		return map[string]any{
			"request":  map[string]any{"method": rq.method, "path": rq.path, "body": c02Trunc(rq.body, 4000), "headers": rq.headers, "basic_auth": u.name + ":" + RestTesterDefaultUserPassword},
			"response": map[string]any{"status": resp.Code, "headers": resp.Header(), "body": c02Trunc(string(body), 6000)},
		}
	}
	allowedSeen := c.judge("rest|"+rq.shape, phase, u, hits, exempt, witness)
	run.Count("allowed_tokens_seen", allowedSeen)
	obs.shape(rq.shape, allowedSeen > 0)

	// positive direction: the current revision of a document in one of the user's channels is readable
	if rq.posDoc != nil {
		w := rq.posDoc.winner()
		if w != nil && !w.deleted && u.canSeeRev(w) {
			want := w.marker
			what := "body"
			if rq.posAtt != nil {
				want = rq.posAtt.marker
				what = "attachment"
			}
			run.Count("positive_reads_checked", 1)
			found := false
			for _, h := range hits {
				if h.marker == want {
					found = true
				}
			}
			if resp.Code != 200 || !found {
				wm := witness()
				wm["user"] = map[string]any{"name": u.name, "access": u.kind, "effective_channels": c02Keys(u.eff)}
				wm["doc_revisions"] = c.describeDoc(rq.posDoc)
				laterNonWinning := "no-later-non-winning-write"
				for _, r := range rq.posDoc.revs {
					if r.n > w.n && !r.writtenAsCurrent {
						laterNonWinning = "after-later-non-winning-branch-write"
					}
				}
				run.Count("violations_observed", 1)
				// signature: the history shape that explains a lost attachment on its own; otherwise the input class
				// (does the revision have channels, how does the reader's access arise, which kind of collection)
				sig := fmt.Sprintf("C02|rest|current-revision-not-readable|%s|%s|status=%d", what, laterNonWinning, resp.Code)
				if !(what == "attachment" && laterNonWinning == "after-later-non-winning-branch-write") {
					access := "channel"
					if u.star() {
						access = "wildcard-" + map[bool]string{true: "direct", false: "via-role"}[len(u.direct) > 0]
					}
					revch := "rev-has-channels"
					if len(w.channels) == 0 {
						revch = "rev-has-no-channel"
					}
					coll := map[bool]string{true: "default-collection", false: "named-collection"}[c.defColl]
					sig = fmt.Sprintf("C02|rest|current-revision-not-readable|%s|%s|%s|access=%s|%s|status=%d", what, laterNonWinning, revch, access, coll, resp.Code)
				}
				run.Violation("positive-read", sig,
					fmt.Sprintf("user %s (channels %v) could not read the current %s of %s (rev channels %v): status %d, token found=%v [%s cache]", u.name, c02Keys(u.eff), what, rq.posDoc.id[:3]+"…", w.channels, resp.Code, found, phase), wm)
			}
		}
	}
}

func c02KindsPerCorpus(run *vlib.Run) int {
	if s := os.Getenv("VERIF_C02_KINDS"); s != "" {
		var n int
		if _, err := fmt.Sscanf(s, "%d", &n); err == nil && n > 1 {
			return n
		}
	}
	return 8
}

func c02Corpora(run *vlib.Run) int {
	if s := os.Getenv("VERIF_C02_CORPORA"); s != "" {
		var n int
		if _, err := fmt.Sscanf(s, "%d", &n); err == nil && n > 0 {
			return n
		}
	}
	return run.N(6, 100)
}

func TestVerif_C02_Rest(t *testing.T) {
	run := vlib.Start(t, "C02", "rest")
	defer run.Finish()
	base.SetUpTestLogging(t, base.LevelError, base.KeyNone)
	obs := c02NewObs(run)
	defer obs.finish()
	n := c02Corpora(run)
	only, onlySet := run.OnlyCase()
	// corpora are independent databases on separate buckets: a few run side by side
	work := make(chan int)
	var pool sync.WaitGroup
	var sampleOnce sync.Once
	for w := 0; w < c02Par(); w++ {
		pool.Add(1)
		go func() {
			defer pool.Done()
			for ci := range work {
				c02RestCorpus(t, run, obs, ci, &sampleOnce)
			}
		}()
	}
	for ci := 0; ci < n; ci++ {
		if onlySet && ci != only {
			continue
		}
		work <- ci
	}
	close(work)
	pool.Wait()
}

func c02Par() int {
	if s := os.Getenv("VERIF_C02_PAR"); s != "" {
		var n int
		if _, err := fmt.Sscanf(s, "%d", &n); err == nil && n > 0 {
			return n
		}
	}
	return 6
}

func c02RestCorpus(t *testing.T, run *vlib.Run, obs *c02Obs, ci int, sampleOnce *sync.Once) {
	{
		func() {
			c := c02BuildCorpus(t, run, ci, run.CaseRand(ci))
			defer c.rt.Close()
			c.obs = obs
			run.Count("corpora", 1)
			run.Count("documents", len(c.docs))
			for _, d := range c.docs {
				run.Count("revisions", len(d.revs))
				run.Distinct("doc_kinds", d.kind)
			}
			var reqs []c02Req
			for _, d := range c.docs {
				reqs = append(reqs, c.docRequests(d)...)
			}
			reqs = append(reqs, c.dbRequests()...)
			sampleOnce.Do(func() {
				var shapes []string
				for i := 0; i < len(reqs) && len(shapes) < 6; i += len(reqs)/6 + 1 {
					shapes = append(shapes, reqs[i].method+" "+c02Trunc(reqs[i].path, 160))
				}
				var docs []any
				for _, d := range c.docs[:3] {
					docs = append(docs, map[string]any{"id": d.id, "kind": d.kind, "revs": c.describeDoc(d)})
				}
				run.Sample(map[string]any{"kind": fmt.Sprintf("corpus %d", ci), "requests_per_user_per_phase": len(reqs), "example_requests": shapes, "example_docs": docs, "users": len(c.users)})
			})
			dbc := c.rt.GetDatabase()
			sweep := func(phase string, users []*c02User) {
				var wg sync.WaitGroup
				for _, u := range users {
					wg.Add(1)
					go func(u *c02User) {
						defer wg.Done()
						for _, rq := range reqs {
							c.doREST(obs, phase, u, rq)
						}
					}(u)
				}
				wg.Wait()
			}
			// phase 1: caches as the writes left them, then primed by a reader who may see everything
			sweep("warm", c.users)
			// phase 2: caches flushed; the first reader of every revision is whoever comes first
			dbc.FlushRevisionCacheForTest()
			dbc.FlushChannelCache(t)
			c.rt.WaitForPendingChanges()
			rev := make([]*c02User, len(c.users))
			for i, u := range c.users {
				rev[len(rev)-1-i] = u
			}
			sweep("cold", rev)
			// phase 3: flushed again, one user at a time so that every restricted user is the first reader
			if ci%6 == 0 {
				for _, u := range c.users {
					if u.star() {
						continue
					}
					dbc.FlushRevisionCacheForTest()
					sweep("cold-first-reader", []*c02User{u})
				}
			}
		}()
	}
}
