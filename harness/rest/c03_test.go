//go:build verif

package rest

import (
	"encoding/json"
	"fmt"
	"sort"
	"strconv"
	"strings"
	"sync"
	"testing"

	"github.com/couchbase/sync_gateway/base"
	"verif/vlib"
)

// C03 — effective access equals what admin grants and current documents confer.
//
// AccessModel (c03Model): admin-assigned channels/roles per principal + grants made by the sync
// function on the current winning revision of live documents  ==>  effective channels and roles.
// The workload's sync function is driven by body fields so that the model computes its output
// directly. Observations: GET /db/_user/{name} (all_channels, roles), GET /db/_role/{name},
// Authenticator.GetUser(..).InheritedCollectionChannels / RoleNames, Authenticator.GetRole(..)
// .CollectionChannels, and the status of a document read that depends on the grant.

const c03SyncFn = `function(doc, oldDoc) {
	channel(doc.ch);
	if (doc.grants) { for (var i = 0; i < doc.grants.length; i++) { access(doc.grants[i].to, doc.grants[i].ch); } }
	if (doc.roles) { for (var i = 0; i < doc.roles.length; i++) { role(doc.roles[i].user, doc.roles[i].role); } }
}`

const c03NamedColl = "c03coll"

var (
	c03Channels = []string{"A", "B", "C", "D"}
	c03Users    = []string{"u1", "u2", "u3"}
	c03Roles    = []string{"r1", "r2"}
	c03Docs     = []string{"g1", "g2", "g3", "g4"}
)

// ---------------------------------------------------------------------------------------------
// sets

type c03Set map[string]struct{}

func c03SetOf(xs ...string) c03Set {
	s := c03Set{}
	for _, x := range xs {
		s[x] = struct{}{}
	}
	return s
}

func (s c03Set) has(x string) bool { _, ok := s[x]; return ok }
func (s c03Set) add(x string)      { s[x] = struct{}{} }
func (s c03Set) addAll(o c03Set) {
	for k := range o {
		s[k] = struct{}{}
	}
}
func (s c03Set) list() []string {
	out := make([]string, 0, len(s))
	for k := range s {
		out = append(out, k)
	}
	sort.Strings(out)
	return out
}
func (s c03Set) copy() c03Set { o := c03Set{}; o.addAll(s); return o }
func (s c03Set) eq(o c03Set) bool {
	if len(s) != len(o) {
		return false
	}
	for k := range s {
		if !o.has(k) {
			return false
		}
	}
	return true
}

// c03Diff returns (missing from got, extra in got) relative to want.
func c03Diff(want, got c03Set) (missing, extra []string) {
	for k := range want {
		if !got.has(k) {
			missing = append(missing, k)
		}
	}
	for k := range got {
		if !want.has(k) {
			extra = append(extra, k)
		}
	}
	sort.Strings(missing)
	sort.Strings(extra)
	return
}

// ---------------------------------------------------------------------------------------------
// layouts: which collections the database serves

type c03Coll struct{ Scope, Name string }

func (c c03Coll) isDefault() bool { return c.Scope == base.DefaultScope && c.Name == base.DefaultCollection }

type c03Layout struct {
	Name string
	// kind of each collection, for signatures: "_default._default", "_default.<named>", "<named>.<named>"
	build func(t testing.TB, vs *vStore) (*RestTester, []c03Coll)
}

func c03CollKind(c c03Coll) string {
	switch {
	case c.isDefault():
		return "_default._default"
	case c.Scope == base.DefaultScope:
		return "_default.<named>"
	default:
		return "<named>.<named>"
	}
}

func c03ScopesConfig(colls []c03Coll) ScopesConfig {
	fn := c03SyncFn
	sc := ScopesConfig{}
	for _, c := range colls {
		s, ok := sc[c.Scope]
		if !ok {
			s = ScopeConfig{Collections: CollectionsConfig{}}
			sc[c.Scope] = s
		}
		s.Collections[c.Name] = &CollectionConfig{SyncFn: &fn}
	}
	return sc
}

// c03NewRT builds a RestTester for the layout. vs may be nil (plain pool bucket).
func c03NewRT(t testing.TB, vs *vStore, layout string) (*RestTester, []c03Coll) {
	ctx := base.TestCtx(t)
	cfg := &RestTesterConfig{SyncFn: c03SyncFn}
	var tb *base.TestBucket // the bucket on which data stores are created
	if vs != nil {
		tb = vs.tb
		cfg.CustomTestBucket = vs.vtb
	}
	custom := func(colls []c03Coll) (*RestTester, []c03Coll) {
		if tb == nil {
			tb = base.GetTestBucket(t)
			cfg.CustomTestBucket = tb
		}
		for _, c := range colls {
			if !c.isDefault() {
				if err := tb.CreateDataStore(ctx, base.ScopeAndCollectionName{Scope: c.Scope, Collection: c.Name}); err != nil {
					t.Fatalf("c03: create data store %v: %v", c, err)
				}
			}
		}
		cfg.DatabaseConfig = &DatabaseConfig{DbConfig: DbConfig{Scopes: c03ScopesConfig(colls)}}
		return NewRestTester(t, cfg), colls
	}
	switch layout {
	case "default":
		rt := NewRestTesterDefaultCollection(t, cfg)
		return rt, []c03Coll{{base.DefaultScope, base.DefaultCollection}}
	case "named-scope":
		rt := NewRestTester(t, cfg)
		var colls []c03Coll
		for _, c := range rt.GetDbCollections() {
			colls = append(colls, c03Coll{c.ScopeName, c.Name})
		}
		return rt, colls
	case "default-scope-named":
		return custom([]c03Coll{{base.DefaultScope, c03NamedColl}})
	case "default+named":
		return custom([]c03Coll{{base.DefaultScope, base.DefaultCollection}, {base.DefaultScope, c03NamedColl}})
	case "named-scope-2":
		rt := NewRestTesterMultipleCollections(t, cfg, 2)
		var colls []c03Coll
		for _, c := range rt.GetDbCollections() {
			colls = append(colls, c03Coll{c.ScopeName, c.Name})
		}
		return rt, colls
	}
	t.Fatalf("c03: unknown layout %q", layout)
	return nil, nil
}

// ---------------------------------------------------------------------------------------------
// AccessModel

type c03Grant struct {
	To string   `json:"to"`
	Ch []string `json:"ch"`
}
type c03RoleGrant struct {
	User string `json:"user"`
	Role string `json:"role"` // "role:<name>"
}
type c03Body struct {
	Marker string         `json:"marker"`
	Ch     []string       `json:"ch"`
	Grants []c03Grant     `json:"grants,omitempty"`
	Roles  []c03RoleGrant `json:"roles,omitempty"`
}

type c03Rev struct {
	ID      string
	Parent  string
	Deleted bool
	Body    c03Body
	leaf    bool
}

type c03Doc struct {
	Coll int
	ID   string
	Revs map[string]*c03Rev
}

func c03ParseRev(rev string) (int, string) {
	i := strings.IndexByte(rev, '-')
	if i < 0 {
		return 0, ""
	}
	g, _ := strconv.Atoi(rev[:i])
	return g, rev[i+1:]
}

func c03CompareRev(a, b string) int {
	ga, da := c03ParseRev(a)
	gb, db := c03ParseRev(b)
	switch {
	case ga != gb:
		if ga > gb {
			return 1
		}
		return -1
	case da > db:
		return 1
	case da < db:
		return -1
	}
	return 0
}

func (d *c03Doc) leaves() []*c03Rev {
	isParent := map[string]bool{}
	for _, r := range d.Revs {
		if r.Parent != "" {
			isParent[r.Parent] = true
		}
	}
	var out []*c03Rev
	for _, r := range d.Revs {
		if !isParent[r.ID] {
			out = append(out, r)
		}
	}
	sort.Slice(out, func(i, j int) bool { return out[i].ID < out[j].ID })
	return out
}

// winner: live leaves beat deleted ones, then higher generation, then higher digest (CouchDB rule).
func (d *c03Doc) winner() *c03Rev {
	var w *c03Rev
	for _, r := range d.leaves() {
		if w == nil || (!r.Deleted && w.Deleted) || (r.Deleted == w.Deleted && c03CompareRev(r.ID, w.ID) > 0) {
			w = r
		}
	}
	return w
}

func (d *c03Doc) history(rev string) []string {
	var out []string
	for rev != "" {
		out = append(out, rev)
		r := d.Revs[rev]
		if r == nil {
			break
		}
		rev = r.Parent
	}
	return out
}

type c03User struct {
	Exists     bool
	AdminCh    []c03Set // per collection
	AdminRoles c03Set
}
type c03Role struct {
	Exists  bool
	AdminCh []c03Set
}

type c03Model struct {
	ncoll int
	users map[string]*c03User
	roles map[string]*c03Role
	docs  map[string]*c03Doc // key "<coll>/<id>"
}

func c03NewModel(ncoll int, users, roles []string) *c03Model {
	m := &c03Model{ncoll: ncoll, users: map[string]*c03User{}, roles: map[string]*c03Role{}, docs: map[string]*c03Doc{}}
	for _, u := range users {
		m.users[u] = &c03User{}
	}
	for _, r := range roles {
		m.roles[r] = &c03Role{}
	}
	return m
}

func c03CopySets(in []c03Set) []c03Set {
	if in == nil {
		return nil
	}
	out := make([]c03Set, len(in))
	for i, s := range in {
		out[i] = s.copy()
	}
	return out
}

// clone returns a deep copy of the model.
func (m *c03Model) clone() *c03Model {
	o := &c03Model{ncoll: m.ncoll, users: map[string]*c03User{}, roles: map[string]*c03Role{}, docs: map[string]*c03Doc{}}
	for k, u := range m.users {
		cu := &c03User{Exists: u.Exists, AdminCh: c03CopySets(u.AdminCh)}
		if u.AdminRoles != nil {
			cu.AdminRoles = u.AdminRoles.copy()
		}
		o.users[k] = cu
	}
	for k, r := range m.roles {
		o.roles[k] = &c03Role{Exists: r.Exists, AdminCh: c03CopySets(r.AdminCh)}
	}
	for k, d := range m.docs {
		cd := &c03Doc{Coll: d.Coll, ID: d.ID, Revs: map[string]*c03Rev{}}
		for id, r := range d.Revs {
			cr := *r
			cd.Revs[id] = &cr
		}
		o.docs[k] = cd
	}
	return o
}

func c03DocKey(coll int, id string) string { return fmt.Sprintf("%d/%s", coll, id) }

// docChannelGrants returns the channels that live winning revisions in collection coll grant to
// the access name `to` ("u1" or "role:r1").
func (m *c03Model) docChannelGrants(coll int, to string) c03Set {
	out := c03Set{}
	for _, d := range m.docs {
		if d.Coll != coll {
			continue
		}
		w := d.winner()
		if w == nil || w.Deleted {
			continue
		}
		for _, g := range w.Body.Grants {
			if g.To == to {
				for _, c := range g.Ch {
					out.add(c)
				}
			}
		}
	}
	return out
}

// docRoleGrants returns the roles granted to user by live winning revisions (any collection).
func (m *c03Model) docRoleGrants(user string) c03Set {
	out := c03Set{}
	for _, d := range m.docs {
		w := d.winner()
		if w == nil || w.Deleted {
			continue
		}
		for _, g := range w.Body.Roles {
			if g.User == user {
				out.add(strings.TrimPrefix(g.Role, "role:"))
			}
		}
	}
	return out
}

func (m *c03Model) roleChannels(role string, coll int) c03Set {
	r := m.roles[role]
	out := c03SetOf("!")
	if r == nil || !r.Exists {
		return nil
	}
	out.addAll(r.AdminCh[coll])
	out.addAll(m.docChannelGrants(coll, "role:"+role))
	return out
}

func (m *c03Model) userRoles(user string) c03Set {
	u := m.users[user]
	if u == nil || !u.Exists {
		return nil
	}
	out := u.AdminRoles.copy()
	out.addAll(m.docRoleGrants(user))
	return out
}

// userChannels returns the effective channels and, per channel, the classes of source that confer it.
func (m *c03Model) userChannels(user string, coll int) (c03Set, map[string]string) {
	u := m.users[user]
	if u == nil || !u.Exists {
		return nil, nil
	}
	src := map[string][]string{}
	add := func(ch, s string) { src[ch] = append(src[ch], s) }
	add("!", "public")
	for c := range u.AdminCh[coll] {
		add(c, "admin")
	}
	for c := range m.docChannelGrants(coll, user) {
		add(c, "doc")
	}
	adminRoles := u.AdminRoles
	for r := range m.userRoles(user) {
		how := "docrole"
		if adminRoles.has(r) {
			how = "adminrole"
		}
		for c := range m.roleChannels(r, coll) {
			if c != "!" {
				add(c, how)
			}
		}
	}
	out := c03Set{}
	why := map[string]string{}
	for c, ss := range src {
		out.add(c)
		sort.Strings(ss)
		uniq := ss[:0]
		for i, s := range ss {
			if i == 0 || s != ss[i-1] {
				uniq = append(uniq, s)
			}
		}
		why[c] = strings.Join(uniq, "+")
	}
	return out, why
}

// ---------------------------------------------------------------------------------------------
// operations

type c03Op struct {
	Kind   string `json:"kind"`
	Method string `json:"method"`
	Path   string `json:"path"`
	Body   string `json:"body,omitempty"`
	Status int    `json:"status"`
	Note   string `json:"note,omitempty"`
}

type c03Env struct {
	t      testing.TB
	run    *vlib.Run
	rt     *RestTester
	layout string
	colls  []c03Coll
	users  []string
	roles  []string
	docs   []string
	m      *c03Model
	ops    []c03Op
	marker int
	failed bool
	part   string // "seq" or "conc:<scenario>" (signature prefix)
	// classify maps (principal, what) to a root-cause signature when the executed schedule shows a recognised shape
	classify         func(princ, what string) string
	curPrinc         string
	failedClassified bool
	// dry: comparisons only set failed (used to decide between two admissible models), nothing is reported
	dry bool
	// sigFixed, when set, builds the violation signature (fault part)
	sigFixed func(what, dir string) string
	// witnessOverride replaces the op-list witness (concurrent phase: scenario, events, schedule)
	witnessOverride map[string]any
	// allowConflicts: the database accepts arbitrary conflicting branches (EnableAllowConflicts); otherwise only the
	// pushes that conflict-free mode accepts are generated
	allowConflicts bool
	// statistics of the history
	revocations, lateCreates, conflictsWon, conflictsLost, overlapRoleAssign, recreates int
}

func (e *c03Env) keyspace(coll int) string {
	c := e.colls[coll]
	return "db." + c.Scope + "." + c.Name
}

func (e *c03Env) admin(kind, method, path, body string, okStatuses ...int) (*TestResponse, bool) {
	resp := e.rt.SendAdminRequest(method, path, body)
	op := c03Op{Kind: kind, Method: method, Path: path, Body: body, Status: resp.Code}
	ok := false
	for _, s := range okStatuses {
		if resp.Code == s {
			ok = true
		}
	}
	if !ok {
		op.Note = strings.TrimSpace(resp.Body.String())
	}
	e.ops = append(e.ops, op)
	return resp, ok
}

func (e *c03Env) witness() map[string]any {
	if e.witnessOverride != nil {
		return e.witnessOverride
	}
	var colls []string
	for i := range e.colls {
		colls = append(colls, e.keyspace(i))
	}
	return map[string]any{"layout": e.layout, "keyspaces": colls, "sync_fn": c03SyncFn, "allow_conflicts": e.allowConflicts,
		"ops": e.ops, "users_password": RestTesterDefaultUserPassword}
}

// harnessFault reports an unexpected status of a workload operation: the model cannot follow, the
// history is abandoned (never a property violation by itself).
func (e *c03Env) harnessFault(what string, resp *TestResponse) {
	e.failed = true
	e.run.Inconclusive("unexpected-status:" + what)
	e.run.Note("c03 %s: unexpected status %d %s (layout %s)", what, resp.Code, strings.TrimSpace(resp.Body.String()), e.layout)
}

func c03JSON(v any) string { b, _ := json.Marshal(v); return string(b) }

func (e *c03Env) randChannels(r *vlib.Rand, maxN int) []string {
	n := r.Intn(maxN + 1)
	p := r.Perm(len(c03Channels))
	out := []string{}
	for i := 0; i < n; i++ {
		out = append(out, c03Channels[p[i]])
	}
	sort.Strings(out)
	return out
}

func (e *c03Env) randRoles(r *vlib.Rand) []string {
	out := []string{}
	for _, ro := range e.roles {
		if r.Chance(2, 5) {
			out = append(out, ro)
		}
	}
	return out
}

// principal payload: fields is a subset of {"ch<coll>", "roles"}
func (e *c03Env) principalPayload(isUser, create bool, chans map[int][]string, roles []string, setRoles bool) string {
	p := map[string]any{}
	if isUser && create {
		p["password"] = RestTesterDefaultUserPassword
	}
	ca := map[string]map[string]any{}
	for coll, chs := range chans {
		c := e.colls[coll]
		if c.isDefault() {
			p["admin_channels"] = chs
		} else {
			if ca[c.Scope] == nil {
				ca[c.Scope] = map[string]any{}
			}
			ca[c.Scope][c.Name] = map[string]any{"admin_channels": chs}
		}
	}
	if len(ca) > 0 {
		p["collection_access"] = ca
	}
	if isUser && setRoles {
		p["admin_roles"] = roles
	}
	return c03JSON(p)
}

func (e *c03Env) opPutUser(r *vlib.Rand, name string) {
	u := e.m.users[name]
	create := !u.Exists
	chans := map[int][]string{}
	setRoles := false
	var roles []string
	if create {
		for c := 0; c < e.m.ncoll; c++ {
			if r.Chance(2, 3) {
				chans[c] = e.randChannels(r, 2)
			}
		}
		if r.Chance(1, 2) {
			setRoles, roles = true, e.randRoles(r)
		}
		// principal created after documents that already grant to it?
		late := len(e.m.docRoleGrants(name)) > 0
		for c := 0; c < e.m.ncoll; c++ {
			late = late || len(e.m.docChannelGrants(c, name)) > 0
		}
		if late {
			e.lateCreates++
		}
	} else {
		// update a subset of the fields, one field only most of the time
		switch r.Intn(5) {
		case 0, 1:
			setRoles = true
		case 2, 3:
			chans[r.Intn(e.m.ncoll)] = e.randChannels(r, 2)
		default:
			setRoles = true
			chans[r.Intn(e.m.ncoll)] = e.randChannels(r, 2)
		}
		if setRoles {
			if r.Chance(1, 3) {
				// the administrator re-states the roles the user currently shows (a natural admin action:
				// read the user, write the roles back as admin_roles)
				roles = e.m.userRoles(name).list()
			} else {
				roles = e.randRoles(r)
			}
			eff := e.m.userRoles(name)
			if eff.eq(c03SetOf(roles...)) && !u.AdminRoles.eq(eff) {
				e.overlapRoleAssign++
			}
		}
	}
	kind := "user-update"
	if create {
		kind = "user-create"
		if u.AdminCh != nil {
			kind = "user-recreate"
			e.recreates++
		}
	}
	resp, ok := e.admin(kind, "PUT", "/db/_user/"+name, e.principalPayload(true, create, chans, roles, setRoles), 200, 201)
	if !ok {
		e.harnessFault(kind, resp)
		return
	}
	if create {
		u.Exists = true
		u.AdminCh = make([]c03Set, e.m.ncoll)
		for c := range u.AdminCh {
			u.AdminCh[c] = c03Set{}
		}
		u.AdminRoles = c03Set{}
	}
	for c, chs := range chans {
		u.AdminCh[c] = c03SetOf(chs...)
	}
	if setRoles {
		u.AdminRoles = c03SetOf(roles...)
	}
}

func (e *c03Env) opDeleteUser(name string) {
	u := e.m.users[name]
	resp, ok := e.admin("user-delete", "DELETE", "/db/_user/"+name, "", 200)
	if !ok {
		e.harnessFault("user-delete", resp)
		return
	}
	u.Exists = false
}

func (e *c03Env) opPutRole(r *vlib.Rand, name string) {
	ro := e.m.roles[name]
	create := !ro.Exists
	chans := map[int][]string{}
	if create {
		for c := 0; c < e.m.ncoll; c++ {
			if r.Chance(2, 3) {
				chans[c] = e.randChannels(r, 2)
			}
		}
		if len(e.m.docChannelGrantsAny("role:"+name)) > 0 {
			e.lateCreates++
		}
	} else {
		chans[r.Intn(e.m.ncoll)] = e.randChannels(r, 2)
	}
	kind := "role-update"
	if create {
		kind = "role-create"
		if ro.AdminCh != nil {
			kind = "role-recreate"
			e.recreates++
		}
	}
	resp, ok := e.admin(kind, "PUT", "/db/_role/"+name, e.principalPayload(false, create, chans, nil, false), 200, 201)
	if !ok {
		e.harnessFault(kind, resp)
		return
	}
	if create {
		ro.Exists = true
		ro.AdminCh = make([]c03Set, e.m.ncoll)
		for c := range ro.AdminCh {
			ro.AdminCh[c] = c03Set{}
		}
	}
	for c, chs := range chans {
		ro.AdminCh[c] = c03SetOf(chs...)
	}
}

func (m *c03Model) docChannelGrantsAny(to string) c03Set {
	out := c03Set{}
	for c := 0; c < m.ncoll; c++ {
		out.addAll(m.docChannelGrants(c, to))
	}
	return out
}

func (e *c03Env) opDeleteRole(name string, purge bool) {
	ro := e.m.roles[name]
	path, kind := "/db/_role/"+name, "role-delete"
	if purge {
		path += "?purge=true"
		kind = "role-purge"
	}
	resp, ok := e.admin(kind, "DELETE", path, "", 200)
	if !ok {
		e.harnessFault(kind, resp)
		return
	}
	ro.Exists = false
}

func (e *c03Env) randBody(r *vlib.Rand) c03Body {
	e.marker++
	b := c03Body{Marker: fmt.Sprintf("m%d", e.marker), Ch: e.randChannels(r, 1)}
	targets := []string{}
	targets = append(targets, e.users...)
	for _, ro := range e.roles {
		targets = append(targets, "role:"+ro)
	}
	for n := r.Intn(3); n > 0; n-- {
		chs := e.randChannels(r, 2)
		if len(chs) == 0 {
			chs = []string{vlib.Pick(r, c03Channels)}
		}
		b.Grants = append(b.Grants, c03Grant{To: vlib.Pick(r, targets), Ch: chs})
	}
	for n := r.Intn(3); n > 0; n-- {
		b.Roles = append(b.Roles, c03RoleGrant{User: vlib.Pick(r, e.users), Role: "role:" + vlib.Pick(r, e.roles)})
	}
	return b
}

type c03Snapshot struct {
	userCh   map[string][]c03Set
	userRole map[string]c03Set
	roleCh   map[string][]c03Set
}

func (m *c03Model) snapshot() c03Snapshot {
	s := c03Snapshot{userCh: map[string][]c03Set{}, userRole: map[string]c03Set{}, roleCh: map[string][]c03Set{}}
	for u := range m.users {
		for c := 0; c < m.ncoll; c++ {
			ch, _ := m.userChannels(u, c)
			s.userCh[u] = append(s.userCh[u], ch)
		}
		s.userRole[u] = m.userRoles(u)
	}
	for r := range m.roles {
		for c := 0; c < m.ncoll; c++ {
			s.roleCh[r] = append(s.roleCh[r], m.roleChannels(r, c))
		}
	}
	return s
}

// shrank reports whether some existing principal lost a channel or role between two snapshots.
func c03Shrank(before, after c03Snapshot) bool {
	lost := func(a, b c03Set) bool {
		if a == nil || b == nil {
			return false
		}
		for k := range a {
			if !b.has(k) {
				return true
			}
		}
		return false
	}
	for u, chs := range before.userCh {
		for c := range chs {
			if lost(chs[c], after.userCh[u][c]) {
				return true
			}
		}
		if lost(before.userRole[u], after.userRole[u]) {
			return true
		}
	}
	for r, chs := range before.roleCh {
		for c := range chs {
			if lost(chs[c], after.roleCh[r][c]) {
				return true
			}
		}
	}
	return false
}

// opDoc performs one document operation on (coll, id), chosen by the document's current state.
func (e *c03Env) opDoc(r *vlib.Rand, coll int, id string) {
	key := c03DocKey(coll, id)
	d := e.m.docs[key]
	ks := e.keyspace(coll)
	before := e.m.snapshot()
	defer func() {
		if !e.failed && c03Shrank(before, e.m.snapshot()) {
			e.revocations++
		}
	}()
	if d == nil {
		body := e.randBody(r)
		resp, ok := e.admin("doc-create", "PUT", "/"+ks+"/"+id, c03JSON(body), 201)
		if !ok {
			e.harnessFault("doc-create", resp)
			return
		}
		rev := c03RespRev(resp)
		e.m.docs[key] = &c03Doc{Coll: coll, ID: id, Revs: map[string]*c03Rev{rev: {ID: rev, Body: body}}}
		return
	}
	w := d.winner()
	choice := r.Intn(10)
	switch {
	case choice < 3:
		e.opConflict(r, d, ks)
	case w.Deleted:
		// resurrect: with the tombstone's rev, or with no rev at all
		body := e.randBody(r)
		path := "/" + ks + "/" + id
		if r.Bool() {
			path += "?rev=" + w.ID
		}
		resp, ok := e.admin("doc-resurrect", "PUT", path, c03JSON(body), 201)
		if !ok {
			e.harnessFault("doc-resurrect", resp)
			return
		}
		rev := c03RespRev(resp)
		d.Revs[rev] = &c03Rev{ID: rev, Parent: w.ID, Body: body}
	case choice < 5:
		resp, ok := e.admin("doc-delete", "DELETE", "/"+ks+"/"+id+"?rev="+w.ID, "", 200)
		if !ok {
			e.harnessFault("doc-delete", resp)
			return
		}
		rev := c03RespRev(resp)
		d.Revs[rev] = &c03Rev{ID: rev, Parent: w.ID, Deleted: true}
	default:
		body := e.randBody(r)
		if r.Chance(1, 4) {
			// an update that keeps the document but stops granting anything
			body.Grants, body.Roles = nil, nil
		}
		resp, ok := e.admin("doc-update", "PUT", "/"+ks+"/"+id+"?rev="+w.ID, c03JSON(body), 201)
		if !ok {
			e.harnessFault("doc-update", resp)
			return
		}
		rev := c03RespRev(resp)
		d.Revs[rev] = &c03Rev{ID: rev, Parent: w.ID, Body: body}
	}
}

func c03RespRev(resp *TestResponse) string {
	var v struct {
		Rev string `json:"rev"`
	}
	_ = json.Unmarshal(resp.Body.Bytes(), &v)
	return v.Rev
}

// opConflict pushes a revision with new_edits=false under an arbitrary existing revision (or as a
// new root), with a digest chosen to sort low or high, live or deleted.
func (e *c03Env) opConflict(r *vlib.Rand, d *c03Doc, ks string) {
	var ids []string
	for id := range d.Revs {
		ids = append(ids, id)
	}
	sort.Strings(ids)
	parent := ""
	if e.allowConflicts {
		switch k := r.Intn(8); {
		case k == 0: // new root
		case k < 5: // a sibling of the current winner: same generation, the digest decides
			parent = d.winner().Parent
		default:
			parent = vlib.Pick(r, ids)
		}
	} else if w := d.winner(); !w.Deleted {
		// conflict-free mode: a pushed revision must extend the current revision ...
		parent = w.ID
	} // ... or, when the document is a tombstone, be a disconnected live branch (parent "")
	gen := 1
	if parent != "" {
		g, _ := c03ParseRev(parent)
		gen = g + 1
	}
	e.marker++
	prefix := vlib.Pick(r, []string{"00", "00", "ff"})
	rev := fmt.Sprintf("%d-%sc03x%04d", gen, prefix, e.marker)
	deleted := r.Chance(1, 4)
	if !e.allowConflicts && parent == "" {
		deleted = false
	}
	body := e.randBody(r)
	m := map[string]any{}
	if deleted {
		m["_deleted"] = true
		body = c03Body{}
	} else {
		_ = json.Unmarshal([]byte(c03JSON(body)), &m)
	}
	hist := append([]string{rev}, d.history(parent)...)
	digests := make([]string, len(hist))
	for i, h := range hist {
		_, digests[i] = c03ParseRev(h)
	}
	m["_revisions"] = map[string]any{"start": gen, "ids": digests}
	wBefore := d.winner().ID
	resp, ok := e.admin("doc-conflict", "PUT", "/"+ks+"/"+d.ID+"?new_edits=false", c03JSON(m), 201)
	if !ok {
		e.harnessFault("doc-conflict", resp)
		return
	}
	d.Revs[rev] = &c03Rev{ID: rev, Parent: parent, Deleted: deleted, Body: body}
	if d.winner().ID != wBefore {
		e.conflictsWon++
		e.ops[len(e.ops)-1].Note = "becomes winner (or makes " + d.winner().ID + " the winner)"
	} else {
		e.conflictsLost++
		e.ops[len(e.ops)-1].Note = "does not win; winner stays " + wBefore
	}
}

// ---------------------------------------------------------------------------------------------
// observation and comparison

type c03PrincipalJSON struct {
	AllChannels      []string `json:"all_channels"`
	Roles            []string `json:"roles"`
	CollectionAccess map[string]map[string]struct {
		AllChannels []string `json:"all_channels"`
	} `json:"collection_access"`
}

func (e *c03Env) restChannels(p *c03PrincipalJSON, coll int) c03Set {
	c := e.colls[coll]
	if c.isDefault() {
		return c03SetOf(p.AllChannels...)
	}
	return c03SetOf(p.CollectionAccess[c.Scope][c.Name].AllChannels...)
}

func (e *c03Env) violation(oracle, obs, what, dir, class, afterKind, msg string) {
	if e.dry {
		e.failed = true
		return
	}
	sig := fmt.Sprintf("C03|%s|obs=%s|%s|%s|%s|after=%s", e.sigScope(), obs, what, dir, class, afterKind)
	if e.sigFixed != nil {
		msg = "[" + sig + "] " + msg
		sig = e.sigFixed(what, dir)
	}
	e.failedClassified = false
	if e.classify != nil {
		// concurrent phase: a violation whose schedule shows one of the recognised storage-step shapes on the
		// principal concerned is reported under the signature of that shape (one signature per root cause)
		if s := e.classify(e.curPrinc, what); s != "" {
			msg = "[" + sig + "] " + msg
			sig = s
			e.failedClassified = true
		}
	}
	e.run.Violation(oracle, sig, msg, e.witness())
	e.failed = true
}

func (e *c03Env) sigScope() string {
	kinds := []string{}
	for _, c := range e.colls {
		kinds = append(kinds, c03CollKind(c))
	}
	part := e.part
	if part == "" {
		part = "seq"
	}
	return part + "|colls=" + strings.Join(kinds, ",")
}

// compareSet compares one observed set with the model; why gives the model's source classes per element.
func (e *c03Env) compareSet(obs, what, princ string, coll int, want, got c03Set, why map[string]string, afterKind string) bool {
	e.run.Count("comparisons", 1)
	missing, extra := c03Diff(want, got)
	if len(missing) == 0 && len(extra) == 0 {
		return true
	}
	where := ""
	if coll >= 0 {
		where = " in " + e.keyspace(coll)
	}
	msg := fmt.Sprintf("after op #%d (%s): %s of %s%s observed via %s = %v, model = %v (missing %v, extra %v)",
		len(e.ops), afterKind, what, princ, where, obs, got.list(), want.list(), missing, extra)
	dir, class := "extra", "stale-or-unfounded"
	if len(missing) > 0 {
		dir = "missing"
		class = "src=" + why[missing[0]]
		if why == nil {
			class = "src=?"
		}
	}
	w := what
	if coll >= 0 {
		w += "@" + c03CollKind(e.colls[coll])
	}
	e.violation("model-equality", obs, w, dir, class, afterKind, msg)
	return false
}

func (e *c03Env) checkAll(r *vlib.Rand, afterKind string) {
	auth := e.rt.GetDatabase().Authenticator(e.rt.Context())
	for _, name := range e.users {
		if e.failed {
			return
		}
		e.curPrinc = name
		u := e.m.users[name]
		wantRoles := e.m.userRoles(name)
		roleWhy := map[string]string{}
		if u.Exists {
			for ro := range wantRoles {
				switch {
				case u.AdminRoles.has(ro) && e.m.docRoleGrants(name).has(ro):
					roleWhy[ro] = "admin+doc"
				case u.AdminRoles.has(ro):
					roleWhy[ro] = "admin"
				default:
					roleWhy[ro] = "doc"
				}
			}
		}
		observers := []string{"rest", "auth"}
		if r.Bool() {
			observers[0], observers[1] = observers[1], observers[0]
		}
		for _, obs := range observers {
			if e.failed {
				return
			}
			switch obs {
			case "rest":
				resp := e.rt.SendAdminRequest("GET", "/db/_user/"+name, "")
				if !u.Exists {
					e.run.Count("comparisons", 1)
					if resp.Code != 404 {
						e.violation("model-equality", "rest", "user-existence", "extra", "deleted-user-still-served", afterKind,
							fmt.Sprintf("after op #%d: GET _user/%s -> %d but the user was deleted", len(e.ops), name, resp.Code))
					}
					continue
				}
				if resp.Code != 200 {
					e.violation("model-equality", "rest", "user-existence", "missing", "status", afterKind,
						fmt.Sprintf("after op #%d: GET _user/%s -> %d %s", len(e.ops), name, resp.Code, resp.Body.String()))
					continue
				}
				var p c03PrincipalJSON
				if err := json.Unmarshal(resp.Body.Bytes(), &p); err != nil {
					e.harnessFault("decode-user", resp)
					return
				}
				if !e.compareSet("rest", "user-roles", name, -1, wantRoles, c03SetOf(p.Roles...), roleWhy, afterKind) {
					return
				}
				for c := 0; c < e.m.ncoll; c++ {
					want, why := e.m.userChannels(name, c)
					if !e.compareSet("rest", "user-channels", name, c, want, e.restChannels(&p, c), why, afterKind) {
						return
					}
					e.countSources(why)
				}
			case "auth":
				usr, err := auth.GetUser(name)
				if err != nil {
					e.run.Inconclusive("auth-getuser-error")
					e.failed = true
					return
				}
				if !u.Exists {
					e.run.Count("comparisons", 1)
					if usr != nil {
						e.violation("model-equality", "auth", "user-existence", "extra", "deleted-user-still-served", afterKind,
							fmt.Sprintf("after op #%d: Authenticator.GetUser(%s) non-nil but the user was deleted", len(e.ops), name))
					}
					continue
				}
				if usr == nil {
					e.violation("model-equality", "auth", "user-existence", "missing", "nil", afterKind,
						fmt.Sprintf("after op #%d: Authenticator.GetUser(%s) = nil", len(e.ops), name))
					continue
				}
				got := c03Set{}
				for k := range usr.RoleNames() {
					got.add(k)
				}
				if !e.compareSet("auth", "user-roles", name, -1, wantRoles, got, roleWhy, afterKind) {
					return
				}
				for c := 0; c < e.m.ncoll; c++ {
					want, why := e.m.userChannels(name, c)
					ts, err := usr.InheritedCollectionChannels(e.colls[c].Scope, e.colls[c].Name)
					if err != nil {
						e.run.Inconclusive("auth-inherited-error")
						e.failed = true
						return
					}
					got := c03Set{}
					for k := range ts {
						got.add(k)
					}
					if !e.compareSet("auth", "user-channels", name, c, want, got, why, afterKind) {
						return
					}
				}
			}
		}
		// reads that depend on the grant
		if u.Exists {
			for c := 0; c < e.m.ncoll; c++ {
				want, why := e.m.userChannels(name, c)
				for _, ch := range c03Channels {
					resp := e.rt.SendUserRequest("GET", "/"+e.keyspace(c)+"/probe_"+ch, "", name)
					e.run.Count("comparisons", 1)
					e.run.Count("grant_dependent_reads", 1)
					switch {
					case want.has(ch) && resp.Code != 200:
						e.violation("grant-dependent-read", "docread", "user-channels@"+c03CollKind(e.colls[c]), "missing", "src="+why[ch], afterKind,
							fmt.Sprintf("after op #%d (%s): GET %s/probe_%s as %s -> %d, model says %s has channel %s (%s)", len(e.ops), afterKind, e.keyspace(c), ch, name, resp.Code, name, ch, why[ch]))
						return
					case !want.has(ch) && resp.Code != 403:
						e.violation("grant-dependent-read", "docread", "user-channels@"+c03CollKind(e.colls[c]), "extra", "stale-or-unfounded", afterKind,
							fmt.Sprintf("after op #%d (%s): GET %s/probe_%s as %s -> %d, model says %s has no access to channel %s", len(e.ops), afterKind, e.keyspace(c), ch, name, resp.Code, name, ch))
						return
					}
				}
			}
		}
	}
	for _, name := range e.roles {
		if e.failed {
			return
		}
		e.curPrinc = name
		ro := e.m.roles[name]
		resp := e.rt.SendAdminRequest("GET", "/db/_role/"+name, "")
		if !ro.Exists {
			e.run.Count("comparisons", 1)
			if resp.Code != 404 {
				e.violation("model-equality", "rest", "role-existence", "extra", "deleted-role-still-served", afterKind,
					fmt.Sprintf("after op #%d: GET _role/%s -> %d but the role was deleted", len(e.ops), name, resp.Code))
			}
		} else if resp.Code != 200 {
			e.violation("model-equality", "rest", "role-existence", "missing", "status", afterKind,
				fmt.Sprintf("after op #%d: GET _role/%s -> %d %s", len(e.ops), name, resp.Code, resp.Body.String()))
		} else {
			var p c03PrincipalJSON
			if err := json.Unmarshal(resp.Body.Bytes(), &p); err != nil {
				e.harnessFault("decode-role", resp)
				return
			}
			for c := 0; c < e.m.ncoll; c++ {
				if !e.compareSet("rest", "role-channels", name, c, e.m.roleChannels(name, c), e.restChannels(&p, c), e.roleWhy(name, c), afterKind) {
					return
				}
			}
		}
		if e.failed {
			return
		}
		role, err := auth.GetRole(name)
		if err != nil {
			e.run.Inconclusive("auth-getrole-error")
			e.failed = true
			return
		}
		if !ro.Exists {
			e.run.Count("comparisons", 1)
			if role != nil {
				e.violation("model-equality", "auth", "role-existence", "extra", "deleted-role-still-served", afterKind,
					fmt.Sprintf("after op #%d: Authenticator.GetRole(%s) non-nil but the role was deleted", len(e.ops), name))
			}
			continue
		}
		if role == nil {
			e.violation("model-equality", "auth", "role-existence", "missing", "nil", afterKind,
				fmt.Sprintf("after op #%d: Authenticator.GetRole(%s) = nil", len(e.ops), name))
			continue
		}
		for c := 0; c < e.m.ncoll; c++ {
			got := c03Set{}
			for k := range role.CollectionChannels(e.colls[c].Scope, e.colls[c].Name) {
				got.add(k)
			}
			if !e.compareSet("auth", "role-channels", name, c, e.m.roleChannels(name, c), got, e.roleWhy(name, c), afterKind) {
				return
			}
		}
	}
}

func (e *c03Env) roleWhy(role string, coll int) map[string]string {
	why := map[string]string{"!": "public"}
	ro := e.m.roles[role]
	if !ro.Exists {
		return why
	}
	for c := range ro.AdminCh[coll] {
		why[c] = "admin"
	}
	for c := range e.m.docChannelGrants(coll, "role:"+role) {
		if why[c] == "admin" {
			why[c] = "admin+doc"
		} else {
			why[c] = "doc"
		}
	}
	return why
}

func (e *c03Env) countSources(why map[string]string) {
	for _, w := range why {
		switch {
		case w == "doc":
			e.run.Count("channels_held_by_doc_grant_only", 1)
		case w == "docrole":
			e.run.Count("channels_held_via_sync_granted_role_only", 1)
		case w == "adminrole":
			e.run.Count("channels_held_via_admin_role_only", 1)
		}
	}
}

// ---------------------------------------------------------------------------------------------
// sequential part

func (e *c03Env) setupProbes() bool {
	for c := 0; c < e.m.ncoll; c++ {
		for _, ch := range c03Channels {
			resp := e.rt.SendAdminRequest("PUT", "/"+e.keyspace(c)+"/probe_"+ch, fmt.Sprintf(`{"marker":"probe","ch":[%q]}`, ch))
			if resp.Code != 201 {
				e.harnessFault("probe-create", resp)
				return false
			}
		}
	}
	return true
}

func (e *c03Env) step(r *vlib.Rand) string {
	n := len(e.ops)
	switch k := r.Intn(100); {
	case k < 45:
		e.opDoc(r, r.Intn(e.m.ncoll), vlib.Pick(r, e.docs))
	case k < 68:
		name := vlib.Pick(r, e.users)
		if e.m.users[name].Exists && r.Chance(1, 5) {
			e.opDeleteUser(name)
		} else {
			e.opPutUser(r, name)
		}
	default:
		name := vlib.Pick(r, e.roles)
		if e.m.roles[name].Exists && r.Chance(1, 4) {
			e.opDeleteRole(name, r.Chance(1, 3))
		} else {
			e.opPutRole(r, name)
		}
	}
	if len(e.ops) > n {
		return e.ops[len(e.ops)-1].Kind
	}
	return "none"
}

func c03RunHistory(t testing.TB, run *vlib.Run, layout string, idx, nops int) {
	r := run.CaseRand(idx)
	rt, colls := c03NewRT(t, nil, layout)
	defer rt.Close()
	e := &c03Env{t: t, run: run, rt: rt, layout: layout, colls: colls, users: c03Users, roles: c03Roles, docs: c03Docs,
		m: c03NewModel(len(colls), c03Users, c03Roles), allowConflicts: idx%2 == 0}
	if e.allowConflicts {
		rt.GetDatabase().EnableAllowConflicts(t)
	}
	if !e.setupProbes() {
		return
	}
	kinds := c03Set{}
	for i := 0; i < nops && !e.failed; i++ {
		kind := e.step(r)
		if e.failed {
			break
		}
		kinds.add(kind)
		e.run.Count("ops", 1)
		e.run.Count("op."+kind, 1)
		e.checkAll(r, kind)
	}
	if !e.failed && idx%4 == 0 {
		e.purgeProbe(r)
	}
	run.Eval()
	run.Count("histories."+layout, 1)
	run.Count("revocations_by_document_change", e.revocations)
	run.Count("principals_created_after_granting_doc", e.lateCreates)
	run.Count("principals_recreated_same_name", e.recreates)
	run.Count("conflicts_changing_winner", e.conflictsWon)
	run.Count("conflicts_not_winning", e.conflictsLost)
	run.Count("admin_roles_restated_equal_to_effective", e.overlapRoleAssign)
	if e.revocations > 0 && e.lateCreates > 0 && !e.failed {
		run.Nontrivial(fmt.Sprintf("%s/%d", layout, idx))
	}
	if idx < 2 {
		run.Sample(map[string]any{"layout": layout, "history": idx, "first_ops": e.ops[:min(len(e.ops), 8)]})
	}
}

// purgeProbe: purge is NOT among the operations the property lists, so this is an observation, never a violation:
// purge a document whose winning revision currently confers something and see whether the grant survives.
func (e *c03Env) purgeProbe(r *vlib.Rand) {
	before := e.m.snapshot()
	var keys []string
	for k := range e.m.docs {
		keys = append(keys, k)
	}
	sort.Strings(keys)
	for _, k := range keys {
		d := e.m.docs[k]
		trial := e.m.clone()
		delete(trial.docs, k)
		if !c03Shrank(before, trial.snapshot()) {
			continue
		}
		resp := e.rt.SendAdminRequest("POST", "/"+e.keyspace(d.Coll)+"/_purge", fmt.Sprintf(`{%q:["*"]}`, d.ID))
		if resp.Code != 200 {
			e.run.Note("c03 purge probe: _purge -> %d %s", resp.Code, strings.TrimSpace(resp.Body.String()))
			return
		}
		e.ops = append(e.ops, c03Op{Kind: "doc-purge", Method: "POST", Path: "/" + e.keyspace(d.Coll) + "/_purge", Body: d.ID, Status: resp.Code})
		e.m = trial
		e.dry = true
		e.checkAll(r, "doc-purge")
		e.dry = false
		if e.failed {
			e.failed = false
			e.run.Count("outside_property.purge_left_stale_access", 1)
			c03PurgeNote.Do(func() {
				e.run.Note("observation outside the property's operation list: after purging a granting document (layout %s) the principals it granted to still report the grant (purge does not invalidate them)", e.layout)
			})
		} else {
			e.run.Count("outside_property.purge_probe_consistent", 1)
		}
		return
	}
}

var c03PurgeNote sync.Once

var c03SeqLayouts = []string{"default", "named-scope", "default-scope-named", "default+named"}

func TestVerif_C03_Sequential(t *testing.T) {
	run := vlib.Start(t, "C03", "sequential")
	defer run.Finish()
	base.TestRequiresCollections(t)
	nhist := run.N(150, 2000)
	nops := 30
	type job struct {
		layout string
		idx    int
	}
	var jobs []job
	for li, layout := range c03SeqLayouts {
		n := nhist
		if layout == "default+named" {
			n = nhist / 3 // two collections: twice the observations per operation
		}
		for i := 0; i < n; i++ {
			jobs = append(jobs, job{layout, li*100000 + i})
		}
	}
	if only, ok := run.OnlyCase(); ok {
		var keep []job
		for _, j := range jobs {
			if j.idx == only {
				keep = append(keep, j)
			}
		}
		jobs = keep
	}
	ch := make(chan job, len(jobs))
	var wg sync.WaitGroup
	workers := 12
	for w := 0; w < workers; w++ {
		wg.Add(1)
		go func() {
			defer wg.Done()
			for j := range ch {
				c03RunHistory(t, run, j.layout, j.idx, nops)
			}
		}()
	}
	for _, j := range jobs {
		ch <- j
	}
	close(ch)
	wg.Wait()
}
