//go:build verif

package rest

import (
	"bytes"
	"context"
	"encoding/base64"
	"encoding/json"
	"fmt"
	"net/http"
	"sort"
	"strings"
	"sync"
	"testing"

	"github.com/couchbase/sync_gateway/base"
	"verif/vlib"
)

// C11 — writes are all-or-nothing, success only when durable: single-fault enumeration.
// For each request type a fault-free run records the storage operations the request issues; then,
// on fresh document / principal names, the same request is repeated once per (operation index, fault
// kind). Raw pre-state of every key the request touches is captured lazily at first touch through
// the un-hooked store and compared with the post-state; API-visible state is compared as well; on
// success everything the request claims is read back.

const c11SyncFn = `function(doc, oldDoc){
	if (doc.reject == "throw") { throw({forbidden: "rejected"}); }
	if (doc.reject == "requireUser") { requireUser("nobody"); }
	if (doc.reject == "requireRole") { requireRole("norole"); }
	if (doc.reject == "requireAccess") { requireAccess("nochannel"); }
	channel(doc.ch);
	if (doc.grant) { access(doc.grant, doc.grantch); }
	if (doc.grantrole) { role(doc.grant, "role:" + doc.grantrole); }
}`

var c11XattrNames = []string{base.SyncXattrName, base.VvXattrName, base.MouXattrName, base.GlobalXattrName}

type c11RawState struct {
	Exists bool
	Body   string
	Xattrs map[string]string
}

func (a c11RawState) equal(b c11RawState) bool {
	if a.Exists != b.Exists || a.Body != b.Body || len(a.Xattrs) != len(b.Xattrs) {
		return false
	}
	for k, v := range a.Xattrs {
		if b.Xattrs[k] != v {
			return false
		}
	}
	return true
}

type c11Env struct {
	t   *testing.T
	run *vlib.Run
	vs  *vStore
	rt  *RestTester
	n   int

	mu       sync.Mutex
	gid      uint64 // request goroutine while a measured request runs (0 = not measuring)
	opIndex  int
	trace    []string
	faultAt  int
	faultK   string
	fault2At int // second fault of a pair (thorough tier); -1 = none; always kind "error"
	injected2 string
	injected string
	pre      map[string]c11RawState // "ds|key" → raw state at first touch
	order    []string
	casRetryFor uint64
	persistKey    string // cas-persistent: DS|key whose compare-and-swap writes keep losing
	persistLosses int
}

func (e *c11Env) rawDS(name string) base.DataStore {
	ctx := context.Background()
	b := e.vs.tb.Bucket
	if ds := b.DefaultDataStore(ctx); ds.GetName() == name {
		return ds.(base.DataStore)
	}
	names, _ := b.ListDataStores(ctx)
	for _, n := range names {
		if ds, err := b.NamedDataStore(ctx, n); err == nil && ds.GetName() == name {
			return ds.(base.DataStore)
		}
	}
	return nil
}

func (e *c11Env) readRaw(dsName, key string) c11RawState {
	ds := e.rawDS(dsName)
	st := c11RawState{Xattrs: map[string]string{}}
	if ds == nil {
		return st
	}
	body, xattrs, _, err := ds.GetWithXattrs(context.Background(), key, c11XattrNames)
	if err != nil && len(xattrs) == 0 && body == nil {
		// plain (non-xattr) documents such as principals and sessions
		if raw, _, rerr := ds.GetRaw(context.Background(), key); rerr == nil {
			st.Exists, st.Body = true, string(raw)
		}
		return st
	}
	st.Exists = true
	st.Body = string(body)
	for k, v := range xattrs {
		st.Xattrs[k] = string(v)
	}
	return st
}

func c11KeyClass(key string) string {
	switch {
	case strings.HasSuffix(key, ":seq") || key == "_sync:seq":
		return "counter"
	case strings.Contains(key, "unusedSeq"):
		return "unused-seq"
	case strings.HasPrefix(key, "_sync:att") || strings.Contains(key, ":att2:") || strings.Contains(key, ":att:"):
		return "attachment-blob"
	case strings.HasPrefix(key, "_sync:rb:") || strings.HasPrefix(key, "_sync:rev:"):
		return "old-revision-body"
	case strings.HasPrefix(key, "_sync:local:"):
		return "local-document"
	case strings.Contains(key, "user:"):
		return "user"
	case strings.Contains(key, "role:"):
		return "role"
	case strings.Contains(key, "useremail:"):
		return "user-email-index"
	case strings.Contains(key, "session:"):
		return "session"
	case strings.HasPrefix(key, "_sync:"):
		return "other-metadata"
	}
	return "document"
}

// deciding key classes: a failed request must leave these untouched
func c11Deciding(class string) bool {
	switch class {
	case "document", "user", "role", "user-email-index", "session", "local-document":
		return true
	}
	return false
}

func (e *c11Env) pre_(op *base.VerifOp, actor string) base.VerifDecision {
	e.mu.Lock()
	defer e.mu.Unlock()
	if e.gid == 0 || op.Gid != e.gid {
		return base.VerifDecision{}
	}
	k := op.DS + "|" + op.Key
	if _, ok := e.pre[k]; !ok {
		e.pre[k] = e.readRaw(op.DS, op.Key)
		e.order = append(e.order, k)
	}
	idx := e.opIndex
	e.opIndex++
	e.trace = append(e.trace, fmt.Sprintf("%d:%s(%s)", idx, op.Kind, c11KeyClass(op.Key)))
	if e.persistKey != "" && idx > e.faultAt && k == e.persistKey && op.CasIn != 0 && c11TakesCas(op.Kind) && op.Kind != "Update" && op.Kind != "WriteUpdateWithXattrs" {
		// the key stays contended: every later compare-and-swap of this request on it loses as well
		e.persistLosses++
		return base.VerifDecision{Action: base.VerifFailBefore, Err: verifCasMismatch()}
	}
	if idx == e.fault2At && idx != e.faultAt {
		e.injected2 = fmt.Sprintf("error@%s(%s)", op.Kind, c11KeyClass(op.Key))
		return base.VerifDecision{Action: base.VerifFailBefore, Err: errInjected}
	}
	if idx != e.faultAt {
		return base.VerifDecision{}
	}
	e.injected = fmt.Sprintf("%s@%s(%s)", e.faultK, op.Kind, c11KeyClass(op.Key))
	switch e.faultK {
	case "error":
		return base.VerifDecision{Action: base.VerifFailBefore, Err: errInjected}
	case "cas":
		if op.Kind == "Update" || op.Kind == "WriteUpdateWithXattrs" {
			// interactive updates retry internally: the realistic CAS fault is one lost compare-and-swap (see midHook)
			e.casRetryFor = op.N
			return base.VerifDecision{}
		}
		if op.CasIn == 0 && op.Kind != "Add" && op.Kind != "AddRaw" {
			e.injected = "" // the caller did not ask for a CAS comparison: a mismatch cannot happen here
			return base.VerifDecision{}
		}
		// (insert-only operations can fail with the same error class: "key exists" is reported as a CAS-class error)
		return base.VerifDecision{Action: base.VerifFailBefore, Err: verifCasMismatch()}
	case "cas-persistent":
		// a hot key: this and every later compare-and-swap write of the request on the same key loses (the callers' retry
		// loops are bounded; interactive store-level updates retry without bound and are not given this fault)
		if op.Kind == "Update" || op.Kind == "WriteUpdateWithXattrs" || op.CasIn == 0 {
			e.injected = ""
			return base.VerifDecision{}
		}
		e.persistKey = k
		e.persistLosses = 1
		return base.VerifDecision{Action: base.VerifFailBefore, Err: verifCasMismatch()}
	case "timeout-applied":
		return base.VerifDecision{Action: base.VerifFailAfter, Err: base.ErrTimeout}
	}
	return base.VerifDecision{}
}

func c11TakesCas(kind string) bool {
	switch kind {
	case "Add", "AddRaw":
		return true
	case "WriteCas", "WriteUpdateWithXattrs", "WriteWithXattrs", "Remove", "UpdateXattrs", "WriteTombstoneWithXattrs", "Update", "SubdocInsert", "WriteSubDoc", "RemoveXattrs":
		return true
	}
	return false
}

// measure runs fn as "the request" with fault (at, kind); at < 0 means no fault.
func (e *c11Env) measure(at int, kind string, fn func() *TestResponse) (resp *TestResponse, trace []string, injected string, pre map[string]c11RawState) {
	e.mu.Lock()
	e.gid = base.VerifGoroutineID()
	e.opIndex, e.trace, e.faultAt, e.faultK, e.injected, e.injected2 = 0, nil, at, kind, "", ""
	e.persistKey, e.persistLosses = "", 0
	e.pre, e.order = map[string]c11RawState{}, nil
	e.mu.Unlock()
	resp = fn()
	e.mu.Lock()
	e.gid = 0
	trace, injected, pre = e.trace, e.injected, e.pre
	e.mu.Unlock()
	return
}

type c11Claim struct {
	What string
	Chk  func() (bool, string) // read-back after a success
}

// c11Request is one request type. Prepare builds the pre-state for instance n (fault-free) and
// returns the request function plus the API-level observation function and the success claims.
type c11Request struct {
	Name    string
	Prepare func(e *c11Env, n int) (do func() *TestResponse, observe func() string, claims []c11Claim)
}

func (e *c11Env) admin(method, path, body string) *TestResponse {
	return e.rt.SendAdminRequest(method, path, body)
}

func (e *c11Env) mustAdmin(method, path, body string, want ...int) *TestResponse {
	resp := e.admin(method, path, body)
	for _, w := range want {
		if resp.Code == w {
			return resp
		}
	}
	e.t.Fatalf("setup %s %s -> %d %s", method, path, resp.Code, resp.Body.String())
	return resp
}

func c11Rev(resp *TestResponse) string {
	var r struct {
		Rev string `json:"rev"`
	}
	_ = json.Unmarshal(resp.Body.Bytes(), &r)
	return r.Rev
}

func (e *c11Env) observeDoc(id string) string {
	var sb strings.Builder
	for _, p := range []string{"/{{.keyspace}}/" + id + "?revs=true&attachments=true", "/{{.keyspace}}/" + id + "?open_revs=all", "/{{.keyspace}}/_raw/" + id + "?redact=false"} {
		r := e.rt.SendAdminRequestWithHeaders("GET", p, "", map[string]string{"Accept": "application/json"})
		sb.WriteString(fmt.Sprintf("%s -> %d %s\n", p, r.Code, c11Normalize(r.Body.Bytes())))
	}
	return sb.String()
}

func (e *c11Env) observeUser(name string) string {
	r := e.admin("GET", "/{{.db}}/_user/"+name, "")
	return fmt.Sprintf("_user/%s -> %d %s\n", name, r.Code, c11Normalize(r.Body.Bytes()))
}

func (e *c11Env) observeRole(name string) string {
	r := e.admin("GET", "/{{.db}}/_role/"+name, "")
	return fmt.Sprintf("_role/%s -> %d %s\n", name, r.Code, c11Normalize(r.Body.Bytes()))
}

// c11Normalize drops fields that legitimately vary between two reads (timestamps of the read itself)
func c11Normalize(b []byte) string {
	var v any
	if json.Unmarshal(b, &v) != nil {
		return string(b)
	}
	var strip func(x any) any
	strip = func(x any) any {
		switch t := x.(type) {
		case map[string]any:
			for _, k := range []string{"time_saved", "updated_at", "created_at"} {
				delete(t, k)
			}
			for k, vv := range t {
				t[k] = strip(vv)
			}
			return t
		case []any:
			for i := range t {
				t[i] = strip(t[i])
			}
			return t
		}
		return x
	}
	out, _ := json.Marshal(strip(v))
	return string(out)
}

func c11Requests() []c11Request {
	att := base64.StdEncoding.EncodeToString([]byte("attachment-bytes-0123456789"))
	docClaims := func(e *c11Env, id, marker string, deleted bool) []c11Claim {
		return []c11Claim{{What: "document readable with the written body", Chk: func() (bool, string) {
			r := e.admin("GET", "/{{.keyspace}}/"+id, "")
			if deleted {
				return r.Code == 404, fmt.Sprintf("GET -> %d", r.Code)
			}
			return r.Code == 200 && strings.Contains(r.Body.String(), marker), fmt.Sprintf("GET -> %d %s", r.Code, r.Body.String())
		}}}
	}
	userHasChannel := func(e *c11Env, user, ch string, want bool) c11Claim {
		return c11Claim{What: fmt.Sprintf("user %s all_channels contains %s = %v", user, ch, want), Chk: func() (bool, string) {
			r := e.admin("GET", "/{{.db}}/_user/"+user, "")
			var u struct {
				All []string `json:"all_channels"`
			}
			_ = json.Unmarshal(r.Body.Bytes(), &u)
			has := false
			for _, c := range u.All {
				if c == ch {
					has = true
				}
			}
			return r.Code == 200 && has == want, fmt.Sprintf("GET _user -> %d all_channels=%v", r.Code, u.All)
		}}
	}
	userByEmail := func(e *c11Env, user, email string) c11Claim {
		return c11Claim{What: fmt.Sprintf("user %s can be found by e-mail %s", user, email), Chk: func() (bool, string) {
			a := e.rt.GetDatabase().Authenticator(e.rt.Context())
			u, err := a.GetUserByEmail(email)
			if err != nil || u == nil {
				return false, fmt.Sprintf("GetUserByEmail -> %v, %v", u, err)
			}
			return u.Name() == user, "found " + u.Name()
		}}
	}
	return []c11Request{
		{Name: "doc-create", Prepare: func(e *c11Env, n int) (func() *TestResponse, func() string, []c11Claim) {
			id := fmt.Sprintf("c11doc%d", n)
			m := fmt.Sprintf("marker-%d", n)
			return func() *TestResponse { return e.admin("PUT", "/{{.keyspace}}/"+id, `{"ch":["A"],"m":"`+m+`"}`) },
				func() string { return e.observeDoc(id) }, docClaims(e, id, m, false)
		}},
		{Name: "doc-update", Prepare: func(e *c11Env, n int) (func() *TestResponse, func() string, []c11Claim) {
			id := fmt.Sprintf("c11doc%d", n)
			rev := c11Rev(e.mustAdmin("PUT", "/{{.keyspace}}/"+id, `{"ch":["A"],"m":"old"}`, 201))
			m := fmt.Sprintf("marker-%d", n)
			return func() *TestResponse {
					return e.admin("PUT", "/{{.keyspace}}/"+id+"?rev="+rev, `{"ch":["B"],"m":"`+m+`"}`)
				},
				func() string { return e.observeDoc(id) }, docClaims(e, id, m, false)
		}},
		{Name: "doc-delete", Prepare: func(e *c11Env, n int) (func() *TestResponse, func() string, []c11Claim) {
			id := fmt.Sprintf("c11doc%d", n)
			rev := c11Rev(e.mustAdmin("PUT", "/{{.keyspace}}/"+id, `{"ch":["A"],"m":"old"}`, 201))
			return func() *TestResponse { return e.admin("DELETE", "/{{.keyspace}}/"+id+"?rev="+rev, "") },
				func() string { return e.observeDoc(id) }, docClaims(e, id, "", true)
		}},
		{Name: "doc-create-with-attachment", Prepare: func(e *c11Env, n int) (func() *TestResponse, func() string, []c11Claim) {
			id := fmt.Sprintf("c11doc%d", n)
			m := fmt.Sprintf("marker-%d", n)
			claims := append(docClaims(e, id, m, false), c11Claim{What: "attachment readable", Chk: func() (bool, string) {
				r := e.admin("GET", "/{{.keyspace}}/"+id+"/a.txt", "")
				return r.Code == 200 && r.Body.String() == "attachment-bytes-0123456789", fmt.Sprintf("GET att -> %d %q", r.Code, r.Body.String())
			}})
			return func() *TestResponse {
					return e.admin("PUT", "/{{.keyspace}}/"+id, `{"ch":["A"],"m":"`+m+`","_attachments":{"a.txt":{"data":"`+att+`"}}}`)
				},
				func() string { return e.observeDoc(id) }, claims
		}},
		{Name: "doc-update-replacing-attachment", Prepare: func(e *c11Env, n int) (func() *TestResponse, func() string, []c11Claim) {
			id := fmt.Sprintf("c11doc%d", n)
			rev := c11Rev(e.mustAdmin("PUT", "/{{.keyspace}}/"+id, `{"ch":["A"],"m":"old","_attachments":{"a.txt":{"data":"`+att+`"}}}`, 201))
			att2 := base64.StdEncoding.EncodeToString([]byte(fmt.Sprintf("second-attachment-%d", n)))
			m := fmt.Sprintf("marker-%d", n)
			claims := append(docClaims(e, id, m, false), c11Claim{What: "new attachment readable", Chk: func() (bool, string) {
				r := e.admin("GET", "/{{.keyspace}}/"+id+"/a.txt", "")
				return r.Code == 200 && r.Body.String() == fmt.Sprintf("second-attachment-%d", n), fmt.Sprintf("GET att -> %d %q", r.Code, r.Body.String())
			}})
			return func() *TestResponse {
					return e.admin("PUT", "/{{.keyspace}}/"+id+"?rev="+rev, `{"ch":["A"],"m":"`+m+`","_attachments":{"a.txt":{"data":"`+att2+`"}}}`)
				},
				func() string { return e.observeDoc(id) + e.admin("GET", "/{{.keyspace}}/"+id+"/a.txt", "").Body.String() }, claims
		}},
		{Name: "doc-update-granting-access", Prepare: func(e *c11Env, n int) (func() *TestResponse, func() string, []c11Claim) {
			id := fmt.Sprintf("c11doc%d", n)
			user := fmt.Sprintf("c11u%d", n)
			e.mustAdmin("PUT", "/{{.db}}/_user/"+user, `{"password":"letmein","admin_channels":["own"]}`, 201)
			rev := c11Rev(e.mustAdmin("PUT", "/{{.keyspace}}/"+id, `{"ch":["A"],"m":"old"}`, 201))
			// make sure the user's channels are computed (and cached on the principal document) before the grant
			e.mustAdmin("GET", "/{{.db}}/_user/"+user, "", 200)
			m := fmt.Sprintf("marker-%d", n)
			gch := fmt.Sprintf("granted%d", n)
			claims := append(docClaims(e, id, m, false), userHasChannel(e, user, gch, true))
			return func() *TestResponse {
					return e.admin("PUT", "/{{.keyspace}}/"+id+"?rev="+rev, `{"ch":["A"],"m":"`+m+`","grant":"`+user+`","grantch":"`+gch+`"}`)
				},
				func() string { return e.observeDoc(id) + e.observeUser(user) }, claims
		}},
		{Name: "doc-update-revoking-access", Prepare: func(e *c11Env, n int) (func() *TestResponse, func() string, []c11Claim) {
			id := fmt.Sprintf("c11doc%d", n)
			user := fmt.Sprintf("c11u%d", n)
			gch := fmt.Sprintf("granted%d", n)
			e.mustAdmin("PUT", "/{{.db}}/_user/"+user, `{"password":"letmein","admin_channels":["own"]}`, 201)
			rev := c11Rev(e.mustAdmin("PUT", "/{{.keyspace}}/"+id, `{"ch":["A"],"m":"old","grant":"`+user+`","grantch":"`+gch+`"}`, 201))
			e.mustAdmin("GET", "/{{.db}}/_user/"+user, "", 200)
			m := fmt.Sprintf("marker-%d", n)
			claims := append(docClaims(e, id, m, false), userHasChannel(e, user, gch, false))
			return func() *TestResponse {
					return e.admin("PUT", "/{{.keyspace}}/"+id+"?rev="+rev, `{"ch":["A"],"m":"`+m+`"}`)
				},
				func() string { return e.observeDoc(id) + e.observeUser(user) }, claims
		}},
		{Name: "import-on-read", Prepare: func(e *c11Env, n int) (func() *TestResponse, func() string, []c11Claim) {
			// an external application writes the document directly; the first gateway read imports it
			id := fmt.Sprintf("c11ext%d", n)
			m := fmt.Sprintf("marker-%d", n)
			ds := e.rawDS(e.rt.GetSingleDataStore().GetName())
			if err := ds.SetRaw(context.Background(), id, 0, nil, []byte(`{"ch":["A"],"m":"`+m+`"}`)); err != nil {
				e.t.Fatalf("external write: %v", err)
			}
			return func() *TestResponse { return e.admin("GET", "/{{.keyspace}}/"+id, "") },
				func() string { return "" }, // any later read would import: only the raw state is compared for this request type
				[]c11Claim{{What: "imported document readable with a revision", Chk: func() (bool, string) {
					r := e.admin("GET", "/{{.keyspace}}/"+id, "")
					return r.Code == 200 && strings.Contains(r.Body.String(), m) && strings.Contains(r.Body.String(), `"_rev":"1-`), fmt.Sprintf("GET -> %d %s", r.Code, r.Body.String())
				}}}
		}},
		{Name: "import-on-write", Prepare: func(e *c11Env, n int) (func() *TestResponse, func() string, []c11Claim) {
			// gateway document, then an external update; the next gateway write has to import it first
			id := fmt.Sprintf("c11ext%d", n)
			e.mustAdmin("PUT", "/{{.keyspace}}/"+id, `{"ch":["A"],"m":"old"}`, 201)
			ds := e.rawDS(e.rt.GetSingleDataStore().GetName())
			if err := ds.SetRaw(context.Background(), id, 0, nil, []byte(`{"ch":["A"],"m":"external"}`)); err != nil {
				e.t.Fatalf("external write: %v", err)
			}
			m := fmt.Sprintf("marker-%d", n)
			return func() *TestResponse {
					// the writer does not know the imported revision: a blind write must be refused (409) without damage,
					// or accepted on top of the import
					return e.admin("PUT", "/{{.keyspace}}/"+id, `{"ch":["A"],"m":"`+m+`"}`)
				},
				func() string { return "" },
				[]c11Claim{{What: "written document readable", Chk: func() (bool, string) {
					r := e.admin("GET", "/{{.keyspace}}/"+id, "")
					return r.Code == 200 && strings.Contains(r.Body.String(), m), fmt.Sprintf("GET -> %d %s", r.Code, r.Body.String())
				}}}
		}},
		{Name: "user-create", Prepare: func(e *c11Env, n int) (func() *TestResponse, func() string, []c11Claim) {
			user := fmt.Sprintf("c11u%d", n)
			return func() *TestResponse {
					return e.admin("PUT", "/{{.db}}/_user/"+user, `{"password":"letmein","admin_channels":["A"],"email":"`+user+`@example.com"}`)
				},
				func() string { return e.observeUser(user) }, []c11Claim{userHasChannel(e, user, "A", true), userByEmail(e, user, user+"@example.com")}
		}},
		{Name: "user-update-channels-email", Prepare: func(e *c11Env, n int) (func() *TestResponse, func() string, []c11Claim) {
			user := fmt.Sprintf("c11u%d", n)
			e.mustAdmin("PUT", "/{{.db}}/_user/"+user, `{"password":"letmein","admin_channels":["A"]}`, 201)
			return func() *TestResponse {
					return e.admin("PUT", "/{{.db}}/_user/"+user, `{"admin_channels":["B"],"email":"`+user+`@example.org"}`)
				},
				func() string { return e.observeUser(user) }, []c11Claim{userHasChannel(e, user, "B", true), userHasChannel(e, user, "A", false), userByEmail(e, user, user+"@example.org")}
		}},
		{Name: "user-delete", Prepare: func(e *c11Env, n int) (func() *TestResponse, func() string, []c11Claim) {
			user := fmt.Sprintf("c11u%d", n)
			e.mustAdmin("PUT", "/{{.db}}/_user/"+user, `{"password":"letmein","admin_channels":["A"]}`, 201)
			return func() *TestResponse { return e.admin("DELETE", "/{{.db}}/_user/"+user, "") },
				func() string { return e.observeUser(user) }, []c11Claim{{What: "user gone", Chk: func() (bool, string) {
					r := e.admin("GET", "/{{.db}}/_user/"+user, "")
					return r.Code == 404, fmt.Sprintf("GET _user -> %d", r.Code)
				}}}
		}},
		{Name: "role-create", Prepare: func(e *c11Env, n int) (func() *TestResponse, func() string, []c11Claim) {
			role := fmt.Sprintf("c11r%d", n)
			return func() *TestResponse {
					return e.admin("PUT", "/{{.db}}/_role/"+role, `{"admin_channels":["R"]}`)
				},
				func() string { return e.observeRole(role) }, []c11Claim{{What: "role readable", Chk: func() (bool, string) {
					r := e.admin("GET", "/{{.db}}/_role/"+role, "")
					return r.Code == 200 && strings.Contains(r.Body.String(), `"R"`), fmt.Sprintf("GET _role -> %d %s", r.Code, r.Body.String())
				}}}
		}},
		{Name: "role-delete", Prepare: func(e *c11Env, n int) (func() *TestResponse, func() string, []c11Claim) {
			role := fmt.Sprintf("c11r%d", n)
			user := fmt.Sprintf("c11u%d", n)
			e.mustAdmin("PUT", "/{{.db}}/_role/"+role, `{"admin_channels":["R`+fmt.Sprint(n)+`"]}`, 201)
			e.mustAdmin("PUT", "/{{.db}}/_user/"+user, `{"password":"letmein","admin_roles":["`+role+`"]}`, 201)
			e.mustAdmin("GET", "/{{.db}}/_user/"+user, "", 200)
			return func() *TestResponse { return e.admin("DELETE", "/{{.db}}/_role/"+role, "") },
				func() string { return e.observeRole(role) + e.observeUser(user) }, []c11Claim{
					{What: "role gone", Chk: func() (bool, string) {
						r := e.admin("GET", "/{{.db}}/_role/"+role, "")
						return r.Code == 404, fmt.Sprintf("GET _role -> %d %s", r.Code, r.Body.String())
					}},
					userHasChannel(e, user, "R"+fmt.Sprint(n), false),
				}
		}},
		{Name: "session-create", Prepare: func(e *c11Env, n int) (func() *TestResponse, func() string, []c11Claim) {
			user := fmt.Sprintf("c11u%d", n)
			e.mustAdmin("PUT", "/{{.db}}/_user/"+user, `{"password":"letmein","admin_channels":["A"]}`, 201)
			var sid string
			return func() *TestResponse {
					r := e.admin("POST", "/{{.db}}/_session", `{"name":"`+user+`","ttl":600}`)
					var s struct {
						ID string `json:"session_id"`
					}
					_ = json.Unmarshal(r.Body.Bytes(), &s)
					sid = s.ID
					return r
				},
				func() string { return e.observeUser(user) }, []c11Claim{{What: "session usable", Chk: func() (bool, string) {
					r := e.admin("GET", "/{{.db}}/_session/"+sid, "")
					return sid != "" && r.Code == 200, fmt.Sprintf("GET _session/%s -> %d", sid, r.Code)
				}}}
		}},
		{Name: "session-delete-user-scoped-for-disabled-user", Prepare: func(e *c11Env, n int) (func() *TestResponse, func() string, []c11Claim) {
			user := fmt.Sprintf("c11u%d", n)
			e.mustAdmin("PUT", "/{{.db}}/_user/"+user, `{"password":"letmein","admin_channels":["A"]}`, 201)
			r := e.mustAdmin("POST", "/{{.db}}/_session", `{"name":"`+user+`","ttl":600}`, 200)
			var s struct {
				ID string `json:"session_id"`
			}
			_ = json.Unmarshal(r.Body.Bytes(), &s)
			e.mustAdmin("PUT", "/{{.db}}/_user/"+user, `{"disabled":true}`, 200)
			sessionDocExists := func() bool {
				a := e.rt.GetDatabase().Authenticator(e.rt.Context())
				ok, _ := e.rawDS(e.rt.GetDatabase().MetadataStore.GetName()).Exists(context.Background(), a.DocIDForSession(s.ID))
				return ok
			}
			return func() *TestResponse { return e.admin("DELETE", "/{{.db}}/_user/"+user+"/_session/"+s.ID, "") },
				func() string { return fmt.Sprintf("session document exists: %v", sessionDocExists()) },
				[]c11Claim{{What: "a session delete reported successful removed the session (it must not work again when the user is re-enabled)", Chk: func() (bool, string) {
					return !sessionDocExists(), fmt.Sprintf("session document still exists: %v", sessionDocExists())
				}}}
		}},
		{Name: "doc-resurrect", Prepare: func(e *c11Env, n int) (func() *TestResponse, func() string, []c11Claim) {
			id := fmt.Sprintf("c11doc%d", n)
			rev := c11Rev(e.mustAdmin("PUT", "/{{.keyspace}}/"+id, `{"ch":["A"],"m":"old"}`, 201))
			e.mustAdmin("DELETE", "/{{.keyspace}}/"+id+"?rev="+rev, "", 200)
			m := fmt.Sprintf("marker-%d", n)
			return func() *TestResponse { return e.admin("PUT", "/{{.keyspace}}/"+id, `{"ch":["B"],"m":"`+m+`"}`) },
				func() string { return e.observeDoc(id) }, docClaims(e, id, m, false)
		}},
		{Name: "doc-delete-with-attachment", Prepare: func(e *c11Env, n int) (func() *TestResponse, func() string, []c11Claim) {
			id := fmt.Sprintf("c11doc%d", n)
			rev := c11Rev(e.mustAdmin("PUT", "/{{.keyspace}}/"+id, `{"ch":["A"],"m":"old","_attachments":{"a.txt":{"data":"`+att+`"}}}`, 201))
			return func() *TestResponse { return e.admin("DELETE", "/{{.keyspace}}/"+id+"?rev="+rev, "") },
				func() string {
					return e.observeDoc(id) + e.admin("GET", "/{{.keyspace}}/"+id+"/a.txt", "").Body.String()
				}, docClaims(e, id, "", true)
		}},
		{Name: "attachment-put", Prepare: func(e *c11Env, n int) (func() *TestResponse, func() string, []c11Claim) {
			id := fmt.Sprintf("c11doc%d", n)
			rev := c11Rev(e.mustAdmin("PUT", "/{{.keyspace}}/"+id, `{"ch":["A"],"m":"keep-`+fmt.Sprint(n)+`","_attachments":{"a.txt":{"data":"`+att+`"}}}`, 201))
			content := fmt.Sprintf("put-attachment-%d", n)
			claims := append(docClaims(e, id, "keep-"+fmt.Sprint(n), false),
				c11Claim{What: "new attachment readable", Chk: func() (bool, string) {
					r := e.admin("GET", "/{{.keyspace}}/"+id+"/b.bin", "")
					return r.Code == 200 && r.Body.String() == content, fmt.Sprintf("GET b.bin -> %d %q", r.Code, r.Body.String())
				}},
				c11Claim{What: "attachment carried over still readable", Chk: func() (bool, string) {
					r := e.admin("GET", "/{{.keyspace}}/"+id+"/a.txt", "")
					return r.Code == 200 && r.Body.String() == "attachment-bytes-0123456789", fmt.Sprintf("GET a.txt -> %d %q", r.Code, r.Body.String())
				}})
			return func() *TestResponse {
					return e.rt.SendAdminRequestWithHeaders("PUT", "/{{.keyspace}}/"+id+"/b.bin?rev="+rev, content, map[string]string{"Content-Type": "application/octet-stream"})
				},
				func() string {
					return e.observeDoc(id) + e.admin("GET", "/{{.keyspace}}/"+id+"/a.txt", "").Body.String() + fmt.Sprint(e.admin("GET", "/{{.keyspace}}/"+id+"/b.bin", "").Code)
				}, claims
		}},
		{Name: "attachment-delete", Prepare: func(e *c11Env, n int) (func() *TestResponse, func() string, []c11Claim) {
			id := fmt.Sprintf("c11doc%d", n)
			rev := c11Rev(e.mustAdmin("PUT", "/{{.keyspace}}/"+id, `{"ch":["A"],"m":"keep-`+fmt.Sprint(n)+`","_attachments":{"a.txt":{"data":"`+att+`"}}}`, 201))
			claims := append(docClaims(e, id, "keep-"+fmt.Sprint(n), false), c11Claim{What: "attachment gone", Chk: func() (bool, string) {
				r := e.admin("GET", "/{{.keyspace}}/"+id+"/a.txt", "")
				return r.Code == 404, fmt.Sprintf("GET a.txt -> %d", r.Code)
			}})
			return func() *TestResponse { return e.admin("DELETE", "/{{.keyspace}}/"+id+"/a.txt?rev="+rev, "") },
				func() string {
					return e.observeDoc(id) + e.admin("GET", "/{{.keyspace}}/"+id+"/a.txt", "").Body.String()
				}, claims
		}},
		{Name: "bulk-docs-one-document", Prepare: func(e *c11Env, n int) (func() *TestResponse, func() string, []c11Claim) {
			// _bulk_docs answers 201 with one row per document: the row is the report ("error" in the row = failure)
			id := fmt.Sprintf("c11doc%d", n)
			rev := c11Rev(e.mustAdmin("PUT", "/{{.keyspace}}/"+id, `{"ch":["A"],"m":"old"}`, 201))
			m := fmt.Sprintf("marker-%d", n)
			return func() *TestResponse {
					r := e.admin("POST", "/{{.keyspace}}/_bulk_docs", `{"docs":[{"_id":"`+id+`","_rev":"`+rev+`","ch":["B"],"m":"`+m+`"}]}`)
					var rows []map[string]any
					if r.Code == 201 && (json.Unmarshal(r.Body.Bytes(), &rows) != nil || len(rows) != 1 || rows[0]["error"] != nil || rows[0]["rev"] == nil) {
						r.Code = 500 // the row reports a failure (or no row at all): not a success report for this document
					}
					return r
				},
				func() string { return e.observeDoc(id) }, docClaims(e, id, m, false)
		}},
		{Name: "doc-purge", Prepare: func(e *c11Env, n int) (func() *TestResponse, func() string, []c11Claim) {
			// _purge answers 200 and lists the documents it purged: the listing is the report
			id := fmt.Sprintf("c11doc%d", n)
			e.mustAdmin("PUT", "/{{.keyspace}}/"+id, `{"ch":["A"],"m":"old"}`, 201)
			return func() *TestResponse {
					r := e.admin("POST", "/{{.keyspace}}/_purge", `{"`+id+`":["*"]}`)
					if r.Code == 200 && !strings.Contains(r.Body.String(), `"`+id+`"`) {
						r.Code = 500
					}
					return r
				},
				func() string { return e.observeDoc(id) }, []c11Claim{{What: "purged document gone (also from storage)", Chk: func() (bool, string) {
					// (purge deliberately leaves the _vv / _mou xattrs on the tombstone: only the gateway's own metadata must be gone)
					g := e.admin("GET", "/{{.keyspace}}/"+id, "")
					r := e.admin("GET", "/{{.keyspace}}/_raw/"+id+"?redact=false", "")
					return g.Code == 404 && (r.Code == 404 || !strings.Contains(r.Body.String(), `"_sync":{`)), fmt.Sprintf("GET -> %d, GET _raw -> %d %s", g.Code, r.Code, r.Body.String())
				}}}
		}},
		{Name: "doc-update-granting-role", Prepare: func(e *c11Env, n int) (func() *TestResponse, func() string, []c11Claim) {
			id := fmt.Sprintf("c11doc%d", n)
			user := fmt.Sprintf("c11u%d", n)
			role := fmt.Sprintf("c11r%d", n)
			rch := fmt.Sprintf("viarole%d", n)
			e.mustAdmin("PUT", "/{{.db}}/_role/"+role, `{"admin_channels":["`+rch+`"]}`, 201)
			e.mustAdmin("PUT", "/{{.db}}/_user/"+user, `{"password":"letmein","admin_channels":["own"]}`, 201)
			rev := c11Rev(e.mustAdmin("PUT", "/{{.keyspace}}/"+id, `{"ch":["A"],"m":"old"}`, 201))
			e.mustAdmin("GET", "/{{.db}}/_user/"+user, "", 200)
			m := fmt.Sprintf("marker-%d", n)
			claims := append(docClaims(e, id, m, false), userHasChannel(e, user, rch, true))
			return func() *TestResponse {
					return e.admin("PUT", "/{{.keyspace}}/"+id+"?rev="+rev, `{"ch":["A"],"m":"`+m+`","grant":"`+user+`","grantrole":"`+role+`"}`)
				},
				func() string { return e.observeDoc(id) + e.observeUser(user) }, claims
		}},
		{Name: "doc-delete-revoking-role", Prepare: func(e *c11Env, n int) (func() *TestResponse, func() string, []c11Claim) {
			id := fmt.Sprintf("c11doc%d", n)
			user := fmt.Sprintf("c11u%d", n)
			role := fmt.Sprintf("c11r%d", n)
			rch := fmt.Sprintf("viarole%d", n)
			e.mustAdmin("PUT", "/{{.db}}/_role/"+role, `{"admin_channels":["`+rch+`"]}`, 201)
			e.mustAdmin("PUT", "/{{.db}}/_user/"+user, `{"password":"letmein","admin_channels":["own"]}`, 201)
			rev := c11Rev(e.mustAdmin("PUT", "/{{.keyspace}}/"+id, `{"ch":["A"],"m":"old","grant":"`+user+`","grantrole":"`+role+`"}`, 201))
			e.mustAdmin("GET", "/{{.db}}/_user/"+user, "", 200)
			claims := append(docClaims(e, id, "", true), userHasChannel(e, user, rch, false))
			return func() *TestResponse { return e.admin("DELETE", "/{{.keyspace}}/"+id+"?rev="+rev, "") },
				func() string { return e.observeDoc(id) + e.observeUser(user) }, claims
		}},
		{Name: "user-update-password", Prepare: func(e *c11Env, n int) (func() *TestResponse, func() string, []c11Claim) {
			user := fmt.Sprintf("c11u%d", n)
			e.mustAdmin("PUT", "/{{.db}}/_user/"+user, `{"password":"letmein","admin_channels":["A"]}`, 201)
			newpw := fmt.Sprintf("changed-%d", n)
			auth := func(pw string) int {
				return e.rt.SendUserRequestWithHeaders("GET", "/{{.db}}/", "", nil, user, pw).Code
			}
			return func() *TestResponse { return e.admin("PUT", "/{{.db}}/_user/"+user, `{"password":"`+newpw+`"}`) },
				func() string {
					return e.observeUser(user) + fmt.Sprintf("old password -> %d, new password -> %d", auth("letmein"), auth(newpw))
				}, []c11Claim{
					{What: "new password authenticates", Chk: func() (bool, string) { c := auth(newpw); return c == 200, fmt.Sprintf("GET / with the new password -> %d", c) }},
					{What: "old password refused", Chk: func() (bool, string) { c := auth("letmein"); return c == 401, fmt.Sprintf("GET / with the old password -> %d", c) }},
				}
		}},
		{Name: "user-update-roles", Prepare: func(e *c11Env, n int) (func() *TestResponse, func() string, []c11Claim) {
			user := fmt.Sprintf("c11u%d", n)
			r1, r2 := fmt.Sprintf("c11r%da", n), fmt.Sprintf("c11r%db", n)
			e.mustAdmin("PUT", "/{{.db}}/_role/"+r1, `{"admin_channels":["via`+r1+`"]}`, 201)
			e.mustAdmin("PUT", "/{{.db}}/_role/"+r2, `{"admin_channels":["via`+r2+`"]}`, 201)
			e.mustAdmin("PUT", "/{{.db}}/_user/"+user, `{"password":"letmein","admin_roles":["`+r1+`"]}`, 201)
			e.mustAdmin("GET", "/{{.db}}/_user/"+user, "", 200)
			return func() *TestResponse { return e.admin("PUT", "/{{.db}}/_user/"+user, `{"admin_roles":["`+r2+`"]}`) },
				func() string { return e.observeUser(user) }, []c11Claim{userHasChannel(e, user, "via"+r2, true), userHasChannel(e, user, "via"+r1, false)}
		}},
		{Name: "role-update-channels", Prepare: func(e *c11Env, n int) (func() *TestResponse, func() string, []c11Claim) {
			role := fmt.Sprintf("c11r%d", n)
			user := fmt.Sprintf("c11u%d", n)
			e.mustAdmin("PUT", "/{{.db}}/_role/"+role, `{"admin_channels":["before`+fmt.Sprint(n)+`"]}`, 201)
			e.mustAdmin("PUT", "/{{.db}}/_user/"+user, `{"password":"letmein","admin_roles":["`+role+`"]}`, 201)
			e.mustAdmin("GET", "/{{.db}}/_user/"+user, "", 200)
			return func() *TestResponse {
					return e.admin("PUT", "/{{.db}}/_role/"+role, `{"admin_channels":["after`+fmt.Sprint(n)+`"]}`)
				},
				func() string { return e.observeRole(role) + e.observeUser(user) }, []c11Claim{
					userHasChannel(e, user, "after"+fmt.Sprint(n), true), userHasChannel(e, user, "before"+fmt.Sprint(n), false)}
		}},
		{Name: "local-doc-put", Prepare: func(e *c11Env, n int) (func() *TestResponse, func() string, []c11Claim) {
			id := fmt.Sprintf("c11loc%d", n)
			m := fmt.Sprintf("marker-%d", n)
			return func() *TestResponse { return e.admin("PUT", "/{{.keyspace}}/_local/"+id, `{"m":"`+m+`"}`) },
				func() string { r := e.admin("GET", "/{{.keyspace}}/_local/"+id, ""); return fmt.Sprintf("%d %s", r.Code, r.Body.String()) },
				[]c11Claim{{What: "local document readable", Chk: func() (bool, string) {
					r := e.admin("GET", "/{{.keyspace}}/_local/"+id, "")
					return r.Code == 200 && strings.Contains(r.Body.String(), m), fmt.Sprintf("GET _local -> %d %s", r.Code, r.Body.String())
				}}}
		}},
		{Name: "local-doc-update", Prepare: func(e *c11Env, n int) (func() *TestResponse, func() string, []c11Claim) {
			id := fmt.Sprintf("c11loc%d", n)
			rev := c11Rev(e.mustAdmin("PUT", "/{{.keyspace}}/_local/"+id, `{"m":"old"}`, 201))
			m := fmt.Sprintf("marker-%d", n)
			return func() *TestResponse {
					return e.admin("PUT", "/{{.keyspace}}/_local/"+id, `{"_rev":"`+rev+`","m":"`+m+`"}`)
				},
				func() string { r := e.admin("GET", "/{{.keyspace}}/_local/"+id, ""); return fmt.Sprintf("%d %s", r.Code, r.Body.String()) },
				[]c11Claim{{What: "local document readable with the new body", Chk: func() (bool, string) {
					r := e.admin("GET", "/{{.keyspace}}/_local/"+id, "")
					return r.Code == 200 && strings.Contains(r.Body.String(), m), fmt.Sprintf("GET _local -> %d %s", r.Code, r.Body.String())
				}}}
		}},
		{Name: "local-doc-delete", Prepare: func(e *c11Env, n int) (func() *TestResponse, func() string, []c11Claim) {
			id := fmt.Sprintf("c11loc%d", n)
			rev := c11Rev(e.mustAdmin("PUT", "/{{.keyspace}}/_local/"+id, `{"m":"old"}`, 201))
			return func() *TestResponse { return e.admin("DELETE", "/{{.keyspace}}/_local/"+id+"?rev="+rev, "") },
				func() string { r := e.admin("GET", "/{{.keyspace}}/_local/"+id, ""); return fmt.Sprintf("%d %s", r.Code, r.Body.String()) },
				[]c11Claim{{What: "local document gone", Chk: func() (bool, string) {
					r := e.admin("GET", "/{{.keyspace}}/_local/"+id, "")
					return r.Code == 404, fmt.Sprintf("GET _local -> %d", r.Code)
				}}}
		}},
		{Name: "session-delete", Prepare: func(e *c11Env, n int) (func() *TestResponse, func() string, []c11Claim) {
			user := fmt.Sprintf("c11u%d", n)
			e.mustAdmin("PUT", "/{{.db}}/_user/"+user, `{"password":"letmein","admin_channels":["A"]}`, 201)
			r := e.mustAdmin("POST", "/{{.db}}/_session", `{"name":"`+user+`","ttl":600}`, 200)
			var s struct {
				ID string `json:"session_id"`
			}
			_ = json.Unmarshal(r.Body.Bytes(), &s)
			return func() *TestResponse { return e.admin("DELETE", "/{{.db}}/_session/"+s.ID, "") },
				func() string {
					g := e.admin("GET", "/{{.db}}/_session/"+s.ID, "")
					return fmt.Sprintf("_session -> %d", g.Code)
				}, []c11Claim{{What: "session gone", Chk: func() (bool, string) {
					g := e.admin("GET", "/{{.db}}/_session/"+s.ID, "")
					return g.Code == 404, fmt.Sprintf("GET _session -> %d", g.Code)
				}}}
		}},
	}
}

// request types that need a conflict-allowing database
func c11ConflictRequests() []c11Request {
	docClaims := func(e *c11Env, id, marker string, deleted bool) []c11Claim {
		return []c11Claim{{What: "document readable with the written body", Chk: func() (bool, string) {
			r := e.admin("GET", "/{{.keyspace}}/"+id, "")
			return r.Code == 200 && strings.Contains(r.Body.String(), marker), fmt.Sprintf("GET -> %d %.200s", r.Code, r.Body.String())
		}}}
	}
	return []c11Request{
		{Name: "push-conflicting-winner-over-large-body", Prepare: func(e *c11Env, n int) (func() *TestResponse, func() string, []c11Claim) {
			// the current revision (body too large to stay inline in the revision tree) becomes a non-winning leaf:
			// its body is moved to a document of its own before the write commits
			id := fmt.Sprintf("c11doc%d", n)
			rev1 := c11Rev(e.mustAdmin("PUT", "/{{.keyspace}}/"+id, `{"ch":["A"],"m":"first"}`, 201))
			oldm := fmt.Sprintf("loser-%d-", n) + strings.Repeat("x", 300)
			rev2 := c11Rev(e.mustAdmin("PUT", "/{{.keyspace}}/"+id+"?rev="+rev1, `{"ch":["A"],"m":"`+oldm+`"}`, 201))
			m := fmt.Sprintf("marker-%d", n)
			claims := append(docClaims(e, id, m, false), c11Claim{What: "the leaf that stopped being current is still readable by revision", Chk: func() (bool, string) {
				r := e.admin("GET", "/{{.keyspace}}/"+id+"?rev="+rev2, "")
				return r.Code == 200 && strings.Contains(r.Body.String(), oldm), fmt.Sprintf("GET ?rev=%s -> %d %.120s", rev2, r.Code, r.Body.String())
			}})
			return func() *TestResponse {
					return e.admin("PUT", "/{{.keyspace}}/"+id+"?new_edits=false", `{"ch":["B"],"m":"`+m+`","_rev":"2-zzzzzzzz","_revisions":{"start":2,"ids":["zzzzzzzz","`+strings.SplitN(rev1, "-", 2)[1]+`"]}}`)
				},
				func() string { return e.observeDoc(id) + e.admin("GET", "/{{.keyspace}}/"+id+"?rev="+rev2, "").Body.String() }, claims
		}},
		{Name: "push-conflicting-loser-with-large-body", Prepare: func(e *c11Env, n int) (func() *TestResponse, func() string, []c11Claim) {
			// a pushed revision that does not become current, with a body too large to stay inline in the revision tree
			id := fmt.Sprintf("c11doc%d", n)
			rev1 := c11Rev(e.mustAdmin("PUT", "/{{.keyspace}}/"+id, `{"ch":["A"],"m":"first"}`, 201))
			e.mustAdmin("PUT", "/{{.keyspace}}/"+id+"?rev="+rev1, `{"ch":["A"],"m":"winner-`+fmt.Sprint(n)+`"}`, 201)
			m := fmt.Sprintf("marker-%d-", n) + strings.Repeat("y", 300)
			claims := append(docClaims(e, id, "winner-"+fmt.Sprint(n), false), c11Claim{What: "the pushed non-winning leaf is readable by revision", Chk: func() (bool, string) {
				r := e.admin("GET", "/{{.keyspace}}/"+id+"?rev=2-00000000", "")
				return r.Code == 200 && strings.Contains(r.Body.String(), m), fmt.Sprintf("GET ?rev=2-00000000 -> %d %.120s", r.Code, r.Body.String())
			}})
			return func() *TestResponse {
					return e.admin("PUT", "/{{.keyspace}}/"+id+"?new_edits=false", `{"ch":["B"],"m":"`+m+`","_rev":"2-00000000","_revisions":{"start":2,"ids":["00000000","`+strings.SplitN(rev1, "-", 2)[1]+`"]}}`)
				},
				func() string { return e.observeDoc(id) + e.admin("GET", "/{{.keyspace}}/"+id+"?rev=2-00000000", "").Body.String() }, claims
		}},
	}
}

// zero-fault rejection rows: requests that must be refused and leave no trace
func c11Rejections() []c11Request {
	mk := func(name, body string, withParent bool, asUser bool, want int) c11Request {
		return c11Request{Name: name, Prepare: func(e *c11Env, n int) (func() *TestResponse, func() string, []c11Claim) {
			id := fmt.Sprintf("c11doc%d", n)
			user := fmt.Sprintf("c11u%d", n)
			e.mustAdmin("PUT", "/{{.db}}/_user/"+user, `{"password":"letmein","admin_channels":["A"]}`, 201)
			rev := c11Rev(e.mustAdmin("PUT", "/{{.keyspace}}/"+id, `{"ch":["A"],"m":"old"}`, 201))
			path := "/{{.keyspace}}/" + id
			if withParent {
				path += "?rev=" + rev
			}
			b := strings.ReplaceAll(body, "USER", user)
			return func() *TestResponse {
					if asUser {
						return e.rt.SendUserRequest("PUT", path, b, user)
					}
					return e.admin("PUT", path, b)
				},
				func() string { return e.observeDoc(id) + e.observeUser(user) }, []c11Claim{{What: fmt.Sprintf("status %d", want), Chk: func() (bool, string) { return false, "a rejection must not succeed" }}}
		}}
	}
	// a refused update of an existing user / role (validation) must leave the principal and everything derived from it as it was
	mkp := func(name, kind, body string) c11Request {
		return c11Request{Name: name, Prepare: func(e *c11Env, n int) (func() *TestResponse, func() string, []c11Claim) {
			user := fmt.Sprintf("c11u%d", n)
			role := fmt.Sprintf("c11r%d", n)
			e.mustAdmin("PUT", "/{{.db}}/_role/"+role, `{"admin_channels":["R"]}`, 201)
			e.mustAdmin("PUT", "/{{.db}}/_user/"+user, `{"password":"letmein","admin_channels":["A"],"admin_roles":["`+role+`"],"email":"`+user+`@example.com"}`, 201)
			e.mustAdmin("GET", "/{{.db}}/_user/"+user, "", 200)
			target := user
			if kind == "_role" {
				target = role
			}
			return func() *TestResponse { return e.admin("PUT", "/{{.db}}/"+kind+"/"+target, body) },
				func() string { return e.observeUser(user) + e.observeRole(role) }, []c11Claim{{What: "refused", Chk: func() (bool, string) { return false, "a rejection must not succeed" }}}
		}}
	}
	return []c11Request{
		mk("reject-sync-throw", `{"ch":["B"],"m":"new","reject":"throw","grant":"USER","grantch":"stolen"}`, true, false, 403),
		mk("reject-requireUser", `{"ch":["B"],"m":"new","reject":"requireUser","grant":"USER","grantch":"stolen"}`, true, true, 403),
		mk("reject-requireRole", `{"ch":["B"],"m":"new","reject":"requireRole"}`, true, true, 403),
		mk("reject-requireAccess", `{"ch":["B"],"m":"new","reject":"requireAccess"}`, true, true, 403),
		mk("reject-conflict-no-parent", `{"ch":["B"],"m":"new","grant":"USER","grantch":"stolen"}`, false, false, 409),
		mk("reject-invalid-reserved-property", `{"ch":["B"],"m":"new","_sync":{"x":1}}`, true, false, 400),
		mk("reject-if-refused-attachment-stub-without-data", `{"ch":["B"],"m":"new","grant":"USER","grantch":"stolen","_attachments":{"ghost.bin":{"stub":true,"revpos":1,"digest":"sha1-2jmj7l5rSw0yVb/vlWAYkK/YBwk="}}}`, true, false, 400),
		mk("reject-if-refused-attachment-data-not-base64", `{"ch":["B"],"m":"new","grant":"USER","grantch":"stolen","_attachments":{"bad.bin":{"data":"%%%not-base64%%%"}}}`, true, false, 400),
		mk("reject-wrong-parent-revision", `{"ch":["B"],"m":"new","grant":"USER","grantch":"stolen","_rev":"1-0000000000000000"}`, false, false, 409),
		mk("reject-if-refused-expiry-not-a-number-or-date", `{"ch":["B"],"m":"new","grant":"USER","grantch":"stolen","_exp":"not-a-date"}`, true, false, 400),
		mkp("reject-if-refused-user-update-invalid-email", "_user", `{"admin_channels":["Z1","Z2"],"email":"not an e-mail address"}`),
		mkp("reject-if-refused-user-update-invalid-role-name", "_user", `{"admin_channels":["Z1"],"admin_roles":["bad,role:name"]}`),
		mkp("reject-if-refused-user-update-name-mismatch", "_user", `{"name":"somebody-else","admin_channels":["Z1"]}`),
		mkp("reject-if-refused-user-update-body-not-an-object", "_user", `["admin_channels","Z1"]`),
		mkp("reject-if-refused-role-update-name-mismatch", "_role", `{"name":"some-other-role","admin_channels":["Z1"]}`),
		mkp("reject-if-refused-role-update-body-not-an-object", "_role", `"admin_channels"`),
	}
}

func TestVerif_C11_Faults(t *testing.T) {
	run := vlib.Start(t, "C11", "rest-faults")
	defer run.Finish()
	c11RunRequests(t, run, false, append(c11Requests(), c11Rejections()...))
	c11RunRequests(t, run, true, c11ConflictRequests())
}

func c11RunRequests(t *testing.T, run *vlib.Run, allowConflicts bool, requests []c11Request) {
	vs := newVStore(t)
	rt := NewRestTesterDefaultCollection(t, &RestTesterConfig{SyncFn: c11SyncFn, CustomTestBucket: vs.vtb})
	defer rt.Close()
	_ = rt.Bucket()
	if allowConflicts {
		rt.GetDatabase().EnableAllowConflicts(t)
	}
	e := &c11Env{t: t, run: run, vs: vs, rt: rt, faultAt: -1, fault2At: -1}
	vs.SetFault(e.pre_)
	vs.SetMid(func(op *base.VerifOp, actor string) error {
		e.mu.Lock()
		defer e.mu.Unlock()
		if e.gid != 0 && op.Gid == e.gid && e.casRetryFor == op.N && op.Attempt == 1 {
			e.casRetryFor = 0
			return base.ErrCasFailureShouldRetry
		}
		return nil
	})
	// warm up (creates views etc. outside measured requests)
	e.mustAdmin("PUT", "/{{.keyspace}}/warmup", `{"ch":["A"]}`, 201)

	kinds := []string{"error", "cas", "cas-persistent", "timeout-applied"}
	for _, rq := range requests {
		isRejection := strings.HasPrefix(rq.Name, "reject-")
		// fault-free run: the trace, and the request's baseline behaviour
		e.n++
		do, observe, claims := rq.Prepare(e, e.n)
		before := observe()
		resp, trace, _, pre := e.measure(-1, "", do)
		run.Eval()
		run.Count("storage_ops_in_fault_free_traces", len(trace))
		ok := resp.Code >= 200 && resp.Code < 300
		witness := func(extra map[string]any) map[string]any {
			w := map[string]any{"request": rq.Name, "status": resp.Code, "trace": trace}
			for k, v := range extra {
				w[k] = v
			}
			return w
		}
		if isRejection {
			if ok && strings.HasPrefix(rq.Name, "reject-if-refused-") {
				// whether the gateway refuses this input is its own business (it accepts some questionable inputs on purpose, e.g. it
				// skips an invalid e-mail address with a warning); the row only demands that a refusal leaves no trace
				run.Count("optional_rejection_rows_accepted", 1)
			} else if ok {
				run.Violation("rejection", "C11|"+rq.Name+"|rejected-write-was-accepted", fmt.Sprintf("status %d", resp.Code), witness(nil))
			} else {
				e.checkUnchanged(rq.Name, "none", before, observe(), pre, witness(nil))
			}
			run.Nontrivial(rq.Name + "/zero-fault")
			continue
		}
		if !ok && rq.Name == "session-delete-user-scoped-for-disabled-user" {
			// refusing is fine (the session of a disabled user is reported as not found); nothing may have changed
			e.checkUnchanged(rq.Name, "none", before, observe(), pre, witness(nil))
			run.Nontrivial(rq.Name + "/zero-fault")
			continue
		}
		if !ok && rq.Name == "import-on-write" {
			// a blind write on top of an un-imported external update is refused with a conflict: the external body must survive
			r := e.admin("GET", fmt.Sprintf("/{{.keyspace}}/c11ext%d", e.n), "")
			if r.Code != 200 || !strings.Contains(r.Body.String(), "external") {
				run.Violation("unchanged", "C11|import-on-write|fault=none|refused-write-damaged-the-external-update", fmt.Sprintf("PUT -> %d, then GET -> %d %s", resp.Code, r.Code, r.Body.String()), witness(nil))
			}
			run.Nontrivial(rq.Name + "/zero-fault")
			continue
		}
		if !ok {
			t.Fatalf("fault-free %s failed: %d %s", rq.Name, resp.Code, resp.Body.String())
		}
		for _, c := range claims {
			if good, detail := c.Chk(); !good {
				run.Violation("read-back", "C11|"+rq.Name+"|fault=none|success-not-visible", c.What+": "+detail, witness(nil))
			}
		}
		run.Sample(map[string]any{"request": rq.Name, "fault_free_trace": trace})
		// single faults
		for i := 0; i < len(trace); i++ {
			opKind := strings.SplitN(strings.SplitN(trace[i], ":", 2)[1], "(", 2)[0]
			for _, k := range kinds {
				if (k == "cas" || k == "cas-persistent") && !c11TakesCas(opKind) {
					continue
				}
				if k == "timeout-applied" && (strings.HasPrefix(opKind, "Get") || opKind == "Exists") {
					continue // a read that is applied and then reported failed is the same as error for state
				}
				e.n++
				do, observe, claims := rq.Prepare(e, e.n)
				before := observe()
				resp, ftrace, injected, pre := e.measure(i, k, do)
				run.Eval()
				if injected == "" {
					run.Count("fault_positions_not_reached", 1)
					continue
				}
				run.Count("faults_injected", 1)
				if k == "cas-persistent" {
					run.Count("persistent_cas_loss_faults_injected", 1)
					e.mu.Lock()
					run.Max("persistent_cas_losses_in_one_request", e.persistLosses)
					e.mu.Unlock()
				}
				run.Distinct("fault_sites", rq.Name+"|"+injected)
				run.Nontrivial(rq.Name + "|" + injected + "|" + fmt.Sprint(i))
				okf := resp.Code >= 200 && resp.Code < 300
				w := map[string]any{"request": rq.Name, "fault": injected, "fault_index": i, "status": resp.Code, "response": resp.Body.String(), "trace": ftrace}
				sig := "C11|" + rq.Name + "|fault=" + injected
				if okf {
					run.Count("requests_succeeded_despite_fault", 1)
					for _, c := range claims {
						if good, detail := c.Chk(); !good {
							run.Violation("read-back", sig+"|reported-success-but-not-visible", c.What+": "+detail, w)
						}
					}
				} else {
					run.Count("requests_failed_under_fault", 1)
					if k != "timeout-applied" {
						e.checkUnchanged(rq.Name, injected, before, observe(), pre, w)
					}
				}
			}
		}
		// pairs of faults (thorough tier): the first fault is an error or a lost compare-and-swap, the second an error
		if !run.Thorough() {
			continue
		}
		for i := 0; i < len(trace); i++ {
			opKind := strings.SplitN(strings.SplitN(trace[i], ":", 2)[1], "(", 2)[0]
			for _, k := range []string{"error", "cas"} {
				if k == "cas" && !c11TakesCas(opKind) {
					continue
				}
				// the second fault position is counted in the faulted run's own trace, which may be longer than the fault-free one (retries)
				for j := i + 1; j < len(trace)+4; j++ {
					e.n++
					do, observe, claims := rq.Prepare(e, e.n)
					before := observe()
					e.mu.Lock()
					e.fault2At = j
					e.mu.Unlock()
					resp, ftrace, injected, pre := e.measure(i, k, do)
					e.mu.Lock()
					injected2 := e.injected2
					e.fault2At = -1
					e.mu.Unlock()
					run.Eval()
					if injected == "" || injected2 == "" {
						run.Count("fault_pair_positions_not_reached", 1)
						continue
					}
					run.Count("fault_pairs_injected", 1)
					run.Nontrivial(fmt.Sprintf("%s|%s+%s|%d,%d", rq.Name, injected, injected2, i, j))
					okf := resp.Code >= 200 && resp.Code < 300
					both := injected + "+" + injected2
					// a pair that contains one of the fault sites whose single fault already produces this effect is the same
					// finding: name it by that site alone (otherwise every listed single-fault finding would reappear once per partner)
					for _, culprit := range []string{"error@Set(user-email-index)", "error@SubdocInsert(user)", "error@SubdocInsert(role)"} {
						if injected == culprit || injected2 == culprit {
							both = culprit
						}
					}
					w := map[string]any{"request": rq.Name, "faults": both, "fault_indexes": []int{i, j}, "status": resp.Code, "response": resp.Body.String(), "trace": ftrace}
					sig := "C11|" + rq.Name + "|fault=" + both
					if okf {
						for _, c := range claims {
							if good, detail := c.Chk(); !good {
								run.Violation("read-back", sig+"|reported-success-but-not-visible", c.What+": "+detail, w)
							}
						}
					} else {
						e.checkUnchanged(rq.Name, both, before, observe(), pre, w)
					}
				}
			}
		}
	}
}

// checkUnchanged: a request reported as failed must leave every deciding key and the API-visible state as it was.
func (e *c11Env) checkUnchanged(reqName, injected, before, after string, pre map[string]c11RawState, w map[string]any) {
	sig := "C11|" + reqName + "|fault=" + injected
	keys := make([]string, 0, len(pre))
	for k := range pre {
		keys = append(keys, k)
	}
	sort.Strings(keys)
	for _, k := range keys {
		parts := strings.SplitN(k, "|", 2)
		post := e.readRaw(parts[0], parts[1])
		class := c11KeyClass(parts[1])
		e.run.Count("raw_keys_compared", 1)
		if pre[k].equal(post) {
			continue
		}
		if !c11Deciding(class) {
			e.run.Count("non_deciding_differences."+class, 1)
			continue
		}
		ww := map[string]any{"key_class": class, "key": parts[1], "pre": pre[k], "post": post}
		for kk, v := range w {
			ww[kk] = v
		}
		e.run.Violation("unchanged", sig+"|failed-request-changed-"+class, fmt.Sprintf("request reported failure but %s %q changed in storage", class, parts[1]), ww)
	}
	if before != after {
		ww := map[string]any{"api_before": before, "api_after": after}
		for kk, v := range w {
			ww[kk] = v
		}
		e.run.Violation("unchanged", sig+"|failed-request-changed-api-visible-state", "admin reads differ before/after a request that reported failure: "+c11FirstDiff(before, after), ww)
	}
}

func c11FirstDiff(a, b string) string {
	la, lb := strings.Split(a, "\n"), strings.Split(b, "\n")
	for i := 0; i < len(la) && i < len(lb); i++ {
		if la[i] != lb[i] {
			return fmt.Sprintf("before: %.300s | after: %.300s", la[i], lb[i])
		}
	}
	return "length differs"
}

var _ = bytes.Compare
var _ = http.StatusOK
