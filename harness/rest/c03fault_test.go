//go:build verif

package rest

import (
	"fmt"
	"strings"
	"sync"
	"testing"

	"github.com/couchbase/sync_gateway/base"
	"verif/vlib"
)

// C03 under storage faults on principal documents: for a handful of fixed histories, the operation
// under test is repeated with its k-th mutating storage operation on a user/role document failing
// (before it is applied, or after: unknown outcome), for every k. Oracle: an operation that was
// ACKNOWLEDGED (2xx) must be reflected by the next read of every principal exactly as without the
// fault; an operation that reported an error may have been applied or not (both models are tried),
// but nothing else.

type c03FaultScenario struct {
	Name  string
	Setup []c03SOp
	Op    c03SOp
}

func c03FaultScenarios(p string) []c03FaultScenario {
	ua, ra := p+"ua", p+"ra"
	dx := p+"dx"
	body := func(marker string, grants []c03Grant, roles []c03RoleGrant) *c03Body {
		return &c03Body{Marker: p + marker, Ch: []string{"D"}, Grants: grants, Roles: roles}
	}
	createUser := func(u string, roles ...string) c03SOp {
		return c03SOp{Kind: "put-user", Princ: u, Create: true, Chans: map[int][]string{0: {"B"}}, Roles: roles, SetRoles: len(roles) > 0}
	}
	createRole := func(r string, chs ...string) c03SOp {
		return c03SOp{Kind: "put-role", Princ: r, Create: true, Chans: map[int][]string{0: chs}}
	}
	getU, getR := c03SOp{Kind: "get-user", Princ: ua}, c03SOp{Kind: "get-role", Princ: ra}
	return []c03FaultScenario{
		{"doc-grants-channel-to-user", []c03SOp{createUser(ua), getU},
			c03SOp{Kind: "doc-put", Doc: dx, Body: body("f1", c03Grants(c03Grant{ua, []string{"A"}}), nil)}},
		{"doc-stops-granting-channel-to-user", []c03SOp{createUser(ua), {Kind: "doc-put", Doc: dx, Body: body("f2", c03Grants(c03Grant{ua, []string{"A"}}), nil)}, getU},
			c03SOp{Kind: "doc-put", Doc: dx, Body: body("f2b", nil, nil)}},
		{"granting-doc-deleted", []c03SOp{createUser(ua), {Kind: "doc-put", Doc: dx, Body: body("f3", c03Grants(c03Grant{ua, []string{"A"}}), nil)}, getU},
			c03SOp{Kind: "doc-del", Doc: dx}},
		{"doc-grants-channel-to-role", []c03SOp{createRole(ra, "C"), createUser(ua, ra), getU, getR},
			c03SOp{Kind: "doc-put", Doc: dx, Body: body("f4", c03Grants(c03Grant{"role:" + ra, []string{"A"}}), nil)}},
		{"doc-grants-role-to-user", []c03SOp{createRole(ra, "C"), createUser(ua), getU},
			c03SOp{Kind: "doc-put", Doc: dx, Body: body("f5", nil, []c03RoleGrant{{ua, "role:" + ra}})}},
		{"doc-stops-granting-role-to-user", []c03SOp{createRole(ra, "C"), createUser(ua), {Kind: "doc-put", Doc: dx, Body: body("f6", nil, []c03RoleGrant{{ua, "role:" + ra}})}, getU},
			c03SOp{Kind: "doc-put", Doc: dx, Body: body("f6b", nil, nil)}},
		{"role-deleted", []c03SOp{createRole(ra, "C"), createUser(ua, ra), getU},
			c03SOp{Kind: "del-role", Princ: ra}},
		{"role-purged", []c03SOp{createRole(ra, "C"), createUser(ua, ra), getU},
			c03SOp{Kind: "del-role", Princ: ra, Purge: true}},
		{"user-admin-channels-changed", []c03SOp{createUser(ua), getU},
			c03SOp{Kind: "put-user", Princ: ua, Chans: map[int][]string{0: {"C"}}}},
		{"user-admin-roles-changed", []c03SOp{createRole(ra, "C"), createUser(ua), getU},
			c03SOp{Kind: "put-user", Princ: ua, Roles: []string{ra}, SetRoles: true}},
		{"role-admin-channels-changed", []c03SOp{createRole(ra, "C"), createUser(ua, ra), getU},
			c03SOp{Kind: "put-role", Princ: ra, Chans: map[int][]string{0: {"A"}}}},
		{"user-created-after-granting-doc", []c03SOp{{Kind: "doc-put", Doc: dx, Body: body("f7", c03Grants(c03Grant{ua, []string{"A"}}), nil)}},
			createUser(ua)},
		{"user-deleted", []c03SOp{createUser(ua), getU},
			c03SOp{Kind: "del-user", Princ: ua}},
		{"invalidated-user-read", []c03SOp{createUser(ua), getU, {Kind: "doc-put", Doc: dx, Body: body("f8", c03Grants(c03Grant{ua, []string{"A"}}), nil)}},
			getU},
	}
}

func c03IsPrincipalKey(k string) bool { return strings.Contains(k, "user:") || strings.Contains(k, "role:") }

func c03KeyClass(k string) string {
	if strings.Contains(k, "role:") {
		return "role-doc"
	}
	return "user-doc"
}

type c03FaultPlan struct {
	k      int // fail the k-th matching operation (1-based); 0 = none
	after  bool
	mu     sync.Mutex
	armed  bool
	seen   int
	hit    *base.VerifOp
	hitStr string
}

func (p *c03FaultPlan) decide(op *base.VerifOp, actor string) base.VerifDecision {
	p.mu.Lock()
	defer p.mu.Unlock()
	if !p.armed || !op.Mutating || !c03IsPrincipalKey(op.Key) {
		return base.VerifDecision{}
	}
	p.seen++
	if p.seen != p.k {
		return base.VerifDecision{}
	}
	cp := *op
	p.hit = &cp
	if p.after {
		p.hitStr = fmt.Sprintf("%s(%s):error-after-apply", op.Kind, c03KeyClass(op.Key))
		return base.VerifDecision{Action: base.VerifFailAfter, Err: errInjected}
	}
	p.hitStr = fmt.Sprintf("%s(%s):error-not-applied", op.Kind, c03KeyClass(op.Key))
	return base.VerifDecision{Action: base.VerifFailBefore, Err: errInjected}
}

// c03RunFaultCase runs one scenario with the given plan. Returns the number of matching storage operations seen.
func c03RunFaultCase(t testing.TB, run *vlib.Run, st *c03Station, fs c03FaultScenario, plan *c03FaultPlan, r *vlib.Rand) int {
	users, roles := []string{}, []string{}
	seen := map[string]bool{}
	for _, op := range append(append([]c03SOp{}, fs.Setup...), fs.Op) {
		if op.Princ == "" || seen[op.Princ] {
			continue
		}
		seen[op.Princ] = true
		if strings.HasSuffix(op.Kind, "user") {
			users = append(users, op.Princ)
		} else if strings.HasSuffix(op.Kind, "role") {
			roles = append(roles, op.Princ)
		}
	}
	e := &c03Env{t: t, run: run, rt: st.rt, layout: st.layout, colls: st.colls, users: users, roles: roles, part: "fault:" + fs.Name}
	e.m = c03NewModel(len(st.colls), users, roles)
	c := &c03Conc{e: e, curRev: map[string]string{}}
	for _, op := range fs.Setup {
		ev := c.exec("setup", op)
		if !op.isRead() {
			if ev.apply == nil {
				run.Inconclusive("fault-setup-op-failed")
				run.Note("c03 fault setup %s failed: %d %s", op.Kind, ev.Status, ev.Resp)
				return 0
			}
			ev.apply(e.m)
		}
	}
	st.vs.ResetLog()
	st.vs.logOn.Store(true)
	st.vs.SetFault(plan.decide)
	plan.mu.Lock()
	plan.armed, plan.seen = true, 0
	plan.mu.Unlock()
	ev := c.exec("client", fs.Op)
	plan.mu.Lock()
	plan.armed = false
	nseen := plan.seen
	plan.mu.Unlock()
	st.vs.SetFault(nil)
	st.vs.logOn.Store(false)
	var sl []string
	for _, op := range st.vs.Log() {
		if c03IsPrincipalKey(op.Key) || !strings.HasPrefix(op.Key, "_sync:") {
			errs := ""
			if op.Err != nil {
				errs = " err=" + op.Err.Error()
			}
			sl = append(sl, fmt.Sprintf("n=%d %s(%s) applied=%v%s", op.N, op.Kind, op.Key, op.Applied, errs))
		}
	}
	run.Eval()
	if plan.k > 0 && plan.hit == nil {
		run.Count("fault_position_not_reached", 1)
		return nseen
	}
	fault := "none"
	if plan.k > 0 {
		fault = plan.hitStr
		run.Count("faults_injected", 1)
		run.Distinct("fault_sites", fs.Name+"|"+fault)
	}
	e.witnessOverride = map[string]any{"layout": st.layout, "scenario": fs.Name, "setup": fs.Setup, "op_under_test": fs.Op, "events": c.events,
		"fault": fault, "fault_position_k": plan.k, "storage_log_of_op_under_test": sl, "sync_fn": c03SyncFn}
	acked := ev.Status >= 200 && ev.Status < 300
	applied := e.m.clone()
	if ev.apply != nil {
		ev.apply(applied)
	} else if !acked {
		// the request reported an error: build the "was applied nevertheless" alternative
		switch fs.Op.Kind {
		case "del-user":
			applied.users[fs.Op.Princ].Exists = false
		case "del-role":
			applied.roles[fs.Op.Princ].Exists = false
		case "put-user", "put-role":
			c03ApplyPrincipalPut(applied, fs.Op)
		}
	}
	// signature: operation class, fault site and the effect on effective access (not the scenario's names/collections)
	opClass := fs.Name
	switch fs.Op.Kind {
	case "doc-put":
		opClass = "doc-write"
	case "doc-del":
		opClass = "doc-delete"
	}
	e.sigFixed = func(what, dir string) string {
		ack := "acknowledged"
		if !acked {
			ack = "reported-error"
		}
		effect := "grant-or-assignment-not-effective"
		if dir == "extra" {
			effect = "revocation-not-effective"
		}
		return fmt.Sprintf("C03|fault|op=%s|fault=%s|%s|effect=%s", opClass, fault, ack, effect)
	}
	if acked || fs.Op.isRead() {
		// acknowledged (or a read): the model is determined
		if acked && !fs.Op.isRead() {
			e.m = applied
		}
		run.Count("acknowledged_under_fault", 1)
		e.checkAll(r, "op-under-fault")
		return nseen
	}
	// error reported: either not applied or applied
	run.Count("error_reported_under_fault", 1)
	notApplied := e.m
	e.dry = true
	e.checkAll(r, "op-under-fault")
	okNot := !e.failed
	e.failed = false
	e.m = applied
	e.checkAll(r, "op-under-fault")
	okApplied := !e.failed
	e.dry, e.failed = false, false
	switch {
	case okNot:
		run.Count("error_reported_and_not_applied", 1)
	case okApplied:
		run.Count("error_reported_but_applied", 1)
	default:
		// neither: report the differences against the not-applied model
		e.m = notApplied
		e.checkAll(r, "op-under-fault")
	}
	return nseen
}

func c03ApplyPrincipalPut(m *c03Model, op c03SOp) {
	if op.Kind == "put-user" {
		u := m.users[op.Princ]
		if !u.Exists {
			u.Exists = true
			u.AdminCh = make([]c03Set, m.ncoll)
			for i := range u.AdminCh {
				u.AdminCh[i] = c03Set{}
			}
			u.AdminRoles = c03Set{}
		}
		for coll, chs := range op.Chans {
			u.AdminCh[coll] = c03SetOf(chs...)
		}
		if op.SetRoles {
			u.AdminRoles = c03SetOf(op.Roles...)
		}
		return
	}
	ro := m.roles[op.Princ]
	if !ro.Exists {
		ro.Exists = true
		ro.AdminCh = make([]c03Set, m.ncoll)
		for i := range ro.AdminCh {
			ro.AdminCh[i] = c03Set{}
		}
	}
	for coll, chs := range op.Chans {
		ro.AdminCh[coll] = c03SetOf(chs...)
	}
}

func TestVerif_C03_Fault(t *testing.T) {
	run := vlib.Start(t, "C03", "fault")
	defer run.Finish()
	base.TestRequiresCollections(t)
	layouts := []string{"named-scope", "default", "default-scope-named"}
	nsc := len(c03FaultScenarios(""))
	type job struct{ si, li int }
	var jobs []job
	for si := 0; si < nsc; si++ {
		if run.Thorough() {
			for li := range layouts {
				jobs = append(jobs, job{si, li})
			}
		} else {
			jobs = append(jobs, job{si, (si + int(run.Seed)) % len(layouts)})
		}
	}
	ch := make(chan job, len(jobs))
	for _, j := range jobs {
		ch <- j
	}
	close(ch)
	var wg sync.WaitGroup
	for w := 0; w < 4; w++ {
		wg.Add(1)
		go func() {
			defer wg.Done()
			stations := map[int]*c03Station{}
			defer func() {
				for _, st := range stations {
					st.close()
				}
			}()
			for j := range ch {
				st := stations[j.li]
				if st == nil {
					st = c03NewStation(t, layouts[j.li])
					stations[j.li] = st
				}
				next := func() c03FaultScenario {
					st.count++
					return c03FaultScenarios(fmt.Sprintf("f%d", st.count))[j.si]
				}
				r := run.CaseRand(j.si*100 + j.li)
				// baseline without a fault: counts the fault positions
				n := c03RunFaultCase(t, run, st, next(), &c03FaultPlan{}, r)
				run.Count("baseline_cases", 1)
				run.Max("fault_positions_per_operation", n)
				for k := 1; k <= n; k++ {
					for _, after := range []bool{false, true} {
						fs := next()
						c03RunFaultCase(t, run, st, fs, &c03FaultPlan{k: k, after: after}, r)
						run.Nontrivial(fmt.Sprintf("%s|%s|%d|%v", fs.Name, st.layout, k, after))
					}
				}
				if j.si == 0 {
					run.Sample(map[string]any{"scenario": c03FaultScenarios("f")[j.si], "layout": st.layout, "fault_positions": n})
				}
			}
		}()
	}
	wg.Wait()
}
