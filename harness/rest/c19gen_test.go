//go:build verif

package rest

// C19 support: seeded JSON body generator, byte-level renderer with whitespace / escape / key-order
// variants, and an exact JSON value comparator (numbers as exact rationals, strings by code point,
// objects by key with last-duplicate-wins). A copy of this file lives in harness/base (package base):
// keep the two in step.

import (
	"bytes"
	"errors"
	"fmt"
	"math/big"
	"sort"
	"strings"
	"unicode/utf8"

	"verif/vlib"
)

type c19Kind uint8

const (
	c19KNull c19Kind = iota
	c19KBool
	c19KNum
	c19KStr
	c19KArr
	c19KObj
)

func (k c19Kind) String() string {
	return [...]string{"null", "bool", "number", "string", "array", "object"}[k]
}

// c19V is a generated value: numbers keep their exact literal, strings their code points, objects their
// members in order (duplicates allowed).
type c19V struct {
	K c19Kind
	B bool
	N string
	S []rune
	A []*c19V
	M []c19Mem
}

type c19Mem struct {
	Key []rune
	Val *c19V
}

// ---------------------------------------------------------------------------------------------
// generator

var c19BoundaryInts = []string{
	"9007199254740991", "9007199254740992", "9007199254740993", "-9007199254740993", // 2^53-1, 2^53, 2^53+1
	"9223372036854775807", "9223372036854775808", "9223372036854775809", // 2^63-1, 2^63, 2^63+1
	"18446744073709551615", "18446744073709551616", "18446744073709551617", // 2^64-1, 2^64, 2^64+1
	"-9223372036854775808", "-9223372036854775809", // -2^63, -2^63-1
	"2147483647", "2147483648", "-2147483649", "4294967295", "4294967296",
}

var c19SmallInts = []string{"0", "-0", "1", "-1", "7", "42", "100", "-273", "65535", "1000000"}

var c19Floats = []string{
	"1.0", "1e0", "1E0", "1E+0", "1e-0", "10e-1", "0.1e1", "1.5", "0.1", "-0.0", "0.0", "0e0", "0E-7", "1e-7", "2.5E-3", "1E+2", "1e21", "1e22", "123e18",
	"1.7976931348623157e308", "5e-324", "2.2250738585072014E-308", "4.9406564584124654e-324",
	"0.30000000000000004", "0.1000000000000000055511151231257827", "123456789.123456789123456789", "3.141592653589793238462643383279",
	"9007199254740993.0", "9223372036854775809e0", "18446744073709551617E0", "1.8446744073709551617e19", "922337203685477580.9e1",
	"-1.0e-10", "6.02214076e23", "1.00000000000000000000000000001", "99999999999999999999.99999999999999999999",
}

var c19FloatsOutOfDouble = []string{"1e400", "-1E400", "1e-400", "2.5e309", "123456789e-340"}

// keys that resemble the reserved names without being one (top level and nested)
var c19ReservedLike = []string{"_id2", "id", "_", "__", "_rev_x", "_attachments_x", "rev", "_idx", "_deleted_x", "_exp_", "_expx", "_removedx", "_cvx",
	"_revisions_x", "_syncx", "sync", "_purgedx", "attachments", "_ID", "_Rev", "_x", "___id", "_id_", "exp", "_attachments2"}

// the reserved names themselves: generated below the top level only, where they are ordinary keys
var c19ReservedExact = []string{"_id", "_rev", "_cv", "_revisions", "_attachments", "_deleted", "_exp", "_removed", "_sync", "_purged", "_sync_x"}

var c19PlainKeys = []string{"a", "b", "c", "k", "name", "v1", "x_y", "K", "data", "n", "list", "o", "Zz", "key with space", "a.b", "a/b", "$ref", "@t", "0", "-1", "true", "null"}

var c19Runes = struct{ ascii, mustEsc, ctrl, mayEsc, bmp, astral []rune }{
	ascii:   []rune("abcxyzABC012 _-.,:;{}[]()!?#$%*+=~^|'`@"),
	mustEsc: []rune{'"', '\\'},
	ctrl:    []rune{'\b', '\f', '\n', '\r', '\t', 0x00, 0x01, 0x0b, 0x1b, 0x1f},
	mayEsc:  []rune{'/', '<', '>', '&', 0x7f, 0x2028, 0x2029},
	bmp:     []rune{0xe9, 0xdf, 0x4e2d, 0x6587, 0x0416, 0x05d0, 0x0e01, 0x20ac, 0xd7ff, 0xe000, 0xfeff, 0xfffd, 0xfffe, 0xffff, 0x00a0, 0x0301, 0x200d},
	astral:  []rune{0x10000, 0x1f600, 0x1f468, 0x2f804, 0x10ffff, 0xe0001, 0x1d11e},
}

type c19Gen struct {
	r     *vlib.Rand
	nodes int
	max   int
	feat  map[string]bool
	depth int // deepest nesting reached
}

func (g *c19Gen) f(name string) { g.feat[name] = true }

func (g *c19Gen) runes(n int) []rune {
	out := make([]rune, 0, n)
	for i := 0; i < n; i++ {
		switch x := g.r.Intn(100); {
		case x < 45:
			out = append(out, vlib.Pick(g.r, c19Runes.ascii))
		case x < 55:
			out = append(out, vlib.Pick(g.r, c19Runes.mustEsc))
			g.f("string:quote-or-backslash")
		case x < 67:
			c := vlib.Pick(g.r, c19Runes.ctrl)
			out = append(out, c)
			if c == 0 {
				g.f("string:NUL")
			} else {
				g.f("string:control")
			}
		case x < 76:
			out = append(out, vlib.Pick(g.r, c19Runes.mayEsc))
			g.f("string:slash-html-linesep")
		case x < 90:
			out = append(out, vlib.Pick(g.r, c19Runes.bmp))
			g.f("string:bmp")
		default:
			out = append(out, vlib.Pick(g.r, c19Runes.astral))
			g.f("string:astral")
		}
	}
	return out
}

func (g *c19Gen) digits(n int) string {
	var sb strings.Builder
	for i := 0; i < n; i++ {
		d := g.r.Intn(10)
		if i == 0 && n > 1 && d == 0 {
			d = 1 + g.r.Intn(9)
		}
		sb.WriteByte(byte('0' + d))
	}
	return sb.String()
}

func (g *c19Gen) number() *c19V {
	var lit string
	switch x := g.r.Intn(100); {
	case x < 15:
		lit = vlib.Pick(g.r, c19SmallInts)
		g.f("number:small-int")
	case x < 40:
		lit = vlib.Pick(g.r, c19BoundaryInts)
		g.f("number:boundary-int")
	case x < 60:
		n := g.r.Range(17, 40)
		lit = g.digits(n)
		if g.r.Chance(1, 3) {
			lit = "-" + lit
		}
		g.f("number:big-int")
		if n >= 39 {
			g.f("number:int-39-40-digits")
		}
	case x < 70:
		lit = g.digits(g.r.Range(1, 16))
		if g.r.Chance(1, 4) {
			lit = "-" + lit
		}
		g.f("number:int")
	case x < 90:
		lit = vlib.Pick(g.r, c19Floats)
		g.f("number:float")
	case x < 91:
		lit = vlib.Pick(g.r, c19FloatsOutOfDouble)
		g.f("number:float-outside-double-range")
	default:
		lit = g.digits(g.r.Range(1, 12)) + "." + g.digits(g.r.Range(1, 14))
		if g.r.Bool() {
			lit += vlib.Pick(g.r, []string{"e", "E"}) + vlib.Pick(g.r, []string{"", "+", "-"}) + fmt.Sprint(g.r.Intn(31))
		}
		if g.r.Chance(1, 4) {
			lit = "-" + lit
		}
		g.f("number:float")
	}
	return &c19V{K: c19KNum, N: lit}
}

func (g *c19Gen) scalar() *c19V {
	g.nodes++
	switch x := g.r.Intn(100); {
	case x < 6:
		return &c19V{K: c19KNull}
	case x < 14:
		return &c19V{K: c19KBool, B: g.r.Bool()}
	case x < 60:
		return g.number()
	case x < 66:
		g.f("string:empty")
		return &c19V{K: c19KStr, S: []rune{}}
	default:
		return &c19V{K: c19KStr, S: g.runes(g.r.Range(1, 10))}
	}
}

func (g *c19Gen) key(top bool) []rune {
	switch x := g.r.Intn(100); {
	case x < 50:
		k := vlib.Pick(g.r, c19PlainKeys)
		if g.r.Chance(1, 3) {
			k += fmt.Sprint(g.r.Intn(10))
		}
		return []rune(k)
	case x < 64:
		g.f("key:reserved-like")
		if top {
			g.f("key:reserved-like-top-level")
		}
		return []rune(vlib.Pick(g.r, c19ReservedLike))
	case x < 70:
		if !top {
			g.f("key:reserved-name-nested")
			return []rune(vlib.Pick(g.r, c19ReservedExact))
		}
		return []rune(vlib.Pick(g.r, c19PlainKeys))
	case x < 78:
		g.f("key:empty")
		return []rune{}
	default:
		k := g.runes(g.r.Range(1, 6))
		if top && len(k) > 0 && k[0] == '_' {
			k[0] = 'u' // top-level underscore keys come from the fixed pool only (stable signatures)
		}
		g.f("key:escapes-unicode")
		return k
	}
}

func (g *c19Gen) value(depth, maxDepth int) *c19V {
	if depth > g.depth {
		g.depth = depth
	}
	if depth >= maxDepth || g.nodes >= g.max {
		return g.scalar()
	}
	switch x := g.r.Intn(100); {
	case x < 50:
		return g.scalar()
	case x < 72:
		return g.array(depth, maxDepth)
	default:
		return g.object(depth, maxDepth, false)
	}
}

func (g *c19Gen) array(depth, maxDepth int) *c19V {
	g.nodes++
	v := &c19V{K: c19KArr, A: []*c19V{}}
	n := g.r.Intn(5)
	if g.r.Chance(1, 5) {
		n = 0
	}
	if n == 0 {
		g.f("empty-array")
	}
	for i := 0; i < n; i++ {
		v.A = append(v.A, g.value(depth+1, maxDepth))
	}
	return v
}

func (g *c19Gen) object(depth, maxDepth int, top bool) *c19V {
	g.nodes++
	v := &c19V{K: c19KObj, M: []c19Mem{}}
	n := g.r.Intn(5)
	if top {
		n = g.r.Range(1, 6)
	} else if g.r.Chance(1, 5) {
		n = 0
	}
	if n == 0 && !top {
		g.f("empty-object-nested")
	}
	for i := 0; i < n; i++ {
		v.M = append(v.M, c19Mem{Key: g.key(top), Val: g.value(depth+1, maxDepth)})
	}
	if len(v.M) > 0 && g.r.Chance(1, 6) {
		// duplicate key with another value (the later one wins)
		k := v.M[g.r.Intn(len(v.M))].Key
		m := c19Mem{Key: k, Val: g.value(depth+1, maxDepth)}
		pos := g.r.Intn(len(v.M) + 1)
		v.M = append(v.M[:pos], append([]c19Mem{m}, v.M[pos:]...)...)
	}
	if c19HasDup(v) {
		g.f("duplicate-keys")
		if top {
			g.f("duplicate-keys-top-level")
		}
	}
	return v
}

func c19HasDup(v *c19V) bool {
	seen := map[string]bool{}
	for _, m := range v.M {
		if seen[string(m.Key)] {
			return true
		}
		seen[string(m.Key)] = true
	}
	return false
}

// chain builds a nest of the given depth ending in leaf, alternating objects and arrays.
func (g *c19Gen) chain(depth int, leaf *c19V) *c19V {
	cur := leaf
	for d := depth; d > 0; d-- {
		g.nodes++
		if g.r.Bool() {
			cur = &c19V{K: c19KArr, A: []*c19V{cur}}
			if g.r.Chance(1, 3) {
				cur.A = append(cur.A, g.scalar())
			}
		} else {
			o := &c19V{K: c19KObj, M: []c19Mem{{Key: g.key(false), Val: cur}}}
			if g.r.Chance(1, 3) {
				o.M = append(o.M, c19Mem{Key: g.key(false), Val: g.scalar()})
			}
			cur = o
		}
	}
	return cur
}

// c19GenBody generates the top-level object of case ci. The focus (ci mod 14) guarantees that every
// input class of the property occurs regularly; the rest of the body is random. Returns the features.
func c19GenBody(r *vlib.Rand, ci int) (*c19V, []string) {
	g := &c19Gen{r: r, max: 28 + r.Intn(30), feat: map[string]bool{}}
	var v *c19V
	add := func(key string, val *c19V) { v.M = append(v.M, c19Mem{Key: []rune(key), Val: val}) }
	focus := ci % 14
	if focus == 0 {
		v = &c19V{K: c19KObj, M: []c19Mem{}}
		g.f("empty-object-top-level")
	} else {
		v = g.object(1, g.r.Range(2, 5), true)
	}
	switch focus {
	case 1: // depth 8 (the top-level object is level 1)
		add("deep", g.chain(7, g.scalar()))
		g.f("depth-8")
		g.depth = 8
	case 2:
		arr := &c19V{K: c19KArr}
		for _, p := range g.r.Perm(len(c19BoundaryInts))[:8] {
			arr.A = append(arr.A, &c19V{K: c19KNum, N: c19BoundaryInts[p]})
		}
		add("bounds", arr)
		g.f("number:boundary-int")
	case 3:
		n := 40 - g.r.Intn(2)
		add("big", &c19V{K: c19KNum, N: g.digits(n)})
		add("nbig", &c19V{K: c19KNum, N: "-" + g.digits(g.r.Range(20, 40))})
		g.f("number:big-int")
		g.f("number:int-39-40-digits")
	case 4:
		arr := &c19V{K: c19KArr}
		for _, p := range g.r.Perm(len(c19Floats))[:8] {
			arr.A = append(arr.A, &c19V{K: c19KNum, N: c19Floats[p]})
		}
		add("floats", arr)
		g.f("number:float")
	case 5: // every escape form in one string and in one key
		all := []rune{'"', '\\', '/', '\b', '\f', '\n', '\r', '\t', 0x00, 0x1f, 0x7f, 0x2028, 0xe9, 0x1f600}
		add("esc", &c19V{K: c19KStr, S: all})
		v.M = append(v.M, c19Mem{Key: []rune{'q', '"', '\\', '\n', 0x00, 0x1d11e}, Val: g.scalar()})
		g.f("string:every-escape-form")
		g.f("string:NUL")
		g.f("string:astral")
	case 6:
		add("astral", &c19V{K: c19KStr, S: []rune{0x10000, 'a', 0x10ffff, 0x1f468, 0x200d, 0x1f469, 0xd7ff, 0xe000}})
		add("nul", &c19V{K: c19KStr, S: []rune{0, 'x', 0, 0}})
		g.f("string:astral")
		g.f("string:NUL")
	case 7:
		add("eo", &c19V{K: c19KObj, M: []c19Mem{}})
		add("ea", &c19V{K: c19KArr, A: []*c19V{}})
		add("", &c19V{K: c19KStr, S: []rune{}})
		add("nest", &c19V{K: c19KArr, A: []*c19V{{K: c19KObj, M: []c19Mem{}}, {K: c19KArr, A: []*c19V{}}, {K: c19KObj, M: []c19Mem{{Key: []rune{}, Val: &c19V{K: c19KObj, M: []c19Mem{}}}}}}})
		g.f("empty-object-nested")
		g.f("empty-array")
		g.f("key:empty")
		g.f("string:empty")
	case 8:
		for _, p := range g.r.Perm(len(c19ReservedLike))[:4] {
			add(c19ReservedLike[p], g.scalar())
		}
		inner := &c19V{K: c19KObj}
		for _, p := range g.r.Perm(len(c19ReservedExact))[:4] {
			inner.M = append(inner.M, c19Mem{Key: []rune(c19ReservedExact[p]), Val: g.scalar()})
		}
		add("inner", inner)
		g.f("key:reserved-like")
		g.f("key:reserved-like-top-level")
		g.f("key:reserved-name-nested")
	case 9:
		add("dup", g.scalar())
		add("other", g.scalar())
		add("dup", g.value(2, 4))
		inner := &c19V{K: c19KObj, M: []c19Mem{{Key: []rune("d"), Val: g.scalar()}, {Key: []rune("d"), Val: g.scalar()}, {Key: []rune("d"), Val: g.scalar()}}}
		add("inner", inner)
		g.f("duplicate-keys")
		g.f("duplicate-keys-top-level")
	case 10: // braces, quotes and commas inside strings (byte-level splicing must not be fooled)
		add("braces", &c19V{K: c19KStr, S: []rune(`}{"},{"_id":"x"}`)})
		add("tail", &c19V{K: c19KStr, S: []rune(`\"}`)})
		v.M = append(v.M, c19Mem{Key: []rune(`}`), Val: &c19V{K: c19KStr, S: []rune(`{`)}})
		g.f("string:braces-and-quotes")
	case 11:
		add("mix", &c19V{K: c19KArr, A: []*c19V{{K: c19KNum, N: "1"}, {K: c19KNum, N: "1.0"}, {K: c19KNum, N: "1e0"}, {K: c19KNum, N: "10E-1"}, {K: c19KNum, N: "-0"}, {K: c19KNum, N: "0.0"}, {K: c19KNum, N: vlib.Pick(g.r, c19FloatsOutOfDouble)}}})
		g.f("number:equal-value-forms")
		g.f("number:float-outside-double-range")
	}
	feats := make([]string, 0, len(g.feat))
	for k := range g.feat {
		feats = append(feats, k)
	}
	sort.Strings(feats)
	if g.depth >= 6 {
		feats = append(feats, "depth>=6")
	}
	return v, feats
}

// ---------------------------------------------------------------------------------------------
// renderer

type c19Style struct {
	r       *vlib.Rand
	WS      int  // 0 none, 1 light, 2 heavy (spaces, tabs, CR, LF everywhere JSON allows them)
	Esc     int  // 0 minimal escapes, 1 random per character, 2 \u for everything
	Permute bool // shuffle the members of objects without duplicate keys
	Force   bool // every place where whitespace is allowed gets at least one whitespace character
}

func (st *c19Style) String() string {
	return fmt.Sprintf("ws=%d esc=%d permute=%v", st.WS, st.Esc, st.Permute)
}

func c19NewStyle(r *vlib.Rand) *c19Style {
	return &c19Style{r: r, WS: r.Intn(3), Esc: r.Intn(3), Permute: r.Chance(1, 3)}
}

func (st *c19Style) ws(sb *strings.Builder) {
	if st.Force {
		sb.WriteString(vlib.Pick(st.r, []string{" ", "\n", "\t", "\r", "  ", "\r\n"}))
		return
	}
	switch st.WS {
	case 0:
	case 1:
		if st.r.Chance(1, 3) {
			sb.WriteByte(' ')
		}
	default:
		for n := st.r.Intn(3); n > 0; n-- {
			sb.WriteString(vlib.Pick(st.r, []string{" ", "\n", "\t", "\r", "  ", "\r\n"}))
		}
	}
}

func (st *c19Style) hex4(sb *strings.Builder, u rune) {
	f := "\\u%04x"
	if st.r.Bool() {
		f = "\\u%04X"
	}
	fmt.Fprintf(sb, f, u)
}

func (st *c19Style) uEsc(sb *strings.Builder, c rune) {
	if c >= 0x10000 {
		c -= 0x10000
		st.hex4(sb, 0xd800+(c>>10))
		st.hex4(sb, 0xdc00+(c&0x3ff))
		return
	}
	st.hex4(sb, c)
}

var c19Short = map[rune]string{'"': `\"`, '\\': `\\`, '/': `\/`, '\b': `\b`, '\f': `\f`, '\n': `\n`, '\r': `\r`, '\t': `\t`}

func (st *c19Style) str(sb *strings.Builder, s []rune) {
	sb.WriteByte('"')
	for _, c := range s {
		must := c == '"' || c == '\\' || c < 0x20
		short, hasShort := c19Short[c]
		switch {
		case st.Esc == 2:
			st.uEsc(sb, c)
		case must:
			if hasShort && (st.Esc == 0 || st.r.Chance(2, 3)) {
				sb.WriteString(short)
			} else {
				st.uEsc(sb, c)
			}
		case st.Esc == 0:
			sb.WriteRune(c)
		default:
			switch x := st.r.Intn(10); {
			case x < 6:
				sb.WriteRune(c)
			case x < 8 && hasShort:
				sb.WriteString(short)
			default:
				st.uEsc(sb, c)
			}
		}
	}
	sb.WriteByte('"')
}

func (st *c19Style) val(sb *strings.Builder, v *c19V, extras []string) {
	switch v.K {
	case c19KNull:
		sb.WriteString("null")
	case c19KBool:
		if v.B {
			sb.WriteString("true")
		} else {
			sb.WriteString("false")
		}
	case c19KNum:
		sb.WriteString(v.N)
	case c19KStr:
		st.str(sb, v.S)
	case c19KArr:
		sb.WriteByte('[')
		st.ws(sb)
		for i, e := range v.A {
			if i > 0 {
				sb.WriteByte(',')
				st.ws(sb)
			}
			st.val(sb, e, nil)
			st.ws(sb)
		}
		sb.WriteByte(']')
	case c19KObj:
		mem := v.M
		if st.Permute && !c19HasDup(v) && len(mem) > 1 {
			mem = make([]c19Mem, len(v.M))
			for i, p := range st.r.Perm(len(v.M)) {
				mem[i] = v.M[p]
			}
		}
		// extras (already rendered "key":value texts) go to random positions among the members
		type item struct {
			m   *c19Mem
			raw string
		}
		items := make([]item, 0, len(mem)+len(extras))
		for i := range mem {
			items = append(items, item{m: &mem[i]})
		}
		for _, e := range extras {
			pos := st.r.Intn(len(items) + 1)
			items = append(items[:pos], append([]item{{raw: e}}, items[pos:]...)...)
		}
		sb.WriteByte('{')
		st.ws(sb)
		for i, it := range items {
			if i > 0 {
				sb.WriteByte(',')
				st.ws(sb)
			}
			if it.m == nil {
				sb.WriteString(it.raw)
			} else {
				st.str(sb, it.m.Key)
				st.ws(sb)
				sb.WriteByte(':')
				st.ws(sb)
				st.val(sb, it.m.Val, nil)
			}
			st.ws(sb)
		}
		sb.WriteByte('}')
	}
}

// c19Render renders v with the style; extras are additional top-level members given as JSON text.
func c19Render(v *c19V, st *c19Style, extras ...string) string {
	var sb strings.Builder
	st.ws(&sb)
	st.val(&sb, v, extras)
	st.ws(&sb)
	return sb.String()
}

// ---------------------------------------------------------------------------------------------
// exact values

// c19C is a JSON value in comparison form.
type c19C struct {
	K   c19Kind
	B   bool
	R   *big.Rat
	Lit string // number literal as read
	S   string // code points as (W)UTF-8
	A   []*c19C
	O   map[string]*c19C
	Off int // objects read by the parser: byte span in the parsed text
	End int
}

// c19NumRat converts a JSON number literal to its exact rational value.
func c19NumRat(lit string) (*big.Rat, bool) {
	s := lit
	neg := false
	if strings.HasPrefix(s, "-") {
		neg = true
		s = s[1:]
	}
	exp := 0
	if i := strings.IndexAny(s, "eE"); i >= 0 {
		es := s[i+1:]
		s = s[:i]
		eneg := false
		if strings.HasPrefix(es, "+") {
			es = es[1:]
		} else if strings.HasPrefix(es, "-") {
			eneg = true
			es = es[1:]
		}
		if es == "" || len(es) > 6 {
			return nil, false
		}
		for _, c := range es {
			if c < '0' || c > '9' {
				return nil, false
			}
			exp = exp*10 + int(c-'0')
		}
		if eneg {
			exp = -exp
		}
	}
	frac := ""
	if i := strings.IndexByte(s, '.'); i >= 0 {
		frac = s[i+1:]
		s = s[:i]
		if frac == "" {
			return nil, false
		}
	}
	if s == "" || (len(s) > 1 && s[0] == '0') {
		return nil, false
	}
	for _, c := range s + frac {
		if c < '0' || c > '9' {
			return nil, false
		}
	}
	m, ok := new(big.Int).SetString(s+frac, 10)
	if !ok {
		return nil, false
	}
	e := exp - len(frac)
	if e > 5000 || e < -5000 {
		return nil, false
	}
	r := new(big.Rat).SetInt(m)
	if e != 0 {
		abs := e
		if abs < 0 {
			abs = -abs
		}
		p := new(big.Rat).SetInt(new(big.Int).Exp(big.NewInt(10), big.NewInt(int64(abs)), nil))
		if e > 0 {
			r.Mul(r, p)
		} else {
			r.Quo(r, p)
		}
	}
	if neg {
		r.Neg(r)
	}
	return r, true
}

func c19AppendCodePoint(b []byte, c rune) []byte {
	if c >= 0xd800 && c <= 0xdfff { // lone surrogate: keep it distinguishable (WTF-8)
		return append(b, 0xed, byte(0x80|((c>>6)&0x3f)), byte(0x80|(c&0x3f)))
	}
	return utf8.AppendRune(b, c)
}

func c19FromAST(v *c19V) *c19C {
	switch v.K {
	case c19KNull:
		return &c19C{K: c19KNull}
	case c19KBool:
		return &c19C{K: c19KBool, B: v.B}
	case c19KNum:
		r, ok := c19NumRat(v.N)
		if !ok {
			panic("c19: generator produced a bad number literal " + v.N)
		}
		return &c19C{K: c19KNum, R: r, Lit: v.N}
	case c19KStr:
		return &c19C{K: c19KStr, S: string(v.S)}
	case c19KArr:
		c := &c19C{K: c19KArr, A: make([]*c19C, len(v.A))}
		for i, e := range v.A {
			c.A[i] = c19FromAST(e)
		}
		return c
	default:
		c := &c19C{K: c19KObj, O: map[string]*c19C{}}
		for _, m := range v.M {
			c.O[string(m.Key)] = c19FromAST(m.Val)
		}
		return c
	}
}

// strict RFC 8259 parser producing comparison values (last duplicate key wins)
type c19Parser struct {
	b     []byte
	i     int
	depth int
}

func c19Parse(b []byte) (*c19C, error) {
	p := &c19Parser{b: b}
	p.skip()
	v, err := p.value()
	if err != nil {
		return nil, err
	}
	p.skip()
	if p.i != len(p.b) {
		return nil, fmt.Errorf("trailing data at offset %d", p.i)
	}
	return v, nil
}

func (p *c19Parser) skip() {
	for p.i < len(p.b) && (p.b[p.i] == ' ' || p.b[p.i] == '\t' || p.b[p.i] == '\n' || p.b[p.i] == '\r') {
		p.i++
	}
}

func (p *c19Parser) errf(f string, a ...any) error {
	return fmt.Errorf("offset %d: %s", p.i, fmt.Sprintf(f, a...))
}

func (p *c19Parser) value() (*c19C, error) {
	if p.i >= len(p.b) {
		return nil, p.errf("unexpected end")
	}
	switch c := p.b[p.i]; {
	case c == '{':
		p.depth++
		if p.depth > 2000 {
			return nil, p.errf("too deep")
		}
		defer func() { p.depth-- }()
		o := &c19C{K: c19KObj, O: map[string]*c19C{}, Off: p.i}
		p.i++
		p.skip()
		if p.i < len(p.b) && p.b[p.i] == '}' {
			p.i++
			o.End = p.i
			return o, nil
		}
		for {
			p.skip()
			if p.i >= len(p.b) || p.b[p.i] != '"' {
				return nil, p.errf("expected a key")
			}
			k, err := p.str()
			if err != nil {
				return nil, err
			}
			p.skip()
			if p.i >= len(p.b) || p.b[p.i] != ':' {
				return nil, p.errf("expected ':'")
			}
			p.i++
			p.skip()
			v, err := p.value()
			if err != nil {
				return nil, err
			}
			o.O[k] = v
			p.skip()
			if p.i >= len(p.b) {
				return nil, p.errf("unterminated object")
			}
			if p.b[p.i] == ',' {
				p.i++
				continue
			}
			if p.b[p.i] == '}' {
				p.i++
				o.End = p.i
				return o, nil
			}
			return nil, p.errf("expected ',' or '}'")
		}
	case c == '[':
		p.depth++
		if p.depth > 2000 {
			return nil, p.errf("too deep")
		}
		defer func() { p.depth-- }()
		p.i++
		a := &c19C{K: c19KArr, A: []*c19C{}}
		p.skip()
		if p.i < len(p.b) && p.b[p.i] == ']' {
			p.i++
			return a, nil
		}
		for {
			p.skip()
			v, err := p.value()
			if err != nil {
				return nil, err
			}
			a.A = append(a.A, v)
			p.skip()
			if p.i >= len(p.b) {
				return nil, p.errf("unterminated array")
			}
			if p.b[p.i] == ',' {
				p.i++
				continue
			}
			if p.b[p.i] == ']' {
				p.i++
				return a, nil
			}
			return nil, p.errf("expected ',' or ']'")
		}
	case c == '"':
		s, err := p.str()
		if err != nil {
			return nil, err
		}
		return &c19C{K: c19KStr, S: s}, nil
	case c == 't' && bytes.HasPrefix(p.b[p.i:], []byte("true")):
		p.i += 4
		return &c19C{K: c19KBool, B: true}, nil
	case c == 'f' && bytes.HasPrefix(p.b[p.i:], []byte("false")):
		p.i += 5
		return &c19C{K: c19KBool}, nil
	case c == 'n' && bytes.HasPrefix(p.b[p.i:], []byte("null")):
		p.i += 4
		return &c19C{K: c19KNull}, nil
	case c == '-' || (c >= '0' && c <= '9'):
		st := p.i
		for p.i < len(p.b) && strings.IndexByte("+-0123456789.eE", p.b[p.i]) >= 0 {
			p.i++
		}
		lit := string(p.b[st:p.i])
		r, ok := c19NumRat(lit)
		if !ok {
			p.i = st
			return nil, p.errf("bad number %q", lit)
		}
		return &c19C{K: c19KNum, R: r, Lit: lit}, nil
	default:
		return nil, p.errf("unexpected byte %q", c)
	}
}

func (p *c19Parser) hex4() (rune, error) {
	if p.i+4 > len(p.b) {
		return 0, p.errf("short \\u escape")
	}
	var u rune
	for _, c := range p.b[p.i : p.i+4] {
		switch {
		case c >= '0' && c <= '9':
			u = u<<4 | rune(c-'0')
		case c >= 'a' && c <= 'f':
			u = u<<4 | rune(c-'a'+10)
		case c >= 'A' && c <= 'F':
			u = u<<4 | rune(c-'A'+10)
		default:
			return 0, p.errf("bad \\u escape")
		}
	}
	p.i += 4
	return u, nil
}

func (p *c19Parser) str() (string, error) {
	p.i++ // opening quote
	var out []byte
	for {
		if p.i >= len(p.b) {
			return "", p.errf("unterminated string")
		}
		c := p.b[p.i]
		switch {
		case c == '"':
			p.i++
			return string(out), nil
		case c < 0x20:
			return "", p.errf("raw control character in string")
		case c == '\\':
			p.i++
			if p.i >= len(p.b) {
				return "", p.errf("unterminated escape")
			}
			e := p.b[p.i]
			p.i++
			switch e {
			case '"', '\\', '/':
				out = append(out, e)
			case 'b':
				out = append(out, '\b')
			case 'f':
				out = append(out, '\f')
			case 'n':
				out = append(out, '\n')
			case 'r':
				out = append(out, '\r')
			case 't':
				out = append(out, '\t')
			case 'u':
				u, err := p.hex4()
				if err != nil {
					return "", err
				}
				if u >= 0xd800 && u <= 0xdbff && p.i+6 <= len(p.b) && p.b[p.i] == '\\' && p.b[p.i+1] == 'u' {
					save := p.i
					p.i += 2
					lo, err := p.hex4()
					if err == nil && lo >= 0xdc00 && lo <= 0xdfff {
						u = 0x10000 + (u-0xd800)<<10 + (lo - 0xdc00)
					} else {
						p.i = save
					}
				}
				out = c19AppendCodePoint(out, u)
			default:
				return "", p.errf("bad escape \\%c", e)
			}
		case c < 0x80:
			out = append(out, c)
			p.i++
		default:
			r, n := utf8.DecodeRune(p.b[p.i:])
			if r == utf8.RuneError && n <= 1 {
				return "", p.errf("invalid UTF-8 in string")
			}
			out = append(out, p.b[p.i:p.i+n]...)
			p.i += n
		}
	}
}

// c19Added are the documented properties the gateway adds to a body (removed from the top level on both
// sides before comparing).
var c19Added = map[string]bool{"_id": true, "_rev": true, "_cv": true, "_revisions": true, "_attachments": true, "_deleted": true, "_exp": true, "_removed": true}

func c19StripAdded(c *c19C) *c19C {
	if c == nil || c.K != c19KObj {
		return c
	}
	out := &c19C{K: c19KObj, O: make(map[string]*c19C, len(c.O))}
	for k, v := range c.O {
		if !c19Added[k] {
			out.O[k] = v
		}
	}
	return out
}

// c19Diff describes the first difference found.
type c19Diff struct {
	Path     string `json:"path"`
	Class    string `json:"class"`
	Expected string `json:"expected"`
	Got      string `json:"got"`
}

func c19Show(c *c19C) string {
	if c == nil {
		return "<absent>"
	}
	var sb strings.Builder
	c19show(&sb, c)
	s := sb.String()
	if len(s) > 300 {
		s = s[:300] + "…"
	}
	return s
}

func c19show(sb *strings.Builder, c *c19C) {
	if sb.Len() > 400 {
		return
	}
	switch c.K {
	case c19KNull:
		sb.WriteString("null")
	case c19KBool:
		fmt.Fprint(sb, c.B)
	case c19KNum:
		sb.WriteString(c.Lit)
	case c19KStr:
		fmt.Fprintf(sb, "%+q", c.S)
	case c19KArr:
		sb.WriteByte('[')
		for i, e := range c.A {
			if i > 0 {
				sb.WriteByte(',')
			}
			c19show(sb, e)
		}
		sb.WriteByte(']')
	case c19KObj:
		keys := make([]string, 0, len(c.O))
		for k := range c.O {
			keys = append(keys, k)
		}
		sort.Strings(keys)
		sb.WriteByte('{')
		for i, k := range keys {
			if i > 0 {
				sb.WriteByte(',')
			}
			fmt.Fprintf(sb, "%+q:", k)
			c19show(sb, c.O[k])
		}
		sb.WriteByte('}')
	}
}

func c19NumClass(lit string) string {
	if strings.ContainsAny(lit, ".eE") {
		return "float"
	}
	d := strings.TrimPrefix(lit, "-")
	switch {
	case len(d) >= 20:
		return "integer-beyond-64-bit"
	case len(d) >= 16:
		return "integer-beyond-2^53"
	default:
		return "integer"
	}
}

// c19Equal compares expected and got exactly; nil means equal.
func c19Equal(exp, got *c19C, path string, top bool) *c19Diff {
	if exp.K != got.K {
		return &c19Diff{Path: path, Class: "type-changed:" + exp.K.String() + "->" + got.K.String(), Expected: c19Show(exp), Got: c19Show(got)}
	}
	switch exp.K {
	case c19KBool:
		if exp.B != got.B {
			return &c19Diff{Path: path, Class: "bool-changed", Expected: c19Show(exp), Got: c19Show(got)}
		}
	case c19KNum:
		if exp.R.Cmp(got.R) != 0 {
			cls := "number-changed"
			ef, _ := exp.R.Float64()
			gf, _ := got.R.Float64()
			if ef == gf {
				cls = "number-precision-lost"
			}
			return &c19Diff{Path: path, Class: cls + "(" + c19NumClass(exp.Lit) + ")", Expected: exp.Lit, Got: got.Lit}
		}
	case c19KStr:
		if exp.S != got.S {
			return &c19Diff{Path: path, Class: "string-changed", Expected: c19Show(exp), Got: c19Show(got)}
		}
	case c19KArr:
		if len(exp.A) != len(got.A) {
			return &c19Diff{Path: path, Class: "array-length-changed", Expected: c19Show(exp), Got: c19Show(got)}
		}
		for i := range exp.A {
			if d := c19Equal(exp.A[i], got.A[i], fmt.Sprintf("%s[%d]", path, i), false); d != nil {
				return d
			}
		}
	case c19KObj:
		keys := make([]string, 0, len(exp.O))
		for k := range exp.O {
			keys = append(keys, k)
		}
		sort.Strings(keys)
		for _, k := range keys {
			g, ok := got.O[k]
			if !ok {
				cls := "key-dropped"
				if top && strings.HasPrefix(k, "_") {
					cls = "underscore-key-dropped:" + k
				}
				return &c19Diff{Path: fmt.Sprintf("%s.%+q", path, k), Class: cls, Expected: c19Show(exp.O[k]), Got: "<absent>"}
			}
			if d := c19Equal(exp.O[k], g, fmt.Sprintf("%s.%+q", path, k), false); d != nil {
				if top && strings.HasPrefix(k, "_") {
					d.Class = "underscore-key-altered:" + d.Class // (the key is in the diff path)
				}
				return d
			}
		}
		gkeys := make([]string, 0, len(got.O))
		for k := range got.O {
			gkeys = append(gkeys, k)
		}
		sort.Strings(gkeys)
		for _, k := range gkeys {
			if _, ok := exp.O[k]; !ok {
				cls := "key-added"
				if top {
					cls = "key-added:" + k
				}
				return &c19Diff{Path: fmt.Sprintf("%s.%+q", path, k), Class: cls, Expected: "<absent>", Got: c19Show(got.O[k])}
			}
		}
	}
	return nil
}

// c19SelfCheck validates the monitor on one generated body: the value computed from the AST must equal
// the value parsed back from every rendering of it.
func c19SelfCheck(v *c19V, texts ...string) error {
	want := c19FromAST(v)
	for _, tx := range texts {
		got, err := c19Parse([]byte(tx))
		if err != nil {
			return fmt.Errorf("harness parser rejects the harness rendering: %v (%q)", err, tx)
		}
		if d := c19Equal(want, got, "$", true); d != nil {
			return fmt.Errorf("harness rendering does not parse back to the generated value: %+v (%q)", *d, tx)
		}
		if !utf8.ValidString(tx) {
			return errors.New("harness rendering is not valid UTF-8")
		}
	}
	return nil
}

// c19TopUnderscoreKeys lists the top-level keys of the written body that begin with an underscore.
func c19TopUnderscoreKeys(c *c19C) []string {
	var out []string
	for k := range c.O {
		if strings.HasPrefix(k, "_") && !c19Added[k] {
			out = append(out, k)
		}
	}
	sort.Strings(out)
	return out
}
