//go:build verif

package rest

// C02, replication-protocol part: a protocol-level client (raw BLIP connection as each user, every
// sub-protocol the server offers) that records and scans every message it receives — the properties and
// body of every request the server pushes (changes, rev, norev, anything else) and of every response to
// the client's own requests (subChanges, getAttachment, proveAttachment, getRev).
//
// The client is deliberately not well-behaved: it asks for every revision the feed mentions, and while a
// revision is in flight (its attachments are "being sent") as well as on an idle connection it asks for the
// attachments of every other revision known to the model.

import (
	"encoding/json"
	"fmt"
	"sort"
	"strings"
	"sync"
	"testing"
	"time"

	"github.com/couchbase/go-blip"
	"github.com/couchbase/sync_gateway/base"
	"github.com/couchbase/sync_gateway/db"
	"verif/vlib"
)

const c02BlipWatchdog = 40 * time.Second

type c02BlipSession struct {
	c       *c02Corpus
	u       *c02User
	proto   string // CBMobile_N
	variant string
	phase   string
	bt      *BlipTester

	mu        sync.Mutex
	exempt    map[string]bool // tokens the client sent on this connection (doc ids in filters)
	expected  int
	received  int
	caughtUp  bool
	closed    bool
	revBodies int
	fatal     []string
	lastAct   time.Time
}

func (s *c02BlipSession) surface(kind string) string {
	return "blip|" + s.proto + "|" + kind + "|" + s.variant
}

func c02PropsBytes(p blip.Properties) []byte {
	keys := make([]string, 0, len(p))
	for k := range p {
		keys = append(keys, k)
	}
	sort.Strings(keys)
	var sb strings.Builder
	for _, k := range keys {
		sb.WriteString(k)
		sb.WriteString(": ")
		sb.WriteString(p[k])
		sb.WriteString("\n")
	}
	return []byte(sb.String())
}

// observe scans one received message (request pushed by the server, or response to a client request).
func (s *c02BlipSession) observe(kind string, msg *blip.Message, exempt map[string]bool, sent map[string]any) []c02Hit {
	run := s.c.run
	body, err := msg.Body()
	if err != nil {
		run.Count("blip_body_read_errors", 1)
	}
	props := c02PropsBytes(msg.Properties)
	s.mu.Lock()
	s.lastAct = time.Now()
	s.mu.Unlock()
	var hits []c02Hit
	s.c.scan(props, "property", 0, &hits)
	s.c.scan(body, "body", 0, &hits)
	run.Eval()
	run.Count("messages_scanned", 1)
	run.Count("bytes_scanned", len(body)+len(props))
	surface := s.surface(kind)
	run.Distinct("shapes", surface)
	run.Nontrivial(surface + "|" + s.phase + "|" + s.u.kind)
	ex := map[string]bool{}
	s.mu.Lock()
	for k := range s.exempt {
		ex[k] = true
	}
	s.mu.Unlock()
	for k := range exempt {
		ex[k] = true
	}
	witness := func() map[string]any {
		return map[string]any{
			"protocol":        s.proto,
			"session_variant": s.variant,
			"client_sent":     sent,
			"received":        map[string]any{"kind": kind, "type": fmt.Sprint(msg.Type()), "properties": msg.Properties, "body": c02Trunc(string(body), 6000)},
			"basic_auth":      s.u.name + ":" + RestTesterDefaultUserPassword,
		}
	}
	allowed := s.c.judge(surface, s.phase, s.u, hits, ex, witness)
	run.Count("allowed_tokens_seen", allowed)
	s.c.obs.shape(surface, allowed > 0)
	return hits
}

// request sends a client request and scans the response. ok=false if no response arrived in time.
func (s *c02BlipSession) request(kind, profile string, props map[string]string, body []byte) (resp *blip.Message, ok bool) {
	rq := blip.NewRequest()
	rq.SetProfile(profile)
	for k, v := range props {
		rq.Properties[k] = v
	}
	s.bt.addCollectionProperty(rq)
	if body != nil {
		rq.SetBody(body)
	}
	if !s.bt.sender.Send(rq) {
		s.c.run.Count("blip_send_failed", 1)
		return nil, false
	}
	ch := make(chan *blip.Message, 1)
	go func() { ch <- rq.Response() }()
	select {
	case resp = <-ch:
	case <-time.After(c02BlipWatchdog):
		s.c.run.Inconclusive("blip: no response to " + profile + " within the watchdog")
		return nil, false
	}
	sent := map[string]any{"profile": profile, "properties": rq.Properties, "body": c02Trunc(string(body), 2000)}
	ex := s.c.tokensIn(string(c02PropsBytes(rq.Properties)), string(body))
	s.observe(kind, resp, ex, sent)
	return resp, true
}

func (c *c02Corpus) allAtts() []*c02Att {
	var out []*c02Att
	for _, a := range c.atts {
		out = append(out, a)
	}
	sort.Slice(out, func(i, j int) bool { return out[i].digest < out[j].digest })
	return out
}

// askAttachments sends getAttachment for the given attachments (docID property for V3+).
func (s *c02BlipSession) askAttachments(kind string, atts []*c02Att) {
	for _, a := range atts {
		props := map[string]string{db.GetAttachmentDigest: a.digest}
		if s.bt.activeSubprotocol >= db.CBMobileReplicationV3 {
			props[db.GetAttachmentID] = a.marker.doc.id
		}
		if !s.u.allowed(a.marker) {
			s.c.run.Count("forbidden_attachment_requests", 1)
		}
		resp, ok := s.request(kind, db.MessageGetAttachment, props, nil)
		if ok && resp.Type() != blip.ErrorType {
			s.c.run.Count("attachments_served", 1)
		} else if ok && !s.u.allowed(a.marker) {
			s.c.run.Count("forbidden_attachment_requests_refused", 1)
		}
	}
}

func (s *c02BlipSession) install(respond func(entry []any) any, deltas bool) {
	ctx := s.bt.blipContext
	ctx.FatalErrorHandler = func(err error) {
		s.mu.Lock()
		s.fatal = append(s.fatal, err.Error())
		s.mu.Unlock()
	}
	ctx.HandlerPanicHandler = func(request, response *blip.Message, err any) {
		s.c.run.Note("blip client handler panic (%s): %v", request.Profile(), err)
	}
	ctx.HandlerForProfile[db.MessageChanges] = func(msg *blip.Message) {
		s.observe("changes", msg, nil, nil)
		body, _ := msg.Body()
		var entries [][]any
		if len(body) > 0 && string(body) != "null" {
			_ = json.Unmarshal(body, &entries)
		}
		if len(entries) == 0 {
			s.mu.Lock()
			s.caughtUp = true
			s.mu.Unlock()
		}
		if msg.NoReply() {
			return
		}
		answer := make([]any, len(entries))
		n := 0
		for i, e := range entries {
			answer[i] = respond(e)
			if answer[i] != nil {
				n++
			}
		}
		s.mu.Lock()
		s.expected += n
		s.mu.Unlock()
		resp := msg.Response()
		if deltas {
			resp.Properties[db.ChangesResponseDeltas] = "true"
		}
		resp.Properties[db.ChangesResponseMaxHistory] = "20"
		b, _ := json.Marshal(answer)
		resp.SetBody(b)
	}
	ctx.HandlerForProfile[db.MessageRev] = func(msg *blip.Message) {
		hits := s.observe("rev", msg, nil, nil)
		body, _ := msg.Body()
		if len(hits) > 0 {
			s.mu.Lock()
			s.revBodies++
			s.mu.Unlock()
		}
		// the attachments of this revision are now "being sent": ask for them, and for everybody else's
		var doc struct {
			Atts map[string]struct {
				Digest string `json:"digest"`
			} `json:"_attachments"`
		}
		_ = json.Unmarshal(body, &doc)
		var own []*c02Att
		for _, a := range doc.Atts {
			if ma, ok := s.c.atts[a.Digest]; ok {
				own = append(own, ma)
			}
		}
		if !msg.NoReply() {
			s.askAttachments("getAttachment(own, rev in flight)", own)
			s.askAttachments("getAttachment(all, rev in flight)", s.c.allAtts())
			msg.Response().SetBody([]byte{})
		}
		s.mu.Lock()
		s.received++
		s.mu.Unlock()
	}
	ctx.HandlerForProfile[db.MessageNoRev] = func(msg *blip.Message) {
		s.observe("norev", msg, nil, nil)
		s.mu.Lock()
		s.received++
		s.mu.Unlock()
	}
	ctx.DefaultHandler = func(msg *blip.Message) {
		s.observe("other:"+msg.Profile(), msg, nil, nil)
	}
}

// waitPull polls for "the feed said it is caught up, every requested revision has arrived (as rev or norev)
// and nothing has been received for a moment"; a watchdog expiry is inconclusive.
func (s *c02BlipSession) waitPull() bool {
	deadline := time.Now().Add(c02BlipWatchdog)
	for time.Now().Before(deadline) {
		s.mu.Lock()
		done := s.caughtUp && s.received >= s.expected && time.Since(s.lastAct) > 30*time.Millisecond
		s.mu.Unlock()
		if done {
			return true
		}
		time.Sleep(2 * time.Millisecond)
	}
	s.c.run.Inconclusive("blip: pull did not complete within the watchdog (" + s.variant + ")")
	return false
}

func (c *c02Corpus) openBlip(u *c02User, proto, variant, phase string) *c02BlipSession {
	bt, err := createBlipTesterWithSpec(c.rt, BlipTesterSpec{connectingUsername: u.name, blipProtocols: []string{proto}})
	if err != nil || bt == nil {
		c.run.Count("blip_connect_failed", 1)
		c.run.Note("blip connect %s as %s: %v", proto, u.name, err)
		return nil
	}
	bt.avoidRestTesterClose = true
	c.run.Count("connections", 1)
	return &c02BlipSession{c: c, u: u, proto: proto, variant: variant, phase: phase, bt: bt, exempt: map[string]bool{}}
}

func (s *c02BlipSession) close() {
	s.bt.sender.Close()
}

// pull runs one subChanges session.
func (s *c02BlipSession) pull(props map[string]string, body []byte, respond func(entry []any) any, deltas bool) {
	s.install(respond, deltas)
	for k := range s.c.tokensIn(string(body), fmt.Sprint(props)) {
		s.exempt[k] = true
	}
	p := map[string]string{db.SubChangesContinuous: "false", db.SubChangesBatch: "50"}
	for k, v := range props {
		p[k] = v
	}
	resp, ok := s.request("subChanges", db.MessageSubChanges, p, body)
	if !ok {
		return
	}
	if resp.Type() == blip.ErrorType {
		s.c.run.Count("subchanges_rejected", 1)
		return
	}
	if s.waitPull() {
		s.c.run.Count("pulls_completed", 1)
		s.mu.Lock()
		s.c.run.Count("revs_and_norevs_received", s.received)
		s.mu.Unlock()
	}
}

func c02WantAll(entry []any) any { return []any{} }

func (c *c02Corpus) blipUser(t *testing.T, u *c02User, proto, phase string) {
	run := c.run
	var ids []string
	firstRev := map[string]string{}
	for _, d := range c.docs {
		ids = append(ids, d.id)
		firstRev[d.id] = d.revs[0].revID
	}
	v3 := proto != db.CBMobileReplicationV2.SubprotocolString()

	// 1. plain one-shot pull, the client wants everything
	if s := c.openBlip(u, proto, "pull", phase); s != nil {
		p := map[string]string{}
		if v3 {
			p[db.SubChangesRevocations] = "true"
		}
		s.pull(p, nil, c02WantAll, false)
		s.mu.Lock()
		run.Count("rev_messages_with_tokens", s.revBodies)
		s.mu.Unlock()
		// idle connection afterwards: nothing is in flight any more
		s.variant = "pull(after)"
		s.askAttachments("getAttachment(all, idle)", c.allAtts())
		s.close()
	}
	// 2. channel filter naming channels the user may not have, active only, client claims to know the first revision
	if s := c.openBlip(u, proto, "pull+bychannel+activeOnly+knownRevs+deltas", phase); s != nil {
		s.pull(map[string]string{db.SubChangesFilter: base.ByChannelFilter, db.SubChangesChannels: "A,B,C,!,Z", db.SubChangesActiveOnly: "true"}, nil,
			func(e []any) any {
				if len(e) > 1 {
					if id, ok := e[1].(string); ok && firstRev[id] != "" {
						return []any{firstRev[id]}
					}
				}
				return []any{}
			}, true)
		s.close()
	}
	// 3. document-id filter naming every document
	if s := c.openBlip(u, proto, "pull+docIDs", phase); s != nil {
		b, _ := json.Marshal(map[string]any{"docIDs": ids})
		s.pull(nil, b, c02WantAll, true)
		s.close()
	}
	// 4. resume from the middle, replacement revisions requested
	if s := c.openBlip(u, proto, "pull+since+sendReplacementRevs", phase); s != nil {
		p := map[string]string{db.SubChangesSince: fmt.Sprintf("%d", c.midSeq), db.SubChangesSendReplacementRevs: "true"}
		if v3 {
			p[db.SubChangesRevocations] = "true"
		}
		s.pull(p, nil, c02WantAll, false)
		s.close()
	}
	// 5. no subscription at all: attachment, proof and single-revision requests out of the blue
	if s := c.openBlip(u, proto, "no-subscription", phase); s != nil {
		s.install(c02WantAll, false)
		s.askAttachments("getAttachment(all, idle)", c.allAtts())
		for _, a := range c.allAtts() {
			s.request("proveAttachment", db.MessageProveAttachment, map[string]string{db.ProveAttachmentDigest: a.digest}, []byte("nonce-0123456789"))
		}
		for _, d := range c.docs {
			if w := d.winner(); w != nil && !u.canSeeRev(w) && w.marker != nil {
				run.Count("forbidden_getRev_requests", 1)
			}
			s.request("getRev", db.MessageGetRev, map[string]string{db.GetRevMessageId: d.id}, nil)
			s.request("getRev+ifNotRev", db.MessageGetRev, map[string]string{db.GetRevMessageId: d.id, db.GetRevIfNotRev: d.revs[0].revID}, nil)
		}
		s.close()
	}
	// (The repository's BlipTesterClient is not used: it asserts client-side expectations with require — e.g.
	// "incoming CV has lower version than the local revision" on the legacy-conflict documents of this corpus —
	// and would fail the whole run for reasons outside this property. The raw client above receives a
	// superset of what it stores.)
	_ = t
}

func c02BlipProtocols() []string {
	return []string{db.CBMobileReplicationV2.SubprotocolString(), db.CBMobileReplicationV3.SubprotocolString(), db.CBMobileReplicationV4.SubprotocolString()}
}

func c02BlipCorpus(t *testing.T, run *vlib.Run, obs *c02Obs, ci int, sampleOnce *sync.Once) {
	c := c02BuildCorpus(t, run, ci, run.CaseRand(ci))
	defer c.rt.Close()
	c.obs = obs
	run.Count("corpora", 1)
	run.Count("documents", len(c.docs))
	for _, d := range c.docs {
		run.Count("revisions", len(d.revs))
		run.Distinct("doc_kinds", d.kind)
	}
	sampleOnce.Do(func() {
		var docs []any
		for _, d := range c.docs[:3] {
			docs = append(docs, map[string]any{"id": d.id, "kind": d.kind, "revs": c.describeDoc(d)})
		}
		run.Sample(map[string]any{"kind": fmt.Sprintf("corpus %d", ci), "protocols": c02BlipProtocols(), "users": len(c.users), "attachments": len(c.atts), "example_docs": docs,
			"sessions_per_user_and_protocol": []string{"pull", "pull+bychannel+activeOnly+knownRevs+deltas", "pull+docIDs", "pull+since+sendReplacementRevs", "no-subscription"}})
	})
	dbc := c.rt.GetDatabase()
	sweep := func(phase string, users []*c02User) {
		var wg sync.WaitGroup
		for _, u := range users {
			wg.Add(1)
			go func(u *c02User) {
				defer wg.Done()
				for _, proto := range c02BlipProtocols() {
					if proto == db.CBMobileReplicationV2.SubprotocolString() && !c.defColl {
						continue // V2 predates collections
					}
					c.blipUser(t, u, proto, phase)
				}
			}(u)
		}
		wg.Wait()
	}
	sweep("warm", c.users)
	dbc.FlushRevisionCacheForTest()
	dbc.FlushChannelCache(t)
	c.rt.WaitForPendingChanges()
	rev := make([]*c02User, len(c.users))
	for i, u := range c.users {
		rev[len(rev)-1-i] = u
	}
	sweep("cold", rev)
}

func TestVerif_C02_Blip(t *testing.T) {
	run := vlib.Start(t, "C02", "blip")
	defer run.Finish()
	base.SetUpTestLogging(t, base.LevelError, base.KeyNone)
	obs := c02NewObs(run)
	defer obs.finish()
	n := c02Corpora(run)
	only, onlySet := run.OnlyCase()
	work := make(chan int)
	var pool sync.WaitGroup
	var sampleOnce sync.Once
	for w := 0; w < c02Par(); w++ {
		pool.Add(1)
		go func() {
			defer pool.Done()
			for ci := range work {
				c02BlipCorpus(t, run, obs, ci, &sampleOnce)
			}
		}()
	}
	for ci := 0; ci < n; ci++ {
		if onlySet && ci != only {
			continue
		}
		work <- ci
	}
	close(work)
	pool.Wait()
}
