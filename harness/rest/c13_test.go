//go:build verif

package rest

import (
	"encoding/json"
	"fmt"
	"net/url"
	"os"
	"sort"
	"strconv"
	"strings"
	"sync"
	"testing"

	"github.com/couchbase/sync_gateway/base"
	"github.com/couchbase/sync_gateway/db"
	"verif/vlib"
)

// C13 — a pulling client's copy always matches the user's current access.
//
// Two protocol-following client models pull as one user from a database that an administrator (and a
// body-driven sync function) keeps changing: (a) REST `_changes?revocations=true&since=<last>` + fetch of every
// listed revision as the user (this file), (b) BlipTesterClient one-shot pulls (c13blip_test.go). After every
// completed pull the replica must equal {d -> current revision : the user can see d now} computed by the
// DocModel/AccessModel below (the sync function is channel(doc.ch); access(doc.grant_to, doc.grant_ch);
// role(doc.role_to, doc.role), so the model computes every grant directly from the bodies it wrote).

const c13SyncFn = `function(doc, oldDoc){
	channel(doc.ch);
	if (doc.grant_to) { access(doc.grant_to, doc.grant_ch); }
	if (doc.role_to) { role(doc.role_to, doc.role); }
}`

// ---------------------------------------------------------------------------------------------
// model

type c13Doc struct {
	ID      string   `json:"id"`
	Exists  bool     `json:"exists"`
	Deleted bool     `json:"deleted"`
	Rev     string   `json:"rev"`
	CV      string   `json:"cv"`
	Ch      []string `json:"ch"`
	GrantTo string   `json:"grant_to,omitempty"` // user name or "role:<name>"
	GrantCh []string `json:"grant_ch,omitempty"`
	RoleTo  string   `json:"role_to,omitempty"`
	Role    string   `json:"role,omitempty"` // "role:<name>"
	Writes  int      `json:"writes"`
	Seq     uint64   `json:"seq"` // database sequence of the current revision (one sequence per write: batching is suspended)
}

func (d *c13Doc) live() bool { return d.Exists && !d.Deleted }

// c13Star is the all-documents channel: every live document is in it, no document lists it.
const c13Star = "*"

// inCh: the channels a live document is in, including the all-documents channel.
func (d *c13Doc) inCh() []string {
	if !d.live() {
		return nil
	}
	return append(append([]string{}, d.Ch...), c13Star)
}

type c13Role struct {
	Exists bool            `json:"exists"`
	Ch     map[string]bool `json:"ch"`
}

type c13Model struct {
	User      string
	Docs      []*c13Doc
	UserCh    map[string]bool
	UserRoles map[string]bool
	RoleNames []string
	Roles     map[string]*c13Role
}

func c13Has(xs []string, x string) bool {
	for _, y := range xs {
		if y == x {
			return true
		}
	}
	return false
}

func c13Keys(m map[string]bool) []string {
	out := []string{}
	for k, v := range m {
		if v {
			out = append(out, k)
		}
	}
	sort.Strings(out)
	return out
}

// roleMemberships returns through which kinds of grant the user holds role r now ("admin-role", "doc-role").
func (m *c13Model) roleMemberships(r string) []string {
	var out []string
	if m.UserRoles[r] {
		out = append(out, "admin-role")
	}
	for _, d := range m.Docs {
		if d.live() && d.RoleTo == m.User && d.Role == "role:"+r {
			out = append(out, "doc-role")
			break
		}
	}
	return out
}

// chanSources lists the grant sources through which the user holds channel c now.
func (m *c13Model) chanSources(c string) []string {
	set := map[string]bool{}
	if m.UserCh[c] {
		set["user-admin"] = true
	}
	for _, d := range m.Docs {
		if d.live() && d.GrantTo == m.User && c13Has(d.GrantCh, c) {
			set["user-docgrant"] = true
		}
	}
	for _, r := range m.RoleNames {
		ro := m.Roles[r]
		if ro == nil || !ro.Exists {
			continue
		}
		for _, mem := range m.roleMemberships(r) {
			if ro.Ch[c] {
				set[mem+"/role-admin"] = true
			}
			for _, d := range m.Docs {
				if d.live() && d.GrantTo == "role:"+r && c13Has(d.GrantCh, c) {
					set[mem+"/role-docgrant"] = true
				}
			}
		}
	}
	return c13Keys(set)
}

func (m *c13Model) userChannels(all []string) []string {
	out := []string{}
	for _, c := range all {
		if len(m.chanSources(c)) > 0 {
			out = append(out, c)
		}
	}
	return out
}

func (m *c13Model) docSources(d *c13Doc) []string {
	set := map[string]bool{}
	if !d.live() {
		return nil
	}
	for _, c := range d.inCh() {
		for _, s := range m.chanSources(c) {
			set[s] = true
		}
	}
	return c13Keys(set)
}

func (m *c13Model) visible(d *c13Doc) bool { return len(m.docSources(d)) > 0 }

// c13Snap is what the model said at one moment (taken at every completed pull).
type c13Snap struct {
	Visible map[string]bool     `json:"visible"`
	Rev     map[string]string   `json:"rev"`
	Ch      map[string][]string `json:"ch"`
	Sources map[string][]string `json:"sources"`
	Deleted map[string]bool     `json:"deleted"`
	UserCh  []string            `json:"user_channels"`
	// per channel the user holds: is it granted to the user directly (admin_channels / access() to the user),
	// and through which roles
	ChanDirect map[string]bool     `json:"channel_direct"`
	ChanRoles  map[string][]string `json:"channel_roles"`
}

func (m *c13Model) snap(all []string) *c13Snap {
	s := &c13Snap{Visible: map[string]bool{}, Rev: map[string]string{}, Ch: map[string][]string{}, Sources: map[string][]string{}, Deleted: map[string]bool{}}
	for _, d := range m.Docs {
		s.Visible[d.ID] = m.visible(d)
		s.Rev[d.ID] = d.Rev
		s.Ch[d.ID] = append([]string{}, d.Ch...)
		s.Sources[d.ID] = m.docSources(d)
		s.Deleted[d.ID] = d.Exists && d.Deleted
	}
	s.UserCh = m.userChannels(all)
	s.ChanDirect, s.ChanRoles = map[string]bool{}, map[string][]string{}
	for _, c := range s.UserCh {
		for _, src := range m.chanSources(c) {
			if strings.HasPrefix(src, "user-") {
				s.ChanDirect[c] = true
			}
		}
		for _, r := range m.RoleNames {
			ro := m.Roles[r]
			if ro == nil || !ro.Exists || len(m.roleMemberships(r)) == 0 {
				continue
			}
			via := ro.Ch[c]
			for _, d := range m.Docs {
				if d.live() && d.GrantTo == "role:"+r && c13Has(d.GrantCh, c) {
					via = true
				}
			}
			if via {
				s.ChanRoles[c] = append(s.ChanRoles[c], r)
			}
		}
	}
	return s
}

// ---------------------------------------------------------------------------------------------
// environment of one history

type c13Op struct {
	I      int    `json:"i"`
	Kind   string `json:"kind"`
	Req    string `json:"req,omitempty"`
	Status int    `json:"status,omitempty"`
	Result any    `json:"result,omitempty"`
	Seq    uint64 `json:"db_seq_after,omitempty"`
	Skip   int64  `json:"cache_skipped_seqs,omitempty"`
}

type c13RowObs struct {
	Seq     string   `json:"seq"`
	ID      string   `json:"id"`
	Rev     string   `json:"rev,omitempty"`
	Deleted bool     `json:"deleted,omitempty"`
	Removed []string `json:"removed,omitempty"`
	Revoked bool     `json:"revoked,omitempty"`
	Flags   int      `json:"flags,omitempty"` // BLIP deleted-flags value
	Applied string   `json:"applied"`         // what the client model did with it
}

type c13Client struct {
	Name    string            // "rest", "blip-v3", "blip-v4"
	UseCV   bool              // replica holds CVs rather than revtree ids
	Since   string            // resume token
	Replica map[string]string // doc -> revision held
	Last    *c13Snap          // model at the last completed pull
	Pulls   int
}

type c13Env struct {
	t    *testing.T
	run  *vlib.Run
	rt   *RestTester
	part string
	idx  int // history index
	// settle: wait for the change cache after every write (no principal version is overwritten before the
	// cache saw it, so no sequence is skipped and resume tokens have no low-sequence part)
	settle bool

	user  string
	chans []string
	allCh []string // chans + the all-documents channel
	m     *c13Model
	ops   []c13Op

	cl     *c13Client
	blip   *c13BlipSession // nil in the rest part (and between two pulls)
	blipV4 bool

	// per-history feature bookkeeping (between two pulls)
	roleDeletedSincePull bool
	flapSincePull        bool
	loadedWhileRoleGone  bool // the user was loaded (rebuilt and saved: the gap is in its role history) while a role it holds again was gone
	opsSincePull         int
	sawSkipped           bool
	violated             bool
	sawAnnouncement      bool // history observed >= 1 revoked/removed/deleted/backfill row
	stop                 bool // history abandoned (inconclusive)
	rowsByDoc            map[string][]string
	lostCh               map[string]bool // channels the user did not hold at some moment since the previous pull
	grantChanged         map[string]bool // channels whose set of grants (who grants it, through what) changed since the previous pull
	grantBase            map[string]string
	rolesDeleted         map[string]bool   // roles deleted since the previous pull ...
	rolesRecreated       map[string]bool   // ... and created again since
	rolesCreated         map[string]bool   // roles created (PUT answered 201) since the previous pull
	roleLost             map[string]bool   // roles the user did not hold at some moment since the previous pull
	lostSeq              map[string]uint64 // database sequence after the operation at which a channel was first found not held
	gainedSeq            map[string]uint64 // ... at which a channel not held before was last found held again
	heldPrev             map[string]bool
}

// track is called after every change of the model: it records what happened between two pulls.
func (e *c13Env) track() {
	if e.lostCh == nil {
		e.lostCh, e.rolesDeleted, e.rolesRecreated, e.rolesCreated = map[string]bool{}, map[string]bool{}, map[string]bool{}, map[string]bool{}
		e.grantChanged, e.grantBase = map[string]bool{}, map[string]string{}
		e.roleLost = map[string]bool{}
		e.lostSeq, e.gainedSeq, e.heldPrev = map[string]uint64{}, map[string]uint64{}, map[string]bool{}
		for _, c := range e.allCh {
			e.grantBase[c] = e.m.grantKey(c)
			e.heldPrev[c] = len(e.m.chanSources(c)) > 0
		}
	}
	var seqNow uint64
	if n := len(e.ops); n > 0 {
		seqNow = e.ops[n-1].Seq
	}
	for _, r := range e.m.RoleNames {
		if len(e.m.roleMemberships(r)) == 0 {
			e.roleLost[r] = true
		}
	}
	for _, c := range e.allCh {
		heldNow := len(e.m.chanSources(c)) > 0
		if !heldNow {
			if !e.lostCh[c] {
				e.lostSeq[c] = seqNow
			}
			e.lostCh[c] = true
		} else if !e.heldPrev[c] {
			e.gainedSeq[c] = seqNow
		}
		e.heldPrev[c] = heldNow
		if e.m.grantKey(c) != e.grantBase[c] {
			e.grantChanged[c] = true
		}
	}
}

// grantKey names every individual grant of channel c to the user (which admin entry, which document, which
// role through which membership).
func (m *c13Model) grantKey(c string) string {
	var ks []string
	if m.UserCh[c] {
		ks = append(ks, "user-admin")
	}
	for _, d := range m.Docs {
		if d.live() && d.GrantTo == m.User && c13Has(d.GrantCh, c) {
			ks = append(ks, "user-docgrant:"+d.ID)
		}
	}
	for _, r := range m.RoleNames {
		ro := m.Roles[r]
		if ro == nil || !ro.Exists {
			continue
		}
		var mem []string
		if m.UserRoles[r] {
			mem = append(mem, "admin")
		}
		for _, d := range m.Docs {
			if d.live() && d.RoleTo == m.User && d.Role == "role:"+r {
				mem = append(mem, "doc:"+d.ID)
			}
		}
		if len(mem) == 0 {
			continue
		}
		if ro.Ch[c] {
			ks = append(ks, "role:"+r+"["+strings.Join(mem, ",")+"]:admin")
		}
		for _, d := range m.Docs {
			if d.live() && d.GrantTo == "role:"+r && c13Has(d.GrantCh, c) {
				ks = append(ks, "role:"+r+"["+strings.Join(mem, ",")+"]:docgrant:"+d.ID)
			}
		}
	}
	return strings.Join(ks, ";")
}

func c13JSON(v any) string { b, _ := json.Marshal(v); return string(b) }

func c13Trunc(s string, n int) string {
	if len(s) > n {
		return s[:n] + "..."
	}
	return s
}

func (e *c13Env) log(kind, req string, status int, result any) {
	op := c13Op{I: len(e.ops), Kind: kind, Req: req, Status: status, Result: result}
	if seq, err := e.rt.GetDatabase().LastSequence(e.rt.Context()); err == nil {
		op.Seq = seq
	}
	op.Skip = e.rt.GetDatabase().DbStats.Cache().NumCurrentSeqsSkipped.Value()
	if op.Skip > 0 && !e.sawSkipped {
		// rapid rewrites of a principal can overwrite a version before the cache saw it: its sequence stays
		// "skipped" and resume tokens get a low-sequence part (only in the histories that do not settle)
		e.sawSkipped = true
		e.run.Count("histories_with_skipped_sequences", 1)
	}
	e.ops = append(e.ops, op)
}

func (e *c13Env) witness(extra map[string]any) map[string]any {
	w := map[string]any{
		"history":       e.idx,
		"part":          e.part,
		"client":        e.cl.Name,
		"sync_function": c13SyncFn,
		"user":          e.user,
		"ops":           e.ops,
		"replica":       e.cl.Replica,
		"resume_token":  e.cl.Since,
		"how_to_replay": "admin requests in order on an empty database with the sync function above; 'pull' entries are the user's requests (basic auth " + e.user + ":" + RestTesterDefaultUserPassword + ") with the recorded since values",
	}
	for k, v := range extra {
		w[k] = v
	}
	return w
}

// admin request helper: records the op; a non-2xx status abandons the history as inconclusive (the workload
// only issues requests that the model expects to succeed).
func (e *c13Env) admin(kind, method, path, body string) (map[string]any, bool) {
	resp := e.rt.SendAdminRequest(method, path, body)
	var out map[string]any
	_ = json.Unmarshal(resp.Body.Bytes(), &out)
	req := method + " " + path
	if body != "" {
		req += " " + body
	}
	if e.settle && !e.waitCache() {
		e.stop = true
	}
	e.log(kind, req, resp.Code, out)
	if resp.Code < 200 || resp.Code > 299 {
		e.run.Inconclusive("admin request refused: " + kind)
		e.run.Note("history %d (%s): %s -> %d %s", e.idx, e.part, req, resp.Code, strings.TrimSpace(resp.Body.String()))
		e.stop = true
		return out, false
	}
	return out, true
}

func (e *c13Env) putUser(create bool) {
	pw := ""
	if create {
		pw = RestTesterDefaultUserPassword
	}
	payload := GetUserPayload(e.t, "", pw, "", e.rt.GetSingleDataStore(), c13Keys(e.m.UserCh), c13Keys(e.m.UserRoles))
	e.admin("user", "PUT", "/{{.db}}/_user/"+e.user, payload)
	e.track()
}

func (e *c13Env) putRole(r string) {
	payload := GetRolePayload(e.t, "", e.rt.GetSingleDataStore(), c13Keys(e.m.Roles[r].Ch))
	e.admin("role", "PUT", "/{{.db}}/_role/"+r, payload)
	e.track()
	if e.rolesDeleted[r] {
		e.rolesRecreated[r] = true
	}
	if n := len(e.ops); n > 0 && e.ops[n-1].Status == 201 {
		e.rolesCreated[r] = true
	}
}

func (e *c13Env) deleteRole(r string) {
	if _, ok := e.admin("role-delete", "DELETE", "/{{.db}}/_role/"+r, ""); ok {
		e.m.Roles[r].Exists = false
		e.m.Roles[r].Ch = map[string]bool{}
		e.roleDeletedSincePull = true
		e.track()
		e.rolesDeleted[r] = true
	}
}

func (e *c13Env) writeDoc(d *c13Doc, kind string) {
	d.Writes++
	body := map[string]any{"ch": d.Ch, "m": fmt.Sprintf("%s-w%d", d.ID, d.Writes)}
	if d.GrantTo != "" {
		body["grant_to"] = d.GrantTo
		body["grant_ch"] = d.GrantCh
	}
	if d.RoleTo != "" {
		body["role_to"] = d.RoleTo
		body["role"] = d.Role
	}
	path := "/{{.keyspace}}/" + d.ID
	if d.Exists {
		path += "?rev=" + url.QueryEscape(d.Rev)
	}
	out, ok := e.admin(kind, "PUT", path, c13JSON(body))
	if !ok {
		return
	}
	d.Exists, d.Deleted = true, false
	d.Rev, _ = out["rev"].(string)
	d.CV, _ = out["cv"].(string)
	d.Seq = e.ops[len(e.ops)-1].Seq
	e.track()
}

func (e *c13Env) deleteDoc(d *c13Doc) {
	out, ok := e.admin("doc-delete", "DELETE", "/{{.keyspace}}/"+d.ID+"?rev="+url.QueryEscape(d.Rev), "")
	if !ok {
		return
	}
	d.Deleted = true
	d.Rev, _ = out["rev"].(string)
	d.CV, _ = out["cv"].(string)
	d.Seq = e.ops[len(e.ops)-1].Seq
	// a tombstone written through the REST API has an empty body: no channels, no grants
	d.Ch, d.GrantTo, d.GrantCh, d.RoleTo, d.Role = nil, "", nil, "", ""
	e.track()
}

// ---------------------------------------------------------------------------------------------
// generator

func (e *c13Env) randChans(r *vlib.Rand, min, max int) []string {
	n := r.Range(min, max)
	p := r.Perm(len(e.chans))
	out := []string{}
	for i := 0; i < n && i < len(p); i++ {
		out = append(out, e.chans[p[i]])
	}
	sort.Strings(out)
	return out
}

// randGrantChans: channels for an admin or sync-function grant; now and then the all-documents channel.
func (e *c13Env) randGrantChans(r *vlib.Rand, min, max, starIn int) []string {
	out := e.randChans(r, min, max)
	if r.Chance(1, starIn) {
		out = append(out, c13Star)
		sort.Strings(out)
	}
	return out
}

func (e *c13Env) randGrants(r *vlib.Rand, d *c13Doc) {
	d.GrantTo, d.GrantCh, d.RoleTo, d.Role = "", nil, "", ""
	if r.Chance(2, 5) {
		switch r.Intn(3) {
		case 0:
			d.GrantTo = e.user
		default:
			d.GrantTo = "role:" + vlib.Pick(r, e.m.RoleNames)
		}
		d.GrantCh = e.randGrantChans(r, 1, 2, 10)
	}
	if r.Chance(1, 4) {
		d.RoleTo = e.user
		d.Role = "role:" + vlib.Pick(r, e.m.RoleNames)
	}
}

func (e *c13Env) setup(r *vlib.Rand) {
	pfx := fmt.Sprintf("h%d", e.idx)
	e.user = pfx + "u"
	e.chans = []string{pfx + "A", pfx + "B", pfx + "C"}
	e.allCh = append(append([]string{}, e.chans...), c13Star)
	e.m = &c13Model{User: e.user, UserCh: map[string]bool{}, UserRoles: map[string]bool{}, Roles: map[string]*c13Role{}}
	e.m.RoleNames = []string{pfx + "r1", pfx + "r2"}
	for _, rn := range e.m.RoleNames {
		e.m.Roles[rn] = &c13Role{Ch: map[string]bool{}}
	}
	for i := 0; i < 4; i++ {
		e.m.Docs = append(e.m.Docs, &c13Doc{ID: fmt.Sprintf("%sd%d", pfx, i)})
	}
	// roles: the first always exists, the second in half of the histories ("1-2 roles"; the second may be created later)
	for i, rn := range e.m.RoleNames {
		if i == 0 || r.Bool() {
			e.m.Roles[rn].Exists = true
			for _, c := range e.randGrantChans(r, 0, 2, 10) {
				e.m.Roles[rn].Ch[c] = true
			}
			e.putRole(rn)
		}
	}
	for _, c := range e.randGrantChans(r, 0, 2, 8) {
		e.m.UserCh[c] = true
	}
	for _, rn := range e.m.RoleNames {
		if r.Chance(1, 2) {
			e.m.UserRoles[rn] = true
		}
	}
	e.putUser(true)
	for _, d := range e.m.Docs {
		d.Ch = e.randChans(r, 1, 2)
		e.randGrants(r, d)
		e.writeDoc(d, "doc-create")
	}
}

// one random non-pull operation
func (e *c13Env) randomOp(r *vlib.Rand) {
	e.opsSincePull++
	switch x := r.Intn(100); {
	case x < 34: // document write
		d := vlib.Pick(r, e.m.Docs)
		switch y := r.Intn(10); {
		case !d.live():
			d.Ch = e.randChans(r, 1, 2)
			e.randGrants(r, d)
			e.writeDoc(d, "doc-recreate")
		case y < 3:
			e.writeDoc(d, "doc-rewrite") // new revision, same channels and grants
		case y < 7:
			d.Ch = e.randChans(r, 0, 2)
			e.writeDoc(d, "doc-move")
		default:
			e.randGrants(r, d)
			e.writeDoc(d, "doc-regrant")
		}
	case x < 42: // delete
		d := vlib.Pick(r, e.m.Docs)
		if d.live() {
			e.deleteDoc(d)
		} else {
			d.Ch = e.randChans(r, 1, 2)
			e.randGrants(r, d)
			e.writeDoc(d, "doc-recreate")
		}
	case x < 56: // user admin channels
		e.m.UserCh = map[string]bool{}
		for _, c := range e.randGrantChans(r, 0, 2, 8) {
			e.m.UserCh[c] = true
		}
		e.putUser(false)
	case x < 67: // user admin roles
		e.m.UserRoles = map[string]bool{}
		for _, rn := range e.m.RoleNames {
			if r.Chance(1, 2) {
				e.m.UserRoles[rn] = true
			}
		}
		e.putUser(false)
	case x < 80: // role admin channels (creates the role when it does not exist)
		rn := vlib.Pick(r, e.m.RoleNames)
		e.m.Roles[rn].Exists = true
		e.m.Roles[rn].Ch = map[string]bool{}
		for _, c := range e.randGrantChans(r, 0, 2, 10) {
			e.m.Roles[rn].Ch[c] = true
		}
		e.putRole(rn)
	case x < 87: // role deletion
		rn := vlib.Pick(r, e.m.RoleNames)
		if e.m.Roles[rn].Exists {
			e.deleteRole(rn)
		} else {
			e.m.Roles[rn].Exists = true
			for _, c := range e.randGrantChans(r, 1, 2, 10) {
				e.m.Roles[rn].Ch[c] = true
			}
			e.putRole(rn)
		}
	default: // loss and re-grant with nothing in between but (possibly) a document write
		e.flap(r)
	}
}

// flap removes one grant source and restores it, optionally rewriting a document in the gap.
func (e *c13Env) flap(r *vlib.Rand) {
	between := func() {
		if r.Chance(1, 2) {
			d := vlib.Pick(r, e.m.Docs)
			if d.live() {
				e.writeDoc(d, "doc-rewrite")
			}
		}
	}
	e.flapSincePull = true
	switch r.Intn(4) {
	case 0: // user admin channels off / on
		saved := e.m.UserCh
		if len(c13Keys(saved)) == 0 {
			saved = map[string]bool{vlib.Pick(r, e.chans): true}
		}
		e.m.UserCh = map[string]bool{}
		e.putUser(false)
		between()
		e.m.UserCh = saved
		e.putUser(false)
	case 1: // admin roles off / on
		saved := e.m.UserRoles
		if len(c13Keys(saved)) == 0 {
			saved = map[string]bool{e.m.RoleNames[0]: true}
		}
		e.m.UserRoles = map[string]bool{}
		e.putUser(false)
		between()
		e.m.UserRoles = saved
		e.putUser(false)
	case 2: // role deleted and created again with the same channels
		rn := e.m.RoleNames[0]
		if !e.m.Roles[rn].Exists {
			e.m.Roles[rn].Exists = true
			e.putRole(rn)
		}
		saved := e.m.Roles[rn].Ch
		e.deleteRole(rn)
		between()
		e.m.Roles[rn].Exists = true
		e.m.Roles[rn].Ch = saved
		e.putRole(rn)
	default: // granting document deleted and written again
		var g *c13Doc
		for _, d := range e.m.Docs {
			if d.live() && (d.GrantTo != "" || d.RoleTo != "") {
				g = d
				break
			}
		}
		if g == nil {
			g = e.m.Docs[0]
			if !g.live() {
				g.Ch = e.randChans(r, 1, 1)
			}
			g.GrantTo, g.GrantCh = e.user, e.randChans(r, 1, 2)
			e.writeDoc(g, "doc-regrant")
		}
		saved := *g
		e.deleteDoc(g)
		between()
		g.Ch, g.GrantTo, g.GrantCh, g.RoleTo, g.Role = saved.Ch, saved.GrantTo, saved.GrantCh, saved.RoleTo, saved.Role
		e.writeDoc(g, "doc-recreate")
	}
}

// scripted prefixes guarantee the corner histories of the property statement on every seed; the random tail
// follows. Each returns after leaving the model consistent.
func (e *c13Env) scripted(r *vlib.Rand, which int, pull func()) {
	A, B := e.chans[0], e.chans[1]
	r1, r2 := e.m.RoleNames[0], e.m.RoleNames[1]
	d0, d1, d2 := e.m.Docs[0], e.m.Docs[1], e.m.Docs[2]
	reset := func() {
		// put the history in a known state: no grants, d0..d2 in A, A, B
		e.m.UserCh, e.m.UserRoles = map[string]bool{}, map[string]bool{}
		e.putUser(false)
		for _, rn := range e.m.RoleNames {
			e.m.Roles[rn].Exists, e.m.Roles[rn].Ch = true, map[string]bool{}
			e.putRole(rn)
		}
		for i, d := range e.m.Docs {
			d.GrantTo, d.GrantCh, d.RoleTo, d.Role = "", nil, "", ""
			d.Ch = []string{A}
			if i >= 2 {
				d.Ch = []string{B}
			}
			e.writeDoc(d, "doc-move")
		}
	}
	reset()
	switch which {
	case 0: // role deletion after the client pulled through the role
		e.m.Roles[r1].Ch = map[string]bool{A: true}
		e.putRole(r1)
		e.m.UserRoles[r1] = true
		e.putUser(false)
		pull()
		e.deleteRole(r1)
		pull()
		e.m.Roles[r1].Exists, e.m.Roles[r1].Ch = true, map[string]bool{A: true}
		e.putRole(r1)
		pull()
	case 1: // the same channel from two sources: lose one (nothing may be revoked), then the other
		e.m.UserCh[A] = true
		e.m.Roles[r1].Ch = map[string]bool{A: true}
		e.putRole(r1)
		e.m.UserRoles[r1] = true
		e.putUser(false)
		pull()
		e.m.UserCh = map[string]bool{}
		e.putUser(false)
		pull()
		e.m.Roles[r1].Ch = map[string]bool{}
		e.putRole(r1)
		pull()
	case 2: // loss and re-grant between two pulls, with a document rewritten / moved in the gap
		e.m.UserCh[A] = true
		e.putUser(false)
		pull()
		e.m.UserCh = map[string]bool{}
		e.putUser(false)
		e.writeDoc(d0, "doc-rewrite")
		d1.Ch = []string{B}
		e.writeDoc(d1, "doc-move")
		e.m.UserCh[A] = true
		e.putUser(false)
		e.flapSincePull = true
		pull()
	case 3: // sync-function grants: channel through a document, role through a document; granting documents deleted
		d2.GrantTo, d2.GrantCh = e.user, []string{A}
		e.writeDoc(d2, "doc-regrant")
		e.m.Docs[3].RoleTo, e.m.Docs[3].Role = e.user, "role:"+r2
		e.writeDoc(e.m.Docs[3], "doc-regrant")
		e.m.Roles[r2].Ch = map[string]bool{B: true}
		e.putRole(r2)
		pull()
		e.deleteDoc(d2)
		pull()
		e.deleteDoc(e.m.Docs[3])
		pull()
	case 4: // revocation, then the revoked documents change before the client comes back; document leaves and re-enters
		e.m.Roles[r1].Ch = map[string]bool{A: true, B: true}
		e.putRole(r1)
		e.m.UserRoles[r1] = true
		e.putUser(false)
		pull()
		e.m.UserRoles = map[string]bool{}
		e.putUser(false)
		e.writeDoc(d0, "doc-rewrite")
		d1.Ch = []string{}
		e.writeDoc(d1, "doc-move")
		d1.Ch = []string{A}
		e.writeDoc(d1, "doc-move")
		e.deleteDoc(d2)
		pull()
	case 5: // role granted by a document to a role whose channels come from another document
		d0.GrantTo, d0.GrantCh = "role:"+r1, []string{B}
		e.writeDoc(d0, "doc-regrant")
		d1.RoleTo, d1.Role = e.user, "role:"+r1
		e.writeDoc(d1, "doc-regrant")
		pull()
		d0.GrantTo, d0.GrantCh = "", nil
		e.writeDoc(d0, "doc-regrant")
		pull()
		d0.GrantTo, d0.GrantCh = "role:"+r1, []string{B}
		e.writeDoc(d0, "doc-regrant")
		d1.RoleTo, d1.Role = "", ""
		e.writeDoc(d1, "doc-regrant")
		pull()
	}
	_ = r
}

const c13Scripted = 6

// ---------------------------------------------------------------------------------------------
// REST client model

type c13ChangesResp struct {
	Results []struct {
		Seq     json.RawMessage     `json:"seq"`
		ID      string              `json:"id"`
		Deleted bool                `json:"deleted"`
		Removed []string            `json:"removed"`
		Revoked bool                `json:"revoked"`
		Changes []map[string]string `json:"changes"`
	} `json:"results"`
	LastSeq string `json:"last_seq"`
}

func c13SeqStr(raw json.RawMessage) string { return strings.Trim(string(raw), `"`) }

// c13IsBackfillSeq: a non-revocation row whose sequence carries a triggered-by part was sent because of a grant.
func c13IsBackfillSeq(seq string) bool { return strings.Contains(seq, ":") }

type c13PullObs struct {
	Rows    []c13RowObs
	Revoked []string // doc ids announced as revoked
	Pages   int
	// Resumed: kinds of the rows whose sequence was used as the since value of a following page (paged pulls)
	Resumed map[string]bool
	// ResumeTokens: the since values taken from a revocation row
	ResumeTokens []string
	// TriggeredTokens: every since value with a triggered-by part that a following page resumed from
	TriggeredTokens []string
}

// restPull runs one complete pull of the REST client model. limit 0: one request; otherwise pages of `limit`
// rows until an empty page.
func (e *c13Env) restPull(limit int) (*c13PullObs, bool) {
	obs := &c13PullObs{}
	cl := e.cl
	var pages []any
	for {
		path := "/{{.keyspace}}/_changes?revocations=true&since=" + url.QueryEscape(cl.Since)
		if limit > 0 {
			path += fmt.Sprintf("&limit=%d", limit)
		}
		resp := e.rt.SendUserRequest("GET", path, "", e.user)
		var cr c13ChangesResp
		if resp.Code != 200 || json.Unmarshal(resp.Body.Bytes(), &cr) != nil {
			e.log("pull", "GET "+path, resp.Code, strings.TrimSpace(resp.Body.String()))
			e.run.Violation("pull-request", "C13|rest|changes-request-failed", fmt.Sprintf("GET %s as %s -> %d %s", path, e.user, resp.Code, strings.TrimSpace(resp.Body.String())), e.witness(nil))
			e.stop = true
			return obs, false
		}
		obs.Pages++
		var rows []c13RowObs
		n := 0
		for _, row := range cr.Results {
			if strings.HasPrefix(row.ID, "_user/") || strings.HasPrefix(row.ID, "_role/") {
				continue
			}
			if !e.ownDoc(row.ID) {
				// a user holding the all-documents channel also sees the documents of the other histories that
				// share this database: they are not part of this history's replica
				e.run.Count("rows_of_other_histories_ignored", 1)
				continue
			}
			n++
			ro := c13RowObs{Seq: c13SeqStr(row.Seq), ID: row.ID, Deleted: row.Deleted, Removed: row.Removed, Revoked: row.Revoked}
			if len(row.Changes) > 0 {
				ro.Rev = row.Changes[0]["rev"]
			}
			switch {
			case row.Revoked:
				delete(cl.Replica, row.ID)
				obs.Revoked = append(obs.Revoked, row.ID)
				ro.Applied = "purge(revoked)"
			case row.Deleted:
				delete(cl.Replica, row.ID)
				ro.Applied = "remove(deleted)"
			default:
				fr := e.rt.SendUserRequest("GET", "/{{.keyspace}}/"+row.ID+"?rev="+url.QueryEscape(ro.Rev), "", e.user)
				var body map[string]any
				_ = json.Unmarshal(fr.Body.Bytes(), &body)
				switch {
				case fr.Code == 200 && body["_removed"] == true:
					delete(cl.Replica, row.ID)
					ro.Applied = "purge(fetch answered with removal stub)"
					e.run.Count("fetch_removal_stub", 1)
				case fr.Code == 200 && body["_deleted"] == true:
					delete(cl.Replica, row.ID)
					ro.Applied = "remove(fetched tombstone)"
				case fr.Code == 200:
					rev, _ := body["_rev"].(string)
					cl.Replica[row.ID] = rev
					ro.Applied = "upsert " + rev
					e.run.Count("revisions_fetched", 1)
				case fr.Code == 403 || fr.Code == 404:
					delete(cl.Replica, row.ID)
					ro.Applied = fmt.Sprintf("purge(fetch -> %d)", fr.Code)
					e.run.Count("fetch_refused", 1)
				default:
					ro.Applied = fmt.Sprintf("fetch -> %d", fr.Code)
					e.run.Violation("pull-request", "C13|rest|fetch-of-listed-revision-server-error", fmt.Sprintf("GET %s?rev=%s as %s -> %d", row.ID, ro.Rev, e.user, fr.Code), e.witness(nil))
				}
			}
			rows = append(rows, ro)
		}
		obs.Rows = append(obs.Rows, rows...)
		if limit > 0 && len(cr.Results) > 0 {
			if obs.Resumed == nil {
				obs.Resumed = map[string]bool{}
			}
			if len(rows) > 0 && rows[len(rows)-1].Seq == cr.LastSeq {
				obs.Resumed[c13RowKind(rows[len(rows)-1])] = true
				if rows[len(rows)-1].Revoked {
					obs.ResumeTokens = append(obs.ResumeTokens, cr.LastSeq)
				}
			}
			if t, _ := c13Token(cr.LastSeq); t != 0 {
				obs.TriggeredTokens = append(obs.TriggeredTokens, cr.LastSeq)
			} else {
				obs.Resumed["user-row"] = true
			}
		}
		pages = append(pages, map[string]any{"request": "GET " + path, "rows": rows, "last_seq": cr.LastSeq})
		cl.Since = cr.LastSeq
		if limit == 0 || len(cr.Results) == 0 {
			break
		}
		if obs.Pages > 200 {
			e.log("pull", "", 0, pages)
			e.run.Violation("pull-request", "C13|rest|paged-pull-does-not-terminate", fmt.Sprintf("limit=%d: 200 pages without an empty page", limit), e.witness(nil))
			e.stop = true
			return obs, false
		}
	}
	e.log("pull", fmt.Sprintf("REST pull limit=%d", limit), 200, pages)
	return obs, true
}

// ---------------------------------------------------------------------------------------------
// the oracle

func (e *c13Env) docKind(d *c13Doc, last *c13Snap) string {
	switch {
	case last == nil:
		return "first-pull"
	case d.Exists && d.Deleted:
		if last.Deleted[d.ID] {
			return "still-deleted"
		}
		return "deleted"
	case last.Rev[d.ID] == d.Rev:
		return "unchanged"
	case c13JSON(last.Ch[d.ID]) != c13JSON(append([]string{}, d.Ch...)):
		return "moved"
	default:
		return "rewritten"
	}
}

func (e *c13Env) rowsFor(id string) string {
	ks := e.rowsByDoc[id]
	if len(ks) == 0 {
		return "none"
	}
	return strings.Join(ks, ",")
}

func c13RowKind(ro c13RowObs) string {
	switch {
	case ro.Revoked:
		return "revoked"
	case ro.Deleted:
		return "deleted"
	case len(ro.Removed) > 0 || ro.Flags&4 != 0:
		return "removed"
	case c13IsBackfillSeq(ro.Seq):
		return "backfill"
	default:
		return "change"
	}
}

// c13Token splits a sequence token "S", "T:S", "L::S", "L:T:S" into its triggered-by and sequence parts.
func c13Token(tok string) (trig, seq uint64) {
	parts := strings.Split(tok, ":")
	n := len(parts)
	seq, _ = strconv.ParseUint(parts[n-1], 10, 64)
	if n >= 2 {
		trig, _ = strconv.ParseUint(parts[n-2], 10, 64)
	}
	return trig, seq
}

// pagedShape recognises, for one failing document, the two ways in which resuming a paged pull from the sequence
// of a revocation row loses rows. evSeq is the database sequence of the event whose announcement is missing
// (the document's own sequence, or the sequence at which the channel concerned was lost / granted).
func (e *c13Env) pagedShape(obs *c13PullObs, docSeq, evSeq uint64, staleDoc bool) string {
	for _, tok := range obs.ResumeTokens {
		if trig, seq := c13Token(tok); trig == 0 && evSeq > 0 && evSeq < seq {
			// the revocation row concerned a document written after the revocation: it is numbered by the
			// document's plain sequence, later than positions of the same feed that were not sent yet
			return "paged-pull|resumed-from-revocation-row-numbered-later-than-unsent-positions"
		}
	}
	for _, tok := range obs.TriggeredTokens {
		if _, seq := c13Token(tok); staleDoc && docSeq > seq {
			// resumed at T:S where T is (also) a revocation: the client's real since is forgotten (T-1 is assumed)
			return "paged-pull|resumed-inside-a-revocation|document-written-after-the-resume-position"
		}
	}
	if len(obs.ResumeTokens) > 0 {
		// resumed from the sequence of a revocation row, lost position not identified further
		return "paged-pull|resumed-from-a-revocation-row"
	}
	return ""
}

// classifyStale recognises the history shapes behind "the client keeps a document that left the user's view":
// one signature per root cause. Every test is about the failing document and the channels through which the
// client held it - not about the history as a whole.
func (e *c13Env) classifyStale(d *c13Doc, last, now *c13Snap, obs *c13PullObs) string {
	if last == nil || !last.Visible[d.ID] {
		// obtained and lost within this pull
		if shape := e.pagedShape(obs, d.Seq, d.Seq, true); shape != "" {
			return shape
		}
		if last != nil {
			held := e.cl.Replica[d.ID]
			cur := d.Rev
			if e.cl.UseCV {
				cur = d.CV
			}
			for _, c := range now.UserCh {
				if held != cur && (e.gainedSeq[c] > 0 || e.grantChanged[c]) {
					// a removal row of one channel listed a superseded revision that the user may read through a
					// channel granted since the previous pull; the back-fill of that channel omits the later
					// removal / deletion of the document
					return "channel-granted-between-pulls|superseded-revision-obtained-from-a-removal-row|later-removal-omitted-from-the-back-fill"
				}
			}
		}
		return ""
	}
	var held []string // channels through which the client held the document at the previous pull
	for _, c := range append(append([]string{}, last.Ch[d.ID]...), c13Star) {
		if c13Has(last.UserCh, c) {
			held = append(held, c)
		}
	}
	if len(held) == 0 {
		return ""
	}
	leftCh := func(c string) bool { // the document is no longer in channel c
		if c == c13Star {
			return !d.live()
		}
		return !d.live() || !c13Has(d.Ch, c)
	}
	for _, c := range held {
		if c13Has(now.UserCh, c) && e.lostCh[c] && leftCh(c) {
			// the user holds the channel at both pulls but not all the time in between, and the document left it
			return "channel-lost-and-regranted-between-pulls|document-left-the-channel-meanwhile"
		}
	}
	for _, c := range held {
		if c13Has(now.UserCh, c) && e.grantChanged[c] && leftCh(c) {
			// the user holds the channel all the time, but through other grants than at the previous pull
			return "channel-held-throughout-but-grants-changed-between-pulls|document-left-the-channel-meanwhile"
		}
	}
	if d.Exists && d.Deleted && c13Has(now.UserCh, c13Star) && (!c13Has(last.UserCh, c13Star) || e.lostCh[c13Star] || e.grantChanged[c13Star]) {
		// the tombstone counts as visible through "*" (so no revocation), and the back-fill of "*" omits deletions
		return "all-documents-channel-granted-between-pulls|document-deleted-meanwhile"
	}
	if len(held) == 1 && held[0] == c13Star && len(last.Ch[d.ID]) == 0 && !c13Has(now.UserCh, c13Star) {
		// a document that was in no channel is in "*" only; for that time it has no channel history to compare the
		// revocation with (needed as soon as its sequence is later than the sequence part of the client's since)
		return "held-through-all-documents-channel-only|channel-less-document-has-no-channel-history-for-the-revocation-check"
	}
	// held only through roles from here on
	onlyRoles := true
	for _, c := range held {
		if last.ChanDirect[c] || len(last.ChanRoles[c]) == 0 {
			onlyRoles = false
		}
	}
	if onlyRoles {
		recreated, flapped := true, true
		for _, c := range held {
			for _, r := range last.ChanRoles[c] {
				if !(e.rolesDeleted[r] && e.rolesRecreated[r]) {
					recreated = false
				}
				if !(e.roleLost[r] && len(e.m.roleMemberships(r)) > 0) {
					flapped = false
				}
			}
		}
		if recreated {
			return "channel-held-through-role|role-deleted-and-created-again-between-pulls"
		}
		if flapped && last.Rev[d.ID] != d.Rev {
			// the user lost the role and holds it again (no principal rebuild in between records the gap), the
			// role stopped granting the channel (or was deleted), and the document was written after the pull
			if e.loadedWhileRoleGone {
				// the gap IS recorded in the user's role history (the user was rebuilt while the role was gone): a different history
				// from the listed finding, which needs the gap to be unrecorded
				return "channel-held-through-role|role-lost-and-held-again-between-pulls|user-loaded-while-the-role-was-gone|role-stopped-granting-the-channel-meanwhile"
			}
			return "channel-held-through-role|role-lost-and-held-again-between-pulls|role-stopped-granting-the-channel-meanwhile"
		}
	}
	var lost uint64
	for _, c := range held {
		if s := e.lostSeq[c]; s > lost {
			lost = s
		}
	}
	if shape := e.pagedShape(obs, d.Seq, lost, true); shape != "" {
		return shape
	}
	if onlyRoles {
		all := true
		for _, c := range held {
			for _, r := range last.ChanRoles[c] {
				if !e.rolesDeleted[r] {
					all = false
				}
			}
		}
		if all {
			return "channel-held-through-role|role-deleted" // fixed in 641b1c8: not expected on the current tree
		}
	}
	return ""
}

// missingEventSeq: the position whose row would have delivered a now visible document: the document's own
// write, or - for a document made visible by a grant - the earliest grant since the previous pull of a channel it is in.
func (e *c13Env) missingEventSeq(d *c13Doc, now *c13Snap) uint64 {
	ev := d.Seq
	for _, c := range d.inCh() {
		if g := e.gainedSeq[c]; c13Has(now.UserCh, c) && g > 0 && g > ev {
			ev = g
		}
	}
	return ev
}

// classifyMissing recognises the history shapes behind "the user can see a document the client does not hold".
func (e *c13Env) classifyMissing(d *c13Doc, last, now *c13Snap) string {
	if last != nil && last.Visible[d.ID] {
		return ""
	}
	// newly visible: are all its channels reached only through roles created since the previous pull, with a
	// sync-function grant (access() to the role or role() to the user) older than the role involved?
	all, any, viaDoc := true, false, false
	for _, c := range d.inCh() {
		if !c13Has(now.UserCh, c) {
			continue
		}
		if now.ChanDirect[c] {
			all = false
		}
		for _, r := range now.ChanRoles[c] {
			if e.rolesCreated[r] {
				any = true
			} else {
				all = false
			}
		}
	}
	for _, src := range now.Sources[d.ID] {
		if strings.HasPrefix(src, "doc-role/") || strings.HasSuffix(src, "/role-docgrant") {
			viaDoc = true
		}
	}
	_ = all
	if any && viaDoc {
		return "access-through-role-created-since-previous-pull|role-or-its-channel-granted-by-an-older-document"
	}
	return ""
}

// ownDoc: is this one of the history's four documents?
func (e *c13Env) ownDoc(id string) bool {
	for _, d := range e.m.Docs {
		if d.ID == id {
			return true
		}
	}
	return false
}

// c13Through coarsens a list of grant sources to "direct", "role", "direct+role" (or "none").
func c13Through(srcs []string) string {
	direct, role := false, false
	for _, x := range srcs {
		if strings.HasPrefix(x, "user-") {
			direct = true
		} else {
			role = true
		}
	}
	switch {
	case direct && role:
		return "direct+role"
	case direct:
		return "direct"
	case role:
		return "role"
	}
	return "none"
}

// judge compares the replica with the model after a completed pull.
func (e *c13Env) judge(obs *c13PullObs, limit int) {
	run, cl, m := e.run, e.cl, e.m
	run.Eval()
	run.Count("pulls_checked", 1)
	run.Count("rows_seen", len(obs.Rows))
	if obs.Pages > 1 {
		run.Count("paged_pulls", 1)
		run.Count("pages", obs.Pages)
	}
	if strings.Count(cl.Since, ":") == 2 || strings.Contains(cl.Since, "::") {
		run.Count("pulls_ending_with_low_sequence_token", 1)
	}
	e.rowsByDoc = map[string][]string{}
	for _, ro := range obs.Rows {
		k := c13RowKind(ro)
		e.rowsByDoc[ro.ID] = append(e.rowsByDoc[ro.ID], k)
		switch k {
		case "revoked":
			run.Count("revoked_rows", 1)
		case "deleted":
			run.Count("deleted_rows", 1)
		case "removed":
			run.Count("removed_rows", 1)
		case "backfill":
			run.Count("backfill_rows", 1)
		}
		if k != "change" {
			e.sawAnnouncement = true
		}
	}
	lim := "0"
	if limit > 0 {
		// paged pull: what matters is from which kind of row a following page resumed
		lim = "paged"
		switch {
		case obs.Resumed["revoked"]:
			lim = "paged,resumed-from-revocation-row"
		case obs.Resumed["backfill"]:
			lim = "paged,resumed-from-backfill-row"
		}
	}
	since := "simple"
	now := m.snap(e.allCh)
	last := cl.Last

	// feature counters: what happened between the previous pull and this one
	if last != nil {
		lost, gained, lostOneKeptOther := false, false, false
		for _, d := range m.Docs {
			if last.Visible[d.ID] && !now.Visible[d.ID] && !(d.Exists && d.Deleted) && c13JSON(last.Ch[d.ID]) == c13JSON(now.Ch[d.ID]) {
				lost = true
			}
			if !last.Visible[d.ID] && now.Visible[d.ID] && last.Rev[d.ID] == d.Rev {
				gained = true
			}
			if last.Visible[d.ID] && now.Visible[d.ID] {
				for _, s := range last.Sources[d.ID] {
					if !c13Has(now.Sources[d.ID], s) {
						lostOneKeptOther = true
					}
				}
			}
		}
		if lost {
			run.Count("pulls_after_access_loss", 1)
		}
		if gained {
			run.Count("pulls_after_access_gain_on_unchanged_doc", 1)
		}
		if lostOneKeptOther {
			run.Count("pulls_after_losing_one_of_several_sources", 1)
		}
		if e.roleDeletedSincePull {
			run.Count("pulls_after_role_deletion", 1)
		}
		if e.flapSincePull {
			run.Count("pulls_after_loss_and_regrant", 1)
		}
	}
	if c13Has(now.UserCh, c13Star) {
		run.Count("pulls_holding_all_documents_channel", 1)
	} else if last != nil && c13Has(last.UserCh, c13Star) {
		run.Count("pulls_after_losing_all_documents_channel", 1)
	}
	for _, d := range m.Docs {
		if len(now.Sources[d.ID]) >= 2 {
			run.Count("docs_visible_through_several_sources", 1)
		}
	}

	extra := func() map[string]any {
		return map[string]any{"model_now": now, "model_at_previous_pull": last, "rows_of_this_pull": obs.Rows, "limit": limit}
	}
	for _, d := range m.Docs {
		held, has := cl.Replica[d.ID]
		want := d.Rev
		if cl.UseCV {
			want = d.CV
		}
		kind := e.docKind(d, last)
		switch {
		case now.Visible[d.ID] && !has:
			prev := "not-visible-at-previous-pull"
			if last != nil && last.Visible[d.ID] {
				prev = "visible-at-previous-pull"
			}
			sig := fmt.Sprintf("C13|%s|visible-document-missing-after-pull|unclassified|%s|doc=%s|through=%s|limit=%s", e.proto(), prev, kind, c13Through(now.Sources[d.ID]), lim)
			if shape := e.classifyMissing(d, last, now); shape != "" {
				sig = fmt.Sprintf("C13|%s|visible-document-missing-after-pull|%s", e.proto(), shape)
			} else if shape := e.pagedShape(obs, d.Seq, e.missingEventSeq(d, now), false); shape != "" {
				sig = fmt.Sprintf("C13|%s|visible-document-missing-after-pull|%s", e.proto(), shape)
			}
			e.violation("replica-equals-visible-set", sig, fmt.Sprintf("history %d: after the pull the user can see %s (rev %s, channels %v, via %v) but the client does not hold it (rows received for it in this pull: %s)", e.idx, d.ID, want, d.Ch, now.Sources[d.ID], e.rowsFor(d.ID)), e.witness(extra()))
		case !now.Visible[d.ID] && has:
			lostVia := "never-visible-at-a-pull"
			if last != nil && len(last.Sources[d.ID]) > 0 {
				lostVia = c13Through(last.Sources[d.ID])
			}
			sig := fmt.Sprintf("C13|%s|document-left-view-without-removal-or-revocation|unclassified|doc=%s|held-through=%s|limit=%s", e.proto(), kind, lostVia, lim)
			if shape := e.classifyStale(d, last, now, obs); shape != "" {
				sig = fmt.Sprintf("C13|%s|document-left-view-without-removal-or-revocation|%s", e.proto(), shape)
			}
			e.violation("replica-equals-visible-set", sig, fmt.Sprintf("history %d: the user cannot see %s any more (deleted=%v channels=%v user channels=%v) but the client still holds rev %s: it was silently dropped (rows received for it in this pull: %s)", e.idx, d.ID, d.Exists && d.Deleted, d.Ch, now.UserCh, held, e.rowsFor(d.ID)), e.witness(extra()))
		case now.Visible[d.ID] && has && held != want:
			sig := fmt.Sprintf("C13|%s|stale-revision-held-after-pull|unclassified|doc=%s|through=%s|limit=%s", e.proto(), kind, c13Through(now.Sources[d.ID]), lim)
			if shape := e.pagedShape(obs, d.Seq, d.Seq, false); shape != "" {
				sig = fmt.Sprintf("C13|%s|stale-revision-held-after-pull|%s", e.proto(), shape)
			}
			e.violation("replica-equals-visible-set", sig, fmt.Sprintf("history %d: the client holds %s of %s, current is %s", e.idx, held, d.ID, want), e.witness(extra()))
		}
	}
	// revocation entries: only for documents out of view, and the document can no longer be fetched
	for _, id := range obs.Revoked {
		run.Count("revocations_checked", 1)
		var d *c13Doc
		for _, x := range m.Docs {
			if x.ID == id {
				d = x
			}
		}
		if d == nil {
			e.violation("revocation-entries", "C13|"+e.proto()+"|revocation-for-unknown-document", "revoked entry for "+id, e.witness(extra()))
			continue
		}
		if now.Visible[id] {
			sig := fmt.Sprintf("C13|%s|revocation-sent-for-visible-document|doc=%s|through=%s|limit=%s", e.proto(), e.docKind(d, last), c13Through(now.Sources[id]), lim)
			e.violation("revocation-entries", sig, fmt.Sprintf("history %d: revoked entry for %s although the user can see it (channels %v via %v)", e.idx, id, d.Ch, now.Sources[id]), e.witness(extra()))
		}
		fr := e.rt.SendUserRequest("GET", "/{{.keyspace}}/"+id, "", e.user)
		if fr.Code == 200 {
			sig := fmt.Sprintf("C13|%s|revoked-document-still-fetchable|doc=%s|limit=%s", e.proto(), e.docKind(d, last), lim)
			e.violation("revocation-entries", sig, fmt.Sprintf("history %d: %s was announced as revoked but GET as the user -> 200", e.idx, id), e.witness(extra()))
		} else {
			run.Count("revoked_docs_fetch_refused", 1)
		}
	}
	_ = since
	cl.Last = now
	cl.Pulls++
	e.roleDeletedSincePull, e.flapSincePull, e.opsSincePull = false, false, 0
	e.loadedWhileRoleGone = false
	e.lostCh, e.rolesDeleted, e.rolesRecreated, e.rolesCreated, e.grantChanged, e.grantBase, e.roleLost = nil, nil, nil, nil, nil, nil, nil
	e.lostSeq, e.gainedSeq, e.heldPrev = nil, nil, nil
	e.track()
}

// violation records a refutation and ends the history: the replica has diverged, what follows would only
// repeat the finding.
func (e *c13Env) violation(oracle, sig, msg string, witness any) {
	e.run.Violation(oracle, sig, msg, witness)
	e.stop, e.violated = true, true
}

// proto is the protocol family of the client ("rest" / "blip"): recognised shapes do not depend on V3/V4.
func (e *c13Env) proto() string {
	if e.part == "blip" {
		return "blip"
	}
	return "rest"
}

// validateModel compares the AccessModel with the gateway's own view (admin API all_channels of the user, and
// a direct GET of every document as the user). A disagreement is not a C13 matter (C03/C02 judge access
// computation): the history is set aside as inconclusive with a note.
func (e *c13Env) validateModel() bool {
	resp := e.rt.SendAdminRequest("GET", "/{{.db}}/_user/"+e.user, "")
	var p c13Principal
	if resp.Code != 200 || json.Unmarshal(resp.Body.Bytes(), &p) != nil {
		e.run.Inconclusive("cannot read the user through the admin API")
		return false
	}
	got := map[string]bool{}
	for _, c := range p.AllChannels {
		got[c] = true
	}
	for _, sc := range p.CollectionAccess {
		for _, co := range sc {
			for _, c := range co.AllChannels {
				got[c] = true
			}
		}
	}
	delete(got, "!")
	// the all-documents channel is judged by the direct reads below (the admin view does not list it for every
	// way of holding it)
	delete(got, c13Star)
	want := e.m.userChannels(e.chans)
	sort.Strings(want)
	if c13JSON(c13Keys(got)) != c13JSON(want) {
		e.run.Inconclusive("access model disagrees with the admin view of the user's channels")
		e.run.Note("history %d (%s): model channels %v, admin view %v; ops=%s", e.idx, e.part, want, c13Keys(got), c13JSON(e.ops))
		return false
	}
	e.run.Count("model_channels_validated", 1)
	for _, d := range e.m.Docs {
		if !d.Exists {
			continue
		}
		fr := e.rt.SendUserRequest("GET", "/{{.keyspace}}/"+d.ID, "", e.user)
		if (fr.Code == 200) != e.m.visible(d) {
			e.run.Inconclusive("access model disagrees with a direct read as the user")
			e.run.Note("history %d (%s): GET %s as user -> %d, model visible=%v; ops=%s", e.idx, e.part, d.ID, fr.Code, e.m.visible(d), c13JSON(e.ops))
			return false
		}
		e.run.Count("model_visibility_validated", 1)
	}
	return true
}

type c13Principal struct {
	AllChannels      []string `json:"all_channels"`
	CollectionAccess map[string]map[string]struct {
		AllChannels []string `json:"all_channels"`
	} `json:"collection_access"`
}

// ---------------------------------------------------------------------------------------------
// waiting for the change cache without failing the test on a timeout

type c13TB struct {
	testing.TB
	msgs []string
}
type c13Abort struct{}

func (x *c13TB) Helper()                   {}
func (x *c13TB) Errorf(f string, a ...any) { x.msgs = append(x.msgs, fmt.Sprintf(f, a...)) }
func (x *c13TB) Error(a ...any)            { x.msgs = append(x.msgs, fmt.Sprint(a...)) }
func (x *c13TB) Fatalf(f string, a ...any) {
	x.msgs = append(x.msgs, fmt.Sprintf(f, a...))
	panic(c13Abort{})
}
func (x *c13TB) Fatal(a ...any)               { x.msgs = append(x.msgs, fmt.Sprint(a...)); panic(c13Abort{}) }
func (x *c13TB) FailNow()                     { panic(c13Abort{}) }
func (x *c13TB) Fail()                        {}
func (x *c13TB) Logf(format string, a ...any) {}

func (e *c13Env) waitCache() (ok bool) {
	tb := &c13TB{TB: e.t}
	defer func() {
		if r := recover(); r != nil {
			if _, is := r.(c13Abort); is {
				e.run.Inconclusive("change cache did not catch up within the watchdog")
				ok = false
				return
			}
			panic(r)
		}
	}()
	e.rt.GetDatabase().WaitForPendingChanges(tb)
	return len(tb.msgs) == 0
}

// ---------------------------------------------------------------------------------------------
// driving one history

func (e *c13Env) pull(r *vlib.Rand) {
	if e.stop {
		return
	}
	if !e.waitCache() {
		e.stop = true
		return
	}
	var obs *c13PullObs
	var ok bool
	limit := 0
	if e.part == "blip" {
		obs, ok = e.blipPull()
	} else {
		limit = r.Intn(3)
		if v := os.Getenv("VERIF_C13_LIMIT"); v != "" { // development aid: force the paging limit
			limit, _ = strconv.Atoi(v)
		}
		obs, ok = e.restPull(limit)
	}
	if !ok || e.stop {
		e.stop = true
		return
	}
	if !e.validateModel() {
		e.stop = true
		return
	}
	e.judge(obs, limit)
}

func c13History(t *testing.T, run *vlib.Run, rt *RestTester, part string, idx int, nops int, settle, sample bool) {
	r := run.CaseRand(idx)
	e := &c13Env{t: t, run: run, rt: rt, part: part, idx: idx, settle: settle}
	e.cl = &c13Client{Name: "rest", Since: "0", Replica: map[string]string{}}
	e.setup(r)
	if e.stop {
		return
	}
	if part == "blip" {
		e.blipV4 = idx%2 == 1
		e.cl.Name = "blip-v3"
		if e.blipV4 {
			e.cl.Name, e.cl.UseCV = "blip-v4", true
		}
	}
	pull := func() { e.pull(r) }
	pull() // the client starts with a copy
	if idx < c13Scripted {
		e.scripted(r, idx, pull)
	}
	for i := 0; i < nops; i++ {
		isPull := r.Chance(1, 4) && e.opsSincePull > 0
		switch {
		case e.stop && e.violated:
			// the replica and the resume position are off after a violation: later pulls are not judged (and the
			// remaining operations are not executed)
			if isPull {
				run.Count("pulls_not_judged_after_first_violation", 1)
				e.opsSincePull = 0
			} else {
				e.opsSincePull++
			}
		case e.stop:
		case isPull:
			pull()
		default:
			e.randomOp(r)
		}
	}
	if e.violated {
		run.Count("pulls_not_judged_after_first_violation", 1)
	}
	pull()
	if e.stop {
		run.Count("histories_abandoned", 1)
		return
	}
	run.Count("histories_completed", 1)
	if e.sawAnnouncement {
		run.Nontrivial(fmt.Sprintf("%s/%d", part, idx))
	}
	if sample {
		run.Sample(map[string]any{"part": part, "history": idx, "client": e.cl.Name, "ops": e.ops, "final_replica": e.cl.Replica})
	}
}

// c13Run spreads the histories over a few workers; every worker uses one database for a batch of histories
// (identifiers carry the history index, so histories do not interact).
func c13Run(t *testing.T, part string) {
	run := vlib.Start(t, "C13", part)
	defer run.Finish()
	// as in the repository's own revocation tests: one sequence per allocation, so that no reserved-but-unused
	// sequence is pending in the change cache (the resume tokens then carry no low-sequence part)
	defer db.SuspendSequenceBatching()()
	if os.Getenv("VERIF_C13_LOG") != "" { // development aid for replaying one history (VERIF_CASE) with the gateway's changes log
		base.SetUpTestLogging(t, base.LevelTrace, base.KeyChanges)
	}
	total := run.N(120, 1500) // per part: 240 / 3000 histories over the two client models
	nops := 20
	const perDB = 10
	workers := run.N(4, 8)
	first := 0
	sampleAll := false
	if i, ok := run.OnlyCase(); ok {
		first, total = i, i+1
		sampleAll = true
	}
	var wg sync.WaitGroup
	next := make(chan [2]int, total)
	for lo := first; lo < total; lo += perDB {
		hi := lo + perDB
		if hi > total {
			hi = total
		}
		next <- [2]int{lo, hi}
	}
	close(next)
	for w := 0; w < workers; w++ {
		wg.Add(1)
		go func() {
			defer wg.Done()
			for b := range next {
				rt := NewRestTester(t, &RestTesterConfig{SyncFn: c13SyncFn})
				for i := b[0]; i < b[1]; i++ {
					c13History(t, run, rt, part, i, nops, true, sampleAll || i == 0 || i == c13Scripted)
				}
				rt.Close()
			}
		}()
	}
	wg.Wait()
}

func TestVerif_C13_Rest(t *testing.T) { c13Run(t, "rest") }
func TestVerif_C13_Blip(t *testing.T) { c13Run(t, "blip") }
