//go:build verif

package rest

import (
	"encoding/json"
	"fmt"
	"sort"
	"strings"
	"sync"
	"testing"
	"time"

	"github.com/couchbase/sync_gateway/base"
	"verif/vlib"
)

// C03, concurrent phase: actors {document writer(s), admin editor(s), reader(s)} issue REST requests
// whose storage steps (principal documents, granting documents, the compute->CAS window of every
// interactive update) are interleaved by the step scheduler around the invalidate / recompute /
// CAS-save protocol.
//
// Oracles (all on the API boundary):
//   * quiescence: after every write has been acknowledged, the next read of every principal (REST,
//     Authenticator, grant-dependent document read) equals the AccessModel;
//   * real-time bounds for reads issued during the run: a channel/role conferred in every model state
//     compatible with "writes acknowledged before the read began .. writes begun before the read
//     ended" must be reported; one conferred in none of them must not be.
//
// The writes of one schedule commute in the model by construction (each document and each
// (principal, field) is written by one actor only), so the model of a set of acknowledged writes is
// independent of the interleaving.

type c03SOp struct {
	Kind     string           `json:"kind"` // put-user put-role del-user del-role doc-put doc-del get-user get-role docread
	Princ    string           `json:"princ,omitempty"`
	Create   bool             `json:"create,omitempty"`
	Doc      string           `json:"doc,omitempty"`
	Coll     int              `json:"coll"`
	Chans    map[int][]string `json:"admin_channels,omitempty"`
	Roles    []string         `json:"admin_roles,omitempty"`
	SetRoles bool             `json:"set_admin_roles,omitempty"`
	Body     *c03Body         `json:"body,omitempty"`
	Chan     string           `json:"channel,omitempty"`
	Purge    bool             `json:"purge,omitempty"`
}

func (o c03SOp) isRead() bool { return o.Kind == "get-user" || o.Kind == "get-role" || o.Kind == "docread" }

type c03Actor struct {
	Name string   `json:"name"`
	Ops  []c03SOp `json:"ops"`
}

type c03Scenario struct {
	Name   string     `json:"name"`
	Class  string     `json:"class"` // signature class: scenario name for the fixed ones, "random" otherwise
	Users  []string   `json:"users"`
	Roles  []string   `json:"roles"`
	Docs   []string   `json:"docs"`
	Setup  []c03SOp   `json:"setup"`
	Actors []c03Actor `json:"actors"`
}

type c03Event struct {
	Actor  string `json:"actor"`
	Op     c03SOp `json:"op"`
	Method string `json:"method"`
	Path   string `json:"path"`
	Body   string `json:"body,omitempty"`
	Status int    `json:"status"`
	Resp   string `json:"response,omitempty"`
	Start  int64  `json:"start_tick"`
	Ack    int64  `json:"ack_tick"`

	apply  func(m *c03Model)
	obsCh  []c03Set // reads: observed channels per collection
	obsRol c03Set
}

type c03Conc struct {
	e      *c03Env
	sn     *c03Scenario
	mu     sync.Mutex
	clock  int64
	events []*c03Event
	curRev map[string]string
}

func (c *c03Conc) tick() int64 { c.mu.Lock(); defer c.mu.Unlock(); c.clock++; return c.clock }

// exec performs one operation as actor and records the event.
func (c *c03Conc) exec(actor string, op c03SOp) *c03Event {
	e := c.e
	ev := &c03Event{Actor: actor, Op: op}
	asUser := ""
	switch op.Kind {
	case "put-user", "put-role":
		isUser := op.Kind == "put-user"
		ev.Method = "PUT"
		ev.Path = "/db/_role/" + op.Princ
		if isUser {
			ev.Path = "/db/_user/" + op.Princ
		}
		ev.Body = e.principalPayload(isUser, op.Create, op.Chans, op.Roles, op.SetRoles)
		ev.apply = func(m *c03Model) {
			if isUser {
				u := m.users[op.Princ]
				if !u.Exists {
					u.Exists = true
					u.AdminCh = make([]c03Set, m.ncoll)
					for i := range u.AdminCh {
						u.AdminCh[i] = c03Set{}
					}
					u.AdminRoles = c03Set{}
				}
				for coll, chs := range op.Chans {
					u.AdminCh[coll] = c03SetOf(chs...)
				}
				if op.SetRoles {
					u.AdminRoles = c03SetOf(op.Roles...)
				}
			} else {
				ro := m.roles[op.Princ]
				if !ro.Exists {
					ro.Exists = true
					ro.AdminCh = make([]c03Set, m.ncoll)
					for i := range ro.AdminCh {
						ro.AdminCh[i] = c03Set{}
					}
				}
				for coll, chs := range op.Chans {
					ro.AdminCh[coll] = c03SetOf(chs...)
				}
			}
		}
	case "del-user":
		ev.Method, ev.Path = "DELETE", "/db/_user/"+op.Princ
		ev.apply = func(m *c03Model) { m.users[op.Princ].Exists = false }
	case "del-role":
		ev.Method, ev.Path = "DELETE", "/db/_role/"+op.Princ
		if op.Purge {
			ev.Path += "?purge=true"
		}
		ev.apply = func(m *c03Model) { m.roles[op.Princ].Exists = false }
	case "doc-put", "doc-del":
		key := c03DocKey(op.Coll, op.Doc)
		c.mu.Lock()
		cur := c.curRev[key]
		c.mu.Unlock()
		ev.Path = "/" + e.keyspace(op.Coll) + "/" + op.Doc
		if cur != "" {
			ev.Path += "?rev=" + cur
		}
		if op.Kind == "doc-put" {
			ev.Method, ev.Body = "PUT", c03JSON(op.Body)
		} else {
			ev.Method = "DELETE"
		}
	case "get-user":
		ev.Method, ev.Path = "GET", "/db/_user/"+op.Princ
	case "get-role":
		ev.Method, ev.Path = "GET", "/db/_role/"+op.Princ
	case "docread":
		ev.Method, ev.Path = "GET", "/"+e.keyspace(op.Coll)+"/probe_"+op.Chan
		asUser = op.Princ
	default:
		panic("c03: unknown op kind " + op.Kind)
	}
	ev.Start = c.tick()
	var resp *TestResponse
	if asUser != "" {
		resp = e.rt.SendUserRequest(ev.Method, ev.Path, ev.Body, asUser)
	} else {
		resp = e.rt.SendAdminRequest(ev.Method, ev.Path, ev.Body)
	}
	ev.Ack = c.tick()
	ev.Status = resp.Code
	ok := resp.Code >= 200 && resp.Code < 300
	switch op.Kind {
	case "doc-put", "doc-del":
		if ok {
			key := c03DocKey(op.Coll, op.Doc)
			rev := c03RespRev(resp)
			c.mu.Lock()
			parent := c.curRev[key]
			c.curRev[key] = rev
			c.mu.Unlock()
			coll, id, del := op.Coll, op.Doc, op.Kind == "doc-del"
			var body c03Body
			if op.Body != nil {
				body = *op.Body
			}
			ev.apply = func(m *c03Model) {
				d := m.docs[key]
				if d == nil {
					d = &c03Doc{Coll: coll, ID: id, Revs: map[string]*c03Rev{}}
					m.docs[key] = d
				}
				d.Revs[rev] = &c03Rev{ID: rev, Parent: parent, Deleted: del, Body: body}
			}
		}
	case "get-user", "get-role":
		if ok {
			var p c03PrincipalJSON
			if err := json.Unmarshal(resp.Body.Bytes(), &p); err == nil {
				for coll := 0; coll < e.m.ncoll; coll++ {
					ev.obsCh = append(ev.obsCh, e.restChannels(&p, coll))
				}
				ev.obsRol = c03SetOf(p.Roles...)
			}
			ev.Resp = strings.TrimSpace(resp.Body.String())
		}
	}
	if !ok {
		if !op.isRead() {
			ev.apply = nil
		}
		ev.Resp = strings.TrimSpace(resp.Body.String())
	}
	c.mu.Lock()
	c.events = append(c.events, ev)
	c.mu.Unlock()
	return ev
}

// ---------------------------------------------------------------------------------------------
// scenarios

func c03Grants(g ...c03Grant) []c03Grant { return g }

func c03FixedScenarios(p string) []*c03Scenario {
	ua, ub, ra, rb := p+"ua", p+"ub", p+"ra", p+"rb"
	dx, dy := p+"dx", p+"dy"
	body := func(marker string, grants []c03Grant, roles []c03RoleGrant) *c03Body {
		return &c03Body{Marker: p + marker, Ch: []string{"D"}, Grants: grants, Roles: roles}
	}
	mk := func(name string, setup []c03SOp, actors ...c03Actor) *c03Scenario {
		return &c03Scenario{Name: name, Class: name, Users: []string{ua, ub}, Roles: []string{ra, rb}, Docs: []string{dx, dy}, Setup: setup, Actors: actors}
	}
	createUser := func(u string, roles ...string) c03SOp {
		return c03SOp{Kind: "put-user", Princ: u, Create: true, Chans: map[int][]string{0: {}}, Roles: roles, SetRoles: len(roles) > 0}
	}
	createRole := func(r string, chs ...string) c03SOp {
		return c03SOp{Kind: "put-role", Princ: r, Create: true, Chans: map[int][]string{0: chs}}
	}
	return []*c03Scenario{
		// a reader rebuilds an invalidated user while a document write adds a grant for that user
		mk("rebuild-vs-doc-grant",
			[]c03SOp{createUser(ua), {Kind: "doc-put", Doc: dx, Body: body("s1", c03Grants(c03Grant{ua, []string{"B"}}), nil)}},
			c03Actor{"RD", []c03SOp{{Kind: "get-user", Princ: ua}}},
			c03Actor{"W", []c03SOp{{Kind: "doc-put", Doc: dx, Body: body("s1b", c03Grants(c03Grant{ua, []string{"A", "B"}}), nil)}}}),
		// ... while a document write removes the grant
		mk("rebuild-vs-doc-revoke",
			[]c03SOp{createUser(ua), {Kind: "doc-put", Doc: dx, Body: body("s2", c03Grants(c03Grant{ua, []string{"B"}}), nil)}},
			c03Actor{"RD", []c03SOp{{Kind: "get-user", Princ: ua}}},
			c03Actor{"W", []c03SOp{{Kind: "doc-put", Doc: dx, Body: body("s2b", nil, nil)}}}),
		// ... while the granting document is deleted
		mk("rebuild-vs-doc-delete",
			[]c03SOp{createUser(ua), {Kind: "doc-put", Doc: dx, Body: body("s2", c03Grants(c03Grant{ua, []string{"B"}}), nil)}},
			c03Actor{"RD", []c03SOp{{Kind: "docread", Princ: ua, Chan: "B"}}},
			c03Actor{"W", []c03SOp{{Kind: "doc-del", Doc: dx}}}),
		// the user's role is being rebuilt while a document write grants a channel to the role
		mk("role-rebuild-vs-grant-to-role",
			[]c03SOp{createRole(ra), createUser(ua, ra), {Kind: "doc-put", Doc: dx, Body: body("s3", c03Grants(c03Grant{"role:" + ra, []string{"B"}}), nil)}},
			c03Actor{"RD", []c03SOp{{Kind: "get-user", Princ: ua}}},
			c03Actor{"W", []c03SOp{{Kind: "doc-put", Doc: dx, Body: body("s3b", c03Grants(c03Grant{"role:" + ra, []string{"A"}}), nil)}}}),
		// the user's role list is being rebuilt while a document write grants a role
		mk("roles-rebuild-vs-role-grant",
			[]c03SOp{createRole(ra, "C"), createUser(ua), {Kind: "doc-put", Doc: dy, Body: body("s4", nil, []c03RoleGrant{{ua, "role:" + rb}})}},
			c03Actor{"RD", []c03SOp{{Kind: "get-user", Princ: ua}}},
			c03Actor{"W", []c03SOp{{Kind: "doc-put", Doc: dx, Body: body("s4b", nil, []c03RoleGrant{{ua, "role:" + ra}})}}}),
		// an admin edit of the user races with a document write granting to the user
		mk("admin-channels-vs-doc-grant",
			[]c03SOp{createUser(ua), {Kind: "get-user", Princ: ua}},
			c03Actor{"ADM", []c03SOp{{Kind: "put-user", Princ: ua, Chans: map[int][]string{0: {"C"}}}}},
			c03Actor{"W", []c03SOp{{Kind: "doc-put", Doc: dx, Body: body("s5", c03Grants(c03Grant{ua, []string{"A"}}), nil)}}}),
		// two admin edits of different fields of one user
		mk("admin-roles-vs-admin-channels",
			[]c03SOp{createRole(ra, "C"), createUser(ua)},
			c03Actor{"ADM", []c03SOp{{Kind: "put-user", Princ: ua, Roles: []string{ra}, SetRoles: true}}},
			c03Actor{"ADM2", []c03SOp{{Kind: "put-user", Princ: ua, Chans: map[int][]string{0: {"D"}}}}},
			c03Actor{"RD", []c03SOp{{Kind: "get-user", Princ: ua}}}),
		// an admin edit races with a reader's rebuild of the invalidated user
		mk("admin-edit-vs-rebuild",
			[]c03SOp{createUser(ua), {Kind: "doc-put", Doc: dx, Body: body("s7", c03Grants(c03Grant{ua, []string{"B"}}), nil)}},
			c03Actor{"ADM", []c03SOp{{Kind: "put-user", Princ: ua, Chans: map[int][]string{0: {"C"}}}}},
			c03Actor{"RD", []c03SOp{{Kind: "get-user", Princ: ua}}}),
		// the user is created while a document write grants to it
		mk("create-user-vs-doc-grant",
			[]c03SOp{{Kind: "doc-put", Doc: dy, Body: body("s8", c03Grants(c03Grant{ua, []string{"B"}}), nil)}},
			c03Actor{"ADM", []c03SOp{{Kind: "put-user", Princ: ua, Create: true, Chans: map[int][]string{0: {"C"}}}}},
			c03Actor{"W", []c03SOp{{Kind: "doc-put", Doc: dx, Body: body("s8b", c03Grants(c03Grant{ua, []string{"A"}}), nil)}}}),
		// the user is created without any admin assignment while a document write grants a channel and a role to it
		mk("create-bare-user-vs-doc-grant",
			[]c03SOp{createRole(ra, "C")},
			c03Actor{"ADM", []c03SOp{{Kind: "put-user", Princ: ua, Create: true}}},
			c03Actor{"W", []c03SOp{{Kind: "doc-put", Doc: dx, Body: body("s8c", c03Grants(c03Grant{ua, []string{"A"}}), []c03RoleGrant{{ua, "role:" + ra}})}}}),
		// a role is created without admin channels while a document write grants a channel to it
		mk("create-bare-role-vs-doc-grant",
			[]c03SOp{createUser(ua, ra)},
			c03Actor{"ADM", []c03SOp{{Kind: "put-role", Princ: ra, Create: true}}},
			c03Actor{"W", []c03SOp{{Kind: "doc-put", Doc: dx, Body: body("s8d", c03Grants(c03Grant{"role:" + ra, []string{"A"}}), nil)}}}),
		// a deleted role is re-created while a document write grants to it
		mk("recreate-role-vs-doc-grant",
			[]c03SOp{createRole(ra), createUser(ua, ra), {Kind: "del-role", Princ: ra}},
			c03Actor{"ADM", []c03SOp{{Kind: "put-role", Princ: ra, Create: true, Chans: map[int][]string{0: {"C"}}}}},
			c03Actor{"W", []c03SOp{{Kind: "doc-put", Doc: dx, Body: body("s9", c03Grants(c03Grant{"role:" + ra, []string{"A"}}), nil)}}}),
		mk("recreate-bare-role-vs-doc-grant",
			[]c03SOp{createRole(ra, "C"), createUser(ua, ra), {Kind: "del-role", Princ: ra}},
			c03Actor{"ADM", []c03SOp{{Kind: "put-role", Princ: ra, Create: true}}},
			c03Actor{"W", []c03SOp{{Kind: "doc-put", Doc: dx, Body: body("s9b", c03Grants(c03Grant{"role:" + ra, []string{"A"}}), nil)}}}),
		// a role is deleted while a reader loads a user holding it
		mk("delete-role-vs-reader",
			[]c03SOp{createRole(ra, "C"), createUser(ua, ra)},
			c03Actor{"ADM", []c03SOp{{Kind: "del-role", Princ: ra}}},
			c03Actor{"RD", []c03SOp{{Kind: "get-user", Princ: ua}, {Kind: "docread", Princ: ua, Chan: "C"}}}),
	}
}

func c03RandomScenario(r *vlib.Rand, e *c03Env, p string) *c03Scenario {
	ua, ub, ra := p+"ua", p+"ub", p+"ra"
	dx, dy := p+"dx", p+"dy"
	sn := &c03Scenario{Name: "random", Class: "random", Users: []string{ua, ub}, Roles: []string{ra}, Docs: []string{dx, dy}}
	// the generators of the sequential phase draw grants from e.users / e.roles
	e.users, e.roles = sn.Users, sn.Roles
	coll := func() int { return r.Intn(len(e.colls)) }
	chans := func() map[int][]string { return map[int][]string{coll(): e.randChannels(r, 2)} }
	body := func() *c03Body { b := e.randBody(r); b.Marker = p + b.Marker; return &b }
	// setup in a random order: principals may be created after the granting document
	setup := []c03SOp{
		{Kind: "put-role", Princ: ra, Create: true, Chans: chans()},
		{Kind: "put-user", Princ: ua, Create: true, Chans: chans(), Roles: e.randRoles(r), SetRoles: true},
		{Kind: "put-user", Princ: ub, Create: true, Chans: chans()},
		{Kind: "doc-put", Doc: dx, Coll: coll(), Body: body()},
	}
	dyColl, dyExists := coll(), r.Bool()
	if dyExists {
		setup = append(setup, c03SOp{Kind: "doc-put", Doc: dy, Coll: dyColl, Body: body()})
	}
	perm := r.Perm(len(setup))
	dxColl := setup[3].Coll
	for _, i := range perm {
		sn.Setup = append(sn.Setup, setup[i])
	}
	// a second version of dx: principals that existed at the first write are invalidated by it
	if r.Chance(2, 3) {
		sn.Setup = append(sn.Setup, c03SOp{Kind: "doc-put", Doc: dx, Coll: dxColl, Body: body()})
	}
	// some principals are read (clean) before the concurrent phase, others stay invalidated
	for _, u := range sn.Users {
		if r.Chance(1, 3) {
			sn.Setup = append(sn.Setup, c03SOp{Kind: "get-user", Princ: u})
		}
	}
	if r.Chance(1, 3) {
		sn.Setup = append(sn.Setup, c03SOp{Kind: "get-role", Princ: ra})
	}
	// actors
	w1 := c03Actor{Name: "W1"}
	for n := r.Range(1, 2); n > 0; n-- {
		switch r.Intn(5) {
		case 0:
			w1.Ops = append(w1.Ops, c03SOp{Kind: "doc-del", Doc: dx, Coll: dxColl})
		case 1:
			b := body()
			b.Grants, b.Roles = nil, nil
			w1.Ops = append(w1.Ops, c03SOp{Kind: "doc-put", Doc: dx, Coll: dxColl, Body: b})
		default:
			w1.Ops = append(w1.Ops, c03SOp{Kind: "doc-put", Doc: dx, Coll: dxColl, Body: body()})
		}
	}
	sn.Actors = append(sn.Actors, w1)
	if r.Chance(1, 2) {
		w2 := c03Actor{Name: "W2"}
		if dyExists && r.Chance(1, 3) {
			w2.Ops = append(w2.Ops, c03SOp{Kind: "doc-del", Doc: dy, Coll: dyColl})
		} else {
			w2.Ops = append(w2.Ops, c03SOp{Kind: "doc-put", Doc: dy, Coll: dyColl, Body: body()})
		}
		sn.Actors = append(sn.Actors, w2)
	}
	// admin edits: each (principal, field) at most once per schedule, so that the writes commute
	pool := []c03SOp{
		{Kind: "put-user", Princ: ua, Roles: e.randRoles(r), SetRoles: true},
		{Kind: "put-user", Princ: ua, Chans: map[int][]string{0: e.randChannels(r, 2)}},
		{Kind: "put-role", Princ: ra, Chans: map[int][]string{0: e.randChannels(r, 2)}},
		{Kind: "put-user", Princ: ub, Roles: []string{ra}, SetRoles: true},
	}
	pp := r.Perm(len(pool))
	next := 0
	if r.Chance(3, 4) {
		a := c03Actor{Name: "ADM"}
		for n := r.Range(1, 2); n > 0; n-- {
			a.Ops = append(a.Ops, pool[pp[next]])
			next++
		}
		sn.Actors = append(sn.Actors, a)
	}
	if r.Chance(1, 3) {
		sn.Actors = append(sn.Actors, c03Actor{Name: "ADM2", Ops: []c03SOp{pool[pp[next]]}})
		next++
	}
	rd := c03Actor{Name: "RD"}
	for n := r.Range(1, 3); n > 0; n-- {
		switch r.Intn(4) {
		case 0:
			rd.Ops = append(rd.Ops, c03SOp{Kind: "get-role", Princ: ra})
		case 1:
			rd.Ops = append(rd.Ops, c03SOp{Kind: "docread", Princ: vlib.Pick(r, sn.Users), Coll: coll(), Chan: vlib.Pick(r, c03Channels)})
		default:
			rd.Ops = append(rd.Ops, c03SOp{Kind: "get-user", Princ: vlib.Pick(r, sn.Users)})
		}
	}
	sn.Actors = append(sn.Actors, rd)
	if r.Chance(1, 3) {
		sn.Actors = append(sn.Actors, c03Actor{Name: "RD2", Ops: []c03SOp{{Kind: "get-user", Princ: vlib.Pick(r, sn.Users)}}})
	}
	return sn
}

// ---------------------------------------------------------------------------------------------
// one schedule

type c03Station struct {
	vs     *vStore
	rt     *RestTester
	colls  []c03Coll
	layout string
	count  int
	// blockWait: how long a granted actor may stay away from its next storage step before the scheduler lets another
	// actor run as well (affects only which interleavings are produced)
	blockWait time.Duration
}

func c03NewStation(t testing.TB, layout string) *c03Station {
	vs := newVStore(t)
	vs.logOn.Store(false)
	rt, colls := c03NewRT(t, vs, layout)
	st := &c03Station{vs: vs, rt: rt, colls: colls, layout: layout, blockWait: 250 * time.Millisecond}
	vs.SetStepFilter(func(op *base.VerifOp) bool {
		k := op.Key
		return strings.Contains(k, "user:") || strings.Contains(k, "role:") || !strings.HasPrefix(k, "_sync:")
	})
	e := &c03Env{t: t, rt: rt, layout: layout, colls: colls, m: c03NewModel(len(colls), nil, nil)}
	for c := range colls {
		for _, ch := range c03Channels {
			resp := rt.SendAdminRequest("PUT", "/"+e.keyspace(c)+"/probe_"+ch, fmt.Sprintf(`{"marker":"probe","ch":[%q]}`, ch))
			if resp.Code != 201 {
				t.Fatalf("c03: probe create: %d %s", resp.Code, resp.Body.String())
			}
		}
	}
	return st
}

func (st *c03Station) close() { st.rt.Close() }

type c03SchedResult struct {
	fingerprint string
	sched       *vlib.Sched
	violated    bool
	classified  bool // the violation was attributed to a recognised root-cause shape
	preempts    int
}

const (
	// a rebuild (getPrincipal) computed channels/roles before a concurrent document write committed; the write's
	// invalidation found the principal already invalidated and did nothing; the rebuild's CAS save then stored the
	// stale set as clean
	c03SigStaleRebuild = "C03|conc|rebuild-computed-before-concurrent-doc-write-is-saved-clean|invalidation-is-a-no-op-on-already-invalidated-principal"
	// a principal is being created (channels/roles computed at creation, no admin assignment in the request, so they
	// are saved clean); a concurrent document write's invalidation finds no principal document and does nothing
	c03SigStaleCreate = "C03|conc|principal-creation-computed-before-concurrent-doc-write-is-saved-clean|invalidation-finds-no-principal-doc"
)

// c03ClassifyLog recognises the two shapes above in the storage-operation log of the concurrent phase (log order =
// completion order, op.N = start order) for the principal documents of princs.
func c03ClassifyLog(log []*base.VerifOp, princs []string) string {
	match := func(key string) bool {
		if !strings.Contains(key, "user:") && !strings.Contains(key, "role:") {
			return false
		}
		for _, p := range princs {
			if strings.HasSuffix(key, ":"+p) {
				return true
			}
		}
		return false
	}
	for j, ins := range log {
		// an invalidation that did nothing: SubdocInsert returned an error (path exists / document not found), which
		// InvalidateChannels / InvalidateRoles treat as success
		if ins.Kind != "SubdocInsert" || ins.Err == nil || !match(ins.Key) {
			continue
		}
		touched := map[uint64]bool{} // goroutines that accessed the principal document again after the invalidation
		for _, u := range log[j+1:] {
			if u.Key != ins.Key || u.DS != ins.DS || u.Gid == ins.Gid {
				continue
			}
			switch {
			case u.Kind == "Update" && u.Applied && u.N < ins.N:
				// a getPrincipal rebuild that started before the invalidation and saved after it
				return c03SigStaleRebuild
			case u.Kind == "WriteCas" && u.Applied && !touched[u.Gid]:
				// a principal save (creation: nothing was re-read after the invalidation) of values computed before it
				return c03SigStaleCreate
			}
			touched[u.Gid] = true
		}
	}
	return ""
}

// c03RunSchedule runs scenario sn on the station under the chooser (nil = free-running goroutines).
func c03RunSchedule(t testing.TB, run *vlib.Run, st *c03Station, sn *c03Scenario, e *c03Env, chooser vlib.Chooser, r *vlib.Rand) c03SchedResult {
	res := c03SchedResult{}
	e.part = "conc:" + sn.Class
	e.users, e.roles, e.docs = sn.Users, sn.Roles, sn.Docs
	e.m = c03NewModel(len(st.colls), sn.Users, sn.Roles)
	c := &c03Conc{e: e, sn: sn, curRev: map[string]string{}}
	witness := func(sc *vlib.Sched) map[string]any {
		w := map[string]any{"layout": st.layout, "scenario": sn, "events": c.events, "sync_fn": c03SyncFn,
			"note": "setup ops run sequentially before the actors start; ticks order request starts and acknowledgements"}
		var ks []string
		for i := range st.colls {
			ks = append(ks, e.keyspace(i))
		}
		w["keyspaces"] = ks
		var sl []string
		for _, op := range st.vs.Log() {
			if strings.Contains(op.Key, "user:") || strings.Contains(op.Key, "role:") || !strings.HasPrefix(op.Key, "_sync:") {
				errs := ""
				if op.Err != nil {
					errs = " err=" + op.Err.Error()
				}
				sl = append(sl, fmt.Sprintf("n=%d g=%d %s(%s) applied=%v%s", op.N, op.Gid, op.Kind, op.Key, op.Applied, errs))
			}
		}
		w["storage_log_completion_order"] = sl
		if sc != nil {
			w["schedule_choices"] = sc.Choices
			w["schedule_trace"] = sc.Trace
		} else {
			w["schedule"] = "free-running goroutines"
		}
		return w
	}
	for _, op := range sn.Setup {
		ev := c.exec("setup", op)
		if !op.isRead() {
			if ev.apply == nil {
				run.Inconclusive("setup-op-failed")
				run.Note("c03 conc setup %s failed: %d %s", op.Kind, ev.Status, ev.Resp)
				return res
			}
			ev.apply(e.m)
		}
	}
	base0 := e.m.clone()
	nsetup := len(c.events)
	st.vs.ResetLog()
	st.vs.logOn.Store(true)

	var sc *vlib.Sched
	if chooser != nil {
		sc = vlib.NewSched(chooser)
		sc.BlockWait = st.blockWait
		st.vs.SetSched(sc)
		for _, a := range sn.Actors {
			a := a
			sc.Go(a.Name, func() {
				for _, op := range a.Ops {
					c.exec(a.Name, op)
				}
			})
		}
		sc.Run()
		st.vs.SetSched(nil)
		res.sched = sc
		res.fingerprint = sc.Fingerprint()
		for _, p := range sc.Preempt {
			if p {
				res.preempts++
			}
		}
		if sc.Deadlock {
			run.Inconclusive("scheduler-deadlock")
			return res
		}
	} else {
		var wg sync.WaitGroup
		for _, a := range sn.Actors {
			a := a
			wg.Add(1)
			go func() {
				defer wg.Done()
				for _, op := range a.Ops {
					c.exec(a.Name, op)
				}
			}()
		}
		wg.Wait()
	}
	run.Eval()
	st.vs.logOn.Store(false)
	oplog := st.vs.Log()
	e.classify = func(princ, what string) string {
		princs := []string{princ}
		if strings.HasPrefix(what, "user-channels") {
			princs = append(princs, sn.Roles...) // channels inherited through a role
		}
		return c03ClassifyLog(oplog, princs)
	}
	events := c.events[nsetup:]
	writesBy := map[string][]*c03Event{}
	var actors []string
	for _, ev := range events {
		if ev.Op.isRead() {
			continue
		}
		if ev.Status >= 500 {
			run.Inconclusive("write-5xx")
			run.Note("c03 conc: %s %s -> %d %s", ev.Method, ev.Path, ev.Status, ev.Resp)
			return res
		}
		if ev.apply == nil {
			run.Count("writes_rejected", 1)
		}
		if _, ok := writesBy[ev.Actor]; !ok {
			actors = append(actors, ev.Actor)
		}
		writesBy[ev.Actor] = append(writesBy[ev.Actor], ev)
		run.Count("writes_acknowledged", 1)
	}
	sort.Strings(actors)
	stateFor := func(vec []int) *c03Model {
		m := base0.clone()
		for i, a := range actors {
			for _, w := range writesBy[a][:vec[i]] {
				if w.apply != nil {
					w.apply(m)
				}
			}
		}
		return m
	}
	// real-time bounds for the reads issued during the run
	for _, rd := range events {
		if !rd.Op.isRead() {
			continue
		}
		lo, hi := make([]int, len(actors)), make([]int, len(actors))
		for i, a := range actors {
			for _, w := range writesBy[a] {
				if w.Ack < rd.Start {
					lo[i]++
				}
				if w.Start < rd.Ack {
					hi[i]++
				}
			}
		}
		var states []*c03Model
		vec := append([]int{}, lo...)
		for {
			states = append(states, stateFor(vec))
			i := 0
			for ; i < len(vec); i++ {
				if vec[i] < hi[i] {
					vec[i]++
					break
				}
				vec[i] = lo[i]
			}
			if i == len(vec) {
				break
			}
		}
		run.Count("concurrent_reads_checked", 1)
		run.Max("model_states_per_read", len(states))
		if len(states) > 1 {
			run.Count("reads_overlapping_a_write", 1)
		}
		if c.checkRead(run, rd, states, witness(sc)) {
			res.violated, res.classified = true, e.failedClassified
			return res
		}
	}
	// quiescence: all writes acknowledged; the next read of everything equals the model
	final := make([]int, len(actors))
	for i, a := range actors {
		final[i] = len(writesBy[a])
	}
	e.m = stateFor(final)
	e.ops = nil
	e.failed = false
	e.witnessOverride = witness(sc)
	e.checkAll(r, "quiescence")
	run.Count("quiescent_checks", 1)
	if e.failed {
		res.violated, res.classified = true, e.failedClassified
	}
	return res
}

// c03Bounds are the per-element bounds for one read. A user's effective channels are assembled from the user document
// (direct channels, role membership) and one document per role, each loaded (and, if invalidated, recomputed) at its
// own moment inside the read's window; the bounds therefore let every such part come from a different compatible model
// state: must = what every choice yields, may = what some choice yields.
type c03Bounds struct {
	must, may            c03Set
	existsAll, existsAny bool
}

func c03SetBounds(states []*c03Model, f func(m *c03Model) c03Set) c03Bounds {
	b := c03Bounds{may: c03Set{}, existsAll: true}
	first := true
	for _, m := range states {
		s := f(m)
		if s == nil {
			b.existsAll = false
			continue
		}
		b.existsAny = true
		b.may.addAll(s)
		if first {
			b.must = s.copy()
			first = false
		} else {
			for k := range b.must {
				if !s.has(k) {
					delete(b.must, k)
				}
			}
		}
	}
	if !b.existsAll || b.must == nil {
		b.must = c03Set{}
	}
	return b
}

func (m *c03Model) userDirect(user string, coll int) c03Set {
	u := m.users[user]
	if u == nil || !u.Exists {
		return nil
	}
	out := c03SetOf("!")
	out.addAll(u.AdminCh[coll])
	out.addAll(m.docChannelGrants(coll, user))
	return out
}

func c03UserChannelBounds(states []*c03Model, user string, coll int, roles []string) c03Bounds {
	direct := c03SetBounds(states, func(m *c03Model) c03Set { return m.userDirect(user, coll) })
	member := c03SetBounds(states, func(m *c03Model) c03Set { return m.userRoles(user) })
	out := c03Bounds{must: direct.must.copy(), may: direct.may.copy(), existsAll: direct.existsAll, existsAny: direct.existsAny}
	for _, r := range roles {
		rc := c03SetBounds(states, func(m *c03Model) c03Set { return m.roleChannels(r, coll) })
		if member.must.has(r) {
			out.must.addAll(rc.must)
		}
		if member.may.has(r) {
			out.may.addAll(rc.may)
		}
	}
	return out
}

// checkRead compares one read issued during the run with the set of model states it may reflect.
func (c *c03Conc) checkRead(run *vlib.Run, rd *c03Event, states []*c03Model, witness map[string]any) bool {
	e := c.e
	report := func(what, dir, class, msg string) bool {
		sig := fmt.Sprintf("C03|%s|obs=concurrent-read|%s|%s|%s", e.sigScope(), what, dir, class)
		e.failedClassified = false
		if e.classify != nil {
			if s := e.classify(rd.Op.Princ, what); s != "" {
				msg = "[" + sig + "] " + msg
				sig = s
				e.failedClassified = true
			}
		}
		witness["failing_read"] = rd
		run.Violation("realtime-bounds", sig, msg, witness)
		return true
	}
	checkSet := func(what string, got c03Set, b c03Bounds) bool {
		if rd.Status == 404 {
			if b.existsAll {
				return report(what, "missing", "principal-not-found", fmt.Sprintf("%s %s -> 404 but the principal exists in every compatible model state", rd.Method, rd.Path))
			}
			return false
		}
		if rd.Status != 200 {
			return false
		}
		if !b.existsAny {
			return report(what, "extra", "deleted-principal-served", fmt.Sprintf("%s %s -> 200 but the principal exists in no compatible model state", rd.Method, rd.Path))
		}
		for k := range b.must {
			if !got.has(k) {
				return report(what, "missing", "conferred-in-every-compatible-state",
					fmt.Sprintf("%s %s (ticks %d..%d) reported %s = %v without %q, which every combination of the %d model states compatible with the writes acknowledged before / begun during the read confers (must=%v may=%v)",
						rd.Method, rd.Path, rd.Start, rd.Ack, what, got.list(), k, len(states), b.must.list(), b.may.list()))
			}
		}
		for k := range got {
			if !b.may.has(k) {
				return report(what, "extra", "conferred-in-no-compatible-state",
					fmt.Sprintf("%s %s (ticks %d..%d) reported %s = %v with %q, which no combination of the %d compatible model states confers (must=%v may=%v)",
						rd.Method, rd.Path, rd.Start, rd.Ack, what, got.list(), k, len(states), b.must.list(), b.may.list()))
			}
		}
		return false
	}
	switch rd.Op.Kind {
	case "get-user":
		if rd.Status == 200 && rd.obsCh == nil {
			return false
		}
		if checkSet("user-roles", rd.obsRol, c03SetBounds(states, func(m *c03Model) c03Set { return m.userRoles(rd.Op.Princ) })) {
			return true
		}
		for coll := 0; coll < e.m.ncoll; coll++ {
			var got c03Set
			if rd.Status == 200 {
				got = rd.obsCh[coll]
			}
			if checkSet("user-channels@"+c03CollKind(e.colls[coll]), got, c03UserChannelBounds(states, rd.Op.Princ, coll, e.roles)) {
				return true
			}
		}
	case "get-role":
		if rd.Status == 200 && rd.obsCh == nil {
			return false
		}
		for coll := 0; coll < e.m.ncoll; coll++ {
			var got c03Set
			if rd.Status == 200 {
				got = rd.obsCh[coll]
			}
			coll := coll
			if checkSet("role-channels@"+c03CollKind(e.colls[coll]), got, c03SetBounds(states, func(m *c03Model) c03Set { return m.roleChannels(rd.Op.Princ, coll) })) {
				return true
			}
		}
	case "docread":
		b := c03UserChannelBounds(states, rd.Op.Princ, rd.Op.Coll, e.roles)
		what := "user-channels@" + c03CollKind(e.colls[rd.Op.Coll])
		switch {
		case b.existsAll && b.must.has(rd.Op.Chan) && rd.Status != 200:
			return report(what, "missing", "docread-denied-though-conferred-in-every-compatible-state",
				fmt.Sprintf("GET %s as %s -> %d although channel %s is conferred by every combination of the %d compatible model states", rd.Path, rd.Op.Princ, rd.Status, rd.Op.Chan, len(states)))
		case !b.may.has(rd.Op.Chan) && rd.Status == 200:
			return report(what, "extra", "docread-allowed-though-conferred-in-no-compatible-state",
				fmt.Sprintf("GET %s as %s -> 200 although channel %s is conferred by no combination of the %d compatible model states", rd.Path, rd.Op.Princ, rd.Op.Chan, len(states)))
		}
	}
	return false
}

// ---------------------------------------------------------------------------------------------
// parts

var c03ConcLayouts = []string{"default", "named-scope", "default-scope-named", "default+named"}

// TestVerif_C03_Systematic explores the fixed two-/three-actor scenarios depth-first under a preemption bound.
func TestVerif_C03_Systematic(t *testing.T) {
	run := vlib.Start(t, "C03", "systematic")
	defer run.Finish()
	base.TestRequiresCollections(t)
	maxRuns := run.N(40, 400)
	layouts := []string{"named-scope", "default", "default-scope-named"}
	nsc := len(c03FixedScenarios(""))
	type job struct{ si, li int }
	var jobs []job
	for si := 0; si < nsc; si++ {
		// every scenario on one layout in the quick tier (rotating with the seed), on all in the thorough tier
		if run.Thorough() {
			for li := range layouts {
				jobs = append(jobs, job{si, li})
			}
		} else {
			jobs = append(jobs, job{si, (si + int(run.Seed)) % len(layouts)})
		}
	}
	ch := make(chan job, len(jobs))
	for _, j := range jobs {
		ch <- j
	}
	close(ch)
	var wg sync.WaitGroup
	for w := 0; w < 6; w++ {
		wg.Add(1)
		go func() {
			defer wg.Done()
			for j := range ch {
				st := c03NewStation(t, layouts[j.li])
				ex := vlib.NewExplorer(2, 0)
				name := ""
				for n := 0; n < maxRuns && !ex.Exhausted(); n++ {
					st.count++
					p := fmt.Sprintf("x%d", st.count)
					sn := c03FixedScenarios(p)[j.si]
					name = sn.Name
					e := &c03Env{t: t, run: run, rt: st.rt, layout: st.layout, colls: st.colls}
					res := c03RunSchedule(t, run, st, sn, e, ex.Chooser(), run.CaseRand(j.si*1000+n))
					if res.sched == nil {
						break
					}
					ex.Done(res.sched)
					run.Distinct("schedules", sn.Name+"|"+st.layout+"|"+res.fingerprint)
					run.Count("schedules."+sn.Name, 1)
					run.Max("steps_per_schedule", len(res.sched.Trace))
					run.Count("blocked_grants", res.sched.Blocked)
					if res.preempts > 0 {
						run.Nontrivial(sn.Name + "|" + st.layout + "|" + res.fingerprint)
					}
					if n == 0 && j.si == 0 {
						run.Sample(map[string]any{"scenario": sn, "layout": st.layout, "trace": res.sched.Trace})
					}
					if res.violated {
						run.Count("schedules_violating", 1)
						if !res.classified {
							break // an unclassified violation: one witness per scenario is enough
						}
					}
				}
				if ex.Exhausted() {
					run.Count("scenarios_explored_exhaustively_within_bound", 1)
					run.Note("scenario %s on %s: all schedules with <= 2 preemptions explored (%d runs)", name, st.layout, ex.Runs)
				}
				st.close()
			}
		}()
	}
	wg.Wait()
}

// TestVerif_C03_Concurrent runs generated scenarios under random schedules (and a share of them as
// free-running goroutines for the race detector).
func TestVerif_C03_Concurrent(t *testing.T) {
	run := vlib.Start(t, "C03", "concurrent")
	defer run.Finish()
	base.TestRequiresCollections(t)
	total := run.N(300, 5000)
	workers := 8
	var wg sync.WaitGroup
	only, onlyOK := run.OnlyCase()
	for w := 0; w < workers; w++ {
		w := w
		wg.Add(1)
		go func() {
			defer wg.Done()
			stations := map[string]*c03Station{}
			defer func() {
				for _, st := range stations {
					st.close()
				}
			}()
			for i := w; i < total; i += workers {
				if onlyOK && only != i {
					continue
				}
				r := run.CaseRand(i)
				layout := vlib.Pick(r, c03ConcLayouts)
				st := stations[layout]
				if st == nil {
					st = c03NewStation(t, layout)
					stations[layout] = st
				}
				e := &c03Env{t: t, run: run, rt: st.rt, layout: st.layout, colls: st.colls}
				sn := c03RandomScenario(r, e, fmt.Sprintf("c%d", i))
				var chooser vlib.Chooser
				free := r.Chance(1, 5)
				if !free {
					chooser = vlib.RandomChooser(r.Fork(7), r.Range(30, 80))
				}
				res := c03RunSchedule(t, run, st, sn, e, chooser, r)
				run.Count("schedules."+layout, 1)
				if free {
					run.Count("free_running_schedules", 1)
				} else if res.sched != nil {
					run.Distinct("schedules", res.fingerprint)
					run.Max("steps_per_schedule", len(res.sched.Trace))
					run.Count("blocked_grants", res.sched.Blocked)
					switches := 0
					last := ""
					for _, s := range res.sched.Trace {
						a := s[:strings.IndexByte(s, ':')]
						if last != "" && a != last {
							switches++
						}
						last = a
					}
					if switches >= 2 {
						run.Nontrivial(fmt.Sprintf("%d|%s", i, res.fingerprint))
					}
				}
				if i < 2 {
					var tr []string
					if res.sched != nil {
						tr = res.sched.Trace
					}
					run.Sample(map[string]any{"case": i, "layout": layout, "scenario": sn, "trace": tr})
				}
			}
		}()
	}
	wg.Wait()
}
