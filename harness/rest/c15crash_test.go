//go:build verif

package rest

// C15 part "crash": crash-point enumeration of every mutating storage step of create / update / delete, from
// registry states reachable by <= 2 previous (possibly interrupted, unrecovered) changes.

import (
	"fmt"
	"sort"
	"strings"
	"testing"

	"verif/vlib"
)

type c15Step struct {
	Ch      c15Change `json:"change"`
	KillAt  int       `json:"kill_at,omitempty"` // node dies at its k-th mutating storage operation
	Applied bool      `json:"applied,omitempty"` // ... which is applied (true) or lost (false)
}

func (s c15Step) String() string {
	x := s.Ch.String()
	if s.KillAt > 0 {
		x += fmt.Sprintf(" [node dies at mutating op %d, %s]", s.KillAt, map[bool]string{true: "applied", false: "not applied"}[s.Applied])
	}
	return x
}

type c15CrashCase struct {
	Prefix []c15Step `json:"prefix"`
	Test   c15Change `json:"test"`
}

func (c c15CrashCase) Key() string {
	var p []string
	for _, s := range c.Prefix {
		p = append(p, s.String())
	}
	return strings.Join(p, " ; ") + " => " + c.Test.String()
}

type c15StepResult struct {
	Step    string      `json:"step"`
	Node    string      `json:"node"`
	Outcome *c15Outcome `json:"outcome,omitempty"`
	View    string      `json:"view,omitempty"`
	Model   string      `json:"model_after,omitempty"`
}

type c15CrashWitness struct {
	Case     c15CrashCase      `json:"case"`
	KillAt   int               `json:"kill_at"`
	Applied  bool              `json:"applied"`
	Order    string            `json:"recovery_order"`
	Steps    []c15StepResult   `json:"steps"`
	Registry string            `json:"registry_now"`
	Docs     map[string]string `json:"config_docs_now"`
	Ops      []string          `json:"storage_ops"`
}

// c15RunPrefix replays the prefix on fresh nodes (each interrupted step leaves its node dead for good).
func c15RunPrefix(cl *c15Cluster, m *c15Model, prefix []c15Step, res *[]c15StepResult) {
	for _, st := range prefix {
		n := cl.NewNode()
		if st.KillAt > 0 {
			n.conn.Arm(st.KillAt, st.Applied)
		}
		out := n.Exec(st.Ch)
		m.Apply(st.Ch, out)
		if res != nil {
			*res = append(*res, c15StepResult{Step: "prefix: " + st.String(), Node: n.Name, Outcome: out, Model: m.String()})
		}
	}
}

func c15KillLabel(kind string, n *c15Node, k int, applied bool) string {
	if k == 0 {
		return kind + "@no-crash"
	}
	n.conn.mu.Lock()
	op := n.conn.killedAt
	n.conn.mu.Unlock()
	if op == nil {
		return kind + "@beyond-last-step"
	}
	l := fmt.Sprintf("%s@m%d=%s(%s)", kind, k, op.Kind, c15KeyKind(op.Key))
	if op.Site != "" {
		l += "/" + op.Site
	}
	if applied {
		return l + ":applied"
	}
	return l + ":lost"
}

// c15FollowUp executes a change that is valid with respect to the settled view and must therefore be accepted.
func c15FollowUp(run *vlib.Run, cl *c15Cluster, n *c15Node, m *c15Model, ch c15Change, role string, part string, wit func() any, res *[]c15StepResult) bool {
	before := cl.RawState()
	markers := before.Markers(ch.DB)
	var out *c15Outcome
	for attempt := 1; attempt <= 3; attempt++ {
		out = n.Exec(ch)
		m.Apply(ch, out)
		if res != nil {
			*res = append(*res, c15StepResult{Step: fmt.Sprintf("follow-up(%s) attempt %d: %s", role, attempt, ch), Node: n.Name, Outcome: out, Model: m.String()})
		}
		if out.Class == "ack" {
			run.Count("followups_accepted", 1)
			run.Count("followup_"+ch.Kind+"_"+strings.SplitN(role, ":", 2)[0], 1)
			return true
		}
	}
	errClass := out.Class
	if out.Reason != "" {
		errClass += ":" + out.Reason
	}
	blocked := c15BlockedBy(before, ch)
	run.Violation("progress-after-interruption",
		fmt.Sprintf("C15|valid-change-not-accepted|result=%s|blocked-by=%s", errClass, blocked),
		fmt.Sprintf("[%s, %s] %s is valid for the loaded view (model %s) but was not accepted in 3 attempts on node %s: %s %s; blocked by: %s; registry markers before the attempt: %s",
			part, role, ch, m, n.Name, errClass, out.Err, blocked, markers), wit())
	return false
}

func c15RunCrashScenario(run *vlib.Run, cl *c15Cluster, cs c15CrashCase, k int, applied bool, order string, idx int) (mutOps int, hit bool) {
	cl.Reset()
	m := newC15Model()
	w := &c15CrashWitness{Case: cs, KillAt: k, Applied: applied, Order: order}
	wit := func() any {
		raw := cl.RawState()
		w.Registry = string(raw.Registry)
		w.Docs = map[string]string{}
		for db, b := range raw.Cfg {
			w.Docs[db] = string(b)
		}
		w.Ops = cl.LogStrings()
		return w
	}
	c15RunPrefix(cl, m, cs.Prefix, &w.Steps)
	before := cl.RawState()
	run.Distinct("registry_states", before.Shape())
	run.Distinct("registry_marker_classes", before.Markers(cs.Test.DB))

	a := cl.NewNode()
	if k > 0 {
		a.conn.Arm(k, applied)
	}
	expect := m.Expect(cs.Test)
	out := a.Exec(cs.Test)
	hit = a.conn.Dead()
	label := c15KillLabel(cs.Test.Kind, a, k, applied)
	m.Apply(cs.Test, out)
	w.Steps = append(w.Steps, c15StepResult{Step: "test: " + cs.Test.String() + " [" + label + "]", Node: a.Name, Outcome: out, Model: m.String()})
	mutOps = len(out.MutOps)
	run.Eval()
	if k > 0 && !hit {
		// the change has fewer mutating steps in this replay: nothing was interrupted
		run.Count("kill_beyond_last_step", 1)
	}
	if hit {
		run.Count("crash_scenarios", 1)
		run.Count("crash_"+cs.Test.Kind, 1)
		run.Nontrivial(fmt.Sprintf("%s|k=%d|%v|%s", cs.Key(), k, applied, order))
		run.Distinct("crash_points", label)
		if out.Class == "ack" {
			run.Count("acknowledged_although_node_died", 1)
		}
	}
	sigTail := "after=" + label
	got := out.Class
	if out.Reason != "" {
		got += ":" + out.Reason
	}
	if k == 0 {
		run.Count("uninterrupted_changes", 1)
		run.Count("outcome_"+out.Class, 1)
		if expect != "" && got != expect {
			what := "valid-change-not-accepted"
			if strings.HasPrefix(expect, "rejected") {
				what = "invalid-change-not-rejected-as-expected"
			}
			run.Violation("outcome", fmt.Sprintf("C15|crash|%s|op=%s|expected=%s|got=%s|registry-markers=%s", what, cs.Test.Kind, expect, got, before.Markers(cs.Test.DB)),
				fmt.Sprintf("%s on a fully determined state: expected %s, got %s (%s)", cs.Test, expect, got, out.Err), wit())
		}
		if out.Class == "rejected" {
			if before.Settled() {
				run.Count("rejected_changes_byte_compared", 1)
				after := cl.RawState()
				if !before.Equal(after) {
					run.Violation("rejected-leaves-state", fmt.Sprintf("C15|crash|rejected-change-modified-stored-state|op=%s|reason=%s", cs.Test.Kind, out.Reason),
						fmt.Sprintf("%s was rejected (%s) but registry/config documents changed: before registry=%s after registry=%s", cs.Test, out.Reason, before.Registry, after.Registry), wit())
				}
			} else {
				run.Count("rejected_changes_on_unsettled_state", 1)
			}
		}
	}

	// recovery: reload on a fresh node and on the same (revived) node. In the "fresh-dies-*" orders the fresh
	// node itself dies at a mutating step of the recovery it performs (double fault) and the same node takes over.
	fresh := cl.NewNode()
	a.conn.Revive()
	nodes := []*c15Node{fresh, a}
	names := []string{"fresh", "same"}
	if order == "same-first" {
		nodes[0], nodes[1] = nodes[1], nodes[0]
		names[0], names[1] = names[1], names[0]
	}
	if strings.HasPrefix(order, "fresh-dies-") {
		var rk int
		var rapplied string
		_, _ = fmt.Sscanf(strings.TrimPrefix(order, "fresh-dies-"), "m%d-%s", &rk, &rapplied)
		fresh.conn.Arm(rk, rapplied == "applied")
		_, lerr, _ := fresh.Load(1)
		rlabel := c15KillLabel("recovery", fresh, rk, rapplied == "applied")
		if fresh.conn.Dead() {
			run.Count("crashes_during_recovery", 1)
			run.Distinct("recovery_crash_points", rlabel)
		}
		w.Steps = append(w.Steps, c15StepResult{Step: fmt.Sprintf("reload on fresh node which dies during recovery [%s] err=%v", rlabel, lerr), Node: fresh.Name, Model: m.String()})
		if fresh.conn.Dead() {
			sigTail += "|recovery-crash=" + rlabel
			label += " + " + rlabel
		}
		fresh = cl.NewNode()
		nodes = []*c15Node{a, fresh}
		names = []string{"same", "fresh"}
	}
	var view c15View
	for i, n := range nodes {
		v, ok := c15CheckLoad(run, n, m, c15CheckCtx{Part: "crash", Phase: fmt.Sprintf("reload #%d on the %s node after %s", i+1, names[i], label),
			SigTail: sigTail, Witness: wit, Narrow: true})
		w.Steps = append(w.Steps, c15StepResult{Step: "reload on " + names[i] + " node", Node: n.Name, View: v.String(), Model: m.String()})
		if !ok {
			return
		}
		view = v
	}
	if hit {
		switch {
		case cs.Test.Kind == "delete" && view[cs.Test.DB] == "", cs.Test.Kind != "delete" && view[cs.Test.DB] == out.New && out.New != "":
			run.Count("interrupted_change_completed", 1)
		default:
			run.Count("interrupted_change_rolled_back", 1)
		}
	}

	// after any interruption: create / update / delete of the same and of another database succeed
	contested := map[string]bool{}
	for _, c := range cs.Test.Cols {
		contested[c] = true
	}
	for _, st := range cs.Prefix {
		if st.Ch.DB == cs.Test.DB {
			for _, c := range st.Ch.Cols {
				contested[c] = true
			}
		}
	}
	mark := uint32(900000 + idx*10)
	nextMark := func() uint32 { mark++; return mark }
	pickCols := func(except string) []string {
		free := c15Free(m, view, except)
		var pref []string
		for _, c := range free {
			if contested[c] {
				pref = append(pref, c)
			}
		}
		if len(pref) > 0 {
			// "D" (default collection, no scopes) cannot be combined with named collections of scope s1
			if pref[0] == "D" || idx%3 == 0 {
				return pref[:1]
			}
			return pref
		}
		if len(free) > 0 {
			return free[:1]
		}
		return nil
	}
	curCols := func(db string) []string {
		var out []string
		for _, full := range m.Cols[view[db]] {
			if full == "_default._default" {
				out = append(out, "D")
			} else {
				out = append(out, strings.TrimPrefix(full, c15Scope+"."))
			}
		}
		return out
	}
	type fu struct {
		role string
		ch   func() (c15Change, bool)
	}
	same := cs.Test.DB
	fus := []fu{
		{"other-db:create", func() (c15Change, bool) {
			for _, db := range c15DBs {
				if db != same && view[db] == "" {
					if cols := pickCols(db); cols != nil {
						return c15Change{Kind: "create", DB: db, Cols: cols, Mark: nextMark()}, true
					}
				}
			}
			return c15Change{}, false
		}},
		{"same-db", func() (c15Change, bool) {
			if view[same] == "" {
				if cols := pickCols(same); cols != nil {
					return c15Change{Kind: "create", DB: same, Cols: cols, Mark: nextMark()}, true
				}
				return c15Change{}, false
			}
			if idx%2 == 0 {
				return c15Change{Kind: "update", DB: same, Cols: curCols(same), Mark: nextMark()}, true
			}
			return c15Change{Kind: "delete", DB: same}, true
		}},
		{"other-db", func() (c15Change, bool) {
			for _, db := range c15DBs {
				if db != same && view[db] != "" {
					if idx%2 == 1 {
						return c15Change{Kind: "update", DB: db, Cols: curCols(db), Mark: nextMark()}, true
					}
					return c15Change{Kind: "delete", DB: db}, true
				}
			}
			return c15Change{}, false
		}},
		{"same-db:second", func() (c15Change, bool) {
			// the other kind of change on the same database
			if view[same] == "" {
				if cols := pickCols(same); cols != nil {
					return c15Change{Kind: "create", DB: same, Cols: cols, Mark: nextMark()}, true
				}
				return c15Change{}, false
			}
			if idx%2 == 1 {
				return c15Change{Kind: "update", DB: same, Cols: curCols(same), Mark: nextMark()}, true
			}
			return c15Change{Kind: "delete", DB: same}, true
		}},
	}
	// rotate the order so that every follow-up kind is also tried first (directly on the recovered state)
	rot := idx % len(fus)
	fus = append(fus[rot:], fus[:rot]...)
	for i, f := range fus {
		ch, ok := f.ch()
		if !ok {
			continue
		}
		n := nodes[i%2]
		if !c15FollowUp(run, cl, n, m, ch, f.role, "crash", wit, &w.Steps) {
			continue // a rejection leaves the state as it was: the remaining follow-ups are still meaningful
		}
		checker := nodes[(i+1)%2]
		v, ok := c15CheckLoad(run, checker, m, c15CheckCtx{Part: "crash", Phase: fmt.Sprintf("load after follow-up %s (after %s)", ch, label),
			SigTail: sigTail + "|after-follow-up=" + ch.Kind, Witness: wit, Narrow: true})
		w.Steps = append(w.Steps, c15StepResult{Step: "load after follow-up", Node: checker.Name, View: v.String(), Model: m.String()})
		if !ok {
			return
		}
		view = v
	}
	if run != nil && idx < 3 && hit {
		run.Sample(map[string]any{"case": cs.Key(), "crash": label, "recovery_order": order, "final_view": view.String(), "ops": len(cl.LogStrings())})
	}
	return
}

// ---------------------------------------------------------------------------------------------
// case generation

var c15ColSets = [][]string{{"D"}, {"c1"}, {"c2"}, {"c3"}, {"c1", "c2"}, {"c2", "c3"}, {"c1", "c3"}}

type c15Shadow map[string][]string // db -> cols (present databases), assuming every change so far completed

func (s c15Shadow) taken(except string) map[string]bool {
	t := map[string]bool{}
	for db, cols := range s {
		if db != except {
			for _, c := range cols {
				t[c] = true
			}
		}
	}
	return t
}

func (s c15Shadow) freeSets(except string) [][]string {
	t := s.taken(except)
	var out [][]string
	for _, set := range c15ColSets {
		ok := true
		for _, c := range set {
			if t[c] {
				ok = false
			}
		}
		if ok {
			out = append(out, set)
		}
	}
	return out
}

func (s c15Shadow) takenSets(except string) [][]string {
	t := s.taken(except)
	var out [][]string
	for _, set := range c15ColSets {
		for _, c := range set {
			if t[c] {
				out = append(out, set)
				break
			}
		}
	}
	return out
}

func (s c15Shadow) present() []string {
	var out []string
	for _, db := range c15DBs {
		if _, ok := s[db]; ok {
			out = append(out, db)
		}
	}
	return out
}

func (s c15Shadow) absent() []string {
	var out []string
	for _, db := range c15DBs {
		if _, ok := s[db]; !ok {
			out = append(out, db)
		}
	}
	return out
}

func (s c15Shadow) apply(ch c15Change) {
	switch ch.Kind {
	case "create", "update":
		if ch.FailCB {
			return
		}
		s[ch.DB] = ch.Cols
	case "delete":
		delete(s, ch.DB)
	}
}

// c15GenChange draws a change; valid (must be accepted if the shadow is the true state) or deliberately invalid.
func c15GenChange(r *vlib.Rand, s c15Shadow, mark *uint32, valid bool) c15Change {
	*mark++
	p, a := s.present(), s.absent()
	for tries := 0; tries < 20; tries++ {
		k := r.Intn(10)
		switch {
		case k < 4: // create
			if valid {
				if len(a) == 0 {
					continue
				}
				db := vlib.Pick(r, a)
				fs := s.freeSets(db)
				if len(fs) == 0 {
					continue
				}
				return c15Change{Kind: "create", DB: db, Cols: vlib.Pick(r, fs), Mark: *mark}
			}
			if len(p) > 0 && r.Bool() {
				return c15Change{Kind: "create", DB: vlib.Pick(r, p), Cols: vlib.Pick(r, c15ColSets), Mark: *mark} // exists
			}
			if len(a) > 0 {
				db := vlib.Pick(r, a)
				if ts := s.takenSets(db); len(ts) > 0 {
					return c15Change{Kind: "create", DB: db, Cols: vlib.Pick(r, ts), Mark: *mark} // conflict
				}
			}
		case k < 8: // update
			if valid {
				if len(p) == 0 {
					continue
				}
				db := vlib.Pick(r, p)
				fs := s.freeSets(db)
				if len(fs) == 0 {
					continue
				}
				if r.Chance(1, 4) {
					return c15Change{Kind: "update", DB: db, Cols: s[db], Mark: *mark}
				}
				return c15Change{Kind: "update", DB: db, Cols: vlib.Pick(r, fs), Mark: *mark}
			}
			switch r.Intn(3) {
			case 0:
				if len(a) > 0 {
					return c15Change{Kind: "update", DB: vlib.Pick(r, a), Cols: vlib.Pick(r, c15ColSets), Mark: *mark} // not found
				}
			case 1:
				if len(p) > 0 {
					db := vlib.Pick(r, p)
					if ts := s.takenSets(db); len(ts) > 0 {
						return c15Change{Kind: "update", DB: db, Cols: vlib.Pick(r, ts), Mark: *mark} // conflict
					}
				}
			default:
				if len(p) > 0 {
					db := vlib.Pick(r, p)
					return c15Change{Kind: "update", DB: db, Cols: s[db], Mark: *mark, FailCB: true}
				}
			}
		default: // delete
			if valid {
				if len(p) == 0 {
					continue
				}
				return c15Change{Kind: "delete", DB: vlib.Pick(r, p)}
			}
			if len(a) > 0 {
				return c15Change{Kind: "delete", DB: vlib.Pick(r, a)}
			}
		}
	}
	// fall back to something always possible
	if len(a) > 0 {
		if fs := s.freeSets(a[0]); len(fs) > 0 {
			return c15Change{Kind: "create", DB: a[0], Cols: fs[0], Mark: *mark}
		}
	}
	return c15Change{Kind: "delete", DB: p[0]}
}

func c15GenCase(r *vlib.Rand) c15CrashCase {
	s := c15Shadow{}
	mark := uint32(1000)
	var cs c15CrashCase
	plen := []int{0, 1, 1, 2, 2, 2}[r.Intn(6)]
	for i := 0; i < plen; i++ {
		st := c15Step{Ch: c15GenChange(r, s, &mark, r.Chance(9, 10))}
		if r.Chance(1, 2) {
			st.KillAt = r.Range(1, 3)
			st.Applied = r.Bool()
		}
		// the shadow follows the change when it (probably) reached the store far enough to be completed by recovery
		if st.KillAt == 0 || (st.Ch.Kind == "delete" && (st.KillAt > 1 || st.Applied)) || (st.Ch.Kind != "delete" && (st.KillAt > 2 || (st.KillAt == 2 && st.Applied))) {
			s.apply(st.Ch)
		}
		cs.Prefix = append(cs.Prefix, st)
	}
	cs.Test = c15GenChange(r, s, &mark, r.Chance(4, 5))
	return cs
}

func c15FixedCases() []c15CrashCase {
	cr := func(db string, m uint32, cols ...string) c15Change {
		return c15Change{Kind: "create", DB: db, Cols: cols, Mark: m}
	}
	up := func(db string, m uint32, cols ...string) c15Change {
		return c15Change{Kind: "update", DB: db, Cols: cols, Mark: m}
	}
	del := func(db string) c15Change { return c15Change{Kind: "delete", DB: db} }
	ok := func(ch c15Change) c15Step { return c15Step{Ch: ch} }
	die := func(ch c15Change, k int, applied bool) c15Step { return c15Step{Ch: ch, KillAt: k, Applied: applied} }
	return []c15CrashCase{
		{nil, cr("db1", 1, "c1")},
		{nil, cr("db1", 1, "D")},
		{[]c15Step{ok(cr("db1", 1, "c1", "c2"))}, up("db1", 2, "c1")},
		{[]c15Step{ok(cr("db1", 1, "c1", "c2"))}, up("db1", 2, "c2", "c3")},
		{[]c15Step{ok(cr("db1", 1, "c1"))}, del("db1")},
		{[]c15Step{ok(cr("db1", 1, "D"))}, del("db1")},
		{[]c15Step{ok(cr("db1", 1, "c1")), ok(cr("db2", 2, "c2"))}, up("db1", 3, "c1", "c2")},
		{[]c15Step{ok(cr("db1", 1, "c1")), ok(cr("db2", 2, "c2"))}, up("db2", 3, "c3")},
		{[]c15Step{ok(cr("db1", 1, "c1"))}, cr("db2", 2, "c1")},
		{[]c15Step{ok(cr("db1", 1, "c1"))}, cr("db1", 2, "c2")},
		{[]c15Step{ok(cr("db1", 1, "c1"))}, up("db2", 2, "c2")},
		{[]c15Step{ok(cr("db1", 1, "c1"))}, del("db3")},
		{[]c15Step{ok(cr("db1", 1, "c1"))}, c15Change{Kind: "update", DB: "db1", Cols: []string{"c1"}, Mark: 2, FailCB: true}},
		{[]c15Step{ok(cr("db1", 1, "c1", "c2")), die(up("db1", 2, "c1"), 2, true)}, cr("db2", 3, "c2")},
		{[]c15Step{ok(cr("db1", 1, "c1", "c2")), die(up("db1", 2, "c1"), 1, true)}, cr("db2", 3, "c2")},
		{[]c15Step{ok(cr("db1", 1, "c1", "c2")), die(up("db1", 2, "c1"), 1, true)}, up("db1", 3, "c3")},
		{[]c15Step{ok(cr("db1", 1, "c1")), die(del("db1"), 1, true)}, cr("db2", 3, "D")},
		{[]c15Step{ok(cr("db1", 1, "c1")), die(del("db1"), 1, true)}, cr("db2", 3, "c1")},
		{[]c15Step{ok(cr("db1", 1, "c1")), die(del("db1"), 2, true)}, cr("db1", 3, "c2")},
		{[]c15Step{ok(cr("db1", 1, "c1")), die(del("db1"), 1, true)}, del("db1")},
		{[]c15Step{die(cr("db1", 1, "c1"), 1, true)}, cr("db1", 2, "c1")},
		{[]c15Step{die(cr("db1", 1, "c1"), 1, true)}, cr("db2", 2, "c1")},
		{[]c15Step{die(cr("db1", 1, "c1"), 1, true), die(cr("db2", 2, "c1"), 1, true)}, cr("db3", 3, "c1")},
		{[]c15Step{ok(cr("db1", 1, "c1")), ok(cr("db2", 2, "c2"))}, del("db2")},
		{[]c15Step{ok(cr("db1", 1, "D"))}, cr("db2", 2, "D")},
		{[]c15Step{ok(cr("db1", 1, "D")), ok(cr("db2", 2, "c1"))}, up("db2", 3, "D")},
		{[]c15Step{ok(cr("db1", 1, "c1")), ok(cr("db2", 2, "D"))}, up("db1", 3, "D")},
		{[]c15Step{ok(cr("db1", 1, "D")), ok(up("db1", 2, "c1"))}, cr("db2", 3, "D")},
		{[]c15Step{ok(cr("db1", 1, "c1", "c2")), ok(cr("db2", 2, "c3"))}, up("db2", 3, "c2", "c3")},
	}
}

func TestVerif_C15_Crash(t *testing.T) {
	run := vlib.Start(t, "C15", "crash")
	defer run.Finish()
	cl := newC15Cluster(t)
	defer cl.Close()
	cl.sites.Store(true)

	cases := c15FixedCases()
	nRandom := run.N(45, 2500)
	for i := 0; i < nRandom; i++ {
		cases = append(cases, c15GenCase(run.CaseRand(i)))
	}
	only, onlySet := run.OnlyCase()
	idx := 0
	seen := map[string]bool{}
	for ci, cs := range cases {
		if onlySet && ci != only {
			continue
		}
		if seen[cs.Key()] {
			continue
		}
		seen[cs.Key()] = true
		// counting run (also the uninterrupted scenario)
		idx++
		m, _ := c15RunCrashScenario(run, cl, cs, 0, false, "fresh-first", idx)
		run.Max("mutating_steps_of_one_change", m)
		run.Count("base_cases", 1)
		for k := 1; k <= m; k++ {
			for _, applied := range []bool{false, true} {
				orders := []string{"fresh-first", "same-first"}
				// double fault: the recovering node dies too (one variant per crash point, rotating)
				orders = append(orders, []string{"fresh-dies-m1-applied", "fresh-dies-m1-lost", "fresh-dies-m2-applied", "fresh-dies-m2-lost"}[(idx+k)%4])
				for _, order := range orders {
					idx++
					c15RunCrashScenario(run, cl, cs, k, applied, order, idx)
				}
			}
		}
	}
	var ks []string
	for k := range seen {
		ks = append(ks, k)
	}
	sort.Strings(ks)
	run.Note("base cases: %d", len(ks))
}
