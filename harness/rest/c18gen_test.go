//go:build verif

package rest

import (
	"fmt"
	"sort"
	"strings"

	"verif/vlib"
)

// C18 workload generator: sync-function family, corpora, principals. Everything is a function of a
// vlib.Rand (VERIF_SEED); nothing here touches sync_gateway.

var (
	c18Channels = []string{"c0", "c1", "c2", "c3"}
	c18Users    = []string{"u1", "u2", "u3", "u4"} // u4 holds "*"
	c18Roles    = []string{"r1", "r2"}
)

// c18Fn is one member of the sync-function family. All members read body fields only (never the
// stored state), so "evaluating the function from scratch" is well defined for any revision:
//
//	a, b   channel name / list of channel names            -> channel()
//	u, gc  user (or "role:<name>") and channel              -> access()
//	u2,gc2 second grant                                     -> access()
//	ru, rr user and role name                               -> role()
//	k      small integer                                    -> rejection predicate
type c18Fn struct {
	Ch   string   `json:"ch"`   // a | b | ab | const | none
	Acc  []string `json:"acc"`  // subset of: u-gc, u2-gc2, rr-gc (grant to role doc.rr), u-a
	Rol  string   `json:"rol"`  // none | ru-rr | u-r1
	Rej  string   `json:"rej"`  // none | top (throw before anything else) | bottom (throw after the channel/access/role calls)
	RejK int      `json:"rejk"` // documents with doc.k === RejK are rejected
	Tomb string   `json:"tomb"` // none | old-grant: a deletion keeps granting what its parent granted (access(oldDoc.u, oldDoc.gc))
}

func (f c18Fn) key() string { return vlib.JSON(f) }

// Source renders the function. nullify=true renders the variant used by the from-scratch database F:
// the rejection is replaced by "return before any channel/access/role call", i.e. the revision is kept
// (as resync keeps it) but the function produces nothing for it.
func (f c18Fn) Source(nullify bool) string {
	var b strings.Builder
	b.WriteString("function(doc, oldDoc) {\n")
	cond := fmt.Sprintf("doc.k === %d", f.RejK)
	if f.Rej != "none" && nullify {
		b.WriteString("  if (" + cond + ") { return; }\n")
	}
	if f.Rej == "top" && !nullify {
		b.WriteString("  if (" + cond + ") { throw({forbidden: \"c18 rejected\"}); }\n")
	}
	if f.Tomb == "old-grant" {
		b.WriteString("  if (doc._deleted && oldDoc) { access(oldDoc.u, oldDoc.gc); }\n")
	}
	switch f.Ch {
	case "a":
		b.WriteString("  channel(doc.a);\n")
	case "b":
		b.WriteString("  channel(doc.b);\n")
	case "ab":
		b.WriteString("  channel(doc.a); channel(doc.b);\n")
	case "const":
		b.WriteString("  channel(\"c0\");\n")
	}
	for _, a := range f.Acc {
		switch a {
		case "u-gc":
			b.WriteString("  access(doc.u, doc.gc);\n")
		case "u2-gc2":
			b.WriteString("  access(doc.u2, doc.gc2);\n")
		case "rr-gc":
			b.WriteString("  if (doc.rr) { access(\"role:\" + doc.rr, doc.gc); }\n")
		case "u-a":
			b.WriteString("  access(doc.u, doc.a);\n")
		}
	}
	switch f.Rol {
	case "ru-rr":
		b.WriteString("  if (doc.rr) { role(doc.ru, \"role:\" + doc.rr); }\n")
	case "u-r1":
		b.WriteString("  role(doc.u, \"role:r1\");\n")
	}
	if f.Rej == "bottom" && !nullify {
		b.WriteString("  if (" + cond + ") { throw({forbidden: \"c18 rejected\"}); }\n")
	}
	b.WriteString("}")
	return b.String()
}

var (
	c18ChOpts  = []string{"a", "b", "ab", "const", "none"}
	c18AccOpts = []string{"u-gc", "u2-gc2", "rr-gc", "u-a"}
	c18RolOpts = []string{"none", "ru-rr", "u-r1"}
)

func c18RandAcc(r *vlib.Rand) []string {
	n := r.Intn(3)
	p := r.Perm(len(c18AccOpts))
	out := []string{}
	for i := 0; i < n; i++ {
		out = append(out, c18AccOpts[p[i]])
	}
	sort.Strings(out)
	return out
}

// c18RandFn draws a function that never rejects (used as f1: the corpus must be writable under it).
func c18RandFn(r *vlib.Rand) c18Fn {
	f := c18Fn{Ch: vlib.Pick(r, c18ChOpts[:3]), Acc: c18RandAcc(r), Rol: vlib.Pick(r, c18RolOpts), Rej: "none", Tomb: "none"}
	if r.Chance(1, 6) {
		f.Ch = vlib.Pick(r, c18ChOpts)
	}
	if r.Chance(1, 8) {
		f.Tomb = "old-grant"
	}
	return f
}

// c18Mutate derives f2 from f1 by 1..3 edits from the property's list: channel move, grant to
// user / role added / removed / moved, role grant added / removed / moved, rejection added,
// deletion-grant clause added / removed.
func c18Mutate(r *vlib.Rand, f1 c18Fn) (c18Fn, []string) {
	f2 := f1
	f2.Acc = append([]string{}, f1.Acc...)
	var edits []string
	n := r.Range(1, 3)
	for i := 0; i < n; i++ {
		switch r.Intn(7) {
		case 0, 1: // channel move
			old := f2.Ch
			for f2.Ch == old {
				f2.Ch = vlib.Pick(r, c18ChOpts)
			}
			edits = append(edits, "channel:"+old+"->"+f2.Ch)
		case 2: // access added / removed / moved
			old := strings.Join(f2.Acc, "+")
			f2.Acc = c18RandAcc(r)
			edits = append(edits, "access:"+old+"->"+strings.Join(f2.Acc, "+"))
		case 3: // role grant
			old := f2.Rol
			for f2.Rol == old {
				f2.Rol = vlib.Pick(r, c18RolOpts)
			}
			edits = append(edits, "role:"+old+"->"+f2.Rol)
		case 4, 5: // rejection
			f2.Rej = vlib.Pick(r, []string{"top", "bottom"})
			f2.RejK = r.Intn(3)
			edits = append(edits, "reject:"+f2.Rej)
		case 6:
			if f2.Tomb == "none" {
				f2.Tomb = "old-grant"
			} else {
				f2.Tomb = "none"
			}
			edits = append(edits, "tomb:"+f2.Tomb)
		}
	}
	return f2, edits
}

// ---------------------------------------------------------------------------------------------
// corpus

type c18Rev struct {
	Doc     string         `json:"doc"`
	Rev     string         `json:"rev"`            // "<gen>-<digest>"
	Parent  string         `json:"parent"`         // "" for a root
	Anc     []string       `json:"anc"`            // ancestor digests, newest first
	Deleted bool           `json:"del,omitempty"`  // the revision is a deletion
	Body    map[string]any `json:"body"`           // without _revisions / _deleted
	Leaf    bool           `json:"leaf,omitempty"` // no child in the final tree
}

type c18Doc struct {
	ID    string   `json:"id"`
	Shape string   `json:"shape"`
	Live  bool     `json:"live"`   // at least one leaf is not a deletion
	Leafs []string `json:"leaves"` // leaf revision ids
}

type c18ShapeRev struct {
	rev, parent string
	del         bool
	tombBody    bool // a deletion that carries body fields
}

// shapes: every kind the property names (live, tombstoned, conflicted, resurrected, branch tombstoned)
var c18Shapes = map[string][]c18ShapeRev{
	"live1":                {{rev: "1-a"}},
	"live3":                {{rev: "1-a"}, {rev: "2-a", parent: "1-a"}, {rev: "3-a", parent: "2-a"}},
	"tomb":                 {{rev: "1-a"}, {rev: "2-a", parent: "1-a", del: true}},
	"tomb-body":            {{rev: "1-a"}, {rev: "2-a", parent: "1-a", del: true, tombBody: true}},
	"resurrected":          {{rev: "1-a"}, {rev: "2-a", parent: "1-a", del: true}, {rev: "3-a", parent: "2-a"}},
	"conflict2":            {{rev: "1-a"}, {rev: "2-a", parent: "1-a"}, {rev: "2-b", parent: "1-a"}},
	"conflict2-late-loser": {{rev: "1-a"}, {rev: "2-b", parent: "1-a"}, {rev: "2-a", parent: "1-a"}},
	"conflict3":            {{rev: "1-a"}, {rev: "2-a", parent: "1-a"}, {rev: "2-b", parent: "1-a"}, {rev: "3-a", parent: "2-a"}, {rev: "2-c", parent: "1-a"}},
	"conflict-tombbranch":  {{rev: "1-a"}, {rev: "2-a", parent: "1-a"}, {rev: "2-b", parent: "1-a"}, {rev: "3-b", parent: "2-b", del: true}},
	"conflict-alltomb":     {{rev: "1-a"}, {rev: "2-a", parent: "1-a", del: true}, {rev: "2-b", parent: "1-a", del: true}},
	"roots2":               {{rev: "1-a"}, {rev: "1-b"}},
}

var (
	c18LiveShapes     = []string{"live1", "live3", "resurrected"}
	c18TombShapes     = []string{"tomb", "tomb", "tomb-body", "conflict-alltomb"}
	c18ConflictShapes = []string{"conflict2", "conflict2-late-loser", "conflict3", "conflict-tombbranch", "roots2"}
)

func c18AllShapeNames() []string {
	var out []string
	for k := range c18Shapes {
		out = append(out, k)
	}
	sort.Strings(out)
	return out
}

func c18RandBody(r *vlib.Rand, marker string, granting bool) map[string]any {
	b := map[string]any{"m": marker, "k": r.Intn(3)}
	if r.Chance(4, 5) {
		b["a"] = vlib.Pick(r, c18Channels)
	}
	if r.Chance(1, 2) {
		if r.Chance(1, 3) {
			b["b"] = []any{vlib.Pick(r, c18Channels), vlib.Pick(r, c18Channels)}
		} else {
			b["b"] = vlib.Pick(r, c18Channels)
		}
	}
	pickGrantee := func() string {
		if r.Chance(1, 5) {
			return "role:" + vlib.Pick(r, c18Roles)
		}
		if r.Chance(1, 12) {
			return "ghost" // a user that does not exist
		}
		return vlib.Pick(r, c18Users[:3])
	}
	if granting || r.Chance(1, 2) {
		b["u"] = pickGrantee()
		b["gc"] = vlib.Pick(r, c18Channels)
	}
	if r.Chance(1, 3) {
		b["u2"] = pickGrantee()
		b["gc2"] = vlib.Pick(r, c18Channels)
	}
	if granting || r.Chance(2, 5) {
		b["ru"] = vlib.Pick(r, c18Users[:3])
		b["rr"] = vlib.Pick(r, c18Roles)
	}
	return b
}

type c18Principal struct {
	Name     string   `json:"name"`
	IsRole   bool     `json:"is_role,omitempty"`
	Channels []string `json:"admin_channels"`
	Roles    []string `json:"admin_roles,omitempty"`
}

type c18Case struct {
	Idx        int            `json:"case"`
	F1         c18Fn          `json:"f1"`
	F2         c18Fn          `json:"f2"`
	Edits      []string       `json:"edits"`
	Regen      bool           `json:"regenerate_sequences"`
	Docs       []c18Doc       `json:"docs"`
	Revs       []c18Rev       `json:"pushes"` // in push order (same order for R and F)
	Principals []c18Principal `json:"principals"`
	// which principals are loaded (read through GET _user/_role, users also authenticate once) and when.
	// Loading computes and stores a principal's channels / roles; a document write afterwards invalidates only
	// what it changes (channels or roles), so what is pending at resync time depends on this schedule.
	LateFrom  int      `json:"late_from"`                 // pushes[late_from:] are made after the early load
	LoadEarly []string `json:"loaded_before_late_pushes"` // loaded between pushes[:late_from] and pushes[late_from:]
	LoadLate  []string `json:"loaded_before_resync"`      // loaded after the last push, before the sync function changes
}

func (c *c18Case) principalNames() []string {
	var out []string
	for _, p := range c.Principals {
		out = append(out, p.Name)
	}
	return out
}

func (c *c18Case) doc(id string) *c18Doc {
	for i := range c.Docs {
		if c.Docs[i].ID == id {
			return &c.Docs[i]
		}
	}
	return nil
}

// class of the case for signatures (input class, never ids / seeds)
func (c *c18Case) hasTombGrantInput() bool {
	if c.F1.Tomb != "none" || c.F2.Tomb != "none" {
		return true
	}
	for _, d := range c.Docs {
		if d.Shape == "tomb-body" {
			return true
		}
	}
	return false
}

func c18GenCase(r *vlib.Rand, idx int) *c18Case {
	c := &c18Case{Idx: idx}
	c.F1 = c18RandFn(r)
	switch {
	case r.Chance(1, 12): // identical functions: the resync must change nothing at all
		c.F2, c.Edits = c.F1, []string{"identical"}
	case r.Chance(1, 6): // unrelated function
		c.F2 = c18RandFn(r)
		if r.Chance(1, 2) {
			c.F2.Rej, c.F2.RejK = vlib.Pick(r, []string{"top", "bottom"}), r.Intn(3)
		}
		c.Edits = []string{"unrelated"}
	default:
		c.F2, c.Edits = c18Mutate(r, c.F1)
	}
	c.Regen = r.Bool()

	// 6 documents: at least one live, one tombstoned, one conflicted, one granting
	shapes := []string{vlib.Pick(r, c18LiveShapes), vlib.Pick(r, c18TombShapes), vlib.Pick(r, c18ConflictShapes), "live1"}
	all := c18AllShapeNames()
	for len(shapes) < 6 {
		shapes = append(shapes, vlib.Pick(r, all))
	}
	p := r.Perm(len(shapes))
	queues := make([][]c18Rev, len(shapes))
	for i, pi := range p {
		shape := shapes[pi]
		id := fmt.Sprintf("d%d", i)
		var bodies []map[string]any
		for j, sr := range c18Shapes[shape] {
			marker := fmt.Sprintf("%s/%s#%d", id, sr.rev, idx)
			if sr.del && !sr.tombBody {
				bodies = append(bodies, map[string]any{})
			} else {
				bodies = append(bodies, c18RandBody(r, marker, pi == 3 || (j == 0 && r.Chance(1, 3))))
			}
		}
		d, q := c18BuildDoc(id, shape, bodies)
		c.Docs = append(c.Docs, d)
		queues[i] = q
	}
	// interleave the per-document push sequences (parents always before children)
	for {
		var avail []int
		for i, q := range queues {
			if len(q) > 0 {
				avail = append(avail, i)
			}
		}
		if len(avail) == 0 {
			break
		}
		i := vlib.Pick(r, avail)
		c.Revs = append(c.Revs, queues[i][0])
		queues[i] = queues[i][1:]
	}

	// principals: 4 users, 2 roles, light random admin grants; u4 holds the wildcard
	pickCh := func(num, den int) []string {
		out := []string{}
		if r.Chance(num, den) {
			out = append(out, vlib.Pick(r, c18Channels))
		}
		return out
	}
	c.Principals = []c18Principal{
		{Name: "r1", IsRole: true, Channels: pickCh(1, 3)},
		{Name: "r2", IsRole: true, Channels: pickCh(2, 3)},
		{Name: "u1", Channels: []string{}},
		{Name: "u2", Channels: pickCh(1, 3)},
		{Name: "u3", Channels: pickCh(2, 3)},
		{Name: "u4", Channels: []string{"*"}},
	}
	if r.Chance(1, 2) {
		c.Principals[3].Roles = []string{"r2"}
	}
	if r.Chance(1, 4) {
		c.Principals[2].Roles = []string{"r1"}
	}

	// load schedule and late writes (drawn from a forked generator: the corpus above does not depend on them)
	lr := r.Fork(0xC18A)
	c.LateFrom = lr.Range(len(c.Revs)/3, len(c.Revs))
	// 0..2 late documents whose bodies can only change role() grants (no channel / access fields)
	for i, n := 0, lr.Intn(3); i < n; i++ {
		id := fmt.Sprintf("l%d", i)
		b := map[string]any{"m": fmt.Sprintf("%s/1-a#%d", id, idx), "k": lr.Intn(3), "ru": vlib.Pick(lr, c18Users[:3]), "rr": vlib.Pick(lr, c18Roles)}
		if lr.Bool() {
			b["u"] = vlib.Pick(lr, c18Users[:3])
		}
		d, q := c18BuildDoc(id, "live1", []map[string]any{b})
		c.Docs = append(c.Docs, d)
		c.Revs = append(c.Revs, q...)
	}
	subset := func(weights [3]int) []string { // none / some / all
		all := c.principalNames()
		switch x := lr.Intn(weights[0] + weights[1] + weights[2]); {
		case x < weights[0]:
			return []string{}
		case x < weights[0]+weights[1]:
			out := []string{}
			for _, n := range all {
				if lr.Bool() {
					out = append(out, n)
				}
			}
			return out
		}
		return all
	}
	c.LoadEarly = subset([3]int{1, 2, 2})
	c.LoadLate = subset([3]int{2, 2, 1})
	return c
}

// c18BuildDoc lays out one document of the given shape with the given revision bodies (in shape order).
func c18BuildDoc(id, shape string, bodies []map[string]any) (c18Doc, []c18Rev) {
	d := c18Doc{ID: id, Shape: shape}
	parentOf := map[string]string{}
	hasChild := map[string]bool{}
	for _, sr := range c18Shapes[shape] {
		parentOf[sr.rev] = sr.parent
		if sr.parent != "" {
			hasChild[sr.parent] = true
		}
	}
	var q []c18Rev
	for j, sr := range c18Shapes[shape] {
		rev := c18Rev{Doc: id, Rev: sr.rev, Parent: sr.parent, Deleted: sr.del, Leaf: !hasChild[sr.rev], Body: bodies[j]}
		for a := sr.parent; a != ""; a = parentOf[a] {
			rev.Anc = append(rev.Anc, a[strings.Index(a, "-")+1:])
		}
		if rev.Leaf {
			d.Leafs = append(d.Leafs, rev.Rev)
			if !rev.Deleted {
				d.Live = true
			}
		}
		q = append(q, rev)
	}
	return d, q
}

// c18FixedCases: the shortest history of each input class the generated cases found the resync to
// mishandle (kept so that every run exercises them whatever the seed), plus two plain controls.
func c18FixedCases(base int) []*c18Case {
	princ := []c18Principal{
		{Name: "r1", IsRole: true, Channels: []string{}}, {Name: "r2", IsRole: true, Channels: []string{"c2"}},
		{Name: "u1", Channels: []string{}}, {Name: "u2", Channels: []string{"c2"}}, {Name: "u3", Channels: []string{"c3"}}, {Name: "u4", Channels: []string{"*"}},
	}
	type dd struct {
		shape  string
		bodies []map[string]any
	}
	mk := func(i int, f1, f2 c18Fn, regen bool, edits string, docs ...dd) *c18Case {
		c := &c18Case{Idx: base + i, F1: f1, F2: f2, Regen: regen, Edits: []string{"fixed:" + edits}, Principals: princ}
		for n, d := range docs {
			doc, q := c18BuildDoc(fmt.Sprintf("d%d", n), d.shape, d.bodies)
			c.Docs = append(c.Docs, doc)
			c.Revs = append(c.Revs, q...)
		}
		// default schedule of the fixed histories: everything pushed, then every principal loaded
		c.LateFrom, c.LoadEarly, c.LoadLate = len(c.Revs), []string{}, c.principalNames()
		return c
	}
	sched := func(c *c18Case, lateFrom int, early, late []string) *c18Case {
		c.LateFrom, c.LoadEarly, c.LoadLate = lateFrom, early, late
		return c
	}
	none := []string{}
	B := func(kv ...any) map[string]any {
		m := map[string]any{}
		for i := 0; i+1 < len(kv); i += 2 {
			m[kv[i].(string)] = kv[i+1]
		}
		return m
	}
	fa := c18Fn{Ch: "a", Acc: none, Rol: "ru-rr", Rej: "none", Tomb: "none"}
	faRej := fa
	faRej.Rej, faRej.RejK = "bottom", 1
	fChA := c18Fn{Ch: "a", Acc: none, Rol: "none", Rej: "none", Tomb: "none"}
	fChB := c18Fn{Ch: "b", Acc: none, Rol: "none", Rej: "none", Tomb: "none"}
	fGrant := c18Fn{Ch: "a", Acc: []string{"u-gc"}, Rol: "none", Rej: "none", Tomb: "none"}
	fGrantTomb := fGrant
	fGrantTomb.Tomb = "old-grant"
	fGrantRole := c18Fn{Ch: "a", Acc: []string{"u-gc"}, Rol: "ru-rr", Rej: "none", Tomb: "none"}
	fGrant2Role := c18Fn{Ch: "a", Acc: []string{"u2-gc2"}, Rol: "ru-rr", Rej: "none", Tomb: "none"}
	return []*c18Case{
		// role() before the throw: the rejected revision keeps its role grant
		mk(0, fa, faRej, false, "role-grant-before-throw", dd{"live1", []map[string]any{B("a", "c0", "ru", "u1", "rr", "r1", "k", 1)}}, dd{"live1", []map[string]any{B("a", "c3", "k", 0)}}),
		// only the conflicting leaf changes channels: document not rewritten
		mk(1, fChA, fChB, false, "only-conflicting-leaf-changes", dd{"conflict2-late-loser", []map[string]any{B("a", "c0", "b", "c0", "k", 0), B("a", "c1", "b", "c1", "k", 0), B("a", "c2", "b", "c3", "k", 0)}}, dd{"live1", []map[string]any{B("a", "c3", "b", "c2", "k", 0)}}),
		// grant removed, regenerate_sequences=true: principals keep the old grants
		mk(2, fGrant, fChA, true, "grant-removed-with-regenerate-sequences", dd{"live1", []map[string]any{B("a", "c0", "u", "u1", "gc", "c1", "k", 0)}}, dd{"live1", []map[string]any{B("a", "c1", "k", 0)}}),
		// control: the same without regenerate_sequences
		mk(3, fGrant, fChA, false, "grant-removed", dd{"live1", []map[string]any{B("a", "c0", "u", "u1", "gc", "c1", "k", 0)}}, dd{"live1", []map[string]any{B("a", "c1", "k", 0)}}),
		// a deletion that grants from oldDoc under f1 only: resync skips the tombstone
		mk(4, fGrantTomb, fGrant, false, "deletion-grant-clause-removed", dd{"tomb", []map[string]any{B("a", "c0", "u", "u1", "gc", "c1", "k", 0), B()}}, dd{"live1", []map[string]any{B("a", "c1", "k", 0)}}),
		// control: channel move on a conflicted document whose winner changes too
		// u1 loaded (channels computed), then a write changes only u1's role() grant (roles invalidated, channels still valid),
		// u1 not loaded again; f2 moves u1's channel grant: the post-resync invalidation must still reach u1's channels
		sched(mk(6, fGrantRole, fGrant2Role, false, "grant-moved-while-only-roles-pending", dd{"live1", []map[string]any{B("a", "c0", "u", "u1", "gc", "c1", "u2", "u1", "gc2", "c3", "k", 0)}}, dd{"live1", []map[string]any{B("ru", "u1", "rr", "r1", "k", 0)}}),
			1, []string{"u1", "u2"}, none),
		// control: the same, everybody loaded again before the resync
		sched(mk(7, fGrantRole, fGrant2Role, false, "grant-moved-all-loaded", dd{"live1", []map[string]any{B("a", "c0", "u", "u1", "gc", "c1", "u2", "u1", "gc2", "c3", "k", 0)}}, dd{"live1", []map[string]any{B("ru", "u1", "rr", "r1", "k", 0)}}),
			1, []string{"u1", "u2"}, []string{"r1", "r2", "u1", "u2", "u3", "u4"}),
		// nobody ever loaded before the resync
		sched(mk(8, fGrantRole, fGrant2Role, false, "grant-moved-nobody-loaded", dd{"live1", []map[string]any{B("a", "c0", "u", "u1", "gc", "c1", "u2", "u1", "gc2", "c3", "k", 0)}}, dd{"live1", []map[string]any{B("ru", "u1", "rr", "r1", "k", 0)}}),
			2, none, none),
		mk(5, fChA, fChB, false, "channel-move-conflict", dd{"conflict2", []map[string]any{B("a", "c0", "b", "c1", "k", 0), B("a", "c1", "b", "c2", "k", 0), B("a", "c2", "b", "c3", "k", 0)}}, dd{"live3", []map[string]any{B("a", "c3", "b", "c2", "k", 0), B("a", "c3", "b", "c1", "k", 0), B("a", "c0", "b", "c2", "k", 0)}}),
	}
}

// shapeKey: the structural identity of a case (distinct non-trivial cases are counted by it)
func (c *c18Case) shapeKey() string {
	var s []string
	for _, d := range c.Docs {
		s = append(s, d.Shape)
	}
	bodies := vlib.JSON(c.Revs)
	return strings.Join(s, ",") + "|" + c.F1.key() + "|" + c.F2.key() + fmt.Sprintf("|%v|%x", c.Regen, vlib.HashStr(bodies))
}
