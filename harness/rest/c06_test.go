//go:build verif

package rest

// C06 — replicating peers converge to the same documents.
//
// Part "isgr" (and "isgr-race", the same workload under the race detector): two RestTester peers (active with
// sg-replicate, passive served over an httptest server), both routed through the storage hook H1. A case is a seeded
// script of local writes (edit / delete / resurrect) on either peer interleaved with start / await / stop / restart
// of ONE replication definition (push, pull or pushAndPull; one-shot or continuous; V3 revision-tree or V4
// version-vector sub-protocol) and with four H1 devices:
//   mid-flight stop   the replicated write of one document is parked at the storage boundary, the replication is
//                     stopped, then the write goes through late or fails (= the in-flight revision is lost)
//   mid-window write  one local write inside the compute->CAS window of the next replicated write of a document
//   mid-window read   a client read of the document inside that window (one armed read, or - reader mode - every
//                     window of the case on the active)
//   pull refusal      the active refuses the next pulled revision of a document once while connected
//
// Oracles, all evaluated at bounded quiescence (see finalize / passesToIdle):
//   direction   what the replication direction must have achieved for every document
//   idle-rerun  a re-run of the caught-up replication transfers nothing (status deltas and H1 log)
//   converged   after a pushAndPull epilogue has also caught up both peers are identical
//
// Nothing predicts the resolver's winner: only agreement / adoption is demanded. Where the storage history or the
// revision-tree shape of a divergence names its cause (classify, c06Shape), the signature names the cause.

import (
	"encoding/json"
	"fmt"
	"net/http"
	"os"
	"reflect"
	"sort"
	"strconv"
	"strings"
	"sync"
	"sync/atomic"
	"testing"
	"time"

	"github.com/couchbase/sync_gateway/base"
	"github.com/couchbase/sync_gateway/db"
	"verif/vlib"
)

const (
	c06Watchdog    = 40 * time.Second // per wait; expiry => inconclusive
	c06PollEvery   = 3 * time.Millisecond
	c06MaxPasses   = 7
	c06NumDocs     = 3
	c06ReplID      = "c06r"
	c06EpilogueID  = "c06epi"
	c06GateTimeout = 60 * time.Second
)

// ---------------------------------------------------------------------------------------------
// peers

type c06Peer struct {
	name string // "active" | "passive"
	rt   *RestTester
	vs   *vStore
	// gate: replication-originated document writes on this peer park here while armed
	gateArmed   atomic.Bool
	gateParked  atomic.Int32
	gateCh      atomic.Pointer[chan struct{}]
	gateDoc     atomic.Int32 // document whose replicated writes park (-1 = all)
	gateLose    atomic.Bool  // a parked write fails when released: the in-flight revision is lost
	gateStopped atomic.Bool  // set by the harness once the replication has stopped with the write still parked
	// mid-window interference: one local write forced into the compute->CAS window of a replicated write
	midArmed  atomic.Bool
	midDelete atomic.Bool
	midDoc    atomic.Int32
	midFn     atomic.Pointer[func(doc int)]
	inHook    sync.Map // goroutine id -> true while the harness itself is writing from inside a hook
	hookOps   sync.Map // op number -> true for storage operations the harness issued from inside a hook
	// transient refusal: the next replicated write of one document on this peer fails once while the replication is connected
	faultArmed atomic.Bool
	faultDoc   atomic.Int32
	// document writes seen at the storage boundary (H1), harvested from the store's log
	opsMu sync.Mutex
	ops   []*base.VerifOp
}

// harvest moves the document writes logged by H1 since the last call into p.ops and returns len(p.ops), i.e. the
// index at which later writes will start.
func (e *c06Env) harvest(p *c06Peer) int {
	p.vs.mu.Lock()
	l := p.vs.log
	p.vs.log = nil
	p.vs.mu.Unlock()
	p.opsMu.Lock()
	defer p.opsMu.Unlock()
	for _, op := range l {
		if c06IsDocWrite(op) && e.isDocKey(op.Key) {
			p.ops = append(p.ops, op)
		}
	}
	return len(p.ops)
}

func (p *c06Peer) opsCopy() []*base.VerifOp {
	p.opsMu.Lock()
	defer p.opsMu.Unlock()
	return append([]*base.VerifOp{}, p.ops...)
}

// classify looks at the storage-boundary history of one document for two history shapes that explain a divergence:
//
//	stale resurrection: a write that turned a tombstone into a live document was computed from an older state than the
//	one it replaced (the open C05 finding: resurrection is written without compare-and-swap), so a committed
//	revision - here one written by the replication - was overwritten;
//	retried replicated write: a replicated write of this document lost its compare-and-swap and its update callback
//	(which runs conflict detection and resolution) ran again.
func (e *c06Env) classify(doc string, peers ...*c06Peer) string {
	// the same edit made on both peers (one revision-tree id, two current versions): named when a peer's current revision is
	// that revision or its direct child (the resolution's tombstone)
	e.traceMu.Lock()
	tw := e.twinRev[doc]
	e.traceMu.Unlock()
	if tw != "" && e.hlv {
		for _, p := range peers {
			m := p.readMeta(doc)
			if m.Exists && (m.Rev == tw || m.Parents[m.Rev] == tw) {
				return e.sigBase() + "|peers-differ|history=the-same-edit(same-parent-and-body:one-revision-id,two-current-versions)-was-made-on-both-peers"
			}
		}
	}
	retried := ""
	for _, p := range peers {
		e.harvest(p)
		var applied []*base.VerifOp
		for _, op := range p.opsCopy() {
			if op.Key == doc && op.Applied && op.CasOut != 0 {
				applied = append(applied, op)
			}
		}
		sort.Slice(applied, func(i, j int) bool { return applied[i].CasOut < applied[j].CasOut })
		for i, op := range applied {
			if i > 0 && op.Kind == "WriteUpdateWithXattrs" && op.PrevTombstone && !op.Deleted && op.CasIn != 0 && op.CasIn < applied[i-1].CasOut {
				return "C06|isgr|peers-differ|cause=a-resurrection-computed-from-an-older-tombstone-overwrote-a-newer-committed-revision(resurrection-is-written-without-compare-and-swap:open-C05-finding)"
			}
			// only the active resolves conflicts inside the update callback
			if p == e.A && op.Gid != e.harness && op.Kind == "WriteUpdateWithXattrs" && op.Attempt >= 2 {
				if _, mine := p.hookOps.Load(op.N); !mine {
					retried = e.sigBase() + "|peers-differ|history=a-pulled-write-of-this-document-lost-its-compare-and-swap-on-the-active-and-its-update-callback(conflict-detection-and-resolution)-ran-again"
				}
			}
		}
	}
	return retried
}

type c06Env struct {
	t       *testing.T
	run     *vlib.Run
	c       *c06Case
	A, P    *c06Peer
	url     string
	hlv     bool // V4: version vectors
	docIDs  []string
	harness uint64 // goroutine id of the case's harness goroutine (its storage ops are local writes)
	trace   []string
	traceMu sync.Mutex
	// ledger of acknowledged local writes
	acked []c06Ack
	// bodies written per document (by marker) on each peer
	written map[string]map[string]bool // docID -> marker -> true
	twinRev map[string]string          // docID -> revision id of the last edit made identically on both peers (both halves acknowledged)
	writeN  int
	// replication bookkeeping
	created map[string]bool
	running map[string]bool
	cont    map[string]bool
	dirOf   map[string]db.ActiveReplicatorDirection
}

type c06Ack struct {
	Peer, Doc, Kind, Rev, Parent, Marker string
}

func (e *c06Env) tr(format string, a ...any) {
	s := fmt.Sprintf(format, a...)
	e.traceMu.Lock()
	e.trace = append(e.trace, s)
	e.traceMu.Unlock()
}

func (e *c06Env) traceCopy() []string {
	e.traceMu.Lock()
	defer e.traceMu.Unlock()
	return append([]string{}, e.trace...)
}

func (e *c06Env) isDocKey(k string) bool {
	for _, d := range e.docIDs {
		if d == k {
			return true
		}
	}
	return false
}

func (e *c06Env) docIndex(k string) int {
	for i, d := range e.docIDs {
		if d == k {
			return i
		}
	}
	return -1
}

func c06IsDocWrite(op *base.VerifOp) bool {
	if !op.Mutating {
		return false
	}
	switch op.Kind {
	case "Get", "GetRaw", "GetXattrs", "GetWithXattrs", "GetSubDocRaw", "Exists":
		return false
	}
	return true
}

func c06Setup(t *testing.T, run *vlib.Run, c *c06Case) *c06Env {
	e := &c06Env{t: t, run: run, c: c, hlv: c.Proto == "V4", harness: base.VerifGoroutineID(),
		twinRev: map[string]string{},
		written: map[string]map[string]bool{}, created: map[string]bool{}, running: map[string]bool{}, cont: map[string]bool{},
		dirOf: map[string]db.ActiveReplicatorDirection{}}
	for i := 0; i < c06NumDocs; i++ {
		id := fmt.Sprintf("c06d%d", i)
		e.docIDs = append(e.docIDs, id)
		e.written[id] = map[string]bool{}
	}
	proto := db.CBMobileReplicationV3.SubprotocolString()
	if e.hlv {
		proto = db.CBMobileReplicationV4.SubprotocolString()
	}
	vsA, vsP := newVStore(t), newVStore(t)
	peers := SetupISGRPeersWithOpts(t, TestISGRPeerOpts{
		ActivePeerSupportedBLIPSubProtocols: []string{proto},
		ActiveRestTesterConfig: &RestTesterConfig{DatabaseConfig: &DatabaseConfig{DbConfig: DbConfig{Name: fmt.Sprintf("c06a%d", c.Index)}},
			SgReplicateEnabled: true, CustomTestBucket: vsA.vtb},
		PassiveRestTesterConfig: &RestTesterConfig{DatabaseConfig: &DatabaseConfig{DbConfig: DbConfig{Name: fmt.Sprintf("c06p%d", c.Index)}},
			CustomTestBucket: vsP.vtb},
	})
	e.A = &c06Peer{name: "active", rt: peers.ActiveRT, vs: vsA}
	e.P = &c06Peer{name: "passive", rt: peers.PassiveRT, vs: vsP}
	e.url = peers.PassiveDBURL
	if c.FastCheckpoint {
		peers.ActiveRT.GetDatabase().SGReplicateMgr.CheckpointInterval = 5 * time.Millisecond
	}
	for _, p := range []*c06Peer{e.A, e.P} {
		p := p
		p.vs.SetFault(func(op *base.VerifOp, _ string) base.VerifDecision {
			if _, mine := p.inHook.Load(op.Gid); mine {
				p.hookOps.Store(op.N, true)
				return base.VerifDecision{}
			}
			if p.faultArmed.Load() && op.Gid != e.harness && op.Kind == "WriteUpdateWithXattrs" && int(p.faultDoc.Load()) == e.docIndex(op.Key) &&
				p.faultArmed.CompareAndSwap(true, false) {
				e.run.Count("pulled_revisions_refused_once_by_a_transient_storage_error", 1)
				e.tr("%s: the replicated write of %s is refused once (transient storage error while the replication is connected)", p.name, op.Key)
				return base.VerifDecision{Action: base.VerifFailBefore, Err: errInjected}
			}
			if p.gateArmed.Load() && op.Gid != e.harness && c06IsDocWrite(op) && e.isDocKey(op.Key) {
				if g := int(p.gateDoc.Load()); g >= 0 && g != e.docIndex(op.Key) {
					return base.VerifDecision{}
				}
				if _, mine := p.inHook.Load(op.Gid); !mine {
					if chp := p.gateCh.Load(); chp != nil {
						p.gateParked.Add(1)
						released := false
						select {
						case <-*chp:
							released = true
						case <-time.After(c06GateTimeout):
						}
						// lost only if the harness released it after the replication had stopped
						if released && p.gateLose.Load() && p.gateStopped.Load() {
							return base.VerifDecision{Action: base.VerifFailBefore, Err: errInjected}
						}
					}
				}
			}
			return base.VerifDecision{}
		})
		p.vs.SetMid(func(op *base.VerifOp, _ string) error {
			if op.Gid == e.harness || !e.isDocKey(op.Key) {
				return nil
			}
			if _, mine := p.inHook.Load(op.Gid); mine {
				return nil
			}
			if c.ReadInWindows && p == e.A {
				// a client reads the document (current revision, and by its current version) while the replicated write
				// has been computed and not yet stored; reads change nothing, so every window of the case gets one
				p.inHook.Store(op.Gid, true)
				cur := p.readMeta(op.Key)
				p.rt.SendAdminRequest("GET", "/{{.keyspace}}/"+op.Key, "")
				if cur.CV != "" {
					p.rt.SendAdminRequest("GET", "/{{.keyspace}}/"+op.Key+"?rev="+strings.ReplaceAll(cur.CV, "@", "%40"), "")
				}
				p.inHook.Delete(op.Gid)
				e.run.Count("reads_inside_replicated_write_windows", 1)
			}
			if !p.midArmed.Load() {
				return nil
			}
			if int(p.midDoc.Load()) != e.docIndex(op.Key) {
				return nil
			}
			if op.Deleted && p.midDelete.Load() {
				// a local delete inside the window of a replicated tombstone write makes rosmar answer "deleteBody=true on a
				// tombstone" instead of a CAS mismatch (an artefact of the test store): stay armed for the next write
				return nil
			}
			if !p.midArmed.CompareAndSwap(true, false) {
				return nil
			}
			if fn := p.midFn.Load(); fn != nil {
				p.inHook.Store(op.Gid, true)
				(*fn)(e.docIndex(op.Key))
				p.inHook.Delete(op.Gid)
			}
			return nil
		})
	}
	return e
}

// ---------------------------------------------------------------------------------------------
// observation of one document on one peer (admin _raw + admin GET of the current revision)

type c06Doc struct {
	Exists  bool              `json:"exists"`
	Rev     string            `json:"rev,omitempty"`
	CV      string            `json:"cv,omitempty"`
	Deleted bool              `json:"deleted"`
	Seq     uint64            `json:"seq,omitempty"`
	Cas     string            `json:"cas,omitempty"`
	Parents map[string]string `json:"revision_tree_parent_of,omitempty"`
	DelRevs map[string]bool   `json:"tombstoned_revisions,omitempty"`
	HLV     map[string]uint64 `json:"hlv,omitempty"` // source -> highest value anywhere in the vector (cv, pv, mv)
	Body    any               `json:"body,omitempty"`
	BodyRaw string            `json:"body_raw,omitempty"`
	GetCode int               `json:"get_status,omitempty"`
	RawErr  string            `json:"raw_error,omitempty"`
}

func (d *c06Doc) cur(hlv bool) string {
	if hlv {
		return d.CV
	}
	return d.Rev
}

func (d *c06Doc) fp() string {
	return fmt.Sprintf("%v|%s|%s|%v|%d|%s", d.Exists, d.Rev, d.CV, d.Deleted, d.Seq, d.Cas)
}

func c06DecodeJSON(b []byte) (any, error) {
	dec := json.NewDecoder(strings.NewReader(string(b)))
	dec.UseNumber()
	var v any
	err := dec.Decode(&v)
	return v, err
}

// readMeta reads the admin _raw view of a document.
func (p *c06Peer) readMeta(id string) *c06Doc {
	d := &c06Doc{Parents: map[string]string{}, DelRevs: map[string]bool{}}
	resp := p.rt.SendAdminRequest("GET", "/{{.keyspace}}/_raw/"+id, "")
	if resp.Code == http.StatusNotFound {
		return d
	}
	if resp.Code != http.StatusOK {
		d.RawErr = fmt.Sprintf("_raw status %d: %s", resp.Code, c06Trunc(resp.Body.String(), 200))
		return d
	}
	var raw struct {
		X struct {
			Sync *struct {
				Rev      json.RawMessage `json:"rev"`
				Sequence uint64          `json:"sequence"`
				Flags    uint8           `json:"flags"`
				Cas      string          `json:"cas"`
				History  struct {
					Revs    []string `json:"revs"`
					Parents []int    `json:"parents"`
					Deleted []int    `json:"deleted"`
				} `json:"history"`
			} `json:"_sync"`
			VV json.RawMessage `json:"_vv"`
		} `json:"_xattrs"`
	}
	if err := json.Unmarshal(resp.Body.Bytes(), &raw); err != nil || raw.X.Sync == nil {
		d.RawErr = fmt.Sprintf("_raw not understood (%v): %s", err, c06Trunc(resp.Body.String(), 300))
		return d
	}
	s := raw.X.Sync
	d.Exists = true
	d.Seq, d.Cas = s.Sequence, s.Cas
	d.Deleted = s.Flags&1 != 0
	if len(s.Rev) > 0 && s.Rev[0] == '"' {
		_ = json.Unmarshal(s.Rev, &d.Rev)
	} else {
		var rv struct {
			Rev string `json:"rev"`
		}
		_ = json.Unmarshal(s.Rev, &rv)
		d.Rev = rv.Rev
	}
	for i, r := range s.History.Revs {
		par := ""
		if i < len(s.History.Parents) && s.History.Parents[i] >= 0 && s.History.Parents[i] < len(s.History.Revs) {
			par = s.History.Revs[s.History.Parents[i]]
		}
		d.Parents[r] = par
	}
	for _, i := range s.History.Deleted {
		if i >= 0 && i < len(s.History.Revs) {
			d.DelRevs[s.History.Revs[i]] = true
		}
	}
	if len(raw.X.VV) > 0 {
		var h db.HybridLogicalVector
		if err := json.Unmarshal(raw.X.VV, &h); err == nil {
			d.CV = h.GetCurrentVersionString()
			d.HLV = map[string]uint64{}
			up := func(src string, v uint64) {
				if v > d.HLV[src] {
					d.HLV[src] = v
				}
			}
			up(h.SourceID, h.Version)
			for s, v := range h.PreviousVersions {
				up(s, v)
			}
			for s, v := range h.MergeVersions {
				up(s, v)
			}
		} else {
			d.RawErr = "cannot parse _vv: " + err.Error()
		}
	}
	return d
}

// read = readMeta + body of the current revision through the admin document GET.
func (p *c06Peer) read(id string) *c06Doc {
	d := p.readMeta(id)
	if !d.Exists || d.RawErr != "" {
		return d
	}
	resp := p.rt.SendAdminRequest("GET", "/{{.keyspace}}/"+id+"?rev="+d.Rev, "")
	d.GetCode = resp.Code
	if resp.Code == http.StatusOK {
		v, err := c06DecodeJSON(resp.Body.Bytes())
		if m, ok := v.(map[string]any); ok && err == nil {
			if del, _ := m["_deleted"].(bool); del != d.Deleted {
				d.RawErr = fmt.Sprintf("_raw says deleted=%v, GET ?rev says _deleted=%v", d.Deleted, del)
			}
			for _, k := range []string{"_id", "_rev", "_cv", "_deleted", "_revisions", "_exp"} {
				delete(m, k)
			}
			d.Body = m
			b, _ := json.Marshal(m)
			d.BodyRaw = string(b)
		} else {
			d.RawErr = "GET ?rev body not an object: " + c06Trunc(resp.Body.String(), 200)
		}
	} else {
		d.BodyRaw = fmt.Sprintf("<GET ?rev=%s -> %d %s>", d.Rev, resp.Code, c06Trunc(resp.Body.String(), 120))
	}
	// the plain GET must agree with the tombstone flag
	plain := p.rt.SendAdminRequest("GET", "/{{.keyspace}}/"+id, "")
	if d.Deleted && plain.Code != http.StatusNotFound || !d.Deleted && plain.Code != http.StatusOK {
		d.RawErr = fmt.Sprintf("_raw says deleted=%v but plain GET answers %d", d.Deleted, plain.Code)
	}
	return d
}

func c06Trunc(s string, n int) string {
	if len(s) > n {
		return s[:n] + "..."
	}
	return s
}

func (p *c06Peer) lastSeq() uint64 {
	s, _ := p.rt.GetDatabase().LastSequence(p.rt.Context())
	return s
}

// fingerprint of a peer: sequence counter + (cas, sequence, rev, cv, deleted) of every document.
func (e *c06Env) fingerprint(p *c06Peer) string {
	var sb strings.Builder
	fmt.Fprintf(&sb, "seq=%d", p.lastSeq())
	for _, id := range e.docIDs {
		sb.WriteString(";" + p.readMeta(id).fp())
	}
	return sb.String()
}

// relation of the two peers' current revisions, by what each peer knows of the other's current revision
// (V3: the revision id is in the peer's stored revision tree; V4: the peer's stored version vector contains the
// version): "equal", "A-ahead" (the active knows the passive's current revision, not vice versa), "P-ahead",
// "conflict" (neither knows the other's), "mutual" (each knows the other's, yet their current revisions differ),
// "only-A", "only-P", "neither".
func (e *c06Env) relation(a, p *c06Doc) string {
	switch {
	case !a.Exists && !p.Exists:
		return "neither"
	case a.Exists && !p.Exists:
		return "only-A"
	case !a.Exists && p.Exists:
		return "only-P"
	}
	var aHasP, pHasA bool
	if e.hlv && a.CV != "" && p.CV != "" {
		if a.CV == p.CV {
			return "equal"
		}
		aHasP = c06Dominates(a.HLV, p.CV)
		pHasA = c06Dominates(p.HLV, a.CV)
	} else {
		if a.Rev == p.Rev {
			return "equal"
		}
		_, aHasP = a.Parents[p.Rev]
		_, pHasA = p.Parents[a.Rev]
	}
	switch {
	case aHasP && !pHasA:
		return "A-ahead"
	case pHasA && !aHasP:
		return "P-ahead"
	case aHasP && pHasA:
		return "mutual"
	}
	return "conflict"
}

// liveLeaves: leaves of the stored revision tree that are not tombstones (more than one = an unresolved conflict).
func (d *c06Doc) liveLeaves() []string {
	isParent := map[string]bool{}
	for _, p := range d.Parents {
		isParent[p] = true
	}
	var out []string
	for r := range d.Parents {
		if !isParent[r] && !d.DelRevs[r] {
			out = append(out, r)
		}
	}
	return out
}

func c06Dominates(vec map[string]uint64, cv string) bool {
	i := strings.IndexByte(cv, '@')
	if i < 0 {
		return false
	}
	v, err := strconv.ParseUint(cv[:i], 16, 64)
	if err != nil {
		return false
	}
	return vec[cv[i+1:]] >= v
}

// ---------------------------------------------------------------------------------------------
// local writes

// write performs one local admin write on a peer: kind "put" edits a live document or creates / resurrects a
// missing / tombstoned one; kind "delete" tombstones a live one (skipped otherwise).
func (e *c06Env) write(p *c06Peer, doc int, kind string, why string) {
	id := e.docIDs[doc]
	for attempt := 0; attempt < 6; attempt++ {
		cur := p.readMeta(id)
		live := cur.Exists && !cur.Deleted
		e.writeN++
		marker := fmt.Sprintf("%s-c%d-%s-w%d-%s", e.c.Tag, e.c.Index, p.name, e.writeN, id)
		var resp *TestResponse
		effect := ""
		switch {
		case kind == "delete" && !live:
			e.tr("%s: delete %s skipped (not live)%s", p.name, id, why)
			e.run.Count("writes_skipped_delete_of_non_live", 1)
			return
		case kind == "delete":
			effect = "delete"
			resp = p.rt.SendAdminRequest("DELETE", "/{{.keyspace}}/"+id+"?rev="+cur.Rev, "")
		case live:
			effect = "edit"
			resp = p.rt.SendAdminRequest("PUT", "/{{.keyspace}}/"+id+"?rev="+cur.Rev, fmt.Sprintf(`{"marker":%q,"n":%d}`, marker, e.writeN))
		default:
			effect = "create"
			if cur.Exists {
				effect = "resurrect"
			}
			resp = p.rt.SendAdminRequest("PUT", "/{{.keyspace}}/"+id, fmt.Sprintf(`{"marker":%q,"n":%d}`, marker, e.writeN))
		}
		if resp.Code == http.StatusCreated || resp.Code == http.StatusOK {
			var wr struct {
				Rev string `json:"rev"`
			}
			_ = json.Unmarshal(resp.Body.Bytes(), &wr)
			e.traceMu.Lock()
			e.acked = append(e.acked, c06Ack{Peer: p.name, Doc: id, Kind: effect, Rev: wr.Rev, Parent: cur.Rev, Marker: marker})
			if effect != "delete" {
				e.written[id][marker] = true
			}
			e.traceMu.Unlock()
			e.tr("%s: %s %s (parent %q) -> %s%s", p.name, effect, id, cur.Rev, wr.Rev, why)
			e.run.Count("local_writes", 1)
			e.run.Count("local_"+effect, 1)
			return
		}
		if resp.Code == http.StatusConflict || resp.Code == http.StatusNotFound {
			// the replication changed the document between our read and our write: read again
			e.run.Count("local_write_retries", 1)
			continue
		}
		e.tr("%s: %s %s -> unexpected %d %s", p.name, effect, id, resp.Code, c06Trunc(resp.Body.String(), 200))
		e.run.Note("case %d: local %s of %s on %s answered %d %s", e.c.Index, effect, id, p.name, resp.Code, c06Trunc(resp.Body.String(), 200))
		e.run.Count("local_write_errors", 1)
		return
	}
	e.tr("%s: %s %s gave up after repeated conflicts", p.name, kind, id)
	e.run.Count("local_write_gave_up", 1)
}

// twinWrite makes the SAME edit on both peers: same parent revision and same body, hence the same revision-tree id, but
// (version-vector protocol) two different current versions. Only done when both peers hold the document live at the same
// revision; first = the peer that writes first (the other one's version is the newer one).
func (e *c06Env) twinWrite(doc int, first string) {
	id := e.docIDs[doc]
	a, p := e.A.readMeta(id), e.P.readMeta(id)
	if !(a.Exists && p.Exists && !a.Deleted && !p.Deleted && a.Rev == p.Rev && a.Rev != "") {
		e.tr("twin-write %s skipped (peers do not hold the same live revision)", id)
		e.run.Count("twin_writes_skipped", 1)
		return
	}
	e.writeN++
	marker := fmt.Sprintf("%s-c%d-twin-w%d-%s", e.c.Tag, e.c.Index, e.writeN, id)
	order := []*c06Peer{e.A, e.P}
	if first == "passive" {
		order = []*c06Peer{e.P, e.A}
	}
	var halves []string
	defer func() {
		if len(halves) == 2 && halves[0] == halves[1] {
			e.traceMu.Lock()
			e.twinRev[id] = halves[0]
			e.traceMu.Unlock()
			e.run.Count("twin_edits_acknowledged_on_both_peers", 1)
		}
	}()
	for _, peer := range order {
		resp := peer.rt.SendAdminRequest("PUT", "/{{.keyspace}}/"+id+"?rev="+a.Rev, fmt.Sprintf(`{"marker":%q,"n":%d}`, marker, e.writeN))
		if resp.Code != http.StatusCreated && resp.Code != http.StatusOK {
			// the replication moved the document meanwhile: the other half is then an ordinary edit
			e.tr("%s: twin edit of %s -> %d %s", peer.name, id, resp.Code, c06Trunc(resp.Body.String(), 120))
			e.run.Count("twin_write_halves_refused", 1)
			continue
		}
		var wr struct {
			Rev string `json:"rev"`
		}
		_ = json.Unmarshal(resp.Body.Bytes(), &wr)
		e.traceMu.Lock()
		e.acked = append(e.acked, c06Ack{Peer: peer.name, Doc: id, Kind: "edit", Rev: wr.Rev, Parent: a.Rev, Marker: marker})
		e.written[id][marker] = true
		e.traceMu.Unlock()
		halves = append(halves, wr.Rev)
		e.tr("%s: twin edit %s (parent %q) -> %s", peer.name, id, a.Rev, wr.Rev)
		e.run.Count("local_writes", 1)
		e.run.Count("local_edit", 1)
		e.run.Count("twin_write_halves", 1)
	}
}

// ---------------------------------------------------------------------------------------------
// replication control (REST for actions and statistics; in-package per-direction state for run boundaries)

type c06RunMark struct{ push, pull int64 }

func (e *c06Env) replicator(id string) *db.ActiveReplicator {
	return e.A.rt.GetDatabase().SGReplicateMgr.GetActiveReplicator(id)
}

func (e *c06Env) connectMarks(id string) c06RunMark {
	var m c06RunMark
	if ar := e.replicator(id); ar != nil {
		if ar.Push != nil {
			m.push = ar.Push.GetStats().NumConnectAttempts.Value()
		}
		if ar.Pull != nil {
			m.pull = ar.Pull.GetStats().NumConnectAttempts.Value()
		}
	}
	return m
}

// dirStates returns the state of each direction of a replication ("" if that direction is not configured).
func (e *c06Env) dirStates(id string) (push, pull, errMsg string) {
	ar := e.replicator(id)
	if ar == nil {
		return "", "", ""
	}
	if ar.Push != nil {
		st := ar.Push.GetStatus()
		push = st.Status
		if st.ErrorMessage != "" {
			errMsg = st.ErrorMessage
		}
	}
	if ar.Pull != nil {
		st := ar.Pull.GetStatus()
		pull = st.Status
		if st.ErrorMessage != "" {
			errMsg = st.ErrorMessage
		}
	}
	return
}

func (e *c06Env) targetState(id string) string {
	cfg, err := e.A.rt.GetDatabase().SGReplicateMgr.GetReplication(id)
	if err != nil || cfg == nil {
		return ""
	}
	return cfg.TargetState
}

func (e *c06Env) status(id string) (st db.ReplicationStatus, ok bool) {
	resp := e.A.rt.SendAdminRequest("GET", "/{{.db}}/_replicationStatus/"+id, "")
	if resp.Code != http.StatusOK {
		return st, false
	}
	return st, json.Unmarshal(resp.Body.Bytes(), &st) == nil
}

// waitFor polls a state predicate; false = watchdog expired (the caller records the case as inconclusive).
func (e *c06Env) waitFor(what string, pred func() bool) bool {
	deadline := time.Now().Add(c06Watchdog)
	for {
		if pred() {
			return true
		}
		if time.Now().After(deadline) {
			e.tr("WATCHDOG waiting for %s", what)
			return false
		}
		time.Sleep(c06PollEvery)
	}
}

var errC06Inconclusive = fmt.Errorf("inconclusive")

// start starts (creates or restarts) the replication and waits until the new run has connected in every
// configured direction.
func (e *c06Env) start(id string, dir db.ActiveReplicatorDirection, continuous bool) bool {
	before := e.connectMarks(id)
	if !e.created[id] {
		cfg := map[string]any{"replication_id": id, "remote": e.url, "direction": string(dir), "continuous": continuous,
			"conflict_resolution_type": string(db.ConflictResolverDefault), "collections_enabled": base.TestsUseNamedCollections()}
		b, _ := json.Marshal(cfg)
		resp := e.A.rt.SendAdminRequest("POST", "/{{.db}}/_replication/", string(b))
		if resp.Code != http.StatusCreated {
			e.tr("create replication %s -> %d %s", id, resp.Code, resp.Body.String())
			e.run.Note("case %d: creating replication answered %d %s", e.c.Index, resp.Code, c06Trunc(resp.Body.String(), 200))
			return false
		}
		e.created[id], e.cont[id], e.dirOf[id] = true, continuous, dir
		e.tr("replication %s created: %s continuous=%v", id, dir, continuous)
	} else {
		if !e.waitFor("target state stopped before restart", func() bool { return e.targetState(id) == db.ReplicationStateStopped }) {
			return false
		}
		resp := e.A.rt.SendAdminRequest("PUT", "/{{.db}}/_replicationStatus/"+id+"?action=start", "")
		if resp.Code != http.StatusOK {
			e.tr("restart %s -> %d %s", id, resp.Code, resp.Body.String())
			return false
		}
		e.tr("replication %s restarted", id)
	}
	e.running[id] = true
	e.run.Count("replication_runs", 1)
	if continuous {
		e.run.Count("replication_runs_continuous", 1)
	} else {
		e.run.Count("replication_runs_oneshot", 1)
	}
	return e.waitFor("replication run to connect", func() bool {
		m := e.connectMarks(id)
		ar := e.replicator(id)
		if ar == nil {
			return false
		}
		return (ar.Push == nil || m.push > before.push) && (ar.Pull == nil || m.pull > before.pull)
	})
}

func (e *c06Env) allStopped(id string) (stopped bool, errMsg string) {
	push, pull, em := e.dirStates(id)
	if push == db.ReplicationStateError || pull == db.ReplicationStateError {
		return false, "error state: " + em
	}
	return (push == "" || push == db.ReplicationStateStopped) && (pull == "" || pull == db.ReplicationStateStopped) &&
		e.targetState(id) == db.ReplicationStateStopped, ""
}

// awaitStopped waits for a one-shot run to complete by itself (or for a stop request to take effect).
func (e *c06Env) awaitStopped(id string) bool {
	errSeen := ""
	ok := e.waitFor("replication "+id+" to stop", func() bool {
		st, em := e.allStopped(id)
		if em != "" {
			errSeen = em
			return true
		}
		return st
	})
	if errSeen != "" {
		e.tr("replication %s in %s", id, errSeen)
		e.run.Note("case %d: replication went into %s", e.c.Index, errSeen)
		return false
	}
	if ok {
		e.running[id] = false
	}
	return ok
}

func (e *c06Env) stop(id string) bool {
	resp := e.A.rt.SendAdminRequest("PUT", "/{{.db}}/_replicationStatus/"+id+"?action=stop", "")
	if resp.Code != http.StatusOK {
		e.tr("stop %s -> %d %s", id, resp.Code, resp.Body.String())
		return false
	}
	e.tr("replication %s stop requested", id)
	return e.awaitStopped(id)
}

func c06SeqOf(s string) uint64 {
	if s == "" {
		return 0
	}
	if i := strings.LastIndexByte(s, ':'); i >= 0 {
		s = s[i+1:]
	}
	v, _ := strconv.ParseUint(s, 10, 64)
	return v
}

func (e *c06Env) maxDocSeq(p *c06Peer) uint64 {
	var m uint64
	for _, id := range e.docIDs {
		if d := p.readMeta(id); d.Seq > m {
			m = d.Seq
		}
	}
	return m
}

// awaitContinuousCaughtUp: the replication's processed sequence covers the newest revision of every document on
// the sending side(s), and neither the replication counters nor any peer state moved over two consecutive polls.
func (e *c06Env) awaitContinuousCaughtUp(id string) (caughtUp, ok bool) {
	dir := e.dirOf[id]
	last, same := "", 0
	lastAny, since := "", time.Now()
	errSeen := ""
	stalled := false
	ok = e.waitFor("continuous replication "+id+" to catch up", func() bool {
		push, pull, em := e.dirStates(id)
		if push == db.ReplicationStateError || pull == db.ReplicationStateError {
			errSeen = em
			return true
		}
		st, ok := e.status(id)
		if !ok {
			return false
		}
		covered := true
		if dir != db.ActiveReplicatorTypePull && c06SeqOf(st.LastSeqPush) < e.maxDocSeq(e.A) {
			covered = false
		}
		if dir != db.ActiveReplicatorTypePush && c06SeqOf(st.LastSeqPull) < e.maxDocSeq(e.P) {
			covered = false
		}
		snap := fmt.Sprintf("%d/%d/%d/%d/%s/%s|%s|%s", st.DocsCheckedPush, st.DocsWritten, st.DocsCheckedPull, st.DocsRead, st.LastSeqPush, st.LastSeqPull,
			e.fingerprint(e.A), e.fingerprint(e.P))
		if snap != lastAny {
			lastAny, since = snap, time.Now()
		}
		if !covered {
			last, same = "", 0
			// a continuous replication whose receiving side refused a revision keeps that sequence pending until it is
			// restarted: nothing moves any more although it is not caught up. Not a verdict: the caller restarts it.
			if (st.RejectedLocal > 0 || st.DocWriteFailures > 0) && time.Since(since) > 3*time.Second {
				stalled = true
				return true
			}
			return false
		}
		if snap == last {
			same++
		} else {
			last, same = snap, 0
		}
		return same >= 2
	})
	if errSeen != "" {
		e.tr("replication %s in error state: %s", id, errSeen)
		e.run.Note("case %d: replication went into error state: %s", e.c.Index, errSeen)
		return false, false
	}
	if stalled {
		e.run.Count("continuous_runs_stalled_on_a_refused_revision", 1)
		e.tr("continuous replication %s is stalled on a refused revision (nothing moved for 3 s, not caught up)", id)
		return false, true
	}
	if !ok {
		st, _ := e.status(id)
		b, _ := json.Marshal(st)
		push, pull, em := e.dirStates(id)
		e.tr("continuous replication did not catch up: states push=%q pull=%q err=%q status=%s newest document sequence active=%d passive=%d", push, pull, em, b, e.maxDocSeq(e.A), e.maxDocSeq(e.P))
		e.run.Note("case %d (%s %s): continuous replication did not catch up within the watchdog: states push=%q pull=%q err=%q status=%s newest document sequence active=%d passive=%d; trace: %v",
			e.c.Index, e.c.Proto, e.c.Direction, push, pull, em, b, e.maxDocSeq(e.A), e.maxDocSeq(e.P), c06Tail(e.traceCopy(), 12))
	}
	return ok, ok
}

// awaitFeeds waits until each peer's own changes feed (admin _changes since 0) lists every document at its current
// sequence: replications read the feed, and the feed (channel cache) is filled asynchronously after a write.
func (e *c06Env) awaitFeeds(peers ...*c06Peer) bool {
	return e.waitFor("changes feeds to list the current revisions", func() bool {
		for _, p := range peers {
			resp := p.rt.SendAdminRequest("GET", "/{{.keyspace}}/_changes?since=0", "")
			if resp.Code != http.StatusOK {
				return false
			}
			var feed struct {
				Results []struct {
					ID  string          `json:"id"`
					Seq json.RawMessage `json:"seq"`
				} `json:"results"`
			}
			if json.Unmarshal(resp.Body.Bytes(), &feed) != nil {
				return false
			}
			seqs := map[string]uint64{}
			for _, r := range feed.Results {
				seqs[r.ID] = c06SeqOf(strings.Trim(string(r.Seq), `"`))
			}
			for _, id := range e.docIDs {
				if d := p.readMeta(id); d.Exists && seqs[id] != d.Seq {
					return false
				}
			}
		}
		return true
	})
}

// runToCaughtUp starts the replication (if it is not running) and returns once it has caught up and is stopped.
func (e *c06Env) runToCaughtUp(id string, dir db.ActiveReplicatorDirection, continuous bool) bool {
	if !e.running[id] {
		if !e.start(id, dir, continuous) {
			return false
		}
	}
	if e.cont[id] {
		// stalled (not caught up, nothing moving): stopped as well; the caller sees an uncovered run and restarts
		if _, ok := e.awaitContinuousCaughtUp(id); !ok {
			return false
		}
		return e.stop(id)
	}
	return e.awaitStopped(id)
}

// ---------------------------------------------------------------------------------------------
// gate (deterministic mid-flight stop) and mid-window interference

func (e *c06Env) armGates(doc int, lose bool) {
	for _, p := range []*c06Peer{e.A, e.P} {
		ch := make(chan struct{})
		p.gateParked.Store(0)
		p.gateDoc.Store(int32(doc))
		p.gateLose.Store(lose)
		p.gateStopped.Store(false)
		p.gateCh.Store(&ch)
		p.gateArmed.Store(true)
	}
}

func (e *c06Env) openGates() {
	for _, p := range []*c06Peer{e.A, e.P} {
		if chp := p.gateCh.Swap(nil); chp != nil {
			close(*chp)
		}
		p.gateArmed.Store(false)
	}
}

// ---------------------------------------------------------------------------------------------
// cases and scripts

type c06Step struct {
	Op   string `json:"op"`             // write | start | stop | await | midflight-stop | arm-mid | arm-pull-fault
	Peer string `json:"peer,omitempty"` // active | passive
	Doc  int    `json:"doc"`
	Kind string `json:"kind,omitempty"` // put | delete; arm-mid also: read; midflight-stop: delay | lose
}

type c06Case struct {
	Index          int       `json:"case"`
	Tag            string    `json:"tag"`
	Script         int       `json:"script"`
	Direction      string    `json:"direction"`
	Proto          string    `json:"sub_protocol"`
	Continuous     bool      `json:"continuous"`
	FastCheckpoint bool      `json:"checkpoint_interval_5ms"`
	ReadInWindows  bool      `json:"reader_in_every_replicated_write_window_on_the_active"`
	Steps          []c06Step `json:"steps"`
}

// c06GenScript: a seeded script. The first steps seed some shared history (a document written on one peer and
// replicated) so that later edits on both sides are true conflicts and not only independent creations.
func c06GenScript(r *vlib.Rand) []c06Step {
	var st []c06Step
	peer := func() string {
		if r.Bool() {
			return "active"
		}
		return "passive"
	}
	kind := func() string {
		if r.Chance(1, 3) {
			return "delete"
		}
		return "put"
	}
	n := r.Range(8, 16)
	// initial population: each document is created on a seeded side (or on both = independent creation)
	for d := 0; d < c06NumDocs; d++ {
		switch r.Intn(4) {
		case 0:
			st = append(st, c06Step{Op: "write", Peer: "active", Doc: d, Kind: "put"})
		case 1:
			st = append(st, c06Step{Op: "write", Peer: "passive", Doc: d, Kind: "put"})
		case 2:
			st = append(st, c06Step{Op: "write", Peer: "active", Doc: d, Kind: "put"}, c06Step{Op: "write", Peer: "passive", Doc: d, Kind: "put"})
		}
	}
	if r.Chance(2, 3) {
		st = append(st, c06Step{Op: "start"})
		if r.Chance(2, 3) {
			st = append(st, c06Step{Op: "await"})
		}
	}
	for i := 0; i < n; i++ {
		switch x := r.Intn(20); {
		case x < 9:
			st = append(st, c06Step{Op: "write", Peer: peer(), Doc: r.Intn(c06NumDocs), Kind: kind()})
		case x < 12:
			st = append(st, c06Step{Op: "start"})
		case x < 14:
			st = append(st, c06Step{Op: "await"})
		case x < 15:
			st = append(st, c06Step{Op: "stop"})
		case x < 17:
			// one document's replicated write is parked at the storage boundary while the others go through; after the
			// stop it either goes through late ("delay") or fails = the in-flight revision is lost ("lose")
			k := "delay"
			if r.Chance(2, 3) {
				k = "lose"
			}
			st = append(st, c06Step{Op: "midflight-stop", Doc: r.Intn(c06NumDocs), Kind: k})
		case x < 19 || i%2 == 0:
			// a local write, or a read of the document, inside the compute->CAS window of the next replicated write
			k := kind()
			if r.Chance(1, 3) {
				k = "read"
			}
			st = append(st, c06Step{Op: "arm-mid", Peer: peer(), Doc: r.Intn(c06NumDocs), Kind: k})
		default:
			// the active refuses the next pulled revision of one document once (transient error); only a restart retries it
			st = append(st, c06Step{Op: "arm-pull-fault", Peer: "active", Doc: r.Intn(c06NumDocs)})
		}
	}
	if r.Chance(1, 3) {
		// both peers make the same edit (same parent, same body = same revision-tree id, two current versions) once they agree
		st = append(st, c06Step{Op: "start"}, c06Step{Op: "await"}, c06Step{Op: "stop"})
		for d := 0; d < c06NumDocs; d++ {
			st = append(st, c06Step{Op: "twin-write", Peer: peer(), Doc: d})
		}
		if r.Bool() {
			st = append(st, c06Step{Op: "start"}, c06Step{Op: "await"}, c06Step{Op: "write", Peer: peer(), Doc: r.Intn(c06NumDocs), Kind: "put"})
		}
	}
	return st
}

func c06Dir(s string) db.ActiveReplicatorDirection {
	switch s {
	case "push":
		return db.ActiveReplicatorTypePush
	case "pull":
		return db.ActiveReplicatorTypePull
	}
	return db.ActiveReplicatorTypePushAndPull
}

func (e *c06Env) peer(name string) *c06Peer {
	if name == "active" {
		return e.A
	}
	return e.P
}

// execute runs the script; false = inconclusive (a wait expired or the replication went into an error state).
func (e *c06Env) execute() bool {
	c := e.c
	dir := c06Dir(c.Direction)
	for i, s := range c.Steps {
		switch s.Op {
		case "write":
			e.write(e.peer(s.Peer), s.Doc, s.Kind, "")
		case "twin-write":
			e.twinWrite(s.Doc, s.Peer)
		case "start":
			if e.running[c06ReplID] {
				if c.Continuous {
					e.tr("step %d: start ignored (continuous replication is running)", i)
					continue
				}
				if !e.awaitStopped(c06ReplID) {
					return false
				}
			}
			if !e.start(c06ReplID, dir, c.Continuous) {
				return false
			}
		case "await":
			if !e.running[c06ReplID] {
				continue
			}
			if c.Continuous {
				caught, ok := e.awaitContinuousCaughtUp(c06ReplID)
				if !ok {
					return false
				}
				if caught {
					e.tr("step %d: continuous replication caught up", i)
				}
			} else if !e.awaitStopped(c06ReplID) {
				return false
			} else {
				e.tr("step %d: one-shot run completed", i)
			}
		case "stop":
			if !e.running[c06ReplID] {
				continue
			}
			if !e.stop(c06ReplID) {
				return false
			}
		case "midflight-stop":
			// park every replicated document write at the storage boundary, let the run get that far, stop it while
			// the revisions are in flight, then let the parked writes go
			if e.running[c06ReplID] {
				if c.Continuous {
					if !e.stop(c06ReplID) {
						return false
					}
				} else if !e.awaitStopped(c06ReplID) {
					return false
				}
			}
			e.armGates(s.Doc, s.Kind == "lose")
			if !e.start(c06ReplID, dir, c.Continuous) {
				e.openGates()
				return false
			}
			parked := false
			e.waitForShort(func() bool {
				if e.A.gateParked.Load()+e.P.gateParked.Load() > 0 {
					parked = true
					return true
				}
				if !c.Continuous {
					st, _ := e.allStopped(c06ReplID)
					return st
				}
				return false
			})
			if parked {
				e.run.Count("midflight_stops_with_parked_revision", 1)
				if s.Kind == "lose" {
					e.run.Count("midflight_stops_with_lost_revision", 1)
				}
				e.tr("step %d: a replicated write of %s is parked at the storage boundary (%s); stopping the replication now", i, e.docIDs[s.Doc], s.Kind)
			} else {
				e.tr("step %d: nothing in flight to park", i)
			}
			ok := e.stop(c06ReplID)
			e.A.gateStopped.Store(ok)
			e.P.gateStopped.Store(ok)
			e.openGates()
			if !ok {
				return false
			}
		case "arm-pull-fault":
			if c.Direction == "push" {
				continue // a push skips revisions the passive failed to store (counted as doc_write_failures): by design
			}
			e.A.faultDoc.Store(int32(s.Doc))
			e.A.faultArmed.Store(true)
			e.tr("step %d: armed: the active refuses the next pulled revision of %s once", i, e.docIDs[s.Doc])
		case "arm-mid":
			p := e.peer(s.Peer)
			st := s
			fn := func(doc int) {
				if st.Kind == "read" {
					// a client reads the document (current revision, and by its current version) at that moment
					e.run.Count("mid_window_reads", 1)
					id := e.docIDs[doc]
					cur := p.readMeta(id)
					r1 := p.rt.SendAdminRequest("GET", "/{{.keyspace}}/"+id, "")
					code2 := 0
					if cur.CV != "" {
						code2 = p.rt.SendAdminRequest("GET", "/{{.keyspace}}/"+id+"?rev="+strings.ReplaceAll(cur.CV, "@", "%40"), "").Code
					}
					e.tr("%s: read %s (GET -> %d, GET ?rev=%s -> %d) [inside the compute->CAS window of a replicated write]", p.name, id, r1.Code, cur.CV, code2)
					return
				}
				e.run.Count("mid_window_local_writes", 1)
				e.write(p, doc, st.Kind, " [inside the compute->CAS window of a replicated write]")
			}
			p.midDoc.Store(int32(s.Doc))
			p.midDelete.Store(s.Kind == "delete")
			p.midFn.Store(&fn)
			p.midArmed.Store(true)
			e.tr("step %d: armed: next replicated write of %s on %s gets a local %s in its compute->CAS window", i, e.docIDs[s.Doc], s.Peer, s.Kind)
		}
	}
	return true
}

func (e *c06Env) waitForShort(pred func() bool) bool {
	deadline := time.Now().Add(1500 * time.Millisecond)
	for {
		if pred() {
			return true
		}
		if time.Now().After(deadline) {
			return false
		}
		time.Sleep(time.Millisecond)
	}
}

// ---------------------------------------------------------------------------------------------
// final phase and oracles

type c06Pair struct {
	Doc      string  `json:"doc"`
	Relation string  `json:"relation"`
	Active   *c06Doc `json:"active"`
	Passive  *c06Doc `json:"passive"`
}

func (e *c06Env) snapshot() []c06Pair {
	var out []c06Pair
	for _, id := range e.docIDs {
		a, p := e.A.read(id), e.P.read(id)
		out = append(out, c06Pair{Doc: id, Relation: e.relation(a, p), Active: a, Passive: p})
	}
	return out
}

type c06PassObs struct {
	Pass        int      `json:"pass"`
	Changed     bool     `json:"peer_state_changed"`
	DocsRead    int64    `json:"docs_read_delta"`
	DocsWritten int64    `json:"docs_written_delta"`
	CheckedPush int64    `json:"docs_checked_push_delta"`
	CheckedPull int64    `json:"docs_checked_pull_delta"`
	Conflicts   int64    `json:"doc_write_conflict_delta"`
	Rejected    int64    `json:"rejected_delta"`
	DocWrites   []string `json:"document_writes_in_storage_log,omitempty"`
	Covered     bool     `json:"processed_sequence_covers_newest_revisions_of_sending_side"`
	LastSeqPush string   `json:"last_seq_push,omitempty"`
	LastSeqPull string   `json:"last_seq_pull,omitempty"`
	MaxDocSeqA  uint64   `json:"newest_document_sequence_on_active"`
	MaxDocSeqP  uint64   `json:"newest_document_sequence_on_passive"`
}

// passesToIdle re-runs the replication until one complete run (a) has processed the newest revision of every
// document on the sending side(s) (its processed sequence covers them) and (b) leaves both peers unchanged (same
// sequence counters, same cas / sequence / revision of every document). That run is "a re-run of a caught-up
// replication". (a) is needed because a one-shot pull can report "stopped" before it has handled its last batch.
func (e *c06Env) passesToIdle(id string, dir db.ActiveReplicatorDirection, continuous bool) (idle *c06PassObs, all []c06PassObs, ok bool) {
	for pass := 1; pass <= c06MaxPasses; pass++ {
		if e.running[id] {
			// a run started by the script is still going: let it catch up first (not a measured pass)
			if !e.runToCaughtUp(id, dir, continuous) {
				return nil, all, false
			}
		}
		if !e.awaitFeeds(e.A, e.P) {
			return nil, all, false
		}
		fa, fp := e.fingerprint(e.A), e.fingerprint(e.P)
		preA, preP := e.maxDocSeq(e.A), e.maxDocSeq(e.P)
		s0, _ := e.status(id)
		nA, nP := e.harvest(e.A), e.harvest(e.P)
		good := e.runToCaughtUp(id, dir, continuous)
		e.harvest(e.A)
		e.harvest(e.P)
		if !good {
			return nil, all, false
		}
		s1, _ := e.status(id)
		obs := c06PassObs{Pass: pass, DocsRead: s1.DocsRead - s0.DocsRead, DocsWritten: s1.DocsWritten - s0.DocsWritten,
			CheckedPush: s1.DocsCheckedPush - s0.DocsCheckedPush, CheckedPull: s1.DocsCheckedPull - s0.DocsCheckedPull,
			Conflicts: s1.DocWriteConflict - s0.DocWriteConflict, Rejected: (s1.RejectedRemote - s0.RejectedRemote) + (s1.RejectedLocal - s0.RejectedLocal)}
		for i, p := range []*c06Peer{e.A, e.P} {
			from := []int{nA, nP}[i]
			for _, op := range p.opsCopy()[from:] {
				if op.Applied {
					obs.DocWrites = append(obs.DocWrites, fmt.Sprintf("%s: %s(%s) cas %d->%d", p.name, op.Kind, op.Key, op.CasIn, op.CasOut))
				}
			}
		}
		obs.Changed = fa != e.fingerprint(e.A) || fp != e.fingerprint(e.P)
		obs.LastSeqPush, obs.LastSeqPull, obs.MaxDocSeqA, obs.MaxDocSeqP = s1.LastSeqPush, s1.LastSeqPull, e.maxDocSeq(e.A), e.maxDocSeq(e.P)
		obs.Covered = (dir == db.ActiveReplicatorTypePull || c06SeqOf(s1.LastSeqPush) >= obs.MaxDocSeqA) &&
			(dir == db.ActiveReplicatorTypePush || c06SeqOf(s1.LastSeqPull) >= obs.MaxDocSeqP)
		all = append(all, obs)
		e.tr("pass %d of %s: changed=%v covered=%v (push %q of %d, pull %q of %d) read=%d written=%d checked=%d/%d conflicts=%d storage-writes=%d", pass, id, obs.Changed, obs.Covered,
			obs.LastSeqPush, obs.MaxDocSeqA, obs.LastSeqPull, obs.MaxDocSeqP, obs.DocsRead, obs.DocsWritten, obs.CheckedPush, obs.CheckedPull, obs.Conflicts, len(obs.DocWrites))
		e.run.Count("final_passes", 1)
		if !obs.Covered {
			// the run ended (one-shot: reported stopped) without having processed the newest revisions of the sending side
			e.run.Count("runs_ended_before_covering_the_sending_side", 1)
			// stronger: it did not even process revisions that were there before the run started
			if !continuous && dir != db.ActiveReplicatorTypePush && c06SeqOf(s1.LastSeqPull) < preP {
				e.run.Count("oneshot_pull_reported_stopped_without_processing_revisions_present_at_its_start", 1)
				b, _ := json.Marshal(obs)
				e.run.Note("case %d (%s %s): one-shot run reported stopped although the passive's newest revision present at its start (sequence %d) was not processed: %s", e.c.Index, e.c.Proto, dir, preP, b)
			}
			if !continuous && dir != db.ActiveReplicatorTypePull && c06SeqOf(s1.LastSeqPush) < preA {
				e.run.Count("oneshot_push_reported_stopped_without_processing_revisions_present_at_its_start", 1)
				b, _ := json.Marshal(obs)
				e.run.Note("case %d (%s %s): one-shot run reported stopped although the active's newest revision present at its start (sequence %d) was not processed: %s", e.c.Index, e.c.Proto, dir, preA, b)
			}
			if !obs.Changed {
				e.run.Count("runs_ended_uncovered_and_transferred_nothing", 1)
			}
			continue
		}
		if !obs.Changed {
			return &all[len(all)-1], all, true
		}
	}
	return nil, all, true
}

func (e *c06Env) storageHistory() map[string][]string {
	out := map[string][]string{}
	for _, p := range []*c06Peer{e.A, e.P} {
		if p == nil {
			continue
		}
		e.harvest(p)
		for _, op := range p.opsCopy() {
			who := "replication"
			if op.Gid == e.harness {
				who = "local write"
			} else if _, mine := p.hookOps.Load(op.N); mine {
				who = "local write (inside a replicated write's window)"
			}
			errs := ""
			if op.Err != nil {
				errs = " err=" + c06Trunc(op.Err.Error(), 80)
			}
			out[p.name] = append(out[p.name], fmt.Sprintf("%s %s(%s) by %s: computed from cas %d (tombstone=%v) -> cas %d applied=%v attempts=%d makes-tombstone=%v%s",
				p.name, op.Kind, op.Key, who, op.CasIn, op.PrevTombstone, op.CasOut, op.Applied, op.Attempt, op.Deleted, errs))
		}
	}
	return out
}

func (e *c06Env) witness(extra map[string]any) map[string]any {
	w := map[string]any{"case": e.c, "trace": e.traceCopy(), "acknowledged_local_writes": e.acked, "document_writes_at_the_storage_boundary": e.storageHistory(),
		"how_to_replay": "two Sync Gateway databases (active with sg-replicate, passive); apply the trace in order: local writes are admin PUT/DELETE with the shown parent revision, replication actions are POST /_replication and PUT /_replicationStatus?action=start|stop on the active"}
	for k, v := range extra {
		w[k] = v
	}
	return w
}

// ackedMissing lists acknowledged local revisions that are absent from the revision tree of the peer that
// acknowledged them (the trace left by the open C05 finding: resurrection of a tombstone is not CAS protected).
func (e *c06Env) ackedMissing(pairs []c06Pair) []c06Ack {
	var miss []c06Ack
	for _, a := range e.acked {
		for _, pr := range pairs {
			if pr.Doc != a.Doc {
				continue
			}
			d := pr.Active
			if a.Peer == "passive" {
				d = pr.Passive
			}
			if _, ok := d.Parents[a.Rev]; !ok && a.Rev != "" {
				miss = append(miss, a)
			}
		}
	}
	return miss
}

// sigBase: signatures name the sub-protocol, the replication direction(s) that had caught up and the way the peers
// differ - not the mode (one-shot / continuous), which is in the witness.
func (e *c06Env) sigBase() string { return "C06|isgr|" + e.c.Proto }

func c06State(d *c06Doc) string {
	switch {
	case !d.Exists:
		return "missing"
	case d.Deleted:
		return "tombstone"
	}
	return "live"
}

// c06IsAncestorIn: anc is an ancestor of (or equal to) rev in the stored revision tree.
func c06IsAncestorIn(tree map[string]string, anc, rev string) bool {
	seen := map[string]bool{}
	for cur := rev; cur != "" && !seen[cur]; cur = tree[cur] {
		if cur == anc {
			return true
		}
		seen[cur] = true
	}
	return false
}

// c06Shape names the revision-tree shape of a divergence (revision-tree protocol) that has one particular cause:
// peer X holds a tombstone T below peer Y's current revision, and T is not X's current revision (it sits on a
// non-winning branch of X: written by conflict resolution for the losing branch, or by a local delete that lost
// the tie against another tombstoned branch). Only winning revisions are offered to the peer, so Y never learns
// that its current revision was deleted, and X's winner - on another branch - is refused by Y as a conflict or
// already known to Y.
func c06Shape(a, p *c06Doc) string {
	one := func(x, y *c06Doc, xn, yn string) string {
		for leaf := range x.Parents {
			if x.DelRevs[leaf] && leaf != x.Rev && leaf != y.Rev && c06IsAncestorIn(x.Parents, y.Rev, leaf) {
				if _, yKnows := y.Parents[leaf]; !yKnows {
					return "the-" + yn + "s-current-revision-is-tombstoned-on-a-non-winning-branch-of-the-" + xn + "-and-that-tombstone-is-never-replicated"
				}
			}
		}
		return ""
	}
	if s := one(a, p, "active", "passive"); s != "" {
		return s
	}
	if s := one(p, a, "passive", "active"); s != "" {
		return s
	}
	// second shape: X knows Y's current revision, Y does not know X's, and X's winner does not descend from Y's
	// current revision: X's winner continues X's own branch (e.g. a resurrection on top of the tombstone that
	// conflict resolution wrote for X's losing branch) and Y refuses it as a conflict
	two := func(x, y *c06Doc, xn, yn string) string {
		_, xKnows := x.Parents[y.Rev]
		_, yKnows := y.Parents[x.Rev]
		if xKnows && !yKnows && !c06IsAncestorIn(x.Parents, y.Rev, x.Rev) {
			return "the-" + xn + "s-winner-continues-a-branch-the-" + yn + "-does-not-have-and-does-not-descend-from-the-" + yn + "s-current-revision(refused-as-conflict)"
		}
		return ""
	}
	if s := two(a, p, "active", "passive"); s != "" {
		return s
	}
	return two(p, a, "passive", "active")
}

// checkEqual: the full-convergence oracle for one document.
func (e *c06Env) checkEqual(pr c06Pair, phase string, pairs []c06Pair, passes any) bool {
	a, p := pr.Active, pr.Passive
	e.run.Count("documents_compared", 1)
	if a.RawErr != "" || p.RawErr != "" {
		e.run.Violation("observation", e.sigBase()+"|"+phase+"|admin-views-of-one-peer-disagree", fmt.Sprintf("doc %s: active: %s passive: %s", pr.Doc, a.RawErr, p.RawErr),
			e.witness(map[string]any{"documents": pairs, "passes": passes}))
		return false
	}
	field := ""
	switch {
	case a.Exists != p.Exists:
		field = "existence(" + c06State(a) + "-vs-" + c06State(p) + ")"
	case !a.Exists:
		return true
	case a.Deleted != p.Deleted:
		field = "tombstone-state(" + c06State(a) + "-vs-" + c06State(p) + ")"
	case a.cur(e.hlv) != p.cur(e.hlv):
		rel := pr.Relation
		if rel == "mutual" {
			rel = "each-peer-knows-the-others-current-revision"
		}
		field = "current-revision(" + rel + "," + c06State(a) + "-vs-" + c06State(p) + ")"
	case !reflect.DeepEqual(a.Body, p.Body):
		field = "body"
	}
	if field == "" {
		if e.hlv && a.Rev != p.Rev {
			// not demanded by the property under the version-vector protocol: recorded only
			e.run.Count("v4_same_cv_different_revtree_id", 1)
			e.run.Note("case %d doc %s: same current version %s on both peers but revision-tree ids differ: active %s, passive %s (deleted=%v)", e.c.Index, pr.Doc, a.CV, a.Rev, p.Rev, a.Deleted)
		}
		return true
	}
	sig := e.sigBase() + "|" + phase + "|peers-differ-in-" + field
	miss := e.ackedMissing(pairs)
	// one cause, many appearances (live / tombstone on either side): where the storage history or the revision-tree
	// shape names the cause, the signature names the cause
	if cls := e.classify(pr.Doc, e.A, e.P); cls != "" {
		sig = cls
	} else if sh := c06Shape(a, p); sh != "" && !e.hlv {
		sig = e.sigBase() + "|" + phase + "|peers-differ|shape=" + sh
	} else if len(miss) > 0 {
		sig += "|acknowledged-local-revision-missing-from-its-own-peer"
	}
	e.run.Violation("converged", sig, fmt.Sprintf("doc %s after %s: active has %s %s (cv %s) body %s; passive has %s %s (cv %s) body %s",
		pr.Doc, phase, c06State(a), a.Rev, a.CV, a.BodyRaw, c06State(p), p.Rev, p.CV, p.BodyRaw),
		e.witness(map[string]any{"documents": pairs, "passes": passes, "acknowledged_revisions_missing_from_their_peer": miss}))
	return false
}

// checkDirection: what a caught-up replication of the case's direction must have achieved. "X knows revision r" =
// r is in X's stored revision tree (V3) / X's stored version vector contains r (V4).
//
//	push: the passive knows the active's current revision, unless the passive holds something the active does not
//	      know either (a true conflict: the passive rejects it, only a pull resolves it). The passive is never
//	      strictly behind.
//	pull: the active knows the passive's current revision of every document (equal, or the active's winner was
//	      chosen with it on the table), and no document of the active is left with more than one live leaf.
//	      Which revision won is not predicted; that the passive adopts it too is checked after the epilogue.
//	pushAndPull: identical current revision / version, body and tombstone state.
func (e *c06Env) checkDirection(pairs []c06Pair, passes any) bool {
	ok := true
	for _, pr := range pairs {
		if e.c.Direction == "pushAndPull" {
			if !e.checkEqual(pr, "after-pushAndPull-caught-up", pairs, passes) {
				ok = false
			}
			continue
		}
		e.run.Count("documents_compared", 1)
		a, p := pr.Active, pr.Passive
		if a.RawErr != "" || p.RawErr != "" {
			e.run.Violation("observation", e.sigBase()+"|after-"+e.c.Direction+"-caught-up|admin-views-of-one-peer-disagree", fmt.Sprintf("doc %s: active: %s passive: %s", pr.Doc, a.RawErr, p.RawErr),
				e.witness(map[string]any{"documents": pairs, "passes": passes}))
			ok = false
			continue
		}
		bad := ""
		sameContent := a.Deleted == p.Deleted && reflect.DeepEqual(a.Body, p.Body)
		switch e.c.Direction {
		case "push":
			switch pr.Relation {
			case "A-ahead", "only-A":
				bad = "passive-behind-active"
			case "mutual":
				bad = "each-peer-knows-the-others-current-revision-but-they-differ"
			case "equal":
				if !sameContent {
					bad = "same-revision-different-content"
				}
			}
		case "pull":
			switch pr.Relation {
			case "P-ahead", "only-P":
				bad = "active-behind-passive"
			case "conflict":
				bad = "passives-current-revision-unknown-to-the-puller"
			case "mutual":
				bad = "each-peer-knows-the-others-current-revision-but-they-differ"
			case "equal":
				if !sameContent {
					bad = "same-revision-different-content"
				}
			case "A-ahead":
				// the winner on the puller is a body that exists somewhere: written locally, or the passive's
				if !a.Deleted && !reflect.DeepEqual(a.Body, p.Body) {
					m, _ := a.Body.(map[string]any)
					mk, _ := m["marker"].(string)
					if !e.written[pr.Doc][mk] {
						bad = "puller-holds-a-body-nobody-wrote"
					}
				}
			}
			if bad == "" && len(a.liveLeaves()) > 1 {
				bad = "conflict-left-unresolved-on-the-puller(more-than-one-live-leaf)"
			}
		}
		if pr.Relation == "conflict" {
			e.run.Count("conflicts_left_to_the_other_direction", 1)
		}
		if bad == "" {
			continue
		}
		ok = false
		sig := e.sigBase() + "|after-" + e.c.Direction + "-caught-up|" + bad + "(" + c06State(a) + "-vs-" + c06State(p) + ")"
		miss := e.ackedMissing(pairs)
		if cls := e.classify(pr.Doc, e.A, e.P); cls != "" {
			sig = cls
		} else if len(miss) > 0 {
			sig += "|acknowledged-local-revision-missing-from-its-own-peer"
		}
		e.run.Violation("direction", sig, fmt.Sprintf("doc %s after the %s replication caught up (relation %s): active has %s %s (cv %s) body %s; passive has %s %s (cv %s) body %s",
			pr.Doc, e.c.Direction, pr.Relation, c06State(a), a.Rev, a.CV, a.BodyRaw, c06State(p), p.Rev, p.CV, p.BodyRaw),
			e.witness(map[string]any{"documents": pairs, "passes": passes, "acknowledged_revisions_missing_from_their_peer": miss}))
	}
	return ok
}

func (e *c06Env) checkIdle(idle *c06PassObs, all []c06PassObs, phase string) {
	e.run.Count("idle_reruns_checked", 1)
	if idle.DocsRead != 0 || idle.DocsWritten != 0 {
		e.run.Violation("idle-rerun", e.sigBase()+"|rerun-of-caught-up-"+phase+"-replication-transfers-revisions(status-counters)",
			fmt.Sprintf("a complete run that changed neither peer reports docs_read +%d, docs_written +%d", idle.DocsRead, idle.DocsWritten),
			e.witness(map[string]any{"passes": all, "documents": e.snapshot()}))
	}
	if len(idle.DocWrites) != 0 {
		e.run.Violation("idle-rerun", e.sigBase()+"|rerun-of-caught-up-"+phase+"-replication-writes-documents(storage-log)",
			fmt.Sprintf("a complete run that changed no document revision wrote documents: %v", idle.DocWrites),
			e.witness(map[string]any{"passes": all, "documents": e.snapshot()}))
	}
}

func (e *c06Env) finalize() {
	c := e.c
	dir := c06Dir(c.Direction)
	// no interference during the final phase
	e.A.midArmed.Store(false)
	e.P.midArmed.Store(false)
	e.A.faultArmed.Store(false)
	idle, all, ok := e.passesToIdle(c06ReplID, dir, c.Continuous)
	if !ok {
		e.run.Inconclusive("isgr: a wait for the replication expired (or it went into an error state) in the final phase")
		e.run.Note("case %d inconclusive; trace tail: %v", c.Index, c06Tail(e.traceCopy(), 6))
		return
	}
	if idle == nil {
		e.run.Inconclusive("isgr: replication kept changing the peers for " + strconv.Itoa(c06MaxPasses) + " complete runs (never caught up)")
		e.run.Note("case %d never idle: %+v", c.Index, all)
		return
	}
	pairs := e.snapshot()
	for _, pr := range pairs {
		e.run.Distinct("relations_at_caught_up", c.Direction+":"+pr.Relation+":"+c06State(pr.Active)+":"+c06State(pr.Passive))
	}
	e.checkIdle(idle, all, c.Direction)
	dirOK := e.checkDirection(pairs, all)
	e.run.Count("cases_caught_up", 1)
	resolved := 0
	if c.Direction == "pushAndPull" {
		e.countResolved(c06ReplID, &resolved)
		if dirOK {
			e.run.Count("cases_converged", 1)
		}
		return
	}
	// epilogue: let the complementary direction catch up as well, then both peers must be identical
	idle2, all2, ok := e.passesToIdle(c06EpilogueID, db.ActiveReplicatorTypePushAndPull, false)
	if !ok || idle2 == nil {
		e.run.Inconclusive("isgr: epilogue replication did not reach an idle run")
		e.run.Note("case %d epilogue: ok=%v passes=%+v tail=%v", c.Index, ok, all2, c06Tail(e.traceCopy(), 6))
		return
	}
	e.countResolved(c06ReplID, &resolved)
	e.countResolved(c06EpilogueID, &resolved)
	e.checkIdle(idle2, all2, "pushAndPull")
	pairs2 := e.snapshot()
	good := true
	for _, pr := range pairs2 {
		if !e.checkEqual(pr, "after-pushAndPull-caught-up", pairs2, map[string]any{"main": all, "epilogue": all2}) {
			good = false
		}
	}
	if good && dirOK {
		e.run.Count("cases_converged", 1)
	}
}

func (e *c06Env) countResolved(id string, total *int) {
	stats, err := e.A.rt.GetDatabase().DbStats.DBReplicatorStats(id)
	if err != nil || stats == nil {
		return
	}
	n := int(stats.ConflictResolvedLocalCount.Value() + stats.ConflictResolvedRemoteCount.Value() + stats.ConflictResolvedMergedCount.Value())
	*total += n
	e.run.Count("conflicts_resolved", n)
	e.run.Count("conflicts_resolved_local_wins", int(stats.ConflictResolvedLocalCount.Value()))
	e.run.Count("conflicts_resolved_remote_wins", int(stats.ConflictResolvedRemoteCount.Value()))
}

func c06Tail(s []string, n int) []string {
	if len(s) > n {
		return s[len(s)-n:]
	}
	return s
}

// ---------------------------------------------------------------------------------------------

func c06Cases(run *vlib.Run, scripts int) []*c06Case {
	var cases []*c06Case
	for s := 0; s < scripts; s++ {
		r := run.CaseRand(s)
		steps := c06GenScript(r.Fork(1))
		proto := "V4"
		if r.Fork(2).Chance(2, 5) {
			proto = "V3"
		}
		for di, dir := range []string{"push", "pull", "pushAndPull"} {
			rr := r.Fork(uint64(10 + di))
			cases = append(cases, &c06Case{Index: len(cases), Tag: "s" + strconv.Itoa(s), Script: s, Direction: dir, Proto: proto,
				Continuous: rr.Chance(2, 5), FastCheckpoint: rr.Bool(), ReadInWindows: rr.Chance(1, 3), Steps: steps})
		}
	}
	return cases
}

func TestVerif_C06_ISGR(t *testing.T) {
	run := vlib.Start(t, "C06", "isgr")
	defer run.Finish()
	c06RunISGR(t, run, run.N(25, 400), 6)
}

// The same workload under the race detector (thorough tier only): replication handlers, checkpointer, status
// reporter and the harness's local writes run on separate goroutines.
func TestVerif_C06_ISGRRace(t *testing.T) {
	run := vlib.Start(t, "C06", "isgr-race")
	defer run.Finish()
	c06RunISGR(t, run, run.N(6, 25), 4)
}

func c06RunISGR(t *testing.T, run *vlib.Run, scripts, workers int) {
	base.RequireNumTestBuckets(t, 2)
	if os.Getenv("VERIF_C06_DEBUG") != "" {
		base.SetUpTestLogging(t, base.LevelDebug, base.KeyCRUD, base.KeyReplicate, base.KeySync, base.KeySyncMsg)
	} else {
		// handler errors (a revision refused by the receiving side) are logged at info level under SyncMsg
		base.SetUpTestLogging(t, base.LevelInfo, base.KeySyncMsg)
	}
	prev := db.BypassReleasedSequenceWait.Load()
	db.BypassReleasedSequenceWait.Store(false)
	defer db.BypassReleasedSequenceWait.Store(prev)

	cases := c06Cases(run, scripts)
	only, onlyOK := run.OnlyCase()
	sem := make(chan struct{}, workers)
	t.Run("cases", func(t *testing.T) {
		for _, c := range cases {
			c := c
			if onlyOK && c.Index != only {
				continue
			}
			t.Run(fmt.Sprintf("%d-%s-%s", c.Index, c.Direction, c.Proto), func(t *testing.T) {
				t.Parallel()
				sem <- struct{}{}
				// registered first = runs last: the slot is free only after the case's buckets went back to the pool
				t.Cleanup(func() { <-sem })
				c06RunCase(t, run, c)
			})
		}
	})
}

func c06RunCase(t *testing.T, run *vlib.Run, c *c06Case) {
	e := c06Setup(t, run, c)
	run.Eval()
	run.Count("scripts_x_directions", 1)
	run.Count("cases_"+c.Proto, 1)
	run.Count("cases_"+c.Direction, 1)
	if c.Index < 3 {
		run.Sample(c)
	}
	defer e.openGates()
	if !e.execute() {
		run.Inconclusive("isgr: a wait for the replication expired (or it went into an error state) while running the script")
		run.Note("case %d inconclusive while running the script; trace tail: %v", c.Index, c06Tail(e.traceCopy(), 6))
		return
	}
	e.finalize()
	// non-trivial: both peers wrote and at least one replication run happened
	wa, wp := 0, 0
	for _, a := range e.acked {
		if a.Peer == "active" {
			wa++
		} else {
			wp++
		}
	}
	if wa > 0 && wp > 0 {
		run.Nontrivial(fmt.Sprintf("%d/%s/%s/%v", c.Script, c.Direction, c.Proto, c.Continuous))
	}
}
