//go:build verif

package rest

// C15 — database configurations stay consistent across nodes and interrupted changes.
//
// Infrastructure shared by the parts (c15crash_test.go, c15race_test.go, c15seq_test.go):
//   - c15Cluster: one rosmar test bucket = the shared "Couchbase cluster"; an un-faulted raw connection for the
//     oracle's own reads and for resets.
//   - c15Node: a real bootstrapContext (the ConfigManager under test) whose base.BootstrapConnection is a c15Conn.
//   - c15Conn: wraps a real *base.RosmarCluster; every metadata storage operation is logged, can be a scheduling
//     point of a vlib.Sched, and can kill the node ("k-th mutating operation applied / not applied, then every
//     operation of this node fails").
//   - c15Model: per database the set of configuration versions a loader may legitimately see ("" = absent).
//   - c15CheckLoad: the oracle evaluated after every completed / rejected / interrupted change.

import (
	"context"
	"encoding/json"
	"errors"
	"fmt"
	"runtime"
	"sort"
	"strings"
	"sync"
	"sync/atomic"
	"testing"
	"time"

	"github.com/couchbase/sync_gateway/base"
	"verif/vlib"
)

const (
	c15Group = "c15grp"
	c15Scope = "s1"
)

var c15DBs = []string{"db1", "db2", "db3"}

// c15StressTimeout overrides the shortened config retry timeout (1 ms) of new nodes when non-zero.
var c15StressTimeout time.Duration

var errC15Dead = errors.New("verif C15: node is dead (storage unreachable)")
var errC15Callback = errors.New("verif C15: update callback rejects the change")

// ---------------------------------------------------------------------------------------------
// cluster / node / connection wrapper

type c15Op struct {
	Seq     int64  `json:"seq"`
	Node    string `json:"node"`
	Kind    string `json:"kind"` // get insert write delete touch update exists getdoc getraw buckets
	Key     string `json:"key"`  // registry | cfg(db1) | other key
	Mut     bool   `json:"mut,omitempty"`
	MutN    int    `json:"mut_n,omitempty"` // ordinal among the node's mutating operations since arm()
	Applied bool   `json:"applied,omitempty"`
	Err     string `json:"err,omitempty"`
	Site    string `json:"site,omitempty"` // recovery call site when the operation was issued by rollback / cleanup code
}

func (o *c15Op) String() string {
	s := fmt.Sprintf("%s:%s(%s)", o.Node, o.Kind, o.Key)
	if o.Site != "" {
		s += "@" + o.Site
	}
	if o.Mut && !o.Applied {
		s += "!notapplied"
	}
	if o.Err != "" {
		s += "=" + o.Err
	}
	return s
}

type c15CfgWrite struct {
	DB      string
	Version string
	Canon   string // canonical JSON of the complete config as handed to the store
	Cols    []string
}

type c15Interval struct {
	Node       string
	Start, End int64
}

type c15Cluster struct {
	t      testing.TB
	ctx    context.Context
	tb     *base.TestBucket
	bucket string
	raw    *base.RosmarCluster
	clock  atomic.Int64
	sched  atomic.Pointer[vlib.Sched]
	sites  atomic.Bool // record recovery call sites (stack inspection) on mutating operations

	mu      sync.Mutex
	log     []*c15Op
	writes  map[string][]*c15CfgWrite // version -> attempted config document writes
	nodeSeq int
	// inflight: node -> number of applied mutating operations of the change it is executing right now.
	inflight map[string]int
	// midChange: intervals (logical clock) during which a node was in the middle of a change: from its first
	// applied mutating operation to the return of the ConfigManager call (End 0 = still running).
	midChange []*c15Interval
	// pollStart: node -> clock value at which its current streak of consecutive reads of one config document
	// began (the wait loops of getConfigVersionWithRetry / waitForConfigDelete); lastRead: node -> key of its last op if a read.
	pollStart map[string]int64
	lastRead  map[string]string
	pollN     map[string]int
	// presumedDead is set when a node ran a recovery action (rollback / cleanup) while another live node was in the
	// middle of a change: the config retry timeout expired on a writer that was slow, not dead.
	presumedDead bool
	recoveryOps  int
	// lastRegistry: node -> the registry document as that node last read it (nil = it read "no registry").
	lastRegistry map[string]*GatewayRegistry
	// cleanups: classes of the config-document deletions performed by waitForConfigDelete since the last
	// ClearPresumedDead/Reset: what the cleaning node's registry snapshot said about the database versus the
	// version of the document it actually removed.
	cleanups map[string]int
}

func newC15Cluster(t testing.TB) *c15Cluster {
	ctx := base.TestCtx(t)
	tb := base.GetTestBucket(t)
	raw, err := base.NewRosmarCluster(base.UnitTestUrl(), false)
	if err != nil {
		t.Fatalf("rosmar cluster: %v", err)
	}
	if !base.UnitTestUrlIsWalrus() {
		t.Skip("C15 harness runs on the rosmar backing store")
	}
	return &c15Cluster{t: t, ctx: ctx, tb: tb, bucket: tb.GetName(), raw: raw, writes: map[string][]*c15CfgWrite{},
		inflight: map[string]int{}, pollStart: map[string]int64{}, lastRead: map[string]string{}, pollN: map[string]int{},
		lastRegistry: map[string]*GatewayRegistry{}, cleanups: map[string]int{}}
}

func (cl *c15Cluster) Close() { cl.tb.Close(cl.ctx) }

func (cl *c15Cluster) cfgKey(db string) string { return PersistentConfigKey(cl.ctx, c15Group, db) }

func (cl *c15Cluster) keyClass(key string) string {
	if key == base.SGRegistryKey {
		return "registry"
	}
	for _, db := range c15DBs {
		if key == cl.cfgKey(db) {
			return "cfg(" + db + ")"
		}
	}
	if key == PersistentConfigKey(cl.ctx, c15Group, "") {
		return "legacycfg"
	}
	return key
}

type c15Node struct {
	Name string
	cl   *c15Cluster
	conn *c15Conn
	bc   *bootstrapContext
}

// NewNode creates a fresh Sync Gateway node: its own rosmar connection (own caches) and bootstrapContext.
func (cl *c15Cluster) NewNode() *c15Node {
	inner, err := base.NewRosmarCluster(base.UnitTestUrl(), false)
	if err != nil {
		cl.t.Fatalf("rosmar cluster: %v", err)
	}
	cl.mu.Lock()
	cl.nodeSeq++
	name := fmt.Sprintf("n%d", cl.nodeSeq)
	cl.mu.Unlock()
	n := &c15Node{Name: name, cl: cl}
	n.conn = &c15Conn{BootstrapConnection: inner, node: n}
	timeout := time.Millisecond
	if c15StressTimeout != 0 {
		timeout = c15StressTimeout
	}
	n.bc = &bootstrapContext{Connection: n.conn, configRetryTimeout: timeout,
		sgVersion: *base.ProductVersion, clusterCompatVersion: base.NodeClusterCompatVersion}
	return n
}

type c15Conn struct {
	base.BootstrapConnection // the node's real rosmar connection; non-metadata methods pass straight through
	node                     *c15Node

	mu          sync.Mutex
	dead        bool
	killAt      int // ordinal of the mutating operation at which the node dies (0 = never)
	killApplied bool
	mutN        int
	killedAt    *c15Op
}

// Arm makes the node die at its k-th mutating storage operation from now (applied or not).
func (c *c15Conn) Arm(k int, applied bool) {
	c.mu.Lock()
	c.killAt, c.killApplied, c.mutN, c.killedAt = k, applied, 0, nil
	c.mu.Unlock()
}

// Revive: the same node comes back (restart / partition healed) with no pending kill.
func (c *c15Conn) Revive() {
	c.mu.Lock()
	c.dead, c.killAt, c.mutN = false, 0, 0
	c.mu.Unlock()
}

func (c *c15Conn) Dead() bool { c.mu.Lock(); defer c.mu.Unlock(); return c.dead }

func (c *c15Conn) MutCount() int { c.mu.Lock(); defer c.mu.Unlock(); return c.mutN }

var c15RecoverySites = []string{"rollbackRegistry", "waitForConfigDelete"}

func c15Site() string {
	var buf [16384]byte
	n := runtime.Stack(buf[:], false)
	s := string(buf[:n])
	for _, f := range c15RecoverySites {
		if strings.Contains(s, ".(*bootstrapContext)."+f+"(") {
			return f
		}
	}
	return ""
}

// pre is called before the operation is delegated. It returns the op record, and a non-nil error when the
// operation must not be applied.
func (c *c15Conn) pre(kind, key string, mut bool) (*c15Op, bool, error) {
	cl := c.node.cl
	op := &c15Op{Node: c.node.Name, Kind: kind, Key: cl.keyClass(key), Mut: mut}
	c.mu.Lock()
	dead := c.dead
	c.mu.Unlock()
	if dead {
		op.Err = "dead"
		cl.append(op)
		return op, false, errC15Dead
	}
	// Scheduling point. The wait loops (getConfigVersionWithRetry / waitForConfigDelete) poll one config document
	// until the retry timeout: only the first three polls of a streak are scheduling points (another node can
	// complete its write between them, or stay parked and be presumed dead); the rest of the wait is one step.
	isPoll := !mut && kind == "get" && strings.HasPrefix(op.Key, "cfg(")
	cl.mu.Lock()
	streak := 1
	if isPoll && cl.lastRead[c.node.Name] == op.Key {
		streak = cl.pollN[c.node.Name] + 1
	}
	cl.mu.Unlock()
	if sc := cl.sched.Load(); sc != nil && streak <= 3 {
		sc.StepGid(vlib.GoroutineID(), kind+"("+op.Key+")")
	}
	// bookkeeping at the moment the operation really executes
	now := cl.clock.Load()
	cl.mu.Lock()
	if isPoll {
		if cl.lastRead[c.node.Name] != op.Key {
			cl.pollStart[c.node.Name] = now
			cl.pollN[c.node.Name] = 0
		}
		cl.pollN[c.node.Name]++
		cl.lastRead[c.node.Name] = op.Key
	} else {
		cl.lastRead[c.node.Name] = ""
		cl.pollN[c.node.Name] = 0
		if !mut {
			cl.pollStart[c.node.Name] = now
		}
	}
	cl.mu.Unlock()
	if mut && cl.sites.Load() {
		op.Site = c15Site()
		if op.Site != "" {
			// a recovery action: the node waited [pollStart, now] for another writer and gave up. Was any other
			// node in the middle of a change during that wait (slow, not dead)?
			cl.mu.Lock()
			from, ok := cl.pollStart[c.node.Name]
			if !ok {
				from = now
			}
			for _, iv := range cl.midChange {
				if iv.Node != c.node.Name && iv.Start <= now && (iv.End == 0 || iv.End >= from) {
					cl.presumedDead = true
				}
			}
			cl.recoveryOps++
			cl.mu.Unlock()
		}
	}
	failAfter := false
	c.mu.Lock()
	if mut {
		c.mutN++
		op.MutN = c.mutN
		if c.killAt != 0 && c.mutN == c.killAt {
			c.dead = true
			c.killedAt = op
			if !c.killApplied {
				c.mu.Unlock()
				op.Err = "killed-before"
				cl.append(op)
				return op, false, errC15Dead
			}
			failAfter = true
		}
	}
	c.mu.Unlock()
	return op, failAfter, nil
}

func (c *c15Conn) post(op *c15Op, failAfter bool, err error) error {
	if op.Mut {
		op.Applied = err == nil
		if op.Applied {
			cl := c.node.cl
			cl.mu.Lock()
			if cnt, in := cl.inflight[c.node.Name]; in {
				if cnt == 0 {
					cl.midChange = append(cl.midChange, &c15Interval{Node: c.node.Name, Start: cl.clock.Load()})
				}
				cl.inflight[c.node.Name]++
			}
			cl.mu.Unlock()
		}
	}
	if err != nil {
		switch {
		case base.IsDocNotFoundError(err):
			op.Err = "notfound"
		case base.IsCasMismatch(err):
			op.Err = "cas"
		default:
			op.Err = "err:" + c15Trunc(err.Error(), 60)
		}
	}
	if failAfter {
		op.Err = "killed-after(" + op.Err + ")"
		c.node.cl.append(op)
		return errC15Dead
	}
	c.node.cl.append(op)
	return err
}

func (cl *c15Cluster) append(op *c15Op) {
	op.Seq = cl.clock.Add(1)
	cl.mu.Lock()
	cl.log = append(cl.log, op)
	cl.mu.Unlock()
}

func c15Trunc(s string, n int) string {
	if len(s) > n {
		return s[:n]
	}
	return s
}

func (cl *c15Cluster) captureCfgWrite(key string, value any) {
	cfg, ok := value.(*DatabaseConfig)
	if !ok || cfg == nil || !strings.HasPrefix(cl.keyClass(key), "cfg(") {
		return
	}
	w := &c15CfgWrite{DB: cfg.Name, Version: cfg.Version, Canon: c15Canon(cfg), Cols: c15Owned(cfg.Scopes)}
	cl.mu.Lock()
	cl.writes[cfg.Version] = append(cl.writes[cfg.Version], w)
	cl.mu.Unlock()
}

func (c *c15Conn) GetConfigBuckets(ctx context.Context) ([]string, error) {
	if c.Dead() {
		return nil, errC15Dead
	}
	return c.BootstrapConnection.GetConfigBuckets(ctx)
}

func (c *c15Conn) GetMetadataDocument(ctx context.Context, bucket, key string, valuePtr any) (uint64, error) {
	op, fa, err := c.pre("get", key, false)
	if err != nil {
		return 0, err
	}
	cas, e := c.BootstrapConnection.GetMetadataDocument(ctx, bucket, key, valuePtr)
	if key == base.SGRegistryKey {
		c.node.cl.noteRegistryRead(c.node.Name, valuePtr, e)
	}
	return cas, c.post(op, fa, e)
}

// noteRegistryRead remembers what the node saw when it last read the registry document.
func (cl *c15Cluster) noteRegistryRead(node string, valuePtr any, err error) {
	var snap *GatewayRegistry
	if err == nil {
		if g, ok := valuePtr.(*GatewayRegistry); ok && g != nil {
			if b, merr := json.Marshal(g); merr == nil {
				var cp GatewayRegistry
				if json.Unmarshal(b, &cp) == nil {
					snap = &cp
				}
			}
		}
	} else if !base.IsDocNotFoundError(err) {
		return
	}
	cl.mu.Lock()
	cl.lastRegistry[node] = snap
	cl.mu.Unlock()
}

// classifyCleanup: a node is about to delete a config document from waitForConfigDelete. Compare the document
// it removes with what the node's own registry snapshot says is being deleted.
func (cl *c15Cluster) classifyCleanup(node, keyClass string) string {
	db := strings.TrimSuffix(strings.TrimPrefix(keyClass, "cfg("), ")")
	docVersion := ""
	if b, _, ok := cl.rawGet(cl.cfgKey(db)); ok {
		var c struct {
			Version string `json:"version"`
		}
		_ = json.Unmarshal(b, &c)
		docVersion = c.Version
	}
	cl.mu.Lock()
	snap := cl.lastRegistry[node]
	cl.mu.Unlock()
	var entry *RegistryDatabase
	if snap != nil && snap.ConfigGroups[c15Group] != nil {
		entry = snap.ConfigGroups[c15Group].Databases[db]
	}
	switch {
	case entry == nil:
		return "snapshot-has-no-entry"
	case entry.IsDeleted() && entry.PreviousVersion != nil && entry.PreviousVersion.Version == docVersion:
		return "document-is-the-version-being-deleted"
	case entry.IsDeleted() && entry.PreviousVersion != nil:
		return "document-version-differs-from-version-being-deleted"
	}
	return "snapshot-has-live-entry"
}

func (c *c15Conn) InsertMetadataDocument(ctx context.Context, bucket, key string, value any) (uint64, error) {
	c.node.cl.captureCfgWrite(key, value)
	op, fa, err := c.pre("insert", key, true)
	if err != nil {
		return 0, err
	}
	cas, e := c.BootstrapConnection.InsertMetadataDocument(ctx, bucket, key, value)
	if e2 := c.post(op, fa, e); e2 != nil {
		return 0, e2
	}
	return cas, nil
}

func (c *c15Conn) WriteMetadataDocument(ctx context.Context, bucket, key string, cas uint64, value any) (uint64, error) {
	c.node.cl.captureCfgWrite(key, value)
	op, fa, err := c.pre("write", key, true)
	if err != nil {
		return 0, err
	}
	casOut, e := c.BootstrapConnection.WriteMetadataDocument(ctx, bucket, key, cas, value)
	if e2 := c.post(op, fa, e); e2 != nil {
		return 0, e2
	}
	return casOut, nil
}

func (c *c15Conn) DeleteMetadataDocument(ctx context.Context, bucket, key string, cas uint64) error {
	op, fa, err := c.pre("delete", key, true)
	if err != nil {
		return err
	}
	cleanup := ""
	if op.Site == "waitForConfigDelete" {
		cleanup = c.node.cl.classifyCleanup(c.node.Name, op.Key)
	}
	e := c.BootstrapConnection.DeleteMetadataDocument(ctx, bucket, key, cas)
	if cleanup != "" && e == nil {
		op.Site += "[" + cleanup + "]"
		c.node.cl.mu.Lock()
		c.node.cl.cleanups[cleanup]++
		c.node.cl.mu.Unlock()
	}
	return c.post(op, fa, e)
}

func (c *c15Conn) TouchMetadataDocument(ctx context.Context, bucket, key string, property, value string, cas uint64) (uint64, error) {
	op, fa, err := c.pre("touch", key, true)
	if err != nil {
		return 0, err
	}
	casOut, e := c.BootstrapConnection.TouchMetadataDocument(ctx, bucket, key, property, value, cas)
	if e2 := c.post(op, fa, e); e2 != nil {
		return 0, e2
	}
	return casOut, nil
}

func (c *c15Conn) UpdateMetadataDocument(ctx context.Context, bucket, key string, cb func([]byte, uint64) ([]byte, error)) (uint64, error) {
	op, fa, err := c.pre("update", key, true)
	if err != nil {
		return 0, err
	}
	casOut, e := c.BootstrapConnection.UpdateMetadataDocument(ctx, bucket, key, cb)
	if e2 := c.post(op, fa, e); e2 != nil {
		return 0, e2
	}
	return casOut, nil
}

func (c *c15Conn) KeyExists(ctx context.Context, bucket, key string) (bool, error) {
	op, fa, err := c.pre("exists", key, false)
	if err != nil {
		return false, err
	}
	ok, e := c.BootstrapConnection.KeyExists(ctx, bucket, key)
	return ok, c.post(op, fa, e)
}

func (c *c15Conn) GetDocument(ctx context.Context, bucket, docID string, rv any) (bool, error) {
	op, fa, err := c.pre("getdoc", docID, false)
	if err != nil {
		return false, err
	}
	ok, e := c.BootstrapConnection.GetDocument(ctx, bucket, docID, rv)
	return ok, c.post(op, fa, e)
}

func (c *c15Conn) GetRawDocument(ctx context.Context, bucket, docID string) ([]byte, bool, error) {
	op, fa, err := c.pre("getraw", docID, false)
	if err != nil {
		return nil, false, err
	}
	v, ok, e := c.BootstrapConnection.GetRawDocument(ctx, bucket, docID)
	return v, ok, c.post(op, fa, e)
}

// ---------------------------------------------------------------------------------------------
// raw state (oracle side, un-faulted)

type c15Raw struct {
	Registry []byte            `json:"-"`
	Cfg      map[string][]byte `json:"-"` // db -> config document bytes (absent = no document)
}

func (cl *c15Cluster) rawGet(key string) ([]byte, uint64, bool) {
	var v []byte
	cas, err := cl.raw.GetMetadataDocument(cl.ctx, cl.bucket, key, &v)
	if err != nil {
		if base.IsDocNotFoundError(err) {
			return nil, 0, false
		}
		cl.t.Fatalf("raw get %s: %v", key, err)
	}
	return v, cas, true
}

func (cl *c15Cluster) RawState() *c15Raw {
	r := &c15Raw{Cfg: map[string][]byte{}}
	r.Registry, _, _ = cl.rawGet(base.SGRegistryKey)
	for _, db := range c15DBs {
		if v, _, ok := cl.rawGet(cl.cfgKey(db)); ok {
			r.Cfg[db] = v
		}
	}
	return r
}

func (r *c15Raw) Equal(o *c15Raw) bool {
	if string(r.Registry) != string(o.Registry) || len(r.Cfg) != len(o.Cfg) {
		return false
	}
	for k, v := range r.Cfg {
		if ov, ok := o.Cfg[k]; !ok || string(ov) != string(v) {
			return false
		}
	}
	return true
}

func (r *c15Raw) ParsedRegistry() *GatewayRegistry {
	if r.Registry == nil {
		return nil
	}
	var g GatewayRegistry
	if err := json.Unmarshal(r.Registry, &g); err != nil {
		return nil
	}
	return &g
}

func (r *c15Raw) cfgVersion(db string) (string, bool) {
	b, ok := r.Cfg[db]
	if !ok {
		return "", false
	}
	var c struct {
		Version string `json:"version"`
	}
	_ = json.Unmarshal(b, &c)
	return c.Version, true
}

// Shape is the registry state with volatile fields removed: what distinguishes reachable states.
func (r *c15Raw) Shape() string {
	var parts []string
	if g := r.ParsedRegistry(); g != nil {
		if cg := g.ConfigGroups[c15Group]; cg != nil {
			for _, db := range c15DBs {
				d, ok := cg.Databases[db]
				if !ok {
					continue
				}
				s := db + ":" + c15VersionClass(d.Version) + "[" + strings.Join(c15RegOwned(d.Scopes, false), ",") + "]"
				if d.PreviousVersion != nil {
					s += "prev:" + c15VersionClass(d.PreviousVersion.Version) + "[" + strings.Join(c15RegOwned(d.PreviousVersion.Scopes, false), ",") + "]"
				}
				parts = append(parts, s)
			}
		}
	} else {
		parts = append(parts, "noregistry")
	}
	for _, db := range c15DBs {
		if v, ok := r.cfgVersion(db); ok {
			parts = append(parts, "doc("+db+")="+c15VersionClass(v))
		}
	}
	return strings.Join(parts, " ")
}

// Markers names the in-flight markers present in the registry relative to a target database (signature material).
func (r *c15Raw) Markers(target string) string {
	set := map[string]bool{}
	g := r.ParsedRegistry()
	rel := func(db string) string {
		if db == target {
			return "same-db"
		}
		return "other-db"
	}
	if g != nil {
		if cg := g.ConfigGroups[c15Group]; cg != nil {
			for db, d := range cg.Databases {
				if d.IsDeleted() {
					set["deleted-marker("+rel(db)+")"] = true
				} else if d.PreviousVersion != nil {
					if d.PreviousVersion.Version == deletedDatabaseVersion {
						set["previous-version-of-deleted-entry("+rel(db)+")"] = true
					} else {
						set["previous-version("+rel(db)+")"] = true
					}
				}
				if d.IsInvalid() {
					set["invalid-marker("+rel(db)+")"] = true
				}
				if v, ok := r.cfgVersion(db); !d.IsDeleted() && (!ok || v != d.Version) {
					set["registry-config-version-mismatch("+rel(db)+")"] = true
				}
			}
		}
	}
	for _, db := range c15DBs {
		if _, ok := r.cfgVersion(db); ok {
			found := false
			if g != nil && g.ConfigGroups[c15Group] != nil {
				_, found = g.ConfigGroups[c15Group].Databases[db]
			}
			if !found {
				set["orphan-config-doc("+rel(db)+")"] = true
			}
		}
	}
	if len(set) == 0 {
		return "none"
	}
	var out []string
	for k := range set {
		out = append(out, k)
	}
	sort.Strings(out)
	return strings.Join(out, "+")
}

// c15BlockedBy names the registry entries whose recorded collections overlap the collections a change asks for
// (signature material for "valid change not accepted": the root cause, not the position in the scenario).
func c15BlockedBy(r *c15Raw, ch c15Change) string {
	want := map[string]bool{}
	for _, c := range c15ColNames(ch.Cols) {
		want[c] = true
	}
	overlap := func(cols []string) bool {
		for _, c := range cols {
			if want[c] {
				return true
			}
		}
		return false
	}
	set := map[string]bool{}
	if g := r.ParsedRegistry(); g != nil && g.ConfigGroups[c15Group] != nil {
		for db, d := range g.ConfigGroups[c15Group].Databases {
			if db == ch.DB {
				continue
			}
			if overlap(c15RegOwned(d.Scopes, true)) {
				if d.IsDeleted() {
					set["deleted-marker-entry-counted-as-default-collection-owner"] = true
				} else {
					set["live-registry-entry"] = true
				}
			}
			if !d.IsDeleted() && d.PreviousVersion != nil && overlap(c15RegOwned(d.PreviousVersion.Scopes, true)) {
				if d.PreviousVersion.Version == deletedDatabaseVersion {
					set["previous-version-left-by-create-over-deleted-entry"] = true
				} else {
					set["stale-previous-version-of-applied-update"] = true
				}
			}
		}
	}
	if len(set) == 0 {
		return "unknown"
	}
	// one root cause per signature: when several entries block the change, name the first in a fixed order
	for _, k := range []string{"live-registry-entry", "stale-previous-version-of-applied-update", "previous-version-left-by-create-over-deleted-entry", "deleted-marker-entry-counted-as-default-collection-owner"} {
		if set[k] {
			return k
		}
	}
	return "unknown"
}

// Settled: no in-flight marker, registry and config documents agree.
func (r *c15Raw) Settled() bool { return r.Markers("") == "none" }

func c15VersionClass(v string) string {
	if i := strings.IndexByte(v, '-'); i > 0 {
		if v == deletedDatabaseVersion || v == invalidDatabaseConflictingCollectionsVersion {
			return v
		}
		return v[:i] + "-" + c15Trunc(v[i+1:], 4)
	}
	return v
}

// Reset removes the registry and all config documents (between scenarios).
func (cl *c15Cluster) Reset() {
	keys := []string{base.SGRegistryKey}
	for _, db := range c15DBs {
		keys = append(keys, cl.cfgKey(db))
	}
	for _, k := range keys {
		for i := 0; i < 5; i++ {
			_, cas, ok := cl.rawGet(k)
			if !ok {
				break
			}
			if err := cl.raw.DeleteMetadataDocument(cl.ctx, cl.bucket, k, cas); err == nil {
				break
			} else if i == 4 {
				cl.t.Fatalf("reset delete %s: %v", k, err)
			}
		}
	}
	cl.mu.Lock()
	cl.log = nil
	cl.writes = map[string][]*c15CfgWrite{}
	cl.inflight = map[string]int{}
	cl.midChange = nil
	cl.pollStart = map[string]int64{}
	cl.lastRead = map[string]string{}
	cl.pollN = map[string]int{}
	cl.presumedDead = false
	cl.recoveryOps = 0
	cl.lastRegistry = map[string]*GatewayRegistry{}
	cl.cleanups = map[string]int{}
	cl.mu.Unlock()
}

// Cleanups returns how many config documents waitForConfigDelete removed in the given class.
func (cl *c15Cluster) Cleanups(class string) int {
	cl.mu.Lock()
	defer cl.mu.Unlock()
	return cl.cleanups[class]
}

func (cl *c15Cluster) PresumedDead() bool { cl.mu.Lock(); defer cl.mu.Unlock(); return cl.presumedDead }
func (cl *c15Cluster) ClearPresumedDead() {
	cl.mu.Lock()
	cl.presumedDead = false
	cl.recoveryOps = 0
	cl.cleanups = map[string]int{}
	cl.mu.Unlock()
}
func (cl *c15Cluster) RecoveryOps() int { cl.mu.Lock(); defer cl.mu.Unlock(); return cl.recoveryOps }

func (cl *c15Cluster) LogStrings() []string {
	cl.mu.Lock()
	defer cl.mu.Unlock()
	out := make([]string, len(cl.log))
	for i, o := range cl.log {
		out[i] = o.String()
	}
	return out
}

func (cl *c15Cluster) LogLen() int { cl.mu.Lock(); defer cl.mu.Unlock(); return len(cl.log) }

func (cl *c15Cluster) LogFrom(i int) []*c15Op {
	cl.mu.Lock()
	defer cl.mu.Unlock()
	return append([]*c15Op{}, cl.log[i:]...)
}

// ---------------------------------------------------------------------------------------------
// changes

type c15Change struct {
	Kind   string   `json:"kind"` // create update delete
	DB     string   `json:"db"`
	Cols   []string `json:"cols,omitempty"` // "D" = default collection only (no scopes), else collections of scope s1
	Mark   uint32   `json:"mark,omitempty"` // unique marker (revs_limit) making every written config distinguishable
	FailCB bool     `json:"fail_cb,omitempty"`
}

func (c c15Change) String() string {
	s := c.Kind + " " + c.DB
	if c.Kind != "delete" {
		s += "{" + strings.Join(c.Cols, ",") + "}#" + fmt.Sprint(c.Mark)
	}
	if c.FailCB {
		s += "(callback-error)"
	}
	return s
}

type c15Outcome struct {
	Class    string   `json:"class"`            // ack rejected failed
	Reason   string   `json:"reason,omitempty"` // exists notfound conflict callback
	Err      string   `json:"err,omitempty"`
	New      string   `json:"new,omitempty"`      // version of the new config (last attempt)
	Attempts []string `json:"attempts,omitempty"` // every version this call tried to install
	Seen     string   `json:"seen,omitempty"`     // version the update callback saw (last attempt)
	Call     int64    `json:"call"`
	Return   int64    `json:"return"`
	MutOps   []string `json:"mut_ops,omitempty"` // labels of the mutating storage operations issued
}

func c15Scopes(cols []string) ScopesConfig {
	if len(cols) == 0 || (len(cols) == 1 && cols[0] == "D") {
		return nil
	}
	sc := ScopeConfig{Collections: CollectionsConfig{}}
	for _, c := range cols {
		sc.Collections[c] = &CollectionConfig{}
	}
	return ScopesConfig{c15Scope: sc}
}

func c15ColNames(cols []string) []string {
	if len(cols) == 0 || (len(cols) == 1 && cols[0] == "D") {
		return []string{"_default._default"}
	}
	out := make([]string, len(cols))
	for i, c := range cols {
		out[i] = c15Scope + "." + c
	}
	sort.Strings(out)
	return out
}

func c15Owned(sc ScopesConfig) []string {
	if len(sc) == 0 {
		return []string{"_default._default"}
	}
	var out []string
	for sn, s := range sc {
		for c := range s.Collections {
			out = append(out, sn+"."+c)
		}
	}
	sort.Strings(out)
	return out
}

func c15RegOwned(sc RegistryScopes, defaultIfEmpty bool) []string {
	if len(sc) == 0 {
		if defaultIfEmpty {
			return []string{"_default._default"}
		}
		return nil
	}
	var out []string
	for sn, s := range sc {
		for _, c := range s.Collections {
			out = append(out, sn+"."+c)
		}
	}
	sort.Strings(out)
	return out
}

func c15Canon(cfg *DatabaseConfig) string {
	b, err := json.Marshal(cfg)
	if err != nil {
		return "marshal-error:" + err.Error()
	}
	var c DatabaseConfig
	if err := json.Unmarshal(b, &c); err != nil {
		return string(b)
	}
	b2, err := json.Marshal(&c)
	if err != nil {
		return string(b)
	}
	return string(b2)
}

func c15Classify(kind string, err error) (class, reason string) {
	if err == nil {
		return "ack", ""
	}
	var he *base.HTTPError
	switch {
	case errors.As(err, &he) && he.Status == 409:
		return "rejected", "conflict"
	case kind == "create" && errors.Is(err, base.ErrAlreadyExists):
		return "rejected", "exists"
	case kind != "create" && errors.Is(err, base.ErrNotFound):
		return "rejected", "notfound"
	case errors.Is(err, errC15Callback):
		return "rejected", "callback"
	}
	return "failed", ""
}

// Exec runs one change through the real ConfigManager of the node.
func (n *c15Node) Exec(ch c15Change) *c15Outcome {
	cl := n.cl
	ctx := cl.ctx
	out := &c15Outcome{}
	logFrom := cl.LogLen()
	cl.mu.Lock()
	if cl.inflight == nil {
		cl.inflight = map[string]int{}
	}
	cl.inflight[n.Name] = 0
	cl.mu.Unlock()
	defer func() {
		cl.mu.Lock()
		delete(cl.inflight, n.Name)
		for _, iv := range cl.midChange {
			if iv.Node == n.Name && iv.End == 0 {
				iv.End = cl.clock.Load()
			}
		}
		cl.mu.Unlock()
	}()
	out.Call = cl.clock.Add(1)
	var err error
	switch ch.Kind {
	case "create":
		cfg := &DatabaseConfig{DbConfig: c15DbConfig(cl.bucket, ch)}
		cfg.Version, _ = GenerateDatabaseConfigVersionID(ctx, "", &cfg.DbConfig)
		cfg.SGVersion = base.ProductVersion.String()
		out.New = cfg.Version
		out.Attempts = []string{cfg.Version}
		_, err = n.bc.InsertConfig(ctx, cl.bucket, c15Group, cfg)
	case "update":
		_, err = n.bc.UpdateConfig(ctx, cl.bucket, c15Group, ch.DB, func(existing *DatabaseConfig) (*DatabaseConfig, error) {
			out.Seen = existing.Version
			if ch.FailCB {
				return nil, errC15Callback
			}
			mark := ch.Mark
			existing.Scopes = c15Scopes(ch.Cols)
			existing.RevsLimit = &mark
			existing.SGVersion = base.ProductVersion.String()
			v, verr := GenerateDatabaseConfigVersionID(ctx, existing.Version, &existing.DbConfig)
			if verr != nil {
				return nil, verr
			}
			existing.Version = v
			out.New = v
			out.Attempts = append(out.Attempts, v)
			return existing, nil
		})
	case "delete":
		err = n.bc.DeleteConfig(ctx, cl.bucket, c15Group, ch.DB)
	default:
		cl.t.Fatalf("unknown change kind %q", ch.Kind)
	}
	out.Return = cl.clock.Add(1)
	out.Class, out.Reason = c15Classify(ch.Kind, err)
	if err != nil {
		out.Err = c15Trunc(err.Error(), 200)
	}
	for _, op := range cl.LogFrom(logFrom) {
		if op.Mut && op.Node == n.Name {
			out.MutOps = append(out.MutOps, op.Kind+"("+c15KeyKind(op.Key)+")")
		}
	}
	return out
}

func c15KeyKind(keyClass string) string {
	if strings.HasPrefix(keyClass, "cfg(") {
		return "cfg"
	}
	return keyClass
}

func c15DbConfig(bucket string, ch c15Change) DbConfig {
	mark := ch.Mark
	b := bucket
	return DbConfig{
		Name:         ch.DB,
		BucketConfig: BucketConfig{Bucket: &b},
		Index:        &IndexConfig{NumReplicas: base.Ptr(uint(0))},
		Scopes:       c15Scopes(ch.Cols),
		RevsLimit:    &mark,
	}
}

// ---------------------------------------------------------------------------------------------
// model

type c15Model struct {
	Allowed map[string]map[string]bool `json:"allowed"` // db -> versions a loader may see ("" = absent)
	Cols    map[string][]string        `json:"-"`       // version -> owned collections (from the change description)
}

func newC15Model() *c15Model {
	m := &c15Model{Allowed: map[string]map[string]bool{}, Cols: map[string][]string{}}
	for _, db := range c15DBs {
		m.Allowed[db] = map[string]bool{"": true}
	}
	return m
}

func (m *c15Model) Set(db string, vs ...string) {
	s := map[string]bool{}
	for _, v := range vs {
		s[v] = true
	}
	m.Allowed[db] = s
}

func (m *c15Model) Add(db, v string) { m.Allowed[db][v] = true }

func (m *c15Model) Singleton(db string) (string, bool) {
	if len(m.Allowed[db]) != 1 {
		return "", false
	}
	for v := range m.Allowed[db] {
		return v, true
	}
	return "", false
}

func (m *c15Model) AllSingleton() bool {
	for _, db := range c15DBs {
		if len(m.Allowed[db]) != 1 {
			return false
		}
	}
	return true
}

func (m *c15Model) String() string {
	var parts []string
	for _, db := range c15DBs {
		var vs []string
		for v := range m.Allowed[db] {
			if v == "" {
				vs = append(vs, "absent")
			} else {
				vs = append(vs, c15VersionClass(v))
			}
		}
		sort.Strings(vs)
		parts = append(parts, db+"∈{"+strings.Join(vs, ",")+"}")
	}
	return strings.Join(parts, " ")
}

// Apply folds the outcome of a change executed with no concurrent activity into the model.
func (m *c15Model) Apply(ch c15Change, out *c15Outcome) {
	for _, v := range out.Attempts {
		m.Cols[v] = c15ColNames(ch.Cols)
	}
	if out.Seen != "" {
		// the callback ran: getRegistryAndDatabase had verified registry == config == Seen
		m.Set(ch.DB, out.Seen)
	}
	switch out.Class {
	case "ack":
		if ch.Kind == "delete" {
			m.Set(ch.DB, "")
		} else {
			m.Set(ch.DB, out.New)
		}
	case "failed":
		if ch.Kind == "delete" {
			m.Add(ch.DB, "")
		} else {
			for _, v := range out.Attempts {
				m.Add(ch.DB, v)
			}
		}
	}
}

// Expect computes the outcome a change must have when the state is fully determined (every database has
// exactly one allowed version): "ack", "rejected:<reason>" or "" when undetermined.
func (m *c15Model) Expect(ch c15Change) string {
	if !m.AllSingleton() {
		return ""
	}
	cur, _ := m.Singleton(ch.DB)
	conflict := func() bool {
		want := map[string]bool{}
		for _, c := range c15ColNames(ch.Cols) {
			want[c] = true
		}
		for _, db := range c15DBs {
			if db == ch.DB {
				continue
			}
			v, _ := m.Singleton(db)
			if v == "" {
				continue
			}
			for _, c := range m.Cols[v] {
				if want[c] {
					return true
				}
			}
		}
		return false
	}
	switch ch.Kind {
	case "create":
		if cur != "" {
			return "rejected:exists"
		}
		if conflict() {
			return "rejected:conflict"
		}
		return "ack"
	case "update":
		if cur == "" {
			return "rejected:notfound"
		}
		if ch.FailCB {
			return "rejected:callback"
		}
		if conflict() {
			return "rejected:conflict"
		}
		return "ack"
	case "delete":
		if cur == "" {
			return "rejected:notfound"
		}
		return "ack"
	}
	return ""
}

// ---------------------------------------------------------------------------------------------
// oracle: load on a node and check the view against model, captured writes and the registry document

type c15View map[string]string // db -> version ("" / missing = absent)

type c15CheckCtx struct {
	Part    string // crash | race | seq
	Phase   string // human readable position in the scenario
	SigTail string // signature tail naming the history shape (no counters)
	Witness func() any
	Narrow  bool // sequential context: after a successful load the model is narrowed to the observed view
}

// c15Load calls GetDatabaseConfigs with bounded retries. Returns nil, err when every attempt failed.
func (n *c15Node) Load(maxAttempts int) ([]*DatabaseConfig, error, int) {
	var err error
	for i := 1; i <= maxAttempts; i++ {
		var cfgs []*DatabaseConfig
		cfgs, err = n.bc.GetDatabaseConfigs(n.cl.ctx, n.cl.bucket, c15Group)
		if err == nil {
			return cfgs, nil, i
		}
	}
	return nil, err, maxAttempts
}

// c15CheckLoad is the oracle evaluated at a quiescent point (no other node is running).
func c15CheckLoad(run *vlib.Run, n *c15Node, m *c15Model, cc c15CheckCtx) (c15View, bool) {
	cl := n.cl
	cfgs, err, attempts := n.Load(4)
	run.Count("loads_checked", 1)
	if attempts > 1 {
		run.Count("load_retries", attempts-1)
	}
	viol := func(oracle, what, msg string) {
		run.Violation(oracle, "C15|"+cc.Part+"|"+what+"|"+cc.SigTail, cc.Phase+": "+msg, cc.Witness())
	}
	if err != nil {
		viol("load-completes", "load-fails-persistently", fmt.Sprintf("GetDatabaseConfigs on %s failed %d times, last error: %v (model %s)", n.Name, attempts, err, m))
		return nil, false
	}
	ok := true
	view := c15View{}
	owner := map[string]string{}
	for _, cfg := range cfgs {
		db := cfg.Name
		if _, dup := view[db]; dup {
			viol("view", "database-returned-twice", fmt.Sprintf("%s returned twice", db))
			ok = false
			continue
		}
		if _, known := m.Allowed[db]; !known {
			viol("view", "unknown-database-returned", fmt.Sprintf("unexpected database %q", db))
			ok = false
			continue
		}
		view[db] = cfg.Version
		if cfg.Version == invalidDatabaseConflictingCollectionsVersion {
			// the registry entry was marked invalid by a rollback that ran into a collection conflict: the caller of
			// GetDatabaseConfigs refuses to load such a database ("must repair invalid database config")
			viol("old-or-new", "database-marked-invalid-needs-manual-repair", fmt.Sprintf("node %s: %s is returned with the invalid-marker version %s (not loadable, manual repair required); model allows %s", n.Name, db, cfg.Version, m))
			ok = false
			continue
		}
		if !m.Allowed[db][cfg.Version] {
			viol("old-or-new", "loaded-config-neither-previous-nor-new", fmt.Sprintf("node %s loaded %s at version %s; model allows %s", n.Name, db, cfg.Version, m))
			ok = false
		}
		// complete: JSON-equal to one config that was handed to the store under that version
		cl.mu.Lock()
		ws := cl.writes[cfg.Version]
		cl.mu.Unlock()
		got := c15Canon(cfg)
		match := false
		for _, w := range ws {
			if w.Canon == got && w.DB == db {
				match = true
			}
		}
		if !match {
			exp := "(no config with this version was ever written)"
			if len(ws) > 0 {
				exp = ws[0].Canon
			}
			viol("complete-config", "loaded-config-is-a-mixture", fmt.Sprintf("node %s loaded %s version %s = %s, written config for that version = %s", n.Name, db, cfg.Version, got, exp))
			ok = false
		}
		for _, c := range c15Owned(cfg.Scopes) {
			if o, taken := owner[c]; taken {
				viol("ownership", "collection-owned-by-two-loaded-databases", fmt.Sprintf("collection %s is in the loaded configs of %s and %s", c, o, db))
				ok = false
			}
			owner[c] = db
		}
	}
	for _, db := range c15DBs {
		if _, present := view[db]; !present && !m.Allowed[db][""] {
			viol("old-or-new", "database-missing-from-load", fmt.Sprintf("node %s did not load %s; model allows %s", n.Name, db, m))
			ok = false
		}
	}
	// registry agreement (raw read; quiescent)
	raw := cl.RawState()
	reg := raw.ParsedRegistry()
	regOwner := map[string]string{}
	regDBs := map[string]*RegistryDatabase{}
	if reg != nil && reg.ConfigGroups[c15Group] != nil {
		regDBs = reg.ConfigGroups[c15Group].Databases
	}
	for db, d := range regDBs {
		if d.IsDeleted() || d.IsInvalid() {
			continue
		}
		if v, present := view[db]; !present {
			viol("registry-version", "registry-lists-database-not-loaded", fmt.Sprintf("registry records %s at %s but the load did not return it", db, d.Version))
			ok = false
		} else if v != d.Version {
			viol("registry-version", "loaded-version-differs-from-registry", fmt.Sprintf("%s loaded at %s, registry records %s", db, v, d.Version))
			ok = false
		}
		for _, c := range c15RegOwned(d.Scopes, true) {
			if o, taken := regOwner[c]; taken {
				viol("ownership", "collection-owned-by-two-registry-databases", fmt.Sprintf("registry assigns collection %s to %s and %s", c, o, db))
				ok = false
			}
			regOwner[c] = db
		}
	}
	for db, v := range view {
		d, present := regDBs[db]
		if !present || d.IsDeleted() {
			viol("registry-version", "loaded-database-not-in-registry", fmt.Sprintf("%s loaded at %s but the registry has no live entry", db, v))
			ok = false
			continue
		}
		for _, cfg := range cfgs {
			if cfg.Name == db && strings.Join(c15Owned(cfg.Scopes), ",") != strings.Join(c15RegOwned(d.Scopes, true), ",") {
				viol("registry-version", "registry-collections-differ-from-config", fmt.Sprintf("%s: config owns %v, registry records %v", db, c15Owned(cfg.Scopes), c15RegOwned(d.Scopes, true)))
				ok = false
			}
		}
	}
	if ok && cc.Narrow {
		for _, db := range c15DBs {
			m.Set(db, view[db])
		}
	}
	return view, ok
}

func (v c15View) String() string {
	var parts []string
	for _, db := range c15DBs {
		if x := v[db]; x != "" {
			parts = append(parts, db+"="+c15VersionClass(x))
		}
	}
	if len(parts) == 0 {
		return "(none)"
	}
	return strings.Join(parts, " ")
}

// c15Free returns the collection short names ("D","c1",..) not owned by any database of the view, excluding db.
func c15Free(m *c15Model, view c15View, except string) []string {
	taken := map[string]bool{}
	for db, v := range view {
		if db == except || v == "" {
			continue
		}
		for _, c := range m.Cols[v] {
			taken[c] = true
		}
	}
	var out []string
	for _, c := range []string{"D", "c1", "c2", "c3"} {
		if !taken[c15ColNames([]string{c})[0]] {
			out = append(out, c)
		}
	}
	return out
}
