//go:build verif

package rest

// C19: document bodies come back exactly as written on every path.
//
// Every generated body is written through each write path (PUT, POST, _bulk_docs, PUT new_edits=false,
// _bulk_docs new_edits=false, BLIP rev push over V3 and V4, raw external write + on-demand import) into a
// document of its own, read through every read path, then superseded (second body, PUT) and given a
// conflicting sibling (a key-order / whitespace variant of the first body, new_edits=false) so that the
// superseded revision, the non-winning leaf and both open revisions are read too. Oracle: exact JSON
// value equality (c19gen_test.go) after removing the documented added properties.

import (
	"bytes"
	"encoding/json"
	"fmt"
	"io"
	"mime"
	"mime/multipart"
	"strings"
	"sync"
	"testing"
	"time"

	"github.com/couchbase/go-blip"
	"github.com/couchbase/sync_gateway/base"
	"github.com/couchbase/sync_gateway/db"
	"verif/vlib"
)

const c19Watchdog = 120 * time.Second

// c19Violation reports a violation; after c19MaxSignatures distinct signatures further new signatures are
// only counted (a broken build would otherwise write thousands of replay files); the check fails all the same.
const c19MaxSignatures = 60

var c19Sigs = struct {
	sync.Mutex
	seen map[string]bool
}{seen: map[string]bool{}}

func c19Violation(run *vlib.Run, oracle, sig, msg string, witness any) {
	c19Sigs.Lock()
	known := c19Sigs.seen[sig]
	n := len(c19Sigs.seen)
	if !known && n < c19MaxSignatures {
		c19Sigs.seen[sig] = true
	}
	c19Sigs.Unlock()
	if known || n < c19MaxSignatures {
		run.Violation(oracle, sig, msg, witness)
		return
	}
	run.Count("violations_with_further_signatures_beyond_the_cap", 1)
}

// distinct (write path, read path) pairs and input features seen by the monitors of this process
var c19Seen = struct {
	sync.Mutex
	pairs, feats map[string]bool
}{pairs: map[string]bool{}, feats: map[string]bool{}}

var c19WritePaths = []string{"PUT", "POST", "bulk_docs", "PUT-new_edits=false", "bulk_docs-new_edits=false", "blip-push-V3", "blip-push-V4", "import"}

// keys a client must not set (not among the documented added properties): a write carrying one must be
// rejected, or the key must round-trip.
var c19MustNotSet = []string{"_sync", "_sync_x", "_sync_", "_purged", "_sync_meta"}

// documented reserved names that some write paths refuse and others consume (they are among the added
// properties the comparator removes, so their round trip is not judged): bodies carrying one are only used
// for the escaping differential - the decision to accept or refuse must not depend on how the key is spelled.
var c19DifferentialOnly = []string{"_id", "_rev", "_deleted", "_revisions"}

type c19Rev struct {
	Stage string // rev1 / rev2 / rev3
	WPath string // how this revision was written
	Text  string // exact bytes written
	Exp   *c19C
	Rev   string // revtree id
}

type c19Doc struct {
	CI       int
	ID       string
	WPath    string
	Accepted bool
	Status   string
	R1       *c19Rev
	R2       *c19Rev
	R3       *c19Rev
	Feats    []string
	Reserved bool
	Twins    map[string]*c19Rev // reserved cases: the same value spelled differently (kind -> rendering)
	Promoted *c19Rev            // the leaf that became current after the winner was tombstoned
	DiffOnly bool               // written only for the escaping differential
	ResKey   string
}

func (d *c19Doc) byRev(rev string) *c19Rev {
	for _, r := range []*c19Rev{d.R1, d.R2, d.R3} {
		if r != nil && r.Rev != "" && r.Rev == rev {
			return r
		}
	}
	return nil
}

type c19Ctx struct {
	t      *testing.T
	run    *vlib.Run
	rt     *RestTester
	tag    string
	push   map[string]*BlipTester
	vseq   uint64
	sample sync.Once
	noted  map[string]int
	esc    map[string][]map[string]any // write path -> escaping differentials that disagreed
}

// note keeps at most two notes per category (the counters carry the totals).
func (c *c19Ctx) note(category, format string, a ...any) {
	if c.noted == nil {
		c.noted = map[string]int{}
	}
	c.noted[category]++
	if c.noted[category] <= 2 {
		c.run.Note("["+category+"] "+format, a...)
	}
}

func c19IsMustNotSet(k string) bool {
	for _, m := range c19MustNotSet {
		if k == m {
			return true
		}
	}
	return false
}

// c19TextHasHuge scans every number literal of the text (also those of overridden duplicate keys, which
// raw-storing write paths keep) for a value outside the double range.
func c19TextHasHuge(text string) bool {
	inStr := false
	for i := 0; i < len(text); i++ {
		ch := text[i]
		if inStr {
			if ch == '\\' {
				i++
			} else if ch == '"' {
				inStr = false
			}
			continue
		}
		if ch == '"' {
			inStr = true
			continue
		}
		if ch == '-' || (ch >= '0' && ch <= '9') {
			j := i
			for j < len(text) && strings.IndexByte("+-0123456789.eE", text[j]) >= 0 {
				j++
			}
			if r, ok := c19NumRat(text[i:j]); ok {
				f, _ := r.Float64()
				if f > 1.7976931348623157e308 || f < -1.7976931348623157e308 || (f == 0 && r.Sign() != 0) {
					return true
				}
			}
			i = j - 1
		}
	}
	return false
}

// c19InputClass names the class of the written text that matters for byte-level handling.
func c19InputClass(rv *c19Rev) string {
	switch {
	case len(rv.Exp.O) == 0 && strings.TrimSpace(rv.Text) != "{}":
		return "empty-object-with-inner-whitespace"
	case len(rv.Exp.O) == 0:
		return "empty-object"
	case c19TextHasHuge(rv.Text):
		return "contains-number-outside-double-range"
	}
	return "other"
}

// c19HasHuge reports whether the value contains a number that is not representable as a finite,
// non-zero double (magnitude above ~1.8e308 or a non-zero value below ~4.9e-324).
func c19HasHuge(v *c19C) bool {
	switch v.K {
	case c19KNum:
		f, _ := v.R.Float64()
		return f > 1.7976931348623157e308 || f < -1.7976931348623157e308 || (f == 0 && v.R.Sign() != 0)
	case c19KArr:
		for _, e := range v.A {
			if c19HasHuge(e) {
				return true
			}
		}
	case c19KObj:
		for _, e := range v.O {
			if c19HasHuge(e) {
				return true
			}
		}
	}
	return false
}

// storedHuge: some stored revision of the document contains a number outside the double range. The
// rosmar view engine (and the sync function's old-document argument) cannot parse such a body
// ("Unparseable JSRunner input"), so view-backed reads do not list the document: an artefact of the
// test store's JavaScript engine, counted but not judged.
func (d *c19Doc) storedHuge() bool {
	for _, r := range []*c19Rev{d.R1, d.R2, d.R3} {
		if r != nil && r.Rev != "" && c19TextHasHuge(r.Text) {
			return true
		}
	}
	return d.Accepted && c19TextHasHuge(d.R1.Text)
}

func c19Trunc(s string, n int) string {
	if len(s) > n {
		return s[:n] + fmt.Sprintf("…(+%d bytes)", len(s)-n)
	}
	return s
}

func c19Field(o *c19C, k string) *c19C {
	if o == nil || o.K != c19KObj {
		return nil
	}
	return o.O[k]
}

func c19StrOf(o *c19C) string {
	if o == nil || o.K != c19KStr {
		return ""
	}
	return o.S
}

func c19Span(raw []byte, o *c19C) string {
	if o != nil && o.K == c19KObj && o.End > o.Off && o.End <= len(raw) {
		return string(raw[o.Off:o.End])
	}
	return c19Show(o)
}

// check compares one returned document object with the revision that was written.
func (c *c19Ctx) check(d *c19Doc, rv *c19Rev, read string, got *c19C, returned string, request string) {
	run := c.run
	run.Eval()
	run.Count("comparisons", 1)
	run.Count("bytes_compared", len(rv.Text)+len(returned))
	pair := "write=" + rv.WPath + "|read=" + read
	run.Distinct("path_pairs", pair)
	c19Seen.Lock()
	c19Seen.pairs[pair] = true
	c19Seen.Unlock()
	run.Distinct("read_paths", read)
	run.Nontrivial(fmt.Sprintf("%s|%s|%d|%s", c.tag, pair, d.CI, rv.Stage))
	witness := func(diff any) map[string]any {
		return map[string]any{
			"case": d.CI, "doc_id": d.ID, "revision": rv.Rev, "stage": rv.Stage, "write_path": rv.WPath, "written_body": rv.Text,
			"read_path": read, "read_request": request, "returned_body": c19Trunc(returned, 6000), "diff": diff, "features": d.Feats,
			"replay": "write written_body through write_path to a fresh document on a default test database (sync function: channel(\"c19\")), then issue read_request",
		}
	}
	if got == nil || got.K != c19KObj {
		c19Violation(run, "value-equality", "C19|"+pair+"|returned-body-not-a-json-object", fmt.Sprintf("doc %s (%s) read through %s: %s", d.ID, rv.Stage, read, c19Trunc(returned, 300)), witness(nil))
		return
	}
	diff := c19Equal(c19StripAdded(rv.Exp), c19StripAdded(got), "$", true)
	if diff == nil {
		run.Count("exact", 1)
		if n := len(c19TopUnderscoreKeys(rv.Exp)); n > 0 {
			run.Count("underscore_keys_round_tripped", n)
		}
		return
	}
	c19Violation(run, "value-equality", "C19|"+pair+"|"+diff.Class,
		fmt.Sprintf("doc %s %s written through %s as %s, read through %s: at %s expected %s got %s", d.ID, rv.Stage, rv.WPath, c19Trunc(rv.Text, 400), read, diff.Path, diff.Expected, diff.Got), witness(diff))
}

func (c *c19Ctx) readFailed(d *c19Doc, rv *c19Rev, read, why, detail, request string) {
	c.run.Eval()
	if (why == "document-not-sent" || why == "document-missing-from-response") && d.storedHuge() {
		c.run.Count("documents_not_listed_by_view_backed_read(body has a number outside the double range)", 1)
		c.note("rosmar-view-engine", "doc %s is not listed by %s: a stored body contains a number outside the double range, which the rosmar view map function cannot parse", d.ID, read)
		return
	}
	c.run.Count("reads_failed", 1)
	c19Violation(c.run, "read-availability", "C19|write="+rv.WPath+"|read="+read+"|input="+c19InputClass(rv)+"|read-failed:"+why,
		fmt.Sprintf("doc %s %s written through %s as %s was accepted but %s failed: %s", d.ID, rv.Stage, rv.WPath, c19Trunc(rv.Text, 400), read, c19Trunc(detail, 400)),
		map[string]any{"case": d.CI, "doc_id": d.ID, "revision": rv.Rev, "write_path": rv.WPath, "written_body": rv.Text, "read_path": read, "read_request": request, "response": c19Trunc(detail, 4000), "features": d.Feats})
}

func (c *c19Ctx) rejected(d *c19Doc, status string) {
	d.Accepted = false
	d.Status = status
	c.run.Count("writes_rejected", 1)
	us := c19TopUnderscoreKeys(d.R1.Exp)
	if len(us) > 0 || d.Reserved {
		c.run.Count("writes_rejected_with_underscore_keys", 1)
		for _, k := range us {
			c.run.Distinct("rejected_underscore_keys", d.WPath+":"+k)
			if c19IsMustNotSet(k) {
				c.run.Count("rejected_must_not_set_key:"+k, 1)
			}
		}
	} else {
		c.run.Count("writes_rejected_without_underscore_keys", 1)
		c.note("write-rejected-plain", "write rejected although the body has no underscore key: %s %s -> %s body=%s", d.WPath, d.ID, status, c19Trunc(d.R1.Text, 300))
	}
	if strings.HasPrefix(status, "5") {
		c.run.Count("writes_rejected_5xx", 1)
		c.note("write-5xx", "write answered with a server error: %s %s -> %s body=%s", d.WPath, d.ID, status, c19Trunc(d.R1.Text, 300))
	}
}

func (c *c19Ctx) acceptedWrite(d *c19Doc, rev string) {
	d.Accepted = true
	if rev != "" {
		d.R1.Rev = rev
	}
	c.run.Count("writes_accepted", 1)
	c.run.Count("writes_accepted:"+d.WPath, 1)
	for _, k := range c19TopUnderscoreKeys(d.R1.Exp) {
		c.run.Distinct("accepted_underscore_keys", d.WPath+":"+k)
		if c19IsMustNotSet(k) {
			c.run.Count("accepted_must_not_set_key:"+d.WPath+":"+k, 1)
		}
	}
}

type c19WriteResp struct {
	ID     string `json:"id"`
	Rev    string `json:"rev"`
	Error  string `json:"error"`
	Status int    `json:"status"`
}

func c19Quote(s string) string {
	b, _ := json.Marshal(s)
	return string(b)
}

func (c *c19Ctx) keyspaceURL(path string) string { return "/{{.keyspace}}/" + path }

// ---- BLIP ------------------------------------------------------------------------------------

func (c *c19Ctx) openBlip(proto string) *BlipTester {
	bt, err := createBlipTesterWithSpec(c.rt, BlipTesterSpec{connectingUsername: "c19user", blipProtocols: []string{proto}})
	if err != nil || bt == nil {
		c.run.Note("blip connect %s: %v", proto, err)
		c.run.Inconclusive("blip connection could not be opened")
		return nil
	}
	bt.avoidRestTesterClose = true
	bt.blipContext.FatalErrorHandler = func(err error) { c.run.Note("blip fatal error (%s): %v", proto, err) }
	bt.blipContext.HandlerPanicHandler = func(request, response *blip.Message, err any) {
		c.run.Note("blip client handler panic (%s): %v", request.Profile(), err)
	}
	if got := bt.blipContext.ActiveSubprotocol(); got != proto {
		c.run.Note("asked for sub-protocol %s, got %s", proto, got)
	}
	return bt
}

// blipSend sends a request and waits for the response under a watchdog.
func (c *c19Ctx) blipSend(bt *BlipTester, rq *blip.Message) (*blip.Message, bool) {
	if !bt.sender.Send(rq) {
		c.run.Inconclusive("blip send failed")
		return nil, false
	}
	ch := make(chan *blip.Message, 1)
	go func() { ch <- rq.Response() }()
	select {
	case resp := <-ch:
		return resp, true
	case <-time.After(c19Watchdog):
		c.run.Inconclusive("blip: no response to " + rq.Profile() + " within the watchdog")
		return nil, false
	}
}

func (c *c19Ctx) blipPush(proto string, d *c19Doc, rev string) {
	bt := c.push[proto]
	if bt == nil {
		c.rejected(d, "no-connection")
		return
	}
	rq := bt.newRevMessage(d.ID, rev, []byte(d.R1.Text), blip.Properties{})
	resp, ok := c.blipSend(bt, rq)
	if !ok {
		d.Accepted = false
		d.Status = "inconclusive"
		return
	}
	if resp.Type() == blip.ErrorType {
		body, _ := resp.Body()
		c.rejected(d, resp.Properties["Error-Code"]+" "+string(body))
		return
	}
	c.acceptedWrite(d, "")
}

type c19Pulled struct {
	Rev   string
	Body  []byte
	NoRev bool
	Props map[string]string
}

// blipPull runs a one-shot pull from since and returns what arrived per document (last message wins).
func (c *c19Ctx) blipPull(proto, since string) (map[string]c19Pulled, bool) {
	bt := c.openBlip(proto)
	if bt == nil {
		return nil, false
	}
	defer bt.sender.Close()
	var mu sync.Mutex
	got := map[string]c19Pulled{}
	caughtUp, expected, received := false, 0, 0
	ctx := bt.blipContext
	ctx.HandlerForProfile[db.MessageChanges] = func(msg *blip.Message) {
		body, _ := msg.Body()
		var entries [][]any
		if len(body) > 0 && string(body) != "null" {
			_ = json.Unmarshal(body, &entries)
		}
		mu.Lock()
		if len(entries) == 0 {
			caughtUp = true
		}
		expected += len(entries)
		mu.Unlock()
		if msg.NoReply() {
			return
		}
		answer := make([]any, len(entries))
		for i := range answer {
			answer[i] = []any{}
		}
		resp := msg.Response()
		resp.Properties[db.ChangesResponseMaxHistory] = "20"
		b, _ := json.Marshal(answer)
		resp.SetBody(b)
	}
	ctx.HandlerForProfile[db.MessageRev] = func(msg *blip.Message) {
		body, _ := msg.Body()
		props := map[string]string{}
		for k, v := range msg.Properties {
			props[k] = v
		}
		mu.Lock()
		got[msg.Properties[db.RevMessageID]] = c19Pulled{Rev: msg.Properties[db.RevMessageRev], Body: append([]byte{}, body...), Props: props}
		received++
		mu.Unlock()
		if !msg.NoReply() {
			msg.Response().SetBody([]byte{})
		}
	}
	ctx.HandlerForProfile[db.MessageNoRev] = func(msg *blip.Message) {
		mu.Lock()
		got[msg.Properties[db.NorevMessageId]] = c19Pulled{Rev: msg.Properties[db.NorevMessageRev], NoRev: true, Props: map[string]string{"error": msg.Properties["error"], "reason": msg.Properties["reason"]}}
		received++
		mu.Unlock()
		if !msg.NoReply() {
			msg.Response().SetBody([]byte{})
		}
	}
	ctx.DefaultHandler = func(msg *blip.Message) {}
	rq := blip.NewRequest()
	rq.SetProfile(db.MessageSubChanges)
	rq.Properties[db.SubChangesContinuous] = "false"
	rq.Properties[db.SubChangesBatch] = "100"
	if since != "" {
		rq.Properties[db.SubChangesSince] = since
	}
	bt.addCollectionProperty(rq)
	resp, ok := c.blipSend(bt, rq)
	if !ok {
		return nil, false
	}
	if resp.Type() == blip.ErrorType {
		b, _ := resp.Body()
		c.run.Note("subChanges rejected (%s): %v %s", proto, resp.Properties, b)
		c.run.Inconclusive("blip subChanges rejected")
		return nil, false
	}
	deadline := time.Now().Add(c19Watchdog)
	for time.Now().Before(deadline) {
		mu.Lock()
		done := caughtUp && received >= expected
		mu.Unlock()
		if done {
			mu.Lock()
			defer mu.Unlock()
			out := make(map[string]c19Pulled, len(got))
			for k, v := range got {
				out[k] = v
			}
			return out, true
		}
		time.Sleep(3 * time.Millisecond)
	}
	c.run.Inconclusive("blip pull did not complete within the watchdog")
	return nil, false
}

func (c *c19Ctx) checkPull(read string, pulled map[string]c19Pulled, docs []*c19Doc, pick func(d *c19Doc) *c19Rev) {
	for _, d := range docs {
		if !d.Accepted {
			continue
		}
		rv := pick(d)
		if rv == nil {
			continue
		}
		p, ok := pulled[d.ID]
		request := "one-shot subChanges; the rev message of the document"
		switch {
		case !ok:
			c.readFailed(d, rv, read, "document-not-sent", "no rev/norev message for the document", request)
		case p.NoRev:
			c.readFailed(d, rv, read, "norev", fmt.Sprint(p.Props), request)
		default:
			got, err := c19Parse(p.Body)
			if err != nil {
				c.run.Eval()
				c19Violation(c.run, "value-equality", "C19|write="+rv.WPath+"|read="+read+"|returned-body-not-valid-json",
					fmt.Sprintf("doc %s written through %s as %s: rev message body %s: %v", d.ID, rv.WPath, c19Trunc(rv.Text, 300), c19Trunc(string(p.Body), 300), err),
					map[string]any{"case": d.CI, "doc_id": d.ID, "write_path": rv.WPath, "written_body": rv.Text, "read_path": read, "returned_body": string(p.Body), "properties": p.Props})
				continue
			}
			c.check(d, rv, read, got, string(p.Body), request)
		}
	}
}

// ---- REST reads ------------------------------------------------------------------------------

// getDoc issues a GET returning a single document object.
func (c *c19Ctx) getDoc(d *c19Doc, rv *c19Rev, read, query string, allow404 bool) (*c19C, bool) {
	path := c.keyspaceURL(d.ID) + query
	resp := c.rt.SendAdminRequest("GET", path, "")
	raw := resp.Body.Bytes()
	request := "GET " + path
	if resp.Code == 404 && allow404 {
		c.run.Count("old_revision_not_available:"+read, 1)
		return nil, false
	}
	if resp.Code != 200 {
		c.readFailed(d, rv, read, fmt.Sprintf("status=%d", resp.Code), string(raw), request)
		return nil, false
	}
	got, err := c19Parse(raw)
	if err != nil {
		c.run.Eval()
		c19Violation(c.run, "value-equality", "C19|write="+rv.WPath+"|read="+read+"|response-not-valid-json",
			fmt.Sprintf("doc %s written through %s as %s: %s returned %s: %v", d.ID, rv.WPath, c19Trunc(rv.Text, 300), request, c19Trunc(string(raw), 300), err),
			map[string]any{"case": d.CI, "doc_id": d.ID, "write_path": rv.WPath, "written_body": rv.Text, "read_request": request, "response": c19Trunc(string(raw), 6000)})
		return nil, false
	}
	c.check(d, rv, read, got, string(raw), request)
	return got, true
}

// multipartDocs splits a multipart response into its JSON parts.
func c19MultipartDocs(resp *TestResponse) ([][]byte, error) {
	mt, params, err := mime.ParseMediaType(resp.Header().Get("Content-Type"))
	if err != nil || !strings.HasPrefix(mt, "multipart/") {
		return nil, fmt.Errorf("not multipart: %q %v", resp.Header().Get("Content-Type"), err)
	}
	mr := multipart.NewReader(bytes.NewReader(resp.Body.Bytes()), params["boundary"])
	var out [][]byte
	for {
		p, err := mr.NextPart()
		if err == io.EOF {
			return out, nil
		}
		if err != nil {
			return out, err
		}
		b, err := io.ReadAll(p)
		if err != nil {
			return out, err
		}
		out = append(out, b)
	}
}

// bulkJSON parses a whole bulk response; on failure reports it once and returns nil.
func (c *c19Ctx) bulkJSON(read, request string, raw []byte, docs []*c19Doc) *c19C {
	c.run.Count("bulk_response_bytes", len(raw))
	got, err := c19Parse(raw)
	if err == nil {
		return got
	}
	return nil
}

// checkRows matches documents found in a bulk response against the expected revision of each doc.
func (c *c19Ctx) checkRows(read, request string, raw []byte, found map[string]*c19C, docs []*c19Doc, pick func(d *c19Doc, got *c19C) *c19Rev) {
	for _, d := range docs {
		if !d.Accepted {
			continue
		}
		got := found[d.ID]
		rv := pick(d, got)
		if rv == nil {
			continue
		}
		if got == nil {
			detail := ""
			if i := bytes.Index(raw, []byte(c19Quote(d.ID))); i >= 0 {
				lo, hi := i-120, i+400
				if lo < 0 {
					lo = 0
				}
				if hi > len(raw) {
					hi = len(raw)
				}
				detail = "response around the document id: " + string(raw[lo:hi])
			} else {
				detail = "the document id does not occur in the response"
			}
			c.readFailed(d, rv, read, "document-missing-from-response", detail, request)
			continue
		}
		c.check(d, rv, read, got, c19Span(raw, got), request)
	}
}

func c19PickR1(d *c19Doc, _ *c19C) *c19Rev { return d.R1 }

func c19PickByRev(d *c19Doc, got *c19C) *c19Rev {
	if got == nil {
		return d.R1
	}
	if rv := d.byRev(c19StrOf(c19Field(got, "_rev"))); rv != nil {
		return rv
	}
	return nil
}

func (c *c19Ctx) readAllDocs(read string, docs []*c19Doc, pick func(d *c19Doc, got *c19C) *c19Rev) {
	var ids []string
	for _, d := range docs {
		if d.Accepted {
			ids = append(ids, d.ID)
		}
	}
	if len(ids) == 0 {
		return
	}
	kb, _ := json.Marshal(map[string]any{"keys": ids})
	path := c.keyspaceURL("_all_docs?include_docs=true")
	resp := c.rt.SendAdminRequest("POST", path, string(kb))
	request := "POST " + path + " " + c19Trunc(string(kb), 200)
	raw := resp.Body.Bytes()
	whole := c.bulkJSON(read, request, raw, docs)
	if resp.Code != 200 || whole == nil {
		c.bulkBroken(read, docs, pick, resp.Code, raw, func(d *c19Doc) (string, string, string) {
			b, _ := json.Marshal(map[string]any{"keys": []string{d.ID}})
			return "POST", path, string(b)
		}, func(o *c19C) map[string]*c19C { return c19RowsDocs(o, "rows") })
		return
	}
	c.checkRows(read, request, raw, c19RowsDocs(whole, "rows"), docs, pick)
}

func c19RowsDocs(whole *c19C, arr string) map[string]*c19C {
	found := map[string]*c19C{}
	rows := c19Field(whole, arr)
	if rows == nil || rows.K != c19KArr {
		return found
	}
	for _, row := range rows.A {
		id := c19StrOf(c19Field(row, "id"))
		if doc := c19Field(row, "doc"); doc != nil && doc.K == c19KObj {
			found[id] = doc
		}
	}
	return found
}

// bulkBroken handles a bulk response that is not valid JSON (or not 200): every document is re-requested
// on its own so that the violation is attributed to the bodies that break the response.
func (c *c19Ctx) bulkBroken(read string, docs []*c19Doc, pick func(d *c19Doc, got *c19C) *c19Rev, code int, raw []byte,
	single func(d *c19Doc) (method, path, body string), extract func(o *c19C) map[string]*c19C) {
	c.run.Count("bulk_responses_not_valid_json", 1)
	_, perr := c19Parse(raw)
	c.note("bulk-broken", "%s: bulk response status=%d is not valid JSON (%v); re-reading each document on its own", read, code, perr)
	var culprits []map[string]any
	defer func() {
		off := 0
		if perr != nil {
			_, _ = fmt.Sscanf(perr.Error(), "offset %d:", &off)
		}
		lo, hi := off-300, off+300
		if lo < 0 {
			lo = 0
		}
		if hi > len(raw) {
			hi = len(raw)
		}
		c.run.Eval()
		c19Violation(c.run, "value-equality", "C19|read="+read+"|whole-response-not-valid-json",
			fmt.Sprintf("%s returned status %d with a body that is not valid JSON (%v); around the error: %q; documents that cannot be read on their own either: %v", read, code, perr, raw[lo:hi], culprits),
			map[string]any{"read_path": read, "status": code, "parse_error": fmt.Sprint(perr), "response_around_error": string(raw[lo:hi]), "documents_failing_on_their_own": culprits})
	}()
	culprit := func(d *c19Doc, rv *c19Rev) {
		culprits = append(culprits, map[string]any{"doc_id": d.ID, "write_path": rv.WPath, "written_body": rv.Text})
	}
	for _, d := range docs {
		if !d.Accepted {
			continue
		}
		m, p, b := single(d)
		resp := c.rt.SendAdminRequest(m, p, b)
		request := m + " " + p + " " + b
		r := resp.Body.Bytes()
		one, err := c19Parse(r)
		rv := pick(d, nil)
		if rv == nil {
			rv = d.R1
		}
		if resp.Code != 200 || err != nil {
			c.run.Eval()
			culprit(d, rv)
			c19Violation(c.run, "value-equality", "C19|write="+rv.WPath+"|read="+read+"|input="+c19InputClass(rv)+"|response-not-valid-json",
				fmt.Sprintf("doc %s written through %s as %s: %s -> %d %s: %v", d.ID, rv.WPath, c19Trunc(rv.Text, 300), request, resp.Code, c19Trunc(string(r), 400), err),
				map[string]any{"case": d.CI, "doc_id": d.ID, "write_path": rv.WPath, "written_body": rv.Text, "read_path": read, "read_request": request, "response": c19Trunc(string(r), 6000), "features": d.Feats})
			continue
		}
		found := extract(one)
		got := found[d.ID]
		if rv2 := pick(d, got); rv2 != nil {
			rv = rv2
		}
		if got == nil {
			if !d.storedHuge() {
				culprit(d, rv)
			}
			c.readFailed(d, rv, read, "document-missing-from-response", string(r), request)
			continue
		}
		c.check(d, rv, read, got, c19Span(r, got), request)
	}
}

func (c *c19Ctx) readChanges(read, since string, docs []*c19Doc, pick func(d *c19Doc, got *c19C) *c19Rev) (lastSeq string) {
	path := c.keyspaceURL("_changes?include_docs=true&since=" + since)
	resp := c.rt.SendAdminRequest("GET", path, "")
	request := "GET " + path
	raw := resp.Body.Bytes()
	whole := c.bulkJSON(read, request, raw, docs)
	extract := func(o *c19C) map[string]*c19C { return c19RowsDocs(o, "results") }
	if resp.Code != 200 || whole == nil {
		c.bulkBroken(read, docs, pick, resp.Code, raw, func(d *c19Doc) (string, string, string) {
			return "GET", c.keyspaceURL("_changes?include_docs=true&filter=_doc_ids&doc_ids=" + d.ID), ""
		}, extract)
		var ls struct {
			LastSeq any `json:"last_seq"`
		}
		r2 := c.rt.SendAdminRequest("GET", c.keyspaceURL("_changes?since="+since), "")
		_ = json.Unmarshal(r2.Body.Bytes(), &ls)
		return fmt.Sprint(ls.LastSeq)
	}
	c.checkRows(read, request, raw, extract(whole), docs, pick)
	ls := c19Field(whole, "last_seq")
	if ls != nil && ls.K == c19KStr {
		return ls.S
	}
	if ls != nil && ls.K == c19KNum {
		return ls.Lit
	}
	return since
}

type c19BulkGetItem struct {
	d   *c19Doc
	rev string // "" = current
}

func (c *c19Ctx) readBulkGet(read string, items []c19BulkGetItem, allow404 bool) {
	if len(items) == 0 {
		return
	}
	var rq []map[string]any
	for _, it := range items {
		m := map[string]any{"id": it.d.ID}
		if it.rev != "" {
			m["rev"] = it.rev
		}
		rq = append(rq, m)
	}
	body, _ := json.Marshal(map[string]any{"docs": rq})
	path := c.keyspaceURL("_bulk_get")
	resp := c.rt.SendAdminRequest("POST", path, string(body))
	request := "POST " + path + " {\"docs\":[{\"id\":<doc_id>,\"rev\":<revision>}]}"
	c.run.Count("bulk_response_bytes", resp.Body.Len())
	parts, err := c19MultipartDocs(resp)
	if resp.Code != 200 || err != nil || len(parts) != len(items) {
		c.run.Note("_bulk_get: status=%d parts=%d items=%d err=%v", resp.Code, len(parts), len(items), err)
		c.run.Inconclusive("_bulk_get response could not be split into one part per requested document")
		return
	}
	for i, it := range items {
		rv := it.d.R1
		if it.rev != "" {
			rv = it.d.byRev(it.rev)
		}
		got, perr := c19Parse(parts[i])
		if perr != nil {
			c.run.Eval()
			c19Violation(c.run, "value-equality", "C19|write="+rv.WPath+"|read="+read+"|response-not-valid-json",
				fmt.Sprintf("doc %s written through %s as %s: _bulk_get part %s: %v", it.d.ID, rv.WPath, c19Trunc(rv.Text, 300), c19Trunc(string(parts[i]), 300), perr),
				map[string]any{"case": it.d.CI, "doc_id": it.d.ID, "write_path": rv.WPath, "written_body": rv.Text, "read_path": read, "revision": it.rev, "response_part": string(parts[i])})
			continue
		}
		if e := c19Field(got, "error"); e != nil && c19Field(got, "_id") == nil && c19Field(got, "status") != nil {
			st := c19Field(got, "status")
			if allow404 && st.K == c19KNum && st.Lit == "404" {
				c.run.Count("old_revision_not_available:"+read, 1)
				continue
			}
			c.readFailed(it.d, rv, read, "status="+st.Lit, string(parts[i]), request)
			continue
		}
		if it.rev == "" {
			if r := it.d.byRev(c19StrOf(c19Field(got, "_rev"))); r != nil {
				rv = r
			}
		}
		c.check(it.d, rv, read, got, string(parts[i]), request)
	}
}

func (c *c19Ctx) readOpenRevs(d *c19Doc, read string, multi bool, query string, want []*c19Rev) {
	path := c.keyspaceURL(d.ID) + query
	accept := "application/json"
	if multi {
		accept = "multipart/mixed"
	}
	resp := c.rt.SendAdminRequestWithHeaders("GET", path, "", map[string]string{"Accept": accept})
	request := "GET " + path + " (Accept: " + accept + ")"
	raw := resp.Body.Bytes()
	seen := map[string]bool{}
	handle := func(doc *c19C, text string) {
		rev := c19StrOf(c19Field(doc, "_rev"))
		rv := d.byRev(rev)
		if rv == nil {
			return
		}
		seen[rev] = true
		c.check(d, rv, read, doc, text, request)
	}
	if resp.Code != 200 {
		c.readFailed(d, want[0], read, fmt.Sprintf("status=%d", resp.Code), string(raw), request)
		return
	}
	if multi {
		parts, err := c19MultipartDocs(resp)
		if err != nil {
			c.run.Inconclusive("open_revs multipart response could not be split")
			return
		}
		for _, p := range parts {
			doc, perr := c19Parse(p)
			if perr != nil {
				c.run.Eval()
				c19Violation(c.run, "value-equality", "C19|write="+want[0].WPath+"|read="+read+"|response-not-valid-json", fmt.Sprintf("doc %s: %s part %s: %v", d.ID, request, c19Trunc(string(p), 300), perr),
					map[string]any{"case": d.CI, "doc_id": d.ID, "written_body": want[0].Text, "read_request": request, "response_part": string(p)})
				continue
			}
			handle(doc, string(p))
		}
	} else {
		whole, err := c19Parse(raw)
		if err != nil || whole.K != c19KArr {
			c.run.Eval()
			c19Violation(c.run, "value-equality", "C19|write="+want[0].WPath+"|read="+read+"|response-not-valid-json", fmt.Sprintf("doc %s: %s returned %s: %v", d.ID, request, c19Trunc(string(raw), 400), err),
				map[string]any{"case": d.CI, "doc_id": d.ID, "written_bodies": []string{want[0].Text}, "read_request": request, "response": c19Trunc(string(raw), 6000)})
			return
		}
		for _, e := range whole.A {
			if ok := c19Field(e, "ok"); ok != nil {
				handle(ok, c19Span(raw, ok))
			}
		}
	}
	for _, w := range want {
		if !seen[w.Rev] {
			c.readFailed(d, w, read, "open-revision-not-returned", string(raw), request)
		}
	}
}

// ---- the case generator -----------------------------------------------------------------------

func c19CaseBody(r *vlib.Rand, ci int, reserved bool) (*c19V, []string) {
	if !reserved {
		return c19GenBody(r, ci)
	}
	g := &c19Gen{r: r, max: 8, feat: map[string]bool{}}
	v := g.object(1, 2, true)
	pool := append(append([]string{}, c19MustNotSet...), c19DifferentialOnly...)
	key := pool[ci%len(pool)]
	vals := []*c19V{
		{K: c19KBool, B: true}, {K: c19KBool, B: false}, {K: c19KNum, N: "1"}, {K: c19KStr, S: []rune("x")}, {K: c19KObj, M: []c19Mem{}},
		{K: c19KObj, M: []c19Mem{{Key: []rune("rev"), Val: &c19V{K: c19KStr, S: []rune("1-abc")}}, {Key: []rune("sequence"), Val: &c19V{K: c19KNum, N: "1"}}}}, {K: c19KNull},
	}
	m := c19Mem{Key: []rune(key), Val: vals[(ci/len(pool))%len(vals)]}
	pos := r.Intn(len(v.M) + 1)
	v.M = append(v.M[:pos], append([]c19Mem{m}, v.M[pos:]...)...)
	return v, []string{"must-not-set:" + key}
}

// ---- the part -----------------------------------------------------------------------------------

func TestVerif_C19_Paths(t *testing.T) {
	run := vlib.Start(t, "C19", "paths")
	defer run.Finish()
	total := run.N(400, 10000)
	reserved := run.N(70, 700)
	chunk := 500 // bodies per database
	n := 0
	for start := 0; start < total+reserved; start += chunk {
		end := start + chunk
		if end > total+reserved {
			end = total + reserved
		}
		c19PathsChunk(t, run, n, start, end, total)
		n++
	}
	c19Seen.Lock()
	run.Count("distinct_write_read_pairs", len(c19Seen.pairs))
	run.Count("distinct_input_features", len(c19Seen.feats))
	c19Seen.Unlock()
}

func c19PathsChunk(t *testing.T, run *vlib.Run, chunkNo, start, end, total int) {
	rt := NewRestTester(t, &RestTesterConfig{
		SyncFn:     `function(doc){channel("c19");}`,
		AutoImport: base.Ptr(false),
	})
	defer rt.Close()
	_ = rt.Bucket()
	rt.GetDatabase().EnableAllowConflicts(t)
	rt.CreateUser("c19user", []string{"*"})
	c := &c19Ctx{t: t, run: run, rt: rt, tag: fmt.Sprint(chunkNo), push: map[string]*BlipTester{}}
	v3, v4 := db.CBMobileReplicationV3.SubprotocolString(), db.CBMobileReplicationV4.SubprotocolString()
	c.push[v3] = c.openBlip(v3)
	c.push[v4] = c.openBlip(v4)
	defer func() {
		for _, bt := range c.push {
			if bt != nil {
				bt.sender.Close()
			}
		}
	}()
	run.Count("databases", 1)
	only, onlyOK := run.OnlyCase()

	const batch = 50
	since := "0"
	var all []*c19Doc
	batchNo := 0
	for b0 := start; b0 < end; b0 += batch {
		b1 := b0 + batch
		if b1 > end {
			b1 = end
		}
		var docs []*c19Doc
		var bulk, bulkNE []*c19Doc
		// ---------------- phase A: first revision through every write path
		for ci := b0; ci < b1; ci++ {
			if onlyOK && ci != only {
				continue
			}
			r := run.CaseRand(ci)
			isRes := ci >= total
			body, feats := c19CaseBody(r, ci, isRes)
			body2, _ := c19GenBody(r.Fork(2), ci+5)
			run.Count("bodies", 1)
			for _, f := range feats {
				run.Distinct("features", f)
				run.Count("bodies_with:"+f, 1)
				c19Seen.Lock()
				c19Seen.feats[f] = true
				c19Seen.Unlock()
			}
			var texts []string
			for wi, wp := range c19WritePaths {
				st1 := c19NewStyle(r.Fork(uint64(10 + wi)))
				st2 := c19NewStyle(r.Fork(uint64(30 + wi)))
				st3 := c19NewStyle(r.Fork(uint64(50 + wi)))
				st3.Permute = true
				if st3.WS == st1.WS {
					st3.WS = (st1.WS + 1) % 3
				}
				d := &c19Doc{CI: ci, WPath: wp, ID: fmt.Sprintf("c19-%s-%d-%d", c.tag, ci, wi), Feats: feats, Reserved: isRes}
				if isRes {
					d.ResKey = strings.TrimPrefix(feats[0], "must-not-set:")
					for _, k := range c19DifferentialOnly {
						d.DiffOnly = d.DiffOnly || k == d.ResKey
					}
					// the document itself is written compact with the reserved key spelled literally; its twins
					// spell the same value with \u escapes and with whitespace around every token
					st1.WS, st1.Esc, st1.Permute = 0, 0, false
					d.Twins = map[string]*c19Rev{}
					for kind, stT := range map[string]*c19Style{
						"key-escaping": {r: r.Fork(uint64(70 + wi)), WS: 0, Esc: 2},
						"whitespace":   {r: r.Fork(uint64(90 + wi)), WS: 2, Esc: 0, Force: true},
					} {
						tw := &c19Rev{Stage: "rev1", WPath: wp, Text: c19Render(body, stT)}
						tw.Exp, _ = c19Parse([]byte(tw.Text))
						d.Twins[kind] = tw
						texts = append(texts, tw.Text)
					}
				}
				d.R1 = &c19Rev{Stage: "rev1", WPath: wp, Text: c19Render(body, st1)}
				d.R2 = &c19Rev{Stage: "rev2", WPath: "PUT(update-of-" + wp + ")", Text: c19Render(body2, st2)}
				d.R3 = &c19Rev{Stage: "rev3", WPath: "PUT-new_edits=false(conflicting-sibling-of-" + wp + ")", Text: c19Render(body, st3)}
				texts = append(texts, d.R1.Text, d.R3.Text)
				for _, rv := range []*c19Rev{d.R1, d.R2, d.R3} {
					exp, err := c19Parse([]byte(rv.Text))
					if err != nil {
						t.Fatalf("harness: generated text does not parse: %v %q", err, rv.Text)
					}
					rv.Exp = exp
				}
				run.Distinct("render_styles", st1.String())
				docs = append(docs, d)
			}
			if err := c19SelfCheck(body, texts...); err != nil {
				t.Fatalf("monitor self-check failed on case %d: %v", ci, err)
			}
			if err := c19SelfCheck(body2, docs[len(docs)-1].R2.Text); err != nil {
				t.Fatalf("monitor self-check failed on case %d (second body): %v", ci, err)
			}
			run.Count("monitor_selfchecks", len(texts))
			c.sample.Do(func() {
				run.Sample(map[string]any{"case": ci, "features": feats, "rev1_as_written_by_PUT": docs[len(docs)-len(c19WritePaths)].R1.Text,
					"rev3_variant": docs[len(docs)-len(c19WritePaths)].R3.Text, "write_paths": c19WritePaths})
			})
		}
		for _, d := range docs {
			switch d.WPath {
			case "bulk_docs":
				bulk = append(bulk, d)
			case "bulk_docs-new_edits=false":
				bulkNE = append(bulkNE, d)
			default:
				ok, rev, status := c.writeSingle(d.WPath, d.ID, d.R1, d.CI)
				switch {
				case status == "inconclusive":
					d.Status = status
				case ok:
					if d.WPath == "POST" {
						d.ID = rev[:strings.IndexByte(rev, '|')]
						rev = rev[strings.IndexByte(rev, '|')+1:]
					}
					c.acceptedWrite(d, rev)
				default:
					c.rejected(d, status)
				}
			}
		}
		c.bulkDocs(bulk, false)
		c.bulkDocs(bulkNE, true)
		for _, d := range docs {
			c.twin(d)
			if d.DiffOnly && d.Accepted {
				// (e.g. a body with _deleted:true is a tombstone: its reads are not C19's subject)
				d.Accepted = false
				d.Status = "written for the escaping differential only"
				run.Count("differential_only_documents", 1)
			}
		}
		rt.WaitForPendingChanges()

		// ---------------- phase B: read revision 1 through every read path
		for _, d := range docs {
			if !d.Accepted {
				continue
			}
			got, ok := c.getDoc(d, d.R1, "GET", "", false)
			if !ok {
				continue
			}
			rev := c19StrOf(c19Field(got, "_rev"))
			if d.R1.Rev == "" {
				d.R1.Rev = rev
			} else if rev != d.R1.Rev {
				c.note("rev-mismatch", "doc %s: write reported rev %s, GET returns %s", d.ID, d.R1.Rev, rev)
			}
			if d.R1.Rev == "" {
				continue
			}
			c.getDoc(d, d.R1, "GET?rev(current)", "?rev="+d.R1.Rev, false)
			if d.CI%2 == 0 {
				c.getDoc(d, d.R1, "GET?revs&show_exp", "?revs=true&show_exp=true", false)
			}
			c.readOpenRevs(d, "open_revs=all(json,single-leaf)", false, "?open_revs=all", []*c19Rev{d.R1})
		}
		var itemsCur, itemsRev []c19BulkGetItem
		for _, d := range docs {
			if d.Accepted && d.R1.Rev != "" {
				itemsCur = append(itemsCur, c19BulkGetItem{d, ""})
				itemsRev = append(itemsRev, c19BulkGetItem{d, d.R1.Rev})
			}
		}
		c.readBulkGet("bulk_get(current)", itemsCur, false)
		c.readBulkGet("bulk_get(rev)", itemsRev, false)
		c.readAllDocs("all_docs-include_docs", docs, c19PickR1)
		next := c.readChanges("changes-include_docs", since, docs, c19PickR1)
		for _, proto := range []string{v3, v4} {
			name := "blip-pull-V3"
			if proto == v4 {
				name = "blip-pull-V4"
			}
			if pulled, ok := c.blipPull(proto, since); ok {
				run.Count("blip_pulls_completed", 1)
				c.checkPull(name, pulled, docs, func(d *c19Doc) *c19Rev { return d.R1 })
			}
		}
		since = next

		// ---------------- phase C: supersede, then read the old revision
		for _, d := range docs {
			if !d.Accepted || d.R1.Rev == "" {
				continue
			}
			resp := rt.SendAdminRequest("PUT", c.keyspaceURL(d.ID)+"?rev="+d.R1.Rev, d.R2.Text)
			var wr c19WriteResp
			_ = json.Unmarshal(resp.Body.Bytes(), &wr)
			if resp.Code == 201 && wr.Rev != "" {
				d.R2.Rev = wr.Rev
				run.Count("updates_accepted", 1)
			} else {
				run.Count("updates_rejected", 1)
				switch {
				case d.storedHuge():
					run.Count("updates_rejected(current body has a number outside the double range: sync function cannot parse oldDoc)", 1)
					c.note("update-of-huge", "update of %s rejected: %d %s; current body %s", d.ID, resp.Code, c19Trunc(resp.Body.String(), 200), c19Trunc(d.R1.Text, 300))
				case len(c19TopUnderscoreKeys(d.R2.Exp)) == 0:
					run.Count("updates_rejected_plain", 1)
					c.note("update-rejected-plain", "update rejected although the body has no underscore key: %s -> %d %s body=%s", d.ID, resp.Code, c19Trunc(resp.Body.String(), 200), c19Trunc(d.R2.Text, 300))
				}
			}
		}
		flushed := batchNo%2 == 1
		if flushed {
			rt.GetDatabase().FlushRevisionCacheForTest()
		}
		suffix := "(warm-cache)"
		if flushed {
			suffix = "(flushed-cache)"
		}
		var itemsOld []c19BulkGetItem
		for _, d := range docs {
			if !d.Accepted || d.R2.Rev == "" {
				continue
			}
			c.getDoc(d, d.R2, "GET", "", false)
			c.getDoc(d, d.R1, "GET?rev(superseded)"+suffix, "?rev="+d.R1.Rev, true)
			itemsOld = append(itemsOld, c19BulkGetItem{d, d.R1.Rev})
		}
		c.readBulkGet("bulk_get(superseded)"+suffix, itemsOld, true)

		// ---------------- phase D: conflicting sibling of revision 2, then both leaves
		for _, d := range docs {
			if !d.Accepted || d.R2.Rev == "" {
				continue
			}
			prefix := "00"
			if d.CI%2 == 1 {
				prefix = "ff"
			}
			digest := fmt.Sprintf("%sc19%x", prefix, vlib.HashStr(d.ID))
			parent := strings.TrimPrefix(d.R1.Rev, "1-")
			text := c.withExtrasText(d.R3, d.CI, `"_rev":"2-`+digest+`"`, `"_revisions":{"start":2,"ids":["`+digest+`","`+parent+`"]}`)
			resp := rt.SendAdminRequest("PUT", c.keyspaceURL(d.ID)+"?new_edits=false", text)
			var wr c19WriteResp
			_ = json.Unmarshal(resp.Body.Bytes(), &wr)
			if resp.Code == 201 && wr.Rev != "" {
				d.R3.Rev = wr.Rev
				run.Count("conflicts_accepted", 1)
			} else {
				run.Count("conflicts_rejected", 1)
				c.note("conflict-rejected", "conflicting revision rejected: %s -> %d %s body=%s", d.ID, resp.Code, c19Trunc(resp.Body.String(), 200), c19Trunc(text, 300))
			}
		}
		if flushed {
			rt.GetDatabase().FlushRevisionCacheForTest()
		}
		var itemsLeaves []c19BulkGetItem
		for _, d := range docs {
			if !d.Accepted || d.R3.Rev == "" {
				continue
			}
			multi := d.CI%3 == 0
			name := "open_revs=all(json)"
			if multi {
				name = "open_revs=all(multipart)"
			}
			c.readOpenRevs(d, name+suffix, multi, "?open_revs=all", []*c19Rev{d.R2, d.R3})
			c.getDoc(d, d.R3, "GET?rev(conflicting-sibling)"+suffix, "?rev="+d.R3.Rev, false)
			c.getDoc(d, d.R2, "GET?rev(current)"+suffix, "?rev="+d.R2.Rev, false)
			if d.CI%4 == 0 {
				c.readOpenRevs(d, "open_revs=[rev](json)"+suffix, false, `?open_revs=["`+d.R3.Rev+`"]`, []*c19Rev{d.R3})
			}
			itemsLeaves = append(itemsLeaves, c19BulkGetItem{d, d.R3.Rev}, c19BulkGetItem{d, d.R2.Rev})
		}
		c.readBulkGet("bulk_get(leaf)"+suffix, itemsLeaves, false)

		// ---------------- phase E: the winning leaf is tombstoned, the other leaf is promoted to current
		var promoted []*c19Doc
		for _, d := range docs {
			if !d.Accepted || d.R3.Rev == "" || d.CI%3 == 0 {
				continue
			}
			resp := rt.SendAdminRequest("GET", c.keyspaceURL(d.ID), "")
			var m struct {
				Rev string `json:"_rev"`
			}
			_ = json.Unmarshal(resp.Body.Bytes(), &m)
			win := d.byRev(m.Rev)
			if win == nil || (win != d.R2 && win != d.R3) {
				continue
			}
			other := d.R2
			if win == d.R2 {
				other = d.R3
			}
			del := rt.SendAdminRequest("DELETE", c.keyspaceURL(d.ID)+"?rev="+win.Rev, "")
			if del.Code != 200 {
				run.Count("winner_tombstone_rejected", 1)
				if !d.storedHuge() {
					c.note("winner-delete-rejected", "DELETE %s?rev=%s -> %d %s", d.ID, win.Rev, del.Code, c19Trunc(del.Body.String(), 200))
				}
				continue
			}
			run.Count("winners_tombstoned", 1)
			d.Promoted = other
			promoted = append(promoted, d)
		}
		if flushed {
			rt.GetDatabase().FlushRevisionCacheForTest()
		}
		var itemsPromoted []c19BulkGetItem
		for _, d := range promoted {
			c.getDoc(d, d.Promoted, "GET(promoted-leaf)"+suffix, "", false)
			c.getDoc(d, d.Promoted, "GET?rev(promoted-leaf)"+suffix, "?rev="+d.Promoted.Rev, false)
			itemsPromoted = append(itemsPromoted, c19BulkGetItem{d, ""})
		}
		c.readBulkGet("bulk_get(promoted-leaf)"+suffix, itemsPromoted, false)
		all = append(all, docs...)
		batchNo++
	}

	c.reportEscapeDifferentials()

	// ---------------- final sweep: the winners of all documents through the feed-style read paths
	rt.WaitForPendingChanges()
	rt.GetDatabase().FlushRevisionCacheForTest()
	c.readAllDocs("all_docs-include_docs(final)", all, c19PickByRev)
	c.readChanges("changes-include_docs(final)", "0", all, c19PickByRev)
	winner := map[string]*c19Rev{}
	for _, d := range all {
		if !d.Accepted {
			continue
		}
		resp := rt.SendAdminRequest("GET", c.keyspaceURL(d.ID), "")
		var m struct {
			Rev string `json:"_rev"`
		}
		_ = json.Unmarshal(resp.Body.Bytes(), &m)
		if rv := d.byRev(m.Rev); rv != nil {
			winner[d.ID] = rv
		}
	}
	for _, proto := range []string{v3, v4} {
		name := "blip-pull-V3(final)"
		if proto == v4 {
			name = "blip-pull-V4(final)"
		}
		if pulled, ok := c.blipPull(proto, "0"); ok {
			run.Count("blip_pulls_completed", 1)
			c.checkPull(name, pulled, all, func(d *c19Doc) *c19Rev { return winner[d.ID] })
		}
	}
}

// writeSingle writes one body through one write path to the document id and reports whether it was
// accepted (for POST the returned rev is "<assigned id>|<rev>"; for BLIP and import the rev is unknown here).
func (c *c19Ctx) writeSingle(wp, id string, rv *c19Rev, ci int) (accepted bool, rev, status string) {
	rt := c.rt
	rest := func(resp *TestResponse, want int) (bool, string, string) {
		var wr c19WriteResp
		_ = json.Unmarshal(resp.Body.Bytes(), &wr)
		if resp.Code == want && wr.Rev != "" {
			if wp == "POST" {
				return true, wr.ID + "|" + wr.Rev, ""
			}
			return true, wr.Rev, ""
		}
		return false, "", fmt.Sprintf("%d %s", resp.Code, c19Trunc(resp.Body.String(), 200))
	}
	v3, v4 := db.CBMobileReplicationV3.SubprotocolString(), db.CBMobileReplicationV4.SubprotocolString()
	switch wp {
	case "PUT":
		return rest(rt.SendAdminRequest("PUT", c.keyspaceURL(id), rv.Text), 201)
	case "POST":
		return rest(rt.SendAdminRequest("POST", "/{{.keyspace}}/", rv.Text), 200)
	case "PUT-new_edits=false":
		digest := fmt.Sprintf("c19ne%x", vlib.HashStr(id))
		text := c.withExtrasText(rv, ci, `"_rev":"1-`+digest+`"`, `"_revisions":{"start":1,"ids":["`+digest+`"]}`)
		return rest(rt.SendAdminRequest("PUT", c.keyspaceURL(id)+"?new_edits=false", text), 201)
	case "bulk_docs", "bulk_docs-new_edits=false":
		var text string
		if wp == "bulk_docs" {
			text = `{"docs":[` + c.withExtrasText(rv, ci, `"_id":`+c19Quote(id)) + `]}`
		} else {
			digest := fmt.Sprintf("c19bn%x", vlib.HashStr(id))
			text = `{"new_edits":false,"docs":[` + c.withExtrasText(rv, ci, `"_id":`+c19Quote(id), `"_rev":"1-`+digest+`"`, `"_revisions":{"start":1,"ids":["`+digest+`"]}`) + `]}`
		}
		resp := rt.SendAdminRequest("POST", c.keyspaceURL("_bulk_docs"), text)
		var results []c19WriteResp
		_ = json.Unmarshal(resp.Body.Bytes(), &results)
		if resp.Code == 201 && len(results) == 1 && results[0].Error == "" && results[0].Rev != "" {
			return true, results[0].Rev, ""
		}
		return false, "", fmt.Sprintf("%d %s", resp.Code, c19Trunc(resp.Body.String(), 200))
	case "blip-push-V3", "blip-push-V4":
		proto, brev := v3, fmt.Sprintf("1-c19b%x", vlib.HashStr(id))
		if wp == "blip-push-V4" {
			c.vseq++
			proto, brev = v4, fmt.Sprintf("%x@c19src", 0x1000+c.vseq)
		}
		bt := c.push[proto]
		if bt == nil {
			return false, "", "inconclusive"
		}
		rq := bt.newRevMessage(id, brev, []byte(rv.Text), blip.Properties{})
		resp, ok := c.blipSend(bt, rq)
		if !ok {
			return false, "", "inconclusive"
		}
		if resp.Type() == blip.ErrorType {
			body, _ := resp.Body()
			return false, "", resp.Properties["Error-Code"] + " " + string(body)
		}
		return true, "", ""
	case "import":
		ds := rt.GetSingleDataStore()
		ctx := rt.Context()
		if err := ds.SetRaw(ctx, id, 0, nil, []byte(rv.Text)); err != nil {
			return false, "", "SetRaw: " + err.Error()
		}
		resp := rt.SendAdminRequest("GET", c.keyspaceURL(id), "")
		x, _, xerr := ds.GetXattrs(ctx, id, []string{base.SyncXattrName})
		if xerr == nil && len(x[base.SyncXattrName]) > 0 {
			return true, "", ""
		}
		return false, "", fmt.Sprintf("not imported: GET -> %d %s", resp.Code, c19Trunc(resp.Body.String(), 200))
	}
	return false, "", "unknown write path"
}

// twin: the same value spelled differently (key escaped / whitespace around the tokens) is written through the
// same path to another document; whether a body is accepted must not depend on how it is spelled.
func (c *c19Ctx) twin(d *c19Doc) {
	if len(d.Twins) == 0 || d.Status == "inconclusive" {
		return
	}
	if d.ResKey == "_id" && (d.WPath == "POST" || strings.HasPrefix(d.WPath, "bulk_docs")) {
		// POST and _bulk_docs take the document id from the body's _id: the two writes would address the
		// same (or another) document and are not independent
		return
	}
	for _, kind := range []string{"key-escaping", "whitespace"} {
		tw := d.Twins[kind]
		ok, _, status := c.writeSingle(d.WPath, d.ID+"-twin-"+kind, tw, d.CI)
		if status == "inconclusive" {
			continue
		}
		c.run.Eval()
		c.run.Count("spelling_differentials", 1)
		c.run.Count("spelling_differentials:"+kind, 1)
		if ok == d.Accepted {
			c.run.Count("spelling_differentials_consistent", 1)
			continue
		}
		acc, rej, rejStatus := d.R1.Text, tw.Text, status
		if ok {
			acc, rej, rejStatus = tw.Text, d.R1.Text, d.Status
		}
		if c.esc == nil {
			c.esc = map[string][]map[string]any{}
		}
		key := d.WPath + "|" + kind
		c.esc[key] = append(c.esc[key], map[string]any{"case": d.CI, "reserved_key": d.ResKey, "rejected_rendering": rej, "rejection": rejStatus,
			"accepted_rendering": acc, "doc_ids": []string{d.ID, d.ID + "-twin-" + kind}})
		c.run.Count("spelling_differentials_disagreeing:"+d.WPath+":"+kind+":"+d.ResKey, 1)
	}
}

// reportEscapeDifferentials emits one violation per (write path, kind of spelling) whose accept/reject decision
// depended on the spelling of a body carrying a reserved key (all keys and up to three examples per key in the witness).
func (c *c19Ctx) reportEscapeDifferentials() {
	for wk, list := range c.esc {
		wp, kind := wk[:strings.IndexByte(wk, '|')], wk[strings.IndexByte(wk, '|')+1:]
		keys := map[string]int{}
		var examples []map[string]any
		for _, e := range list {
			k := e["reserved_key"].(string)
			keys[k]++
			if keys[k] <= 3 {
				examples = append(examples, e)
			}
		}
		first := list[0]
		how := "spelled with \\u escapes"
		if kind == "whitespace" {
			how = "written with whitespace around the tokens"
		}
		c19Violation(c.run, "reserved-properties", "C19|write="+wp+"|reserved-key-accepted-or-rejected-depending-on-"+kind,
			fmt.Sprintf("through %s the same JSON value is refused when written compact with the reserved key spelled literally but accepted and stored when it is %s (or the reverse); keys and counts: %v; e.g. refused: %s (%v) accepted: %s",
				wp, how, keys, c19Trunc(first["rejected_rendering"].(string), 300), first["rejection"], c19Trunc(first["accepted_rendering"].(string), 300)),
			map[string]any{"write_path": wp, "spelling": kind, "keys": keys, "examples": examples})
	}
	c.esc = nil
}

// withExtras renders nothing new: it splices extra top-level members (given as JSON text) into the
// written text of revision 1 by re-rendering the same value with the same style seed.
func (c *c19Ctx) withExtras(d *c19Doc, extras ...string) string {
	return c.withExtrasText(d.R1, d.CI, extras...)
}

// withExtrasText inserts the extra members right after the opening brace or right before the closing
// brace of the already rendered text (chosen by the case index), so that the bytes of the body itself
// stay exactly as rendered.
func (c *c19Ctx) withExtrasText(rv *c19Rev, ci int, extras ...string) string {
	text := rv.Text
	open := strings.IndexByte(text, '{')
	closeIdx := strings.LastIndexByte(text, '}')
	empty := len(rv.Exp.O) == 0
	joined := strings.Join(extras, ",")
	if ci%2 == 0 {
		if empty {
			return text[:open+1] + joined + text[open+1:]
		}
		return text[:open+1] + joined + "," + text[open+1:]
	}
	if empty {
		return text[:closeIdx] + joined + text[closeIdx:]
	}
	return text[:closeIdx] + "," + joined + text[closeIdx:]
}

func (c *c19Ctx) bulkDocs(docs []*c19Doc, newEditsFalse bool) {
	if len(docs) == 0 {
		return
	}
	var sb strings.Builder
	sb.WriteString(`{`)
	if newEditsFalse {
		sb.WriteString(`"new_edits":false,`)
	}
	sb.WriteString(`"docs":[`)
	for i, d := range docs {
		if i > 0 {
			sb.WriteString(",")
		}
		if newEditsFalse {
			digest := fmt.Sprintf("c19bn%x", vlib.HashStr(d.ID))
			sb.WriteString(c.withExtras(d, `"_id":`+c19Quote(d.ID), `"_rev":"1-`+digest+`"`, `"_revisions":{"start":1,"ids":["`+digest+`"]}`))
		} else {
			sb.WriteString(c.withExtras(d, `"_id":`+c19Quote(d.ID)))
		}
	}
	sb.WriteString(`]}`)
	resp := c.rt.SendAdminRequest("POST", c.keyspaceURL("_bulk_docs"), sb.String())
	var results []c19WriteResp
	_ = json.Unmarshal(resp.Body.Bytes(), &results)
	if resp.Code != 201 {
		for _, d := range docs {
			c.rejected(d, fmt.Sprintf("whole request: %d %s", resp.Code, c19Trunc(resp.Body.String(), 200)))
		}
		c.run.Note("_bulk_docs request rejected as a whole: %d %s", resp.Code, c19Trunc(resp.Body.String(), 300))
		return
	}
	byID := map[string]c19WriteResp{}
	for _, r := range results {
		byID[r.ID] = r
	}
	for _, d := range docs {
		r, ok := byID[d.ID]
		switch {
		case !ok:
			c.rejected(d, "no result row")
		case r.Error != "" || r.Rev == "":
			c.rejected(d, fmt.Sprintf("%d %s", r.Status, r.Error))
		default:
			c.acceptedWrite(d, r.Rev)
		}
	}
}
