//go:build verif

package rest

import (
	"encoding/json"
	"fmt"
	"net/url"
	"strconv"
	"strings"
	"testing"

	"verif/vlib"
)

// C20 at the REST boundary: since tokens handed to GET/POST _changes are either accepted (200) or
// rejected with a client error (4xx), never a server error; and tokens the server emits are accepted
// back and resume at the same position.

func c20RestWellFormed(s string) bool {
	if s == "" {
		return true
	}
	parts := strings.Split(s, ":")
	if len(parts) > 3 {
		return false
	}
	for i, p := range parts {
		if p == "" {
			if len(parts) == 3 && i == 1 {
				continue
			}
			return false
		}
		for _, c := range []byte(p) {
			if c < '0' || c > '9' {
				return false
			}
		}
		if _, err := strconv.ParseUint(p, 10, 64); err != nil {
			return false
		}
	}
	return true
}

func TestVerif_C20_Rest(t *testing.T) {
	run := vlib.Start(t, "C20", "rest")
	defer run.Finish()
	rt := NewRestTester(t, &RestTesterConfig{SyncFn: `function(doc){channel(doc.ch);}`})
	defer rt.Close()
	for i := 0; i < 6; i++ {
		resp := rt.SendAdminRequest("PUT", fmt.Sprintf("/{{.keyspace}}/d%d", i), `{"ch":["A"]}`)
		if resp.Code != 201 {
			t.Fatalf("setup put: %d %s", resp.Code, resp.Body.String())
		}
	}
	rt.WaitForPendingChanges()
	rnd := run.Rand()
	comps := []string{"", "0", "1", "2", "5", "10", "007", "+1", "-1", " 1", "1.0", "1e3", "0x10", "abc", "18446744073709551615", "18446744073709551616", "99999999999999999999999", "null", "_"}
	gen := func() string {
		switch rnd.Intn(4) {
		case 0:
			k := rnd.Range(1, 5)
			parts := make([]string, k)
			for i := range parts {
				parts[i] = vlib.Pick(rnd, comps)
			}
			return strings.Join(parts, ":")
		case 1:
			k := rnd.Range(1, 3)
			parts := make([]string, k)
			for i := range parts {
				parts[i] = fmt.Sprintf("%d", rnd.Intn(9))
			}
			return strings.Join(parts, ":")
		case 2:
			return fmt.Sprintf("%d::%d", rnd.Intn(9), rnd.Intn(9))
		default:
			al := "0123456789::: -+.e"
			b := make([]byte, rnd.Range(1, 8))
			for i := range b {
				b[i] = al[rnd.Intn(len(al))]
			}
			return string(b)
		}
	}
	total := run.N(600, 6000)
	for i := 0; i < total; i++ {
		s := gen()
		wf := c20RestWellFormed(s)
		class := fmt.Sprintf("components=%d", strings.Count(s, ":")+1)
		// GET with the token as given and as a JSON string, POST with a JSON string value
		reqs := []struct{ name, method, path, body string }{
			{"GET", "GET", "/{{.keyspace}}/_changes?since=" + url.QueryEscape(s), ""},
			{"GET-quoted", "GET", "/{{.keyspace}}/_changes?since=" + url.QueryEscape(strconv.Quote(s)), ""},
		}
		if jb, err := json.Marshal(map[string]any{"since": s}); err == nil {
			reqs = append(reqs, struct{ name, method, path, body string }{"POST", "POST", "/{{.keyspace}}/_changes", string(jb)})
		}
		for _, rq := range reqs {
			resp := rt.SendAdminRequest(rq.method, rq.path, rq.body)
			run.Eval()
			switch {
			case resp.Code >= 500:
				run.Violation("rest-status", "C20|rest|"+rq.name+"|malformed-token-gives-server-error|"+class, fmt.Sprintf("%s _changes since=%q -> %d %s", rq.name, s, resp.Code, strings.TrimSpace(resp.Body.String())), map[string]any{"since": s, "request": rq})
			case wf && resp.Code != 200:
				run.Violation("rest-status", "C20|rest|"+rq.name+"|well-formed-token-rejected|"+class, fmt.Sprintf("%s _changes since=%q -> %d", rq.name, s, resp.Code), map[string]any{"since": s})
			case !wf && resp.Code == 200 && rq.name != "GET-quoted" && strings.TrimSpace(s) == s && s != "null":
				// ("null" is JSON for "no value": reading it as "no since" is not a mis-parse)
				// (a quoted or padded form may be unwrapped by the JSON-string convention before parsing)
				run.Violation("rest-status", "C20|rest|"+rq.name+"|malformed-token-accepted|"+class, fmt.Sprintf("%s _changes since=%q -> 200", rq.name, s), map[string]any{"since": s})
			}
			if resp.Code == 200 {
				run.Count("accepted", 1)
			} else {
				run.Count("rejected_4xx", 1)
			}
		}
		run.Nontrivial(s)
	}
	// emitted tokens are accepted back and resume after themselves
	var full ChangesResults
	resp := rt.SendAdminRequest("GET", "/{{.keyspace}}/_changes", "")
	if err := json.Unmarshal(resp.Body.Bytes(), &full); err != nil {
		t.Fatalf("changes: %v", err)
	}
	for i, e := range full.Results {
		tok := e.Seq.String()
		var rest ChangesResults
		r2 := rt.SendAdminRequest("GET", "/{{.keyspace}}/_changes?since="+url.QueryEscape(tok), "")
		if r2.Code != 200 || json.Unmarshal(r2.Body.Bytes(), &rest) != nil {
			run.Violation("rest-resume", "C20|rest|emitted-token-not-accepted-back", fmt.Sprintf("since=%q -> %d", tok, r2.Code), nil)
			continue
		}
		run.Eval()
		run.Count("emitted_tokens_resumed", 1)
		if len(rest.Results) != len(full.Results)-i-1 {
			run.Violation("rest-resume", "C20|rest|resume-from-emitted-token-not-the-suffix", fmt.Sprintf("resuming from entry %d (%s) returned %d entries, want %d", i, tok, len(rest.Results), len(full.Results)-i-1), map[string]any{"token": tok})
		}
	}
	run.Sample(map[string]any{"kind": "generated since values", "examples": []string{gen(), gen(), gen(), gen(), gen()}})
}
