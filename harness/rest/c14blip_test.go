//go:build verif

package rest

// C14, replication part: a getAttachment for digest x of document d succeeds only while the connection is
// being sent a revision of d that references x; before the revision is sent, after the client has answered
// it (and the server has processed the answer), for digests the revision does not reference and for other
// documents it is refused.
//
// The client is a raw BLIP connection (sub-protocols V3 and V4). It pulls ONE document at a time (one-shot
// subChanges with a docIDs filter) so that exactly one revision is in flight, holds the answer to the rev
// message while it probes, answers, waits for the state predicate "the server has processed the answer"
// (the num_doc_reads_blip statistic, which the server bumps immediately before it withdraws the allowance)
// and probes again. The documents come from the same seeded histories as the REST part; the REST oracle
// runs after every pull as well (a pull must not disturb what later reads return).

import (
	"bytes"
	"encoding/json"
	"fmt"
	"sync"
	"testing"
	"time"

	"github.com/couchbase/go-blip"
	"github.com/couchbase/sync_gateway/base"
	"github.com/couchbase/sync_gateway/db"
	"verif/vlib"
)

const c14BlipWatchdog = 40 * time.Second

const c14BlipUser = "c14puller"

type c14Blip struct {
	h     *c14Hist
	bt    *BlipTester
	proto string

	mu       sync.Mutex
	cur      *c14Doc
	caughtUp bool
	expected int
	received int
	revAtts  int  // attachments carried by the rev message received for cur
	errCode  int  // != 0: the client answers the rev of cur with this error instead of accepting it
	answered int  // 0 = not answered, 1 = accepted, 2 = answered with the error
	failed   bool // a violation was recorded by the rev handler
}

func (b *c14Blip) sig(detail string) string {
	return fmt.Sprintf("C14|blip|%s|proto=%s", detail, b.proto)
}

// getAttachment sends one getAttachment request. ok=false: no answer within the watchdog.
func (b *c14Blip) getAttachment(docID, digest string) (body []byte, isErr bool, errCode string, ok bool) {
	rq := blip.NewRequest()
	rq.SetProfile(db.MessageGetAttachment)
	rq.Properties[db.GetAttachmentDigest] = digest
	if b.bt.activeSubprotocol >= db.CBMobileReplicationV3 {
		rq.Properties[db.GetAttachmentID] = docID
	}
	b.bt.addCollectionProperty(rq)
	if !b.bt.sender.Send(rq) {
		b.h.e.run.Inconclusive("blip: getAttachment could not be sent")
		return nil, false, "", false
	}
	ch := make(chan *blip.Message, 1)
	go func() { ch <- rq.Response() }()
	var resp *blip.Message
	select {
	case resp = <-ch:
	case <-time.After(c14BlipWatchdog):
		b.h.e.run.Inconclusive("blip: no answer to getAttachment within the watchdog")
		return nil, false, "", false
	}
	body, _ = resp.Body()
	b.h.e.run.Count("getattachment_requests", 1)
	if resp.Type() == blip.ErrorType {
		return body, true, resp.Properties["Error-Code"], true
	}
	return body, false, "", true
}

// probeRefused: getAttachment(docID, content) must be refused.
func (b *c14Blip) probeRefused(phase string, d *c14Doc, c *c14Content, why string) bool {
	body, isErr, _, ok := b.getAttachment(d.ID, c.Digest)
	if !ok {
		return true
	}
	if !isErr {
		b.h.violation("blip", b.sig("getAttachment-served-"+phase),
			fmt.Sprintf("getAttachment(docID=%s, digest=%s) returned %d bytes %s (%s)", d.ID, c.Digest, len(body), phase, why),
			map[string]any{"phase": phase, "docID": d.ID, "digest": c.Digest, "content": c.Idx, "protocol": b.proto})
		return false
	}
	b.h.e.run.Count("getattachment_refused_as_required."+phase, 1)
	return true
}

func (b *c14Blip) install() {
	ctx := b.bt.blipContext
	run := b.h.e.run
	ctx.FatalErrorHandler = func(err error) { run.Note("blip fatal error: %v", err) }
	ctx.HandlerPanicHandler = func(request, response *blip.Message, err any) {
		run.Note("blip client handler panic (%s): %v", request.Profile(), err)
	}
	ctx.HandlerForProfile[db.MessageChanges] = func(msg *blip.Message) {
		body, _ := msg.Body()
		var entries [][]any
		if len(body) > 0 && string(body) != "null" {
			_ = json.Unmarshal(body, &entries)
		}
		b.mu.Lock()
		if len(entries) == 0 {
			b.caughtUp = true
		}
		b.expected += len(entries)
		b.mu.Unlock()
		if msg.NoReply() {
			return
		}
		answer := make([]any, len(entries))
		for i := range entries {
			answer[i] = []any{} // want it, nothing known
		}
		resp := msg.Response()
		resp.Properties[db.ChangesResponseMaxHistory] = "20"
		out, _ := json.Marshal(answer)
		resp.SetBody(out)
	}
	ctx.HandlerForProfile[db.MessageRev] = func(msg *blip.Message) {
		b.onRev(msg)
		b.mu.Lock()
		b.received++
		b.mu.Unlock()
	}
	ctx.HandlerForProfile[db.MessageNoRev] = func(msg *blip.Message) {
		run.Count("blip_norev_received", 1)
		b.mu.Lock()
		b.received++
		b.mu.Unlock()
	}
	ctx.DefaultHandler = func(msg *blip.Message) {}
}

// onRev: the revision of b.cur is in flight until this handler answers.
func (b *c14Blip) onRev(msg *blip.Message) {
	h := b.h
	run := h.e.run
	b.mu.Lock()
	d := b.cur
	b.mu.Unlock()
	body, _ := msg.Body()
	docID := msg.Properties[db.RevMessageID]
	fail := func() {
		b.mu.Lock()
		b.failed = true
		b.mu.Unlock()
	}
	b.mu.Lock()
	errCode := b.errCode
	b.mu.Unlock()
	answer := func() {
		if msg.NoReply() {
			return
		}
		if errCode != 0 {
			// the client rejects the revision (conflict / forbidden / unusable / internal error on its side)
			msg.Response().SetError("HTTP", errCode, "revision rejected by the test client")
			b.mu.Lock()
			b.answered = 2
			b.mu.Unlock()
			return
		}
		msg.Response().SetBody([]byte(`[]`))
		b.mu.Lock()
		b.answered = 1
		b.mu.Unlock()
	}
	if d == nil || docID != d.ID {
		run.Note("blip: rev for unexpected document %q", docID)
		answer()
		return
	}
	w := d.winner()
	var doc struct {
		Atts map[string]c14MetaAtt `json:"_attachments"`
	}
	_ = json.Unmarshal(body, &doc)
	run.Count("blip_rev_messages", 1)
	ex := map[string]any{"protocol": b.proto, "docID": d.ID, "rev_properties": msg.Properties, "rev_body": c14Trunc(string(body), 1500)}
	deleted := msg.Properties[db.RevMessageDeleted] != "" && msg.Properties[db.RevMessageDeleted] != "false"
	if w == nil || w.Deleted != deleted {
		h.violation("blip", b.sig("rev-deleted-flag-differs-from-model"), fmt.Sprintf("rev message for %s deleted=%v, model winner %+v", d.ID, deleted, w), ex)
		fail()
		answer()
		return
	}
	// the attachment metadata of the revision being sent = the model winner's
	want := map[string]int{}
	if !w.Deleted {
		want = w.Atts
	}
	for n := range doc.Atts {
		if _, ok := want[n]; !ok {
			h.violation("blip", b.sig("rev-lists-attachment-not-in-model"), fmt.Sprintf("rev of %s lists attachment %q, the winning revision %s carries %v", d.ID, n, w.ID, want), ex)
			fail()
			answer()
			return
		}
	}
	referenced := map[int]bool{}
	for n, ci := range want {
		c := h.cs[ci]
		m, ok := doc.Atts[n]
		if !ok || m.Digest == nil || *m.Digest != c.Digest || m.Length == nil || int(*m.Length) != len(c.Data) {
			h.violation("blip", b.sig("rev-attachment-metadata-differs-from-written-content"),
				fmt.Sprintf("rev of %s attachment %q: listed=%v digest=%s length=%s; written content %d has digest %s length %d", d.ID, n, ok, strPtr(m.Digest), fltPtr(m.Length), ci, c.Digest, len(c.Data)), ex)
			fail()
			answer()
			return
		}
		referenced[ci] = true
		run.Count("digests_and_lengths_checked", 1)
	}
	b.mu.Lock()
	b.revAtts = len(want)
	b.mu.Unlock()
	if msg.NoReply() && len(want) > 0 {
		h.violation("blip", b.sig("rev-with-attachments-sent-noreply"), "a rev that carries attachments was sent without asking for an answer: its allowance could never be withdrawn", ex)
		fail()
		return
	}
	// while the revision is in flight
	for _, c := range h.cs {
		if referenced[c.Idx] {
			got, isErr, code, ok := b.getAttachment(d.ID, c.Digest)
			if !ok {
				continue
			}
			if isErr {
				ex["error_code"], ex["error_body"] = code, c14Trunc(string(got), 300)
				h.violation("blip", b.sig("attachment-of-the-rev-in-flight-is-refused"),
					fmt.Sprintf("getAttachment(docID=%s, digest=%s) -> error %s %s while the rev that references it is in flight", d.ID, c.Digest, code, c14Trunc(string(got), 200)), ex)
				fail()
				answer()
				return
			}
			if !bytes.Equal(got, c.Data) {
				h.violation("blip", b.sig("attachment-of-the-rev-in-flight-differs-from-written-content"),
					fmt.Sprintf("getAttachment(docID=%s, digest=%s) returned %d bytes with SHA-1 %s; written %d bytes", d.ID, c.Digest, len(got), c14Digest(got), len(c.Data)), ex)
				fail()
				answer()
				return
			}
			run.Count("bytes_compared", len(got))
			run.Count("getattachment_served_and_compared_in_flight", 1)
		} else if !b.probeRefused("for-a-digest-the-rev-in-flight-does-not-reference", d, c, "rev in flight: "+w.ID) {
			fail()
			answer()
			return
		}
	}
	// the other document is not in flight, whatever it carries
	for _, o := range h.docs {
		if o == d {
			continue
		}
		for _, c := range h.cs {
			if !b.probeRefused("for-a-document-that-is-not-being-sent", o, c, "rev in flight belongs to "+d.ID) {
				fail()
				answer()
				return
			}
		}
	}
	answer()
}

func (b *c14Blip) waitPull() bool {
	deadline := time.Now().Add(c14BlipWatchdog)
	for time.Now().Before(deadline) {
		b.mu.Lock()
		done := b.caughtUp && b.received >= b.expected
		b.mu.Unlock()
		if done {
			return true
		}
		time.Sleep(time.Millisecond)
	}
	b.h.e.run.Inconclusive("blip: pull of one document did not complete within the watchdog")
	return false
}

// pullDoc: idle probes, pull of d with in-flight probes, completion, probes after completion.
func (b *c14Blip) pullDoc(d *c14Doc) bool {
	h := b.h
	run := h.e.run
	// nothing is being sent
	for _, c := range h.cs {
		if !b.probeRefused("while-no-revision-is-being-sent", d, c, "before the pull of the document") {
			return false
		}
	}
	b.mu.Lock()
	b.cur, b.caughtUp, b.expected, b.received, b.revAtts, b.failed, b.answered = d, false, 0, 0, 0, false, 0
	// how the client will answer the rev: seeded
	b.errCode = 0
	if h.r.Chance(40, 100) {
		b.errCode = vlib.Pick(h.r, []int{409, 403, 500, 422, 404})
	}
	errCode := b.errCode
	b.mu.Unlock()
	// state predicate "the server has processed the answer": the statistic it bumps, on the goroutine that then withdraws
	// the allowance, first thing after reading the answer (accepted: num_doc_reads_blip; error: rev_error_count)
	stat := h.e.rt.GetDatabase().DbStats.Database().NumDocReadsBlip
	phase := "after-the-rev-was-answered"
	if errCode != 0 {
		stat = h.e.rt.GetDatabase().DbStats.CBLReplicationPull().RevErrorCount
		phase = "after-the-rev-was-answered-with-an-error"
	}
	base0 := stat.Value()
	body, _ := json.Marshal(map[string]any{"docIDs": []string{d.ID}})
	var resp *blip.Message
	for attempt := 0; ; attempt++ {
		rq := blip.NewRequest()
		rq.SetProfile(db.MessageSubChanges)
		rq.Properties[db.SubChangesContinuous] = "false"
		rq.Properties[db.SubChangesBatch] = "10"
		b.bt.addCollectionProperty(rq)
		rq.SetBody(body)
		if !b.bt.sender.Send(rq) {
			run.Inconclusive("blip: subChanges could not be sent")
			return true
		}
		ch := make(chan *blip.Message, 1)
		go func() { ch <- rq.Response() }()
		select {
		case resp = <-ch:
		case <-time.After(c14BlipWatchdog):
			run.Inconclusive("blip: no answer to subChanges within the watchdog")
			return true
		}
		if resp.Type() != blip.ErrorType {
			break
		}
		eb, _ := resp.Body()
		// the previous one-shot subscription may not have been torn down yet
		if attempt < 400 && bytes.Contains(eb, []byte("outstanding subChanges")) {
			time.Sleep(5 * time.Millisecond)
			continue
		}
		run.Inconclusive("blip: subChanges rejected: " + c14Trunc(string(eb), 100))
		return true
	}
	if !b.waitPull() {
		return true
	}
	b.mu.Lock()
	failed, revAtts, received := b.failed, b.revAtts, b.received
	b.mu.Unlock()
	if failed {
		return false
	}
	if received == 0 {
		h.violation("blip", b.sig("document-not-sent-on-pull"), fmt.Sprintf("one-shot pull of %s delivered no rev", d.ID), nil)
		return false
	}
	run.Count("blip_pulls_completed", 1)
	b.mu.Lock()
	answered := b.answered
	b.mu.Unlock()
	if revAtts == 0 || answered == 0 {
		return true
	}
	if answered == 2 {
		run.Count("blip_revs_with_attachments_answered_with_an_error", 1)
		run.Count(fmt.Sprintf("blip_revs_with_attachments_answered_with_an_error.%d", errCode), 1)
	} else {
		run.Count("blip_revs_with_attachments_accepted", 1)
	}
	// state predicate: the server has processed the answer to the rev (statistic bumped just before the allowance is withdrawn)
	deadline := time.Now().Add(c14BlipWatchdog)
	for stat.Value() <= base0 {
		if time.Now().After(deadline) {
			run.Inconclusive("blip: the server did not account the answered rev within the watchdog")
			return true
		}
		time.Sleep(time.Millisecond)
	}
	w := d.winner()
	for _, ci := range w.Atts {
		c := h.cs[ci]
		// the withdrawal follows the statistic by a few instructions on the server's goroutine: allow a bounded number of re-probes
		refused := false
		for i := 0; i < 600 && !refused; i++ {
			_, isErr, _, ok := b.getAttachment(d.ID, c.Digest)
			if !ok {
				return true
			}
			refused = isErr
			if !refused {
				run.Count("getattachment_reprobes_after_completion", 1)
				time.Sleep(5 * time.Millisecond)
			}
		}
		if !refused {
			h.violation("blip", b.sig("getAttachment-served-"+phase),
				fmt.Sprintf("getAttachment(docID=%s, digest=%s) is still served after the rev %s was answered (client's answer: error code %d, 0 = accepted) and the server accounted the answer (600 probes)", d.ID, c.Digest, w.ID, errCode),
				map[string]any{"docID": d.ID, "digest": c.Digest, "protocol": b.proto, "client_answer_to_the_rev_error_code": errCode})
			return false
		}
		run.Count("getattachment_refused_as_required."+phase, 1)
	}
	return true
}

// blipCheck pulls both documents over a fresh connection.
func (h *c14Hist) blipCheck(proto string) bool {
	e := h.e
	bt, err := createBlipTesterWithSpec(e.rt, BlipTesterSpec{connectingUsername: c14BlipUser, blipProtocols: []string{proto}})
	if err != nil || bt == nil {
		e.run.Inconclusive("blip: connect failed")
		e.run.Note("blip connect %s: %v", proto, err)
		return true
	}
	bt.avoidRestTesterClose = true
	defer bt.sender.Close()
	e.run.Count("blip_connections", 1)
	b := &c14Blip{h: h, bt: bt, proto: proto}
	b.install()
	for _, d := range h.docs {
		if len(d.Revs) == 0 {
			continue
		}
		if !b.pullDoc(d) {
			return false
		}
	}
	return true
}

func TestVerif_C14_Blip(t *testing.T) {
	run := vlib.Start(t, "C14", "blip")
	defer run.Finish()
	base.SetUpTestLogging(t, base.LevelWarn, base.KeyNone) // request-level logging of ~100 000 reads only slows the run down
	nHist := run.N(40, 600)
	steps := 8
	e := c14NewEnv(t, run)
	defer e.rt.Close()
	e.rt.CreateUser(c14BlipUser, []string{"*"})
	e.mu.Lock()
	e.gid = base.VerifGoroutineID()
	e.mu.Unlock()
	protos := []string{db.CBMobileReplicationV3.SubprotocolString(), db.CBMobileReplicationV4.SubprotocolString()}
	for i := 0; i < nHist; i++ {
		if only, ok := run.OnlyCase(); ok && only != i {
			continue
		}
		r := run.CaseRand(i)
		mode := c14PickMode(r)
		mode.ECCV = false
		h := e.newHist(i, r, mode, false, "b")
		proto := protos[i%len(protos)]
		for s := 0; s < steps && !h.violated; s++ {
			d := vlib.Pick(r, h.docs)
			op := h.genOp(d)
			if !h.execute(s, op) || !h.check() {
				break
			}
			if s%2 == 1 || s == steps-1 {
				h.e.vs.logOn.Store(false)
				ok := h.blipCheck(proto)
				h.e.vs.logOn.Store(true)
				h.trace = append(h.trace, map[string]any{"step": s, "op": "blip-pull-of-both-documents", "protocol": proto})
				if !ok {
					break
				}
				// a pull must not disturb later reads
				h.lastOp = &c14Op{Kind: "blip-pull", Role: "winner"}
				h.lastShape, h.lastHazard = "blip-pull-of-both-documents", ""
				if !h.check() {
					break
				}
			}
		}
		h.finish()
	}
}
