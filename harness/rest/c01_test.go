//go:build verif

package rest

import (
	"encoding/json"
	"fmt"
	"net/url"
	"sort"
	"strings"
	"testing"
	"time"

	"github.com/couchbase/sync_gateway/base"
	"github.com/couchbase/sync_gateway/db"
	"verif/vlib"
)

// C01 at the REST boundary (rest/changes_api.go): rows and last_seq of GET / POST /{ks}/_changes.
//
// A generated serial history (create / update / move / delete / resurrect over 6 documents x channels A,B,C) is
// written through the admin API to a database with a tiny or a default channel cache. At two checkpoints (change
// cache caught up) every requester (admin, uA, uAB, uStar, uNone) x channel filter x active_only asks for the feed:
//
//   R1 structure     rows strictly increasing under SequenceID.Before, no sequence twice, last_seq = the last row's
//                    sequence (the since value when there is no row)
//   R2 model         since=0: the current revision of every visible document is a row at its current sequence; a row
//                    that is neither deleted nor a removal is such a current revision; every row's document was at some
//                    time in a visible requested channel; active_only = exactly the visible current revisions
//   R3 paging        limit=1,2,3 following last_seq page by page = the unlimited answer
//   R4 resume        since = the sequence of row i = the rows after i, for every i; since=last_seq = nothing
//   R5 transport     POST body = GET query; feed=longpoll with changes pending = feed=normal
//   R6 cache state   after the channel cache was flushed (listener restarted) the same answers again
//   R7 long-poll     a long-poll parked at last_seq returns exactly the next visible write (bounded by the request's own
//                    timeout; a timeout is inconclusive)

const c01rSyncFn = `function(doc, oldDoc){ channel(doc.ch); }`

type c01rVer struct {
	Seq     uint64
	Rev     string
	Ch      []string
	Deleted bool
}

type c01rDoc struct {
	ID   string
	Hist []c01rVer
}

func (d *c01rDoc) cur() *c01rVer {
	if len(d.Hist) == 0 {
		return nil
	}
	return &d.Hist[len(d.Hist)-1]
}

type c01rRow struct {
	Seq string
	ID  string
	Rev string
	Del bool
	Rem string
}

func (r c01rRow) String() string {
	s := fmt.Sprintf("%s %s %s", r.Seq, r.ID, r.Rev)
	if r.Del {
		s += " del"
	}
	if r.Rem != "" {
		s += " rm[" + r.Rem + "]"
	}
	return s
}

func c01rList(rows []c01rRow) string {
	out := make([]string, len(rows))
	for i, r := range rows {
		out[i] = r.String()
	}
	return "[" + strings.Join(out, "; ") + "]"
}

func c01rSame(a, b []c01rRow) bool {
	if len(a) != len(b) {
		return false
	}
	for i := range a {
		if a[i] != b[i] {
			return false
		}
	}
	return true
}

type c01rReq struct {
	User   string
	Chans  []string // nil: no filter
	Active bool
	Since  string
	Limit  int
	Post   bool
	Feed   string
}

func (q c01rReq) String() string {
	return fmt.Sprintf("user=%s channels=%v active_only=%v since=%q limit=%d post=%v feed=%q", q.User, q.Chans, q.Active, q.Since, q.Limit, q.Post, q.Feed)
}

type c01rH struct {
	t     *testing.T
	run   *vlib.Run
	idx   int
	r     *vlib.Rand
	rt    *RestTester
	docs  map[string]*c01rDoc
	ids   []string
	ops   []string
	state string
	conf  string
}

var c01rUsers = map[string][]string{"uA": {"A"}, "uAB": {"A", "B"}, "uStar": {"*"}, "uNone": {}}
var c01rChans = []string{"A", "B", "C"}

func (h *c01rH) wit(extra map[string]any) map[string]any {
	w := map[string]any{"case": h.idx, "seed": h.run.Seed, "sync_fn": c01rSyncFn, "db_config": h.conf, "cache_state": h.state, "admin_api_writes": h.ops, "users": c01rUsers}
	for k, v := range extra {
		w[k] = v
	}
	return w
}

func (h *c01rH) fetch(q c01rReq) (rows []c01rRow, lastSeq string, ok bool) {
	var resp *TestResponse
	path := "/{{.keyspace}}/_changes"
	if q.Post {
		body := map[string]any{}
		if q.Since != "" {
			body["since"] = q.Since
		}
		if q.Limit > 0 {
			body["limit"] = q.Limit
		}
		if q.Active {
			body["active_only"] = true
		}
		if q.Chans != nil {
			body["filter"] = "sync_gateway/bychannel"
			body["channels"] = strings.Join(q.Chans, ",")
		}
		if q.Feed != "" {
			body["feed"] = q.Feed
			body["timeout"] = 20000
		}
		b, _ := json.Marshal(body)
		if q.User == "admin" {
			resp = h.rt.SendAdminRequest("POST", path, string(b))
		} else {
			resp = h.rt.SendUserRequest("POST", path, string(b), q.User)
		}
	} else {
		v := url.Values{}
		if q.Since != "" {
			v.Set("since", q.Since)
		}
		if q.Limit > 0 {
			v.Set("limit", fmt.Sprint(q.Limit))
		}
		if q.Active {
			v.Set("active_only", "true")
		}
		if q.Chans != nil {
			v.Set("filter", "sync_gateway/bychannel")
			v.Set("channels", strings.Join(q.Chans, ","))
		}
		if q.Feed != "" {
			v.Set("feed", q.Feed)
			v.Set("timeout", "20000")
		}
		if enc := v.Encode(); enc != "" {
			path += "?" + enc
		}
		if q.User == "admin" {
			resp = h.rt.SendAdminRequest("GET", path, "")
		} else {
			resp = h.rt.SendUserRequest("GET", path, "", q.User)
		}
	}
	h.run.Count("requests", 1)
	if resp.Code != 200 {
		h.run.Violation("request", "C01|rest|changes-request-failed", fmt.Sprintf("%s: HTTP %d %s", q, resp.Code, resp.Body.String()), h.wit(map[string]any{"request": q.String()}))
		return nil, "", false
	}
	var parsed struct {
		Results []struct {
			Seq     json.RawMessage     `json:"seq"`
			ID      string              `json:"id"`
			Deleted bool                `json:"deleted"`
			Removed []string            `json:"removed"`
			Changes []map[string]string `json:"changes"`
		} `json:"results"`
		LastSeq json.RawMessage `json:"last_seq"`
	}
	if err := json.Unmarshal(resp.Body.Bytes(), &parsed); err != nil {
		h.run.Violation("request", "C01|rest|changes-response-is-not-valid-json", fmt.Sprintf("%s: %v: %s", q, err, resp.Body.String()), h.wit(map[string]any{"request": q.String()}))
		return nil, "", false
	}
	for _, e := range parsed.Results {
		row := c01rRow{Seq: strings.Trim(string(e.Seq), `"`), ID: e.ID, Del: e.Deleted}
		if len(e.Changes) > 0 {
			row.Rev = e.Changes[0]["rev"]
		}
		sort.Strings(e.Removed)
		row.Rem = strings.Join(e.Removed, ",")
		rows = append(rows, row)
	}
	return rows, strings.Trim(string(parsed.LastSeq), `"`), true
}

func (h *c01rH) waitAll() {
	h.rt.WaitForPendingChanges()
}

func (h *c01rH) write() {
	r := h.r
	d := h.docs[vlib.Pick(r, h.ids)]
	cur := d.cur()
	var ch []string
	for _, c := range c01rChans {
		if r.Chance(2, 5) {
			ch = append(ch, c)
		}
	}
	marker := fmt.Sprintf("m%d", len(h.ops))
	chJSON, _ := json.Marshal(ch)
	if ch == nil {
		chJSON = []byte("[]")
	}
	var resp *TestResponse
	var what string
	del := false
	switch {
	case cur == nil:
		what = fmt.Sprintf("PUT %s ch=%v", d.ID, ch)
		resp = h.rt.SendAdminRequest("PUT", "/{{.keyspace}}/"+d.ID, fmt.Sprintf(`{"ch":%s,"m":%q}`, chJSON, marker))
	case !cur.Deleted && r.Chance(1, 6):
		what = fmt.Sprintf("DELETE %s rev=%s", d.ID, cur.Rev)
		resp = h.rt.SendAdminRequest("DELETE", "/{{.keyspace}}/"+d.ID+"?rev="+cur.Rev, "")
		del = true
	default:
		what = fmt.Sprintf("PUT %s rev=%s ch=%v", d.ID, cur.Rev, ch)
		resp = h.rt.SendAdminRequest("PUT", "/{{.keyspace}}/"+d.ID+"?rev="+cur.Rev, fmt.Sprintf(`{"ch":%s,"m":%q}`, chJSON, marker))
	}
	if resp.Code != 200 && resp.Code != 201 {
		h.ops = append(h.ops, what+fmt.Sprintf(" -> HTTP %d", resp.Code))
		h.run.Count("writes_rejected", 1)
		return
	}
	var out struct {
		Rev string `json:"rev"`
	}
	_ = json.Unmarshal(resp.Body.Bytes(), &out)
	coll, ctx := h.rt.GetSingleTestDatabaseCollection()
	doc, err := coll.GetDocument(ctx, d.ID, db.DocUnmarshalSync)
	if err != nil || doc == nil {
		h.t.Errorf("case %d: reading back %s: %v", h.idx, d.ID, err)
		return
	}
	v := c01rVer{Seq: doc.Sequence, Rev: out.Rev, Deleted: del}
	if !del {
		v.Ch = ch
	}
	d.Hist = append(d.Hist, v)
	h.ops = append(h.ops, fmt.Sprintf("%s -> rev %s seq %d", what, out.Rev, doc.Sequence))
	h.run.Count("writes", 1)
}

func c01rAllowed(user string, filter []string) (allowed map[string]bool, star bool) {
	allowed = map[string]bool{}
	fstar := filter == nil
	for _, f := range filter {
		if f == "*" {
			fstar = true
		}
	}
	if user == "admin" {
		if fstar {
			return allowed, true
		}
		for _, f := range filter {
			allowed[f] = true
		}
		return allowed, false
	}
	ustar := false
	for _, c := range c01rUsers[user] {
		if c == "*" {
			ustar = true
		}
	}
	switch {
	case ustar && fstar:
		return allowed, true
	case ustar:
		for _, f := range filter {
			allowed[f] = true
		}
	case fstar:
		for _, c := range c01rUsers[user] {
			allowed[c] = true
		}
	default:
		have := map[string]bool{}
		for _, c := range c01rUsers[user] {
			have[c] = true
		}
		for _, f := range filter {
			if have[f] {
				allowed[f] = true
			}
		}
	}
	return allowed, false
}

func c01rVisible(v *c01rVer, allowed map[string]bool, star bool) bool {
	if v == nil || v.Deleted {
		return false
	}
	if star {
		return true
	}
	for _, c := range v.Ch {
		if allowed[c] {
			return true
		}
	}
	return false
}

func (h *c01rH) judge(q c01rReq, rows []c01rRow, lastSeq string) {
	extra := func() map[string]any { return map[string]any{"request": q.String(), "response": c01rList(rows), "last_seq": lastSeq} }
	// R1
	var prev db.SequenceID
	for i, row := range rows {
		s, err := db.ParsePlainSequenceID(row.Seq)
		if err != nil {
			h.run.Violation("structure", "C01|rest|row-sequence-does-not-parse", fmt.Sprintf("%s: %q: %v", q, row.Seq, err), h.wit(extra()))
			return
		}
		if i > 0 && !prev.Before(s) {
			h.run.Violation("structure", "C01|rest|rows-not-strictly-increasing", fmt.Sprintf("%s: %s after %s", q, row, rows[i-1]), h.wit(extra()))
		}
		prev = s
	}
	want := q.Since
	if want == "" {
		want = "0"
	}
	if len(rows) > 0 {
		want = rows[len(rows)-1].Seq
	}
	if lastSeq != want {
		h.run.Violation("structure", "C01|rest|last_seq-is-not-the-last-rows-sequence", fmt.Sprintf("%s: last_seq %q, expected %q", q, lastSeq, want), h.wit(extra()))
	}
	// R2 (since = 0, no limit)
	if q.Since != "" || q.Limit != 0 {
		return
	}
	allowed, star := c01rAllowed(q.User, q.Chans)
	byDoc := map[string][]c01rRow{}
	for _, row := range rows {
		byDoc[row.ID] = append(byDoc[row.ID], row)
	}
	for _, id := range h.ids {
		d := h.docs[id]
		cur := d.cur()
		h.run.Count("model_obligations", 1)
		if c01rVisible(cur, allowed, star) {
			found := false
			for _, row := range byDoc[id] {
				if row.Rev == cur.Rev && !row.Del && row.Seq == fmt.Sprint(cur.Seq) {
					found = true
				}
			}
			if !found {
				h.run.Violation("model", "C01|rest|model|visible-current-revision-missing", fmt.Sprintf("%s: %s (seq %d rev %s channels %v) has no row", q, id, cur.Seq, cur.Rev, cur.Ch), h.wit(extra()))
			}
		}
	}
	for _, row := range rows {
		if strings.HasPrefix(row.ID, "_user/") || strings.HasPrefix(row.ID, "_role/") {
			continue
		}
		d := h.docs[row.ID]
		ever := false
		var at *c01rVer
		if d != nil {
			for j := range d.Hist {
				if c01rVisible(&d.Hist[j], allowed, star) {
					ever = true
				}
				if fmt.Sprint(d.Hist[j].Seq) == row.Seq {
					at = &d.Hist[j]
				}
			}
		}
		switch {
		case d == nil || !ever:
			h.run.Violation("model", "C01|rest|model|row-for-document-never-in-visible-requested-channel", fmt.Sprintf("%s: row %s", q, row), h.wit(extra()))
		case at == nil:
			h.run.Violation("model", "C01|rest|model|row-sequence-is-not-a-change-of-that-document", fmt.Sprintf("%s: row %s", q, row), h.wit(extra()))
		case at.Rev != row.Rev:
			h.run.Violation("model", "C01|rest|model|row-revision-is-not-the-revision-at-that-sequence", fmt.Sprintf("%s: row %s, document had %s", q, row, at.Rev), h.wit(extra()))
		case !row.Del && row.Rem == "" && !(at.Seq == d.cur().Seq && c01rVisible(at, allowed, star)):
			h.run.Violation("model", "C01|rest|model|live-row-is-not-a-visible-current-revision", fmt.Sprintf("%s: row %s, document now %+v", q, row, *d.cur()), h.wit(extra()))
		case q.Active && (row.Del || !c01rVisible(d.cur(), allowed, star)):
			h.run.Violation("model", "C01|rest|model|active_only-row-for-deleted-or-removed-document", fmt.Sprintf("%s: row %s", q, row), h.wit(extra()))
		}
	}
}

func (h *c01rH) expect(kind string, q c01rReq, got, want []c01rRow) {
	h.run.Count("comparisons", 1)
	h.run.Count("comparisons."+kind, 1)
	if c01rSame(got, want) {
		return
	}
	uclass := q.User
	fclass := "no-filter"
	if q.Chans != nil {
		fclass = "bychannel"
	}
	h.run.Violation("differential", fmt.Sprintf("C01|rest|%s|differs-from-reference|user=%s|filter=%s|active_only=%v|cache=%s", kind, uclass, fclass, q.Active, h.state),
		fmt.Sprintf("%s:\n got  %s\n want %s", q, c01rList(got), c01rList(want)), h.wit(map[string]any{"request": q.String(), "got": c01rList(got), "want": c01rList(want)}))
}

func (h *c01rH) family(user string, chans []string, active bool, full bool) []c01rRow {
	base0 := c01rReq{User: user, Chans: chans, Active: active}
	ref, last, ok := h.fetch(base0)
	if !ok {
		return nil
	}
	h.judge(base0, ref, last)
	if !full {
		return ref
	}
	// R5 transport
	qp := base0
	qp.Post = true
	if rows, l, ok := h.fetch(qp); ok {
		h.judge(qp, rows, l)
		h.expect("post-body", qp, rows, ref)
	}
	if len(ref) > 0 {
		ql := base0
		ql.Feed = "longpoll"
		if rows, l, ok := h.fetch(ql); ok {
			h.judge(ql, rows, l)
			h.expect("longpoll-with-pending-changes", ql, rows, ref)
		}
	}
	// R3 paging
	for _, lim := range []int{1, 2, 3} {
		var all []c01rRow
		since := ""
		for page := 0; page < len(ref)+3; page++ {
			q := base0
			q.Since, q.Limit = since, lim
			q.Post = h.r.Chance(1, 3)
			rows, l, ok := h.fetch(q)
			if !ok {
				break
			}
			h.judge(q, rows, l)
			if len(rows) > lim {
				h.run.Violation("structure", "C01|rest|page-longer-than-limit", fmt.Sprintf("%s: %d rows", q, len(rows)), h.wit(map[string]any{"request": q.String(), "response": c01rList(rows)}))
			}
			if len(rows) == 0 {
				break
			}
			all = append(all, rows...)
			since = l
			h.run.Count("pages", 1)
		}
		q := base0
		q.Limit = lim
		h.expect(fmt.Sprintf("paged-by-last_seq"), q, all, ref)
	}
	// R4 resume
	for i := range ref {
		q := base0
		q.Since = ref[i].Seq
		rows, l, ok := h.fetch(q)
		if !ok {
			continue
		}
		h.judge(q, rows, l)
		h.expect("resume-from-row-sequence", q, rows, ref[i+1:])
	}
	if last != "" {
		q := base0
		q.Since = last
		if rows, l, ok := h.fetch(q); ok {
			h.judge(q, rows, l)
			h.expect("resume-from-last_seq", q, rows, nil)
		}
	}
	return ref
}

func (h *c01rH) checkpoint() {
	h.waitAll()
	type key struct {
		user   string
		chans  string
		active bool
	}
	refs := map[key][]c01rRow{}
	filters := [][]string{nil, {"A"}, {"B", "C"}, {"A", "B", "C"}, {"*"}}
	users := []string{"admin", "uA", "uAB", "uStar", "uNone"}
	h.state = "as-left-by-history"
	for _, u := range users {
		for fi, f := range filters {
			for _, active := range []bool{false, true} {
				full := fi == 0 || h.r.Chance(1, 3)
				refs[key{u, fmt.Sprint(f), active}] = h.family(u, f, active, full)
			}
		}
	}
	// R6: cold cache
	h.rt.GetDatabase().FlushChannelCache(h.t)
	h.waitAll()
	h.state = "channel-cache-flushed"
	for _, u := range users {
		for fi, f := range filters {
			for _, active := range []bool{false, true} {
				full := fi == 0 && h.r.Chance(1, 2)
				got := h.family(u, f, active, full)
				h.expect("cold-cache", c01rReq{User: u, Chans: f, Active: active}, got, refs[key{u, fmt.Sprint(f), active}])
			}
		}
	}
	h.state = "as-left-by-history"
}

// R7: a long-poll parked at last_seq returns the next visible write
func (h *c01rH) longpoll() {
	for _, u := range []string{"uA", "uAB", "uStar"} {
		_, last, ok := h.fetch(c01rReq{User: u})
		if !ok {
			continue
		}
		type res struct {
			rows []c01rRow
			last string
			ok   bool
		}
		ch := make(chan res, 1)
		q := c01rReq{User: u, Since: last, Feed: "longpoll"}
		go func() {
			rows, l, ok := h.fetch(q)
			ch <- res{rows, l, ok}
		}()
		// give the request a chance to park; whether it has parked or not does not change what it must return
		time.Sleep(time.Duration(h.r.Intn(20)) * time.Millisecond)
		id := fmt.Sprintf("lp%d%s", h.idx, u)
		resp := h.rt.SendAdminRequest("PUT", "/{{.keyspace}}/"+id, `{"ch":["A"],"m":"lp"}`)
		if resp.Code != 201 {
			h.t.Errorf("longpoll write: %d", resp.Code)
		}
		var out struct {
			Rev string `json:"rev"`
		}
		_ = json.Unmarshal(resp.Body.Bytes(), &out)
		h.ops = append(h.ops, fmt.Sprintf("PUT %s ch=[A] -> rev %s (while %s long-polls from %s)", id, out.Rev, u, last))
		select {
		case r := <-ch:
			if !r.ok {
				continue
			}
			h.run.Count("longpolls", 1)
			if len(r.rows) == 0 {
				h.run.Inconclusive("long-poll returned without rows (its 20 s timeout) although a visible write was made")
				continue
			}
			if len(r.rows) != 1 || r.rows[0].ID != id || r.rows[0].Rev != out.Rev || r.last != r.rows[0].Seq {
				h.run.Violation("bounded-delivery", "C01|rest|longpoll-parked-at-last_seq-returned-something-else-than-the-next-visible-write", fmt.Sprintf("%s: rows %s last_seq %q; the write was %s rev %s", q, c01rList(r.rows), r.last, id, out.Rev), h.wit(map[string]any{"request": q.String()}))
			}
		case <-time.After(60 * time.Second):
			h.run.Inconclusive("long-poll did not return within the watchdog")
		}
	}
}

// R8: request_plus=true — a one-shot request issued right after acknowledged writes (no wait for the cache) contains them
func (h *c01rH) requestPlus() {
	for round := 0; round < 3; round++ {
		var want []string
		n := h.r.Range(2, 5)
		for k := 0; k < n; k++ {
			id := fmt.Sprintf("rp%d_%d_%d", h.idx, round, k)
			resp := h.rt.SendAdminRequest("PUT", "/{{.keyspace}}/"+id, `{"ch":["A"],"m":"rp"}`)
			if resp.Code != 201 {
				h.t.Errorf("request_plus write: %d", resp.Code)
				continue
			}
			var out struct {
				Rev string `json:"rev"`
			}
			_ = json.Unmarshal(resp.Body.Bytes(), &out)
			want = append(want, id+"|"+out.Rev)
			h.ops = append(h.ops, fmt.Sprintf("PUT %s ch=[A] -> rev %s (not waited for)", id, out.Rev))
		}
		u := vlib.Pick(h.r, []string{"uA", "uAB", "uStar", "admin"})
		post := h.r.Bool()
		var resp *TestResponse
		if post {
			body := `{"request_plus":true}`
			if u == "admin" {
				resp = h.rt.SendAdminRequest("POST", "/{{.keyspace}}/_changes", body)
			} else {
				resp = h.rt.SendUserRequest("POST", "/{{.keyspace}}/_changes", body, u)
			}
		} else if u == "admin" {
			resp = h.rt.SendAdminRequest("GET", "/{{.keyspace}}/_changes?request_plus=true", "")
		} else {
			resp = h.rt.SendUserRequest("GET", "/{{.keyspace}}/_changes?request_plus=true", "", u)
		}
		h.run.Count("request_plus_requests", 1)
		if resp.Code != 200 {
			h.run.Violation("request", "C01|rest|changes-request-failed", fmt.Sprintf("request_plus as %s: HTTP %d %s", u, resp.Code, resp.Body.String()), h.wit(nil))
			continue
		}
		var parsed struct {
			Results []struct {
				ID      string              `json:"id"`
				Changes []map[string]string `json:"changes"`
			} `json:"results"`
		}
		_ = json.Unmarshal(resp.Body.Bytes(), &parsed)
		have := map[string]bool{}
		for _, e := range parsed.Results {
			if len(e.Changes) > 0 {
				have[e.ID+"|"+e.Changes[0]["rev"]] = true
			}
		}
		for _, w := range want {
			h.run.Count("request_plus_obligations", 1)
			if !have[w] {
				h.run.Violation("request-plus", "C01|rest|request_plus|acknowledged-visible-write-missing-from-response", fmt.Sprintf("user=%s post=%v: write %s was acknowledged before the request was issued and is visible to the user, but is not in the response %s", u, post, w, resp.Body.String()), h.wit(nil))
			}
		}
	}
	h.waitAll()
}

func c01rCase(t *testing.T, run *vlib.Run, idx int) {
	r := run.CaseRand(idx)
	maxLen := vlib.Pick(r, []int{1, 2, 3, 50})
	qlimit := vlib.Pick(r, []int{2, 5, 5000})
	cfg := &RestTesterConfig{SyncFn: c01rSyncFn, DatabaseConfig: &DatabaseConfig{DbConfig: DbConfig{
		CacheConfig:          &CacheConfig{ChannelCacheConfig: &ChannelCacheConfig{MaxLength: base.Ptr(maxLen), MinLength: base.Ptr(1)}},
		QueryPaginationLimit: base.Ptr(qlimit),
	}}}
	rt := NewRestTester(t, cfg)
	defer rt.Close()
	h := &c01rH{t: t, run: run, idx: idx, r: r, rt: rt, docs: map[string]*c01rDoc{}, conf: fmt.Sprintf("channel_cache.max_length=%d min_length=1 query_pagination_limit=%d", maxLen, qlimit)}
	for _, u := range []string{"uA", "uAB", "uStar", "uNone"} {
		rt.CreateUser(u, c01rUsers[u])
	}
	for i := 0; i < 6; i++ {
		id := fmt.Sprintf("d%d", i)
		h.ids = append(h.ids, id)
		h.docs[id] = &c01rDoc{ID: id}
	}
	n := r.Range(18, 26)
	for k := 0; k < n; k++ {
		h.write()
		if k == n/2 {
			h.checkpoint()
		}
	}
	h.checkpoint()
	h.longpoll()
	h.requestPlus()
	run.Eval()
	run.Nontrivial(fmt.Sprintf("%d:%d:%d", idx, maxLen, qlimit))
	if idx == 0 {
		run.Sample(h.wit(nil))
	}
}

func TestVerif_C01_Rest(t *testing.T) {
	run := vlib.Start(t, "C01", "rest")
	defer run.Finish()
	n := run.N(12, 200)
	for i := 0; i < n; i++ {
		if only, ok := run.OnlyCase(); ok && only != i {
			continue
		}
		c01rCase(t, run, i)
	}
}
