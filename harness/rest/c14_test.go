//go:build verif

package rest

// C14 — attachments stay intact and live exactly as long as a revision needs them.
//
// A harness-side model keeps, per document, the revision tree with a per-revision attachment map
// (name -> content). Seeded histories of writes (add / keep-as-stub / replace / drop across linear
// updates, conflicting branches pushed with new_edits=false, tombstones, resurrections, pruning) are
// executed through the REST API of a RestTester whose bucket is a VerifBucket, optionally with a
// compare-and-swap failure forced (without any foreign mutation) in the compute->CAS window of the
// document write. After EVERY write the oracle
//   - reads every live leaf of both documents through every read path (GET doc?rev, GET doc?rev&attachments=true,
//     GET doc/name?rev, and the same without rev for the winner), with the revision cache as the writes left it and
//     flushed, and compares bytes, advertised digest and advertised length with the model;
//   - probes, through the un-hooked store, every attachment data document key that was ever written (H1 log)
//     or that the model expects, and demands: exists <=> referenced by a live leaf of that document.

import (
	"bytes"
	"context"
	"crypto/sha1"
	"crypto/sha256"
	"encoding/base64"
	"encoding/json"
	"fmt"
	"os"
	"sort"
	"strconv"
	"strings"
	"sync"
	"testing"

	"github.com/couchbase/sync_gateway/base"
	"verif/vlib"
)

var c14Names = []string{"a", "b", "c"}

// VERIF_C14_HAZARD=all (development aid, e.g. to evaluate a candidate fix under an overlay): every conflict history may
// contain the write shapes of the open findings, and their violations keep the oracle's detailed signature.
var c14HazardAll = os.Getenv("VERIF_C14_HAZARD") == "all"

type c14Content struct {
	Idx    int
	Class  string // bytes256 | empty | binary | 1MiB
	Data   []byte
	Digest string
	B64    string
}

func c14Digest(b []byte) string {
	s := sha1.Sum(b)
	return "sha1-" + base64.StdEncoding.EncodeToString(s[:])
}

// c14AttKey is the harness' own statement of the (v2) attachment data document key format.
func c14AttKey(docID, digest string) string {
	s := sha256.Sum256([]byte(docID))
	return "_sync:att2:" + base64.StdEncoding.EncodeToString(s[:]) + ":" + digest
}

func c14IsAttKey(k string) bool {
	return strings.HasPrefix(k, "_sync:att2:") || strings.HasPrefix(k, "_sync:att:")
}

func c14RandBytes(r *vlib.Rand, n int) []byte {
	b := make([]byte, n)
	for i := 0; i < n; i += 8 {
		v := r.Uint64()
		for j := 0; j < 8 && i+j < n; j++ {
			b[i+j] = byte(v >> (8 * j))
		}
	}
	return b
}

// c14MakeContents: three contents per history. c0 contains all 256 byte values, c1 is empty in half of the
// histories (otherwise short binary), c2 is binary (1 MiB in the designated history).
func c14MakeContents(r *vlib.Rand, big bool) []*c14Content {
	for {
		var cs []*c14Content
		// c0: all 256 byte values, rotated, repeated
		rot := r.Intn(256)
		rep := r.Range(1, 3)
		b0 := make([]byte, 0, 256*rep+8)
		for k := 0; k < rep; k++ {
			for i := 0; i < 256; i++ {
				b0 = append(b0, byte((i+rot)%256))
			}
		}
		b0 = append(b0, c14RandBytes(r, r.Intn(8))...)
		cs = append(cs, &c14Content{Class: "bytes256", Data: b0})
		if r.Bool() {
			cs = append(cs, &c14Content{Class: "empty", Data: []byte{}})
		} else {
			cs = append(cs, &c14Content{Class: "binary", Data: c14RandBytes(r, r.Range(1, 300))})
		}
		if big {
			cs = append(cs, &c14Content{Class: "1MiB", Data: c14RandBytes(r, 1<<20)})
		} else {
			cs = append(cs, &c14Content{Class: "binary", Data: c14RandBytes(r, r.Range(1, 5000))})
		}
		seen := map[string]bool{}
		ok := true
		for i, c := range cs {
			c.Idx = i
			c.Digest = c14Digest(c.Data)
			c.B64 = base64.StdEncoding.EncodeToString(c.Data)
			if seen[c.Digest] {
				ok = false
			}
			seen[c.Digest] = true
		}
		if ok {
			return cs
		}
	}
}

// ---------------------------------------------------------------------------------------------
// model

type c14Rev struct {
	ID       string
	Gen      int
	Parent   string
	Deleted  bool
	Phantom  bool           // intermediate revision of a new_edits=false push: id only, never had a body
	Atts     map[string]int // name -> content index
	Meta     map[string]map[string]any
	Children int
}

type c14Doc struct {
	ID    string
	Revs  map[string]*c14Rev
	Order []string
}

func c14GenOf(rev string) int {
	i := strings.IndexByte(rev, '-')
	if i <= 0 {
		return 0
	}
	n, _ := strconv.Atoi(rev[:i])
	return n
}

func c14DigestOf(rev string) string {
	i := strings.IndexByte(rev, '-')
	if i < 0 {
		return rev
	}
	return rev[i+1:]
}

func (d *c14Doc) add(id, parent string, deleted, phantom bool, atts map[string]int) *c14Rev {
	rv := &c14Rev{ID: id, Gen: c14GenOf(id), Parent: parent, Deleted: deleted, Phantom: phantom, Atts: atts, Meta: map[string]map[string]any{}}
	if rv.Atts == nil {
		rv.Atts = map[string]int{}
	}
	d.Revs[id] = rv
	d.Order = append(d.Order, id)
	if p := d.Revs[parent]; p != nil {
		p.Children++
	}
	return rv
}

func (d *c14Doc) leaves() []*c14Rev {
	var out []*c14Rev
	for _, id := range d.Order {
		if rv := d.Revs[id]; rv.Children == 0 {
			out = append(out, rv)
		}
	}
	return out
}

func (d *c14Doc) liveLeaves() []*c14Rev {
	var out []*c14Rev
	for _, rv := range d.leaves() {
		if !rv.Deleted {
			out = append(out, rv)
		}
	}
	return out
}

// winner: a live leaf beats a tombstone; then the higher generation; then the greater digest string.
func (d *c14Doc) winner() *c14Rev {
	var w *c14Rev
	for _, rv := range d.leaves() {
		if w == nil {
			w = rv
			continue
		}
		if w.Deleted != rv.Deleted {
			if w.Deleted {
				w = rv
			}
			continue
		}
		if rv.Gen != w.Gen {
			if rv.Gen > w.Gen {
				w = rv
			}
			continue
		}
		if c14DigestOf(rv.ID) > c14DigestOf(w.ID) {
			w = rv
		}
	}
	return w
}

func (d *c14Doc) ancestry(id string, max int) []string {
	var out []string
	for id != "" && len(out) < max {
		rv := d.Revs[id]
		if rv == nil {
			break
		}
		out = append(out, id)
		id = rv.Parent
	}
	return out
}

// referenced: the attachment data keys that a live leaf of the document references, with the content.
func (d *c14Doc) referenced(cs []*c14Content) map[string]int {
	out := map[string]int{}
	for _, rv := range d.liveLeaves() {
		for _, ci := range rv.Atts {
			out[c14AttKey(d.ID, cs[ci].Digest)] = ci
		}
	}
	return out
}

// ---------------------------------------------------------------------------------------------
// environment

type c14Mode struct {
	Conflicts bool
	RevsLimit uint32
	ECCV      bool // cross-cluster versioning flag on: nothing may be cleaned up, only "nothing referenced is missing" is demanded
}

type c14Env struct {
	t   testing.TB
	run *vlib.Run
	vs  *vStore
	rt  *RestTester
	ds  base.DataStore // un-hooked handle of the collection's data store
	ks  string

	mu       sync.Mutex
	gid      uint64
	casMode  string // none | doc1 | doc2 | all | interfere
	casKey   string
	casFired int
	// interfere mode: at attempts 1..raceK of the document write the compute->CAS window performs a complete,
	// acknowledged concurrent write (nested request on the same goroutine) so that the CAS is really lost
	raceK     int
	raceFired int
	interfere func(attempt int)
	nested    bool
}

func c14RawDS(vs *vStore, name string) base.DataStore {
	ctx := context.Background()
	b := vs.tb.Bucket
	if ds := b.DefaultDataStore(ctx); ds.GetName() == name {
		return ds.(base.DataStore)
	}
	names, _ := b.ListDataStores(ctx)
	for _, n := range names {
		if ds, err := b.NamedDataStore(ctx, n); err == nil && ds.GetName() == name {
			return ds.(base.DataStore)
		}
	}
	return nil
}

func c14NewEnv(t testing.TB, run *vlib.Run) *c14Env {
	vs := newVStore(t)
	rt := vs.NewRestTester(t, &RestTesterConfig{})
	_ = rt.Bucket()
	e := &c14Env{t: t, run: run, vs: vs, rt: rt}
	e.ks = rt.GetSingleKeyspace()
	e.ds = c14RawDS(vs, rt.GetSingleDataStore().GetName())
	if e.ds == nil {
		t.Fatalf("C14: un-hooked data store %q not found", rt.GetSingleDataStore().GetName())
	}
	if _, ok := e.ds.(*base.VerifDataStore); ok {
		t.Fatalf("C14: probe handle is hooked")
	}
	if rt.GetDatabase().CachedCCVEnabled.Load() {
		run.Note("cross-cluster versioning flag was on at start; switched off for the check")
		rt.GetDatabase().CachedCCVEnabled.Store(false)
	}
	vs.SetMid(e.mid)
	// warm up outside any history
	if resp := rt.SendAdminRequest("PUT", "/{{.keyspace}}/c14warmup", `{"m":"warmup"}`); resp.Code != 201 {
		t.Fatalf("C14 warmup: %d %s", resp.Code, resp.Body.String())
	}
	vs.ResetLog()
	return e
}

// mid: forced compare-and-swap failure (no foreign mutation) in the compute->CAS window of interactive updates
// issued by the request goroutine.
func (e *c14Env) mid(op *base.VerifOp, actor string) error {
	e.mu.Lock()
	defer e.mu.Unlock()
	if e.gid == 0 || op.Gid != e.gid || e.nested || e.casMode == "" || e.casMode == "none" {
		return nil
	}
	if e.casMode == "interfere" {
		if op.Kind == "WriteUpdateWithXattrs.mid" && op.Key == e.casKey && op.Attempt <= e.raceK && e.interfere != nil {
			fn := e.interfere
			e.nested = true
			e.mu.Unlock()
			fn(op.Attempt)
			e.mu.Lock()
			e.nested = false
			e.raceFired++
		}
		return nil // the compare-and-swap is lost for real: the store reports the mismatch
	}
	fire := false
	switch e.casMode {
	case "doc1":
		fire = op.Key == e.casKey && op.Attempt == 1
	case "doc2":
		fire = op.Key == e.casKey && op.Attempt <= 2
	case "all":
		fire = op.Attempt == 1
	}
	if fire {
		e.casFired++
		return base.ErrCasFailureShouldRetry
	}
	return nil
}

func (e *c14Env) setMode(m c14Mode) {
	dbc := e.rt.GetDatabase()
	dbc.Options.AllowConflicts = base.Ptr(m.Conflicts)
	dbc.RevsLimit = m.RevsLimit
	dbc.CachedCCVEnabled.Store(m.ECCV)
}

type c14Resp struct {
	Code int
	Body []byte
	Hdr  map[string]string
}

func (e *c14Env) req(method, path, body string, hdr map[string]string) c14Resp {
	if hdr == nil {
		hdr = map[string]string{}
	}
	if _, ok := hdr["Accept"]; !ok {
		hdr["Accept"] = "application/json"
	}
	r := e.rt.SendAdminRequestWithHeaders(method, path, body, hdr)
	out := c14Resp{Code: r.Code, Body: append([]byte{}, r.Body.Bytes()...), Hdr: map[string]string{}}
	for _, k := range []string{"Etag", "Content-Length", "Content-Type"} {
		out.Hdr[k] = r.Header().Get(k)
	}
	return out
}

// ---------------------------------------------------------------------------------------------
// one history

type c14Action struct {
	Keep    bool // stub that repeats the parent's attachment of that name
	Content int  // inline data otherwise
}

type c14Op struct {
	Kind    string // create | update | update-ne | branch | tombstone | tombstone-ne | resurrect | putatt | delatt
	Doc     *c14Doc
	Parent  *c14Rev // nil for create
	Role    string  // role of the parent when the op was generated: none | winner | non-winner | non-leaf | tombstone
	Actions map[string]c14Action
	Name    string   // putatt / delatt
	Content int      // putatt
	NewRev  string   // new_edits=false: the pushed revision id
	Inter   []string // new_edits=false: intermediate (unknown to the server) revision ids, newest first
	// Racers: concurrent pushes (oldest first) committed in the compute->CAS window of this push; racer j pushes the
	// revision Inter[len-1-j] (child of the previous racer / of Parent), so this push is still valid when it is retried.
	Racers []*c14Op
}

type c14Hist struct {
	e          *c14Env
	idx        int
	mode       c14Mode
	r          *vlib.Rand
	cs         []*c14Content
	docs       []*c14Doc
	keys       map[string]bool // attachment data document keys ever written in this history (H1 log)
	trace      []map[string]any
	lastOp     *c14Op
	lastCas    string
	hazard     bool   // this history may contain the write shapes of the open findings (see c14Hazard)
	scenario   string // hand-written history (scenario part)
	noCas      bool   // no forced CAS retries in this history
	lastShape  string // op@parent-role:outcome of the last write
	lastHazard string // non-empty: the last write has the shape of an open finding
	shape      []string
	stats      struct{ stubs, replaced, dropped, multiLeaf, expectedDeletions, sharedKept, retried int }
	violated   bool
	verdict    string // first oracle verdict of this history
}

func (h *c14Hist) role(d *c14Doc, rv *c14Rev) string {
	if rv == nil {
		return "none"
	}
	if rv.Children > 0 {
		return "non-leaf"
	}
	if rv.Deleted {
		return "tombstone"
	}
	if w := d.winner(); w != nil && w.ID == rv.ID {
		return "winner"
	}
	return "non-winner"
}

func (h *c14Hist) genActions(parent *c14Rev, allowStub bool, forceSome bool) map[string]c14Action {
	r := h.r
	acts := map[string]c14Action{}
	for _, name := range c14Names {
		has := false
		if parent != nil {
			_, has = parent.Atts[name]
		}
		if has {
			x := r.Intn(100)
			switch {
			case allowStub && x < 50:
				acts[name] = c14Action{Keep: true}
			case x < 75:
				acts[name] = c14Action{Content: r.Intn(len(h.cs))}
			default: // drop
			}
		} else if r.Chance(35, 100) {
			acts[name] = c14Action{Content: r.Intn(len(h.cs))}
		}
	}
	if forceSome && len(acts) == 0 {
		acts[vlib.Pick(r, c14Names)] = c14Action{Content: r.Intn(len(h.cs))}
	}
	return acts
}

func (h *c14Hist) randDigest() string {
	return fmt.Sprintf("%016x", h.r.Uint64())
}

func (h *c14Hist) genOpRaw(d *c14Doc) *c14Op {
	r := h.r
	if len(d.Revs) == 0 {
		return &c14Op{Kind: "create", Doc: d, Role: "none", Actions: h.genActions(nil, false, true)}
	}
	live := d.liveLeaves()
	w := d.winner()
	if len(live) == 0 {
		if h.mode.Conflicts && r.Chance(25, 100) {
			return h.genBranch(d)
		}
		return &c14Op{Kind: "resurrect", Doc: d, Parent: w, Role: "tombstone", Actions: h.genActions(nil, false, r.Chance(80, 100))}
	}
	leaf := w
	if h.mode.Conflicts {
		leaf = vlib.Pick(r, live)
	}
	x := r.Intn(100)
	var op *c14Op
	switch {
	case x < 40:
		op = &c14Op{Kind: "update", Doc: d, Parent: leaf, Actions: h.genActions(leaf, true, false)}
	case x < 50:
		op = &c14Op{Kind: "update-ne", Doc: d, Parent: leaf, Actions: h.genActions(leaf, true, false), NewRev: ""}
		k := 0
		if r.Chance(30, 100) {
			k = r.Range(1, 25)
		}
		for i := 0; i < k; i++ {
			op.Inter = append(op.Inter, h.randDigest())
		}
		op.NewRev = fmt.Sprintf("%d-%s", leaf.Gen+1+k, h.randDigest())
		// newest first
		for i := range op.Inter {
			op.Inter[i] = fmt.Sprintf("%d-%s", leaf.Gen+k-i, op.Inter[i])
		}
		if leaf.ID == w.ID && r.Chance(45, 100) {
			h.makeRaced(op, r.Range(1, 2), h.genActions(leaf, true, true), h.genActions(nil, false, false))
		}
	case x < 60:
		op = &c14Op{Kind: "putatt", Doc: d, Parent: leaf, Name: vlib.Pick(r, c14Names), Content: r.Intn(len(h.cs))}
	case x < 68:
		if len(leaf.Atts) == 0 {
			op = &c14Op{Kind: "update", Doc: d, Parent: leaf, Actions: h.genActions(leaf, true, true)}
		} else {
			names := make([]string, 0, len(leaf.Atts))
			for n := range leaf.Atts {
				names = append(names, n)
			}
			sort.Strings(names)
			op = &c14Op{Kind: "delatt", Doc: d, Parent: leaf, Name: vlib.Pick(r, names)}
		}
	case x < 80:
		if r.Chance(30, 100) {
			op = &c14Op{Kind: "tombstone-ne", Doc: d, Parent: leaf, NewRev: fmt.Sprintf("%d-%s", leaf.Gen+1, h.randDigest())}
		} else {
			op = &c14Op{Kind: "tombstone", Doc: d, Parent: leaf}
		}
	default:
		if h.mode.Conflicts {
			return h.genBranch(d)
		}
		op = &c14Op{Kind: "update", Doc: d, Parent: leaf, Actions: h.genActions(leaf, true, false)}
	}
	op.Role = h.role(d, op.Parent)
	return op
}

// makeRaced turns a push onto leaf op.Parent into a push that loses its compare-and-swap k times to concurrent,
// acknowledged pushes of the revisions in between (the pushed history names them, so the retried push is still
// valid). The first concurrent push may repeat the leaf's attachments as stubs; the others and the push itself
// carry inline data only (the revision they build on is not on the server when the client composes them).
func (h *c14Hist) makeRaced(op *c14Op, k int, first, own map[string]c14Action) {
	op.Kind = "update-ne"
	h.setPushedRev(op, k)
	op.Actions = own
	op.Racers = nil
	for j := 0; j < k; j++ {
		rc := &c14Op{Kind: "update-ne", Doc: op.Doc, NewRev: op.Inter[k-1-j]}
		if j == 0 {
			rc.Actions = first
		} else {
			rc.Actions = h.genActions(nil, false, true)
		}
		op.Racers = append(op.Racers, rc)
	}
}

// predict: outcome of the write for the winner. "unknown" when it depends on a revision id the server makes up.
func (h *c14Hist) predict(op *c14Op) string {
	d := op.Doc
	w := d.winner()
	tomb := op.Kind == "tombstone" || op.Kind == "tombstone-ne"
	if w == nil || w.Deleted {
		if tomb {
			return "tombstone-leaves-winner"
		}
		return "wins"
	}
	if tomb {
		if op.Parent.ID != w.ID {
			return "tombstone-leaves-winner"
		}
		if len(d.liveLeaves()) > 1 {
			return "tombstone-promotes-other-leaf"
		}
		return "tombstone-last-live-leaf"
	}
	if op.Parent != nil && op.Parent.ID == w.ID {
		return "wins" // a child of the winner has the highest generation (intermediates only raise it)
	}
	gen := op.Parent.Gen + 1
	if op.NewRev != "" {
		gen = c14GenOf(op.NewRev)
	}
	switch {
	case gen > w.Gen:
		return "wins"
	case gen < w.Gen:
		return "loses"
	case op.NewRev == "":
		return "unknown"
	case c14DigestOf(op.NewRev) > c14DigestOf(w.ID):
		return "wins"
	}
	return "loses"
}

func (h *c14Hist) setPushedRev(op *c14Op, k int) {
	op.Inter = nil
	for i := 0; i < k; i++ {
		op.Inter = append(op.Inter, fmt.Sprintf("%d-%s", op.Parent.Gen+k-i, h.randDigest()))
	}
	op.NewRev = fmt.Sprintf("%d-%s", op.Parent.Gen+1+k, h.randDigest())
}

// genOp: outside the hazard histories the write shapes of the open findings are not generated (c14Hazard).
func (h *c14Hist) genOp(d *c14Doc) *c14Op {
	op := h.genOpRaw(d)
	if h.hazard || op.Parent == nil {
		return op
	}
	out := h.predict(op)
	if out != "unknown" && c14Hazard(out) == "" {
		return op
	}
	w := d.winner()
	switch op.Kind {
	case "branch", "update-ne":
		// push enough (unknown to the server) intermediate revisions to take the lead
		k := w.Gen - op.Parent.Gen + h.r.Intn(3)
		if k < 0 {
			k = 0
		}
		h.setPushedRev(op, k)
	case "tombstone", "tombstone-ne":
		// with two or more live leaves every tombstone has the shape of an open finding: update the winner instead
		op.Kind, op.Parent, op.NewRev = "update", w, ""
		op.Actions = h.genActions(w, true, false)
	default: // update / putatt / delatt on a non-winning leaf: act on the winner instead
		op.Parent = w
		switch op.Kind {
		case "update":
			op.Actions = h.genActions(w, true, false)
		case "delatt":
			if len(w.Atts) == 0 {
				op.Kind, op.Actions = "update", h.genActions(w, true, true)
			} else {
				names := make([]string, 0, len(w.Atts))
				for n := range w.Atts {
					names = append(names, n)
				}
				sort.Strings(names)
				op.Name = vlib.Pick(h.r, names)
			}
		}
	}
	op.Role = h.role(d, op.Parent)
	return op
}

// genBranch: a revision pushed with new_edits=false whose parent is any revision the model knows (a non-leaf
// parent opens a conflicting branch). Stubs only when the parent is a live leaf (the client can only repeat
// what a revision it has seen carries, and only a leaf's attachments are promised to be available).
func (h *c14Hist) genBranch(d *c14Doc) *c14Op {
	r := h.r
	var cands []*c14Rev
	for _, id := range d.Order {
		rv := d.Revs[id]
		if !rv.Phantom {
			cands = append(cands, rv)
		}
	}
	p := vlib.Pick(r, cands)
	allowStub := p.Children == 0 && !p.Deleted
	var src *c14Rev
	if allowStub {
		src = p
	}
	op := &c14Op{Kind: "branch", Doc: d, Parent: p, Role: h.role(d, p), Actions: h.genActions(src, allowStub, r.Chance(70, 100))}
	k := 0
	if r.Chance(15, 100) {
		k = r.Range(1, 25)
	}
	for i := 0; i < k; i++ {
		op.Inter = append(op.Inter, fmt.Sprintf("%d-%s", p.Gen+k-i, h.randDigest()))
	}
	op.NewRev = fmt.Sprintf("%d-%s", p.Gen+1+k, h.randDigest())
	return op
}

func (h *c14Hist) attsJSON(op *c14Op) (real, wit map[string]any) {
	real, wit = map[string]any{}, map[string]any{}
	for name, a := range op.Actions {
		if a.Keep {
			meta := map[string]any{}
			for k, v := range op.Parent.Meta[name] {
				meta[k] = v
			}
			meta["stub"] = true
			real[name], wit[name] = meta, meta
			continue
		}
		c := h.cs[a.Content]
		real[name] = map[string]any{"data": c.B64, "content_type": "application/octet-stream"}
		wit[name] = map[string]any{"data": fmt.Sprintf("<base64 of content %d>", c.Idx), "content_type": "application/octet-stream"}
	}
	return
}

func (h *c14Hist) revisionsJSON(op *c14Op) map[string]any {
	ids := []string{c14DigestOf(op.NewRev)}
	for _, id := range op.Inter {
		ids = append(ids, c14DigestOf(id))
	}
	for _, id := range op.Doc.ancestry(op.Parent.ID, 30) {
		ids = append(ids, c14DigestOf(id))
	}
	return map[string]any{"start": c14GenOf(op.NewRev), "ids": ids}
}

// execute performs the write, updates the model, returns false if the server refused a write the model allows.
// build: the request of a write.
func (h *c14Hist) build(step int, op *c14Op, tag string) (method, path, body, witBody string, hdr map[string]string) {
	d := op.Doc
	marker := fmt.Sprintf("h%ds%d%s", h.idx, step, tag)
	ks := "/{{.keyspace}}/"
	hdr = map[string]string{}
	mk := func(m map[string]any) string { b, _ := json.Marshal(m); return string(b) }
	switch op.Kind {
	case "create", "resurrect", "update":
		real, wit := h.attsJSON(op)
		rb := map[string]any{"m": marker, "channels": []string{"c14"}}
		wb := map[string]any{"m": marker, "channels": []string{"c14"}}
		if len(real) > 0 {
			rb["_attachments"], wb["_attachments"] = real, wit
		}
		method, path, body, witBody = "PUT", ks+d.ID, mk(rb), mk(wb)
		if op.Kind == "update" {
			path += "?rev=" + op.Parent.ID
		}
	case "update-ne", "branch", "tombstone-ne":
		real, wit := h.attsJSON(op)
		rb := map[string]any{"m": marker, "channels": []string{"c14"}, "_rev": op.NewRev, "_revisions": h.revisionsJSON(op)}
		wb := map[string]any{"m": marker, "channels": []string{"c14"}, "_rev": op.NewRev, "_revisions": h.revisionsJSON(op)}
		if op.Kind == "tombstone-ne" {
			rb["_deleted"], wb["_deleted"] = true, true
		} else if len(real) > 0 {
			rb["_attachments"], wb["_attachments"] = real, wit
		}
		method, path, body, witBody = "PUT", ks+d.ID+"?new_edits=false", mk(rb), mk(wb)
	case "tombstone":
		method, path = "DELETE", ks+d.ID+"?rev="+op.Parent.ID
	case "putatt":
		c := h.cs[op.Content]
		method, path, body = "PUT", ks+d.ID+"/"+op.Name+"?rev="+op.Parent.ID, string(c.Data)
		witBody = fmt.Sprintf("<raw bytes of content %d>", c.Idx)
		hdr["Content-Type"] = "application/octet-stream"
	case "delatt":
		method, path = "DELETE", ks+d.ID+"/"+op.Name+"?rev="+op.Parent.ID
	}

	return
}

func (h *c14Hist) execute(step int, op *c14Op) bool {
	e := h.e
	d := op.Doc
	method, path, body, witBody, hdr := h.build(step, op, "")

	predicted := "wins"
	if op.Parent != nil {
		predicted = h.predict(op)
	}
	h.lastShape, h.lastHazard = op.Kind+"@"+op.Role+":"+predicted, ""

	// forced CAS retries for this write
	cas := "none"
	switch x := h.r.Intn(100); {
	case len(op.Racers) > 0:
		cas = "interfere"
	case h.noCas:
	case x < 25:
		cas = "doc1"
	case x < 31:
		cas = "doc2"
	case x < 40:
		cas = "all"
	}
	racersOK := true
	e.mu.Lock()
	e.casMode, e.casKey, e.casFired, e.raceK, e.raceFired, e.interfere = cas, d.ID, 0, len(op.Racers), 0, nil
	if cas == "interfere" {
		// racer j is committed, acknowledged and entered into the model while this push sits between compute and CAS
		e.interfere = func(attempt int) {
			if attempt < 1 || attempt > len(op.Racers) || !racersOK {
				return
			}
			rc := op.Racers[attempt-1]
			rc.Parent = op.Parent
			if attempt > 1 {
				rc.Parent = d.Revs[op.Racers[attempt-2].NewRev]
			}
			rc.Role = h.role(d, rc.Parent)
			m, p, b, wb, hd := h.build(step, rc, fmt.Sprintf("r%d", attempt))
			rr := e.req(m, p, b, hd)
			if !h.apply(step, rc, rr, m, p, wb, fmt.Sprintf("concurrent write %d committed in the compute->CAS window of the next entry", attempt), 0) {
				racersOK = false
			}
		}
	}
	e.mu.Unlock()
	e.vs.ResetLog()
	resp := e.req(method, path, body, hdr)
	e.mu.Lock()
	fired := e.casFired
	raced := e.raceFired
	e.casMode, e.interfere = "none", nil
	e.mu.Unlock()
	h.lastCas = "none"
	if cas == "interfere" {
		h.lastCas = "lost-to-concurrent-write"
		e.run.Count("writes_that_lost_the_cas_to_a_concurrent_acknowledged_write", 1)
		e.run.Count("concurrent_writes_committed_in_the_compute_cas_window", raced)
		attempts := 0
		for _, lo := range e.vs.Log() {
			if lo.Kind == "WriteUpdateWithXattrs" && lo.Key == d.ID && lo.Gid == e.gid && lo.Attempt > attempts {
				attempts = lo.Attempt
			}
		}
		if raced != len(op.Racers) || attempts != len(op.Racers)+1 {
			e.run.Note("raced push: %d of %d concurrent writes committed, %d attempts of the document write", raced, len(op.Racers), attempts)
			e.run.Count("raced_writes_that_did_not_retry_as_planned", 1)
		} else {
			e.run.Count("raced_writes_retried_as_planned", 1)
		}
		if !racersOK {
			return false
		}
	}
	if fired > 0 {
		h.lastCas = "forced-retry"
		h.stats.retried++
		e.run.Count("cas_retries_forced", fired)
		e.run.Count("writes_with_forced_cas_retry", 1)
	}
	// attachment data documents written by this request (H1 log)
	for _, lo := range e.vs.Log() {
		if lo.Mutating && !lo.Deleted && c14IsAttKey(lo.Key) {
			if !h.keys[lo.Key] {
				h.keys[lo.Key] = true
				e.run.Count("attachment_keys_seen_in_h1_log", 1)
			}
		}
	}
	e.vs.ResetLog()

	return h.apply(step, op, resp, method, path, witBody, cas, fired)
}

// apply: judge the response of a write and update the model.
func (h *c14Hist) apply(step int, op *c14Op, resp c14Resp, method, path, witBody, cas string, fired int) bool {
	e := h.e
	d := op.Doc
	predicted := "wins"
	if op.Parent != nil {
		predicted = h.predict(op)
	}
	var pr struct {
		Rev string `json:"rev"`
	}
	_ = json.Unmarshal(resp.Body, &pr)
	entry := map[string]any{"step": step, "op": op.Kind, "parent_role": op.Role, "method": method, "path": strings.ReplaceAll(path, "{{.keyspace}}", e.ks), "body": witBody,
		"forced_cas": cas, "cas_retries_fired": fired, "status": resp.Code, "rev": pr.Rev}
	h.trace = append(h.trace, entry)
	h.lastOp = op
	h.shape = append(h.shape, op.Kind+"@"+op.Role)
	_ = predicted
	if resp.Code != 200 && resp.Code != 201 {
		entry["response"] = string(resp.Body)
		h.violation("write", fmt.Sprintf("C14|write-refused|op=%s@%s|status=%d|cas=%s", op.Kind, op.Role, resp.Code, h.lastCas),
			fmt.Sprintf("%s %s -> %d %s (the model allows this write)", method, path, resp.Code, c14Trunc(string(resp.Body), 300)), nil)
		return false
	}
	e.run.Count("writes", 1)
	e.run.Count("writes."+op.Kind, 1)

	// model update
	before := d.referenced(h.cs)
	newAtts := map[string]int{}
	deleted := false
	parentID := ""
	if op.Parent != nil {
		parentID = op.Parent.ID
	}
	switch op.Kind {
	case "tombstone", "tombstone-ne":
		deleted = true
	case "putatt":
		for n, c := range op.Parent.Atts {
			newAtts[n] = c
		}
		newAtts[op.Name] = op.Content
	case "delatt":
		for n, c := range op.Parent.Atts {
			if n != op.Name {
				newAtts[n] = c
			}
		}
	default:
		for n, a := range op.Actions {
			if a.Keep {
				newAtts[n] = op.Parent.Atts[n]
				h.stats.stubs++
			} else {
				newAtts[n] = a.Content
			}
		}
		if op.Parent != nil {
			for n, c := range op.Parent.Atts {
				if a, ok := op.Actions[n]; !ok {
					h.stats.dropped++
				} else if !a.Keep && a.Content != c {
					h.stats.replaced++
				}
			}
		}
	}
	newID := pr.Rev
	if op.NewRev != "" {
		if pr.Rev != op.NewRev {
			h.violation("write", "C14|write-acknowledged-other-rev|op="+op.Kind, fmt.Sprintf("pushed %s, server acknowledged %q", op.NewRev, pr.Rev), nil)
			return false
		}
		// intermediates, oldest first
		for i := len(op.Inter) - 1; i >= 0; i-- {
			if d.Revs[op.Inter[i]] == nil { // not committed by a concurrent push in the meantime
				d.add(op.Inter[i], parentID, false, true, nil)
			}
			parentID = op.Inter[i]
		}
	}
	if newID == "" || d.Revs[newID] != nil {
		h.violation("write", "C14|write-acknowledged-without-new-rev|op="+op.Kind, fmt.Sprintf("response %s", c14Trunc(string(resp.Body), 200)), nil)
		return false
	}
	nrv := d.add(newID, parentID, deleted, false, newAtts)
	outcome := predicted
	if predicted == "unknown" || predicted == "wins" || predicted == "loses" {
		outcome = "loses"
		if w := d.winner(); w != nil && w.ID == nrv.ID {
			outcome = "wins"
		}
	}
	kind := op.Kind
	if len(op.Racers) > 0 {
		kind = fmt.Sprintf("%s-retried-after-%d-concurrent-push", op.Kind, len(op.Racers))
	}
	h.lastShape, h.lastHazard = kind+"@"+op.Role+":"+outcome, c14Hazard(outcome)
	entry["outcome"] = outcome
	e.run.Count("writes_by_shape."+h.lastShape, 1)
	if h.lastHazard != "" {
		e.run.Count("writes_with_the_shape_of_an_open_finding", 1)
	}
	after := d.referenced(h.cs)
	for k := range before {
		if _, ok := after[k]; !ok {
			h.stats.expectedDeletions++
			e.run.Count("blobs_expected_to_be_cleaned_up", 1)
		}
	}
	if len(d.liveLeaves()) > 1 {
		h.stats.multiLeaf++
	}
	// a reference was dropped by this write but the blob must stay because another name/leaf still needs it
	if op.Parent != nil && !op.Parent.Deleted {
		for _, c := range op.Parent.Atts {
			k := c14AttKey(d.ID, h.cs[c].Digest)
			still := false
			for _, nc := range newAtts {
				if nc == c {
					still = true
				}
			}
			if _, ok := after[k]; ok && !still {
				h.stats.sharedKept++
				e.run.Count("blobs_kept_because_another_leaf_or_name_references_them", 1)
			}
		}
	}
	return true
}

func c14Trunc(s string, n int) string {
	if len(s) > n {
		return s[:n] + "…"
	}
	return s
}

func (h *c14Hist) describeContents() []map[string]any {
	var out []map[string]any
	for _, c := range h.cs {
		m := map[string]any{"content": c.Idx, "class": c.Class, "length": len(c.Data), "digest": c.Digest}
		if len(c.Data) <= 96 {
			m["base64"] = c.B64
		} else {
			m["base64_prefix"] = c.B64[:64]
		}
		out = append(out, m)
	}
	return out
}

func (h *c14Hist) modelDump() map[string]any {
	out := map[string]any{}
	for _, d := range h.docs {
		leaves := []map[string]any{}
		for _, rv := range d.leaves() {
			leaves = append(leaves, map[string]any{"rev": rv.ID, "deleted": rv.Deleted, "attachments_name_to_content": rv.Atts})
		}
		w := ""
		if x := d.winner(); x != nil {
			w = x.ID
		}
		out[d.ID] = map[string]any{"leaves": leaves, "winner": w}
	}
	return out
}

// c14Hazard: write shapes after which today's code is known (open findings, reported with exact histories) to leave the
// attachment state of the document wrong. Every oracle failure directly after such a write carries the finding's one
// signature; the oracle's detailed verdict goes to the message and the witness. These shapes are generated only in the
// "hazard" fraction of the histories, so that the other histories explore everything else to full length.
func c14Hazard(outcome string) string {
	switch outcome {
	case "loses", "tombstone-leaves-winner":
		return "write-adds-revision-that-is-not-the-winner"
	case "tombstone-promotes-other-leaf":
		return "winner-tombstoned-and-another-live-leaf-becomes-winner"
	}
	return ""
}

func (h *c14Hist) violation(oracle, sig, msg string, extra map[string]any) {
	h.violated = true
	detail := sig
	switch {
	case oracle == "blip":
		// already names the protocol situation
	case h.lastHazard != "" && !c14HazardAll:
		sig = "C14|" + h.lastHazard + "|attachment-state-of-the-document-is-wrong"
	default:
		class := map[string]string{"read": "read-mismatch", "digest": "digest-or-length-mismatch", "write": "write-refused-or-misacknowledged"}[oracle]
		if class == "" {
			class = oracle
		}
		sig = fmt.Sprintf("C14|%s|after=%s|cas=%s", class, h.lastShape, h.lastCas)
	}
	if h.verdict == "" {
		h.verdict = c14Trunc(msg, 400)
	}
	msg = msg + " [oracle verdict: " + detail + "]"
	w := map[string]any{
		"oracle_verdict": detail, "last_write_shape": h.lastShape, "scenario": h.scenario,
		"history": h.idx, "mode": map[string]any{"allow_conflicts": h.mode.Conflicts, "revs_limit": h.mode.RevsLimit, "cross_cluster_versioning_flag": h.mode.ECCV},
		"contents": h.describeContents(), "writes": h.trace, "model_after_last_write": h.modelDump(), "keyspace": h.e.ks,
		"how_to_replay": "RestTester on rosmar, default sync function; EnableAllowConflicts/RevsLimit as in mode; send the writes in order as admin; forced_cas!=none means the compute->CAS window of the write's interactive storage update returned ErrCasFailureShouldRetry (no foreign mutation) at the first (doc1/all) or first two (doc2) attempts",
	}
	for k, v := range extra {
		w[k] = v
	}
	h.e.run.Violation(oracle, sig, msg, w)
}

// ---------------------------------------------------------------------------------------------
// oracle

type c14MetaAtt struct {
	Digest *string  `json:"digest"`
	Length *float64 `json:"length"`
	Stub   *bool    `json:"stub"`
	Revpos *float64 `json:"revpos"`
	Data   *string  `json:"data"`
}

func (h *c14Hist) after() string {
	if h.lastOp == nil {
		return "none"
	}
	if h.lastShape != "" {
		return h.lastShape
	}
	return h.lastOp.Kind + "@" + h.lastOp.Role
}

func (h *c14Hist) readSig(oracle, detail, read, leafRole string, c *c14Content) string {
	cl := "-"
	if c != nil {
		cl = c.Class
	}
	return fmt.Sprintf("C14|%s|%s|read=%s|leaf=%s|content=%s|after=%s|cas=%s", oracle, detail, read, leafRole, cl, h.after(), h.lastCas)
}

// checkDocRead: GET doc (with or without rev, with or without attachments=true) against the model revision.
func (h *c14Hist) checkDocRead(d *c14Doc, rv *c14Rev, byRev, withData bool, cache string) bool {
	e := h.e
	role := h.role(d, rv)
	read := "doc"
	path := "/{{.keyspace}}/" + d.ID
	sep := "?"
	if byRev {
		read += "?rev"
		path += sep + "rev=" + rv.ID
		sep = "&"
	}
	if withData {
		read += "&attachments=true"
		path += sep + "attachments=true"
	}
	read += "(" + cache + ")"
	resp := e.req("GET", path, "", nil)
	e.run.Count("reads_compared", 1)
	ex := map[string]any{"read": "GET " + strings.ReplaceAll(path, "{{.keyspace}}", e.ks), "status": resp.Code, "revision_cache": cache}
	if resp.Code != 200 {
		ex["response"] = c14Trunc(string(resp.Body), 400)
		h.violation("read", h.readSig("read", fmt.Sprintf("leaf-not-readable-status-%d", resp.Code), read, role, nil),
			fmt.Sprintf("GET %s -> %d %s; the model has this live leaf with attachments %v", path, resp.Code, c14Trunc(string(resp.Body), 200), rv.Atts), ex)
		return false
	}
	var body struct {
		Rev  string                     `json:"_rev"`
		Atts map[string]json.RawMessage `json:"_attachments"`
	}
	if err := json.Unmarshal(resp.Body, &body); err != nil {
		h.violation("read", h.readSig("read", "unparsable-body", read, role, nil), err.Error(), ex)
		return false
	}
	if body.Rev != rv.ID {
		ex["response_rev"] = body.Rev
		h.violation("read", h.readSig("read", "other-revision-returned", read, role, nil), fmt.Sprintf("GET %s returned _rev %s, the model expects %s", path, body.Rev, rv.ID), ex)
		return false
	}
	ex["response_attachments"] = c14Trunc(string(mustJSON(body.Atts)), 1500)
	for name := range body.Atts {
		if _, ok := rv.Atts[name]; !ok {
			h.violation("read", h.readSig("read", "attachment-not-in-model-advertised", read, role, nil),
				fmt.Sprintf("GET %s lists attachment %q which this revision does not carry (model: %v)", path, name, rv.Atts), ex)
			return false
		}
	}
	for name, ci := range rv.Atts {
		c := h.cs[ci]
		raw, ok := body.Atts[name]
		if !ok {
			h.violation("read", h.readSig("read", "attachment-missing-from-metadata", read, role, c),
				fmt.Sprintf("GET %s does not list attachment %q (content %d) of this live leaf", path, name, ci), ex)
			return false
		}
		var m c14MetaAtt
		_ = json.Unmarshal(raw, &m)
		if m.Digest == nil || *m.Digest != c.Digest {
			h.violation("digest", h.readSig("digest", "advertised-digest-is-not-sha1-of-content", read, role, c),
				fmt.Sprintf("GET %s attachment %q advertises digest %v, SHA-1 of the written content is %s", path, name, strPtr(m.Digest), c.Digest), ex)
			return false
		}
		if m.Length == nil || int(*m.Length) != len(c.Data) {
			h.violation("digest", h.readSig("length", "advertised-length-is-not-length-of-content", read, role, c),
				fmt.Sprintf("GET %s attachment %q advertises length %v, the written content has %d bytes", path, name, fltPtr(m.Length), len(c.Data)), ex)
			return false
		}
		e.run.Count("digests_and_lengths_checked", 1)
		if withData {
			if m.Data == nil {
				h.violation("read", h.readSig("read", "attachments=true-without-data", read, role, c), fmt.Sprintf("GET %s attachment %q carries no data", path, name), ex)
				return false
			}
			got, err := base64.StdEncoding.DecodeString(*m.Data)
			if err != nil || !bytes.Equal(got, c.Data) {
				ex["got_digest"], ex["got_length"] = c14Digest(got), len(got)
				h.violation("read", h.readSig("read", "content-differs", read, role, c),
					fmt.Sprintf("GET %s attachment %q returned %d bytes with SHA-1 %s, written: %d bytes %s", path, name, len(got), c14Digest(got), len(c.Data), c.Digest), ex)
				return false
			}
			e.run.Count("bytes_compared", len(got))
			e.run.Count("attachment_bodies_compared", 1)
		} else {
			if m.Stub == nil || !*m.Stub {
				h.violation("read", h.readSig("read", "metadata-not-a-stub", read, role, c), fmt.Sprintf("GET %s attachment %q is not marked stub", path, name), ex)
				return false
			}
			var meta map[string]any
			_ = json.Unmarshal(raw, &meta)
			rv.Meta[name] = meta
		}
	}
	return true
}

func mustJSON(v any) []byte { b, _ := json.Marshal(v); return b }
func strPtr(p *string) string {
	if p == nil {
		return "<absent>"
	}
	return *p
}
func fltPtr(p *float64) string {
	if p == nil {
		return "<absent>"
	}
	return fmt.Sprint(*p)
}

// checkAttRead: GET doc/name (with or without rev).
func (h *c14Hist) checkAttRead(d *c14Doc, rv *c14Rev, name string, byRev bool, cache string) bool {
	e := h.e
	role := h.role(d, rv)
	read := "att"
	path := "/{{.keyspace}}/" + d.ID + "/" + name
	if byRev {
		read += "?rev"
		path += "?rev=" + rv.ID
	}
	read += "(" + cache + ")"
	resp := e.req("GET", path, "", map[string]string{"Accept": "*/*"})
	e.run.Count("reads_compared", 1)
	ex := map[string]any{"read": "GET " + strings.ReplaceAll(path, "{{.keyspace}}", e.ks), "status": resp.Code, "revision_cache": cache}
	ci, has := rv.Atts[name]
	if !has {
		if resp.Code == 200 {
			h.violation("read", h.readSig("read", "attachment-not-carried-by-revision-is-served", read, role, nil),
				fmt.Sprintf("GET %s -> 200 (%d bytes), the revision does not carry %q (model: %v)", path, len(resp.Body), name, rv.Atts), ex)
			return false
		}
		e.run.Count("absent_attachment_reads_refused", 1)
		return true
	}
	c := h.cs[ci]
	if resp.Code != 200 {
		ex["response"] = c14Trunc(string(resp.Body), 400)
		h.violation("read", h.readSig("read", fmt.Sprintf("attachment-not-readable-status-%d", resp.Code), read, role, c),
			fmt.Sprintf("GET %s -> %d %s; the live leaf carries %q = content %d (%d bytes)", path, resp.Code, c14Trunc(string(resp.Body), 200), name, ci, len(c.Data)), ex)
		return false
	}
	if !bytes.Equal(resp.Body, c.Data) {
		ex["got_digest"], ex["got_length"] = c14Digest(resp.Body), len(resp.Body)
		h.violation("read", h.readSig("read", "content-differs", read, role, c),
			fmt.Sprintf("GET %s returned %d bytes with SHA-1 %s, written: %d bytes %s", path, len(resp.Body), c14Digest(resp.Body), len(c.Data), c.Digest), ex)
		return false
	}
	e.run.Count("bytes_compared", len(resp.Body))
	e.run.Count("attachment_bodies_compared", 1)
	if et := strings.Trim(resp.Hdr["Etag"], `"`); et != c.Digest {
		ex["etag"] = resp.Hdr["Etag"]
		h.violation("digest", h.readSig("digest", "etag-is-not-sha1-of-content", read, role, c), fmt.Sprintf("GET %s Etag %q, SHA-1 of the content is %s", path, resp.Hdr["Etag"], c.Digest), ex)
		return false
	}
	if cl := resp.Hdr["Content-Length"]; cl != strconv.Itoa(len(c.Data)) {
		ex["content_length"] = cl
		h.violation("digest", h.readSig("length", "content-length-header-is-not-length-of-content", read, role, c), fmt.Sprintf("GET %s Content-Length %q, content has %d bytes", path, cl, len(c.Data)), ex)
		return false
	}
	e.run.Count("digests_and_lengths_checked", 1)
	return true
}

// checkDoc: all read paths of one document, then the blob census.
func (h *c14Hist) checkDoc(d *c14Doc) bool {
	e := h.e
	if len(d.Revs) == 0 {
		return true
	}
	w := d.winner()
	type rd func(cache string) bool
	var reads []rd
	for _, rv := range d.liveLeaves() {
		rv := rv
		e.run.Count("leaves_checked", 1)
		reads = append(reads, func(c string) bool { return h.checkDocRead(d, rv, true, false, c) })
		reads = append(reads, func(c string) bool { return h.checkDocRead(d, rv, true, true, c) })
		for _, n := range c14Names {
			n := n
			reads = append(reads, func(c string) bool { return h.checkAttRead(d, rv, n, true, c) })
		}
	}
	if w != nil && !w.Deleted {
		reads = append(reads, func(c string) bool { return h.checkDocRead(d, w, false, false, c) })
		reads = append(reads, func(c string) bool { return h.checkDocRead(d, w, false, true, c) })
		for _, n := range c14Names {
			n := n
			reads = append(reads, func(c string) bool { return h.checkAttRead(d, w, n, false, c) })
		}
	} else {
		// every leaf is a tombstone: the document reads as gone, and so do its attachments
		resp := e.req("GET", "/{{.keyspace}}/"+d.ID, "", nil)
		e.run.Count("reads_compared", 1)
		if resp.Code == 200 {
			h.violation("read", h.readSig("read", "deleted-document-is-served", "doc", "tombstone", nil), fmt.Sprintf("GET %s -> 200 %s although every leaf is a tombstone", d.ID, c14Trunc(string(resp.Body), 200)), nil)
			return false
		}
		for _, n := range c14Names {
			resp := e.req("GET", "/{{.keyspace}}/"+d.ID+"/"+n, "", map[string]string{"Accept": "*/*"})
			e.run.Count("reads_compared", 1)
			if resp.Code == 200 {
				h.violation("read", h.readSig("read", "attachment-of-deleted-document-is-served", "att", "tombstone", nil), fmt.Sprintf("GET %s/%s -> 200 (%d bytes) although every leaf is a tombstone", d.ID, n, len(resp.Body)), nil)
				return false
			}
		}
	}
	// the order of the reads and the point at which the revision cache is flushed are seeded: first as the
	// writes (and earlier reads) left the cache, then flushed.
	perm := h.r.Perm(len(reads))
	for _, i := range perm {
		if !reads[i]("as-left") {
			return false
		}
	}
	e.rt.GetDatabase().FlushRevisionCacheForTest()
	perm = h.r.Perm(len(reads))
	for _, i := range perm {
		if !reads[i]("flushed") {
			return false
		}
	}
	return true
}

// checkBlobs: exists <=> referenced, for every attachment data document key ever written in this history or expected by the model.
func (h *c14Hist) checkBlobs() bool {
	e := h.e
	expected := map[string]*c14Content{}
	owner := map[string]*c14Doc{}
	for _, d := range h.docs {
		for k, ci := range d.referenced(h.cs) {
			expected[k] = h.cs[ci]
			owner[k] = d
		}
	}
	keys := map[string]bool{}
	for k := range h.keys {
		keys[k] = true
	}
	for k := range expected {
		keys[k] = true
	}
	// every key the model could ever expect for these documents (also catches blobs written without the H1 log seeing them)
	for _, d := range h.docs {
		for _, c := range h.cs {
			keys[c14AttKey(d.ID, c.Digest)] = true
		}
	}
	sorted := make([]string, 0, len(keys))
	for k := range keys {
		sorted = append(sorted, k)
	}
	sort.Strings(sorted)
	for _, k := range sorted {
		val, _, err := e.ds.GetRaw(context.Background(), k)
		exists := err == nil
		if err != nil && !base.IsDocNotFoundError(err) {
			e.run.Note("probe of %s failed: %v", k, err)
			continue
		}
		e.run.Count("blobs_probed", 1)
		c, want := expected[k]
		class := "v2"
		if strings.HasPrefix(k, "_sync:att:") {
			class = "v1"
		}
		ex := map[string]any{"key": k, "exists": exists, "referenced_by_a_live_leaf": want, "seen_written_in_h1_log": h.keys[k]}
		switch {
		case want && !exists:
			h.violation("blob-missing", fmt.Sprintf("C14|blob-missing|referenced-attachment-data-document-does-not-exist|content=%s|after=%s|cas=%s", c.Class, h.after(), h.lastCas),
				fmt.Sprintf("attachment data document %s (content %d of %s) is referenced by a live leaf but does not exist", k, c.Idx, owner[k].ID), ex)
			return false
		case want && !bytes.Equal(val, c.Data):
			ex["stored_digest"], ex["stored_length"] = c14Digest(val), len(val)
			h.violation("blob-corrupt", fmt.Sprintf("C14|blob-corrupt|attachment-data-document-differs-from-written-content|content=%s|after=%s|cas=%s", c.Class, h.after(), h.lastCas),
				fmt.Sprintf("attachment data document %s holds %d bytes (SHA-1 %s), written content %d has %d bytes (%s)", k, len(val), c14Digest(val), c.Idx, len(c.Data), c.Digest), ex)
			return false
		case !want && exists && !h.mode.ECCV:
			h.violation("blob-leak", fmt.Sprintf("C14|blob-leak|unreferenced-attachment-data-document-survives|key=%s|after=%s|cas=%s", class, h.after(), h.lastCas),
				fmt.Sprintf("attachment data document %s (%d bytes) exists although no live leaf of its document references it", k, len(val)), ex)
			return false
		}
		if want {
			e.run.Count("bytes_compared", len(val))
			e.run.Count("referenced_blobs_found_intact", 1)
		} else if !exists {
			e.run.Count("unreferenced_blobs_found_absent", 1)
		} else {
			e.run.Count("unreferenced_blobs_kept_under_cross_cluster_versioning", 1)
		}
	}
	return true
}

func (h *c14Hist) check() bool {
	h.e.vs.logOn.Store(false) // the oracle's own reads are not part of the history
	defer h.e.vs.logOn.Store(true)
	for _, d := range h.docs {
		if !h.checkDoc(d) {
			return false
		}
	}
	return h.checkBlobs()
}

func (e *c14Env) newHist(idx int, r *vlib.Rand, mode c14Mode, big bool, tag string) *c14Hist {
	h := &c14Hist{e: e, idx: idx, mode: mode, r: r, keys: map[string]bool{}}
	h.cs = c14MakeContents(r, big)
	if big {
		e.run.Count("histories_with_the_1MiB_content", 1)
	}
	for _, c := range h.cs {
		e.run.Count("contents_of_class."+c.Class, 1)
	}
	for i := 0; i < 2; i++ {
		h.docs = append(h.docs, &c14Doc{ID: fmt.Sprintf("c14%sh%dd%d", tag, idx, i), Revs: map[string]*c14Rev{}})
	}
	e.setMode(mode)
	return h
}

func c14PickMode(r *vlib.Rand) c14Mode {
	m := c14Mode{}
	if r.Chance(60, 100) {
		m.Conflicts, m.RevsLimit = true, 20
	} else {
		m.Conflicts, m.RevsLimit = false, uint32(r.Range(2, 4))
	}
	if r.Chance(6, 100) {
		m.ECCV = true
	}
	return m
}

func (h *c14Hist) finish() {
	run := h.e.run
	run.Eval()
	run.Count("histories", 1)
	if h.mode.Conflicts {
		run.Count("histories_conflicting_branches", 1)
	} else {
		run.Count("histories_linear_small_revs_limit", 1)
	}
	if h.mode.ECCV {
		run.Count("histories_cross_cluster_versioning_flag_on", 1)
	}
	if h.stats.stubs > 0 && (h.stats.replaced+h.stats.dropped) > 0 && h.stats.expectedDeletions > 0 {
		run.Nontrivial(strings.Join(h.shape, ","))
	}
	if h.stats.multiLeaf > 0 {
		run.Count("histories_with_two_or_more_live_leaves", 1)
	}
	run.Sample(map[string]any{"history": h.idx, "mode": h.mode, "contents": h.describeContents(), "writes": h.trace})
}

func TestVerif_C14_Histories(t *testing.T) {
	run := vlib.Start(t, "C14", "histories")
	defer run.Finish()
	base.SetUpTestLogging(t, base.LevelWarn, base.KeyNone) // request-level logging of ~100 000 reads only slows the run down
	nHist := run.N(200, 4000)
	steps := 12
	workers := 4
	if only, ok := run.OnlyCase(); ok {
		_ = only
		workers = 1
	}
	envs := make([]*c14Env, workers)
	for i := range envs {
		envs[i] = c14NewEnv(t, run)
		defer envs[i].rt.Close()
	}
	bigAt := int(run.Rand().Fork(99).Intn(nHist))
	var wg sync.WaitGroup
	for wi := range envs {
		wg.Add(1)
		go func(wi int) {
			defer wg.Done()
			e := envs[wi]
			e.mu.Lock()
			e.gid = base.VerifGoroutineID()
			e.mu.Unlock()
			for i := wi; i < nHist; i += workers {
				if only, ok := run.OnlyCase(); ok && only != i {
					continue
				}
				r := run.CaseRand(i)
				mode := c14PickMode(r)
				h := e.newHist(i, r, mode, i == bigAt, "")
				h.hazard = mode.Conflicts && (r.Chance(25, 100) || c14HazardAll)
				if h.hazard {
					run.Count("hazard_histories", 1)
				}
				for s := 0; s < steps && !h.violated; s++ {
					d := vlib.Pick(r, h.docs)
					op := h.genOp(d)
					if !h.execute(s, op) {
						break
					}
					if !h.check() {
						break
					}
				}
				h.finish()
			}
		}(wi)
	}
	wg.Wait()
}
