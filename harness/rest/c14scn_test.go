//go:build verif

package rest

// C14, scenario part: short hand-written histories through the same executor, model and oracle as the
// seeded histories. They pin down, deterministically and without forced CAS retries, the smallest write
// sequences around conflicting branches (a pushed branch that wins / loses, updating and tombstoning the
// non-winning leaf, tombstoning the winner so that the other leaf is promoted, resolving a conflict).

import (
	"encoding/json"
	"fmt"
	"testing"
	"time"

	"github.com/couchbase/sync_gateway/base"
	"verif/vlib"
)

type c14Scn struct {
	h    *c14Hist
	step int
	ok   bool
}

func (s *c14Scn) do(op *c14Op) *c14Rev {
	if !s.ok {
		return nil
	}
	h := s.h
	op.Role = h.role(op.Doc, op.Parent)
	if !h.execute(s.step, op) || !h.check() {
		s.ok = false
		return nil
	}
	s.step++
	return op.Doc.Revs[op.Doc.Order[len(op.Doc.Order)-1]]
}

func c14Inline(kv ...any) map[string]c14Action {
	m := map[string]c14Action{}
	for i := 0; i+1 < len(kv); i += 2 {
		switch v := kv[i+1].(type) {
		case int:
			m[kv[i].(string)] = c14Action{Content: v}
		case string: // "keep"
			m[kv[i].(string)] = c14Action{Keep: true}
		}
	}
	return m
}

func (s *c14Scn) create(d *c14Doc, acts map[string]c14Action) *c14Rev {
	return s.do(&c14Op{Kind: "create", Doc: d, Actions: acts})
}
func (s *c14Scn) update(d *c14Doc, leaf *c14Rev, acts map[string]c14Action) *c14Rev {
	if leaf == nil {
		return nil
	}
	return s.do(&c14Op{Kind: "update", Doc: d, Parent: leaf, Actions: acts})
}
func (s *c14Scn) push(d *c14Doc, parent *c14Rev, digest string, acts map[string]c14Action) *c14Rev {
	if parent == nil {
		return nil
	}
	return s.do(&c14Op{Kind: "branch", Doc: d, Parent: parent, Actions: acts, NewRev: fmt.Sprintf("%d-%s", parent.Gen+1, digest)})
}
func (s *c14Scn) tombstone(d *c14Doc, leaf *c14Rev) *c14Rev {
	if leaf == nil {
		return nil
	}
	return s.do(&c14Op{Kind: "tombstone", Doc: d, Parent: leaf})
}
func (s *c14Scn) putatt(d *c14Doc, leaf *c14Rev, name string, content int) *c14Rev {
	if leaf == nil {
		return nil
	}
	return s.do(&c14Op{Kind: "putatt", Doc: d, Parent: leaf, Name: name, Content: content})
}

// raced: a push onto leaf whose compare-and-swap is lost to len(racers) concurrent acknowledged pushes (see makeRaced).
func (s *c14Scn) raced(d *c14Doc, leaf *c14Rev, racers []map[string]c14Action, own map[string]c14Action) *c14Rev {
	if leaf == nil {
		return nil
	}
	op := &c14Op{Kind: "update-ne", Doc: d, Parent: leaf}
	s.h.makeRaced(op, len(racers), racers[0], own)
	for j := 1; j < len(racers); j++ {
		op.Racers[j].Actions = racers[j]
	}
	return s.do(op)
}

const (
	c14Low  = "0000000000000000" // loses every comparison of revision digests of equal generation
	c14High = "ffffffffffffffff" // wins it (server-made digests are MD5 hex)
)

func TestVerif_C14_Scenarios(t *testing.T) {
	run := vlib.Start(t, "C14", "scenarios")
	defer run.Finish()
	base.SetUpTestLogging(t, base.LevelWarn, base.KeyNone) // request-level logging of ~100 000 reads only slows the run down
	e := c14NewEnv(t, run)
	defer e.rt.Close()
	e.mu.Lock()
	e.gid = base.VerifGoroutineID()
	e.mu.Unlock()

	// common prefix: 1-x carries a=c0; 2-y keeps a (stub) and adds b=c1
	prefix := func(s *c14Scn, d *c14Doc) (r1, r2 *c14Rev) {
		r1 = s.create(d, c14Inline("a", 0))
		r2 = s.update(d, r1, c14Inline("a", "keep", "b", 1))
		return
	}
	scenarios := []struct {
		name string
		fn   func(s *c14Scn, d, o *c14Doc)
	}{
		{"pushed-branch-with-attachment-wins", func(s *c14Scn, d, o *c14Doc) {
			r1, _ := prefix(s, d)
			s.push(d, r1, c14High, c14Inline("c", 2))
		}},
		{"pushed-branch-with-attachment-loses", func(s *c14Scn, d, o *c14Doc) {
			r1, _ := prefix(s, d)
			s.push(d, r1, c14Low, c14Inline("c", 2))
		}},
		{"pushed-branch-without-attachments-loses", func(s *c14Scn, d, o *c14Doc) {
			r1, _ := prefix(s, d)
			s.push(d, r1, c14Low, c14Inline())
		}},
		{"pushed-branch-sharing-a-digest-wins-then-old-leaf-drops-it", func(s *c14Scn, d, o *c14Doc) {
			r1, r2 := prefix(s, d)
			s.push(d, r1, c14High, c14Inline("z", 0)) // same content as a of 2-y, other name
			_ = r2
		}},
		{"tombstone-of-the-non-winning-leaf", func(s *c14Scn, d, o *c14Doc) {
			r1, r2 := prefix(s, d)
			s.push(d, r1, c14High, c14Inline("c", 2))
			s.tombstone(d, r2)
		}},
		{"tombstone-of-the-winner-promotes-the-other-leaf", func(s *c14Scn, d, o *c14Doc) {
			r1, _ := prefix(s, d)
			w := s.push(d, r1, c14High, c14Inline("c", 2))
			s.tombstone(d, w)
		}},
		{"update-of-the-non-winning-leaf-that-stays-non-winning", func(s *c14Scn, d, o *c14Doc) {
			r1, r2 := prefix(s, d)
			w := s.push(d, r1, c14High, c14Inline("c", 2))
			w = s.update(d, w, c14Inline("c", "keep"))
			w = s.update(d, w, c14Inline("c", "keep"))
			s.update(d, r2, c14Inline("a", "keep"))
		}},
		{"update-of-the-non-winning-leaf-that-becomes-the-winner", func(s *c14Scn, d, o *c14Doc) {
			r1, r2 := prefix(s, d)
			s.push(d, r1, c14High, c14Inline("c", 2))
			s.update(d, r2, c14Inline("a", "keep"))
		}},
		{"attachment-put-on-the-non-winning-leaf-that-stays-non-winning", func(s *c14Scn, d, o *c14Doc) {
			r1, r2 := prefix(s, d)
			w := s.push(d, r1, c14High, c14Inline("c", 2))
			w = s.update(d, w, c14Inline("c", "keep"))
			w = s.update(d, w, c14Inline("c", "keep"))
			s.putatt(d, r2, "c", 0)
		}},
		{"conflict-resolved-by-tombstoning-the-loser-then-winner-drops-its-attachment", func(s *c14Scn, d, o *c14Doc) {
			r1, r2 := prefix(s, d)
			w := s.push(d, r1, c14High, c14Inline("c", 2))
			s.tombstone(d, r2)
			s.update(d, w, c14Inline())
		}},
		{"concurrent-push-adds-attachment-that-the-retried-push-supersedes", func(s *c14Scn, d, o *c14Doc) {
			r1 := s.create(d, c14Inline("a", 0))
			s.raced(d, r1, []map[string]c14Action{c14Inline("a", "keep", "b", 1)}, c14Inline())
		}},
		{"concurrent-push-adds-attachment-and-the-retried-push-carries-the-same-content-under-another-name", func(s *c14Scn, d, o *c14Doc) {
			r1 := s.create(d, c14Inline("a", 0))
			s.raced(d, r1, []map[string]c14Action{c14Inline("a", "keep", "b", 1)}, c14Inline("z", 1))
		}},
		{"two-concurrent-pushes-replace-attachments-before-the-retried-push-drops-them", func(s *c14Scn, d, o *c14Doc) {
			r1 := s.create(d, c14Inline("a", 0))
			r2 := s.update(d, r1, c14Inline("a", "keep"))
			s.raced(d, r2, []map[string]c14Action{c14Inline("a", 1), c14Inline("a", 2, "b", 0)}, c14Inline())
		}},
		{"same-content-in-two-documents-one-drops-it", func(s *c14Scn, d, o *c14Doc) {
			r1 := s.create(d, c14Inline("a", 0))
			s.create(o, c14Inline("a", 0))
			s.update(d, r1, c14Inline())
		}},
	}
	var held []*c14Hist
	for i, sc := range scenarios {
		if only, ok := run.OnlyCase(); ok && only != i {
			continue
		}
		h := e.newHist(i, run.CaseRand(i), c14Mode{Conflicts: true, RevsLimit: 20}, false, "s")
		h.hazard, h.noCas, h.scenario = true, true, sc.name
		s := &c14Scn{h: h, ok: true}
		sc.fn(s, h.docs[0], h.docs[1])
		run.Count("scenarios", 1)
		if s.ok {
			run.Count("scenarios_held", 1)
			run.Note("scenario %s: held", sc.name)
			held = append(held, h)
		} else {
			run.Count("scenarios_violated", 1)
			run.Note("scenario %s: violated after write %d (%s): %s", sc.name, len(h.trace)-1, h.lastShape, h.verdict)
		}
		run.Nontrivial(sc.name)
		h.finish()
	}

	// attachment compaction (mark and sweep of legacy attachment data) must leave the documents of the scenarios that held as they are
	if len(held) > 0 {
		if resp := e.req("POST", "/{{.db}}/_compact?type=attachment", "", nil); resp.Code != 200 {
			run.Note("attachment compaction could not be started: %d %s", resp.Code, c14Trunc(string(resp.Body), 200))
			return
		}
		deadline := time.Now().Add(60 * time.Second)
		state := ""
		for time.Now().Before(deadline) {
			resp := e.req("GET", "/{{.db}}/_compact?type=attachment", "", nil)
			var st struct {
				Status string `json:"status"`
			}
			_ = json.Unmarshal(resp.Body, &st)
			state = st.Status
			if state == "completed" || state == "error" || state == "stopped" {
				break
			}
			time.Sleep(20 * time.Millisecond)
		}
		if state != "completed" {
			run.Inconclusive("attachment compaction did not complete within the watchdog (state " + state + ")")
			return
		}
		run.Count("attachment_compactions_completed", 1)
		for _, h := range held {
			h.e.setMode(h.mode)
			h.lastShape, h.lastHazard, h.lastCas = "attachment-compaction-run", "", "none"
			h.trace = append(h.trace, map[string]any{"op": "POST /{{.db}}/_compact?type=attachment (completed)"})
			if h.check() {
				run.Count("scenario_documents_intact_after_attachment_compaction", 1)
			}
		}
	}
}
