//go:build verif

package rest

import (
	"context"
	"encoding/json"
	"errors"
	"strings"
	"sync"
	"sync/atomic"
	"testing"

	sgbucket "github.com/couchbase/sg-bucket"
	"github.com/couchbase/sync_gateway/base"
	"verif/vlib"
)

// vStore is the harness side of H1: a test bucket whose storage operations are logged and can be
// scheduled / failed.
type vStore struct {
	t   testing.TB
	tb  *base.TestBucket // pool bucket (un-faulted handle)
	vtb *base.TestBucket // handle routed through the VerifBucket
	vb  *base.VerifBucket

	mu    sync.Mutex
	log   []*base.VerifOp
	logOn atomic.Bool

	sched atomic.Pointer[vlib.Sched]
	// fault decides, per operation, whether to fail it. actor is "" for non-actor goroutines.
	fault atomic.Pointer[func(op *base.VerifOp, actor string) base.VerifDecision]
	// mid runs in the compute→CAS window of interactive updates.
	mid atomic.Pointer[func(op *base.VerifOp, actor string) error]
	// stepFilter limits which operations are scheduling points (nil = all ops of actors).
	stepFilter atomic.Pointer[func(op *base.VerifOp) bool]
	// postHook, if set, is called synchronously after every operation (before it returns to the caller)
	postHook atomic.Pointer[func(op *base.VerifOp)]
}

func newVStore(t testing.TB) *vStore {
	s := &vStore{t: t}
	s.tb = base.GetTestBucket(t)
	s.logOn.Store(true)
	s.vtb, s.vb = s.tb.VerifClone(&base.VerifHooks{Pre: s.pre, Post: s.post, Mid: s.midHook})
	return s
}

func (s *vStore) Close(ctx context.Context) { s.tb.Close(ctx) }

func verifOpLabel(op *base.VerifOp) string {
	k := op.Key
	// class of key rather than the key itself keeps fingerprints comparable
	switch {
	case strings.Contains(k, "unusedSeq"):
		k = "unused"
	case strings.HasSuffix(k, ":seq") || k == "_sync:seq":
		k = "seq"
	}
	return op.Kind + "(" + k + ")"
}

func (s *vStore) pre(op *base.VerifOp) base.VerifDecision {
	actor := ""
	if sc := s.sched.Load(); sc != nil {
		if a, ok := sc.ActorOf(op.Gid); ok {
			actor = a
			step := true
			if f := s.stepFilter.Load(); f != nil {
				step = (*f)(op)
			}
			if step {
				sc.StepGid(op.Gid, verifOpLabel(op))
			}
		}
	}
	if f := s.fault.Load(); f != nil {
		return (*f)(op, actor)
	}
	return base.VerifDecision{}
}

func (s *vStore) midHook(op *base.VerifOp) error {
	actor := ""
	if sc := s.sched.Load(); sc != nil {
		if a, ok := sc.ActorOf(op.Gid); ok {
			actor = a
			step := true
			if f := s.stepFilter.Load(); f != nil {
				step = (*f)(op)
			}
			if step {
				sc.StepGid(op.Gid, verifOpLabel(op))
			}
		}
	}
	if f := s.mid.Load(); f != nil {
		return (*f)(op, actor)
	}
	return nil
}

func (s *vStore) SetPostHook(f func(op *base.VerifOp)) {
	if f == nil {
		s.postHook.Store(nil)
		return
	}
	s.postHook.Store(&f)
}

func (s *vStore) post(op *base.VerifOp) {
	if f := s.postHook.Load(); f != nil {
		(*f)(op)
	}
	if !s.logOn.Load() {
		return
	}
	cp := *op
	s.mu.Lock()
	s.log = append(s.log, &cp)
	s.mu.Unlock()
}

func (s *vStore) ResetLog() { s.mu.Lock(); s.log = nil; s.mu.Unlock() }

func (s *vStore) Log() []*base.VerifOp {
	s.mu.Lock()
	defer s.mu.Unlock()
	return append([]*base.VerifOp{}, s.log...)
}

func (s *vStore) SetFault(f func(op *base.VerifOp, actor string) base.VerifDecision) {
	if f == nil {
		s.fault.Store(nil)
		return
	}
	s.fault.Store(&f)
}

func (s *vStore) SetMid(f func(op *base.VerifOp, actor string) error) {
	if f == nil {
		s.mid.Store(nil)
		return
	}
	s.mid.Store(&f)
}

func (s *vStore) SetStepFilter(f func(op *base.VerifOp) bool) {
	if f == nil {
		s.stepFilter.Store(nil)
		return
	}
	s.stepFilter.Store(&f)
}

func (s *vStore) SetSched(sc *vlib.Sched) { s.sched.Store(sc) }

// errInjected is the generic storage error injected by the harness.
var errInjected = errors.New("verif: injected storage error")

func verifCasMismatch() error { return sgbucket.CasMismatchErr{Expected: 1, Actual: 2} }


// verifSyncMeta is the part of the _sync xattr the monitors read.
type verifSyncMeta struct {
	Sequence        uint64   `json:"sequence"`
	Rev             any      `json:"rev"`
	RecentSequences []uint64 `json:"recent_sequences"`
	UnusedSequences []uint64 `json:"unused_sequences"`
	Flags           uint8    `json:"flags"`
}

func verifParseSync(x []byte) (verifSyncMeta, bool) {
	var m verifSyncMeta
	if len(x) == 0 {
		return m, false
	}
	if err := json.Unmarshal(x, &m); err != nil {
		return m, false
	}
	return m, true
}

// NewRestTester creates a RestTester whose bucket is this store (every storage operation of the
// server goes through the VerifBucket hooks).
func (s *vStore) NewRestTester(t testing.TB, cfg *RestTesterConfig) *RestTester {
	if cfg == nil {
		cfg = &RestTesterConfig{}
	}
	cfg.CustomTestBucket = s.vtb
	return NewRestTester(t, cfg)
}
