//go:build verif

// H1 of /verif/DESIGN.md: a complete wrapper of base.Bucket / base.DataStore that reports every
// storage operation to harness callbacks (before and after), lets the harness fail, delay or
// schedule it, and exposes the window between "new value computed" and "CAS write" of the
// interactive update operations. Overlaid into package base by /verif/check; not part of the
// product build.

package base

import (
	"bytes"
	"context"
	"runtime"
	"strconv"
	"sync"
	"sync/atomic"

	sgbucket "github.com/couchbase/sg-bucket"
)

// VerifOp describes one storage operation.
type VerifOp struct {
	N        uint64 // global index of the operation on this bucket
	Gid      uint64 // goroutine issuing it
	Kind     string // method name; "Update.mid"/"WriteUpdateWithXattrs.mid" for the compute→CAS window
	DS       string // data store name (bucket.scope.collection)
	Key      string
	Mutating bool
	CasIn    uint64
	Value    []byte            // body being written (writes) or read (reads), when available
	Xattrs   map[string][]byte // xattrs being written / read, when available
	Deleted  bool              // the write makes the document a tombstone / removes it
	// results
	CasOut  uint64
	Err     error
	Applied bool // a mutating op that reached the underlying store and succeeded there
	Added   bool
	Counter uint64 // Incr result
	Attempt int    // callback invocation count for interactive updates
	// PrevTombstone: the state the (last) update callback was computed from had no body but a CAS (a tombstone)
	PrevTombstone bool
}

type VerifAction int

const (
	VerifProceed    VerifAction = iota
	VerifFailBefore             // return Err without applying the operation
	VerifFailAfter              // apply the operation, then return Err (unknown outcome / timeout)
)

type VerifDecision struct {
	Action VerifAction
	Err    error
}

// VerifHooks are the harness callbacks. Any may be nil.
type VerifHooks struct {
	Pre  func(op *VerifOp) VerifDecision
	Post func(op *VerifOp)
	// Mid runs after the caller's update callback computed a new value and before the CAS write of
	// Update / WriteUpdateWithXattrs. It may perform interfering writes (forcing a CAS retry) or
	// block. Returning an error aborts the update with that error.
	Mid func(op *VerifOp) error
}

type VerifBucket struct {
	*LeakyBucket
	inner Bucket
	hooks atomic.Pointer[VerifHooks]
	opN   atomic.Uint64
	mu    sync.Mutex
	dss   map[string]*VerifDataStore
}

var _ Bucket = &VerifBucket{}
var _ WrappingBucket = &VerifBucket{}

func NewVerifBucket(b Bucket, hooks *VerifHooks) *VerifBucket {
	vb := &VerifBucket{LeakyBucket: NewLeakyBucket(b, LeakyBucketConfig{}), inner: b, dss: map[string]*VerifDataStore{}}
	if hooks != nil {
		vb.hooks.Store(hooks)
	}
	return vb
}

func (vb *VerifBucket) SetHooks(h *VerifHooks) { vb.hooks.Store(h) }

func (vb *VerifBucket) GetUnderlyingBucket() Bucket { return vb.inner }

func (vb *VerifBucket) wrap(ds sgbucket.DataStore) sgbucket.DataStore {
	bds, ok := ds.(DataStore)
	if !ok {
		return ds
	}
	name := ds.GetName()
	vb.mu.Lock()
	defer vb.mu.Unlock()
	if v, ok := vb.dss[name]; ok {
		return v
	}
	v := &VerifDataStore{LeakyDataStore: NewLeakyDataStore(vb.LeakyBucket, bds), ds: bds, vb: vb, name: name}
	vb.dss[name] = v
	return v
}

func (vb *VerifBucket) DefaultDataStore(ctx context.Context) sgbucket.DataStore {
	return vb.wrap(vb.inner.DefaultDataStore(ctx))
}

func (vb *VerifBucket) NamedDataStore(ctx context.Context, name sgbucket.DataStoreName) (sgbucket.DataStore, error) {
	ds, err := vb.inner.NamedDataStore(ctx, name)
	if err != nil {
		return nil, err
	}
	return vb.wrap(ds), nil
}

// VerifClone returns a TestBucket handle on the same underlying bucket whose storage operations go
// through a VerifBucket. The outer LeakyBucket (IgnoreClose) makes RestTester route its database
// connections to this handle.
func (tb *TestBucket) VerifClone(hooks *VerifHooks) (*TestBucket, *VerifBucket) {
	vb := NewVerifBucket(tb.Bucket, hooks)
	return &TestBucket{
		Bucket:     NewLeakyBucket(vb, LeakyBucketConfig{IgnoreClose: true}),
		BucketSpec: tb.BucketSpec,
		closeFn:    tb.Close,
		t:          tb.t,
	}, vb
}

// VerifGoroutineID returns the id of the calling goroutine.
func VerifGoroutineID() uint64 {
	var buf [64]byte
	n := runtime.Stack(buf[:], false)
	b := buf[:n]
	b = bytes.TrimPrefix(b, []byte("goroutine "))
	if i := bytes.IndexByte(b, ' '); i > 0 {
		id, _ := strconv.ParseUint(string(b[:i]), 10, 64)
		return id
	}
	return 0
}

type VerifDataStore struct {
	*LeakyDataStore
	ds   DataStore
	vb   *VerifBucket
	name string
}

var (
	_ DataStore         = &VerifDataStore{}
	_ WrappingDatastore = &VerifDataStore{}
)

func (v *VerifDataStore) GetUnderlyingDataStore() DataStore { return v.ds }

func (v *VerifDataStore) newOp(kind, key string, mutating bool) *VerifOp {
	return &VerifOp{N: v.vb.opN.Add(1), Gid: VerifGoroutineID(), Kind: kind, DS: v.name, Key: key, Mutating: mutating}
}

// pre returns (decision, hooks).
func (v *VerifDataStore) pre(op *VerifOp) (VerifDecision, *VerifHooks) {
	h := v.vb.hooks.Load()
	if h == nil || h.Pre == nil {
		return VerifDecision{}, h
	}
	return h.Pre(op), h
}

func (v *VerifDataStore) post(h *VerifHooks, op *VerifOp) {
	if h != nil && h.Post != nil {
		h.Post(op)
	}
}

// run executes a simple (non-interactive) operation under the hooks. apply performs the real
// operation and fills op's result fields, returning its error.
func (v *VerifDataStore) run(op *VerifOp, apply func() error) error {
	d, h := v.pre(op)
	switch d.Action {
	case VerifFailBefore:
		op.Err = d.Err
		v.post(h, op)
		return d.Err
	case VerifFailAfter:
		err := apply()
		op.Applied = err == nil && op.Mutating
		if err == nil {
			err = d.Err // applied, but the caller is told it failed (unknown outcome)
		}
		op.Err = err
		v.post(h, op)
		return err
	}
	err := apply()
	op.Err = err
	op.Applied = err == nil && op.Mutating
	v.post(h, op)
	return err
}

func verifBytes(val any) []byte {
	switch t := val.(type) {
	case []byte:
		return t
	case *[]byte:
		if t != nil {
			return *t
		}
	case nil:
		return nil
	default:
		if b, err := JSONMarshal(val); err == nil {
			return b
		}
	}
	return nil
}

// ---- reads

func (v *VerifDataStore) Get(ctx context.Context, k string, rv any) (cas uint64, err error) {
	op := v.newOp("Get", k, false)
	err = v.run(op, func() error {
		var e error
		cas, e = v.ds.Get(ctx, k, rv)
		op.CasOut = cas
		return e
	})
	if err != nil {
		return 0, err
	}
	return cas, nil
}

func (v *VerifDataStore) GetRaw(ctx context.Context, k string) (val []byte, cas uint64, err error) {
	op := v.newOp("GetRaw", k, false)
	err = v.run(op, func() error {
		var e error
		val, cas, e = v.ds.GetRaw(ctx, k)
		op.CasOut, op.Value = cas, val
		return e
	})
	if err != nil {
		return nil, 0, err
	}
	return val, cas, nil
}

func (v *VerifDataStore) GetWithXattrs(ctx context.Context, k string, xattrKeys []string) (body []byte, xattrs map[string][]byte, cas uint64, err error) {
	op := v.newOp("GetWithXattrs", k, false)
	err = v.run(op, func() error {
		var e error
		body, xattrs, cas, e = v.ds.GetWithXattrs(ctx, k, xattrKeys)
		op.CasOut, op.Value, op.Xattrs = cas, body, xattrs
		return e
	})
	if err != nil {
		return nil, nil, 0, err
	}
	return body, xattrs, cas, nil
}

func (v *VerifDataStore) GetXattrs(ctx context.Context, k string, xattrKeys []string) (xattrs map[string][]byte, cas uint64, err error) {
	op := v.newOp("GetXattrs", k, false)
	err = v.run(op, func() error {
		var e error
		xattrs, cas, e = v.ds.GetXattrs(ctx, k, xattrKeys)
		op.CasOut, op.Xattrs = cas, xattrs
		return e
	})
	if err != nil {
		return nil, 0, err
	}
	return xattrs, cas, nil
}

func (v *VerifDataStore) GetSubDocRaw(ctx context.Context, k string, subdocKey string) (val []byte, cas uint64, err error) {
	op := v.newOp("GetSubDocRaw", k, false)
	err = v.run(op, func() error {
		var e error
		val, cas, e = v.ds.GetSubDocRaw(ctx, k, subdocKey)
		op.CasOut, op.Value = cas, val
		return e
	})
	if err != nil {
		return nil, 0, err
	}
	return val, cas, nil
}

func (v *VerifDataStore) Exists(ctx context.Context, k string) (exists bool, err error) {
	op := v.newOp("Exists", k, false)
	err = v.run(op, func() error {
		var e error
		exists, e = v.ds.Exists(ctx, k)
		op.Added = exists
		return e
	})
	if err != nil {
		return false, err
	}
	return exists, nil
}

func (v *VerifDataStore) GetExpiry(ctx context.Context, k string) (expiry uint32, err error) {
	op := v.newOp("GetExpiry", k, false)
	err = v.run(op, func() error {
		var e error
		expiry, e = v.ds.GetExpiry(ctx, k)
		return e
	})
	if err != nil {
		return 0, err
	}
	return expiry, nil
}

// ---- writes

func (v *VerifDataStore) GetAndTouchRaw(ctx context.Context, k string, exp uint32) (val []byte, cas uint64, err error) {
	op := v.newOp("GetAndTouchRaw", k, true)
	err = v.run(op, func() error {
		var e error
		val, cas, e = v.ds.GetAndTouchRaw(ctx, k, exp)
		op.CasOut, op.Value = cas, val
		return e
	})
	if err != nil {
		return nil, 0, err
	}
	return val, cas, nil
}

func (v *VerifDataStore) Touch(ctx context.Context, k string, exp uint32) (cas uint64, err error) {
	op := v.newOp("Touch", k, true)
	err = v.run(op, func() error {
		var e error
		cas, e = v.ds.Touch(ctx, k, exp)
		op.CasOut = cas
		return e
	})
	if err != nil {
		return 0, err
	}
	return cas, nil
}

func (v *VerifDataStore) Add(ctx context.Context, k string, exp uint32, val any) (added bool, err error) {
	op := v.newOp("Add", k, true)
	op.Value = verifBytes(val)
	err = v.run(op, func() error {
		var e error
		added, e = v.ds.Add(ctx, k, exp, val)
		op.Added = added
		return e
	})
	if err != nil {
		return false, err
	}
	return added, nil
}

func (v *VerifDataStore) AddRaw(ctx context.Context, k string, exp uint32, val []byte) (added bool, err error) {
	op := v.newOp("AddRaw", k, true)
	op.Value = val
	err = v.run(op, func() error {
		var e error
		added, e = v.ds.AddRaw(ctx, k, exp, val)
		op.Added = added
		return e
	})
	if err != nil {
		return false, err
	}
	return added, nil
}

func (v *VerifDataStore) Set(ctx context.Context, k string, exp uint32, opts *sgbucket.UpsertOptions, val any) error {
	op := v.newOp("Set", k, true)
	op.Value = verifBytes(val)
	return v.run(op, func() error { return v.ds.Set(ctx, k, exp, opts, val) })
}

func (v *VerifDataStore) SetRaw(ctx context.Context, k string, exp uint32, opts *sgbucket.UpsertOptions, val []byte) error {
	op := v.newOp("SetRaw", k, true)
	op.Value = val
	return v.run(op, func() error { return v.ds.SetRaw(ctx, k, exp, opts, val) })
}

func (v *VerifDataStore) Delete(ctx context.Context, k string) error {
	op := v.newOp("Delete", k, true)
	op.Deleted = true
	return v.run(op, func() error { return v.ds.Delete(ctx, k) })
}

func (v *VerifDataStore) Remove(ctx context.Context, k string, cas uint64) (casOut uint64, err error) {
	op := v.newOp("Remove", k, true)
	op.CasIn, op.Deleted = cas, true
	err = v.run(op, func() error {
		var e error
		casOut, e = v.ds.Remove(ctx, k, cas)
		op.CasOut = casOut
		return e
	})
	if err != nil {
		return 0, err
	}
	return casOut, nil
}

func (v *VerifDataStore) WriteCas(ctx context.Context, k string, exp uint32, cas uint64, val any, opt sgbucket.WriteOptions) (casOut uint64, err error) {
	op := v.newOp("WriteCas", k, true)
	op.CasIn, op.Value = cas, verifBytes(val)
	err = v.run(op, func() error {
		var e error
		casOut, e = v.ds.WriteCas(ctx, k, exp, cas, val, opt)
		op.CasOut = casOut
		return e
	})
	if err != nil {
		return 0, err
	}
	return casOut, nil
}

func (v *VerifDataStore) Incr(ctx context.Context, k string, amt, def uint64, exp uint32) (val uint64, err error) {
	op := v.newOp("Incr", k, amt != 0)
	op.CasIn = amt
	err = v.run(op, func() error {
		var e error
		val, e = v.ds.Incr(ctx, k, amt, def, exp)
		op.Counter = val
		return e
	})
	if err != nil {
		return 0, err
	}
	return val, nil
}

func (v *VerifDataStore) Update(ctx context.Context, k string, exp uint32, callback sgbucket.UpdateFunc) (casOut uint64, err error) {
	op := v.newOp("Update", k, true)
	d, h := v.pre(op)
	if d.Action == VerifFailBefore {
		op.Err = d.Err
		v.post(h, op)
		return 0, d.Err
	}
	wrapped := func(current []byte) (updated []byte, expiry *uint32, isDelete bool, cbErr error) {
		updated, expiry, isDelete, cbErr = callback(current)
		op.Attempt++
		if cbErr != nil {
			return
		}
		op.Value, op.Deleted = updated, isDelete
		if h != nil && h.Mid != nil {
			mid := &VerifOp{N: op.N, Gid: op.Gid, Kind: "Update.mid", DS: op.DS, Key: k, Mutating: true, Value: updated, Deleted: isDelete, Attempt: op.Attempt}
			if merr := h.Mid(mid); merr != nil {
				return nil, nil, false, merr
			}
		}
		return
	}
	casOut, err = v.ds.Update(ctx, k, exp, wrapped)
	op.CasOut = casOut
	op.Applied = err == nil
	if d.Action == VerifFailAfter && err == nil {
		err = d.Err
		casOut = 0
	}
	op.Err = err
	v.post(h, op)
	return casOut, err
}

func (v *VerifDataStore) WriteUpdateWithXattrs(ctx context.Context, k string, xattrKeys []string, exp uint32, previous *sgbucket.BucketDocument, opts *sgbucket.MutateInOptions, callback sgbucket.WriteUpdateWithXattrsFunc) (casOut uint64, err error) {
	op := v.newOp("WriteUpdateWithXattrs", k, true)
	if previous != nil {
		op.CasIn = previous.Cas
	}
	d, h := v.pre(op)
	if d.Action == VerifFailBefore {
		op.Err = d.Err
		v.post(h, op)
		return 0, d.Err
	}
	wrapped := func(current []byte, xattrs map[string][]byte, cas uint64) (sgbucket.UpdatedDoc, error) {
		upd, cbErr := callback(current, xattrs, cas)
		op.Attempt++
		op.CasIn, op.PrevTombstone = cas, current == nil && cas != 0
		if cbErr != nil {
			return upd, cbErr
		}
		op.Value, op.Xattrs, op.Deleted = upd.Doc, upd.Xattrs, upd.IsTombstone
		if h != nil && h.Mid != nil {
			mid := &VerifOp{N: op.N, Gid: op.Gid, Kind: "WriteUpdateWithXattrs.mid", DS: op.DS, Key: k, Mutating: true, CasIn: cas, Value: upd.Doc, Xattrs: upd.Xattrs, Deleted: upd.IsTombstone, Attempt: op.Attempt}
			if merr := h.Mid(mid); merr != nil {
				return sgbucket.UpdatedDoc{}, merr
			}
		}
		return upd, nil
	}
	casOut, err = v.ds.WriteUpdateWithXattrs(ctx, k, xattrKeys, exp, previous, opts, wrapped)
	op.CasOut = casOut
	op.Applied = err == nil
	if d.Action == VerifFailAfter && err == nil {
		err = d.Err
		casOut = 0
	}
	op.Err = err
	v.post(h, op)
	return casOut, err
}

func (v *VerifDataStore) WriteWithXattrs(ctx context.Context, k string, exp uint32, cas uint64, value []byte, xattrs map[string][]byte, xattrsToDelete []string, opts *sgbucket.MutateInOptions) (casOut uint64, err error) {
	op := v.newOp("WriteWithXattrs", k, true)
	op.CasIn, op.Value, op.Xattrs = cas, value, xattrs
	err = v.run(op, func() error {
		var e error
		casOut, e = v.ds.WriteWithXattrs(ctx, k, exp, cas, value, xattrs, xattrsToDelete, opts)
		op.CasOut = casOut
		return e
	})
	if err != nil {
		return 0, err
	}
	return casOut, nil
}

func (v *VerifDataStore) WriteTombstoneWithXattrs(ctx context.Context, k string, exp uint32, cas uint64, xv map[string][]byte, xattrsToDelete []string, deleteBody bool, opts *sgbucket.MutateInOptions) (casOut uint64, err error) {
	op := v.newOp("WriteTombstoneWithXattrs", k, true)
	op.CasIn, op.Xattrs, op.Deleted = cas, xv, true
	err = v.run(op, func() error {
		var e error
		casOut, e = v.ds.WriteTombstoneWithXattrs(ctx, k, exp, cas, xv, xattrsToDelete, deleteBody, opts)
		op.CasOut = casOut
		return e
	})
	if err != nil {
		return 0, err
	}
	return casOut, nil
}

func (v *VerifDataStore) WriteResurrectionWithXattrs(ctx context.Context, k string, exp uint32, body []byte, xv map[string][]byte, opts *sgbucket.MutateInOptions) (casOut uint64, err error) {
	op := v.newOp("WriteResurrectionWithXattrs", k, true)
	op.Value, op.Xattrs = body, xv
	err = v.run(op, func() error {
		var e error
		casOut, e = v.ds.WriteResurrectionWithXattrs(ctx, k, exp, body, xv, opts)
		op.CasOut = casOut
		return e
	})
	if err != nil {
		return 0, err
	}
	return casOut, nil
}

func (v *VerifDataStore) UpdateXattrs(ctx context.Context, k string, exp uint32, cas uint64, xv map[string][]byte, opts *sgbucket.MutateInOptions) (casOut uint64, err error) {
	op := v.newOp("UpdateXattrs", k, true)
	op.CasIn, op.Xattrs = cas, xv
	err = v.run(op, func() error {
		var e error
		casOut, e = v.ds.UpdateXattrs(ctx, k, exp, cas, xv, opts)
		op.CasOut = casOut
		return e
	})
	if err != nil {
		return 0, err
	}
	return casOut, nil
}

func (v *VerifDataStore) SetXattrs(ctx context.Context, k string, xv map[string][]byte) (casOut uint64, err error) {
	op := v.newOp("SetXattrs", k, true)
	op.Xattrs = xv
	err = v.run(op, func() error {
		var e error
		casOut, e = v.ds.SetXattrs(ctx, k, xv)
		op.CasOut = casOut
		return e
	})
	if err != nil {
		return 0, err
	}
	return casOut, nil
}

func (v *VerifDataStore) RemoveXattrs(ctx context.Context, k string, xattrKeys []string, cas uint64) error {
	op := v.newOp("RemoveXattrs", k, true)
	op.CasIn = cas
	return v.run(op, func() error { return v.ds.RemoveXattrs(ctx, k, xattrKeys, cas) })
}

func (v *VerifDataStore) DeleteSubDocPaths(ctx context.Context, k string, paths ...string) error {
	op := v.newOp("DeleteSubDocPaths", k, true)
	return v.run(op, func() error { return v.ds.DeleteSubDocPaths(ctx, k, paths...) })
}

func (v *VerifDataStore) DeleteWithXattrs(ctx context.Context, k string, xattrKeys []string) error {
	op := v.newOp("DeleteWithXattrs", k, true)
	op.Deleted = true
	return v.run(op, func() error { return v.ds.DeleteWithXattrs(ctx, k, xattrKeys) })
}

func (v *VerifDataStore) SubdocInsert(ctx context.Context, k string, fieldPath string, cas uint64, value any) error {
	op := v.newOp("SubdocInsert", k, true)
	op.CasIn, op.Value = cas, verifBytes(value)
	return v.run(op, func() error { return v.ds.SubdocInsert(ctx, k, fieldPath, cas, value) })
}

func (v *VerifDataStore) WriteSubDoc(ctx context.Context, k string, subdocKey string, cas uint64, value []byte) (casOut uint64, err error) {
	op := v.newOp("WriteSubDoc", k, true)
	op.CasIn, op.Value = cas, value
	err = v.run(op, func() error {
		var e error
		casOut, e = v.ds.WriteSubDoc(ctx, k, subdocKey, cas, value)
		op.CasOut = casOut
		return e
	})
	if err != nil {
		return 0, err
	}
	return casOut, nil
}
