//go:build verif

package base

// C19, base level: InjectJSONProperties / InjectJSONPropertiesFromBytes (the byte-level splice every read
// path uses to add _id, _rev, _cv, _revisions, _attachments, _deleted, _exp to a stored body) must return
// a JSON text whose value is the input object's value plus exactly the injected keys, for every generated
// input object: odd whitespace, empty object, trailing spaces, escapes, braces inside strings, duplicate
// keys, big numbers.

import (
	"bytes"
	"encoding/json"
	"fmt"
	"testing"

	"verif/vlib"
)

type c19InjKV struct {
	Key  string
	Val  any
	JSON string // expected JSON text of the value (independent of InjectJSONProperties' own fast paths)
}

func c19InjectValues(r *vlib.Rand, g *c19Gen) []c19InjKV {
	keys := []string{"_id", "_rev", "_cv", "_revisions", "_attachments", "_deleted", "_exp", "_sync", "cv", "_xattrs"}
	n := r.Range(1, 4)
	perm := r.Perm(len(keys))
	out := make([]c19InjKV, 0, n)
	for i := 0; i < n; i++ {
		k := keys[perm[i]]
		var v any
		var js string
		switch r.Intn(12) {
		case 0:
			s := string(g.runes(r.Range(0, 8)))
			v = s
			b, _ := json.Marshal(s)
			js = string(b)
		case 1:
			s := fmt.Sprintf("%d-%x", r.Range(1, 99), r.Uint64())
			v, js = s, `"`+s+`"`
		case 2:
			x := int(r.Uint64()>>1) * (1 - 2*r.Intn(2))
			v, js = x, fmt.Sprint(x)
		case 3:
			x := int64(r.Uint64())
			v, js = x, fmt.Sprint(x)
		case 4:
			x := r.Uint64() | 1<<63
			v, js = x, fmt.Sprint(x)
		case 5:
			x := uint32(r.Uint64())
			v, js = x, fmt.Sprint(x)
		case 6:
			x := r.Bool()
			v, js = x, fmt.Sprint(x)
		case 7:
			m := map[string]any{"start": r.Range(1, 9), "ids": []string{"a}", `b"`, "{"}}
			v = m
			b, _ := json.Marshal(m)
			js = string(b)
		case 8:
			v, js = nil, "null"
		case 9:
			m := map[string]any{}
			v, js = m, "{}"
		case 10:
			x := int8(r.Intn(256) - 128)
			v, js = x, fmt.Sprint(x)
		default:
			x := json.Number(vlib.Pick(r, c19BoundaryInts))
			v, js = x, string(x)
		}
		out = append(out, c19InjKV{Key: k, Val: v, JSON: js})
	}
	return out
}

func TestVerif_C19_Inject(t *testing.T) {
	run := vlib.Start(t, "C19", "inject")
	defer run.Finish()
	total := run.N(6000, 200000)
	only, onlyOK := run.OnlyCase()
	for ci := 0; ci < total; ci++ {
		if onlyOK && ci != only {
			continue
		}
		r := run.CaseRand(ci)
		body, feats := c19GenBody(r, ci)
		st := c19NewStyle(r.Fork(7))
		text := c19Render(body, st)
		if err := c19SelfCheck(body, text); err != nil {
			t.Fatalf("monitor self-check failed on case %d: %v", ci, err)
		}
		run.Count("monitor_selfchecks", 1)
		g := &c19Gen{r: r.Fork(9), feat: map[string]bool{}}
		kvs := c19InjectValues(r.Fork(11), g)
		// with a small probability inject a key the body already has: the injected (last) one wins
		bodyC := c19FromAST(body)
		if r.Chance(1, 10) && len(body.M) > 0 {
			kvs[0].Key = string(body.M[r.Intn(len(body.M))].Key)
			// InjectJSONProperties writes keys verbatim: only keys that need no escaping are legal for it
			ok := true
			for _, c := range kvs[0].Key {
				if c == '"' || c == '\\' || c < 0x20 {
					ok = false
				}
			}
			if !ok {
				kvs[0].Key = "_id"
			} else {
				run.Count("injected_key_already_present", 1)
			}
		}
		want := &c19C{K: c19KObj, O: map[string]*c19C{}}
		for k, v := range bodyC.O {
			want.O[k] = v
		}
		pairs := make([]KVPair, len(kvs))
		pairsB := make([]KVPairBytes, len(kvs))
		for i, kv := range kvs {
			pv, err := c19Parse([]byte(kv.JSON))
			if err != nil {
				t.Fatalf("harness: expected JSON of an injected value does not parse: %v %q", err, kv.JSON)
			}
			want.O[kv.Key] = pv
			pairs[i] = KVPair{Key: kv.Key, Val: kv.Val}
			pairsB[i] = KVPairBytes{Key: kv.Key, Val: []byte(kv.JSON)}
		}
		class := "non-empty-object"
		if len(body.M) == 0 {
			class = "empty-object"
			if bytes.TrimSpace([]byte(text))[1] != '}' {
				class = "empty-object-with-inner-whitespace"
			}
		}
		if st.WS > 0 && (text[0] != '{' || text[len(text)-1] != '}') {
			run.Count("inputs_with_surrounding_whitespace", 1)
		}
		run.Distinct("input_classes", class+"/"+st.String())
		for _, f := range feats {
			run.Distinct("features", f)
		}
		for variant := 0; variant < 2; variant++ {
			name := "InjectJSONProperties"
			in := []byte(text)
			keep := append([]byte{}, in...)
			var out []byte
			var err error
			if variant == 0 {
				out, err = InjectJSONProperties(in, pairs...)
			} else {
				name = "InjectJSONPropertiesFromBytes"
				out, err = InjectJSONPropertiesFromBytes(in, pairsB...)
			}
			run.Eval()
			run.Count("injections", 1)
			run.Count("bytes_compared", len(text)+len(out))
			witness := map[string]any{"case": ci, "function": name, "input": text, "injected": kvs, "output": string(out), "style": st.String()}
			if err != nil {
				run.Violation("inject", "C19|inject|"+name+"|"+class+"|error-on-valid-object", fmt.Sprintf("%s(%q) returned error %v", name, text, err), witness)
				continue
			}
			if !bytes.Equal(in, keep) {
				run.Violation("inject", "C19|inject|"+name+"|"+class+"|input-slice-modified", fmt.Sprintf("%s modified its input %q -> %q", name, keep, in), witness)
			}
			got, perr := c19Parse(out)
			if perr != nil {
				run.Violation("inject", "C19|inject|"+name+"|"+class+"|result-not-valid-json", fmt.Sprintf("%s(%q, %v) = %q: %v", name, text, kvs, out, perr), witness)
				continue
			}
			if d := c19Equal(want, got, "$", true); d != nil {
				witness["diff"] = d
				cls := d.Class
				if len(cls) > 40 {
					cls = cls[:40]
				}
				run.Violation("inject", "C19|inject|"+name+"|"+class+"|value-changed:"+cls, fmt.Sprintf("%s(%q, %v) = %q: %+v", name, text, kvs, out, *d), witness)
				continue
			}
			run.Count("injections_exact", 1)
		}
		// no pairs: the input comes back as it is
		if out, err := InjectJSONProperties([]byte(text)); err != nil || string(out) != text {
			run.Violation("inject", "C19|inject|InjectJSONProperties|no-pairs-not-identity", fmt.Sprintf("InjectJSONProperties(%q) = %q, %v", text, out, err), map[string]any{"input": text})
		}
		run.Nontrivial(class + "|" + st.String() + "|" + fmt.Sprint(len(kvs)) + "|" + fmt.Sprint(feats))
		if ci < 3 {
			run.Sample(map[string]any{"case": ci, "input": text, "injected": kvs})
		}
	}
}
