//go:build verif

package auth

// C12 — "Only valid credentials and live sessions authenticate" (auth level).
//
// Parts in this file (all in package auth):
//   histories  model-based seeded histories (CredModel) + fast-path differential + batched expiry
//   sched      step-scheduler enumeration: one-time presentations, logout vs refreshing presentation, password
//              change vs presentation
//   race       (race detector) N concurrent presentations of one one-time session; concurrent password attempts
//              against the verified-password cache
// One-time sessions are judged on rosmar as shipped and on rosmar behind a shim that gives Delete the Couchbase
// Server contract (deleting a missing / already deleted key fails): rosmar's remove() succeeds on a tombstone.
//
// Shared store helper (c12Store) is local to this file: there is no common file in harness/auth.

import (
	"context"
	"crypto/sha1"
	"encoding/json"
	"fmt"
	"net/http"
	"net/http/httptest"
	"os"
	"runtime"
	"sort"
	"strconv"
	"strings"
	"sync"
	"sync/atomic"
	"testing"
	"time"

	sgbucket "github.com/couchbase/sg-bucket"
	"github.com/couchbase/sync_gateway/base"
	"golang.org/x/crypto/bcrypt"
	"verif/vlib"
)

// ---------------------------------------------------------------------------------------------
// store helper (H1)

type c12Store struct {
	t   testing.TB
	ctx context.Context
	tb  *base.TestBucket
	vtb *base.TestBucket
	vb  *base.VerifBucket
	ds  base.DataStore // routed through the VerifBucket
	raw base.DataStore // un-hooked handle on the same data store (oracle reads)

	sched atomic.Pointer[vlib.Sched]
	// cbsDelete: emulate the Couchbase Server contract "delete of a missing / already deleted key fails with
	// key-not-found" on top of rosmar (whose remove() tombstones a tombstone successfully).
	cbsDelete atomic.Bool
	delMu     sync.Mutex
	// failDelete: fail every Delete/Remove whose key contains Key with Err, without applying it (injected fault)
	failDelete atomic.Pointer[c12DelFault]
	delHeld    sync.Map // op.N -> struct{} for Delete ops that hold delMu between Pre and Post

	mu  sync.Mutex
	log []string // "actor:Kind(keyclass)=err" of actor goroutines (for witnesses)
}

type c12DelFault struct {
	Key string
	Err error
}

var c12ErrInjected = fmt.Errorf("verif: injected storage error (temporary failure)")

func c12NewStore(t testing.TB) *c12Store {
	s := &c12Store{t: t, ctx: base.TestCtx(t)}
	s.tb = base.GetTestBucket(t)
	s.vtb, s.vb = s.tb.VerifClone(&base.VerifHooks{Pre: s.pre, Post: s.post})
	s.ds = s.vtb.GetMetadataStore().(base.DataStore)
	s.raw = s.tb.GetMetadataStore().(base.DataStore)
	return s
}

func (s *c12Store) Close() { s.tb.Close(s.ctx) }

func c12KeyClass(k string) string {
	switch {
	case strings.Contains(k, ":session:"):
		return "session"
	case strings.Contains(k, ":user:"):
		return "user"
	case strings.Contains(k, "useremail"):
		return "email"
	}
	return "other"
}

func (s *c12Store) pre(op *base.VerifOp) base.VerifDecision {
	if sc := s.sched.Load(); sc != nil {
		if _, ok := sc.ActorOf(op.Gid); ok {
			sc.StepGid(op.Gid, op.Kind+"("+c12KeyClass(op.Key)+")")
		}
	}
	if op.Kind == "Delete" || op.Kind == "Remove" {
		if f := s.failDelete.Load(); f != nil && strings.Contains(op.Key, f.Key) {
			return base.VerifDecision{Action: base.VerifFailBefore, Err: f.Err}
		}
	}
	if (op.Kind == "Delete" || op.Kind == "Remove") && s.cbsDelete.Load() {
		s.delMu.Lock()
		s.delHeld.Store(op.N, struct{}{})
		if _, _, err := s.raw.GetRaw(s.ctx, op.Key); err != nil && base.IsDocNotFoundError(err) {
			return base.VerifDecision{Action: base.VerifFailBefore, Err: sgbucket.MissingError{Key: op.Key}}
		}
	}
	return base.VerifDecision{}
}

func (s *c12Store) post(op *base.VerifOp) {
	if _, ok := s.delHeld.LoadAndDelete(op.N); ok {
		s.delMu.Unlock()
	}
	if sc := s.sched.Load(); sc != nil {
		if a, ok := sc.ActorOf(op.Gid); ok {
			e := "ok"
			if op.Err != nil {
				e = "err"
				if base.IsDocNotFoundError(op.Err) {
					e = "notfound"
				} else if op.Err == base.ErrUpdateCancel {
					e = "cancel"
				}
			}
			s.mu.Lock()
			s.log = append(s.log, a+":"+op.Kind+"("+c12KeyClass(op.Key)+")="+e)
			s.mu.Unlock()
		}
	}
}

func (s *c12Store) takeLog() []string {
	s.mu.Lock()
	defer s.mu.Unlock()
	l := s.log
	s.log = nil
	return l
}

func (s *c12Store) newAuth(metaID string) *Authenticator {
	opts := DefaultAuthenticatorOptions(s.ctx)
	opts.BcryptCost = bcrypt.MinCost // cost is irrelevant to the property; SetBcryptCost would refuse it
	opts.MetaKeys = base.NewMetadataKeys(metaID)
	return NewAuthenticator(s.ds, nil, opts)
}

// c12StoredUser is what the oracle reads from the raw user document (independent of userImpl).
type c12StoredUser struct {
	Hash        []byte `json:"passwordhash_bcrypt"`
	Disabled    bool   `json:"disabled"`
	SessionUUID string `json:"session_uuid"`
}

func (s *c12Store) storedUser(a *Authenticator, name string) (*c12StoredUser, bool) {
	b, _, err := s.raw.GetRaw(s.ctx, a.DocIDForUser(name))
	if err != nil || b == nil {
		return nil, false
	}
	var u c12StoredUser
	if json.Unmarshal(b, &u) != nil {
		return nil, false
	}
	return &u, true
}

func c12Q(s string) string {
	if len(s) > 90 {
		return strconv.Quote(s[:40]) + fmt.Sprintf("…(%d bytes)…", len(s)) + strconv.Quote(s[len(s)-8:])
	}
	return strconv.Quote(s)
}

// c12BcryptKey is the 72-byte key bcrypt actually uses for a password: password+NUL repeated cyclically.
// Two different strings with the same key are indistinguishable to bcrypt itself.
func c12BcryptKey(pw string) [72]byte {
	k := append([]byte(pw), 0)
	var out [72]byte
	for i := range out {
		out[i] = k[i%len(k)]
	}
	return out
}

func c12CookieAuth(a *Authenticator, id string) (User, error) {
	req, _ := http.NewRequest(http.MethodGet, "http://localhost/db/", nil)
	req.AddCookie(&http.Cookie{Name: a.SessionCookieName, Value: id})
	return a.AuthenticateCookie(req, httptest.NewRecorder())
}

func c12Hop(hop bool, f func()) {
	if !hop {
		f()
		return
	}
	done := make(chan struct{})
	go func() { defer close(done); f() }()
	<-done
}

// c12Baseline are the signatures observed on the unchanged tree (reported as candidate findings). With
// VERIF_C12_KNOWN=notes they are recorded as notes instead of violations, so that a self-test run against a mutant is
// decided only by what the mutant adds. The default is to report everything.
var c12Baseline = map[string]bool{
	"C12|auth|AuthenticateCookie|user-disabled-after-session-created|accepted":                                         true,
	"C12|auth|AuthenticateOneTimeSession|user-disabled-after-session-created|accepted":                                 true,
	"C12|auth|AuthenticateCookie|session-deleted|accepted|logout-overlapped-by-refresh-of-concurrent-presentation":     true,
	"C12|auth|password|wrong-password-same-bcrypt-key(nul-cycle)|accepted":                                             true,
	"C12|auth|password|wrong-password-same-bcrypt-key(beyond-72-bytes)|accepted":                                       true,
	"C12|one-time|concurrent-presentations|accepted-more-than-once|store=rosmar-as-is(delete-of-deleted-key-succeeds)": true,
}

func c12Violation(run *vlib.Run, oracle, sig, msg string, wit any) {
	if strings.Contains(sig, "store=rosmar-as-is") {
		// Not decided on this store: rosmar lets Delete of an already deleted key succeed, Couchbase Server answers
		// key-not-found, and consuming a one-time session relies on that answer. The same schedules are decided on
		// the store variant that follows the Couchbase contract; here the observation is only counted.
		run.Count("one_time_double_accept_on_rosmar_as_is_not_deciding", 1)
		run.Note("non-deciding (store artefact): %s: %s", sig, msg)
		return
	}
	if c12Baseline[sig] && os.Getenv("VERIF_C12_KNOWN") == "notes" {
		run.Count("baseline_findings_recorded_as_notes", 1)
		run.Distinct("baseline_signatures_as_notes", sig)
		return
	}
	run.Violation(oracle, sig, msg, wit)
}

// ---------------------------------------------------------------------------------------------
// CredModel

type c12MUser struct {
	exists   bool
	disabled bool
	pw       string
	epoch    int // credential epoch: new on create and on every successful SetPassword
	incarn   int // incarnation: new on create
	old      []string
}

type c12MSess struct {
	idx      int
	id       string
	user     string
	epoch    int
	incarn   int
	oneTime  bool
	short    bool // 1 s TTL: may have expired at any time; only "must reject" is asserted
	deleted  bool
	consumed bool
}

type c12OpRec struct {
	N      int    `json:"n"`
	Op     string `json:"op"`
	User   string `json:"user,omitempty"`
	Pw     string `json:"pw,omitempty"` // Go-quoted
	Sess   string `json:"sess,omitempty"`
	Via    string `json:"via,omitempty"`
	Class  string `json:"class,omitempty"`
	Hop    bool   `json:"hop,omitempty"`
	Expect string `json:"expect,omitempty"`
	Result string `json:"result"`
}

type c12Hist struct {
	run   *vlib.Run
	st    *c12Store
	a     *Authenticator
	idx   int
	r     *vlib.Rand
	names []string
	users map[string]*c12MUser
	sess  []*c12MSess
	ops   []c12OpRec
	epoch int
	pwN   int

	sawAccept, sawStaleReject bool
}

func c12NewHist(run *vlib.Run, st *c12Store, idx int, r *vlib.Rand) *c12Hist {
	h := &c12Hist{run: run, st: st, idx: idx, r: r, names: []string{"alice", "bob", "carol"}, users: map[string]*c12MUser{}}
	h.a = st.newAuth(fmt.Sprintf("c12s%dh%d", run.Seed, idx))
	for _, n := range h.names {
		h.users[n] = &c12MUser{}
	}
	return h
}

func (h *c12Hist) rec(o c12OpRec) *c12OpRec {
	o.N = len(h.ops)
	h.ops = append(h.ops, o)
	return &h.ops[len(h.ops)-1]
}

func (h *c12Hist) witness() any {
	return map[string]any{"case": h.idx, "metadata_id": h.a.MetaKeys.UserKeyPrefix(), "bcrypt_cost": h.a.BcryptCost,
		"note": "pw fields are Go-quoted strings; ops are executed in order on one Authenticator over the rosmar test bucket; hop = executed on a fresh goroutine",
		"ops":  h.ops}
}

func (h *c12Hist) violation(oracle, sig, msg string) {
	c12Violation(h.run, oracle, sig, fmt.Sprintf("case %d op %d: %s", h.idx, len(h.ops)-1, msg), h.witness())
}

// genPassword returns a new password and its input class.
func (h *c12Hist) genPassword() (string, string) {
	h.pwN++
	mark := fmt.Sprintf("pw%d.%d.%04x", h.idx, h.pwN, h.r.Intn(0x10000))
	switch k := h.r.Intn(32); {
	case k < 5:
		return "", "empty"
	case k < 7:
		return (mark + strings.Repeat("L", 72))[:72], "len72"
	case k < 9:
		return mark + strings.Repeat("x", h.r.Range(73-len(mark), 300)), "too-long"
	case k < 13:
		return "pä߀💥" + mark + "ñ", "unicode"
	case k < 15:
		return "a\x00" + mark, "nul-inside"
	case k < 16:
		return "\x00" + mark, "nul-first"
	case k < 17:
		return mark + "\x00", "nul-last"
	case k < 19:
		return "\xff\xfe" + mark + "\x80", "invalid-utf8"
	case k < 21:
		return string(rune('a' + h.r.Intn(26))), "one-char"
	case k < 22:
		return mark + " ", "trailing-space"
	default:
		return mark, "ascii"
	}
}

// wrongPassword derives an attempt that is not the current password of name.
func (h *c12Hist) wrongPassword(name string) (string, string) {
	u := h.users[name]
	p := u.pw
	for try := 0; try < 8; try++ {
		var w, class string
		switch h.r.Intn(14) {
		case 0:
			w, class = "", "empty"
		case 1:
			if len(u.old) > 0 {
				w, class = vlib.Pick(h.r, u.old), "old-password"
			}
		case 2:
			o := h.users[vlib.Pick(h.r, h.names)]
			w, class = o.pw, "other-users-password"
		case 3:
			if len(p) > 1 {
				w, class = p[:h.r.Range(1, len(p)-1)], "prefix"
			}
		case 4:
			if len(p) > 1 {
				w, class = p[h.r.Range(1, len(p)-1):], "suffix"
			}
		case 5:
			w, class = p+"x", "plus-suffix"
		case 6:
			w, class = p+"\x00", "plus-nul"
		case 7:
			w, class = "\x00"+p, "nul-plus"
		case 8:
			w, class = strings.ToUpper(p), "upper"
		case 9:
			w, class = p+"\x00"+p, "nul-cycle" // same bcrypt key as p (password+NUL is cycled)
		case 10:
			if len(p) == 72 {
				w, class = p+"tail", "beyond-72" // bcrypt ignores everything after 72 bytes
			} else {
				w, class = p+p, "doubled"
			}
		case 11:
			w, class = fmt.Sprintf("guess%x", h.r.Intn(1<<20)), "random"
		case 12:
			if len(p) > 0 {
				b := []byte(p)
				b[h.r.Intn(len(b))] ^= 1
				w, class = string(b), "one-bit"
			}
		default:
			w, class = " "+p, "space-plus"
		}
		if class != "" && w != p {
			return w, class
		}
	}
	return p + "#", "plus-suffix"
}

// expectPassword: (mustReject, reason, equivClass). The property: accept only if the user exists, is not
// disabled and the attempt is the current password.
func (h *c12Hist) expectPassword(name, pw string) (bool, string) {
	u := h.users[name]
	switch {
	case !u.exists:
		return true, "user-missing"
	case u.disabled:
		return true, "user-disabled"
	case pw != u.pw:
		if c12BcryptKey(pw) == c12BcryptKey(u.pw) && u.pw != "" {
			if len(pw) > 72 && len(u.pw) >= 72 {
				return true, "wrong-password-same-bcrypt-key(beyond-72-bytes)"
			}
			return true, "wrong-password-same-bcrypt-key(nul-cycle)"
		}
		return true, "wrong-password"
	}
	return false, ""
}

func (h *c12Hist) expectSession(s *c12MSess) (bool, string) {
	if s == nil {
		return true, "unknown-session-id"
	}
	u := h.users[s.user]
	switch {
	case s.deleted:
		return true, "session-deleted"
	case s.consumed:
		return true, "one-time-session-already-used"
	case !u.exists:
		return true, "user-deleted"
	case u.incarn != s.incarn:
		if u.pw == "" {
			return true, "session-of-deleted-user-after-recreate(new-password-empty)"
		}
		return true, "session-of-deleted-user-after-recreate"
	case u.epoch != s.epoch:
		if u.pw == "" {
			return true, "session-before-password-change(new-password-empty)"
		}
		return true, "session-before-password-change"
	case u.disabled:
		return true, "user-disabled-after-session-created"
	}
	return false, ""
}

// ---- operations

func (h *c12Hist) opCreate(name string) {
	pw, class := h.genPassword()
	o := h.rec(c12OpRec{Op: "create-user", User: name, Pw: c12Q(pw), Class: class})
	var user User
	var err error
	if h.r.Bool() {
		user, err = h.a.NewUser(name, pw, base.Set{})
	} else {
		user, err = h.a.NewUserNoChannels(name, pw)
	}
	if err == nil {
		err = h.a.Save(user)
	}
	if err != nil {
		o.Result = "error: " + err.Error()
		if class != "too-long" {
			h.run.Count("unexpected_op_error", 1)
			h.run.Note("case %d: create-user %s failed: %v", h.idx, class, err)
		}
		return
	}
	o.Result = "ok"
	if class == "too-long" {
		h.run.Note("case %d: a %d byte password was accepted by SetPassword", h.idx, len(pw))
	}
	u := h.users[name]
	h.epoch++
	old := u.old
	if u.pw != "" || u.incarn > 0 {
		old = append(old, u.pw)
	}
	*u = c12MUser{exists: true, pw: pw, epoch: h.epoch, incarn: h.epoch, old: old}
	h.run.Distinct("password_classes", class)
}

func (h *c12Hist) opSetPassword(name string) {
	pw, class := h.genPassword()
	o := h.rec(c12OpRec{Op: "set-password", User: name, Pw: c12Q(pw), Class: class})
	user, err := h.a.GetUser(name)
	if err != nil || user == nil {
		o.Result = fmt.Sprintf("no user (%v)", err)
		return
	}
	if err = user.SetPassword(pw); err == nil {
		err = h.a.Save(user)
	}
	if err != nil {
		o.Result = "error: " + err.Error()
		if class != "too-long" {
			h.run.Count("unexpected_op_error", 1)
			h.run.Note("case %d: set-password %s failed: %v", h.idx, class, err)
		}
		return
	}
	o.Result = "ok"
	u := h.users[name]
	h.epoch++
	u.old = append(u.old, u.pw)
	u.pw, u.epoch = pw, h.epoch
	h.run.Distinct("password_classes", class)
	h.run.Count("password_changes", 1)
}

func (h *c12Hist) opDisable(name string, disabled bool) {
	o := h.rec(c12OpRec{Op: map[bool]string{true: "disable-user", false: "enable-user"}[disabled], User: name})
	user, err := h.a.GetUser(name)
	if err != nil || user == nil {
		o.Result = fmt.Sprintf("no user (%v)", err)
		return
	}
	user.SetDisabled(disabled)
	if err = h.a.Save(user); err != nil {
		o.Result = "error: " + err.Error()
		h.run.Count("unexpected_op_error", 1)
		return
	}
	o.Result = "ok"
	h.users[name].disabled = disabled
}

func (h *c12Hist) opDelete(name string) {
	o := h.rec(c12OpRec{Op: "delete-user", User: name})
	user, err := h.a.GetUser(name)
	if err != nil || user == nil {
		o.Result = fmt.Sprintf("no user (%v)", err)
		return
	}
	if err = h.a.DeleteUser(user); err != nil {
		o.Result = "error: " + err.Error()
		h.run.Count("unexpected_op_error", 1)
		return
	}
	o.Result = "ok"
	u := h.users[name]
	u.old = append(u.old, u.pw)
	u.exists, u.disabled = false, false
	h.run.Count("user_deletes", 1)
}

const c12ShortTTL = time.Second

func (h *c12Hist) opCreateSession(name string, oneTime, short bool) {
	ttl := time.Hour
	if short {
		ttl = c12ShortTTL
	}
	o := h.rec(c12OpRec{Op: "create-session", User: name, Class: fmt.Sprintf("ttl=%s one_time=%v", ttl, oneTime)})
	user, err := h.a.GetUser(name)
	if err != nil || user == nil {
		o.Result = fmt.Sprintf("no user (%v)", err)
		return
	}
	s, err := h.a.CreateSession(h.st.ctx, user, ttl, oneTime)
	if err != nil {
		o.Result = "error: " + err.Error()
		if !h.users[name].disabled {
			h.run.Count("unexpected_op_error", 1)
		}
		return
	}
	u := h.users[name]
	if u.disabled {
		h.violation("model", "C12|auth|create-session|user-disabled|session-issued", "CreateSession issued a session for a disabled user")
	}
	ms := &c12MSess{idx: len(h.sess), id: s.ID, user: name, epoch: u.epoch, incarn: u.incarn, oneTime: oneTime, short: short}
	h.sess = append(h.sess, ms)
	o.Sess = fmt.Sprintf("s%d", ms.idx)
	o.Result = "ok"
	h.run.Count("sessions_created", 1)
}

func (h *c12Hist) opDeleteSession(s *c12MSess) {
	o := h.rec(c12OpRec{Op: "delete-session", Sess: fmt.Sprintf("s%d", s.idx), User: s.user})
	err := h.a.DeleteSession(h.st.ctx, s.id, "")
	if err != nil {
		o.Result = "error: " + err.Error()
		return
	}
	o.Result = "ok"
	s.deleted = true
}

// authPassword runs one password attempt and judges it. via: "AuthenticateUser" | "GetUser+Authenticate" | held user.
func (h *c12Hist) authPassword(name, pw, class, via string, hop bool, held User) {
	mustReject, reason := h.expectPassword(name, pw)
	exp := "accept"
	if mustReject {
		exp = "reject:" + reason
	}
	o := h.rec(c12OpRec{Op: "auth-password", User: name, Pw: c12Q(pw), Via: via, Class: class, Hop: hop, Expect: exp})
	// was the (digest, stored hash) pair already in the verified-password cache? (independent key computation)
	stored, haveStored := h.st.storedUser(h.a, name)
	cached := false
	if haveStored && stored.Hash != nil {
		d := sha1.Sum([]byte(pw))
		cached = cachedHashes.Contains(string(d[:]) + string(stored.Hash))
	}
	accepted, who := false, ""
	var aerr error
	c12Hop(hop, func() {
		switch {
		case held != nil:
			accepted = held.Authenticate(pw)
			who = held.Name()
		case via == "AuthenticateUser":
			u, err := h.a.AuthenticateUser(name, pw)
			aerr = err
			if err == nil && u != nil {
				accepted, who = true, u.Name()
			}
		default:
			u, err := h.a.GetUser(name)
			aerr = err
			if err == nil && u != nil {
				accepted, who = u.Authenticate(pw), u.Name()
			}
		}
	})
	h.run.Count("attempts_password", 1)
	switch {
	case aerr != nil:
		o.Result = "error: " + aerr.Error()
		h.run.Count("unexpected_op_error", 1)
	case accepted:
		o.Result = "accepted as " + who
	default:
		o.Result = "rejected"
	}
	if accepted {
		h.run.Count("accepted_password", 1)
		h.sawAccept = true
		if cached {
			h.run.Count("fastpath_hits", 1)
		}
		if who != name {
			h.violation("identity", "C12|auth|password|authenticated-as-different-user", fmt.Sprintf("attempt for %s authenticated as %s", name, who))
		}
		// differential: the full check against the hash that is stored right now
		h.run.Count("fastpath_rechecks", 1)
		full := false
		switch {
		case !haveStored:
		case stored.Disabled:
		case stored.Hash == nil:
			full = pw == ""
		default:
			full = bcrypt.CompareHashAndPassword(stored.Hash, []byte(pw)) == nil
		}
		if !full {
			h.violation("fast-path-differential", "C12|auth|password|accepted-but-full-check-on-stored-hash-rejects|via="+via,
				fmt.Sprintf("password %s for %s was accepted (in cache beforehand: %v) but bcrypt.CompareHashAndPassword on the stored hash / disabled flag rejects it", c12Q(pw), name, cached))
		}
	}
	if mustReject {
		h.run.Count("must_reject_password", 1)
		h.run.Distinct("reject_reasons", "password:"+reason)
		if class == "old-password" || class == "prefix" || class == "suffix" {
			h.sawStaleReject = true
		}
		if accepted {
			h.violation("model", "C12|auth|password|"+reason+"|accepted",
				fmt.Sprintf("password attempt %s (class %s) for user %s must be rejected (%s) but authenticated via %s", c12Q(pw), class, name, reason, via))
		}
	} else if !accepted && aerr == nil {
		h.run.Count("unexpected_reject", 1)
		h.run.Inconclusive("model expected accept for a password attempt")
		h.run.Note("case %d op %d: correct password %s for %s rejected", h.idx, o.N, c12Q(pw), name)
	}
}

// authSession presents a session id through AuthenticateCookie or AuthenticateOneTimeSession.
func (h *c12Hist) authSession(s *c12MSess, id, via string, hop bool, fault error) {
	mustReject, reason := h.expectSession(s)
	if fault != nil && !mustReject && s != nil && s.oneTime {
		// the delete that consumes the one-time session fails: "not allowing login" (deleteOneTimeSession)
		mustReject, reason = true, "one-time-session-consuming-delete-failed"
	}
	exp := "accept"
	if mustReject {
		exp = "reject:" + reason
	} else if s.short {
		exp = "either(ttl 1s may have expired)"
	}
	o := h.rec(c12OpRec{Op: "auth-session", Via: via, Hop: hop, Expect: exp})
	if s != nil {
		o.Sess, o.User = fmt.Sprintf("s%d", s.idx), s.user
		o.Class = fmt.Sprintf("one_time=%v short=%v", s.oneTime, s.short)
	} else {
		o.Sess = "bogus:" + id
	}
	var u User
	var err error
	if fault != nil {
		o.Class += fmt.Sprintf(" fault=Delete(session) fails with %q", fault.Error())
		h.st.failDelete.Store(&c12DelFault{Key: id, Err: fault})
		h.run.Count("presentations_with_failing_delete", 1)
	}
	c12Hop(hop, func() {
		if via == "AuthenticateCookie" {
			u, err = c12CookieAuth(h.a, id)
		} else {
			u, err = h.a.AuthenticateOneTimeSession(h.st.ctx, id)
		}
	})
	h.st.failDelete.Store(nil)
	accepted := err == nil && u != nil
	h.run.Count("attempts_session", 1)
	if err != nil && u != nil {
		o.Result = fmt.Sprintf("error %v together with user %s", err, u.Name())
	}
	c12CheckPair(h.run, via, u, err, h.witness())
	if accepted {
		o.Result = "accepted as " + u.Name()
		h.run.Count("accepted_session", 1)
		h.sawAccept = true
		if s == nil || u.Name() != s.user {
			h.violation("identity", "C12|auth|session|authenticated-as-different-user", "session authenticated as "+u.Name())
		}
	} else if o.Result == "" {
		o.Result = fmt.Sprintf("rejected (%v)", err)
	}
	if mustReject {
		if reason == "one-time-session-consuming-delete-failed" {
			h.run.Count("live_one_time_presented_with_failing_delete", 1)
		}
		h.run.Count("must_reject_session", 1)
		h.run.Distinct("reject_reasons", "session:"+reason)
		if strings.HasPrefix(reason, "session-before") || strings.HasPrefix(reason, "session-of-deleted") {
			h.sawStaleReject = true
		}
		if accepted {
			h.violation("model", "C12|auth|"+via+"|"+reason+"|accepted",
				fmt.Sprintf("session %s of user %s must be rejected (%s) but authenticated via %s", o.Sess, o.User, reason, via))
		}
	} else if !accepted && !s.short {
		h.run.Count("unexpected_reject", 1)
		h.run.Inconclusive("model expected accept for a session attempt")
		h.run.Note("case %d op %d: live session rejected: %v", h.idx, o.N, err)
	}
	if accepted && s != nil && s.oneTime {
		s.consumed = true
	}
}

func (h *c12Hist) gc(n int) {
	h.rec(c12OpRec{Op: fmt.Sprintf("runtime.GC x%d", n), Result: "ok"})
	for i := 0; i < n; i++ {
		runtime.GC()
	}
	h.run.Count("gc_calls", n)
}

// opSplitAttack: correct password through a fresh digest state, then two wrong attempts X, Y with X+Y = password
// on the same goroutine with nothing in between (prefix/suffix related wrong passwords; password cache).
func (h *c12Hist) opSplitAttack(name string) {
	u := h.users[name]
	if !u.exists || u.disabled || len(u.pw) < 2 {
		return
	}
	p := u.pw
	k := h.r.Range(1, len(p)-1)
	h.gc(2)
	h.authPassword(name, p, "correct", "AuthenticateUser", false, nil)
	h.gc(2)
	if h.r.Bool() {
		held, err := h.a.GetUser(name)
		if err != nil || held == nil {
			return
		}
		h.authPassword(name, p[:k], "prefix", "held-user.Authenticate", false, held)
		h.authPassword(name, p[k:], "suffix", "held-user.Authenticate", false, held)
	} else {
		hop := h.r.Chance(1, 3)
		c12Hop(hop, func() {
			h.authPassword(name, p[:k], "prefix", "AuthenticateUser", false, nil)
			h.authPassword(name, p[k:], "suffix", "AuthenticateUser", false, nil)
		})
	}
	h.run.Count("split_attacks", 1)
}

func (h *c12Hist) pick(exists bool) (string, bool) {
	var c []string
	for _, n := range h.names {
		if h.users[n].exists == exists {
			c = append(c, n)
		}
	}
	if len(c) == 0 {
		return "", false
	}
	return vlib.Pick(h.r, c), true
}

func (h *c12Hist) step() {
	r := h.r
	existing, haveExisting := h.pick(true)
	missing, haveMissing := h.pick(false)
	hop := r.Chance(1, 5)
	k := r.Intn(100)
	switch {
	case !haveExisting || (k < 9 && haveMissing):
		h.opCreate(missing)
	case k < 18:
		h.opSetPassword(existing)
	case k < 25:
		u := h.users[existing]
		h.opDisable(existing, !u.disabled || r.Chance(1, 6))
	case k < 30:
		h.opDelete(existing)
	case k < 44:
		h.opCreateSession(existing, r.Chance(1, 3), r.Chance(1, 5))
	case k < 49:
		if len(h.sess) > 0 {
			h.opDeleteSession(vlib.Pick(r, h.sess))
		} else {
			h.opCreateSession(existing, false, false)
		}
	case k < 66:
		name := existing
		if r.Chance(1, 5) {
			name = vlib.Pick(r, h.names)
		}
		via := vlib.Pick(r, []string{"AuthenticateUser", "GetUser+Authenticate"})
		if r.Chance(1, 2) {
			h.authPassword(name, h.users[name].pw, "correct", via, hop, nil)
		} else {
			w, class := h.wrongPassword(name)
			h.authPassword(name, w, class, via, hop, nil)
		}
	case k < 90:
		via := "AuthenticateCookie"
		if r.Chance(1, 3) {
			via = "AuthenticateOneTimeSession"
		}
		if len(h.sess) == 0 || r.Chance(1, 12) {
			h.authSession(nil, fmt.Sprintf("bogus%x", r.Intn(1<<30)), via, hop, nil)
		} else {
			s := vlib.Pick(r, h.sess)
			var fault error
			if s.oneTime && r.Chance(1, 2) {
				// the consuming delete fails: a temporary storage error, or key-not-found as for the loser of two
				// concurrent presentations on Couchbase Server
				fault = c12ErrInjected
				if r.Bool() {
					fault = sgbucket.MissingError{Key: s.id}
				}
			}
			h.authSession(s, s.id, via, hop, fault)
		}
	case k < 96:
		h.opSplitAttack(existing)
	default:
		h.gc(r.Range(1, 2))
	}
}

type c12Expiry struct {
	h *c12Hist
	s *c12MSess
}

// TestVerif_C12_Histories: seeded credential histories judged by the CredModel.
func TestVerif_C12_Histories(t *testing.T) {
	run := vlib.Start(t, "C12", "histories")
	defer run.Finish()
	st := c12NewStore(t)
	defer st.Close()
	nh, nops, batch := run.N(200, 2000), 25, 250
	var pending []*c12Hist
	only, onlyOK := run.OnlyCase()
	for i := 0; i < nh; i++ {
		if onlyOK && only != i {
			continue
		}
		h := c12NewHist(run, st, i, run.CaseRand(i))
		for len(h.ops) < nops {
			h.step()
		}
		run.Eval()
		kinds := make([]string, len(h.ops))
		for j, o := range h.ops {
			kinds[j] = o.Op + "/" + o.Via + "/" + o.Class + "/" + o.Expect
		}
		if h.sawAccept && h.sawStaleReject {
			run.Nontrivial(strings.Join(kinds, ";"))
		}
		if i < 2 {
			run.Sample(map[string]any{"case": i, "ops": h.ops})
		}
		pending = append(pending, h)
		if (i+1)%batch == 0 || i == nh-1 || onlyOK {
			c12CheckExpired(run, pending)
			pending = nil
		}
	}
}

// c12CheckExpired: expiry is asserted in one direction only ("rejected after expiry") and batched. At the end of a
// batch every history with a usable user gets fresh 1 s sessions; 0.3 s later (more than 10% of the TTL, so the
// refresh path of AuthenticateCookie rewrites the session with a new expiry) some of them are presented once; then
// the TTL is waited out (>= 3x) once for the whole batch and every 1 s session of the batch is presented: all must
// be rejected.
func c12CheckExpired(run *vlib.Run, hists []*c12Hist) {
	if len(hists) == 0 {
		return
	}
	var refresh []c12Expiry
	for _, h := range hists {
		for _, n := range h.names {
			if u := h.users[n]; u.exists && !u.disabled {
				before := len(h.sess)
				h.opCreateSession(n, false, true)
				h.opCreateSession(n, h.r.Chance(1, 3), true)
				if len(h.sess) > before {
					refresh = append(refresh, c12Expiry{h, h.sess[before]})
				}
				break
			}
		}
	}
	time.Sleep(300 * time.Millisecond)
	for _, e := range refresh {
		u, err := c12CookieAuth(e.h.a, e.s.id)
		res := fmt.Sprintf("rejected (%v)", err)
		if err == nil && u != nil {
			res = "accepted as " + u.Name()
			run.Count("expiry_refresh_presentations", 1)
		}
		e.h.rec(c12OpRec{Op: "auth-session 0.3 s after creation (refreshes the ttl)", Sess: fmt.Sprintf("s%d", e.s.idx), Via: "AuthenticateCookie", Expect: "either(ttl 1s may have expired)", Result: res})
	}
	time.Sleep(3*c12ShortTTL + 500*time.Millisecond)
	for _, h := range hists {
		for _, s := range h.sess {
			if !s.short {
				continue
			}
			otherwise, _ := h.expectSession(s)
			via := "AuthenticateCookie"
			if s.idx%2 == 1 {
				via = "AuthenticateOneTimeSession"
			}
			var u User
			var err error
			if via == "AuthenticateCookie" {
				u, err = c12CookieAuth(h.a, s.id)
			} else {
				u, err = h.a.AuthenticateOneTimeSession(h.st.ctx, s.id)
			}
			run.Count("expired_presented", 1)
			if !otherwise {
				run.Count("expired_otherwise_live", 1)
			}
			if err == nil && u != nil {
				h.rec(c12OpRec{Op: "auth-session 3.5 s after its last use (ttl 1 s)", Sess: fmt.Sprintf("s%d", s.idx), Via: via, Expect: "reject:expired", Result: "accepted as " + u.Name()})
				h.violation("model", "C12|auth|"+via+"|session-expired|accepted", fmt.Sprintf("session s%d (ttl 1s) authenticated 3.5 s after its last use", s.idx))
			}
		}
	}
}

// ---------------------------------------------------------------------------------------------
// one-time sessions under real concurrency (race detector part)

type c12Pres struct {
	G        int    `json:"g"`
	Via      string `json:"via"`
	Inv      int64  `json:"invoked_tick"`
	Ret      int64  `json:"returned_tick"`
	Accepted bool   `json:"accepted"`
	Err      string `json:"err,omitempty"`
}

// c12CheckPair: an authentication call that returns an error must not hand out a user with it: callers that
// tolerate the error (rest/handler.go on public routes) would treat the request as authenticated.
func c12CheckPair(run *vlib.Run, via string, u User, err error, wit any) {
	run.Count("result_pairs_checked", 1)
	if err != nil && u != nil {
		c12Violation(run, "result-pair", "C12|auth|"+via+"|error-returned-together-with-a-user",
			fmt.Sprintf("%s returned user %q together with error %v", via, u.Name(), err), wit)
	}
}

func c12Present(run *vlib.Run, st *c12Store, a *Authenticator, via, id string) (bool, string) {
	var u User
	var err error
	if via == "AuthenticateCookie" {
		u, err = c12CookieAuth(a, id)
	} else {
		u, err = a.AuthenticateOneTimeSession(st.ctx, id)
	}
	c12CheckPair(run, via, u, err, map[string]any{"call": via, "session": "one-time or regular session presented while other presentations / a logout run; see the part's schedule samples", "error": fmt.Sprint(err)})
	if err != nil {
		return false, err.Error()
	}
	return u != nil, ""
}

func c12StoreMode(cbs bool) string {
	if cbs {
		return "store=delete-of-missing-key-fails(couchbase-server-contract)"
	}
	return "store=rosmar-as-is(delete-of-deleted-key-succeeds)"
}

// TestVerif_C12_Race: (1) goroutines present one one-time session concurrently; (2) goroutines authenticate by
// password concurrently against the verified-password cache. Runs under the race detector.
func TestVerif_C12_Race(t *testing.T) {
	run := vlib.Start(t, "C12", "race")
	defer run.Finish()
	st := c12NewStore(t)
	defer st.Close()
	c12OneTimeRace(t, run, st)
	c12CacheRace(t, run, st)
}

func c12OneTimeRace(t *testing.T, run *vlib.Run, st *c12Store) {
	a := st.newAuth(fmt.Sprintf("c12race%d", run.Seed))
	n := run.N(300, 3000)
	for i := 0; i < n; i++ {
		r := run.CaseRand(i)
		cbs := i%3 != 2
		st.cbsDelete.Store(cbs)
		name := fmt.Sprintf("u%d", i)
		user, err := a.NewUser(name, "pw", base.Set{})
		if err == nil {
			err = a.Save(user)
		}
		if err != nil {
			t.Fatalf("setup user: %v", err)
		}
		sess, err := a.CreateSession(st.ctx, user, time.Hour, true)
		if err != nil {
			t.Fatalf("setup session: %v", err)
		}
		k := r.Range(2, 8)
		pres := make([]c12Pres, k)
		spins := make([]int, k)
		for g := range pres {
			pres[g] = c12Pres{G: g, Via: vlib.Pick(r, []string{"AuthenticateOneTimeSession", "AuthenticateOneTimeSession", "AuthenticateCookie"})}
			if r.Chance(1, 3) {
				spins[g] = r.Intn(400)
			}
		}
		var tick atomic.Int64
		var wg sync.WaitGroup
		start := make(chan struct{})
		for g := 0; g < k; g++ {
			wg.Add(1)
			go func(g int) {
				defer wg.Done()
				<-start
				for s := 0; s < spins[g]; s++ {
					runtime.Gosched()
				}
				pres[g].Inv = tick.Add(1)
				ok, e := c12Present(run, st, a, pres[g].Via, sess.ID)
				pres[g].Ret = tick.Add(1)
				pres[g].Accepted, pres[g].Err = ok, e
			}(g)
		}
		close(start)
		wg.Wait()
		run.Eval()
		run.Count("presentations", k)
		acc := 0
		firstRet := int64(1 << 62)
		for _, p := range pres {
			if p.Accepted {
				acc++
				if p.Ret < firstRet {
					firstRet = p.Ret
				}
			}
		}
		overlapped := 0
		for _, p := range pres {
			if p.Inv < firstRet {
				overlapped++
			}
		}
		if overlapped >= 2 {
			run.Nontrivial(fmt.Sprintf("race%d", i))
			run.Count("races_with_overlap", 1)
		}
		wit := map[string]any{"case": i, "store": c12StoreMode(cbs), "presentations": pres,
			"note": "one user, one one-time session (ttl 1h); goroutines present the same session id concurrently; ticks are a shared logical clock"}
		if i < 2 {
			run.Sample(wit)
		}
		switch {
		case acc == 0:
			run.Count("races_without_winner", 1)
		case acc == 1:
			run.Count("races_exactly_one", 1)
		default:
			run.Count("races_multiple_accepts", 1)
			after := false
			for _, p := range pres {
				if p.Accepted && p.Inv > firstRet {
					after = true
				}
			}
			shape := "concurrent-presentations"
			if after {
				shape = "presentation-invoked-after-first-success-returned"
			}
			c12Violation(run, "consume-once", "C12|one-time|"+shape+"|accepted-more-than-once|"+c12StoreMode(cbs),
				fmt.Sprintf("case %d: %d of %d presentations of one one-time session authenticated", i, acc, k), wit)
		}
		// none after the first success returned
		ok, _ := c12Present(run, st, a, "AuthenticateOneTimeSession", sess.ID)
		ok2, _ := c12Present(run, st, a, "AuthenticateCookie", sess.ID)
		run.Count("late_presentations", 2)
		if ok || ok2 {
			c12Violation(run, "consume-once", "C12|one-time|presented-after-all-returned|accepted|"+c12StoreMode(cbs),
				fmt.Sprintf("case %d: one-time session authenticated again after %d successful presentation(s) had returned", i, acc), wit)
		}
	}
	st.cbsDelete.Store(false)
}

// c12CacheRace: many goroutines authenticate by password concurrently (hits and misses of the
// verified-password cache, password changes in between rounds); static model per round.
func c12CacheRace(t *testing.T, run *vlib.Run, st *c12Store) {
	a := st.newAuth(fmt.Sprintf("c12cache%d", run.Seed))
	rounds := run.N(20, 200)
	const nu = 4
	pws := make([]string, nu)
	for round := 0; round < rounds; round++ {
		r := run.CaseRand(round)
		for u := 0; u < nu; u++ {
			name := fmt.Sprintf("cu%d", u)
			if round == 0 || r.Chance(1, 3) {
				pws[u] = fmt.Sprintf("r%d-u%d-%x", round, u, r.Intn(1<<16))
				user, err := a.GetUser(name)
				if err != nil {
					t.Fatal(err)
				}
				if user == nil {
					user, err = a.NewUser(name, pws[u], base.Set{})
				} else {
					err = user.SetPassword(pws[u])
				}
				if err == nil {
					err = a.Save(user)
				}
				if err != nil {
					t.Fatalf("setup: %v", err)
				}
			}
		}
		type att struct {
			U        int
			Pw       string
			Want     bool
			Accepted bool
		}
		g := 8
		atts := make([][]att, g)
		for i := range atts {
			rr := r.Fork(uint64(i))
			for j := 0; j < 12; j++ {
				u := rr.Intn(nu)
				p := pws[u]
				switch rr.Intn(5) {
				case 0:
					p = pws[(u+1)%nu]
				case 1:
					p = p[:len(p)-1]
				case 2:
					p = p[1:]
				}
				atts[i] = append(atts[i], att{U: u, Pw: p, Want: p == pws[u]})
			}
		}
		var wg sync.WaitGroup
		for i := range atts {
			wg.Add(1)
			go func(i int) {
				defer wg.Done()
				for j := range atts[i] {
					x := &atts[i][j]
					usr, err := a.AuthenticateUser(fmt.Sprintf("cu%d", x.U), x.Pw)
					x.Accepted = err == nil && usr != nil
				}
			}(i)
		}
		wg.Wait()
		run.Eval()
		for i := range atts {
			for _, x := range atts[i] {
				run.Count("cache_attempts_password", 1)
				if x.Accepted {
					run.Count("cache_accepted_password", 1)
				}
				if x.Accepted && !x.Want {
					c12Violation(run, "model", "C12|auth|password|wrong-password|accepted|concurrent",
						fmt.Sprintf("round %d: wrong password %s accepted for cu%d (current %s)", round, c12Q(x.Pw), x.U, c12Q(pws[x.U])),
						map[string]any{"round": round, "passwords": pws, "attempts": atts})
				}
				if !x.Accepted && x.Want {
					run.Count("unexpected_reject", 1)
					run.Inconclusive("model expected accept for a concurrent password attempt")
				}
			}
		}
		if round == 0 {
			run.Sample(map[string]any{"round": 0, "passwords": pws, "attempts_of_goroutine_0": atts[0]})
		}
		run.Nontrivial(fmt.Sprintf("cache-round%d", round))
	}
}

// ---------------------------------------------------------------------------------------------
// step-scheduler part: interleavings of the storage steps

type c12Scenario struct {
	name   string
	cbs    bool
	actors int
}

func TestVerif_C12_Sched(t *testing.T) {
	run := vlib.Start(t, "C12", "sched")
	defer run.Finish()
	st := c12NewStore(t)
	defer st.Close()
	a := st.newAuth(fmt.Sprintf("c12sched%d", run.Seed))
	caseN := 0
	newUser := func() (string, User) {
		caseN++
		name := fmt.Sprintf("su%d", caseN)
		user, err := a.NewUser(name, "pw-"+name, base.Set{})
		if err == nil {
			err = a.Save(user)
		}
		if err != nil {
			t.Fatalf("setup user: %v", err)
		}
		return name, user
	}
	runSched := func(ch vlib.Chooser, actors map[string]func()) *vlib.Sched {
		sc := vlib.NewSched(ch)
		names := make([]string, 0, len(actors))
		for n := range actors {
			names = append(names, n)
		}
		sort.Strings(names)
		for _, n := range names {
			sc.Go(n, actors[n])
		}
		st.takeLog()
		st.sched.Store(sc)
		sc.Run()
		st.sched.Store(nil)
		if sc.Deadlock {
			run.Inconclusive("scheduler watchdog")
		}
		return sc
	}

	// (1) one-time session presented by 2 / 3 actors, both store modes, all interleavings within the bound
	for _, scn := range []c12Scenario{{"onetime", true, 2}, {"onetime", false, 2}, {"onetime", true, 3}} {
		st.cbsDelete.Store(scn.cbs)
		ex := vlib.NewExplorer(run.N(3, 4), 40)
		maxRuns := run.N(120, 1500)
		for !ex.Exhausted() && ex.Runs < maxRuns {
			_, user := newUser()
			sess, err := a.CreateSession(st.ctx, user, time.Hour, true)
			if err != nil {
				t.Fatal(err)
			}
			res := make([]bool, scn.actors)
			actors := map[string]func(){}
			for g := 0; g < scn.actors; g++ {
				g := g
				via := "AuthenticateOneTimeSession"
				if g == 1 {
					via = "AuthenticateCookie"
				}
				actors[fmt.Sprintf("p%d", g)] = func() { res[g], _ = c12Present(run, st, a, via, sess.ID) }
			}
			sc := runSched(ex.Chooser(), actors)
			ex.Done(sc)
			run.Eval()
			run.Distinct("schedules", scn.name+c12StoreMode(scn.cbs)+sc.Fingerprint())
			run.Nontrivial(fmt.Sprintf("%s|%v|%d|%s", scn.name, scn.cbs, scn.actors, sc.Fingerprint()))
			acc := 0
			for _, ok := range res {
				if ok {
					acc++
				}
			}
			wit := map[string]any{"scenario": "one user, one one-time session, actors p0 (AuthenticateOneTimeSession), p1 (AuthenticateCookie), p2.. present it; storage steps scheduled",
				"store": c12StoreMode(scn.cbs), "schedule": sc.Trace, "choices": sc.Choices, "storage_ops": st.takeLog(), "accepted": res}
			if ex.Runs <= 1 {
				run.Sample(wit)
			}
			if acc > 1 {
				c12Violation(run, "consume-once", "C12|one-time|concurrent-presentations|accepted-more-than-once|"+c12StoreMode(scn.cbs),
					fmt.Sprintf("%d of %d scheduled presentations of one one-time session authenticated", acc, scn.actors), wit)
			} else if acc == 1 {
				run.Count("onetime_exactly_one", 1)
			}
			late, _ := c12Present(run, st, a, "AuthenticateOneTimeSession", sess.ID)
			if late {
				c12Violation(run, "consume-once", "C12|one-time|presented-after-all-returned|accepted|"+c12StoreMode(scn.cbs), "one-time session authenticated again after all presentations returned", wit)
			}
		}
		run.Count("onetime_schedules", ex.Runs)
		if ex.Exhausted() {
			run.Count(fmt.Sprintf("exhausted_onetime_%dactors_cbs=%v", scn.actors, scn.cbs), 1)
		}
	}
	st.cbsDelete.Store(true)

	// (2) logout (DeleteSession) concurrent with a cookie presentation that refreshes the session (> 10% of the TTL
	// elapsed). After both returned and the logout reported success, the session must not authenticate.
	// (3) password change concurrent with a cookie presentation: afterwards the old session must not authenticate.
	const refreshTTL = 20 * time.Second
	type prepared struct {
		name string
		sess *LoginSession
	}
	var prepLogout, prepPw []prepared
	for i := 0; i < 20; i++ {
		name, user := newUser()
		s, err := a.CreateSession(st.ctx, user, refreshTTL, false)
		if err != nil {
			t.Fatal(err)
		}
		prepLogout = append(prepLogout, prepared{name, s})
	}
	for i := 0; i < run.N(24, 150); i++ {
		name, user := newUser()
		s, err := a.CreateSession(st.ctx, user, refreshTTL, false)
		if err != nil {
			t.Fatal(err)
		}
		prepPw = append(prepPw, prepared{name, s})
	}
	// the code under test refreshes only after 10% of the TTL: wait that out once for all prepared sessions
	time.Sleep(refreshTTL/10 + 300*time.Millisecond)

	ex := vlib.NewExplorer(3, 40)
	for i := 0; !ex.Exhausted() && i < len(prepLogout); i++ {
		p := prepLogout[i]
		var cookieOK bool
		var logoutErr error
		sc := runSched(ex.Chooser(), map[string]func(){
			"cookie": func() { cookieOK, _ = c12Present(run, st, a, "AuthenticateCookie", p.sess.ID) },
			"logout": func() { logoutErr = a.DeleteSession(st.ctx, p.sess.ID, p.name) },
		})
		ex.Done(sc)
		run.Eval()
		ops := st.takeLog()
		refreshed := false
		for _, o := range ops {
			if strings.HasPrefix(o, "cookie:Set(session)") || strings.HasPrefix(o, "cookie:WriteCas(session)") {
				refreshed = true
			}
		}
		if refreshed {
			run.Count("logout_vs_refresh_schedules", 1)
		}
		run.Distinct("schedules", "logout"+sc.Fingerprint())
		run.Nontrivial("logout|" + sc.Fingerprint())
		after, _ := c12Present(run, st, a, "AuthenticateCookie", p.sess.ID)
		wit := map[string]any{"scenario": "session with ttl 20s, 2.3 s old (so a presentation refreshes it); actor cookie: AuthenticateCookie, actor logout: DeleteSession; then AuthenticateCookie again",
			"schedule": sc.Trace, "choices": sc.Choices, "storage_ops": ops, "cookie_accepted": cookieOK, "logout_error": fmt.Sprint(logoutErr), "accepted_after_both_returned": after}
		if i == 0 {
			run.Sample(wit)
		}
		if after && logoutErr == nil {
			c12Violation(run, "model", "C12|auth|AuthenticateCookie|session-deleted|accepted|logout-overlapped-by-refresh-of-concurrent-presentation",
				"DeleteSession returned success, yet the session authenticates afterwards: the non-CAS refresh Set of a concurrent AuthenticateCookie re-created the session document", wit)
		}
	}
	if ex.Exhausted() {
		run.Count("exhausted_logout_vs_cookie", 1)
	}

	ex = vlib.NewExplorer(3, 40)
	for i := 0; !ex.Exhausted() && i < len(prepPw); i++ {
		p := prepPw[i]
		var cookieOK bool
		var pwErr error
		sc := runSched(ex.Chooser(), map[string]func(){
			"cookie": func() { cookieOK, _ = c12Present(run, st, a, "AuthenticateCookie", p.sess.ID) },
			"setpw": func() {
				u, err := a.GetUser(p.name)
				if err == nil && u != nil {
					if err = u.SetPassword("new-" + p.name); err == nil {
						err = a.Save(u)
					}
				}
				pwErr = err
			},
		})
		ex.Done(sc)
		run.Eval()
		ops := st.takeLog()
		run.Count("pwchange_vs_cookie_schedules", 1)
		run.Distinct("schedules", "setpw"+sc.Fingerprint())
		run.Nontrivial("setpw|" + sc.Fingerprint())
		after, _ := c12Present(run, st, a, "AuthenticateCookie", p.sess.ID)
		if after && pwErr == nil {
			c12Violation(run, "model", "C12|auth|AuthenticateCookie|session-before-password-change|accepted|password-change-concurrent-with-presentation",
				"password change returned success, yet the older session authenticates afterwards",
				map[string]any{"schedule": sc.Trace, "choices": sc.Choices, "storage_ops": ops, "cookie_accepted": cookieOK, "accepted_after_both_returned": after})
		}
	}
	if ex.Exhausted() {
		run.Count("exhausted_pwchange_vs_cookie", 1)
	}

	// (4) login-triggered rehash vs password change. Users are created at bcrypt.MinCost; the login goes through an
	// Authenticator configured with MinCost+1 (bcrypt cost raised in the config, user not yet rehashed), so a
	// successful password check is followed by rehashPassword (casUpdatePrincipal: WriteCas of the user, reload and
	// retry on CAS loss). A password change is interleaved at every storage step. After both returned and the change
	// was acknowledged, the old password must be rejected (CredModel: current password = the new one).
	// Variant "setter-at-old-cost": the password change is written by an Authenticator still configured with the
	// old cost (another node mid-way through a config change); recorded separately, see c12MixedCostDeciding.
	aHigh := st.newAuth(fmt.Sprintf("c12sched%d", run.Seed))
	aHigh.BcryptCost = bcrypt.MinCost + 1
	aHigh.bcryptCostChanged = true // what SetBcryptCost records; SetBcryptCost itself refuses costs below the default
	for _, variant := range []string{"setter-at-configured-cost", "setter-at-old-cost"} {
		setter := aHigh
		if variant == "setter-at-old-cost" {
			setter = a
		}
		ex = vlib.NewExplorer(3, 40)
		maxRuns := run.N(80, 400)
		for !ex.Exhausted() && ex.Runs < maxRuns {
			name, _ := newUser()
			oldPw, newPw := "pw-"+name, "new-"+name
			var loginOK bool
			var loginErr, pwErr error
			sc := runSched(ex.Chooser(), map[string]func(){
				"login": func() {
					u, err := aHigh.AuthenticateUser(name, oldPw)
					loginOK, loginErr = err == nil && u != nil, err
					c12CheckPair(run, "AuthenticateUser", u, err, nil)
				},
				"setpw": func() {
					u, err := setter.GetUser(name)
					if err == nil && u != nil {
						if err = u.SetPassword(newPw); err == nil {
							err = setter.Save(u)
						}
					}
					pwErr = err
				},
			})
			ex.Done(sc)
			run.Eval()
			ops := st.takeLog()
			casLost := false
			for _, o := range ops {
				if o == "login:WriteCas(user)=err" {
					casLost = true
				}
			}
			run.Count("rehash_vs_pwchange_schedules", 1)
			if casLost {
				run.Count("rehash_lost_cas_to_password_change", 1)
			}
			run.Distinct("schedules", "rehash"+variant+sc.Fingerprint())
			run.Nontrivial("rehash|" + variant + "|" + sc.Fingerprint())
			oldAfter, _ := aHigh.AuthenticateUser(name, oldPw)
			newAfter, _ := aHigh.AuthenticateUser(name, newPw)
			wit := map[string]any{"scenario": "user created with bcrypt cost 4; actor login: AuthenticateUser(old password) on an Authenticator configured with cost 5 (rehash after the check); actor setpw: GetUser, SetPassword(new), Save; then AuthenticateUser with the old and with the new password",
				"variant": variant, "schedule": sc.Trace, "choices": sc.Choices, "storage_ops": ops, "login_accepted": loginOK, "login_error": fmt.Sprint(loginErr),
				"password_change_error": fmt.Sprint(pwErr), "old_password_accepted_afterwards": oldAfter != nil, "new_password_accepted_afterwards": newAfter != nil}
			if ex.Runs <= 1 {
				run.Sample(wit)
			}
			if pwErr != nil {
				run.Count("rehash_password_change_lost_cas", 1) // change not acknowledged: nothing to assert
				continue
			}
			run.Count("rehash_acknowledged_password_changes_judged", 1)
			if oldAfter != nil {
				sig := "C12|auth|password|old-password|accepted|password-change-overlapped-by-rehash-retry-of-concurrent-login|" + variant
				c12Violation(run, "model", sig, "the password change was acknowledged, yet the replaced password authenticates afterwards: the rehash of a concurrent login lost its CAS, was retried on the reloaded user and wrote a hash of the old password", wit)
			} else if newAfter == nil {
				run.Count("unexpected_reject", 1)
				run.Inconclusive("model expected accept for the new password after a password change")
			}
		}
		if ex.Exhausted() {
			run.Count("exhausted_rehash_vs_pwchange_"+variant, 1)
		}
	}
	st.cbsDelete.Store(false)
}
