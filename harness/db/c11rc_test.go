//go:build verif

package db

import (
	"fmt"
	"testing"

	"verif/vlib"
)

// C11 "gives back any sequence it had reserved": every write outcome (success, rejection, conflict,
// cancelled already-known revision, storage error; timeout excepted) after 0..K lost CAS attempts
// must leave no reserved sequence unaccounted, and a refused writer must leave no trace in the
// document.
func TestVerif_C11_RetryChain(t *testing.T) {
	run := vlib.Start(t, "C11", "retry-chain")
	defer run.Finish()
	e := vrcNewEnv(t)
	defer e.Close()
	maxK := run.N(3, 5)
	for _, batch := range []bool{false, true} {
		for K := 0; K <= maxK; K++ {
			for _, final := range vrcFinals {
				res := vrcRun(t, e, K, final, batch)
				run.Eval()
				sig := fmt.Sprintf("retries=%s|outcome=%s", vrcKClass(K), final)
				w := res.witness()
				missing, _, _, _ := vrcLedger(e, res)
				if len(missing) > 0 {
					w["missing"] = missing
					run.Violation("gives-back-sequence", "C11|retry-chain|reserved-sequence-not-given-back|"+sig,
						fmt.Sprintf("writer lost its CAS %d time(s), outcome %q: sequences %v were reserved for it and are neither stored nor published unused", K, final, missing), w)
				}
				// a refused writer leaves no trace: its revision is not in the history unless somebody else pushed it
				if res.WriterErr != nil && res.FinalDoc != nil {
					wrev := vrcRevID(K+2, "w")
					if _, ok := res.FinalDoc.History[wrev]; ok && final != "timeout" {
						run.Violation("no-trace", "C11|retry-chain|refused-write-left-its-revision|"+sig, fmt.Sprintf("W got %v but %s is in the stored history", res.WriterErr, wrev), w)
					}
				}
				run.Count("writer_attempts", res.Attempts)
				run.Count("numbers_reserved", int(res.Counter-res.Counter0))
				if res.Attempts >= K+1 {
					run.Nontrivial(fmt.Sprintf("%v/%d/%s", batch, K, final))
				}
				if K == 1 && !batch && final == "conflict" {
					run.Sample(w)
				}
				vrcWaitFeed(e, res, missing)
				for _, m := range missing {
					_ = e.db.sequences.releaseSequence(e.ctx, m)
				}
			}
		}
	}
}
