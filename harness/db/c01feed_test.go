//go:build verif

package db

import (
	"context"
	"fmt"
	"sort"
	"strings"
	"sync"
	"sync/atomic"
	"testing"
	"time"

	"github.com/couchbase/sync_gateway/auth"
	"github.com/couchbase/sync_gateway/base"
	"verif/vlib"
)

// C01 — continuous / long-poll bounded delivery (design oracle 5), run under the race detector. Writers race
// continuous and long-poll feeds of several requesters; an auditor goroutine reads every per-channel cache under
// its lock meanwhile. After the writers stopped and the cache reached the last written sequence each feed must
// have delivered, by the time it is parked again, the current revision of every visible document and a removal /
// deletion notice for every document it had been shown and that left its view. A hang is a violation only when the
// state predicate "all feeds parked in changeWaiter.Wait (caught-up gauge) and the model says visible entries are
// undelivered" holds on 100 consecutive inspections one broadcast interval (5 ms) apart; otherwise inconclusive.

type c01fClient struct {
	User     string
	Chans    []string
	LongPoll bool

	mu      sync.Mutex
	got     []c01Entry
	nils    int
	reqs    int
	errs    []string
	stopped chan struct{}
}

func (c *c01fClient) String() string {
	mode := "continuous"
	if c.LongPoll {
		mode = "longpoll"
	}
	return fmt.Sprintf("%s user=%s channels=%v", mode, c.User, c.Chans)
}

func c01fEntry(e *ChangeEntry) c01Entry {
	ce := c01Entry{Seq: e.Seq, Tok: e.Seq.String(), ID: e.ID, Del: e.Deleted, AllRem: e.allRemoved}
	if len(e.Changes) > 0 {
		ce.Rev = e.Changes[0][ChangesVersionTypeRevTreeID]
	}
	if len(e.Removed) > 0 {
		rm := e.Removed.ToArray()
		sort.Strings(rm)
		ce.Rem = strings.Join(rm, ",")
	}
	return ce
}

func (c *c01fClient) runFeed(ctx context.Context, cctx context.Context, col *DatabaseCollectionWithUser) {
	defer close(c.stopped)
	since := SequenceID{}
	for cctx.Err() == nil {
		opts := ChangesOptions{Since: since, Wait: true, Continuous: !c.LongPoll, ChangesCtx: cctx}
		feed, err := col.MultiChangesFeed(ctx, base.SetFromArray(c.Chans), opts)
		c.mu.Lock()
		c.reqs++
		c.mu.Unlock()
		if err != nil || feed == nil {
			c.mu.Lock()
			c.errs = append(c.errs, fmt.Sprintf("feed=%v err=%v", feed != nil, err))
			c.mu.Unlock()
			return
		}
		for e := range feed {
			c.mu.Lock()
			switch {
			case e == nil:
				c.nils++
			case e.Err != nil:
				if cctx.Err() == nil {
					c.errs = append(c.errs, e.Err.Error())
				}
			default:
				c.got = append(c.got, c01fEntry(e))
				if since.Before(e.Seq) {
					since = e.Seq
				}
			}
			c.mu.Unlock()
		}
		if !c.LongPoll {
			return
		}
	}
}

type c01fModel struct {
	mu   sync.Mutex
	docs map[string]*c01Doc
	ops  []c01Op
	max  uint64
}

func c01fInView(user string, static map[string][]string, chans []string, v *c01Ver) bool {
	if v == nil || v.Deleted {
		return false
	}
	reqStar := false
	req := map[string]bool{}
	for _, c := range chans {
		if c == "*" {
			reqStar = true
		}
		req[c] = true
	}
	if user == "admin" {
		return reqStar || c01Inter(v.Ch, req)
	}
	uStar := false
	uch := map[string]bool{}
	for _, c := range static[user] {
		if c == "*" {
			uStar = true
		}
		uch[c] = true
	}
	switch {
	case reqStar && uStar:
		return true
	case reqStar:
		return c01Inter(v.Ch, uch)
	case uStar:
		return c01Inter(v.Ch, req)
	}
	for _, c := range v.Ch {
		if req[c] && uch[c] {
			return true
		}
	}
	return false
}

// owed lists what the client has not been delivered yet (empty = the feed is up to date with the model).
func (m *c01fModel) owed(c *c01fClient, static map[string][]string) []string {
	c.mu.Lock()
	got := append([]c01Entry{}, c.got...)
	c.mu.Unlock()
	m.mu.Lock()
	defer m.mu.Unlock()
	var out []string
	byDoc := map[string][]c01Entry{}
	for _, e := range got {
		byDoc[e.ID] = append(byDoc[e.ID], e)
	}
	ids := make([]string, 0, len(m.docs))
	for id := range m.docs {
		ids = append(ids, id)
	}
	sort.Strings(ids)
	for _, id := range ids {
		d := m.docs[id]
		cur := d.cur()
		if cur == nil {
			continue
		}
		if c01fInView(c.User, static, c.Chans, cur) {
			found := false
			for _, e := range byDoc[id] {
				if e.Seq.Seq == cur.Seq && e.Rev == cur.Rev && !e.Del {
					found = true
				}
			}
			if !found {
				out = append(out, fmt.Sprintf("current revision of %s (seq %d rev %s channels %v)", id, cur.Seq, cur.Rev, cur.Ch))
			}
			continue
		}
		// not in view now: if the client was shown it in view earlier it is owed a removal / deletion notice after that
		shown := uint64(0)
		for _, e := range byDoc[id] {
			if !e.Del && e.Rem == "" && c01fInView(c.User, static, c.Chans, d.at(e.Seq.Seq)) && d.at(e.Seq.Seq).Seq == e.Seq.Seq && e.Seq.Seq > shown {
				shown = e.Seq.Seq
			}
		}
		if shown > 0 {
			found := false
			for _, e := range byDoc[id] {
				if e.Seq.Seq > shown && (e.Del || e.Rem != "") {
					found = true
				}
			}
			if !found {
				out = append(out, fmt.Sprintf("removal/deletion notice for %s (shown at seq %d, now %+v)", id, shown, *cur))
			}
		}
	}
	return out
}

func c01fRound(t *testing.T, run *vlib.Run, idx int) {
	r := run.CaseRand(idx)
	cacheOpts := DefaultCacheOptions()
	cacheOpts.BroadcastChangesInterval = 5 * time.Millisecond
	cacheOpts.SkippedSequenceBroadcastInterval = 5 * time.Millisecond
	cacheOpts.ChannelCacheMaxLength = vlib.Pick(r, []int{2, 3, 5, DefaultChannelCacheMaxLength})
	cacheOpts.ChannelCacheMinLength = 1
	cacheOpts.ChannelQueryLimit = vlib.Pick(r, []int{2, 5, 5000})
	db, ctx := SetupTestDBWithOptions(t, DatabaseContextOptions{CacheOptions: &cacheOpts})
	defer db.Close(ctx)
	db.AllowEmptyPassword = true
	col, ctx := GetSingleDatabaseCollectionWithUser(ctx, t, db)
	if _, err := col.UpdateSyncFun(ctx, c01SyncFn); err != nil {
		t.Errorf("sync fn: %v", err)
		return
	}
	cc := db.changeCache.getChannelCache().(*channelCacheImpl)
	static := map[string][]string{"uA": {"A"}, "uAB": {"A", "B"}, "uStar": {"*"}}
	model := &c01fModel{docs: map[string]*c01Doc{}}
	waitCache := func(seq uint64) bool {
		deadline := time.Now().Add(30 * time.Second)
		for db.changeCache.getNextSequence() <= seq || cc.GetHighCacheSequence() < seq {
			if time.Now().After(deadline) {
				return false
			}
			time.Sleep(200 * time.Microsecond)
		}
		return true
	}
	for _, u := range []string{"uA", "uAB", "uStar"} {
		name := u
		cfg := &auth.PrincipalConfig{Name: &name}
		if base.IsDefaultCollection(col.ScopeName, col.Name) {
			cfg.ExplicitChannels = base.SetFromArray(static[u])
		} else {
			cfg.SetExplicitChannels(col.ScopeName, col.Name, static[u]...)
		}
		_, p, err := db.UpdatePrincipal(ctx, cfg, true, true)
		if err != nil {
			t.Errorf("user: %v", err)
			return
		}
		model.ops = append(model.ops, c01Op{N: len(model.ops), Kind: "user", User: u, Ch: static[u], Seq: p.Sequence()})
		model.max = p.Sequence()
		if !waitCache(p.Sequence()) {
			run.Inconclusive("change cache did not reach a user document's sequence within the watchdog")
			return
		}
	}
	// clients
	clients := []*c01fClient{
		{User: "admin", Chans: []string{"*"}},
		{User: "uA", Chans: []string{"*"}},
		{User: vlib.Pick(r, []string{"uAB", "uStar"}), Chans: vlib.Pick(r, [][]string{{"*"}, {"A", "B"}, {"B"}})},
		{User: vlib.Pick(r, []string{"uAB", "uStar", "admin"}), Chans: vlib.Pick(r, [][]string{{"*"}, {"A", "C"}}), LongPoll: true},
	}
	cctx, cancel := context.WithCancel(context.Background())
	a := db.Authenticator(ctx)
	for _, c := range clients {
		c.stopped = make(chan struct{})
		ccol := &DatabaseCollectionWithUser{DatabaseCollection: col.DatabaseCollection}
		if c.User != "admin" {
			u, err := a.GetUser(c.User)
			if err != nil || u == nil {
				t.Errorf("GetUser: %v", err)
				cancel()
				return
			}
			ccol.user = u
		}
		go c.runFeed(ctx, cctx, ccol)
	}
	// auditor: per-channel cache invariants under the cache lock while everything runs
	var audits atomic.Int64
	auditStop := make(chan struct{})
	var auditWG sync.WaitGroup
	auditWG.Add(1)
	go func() {
		defer auditWG.Done()
		for {
			select {
			case <-auditStop:
				return
			default:
			}
			cc.channelCaches.Range(func(v any) bool {
				sc, ok := v.(*singleChannelCacheImpl)
				if !ok {
					return true
				}
				sc.lock.RLock()
				seen := map[string]bool{}
				bad := ""
				for i, l := range sc.logs {
					switch {
					case l == nil:
						bad = "nil-entry-in-logs"
					case i > 0 && sc.logs[i-1].Sequence >= l.Sequence:
						bad = "logs-not-strictly-ascending"
					case seen[l.DocID]:
						bad = "two-entries-for-one-document"
					case l.Sequence < sc.validFrom:
						bad = "entry-below-validFrom"
					}
					if l != nil {
						seen[l.DocID] = true
						if _, ok := sc.cachedDocIDs[l.DocID]; !ok {
							bad = "cachedDocIDs-misses-cached-document"
						}
					}
				}
				if len(seen) != len(sc.cachedDocIDs) && bad == "" {
					bad = "cachedDocIDs-holds-document-not-in-logs"
				}
				var dump []string
				if bad != "" {
					for _, l := range sc.logs {
						dump = append(dump, fmt.Sprintf("%s@%d", l.DocID, l.Sequence))
					}
				}
				vf := sc.validFrom
				sc.lock.RUnlock()
				audits.Add(1)
				if bad != "" {
					run.Violation("cache-invariants", "C01|feed|auditor|"+bad, fmt.Sprintf("channel %q validFrom=%d logs=%v", sc.channelID.Name, vf, dump), map[string]any{"case": idx, "seed": run.Seed})
				}
				return true
			})
			time.Sleep(300 * time.Microsecond)
		}
	}()

	// writers
	nw := 4
	per := r.Range(8, 14)
	var wg sync.WaitGroup
	for w := 0; w < nw; w++ {
		wr := r.Fork(uint64(100 + w))
		w := w
		wg.Add(1)
		go func() {
			defer wg.Done()
			mine := []*c01Doc{{ID: fmt.Sprintf("w%dx", w), Revs: map[string]*c01Rev{}}, {ID: fmt.Sprintf("w%dy", w), Revs: map[string]*c01Rev{}}}
			model.mu.Lock()
			for _, d := range mine {
				model.docs[d.ID] = d
			}
			model.mu.Unlock()
			for k := 0; k < per; k++ {
				d := vlib.Pick(wr, mine)
				var rev *c01Rev
				kind := "update"
				var cur *c01Rev
				if len(d.Order) > 0 {
					cur = d.Revs[d.Order[len(d.Order)-1]]
				}
				var ch []string
				for _, c := range c01Chans {
					if wr.Chance(2, 5) {
						ch = append(ch, c)
					}
				}
				switch {
				case cur == nil:
					rev, kind = &c01Rev{ID: fmt.Sprintf("1-w%dk%d", w, k), Gen: 1, Ch: ch}, "create"
				case !cur.Deleted && wr.Chance(1, 5):
					rev, kind = &c01Rev{ID: fmt.Sprintf("%d-w%dk%d", cur.Gen+1, w, k), Gen: cur.Gen + 1, Parent: cur.ID, Deleted: true}, "delete"
				default:
					rev = &c01Rev{ID: fmt.Sprintf("%d-w%dk%d", cur.Gen+1, w, k), Gen: cur.Gen + 1, Parent: cur.ID, Ch: ch}
					if cur.Deleted {
						kind = "resurrect"
					}
				}
				body := Body{"m": rev.ID}
				if rev.Deleted {
					body[BodyDeleted] = true
				} else {
					body["ch"] = rev.Ch
				}
				hist := []string{rev.ID}
				for p := rev.Parent; p != ""; p = d.Revs[p].Parent {
					hist = append(hist, p)
				}
				doc, _, err := col.PutExistingRevWithBody(ctx, d.ID, body, hist, false, ExistingVersionWithUpdateToHLV)
				if err != nil {
					run.Count("writes_failed", 1)
					run.Note("case %d: write %s %s: %v", idx, d.ID, rev.ID, err)
					continue
				}
				model.mu.Lock()
				d.Revs[rev.ID] = rev
				d.Order = append(d.Order, rev.ID)
				v := c01Ver{Seq: doc.Sequence, Rev: rev.ID, Deleted: rev.Deleted}
				if !rev.Deleted {
					v.Ch = rev.Ch
				}
				d.Hist = append(d.Hist, v)
				model.ops = append(model.ops, c01Op{N: len(model.ops), Kind: kind, Doc: d.ID, Rev: rev.ID, Parent: rev.Parent, Ch: rev.Ch, Del: rev.Deleted, Seq: doc.Sequence})
				if doc.Sequence > model.max {
					model.max = doc.Sequence
				}
				model.mu.Unlock()
				run.Count("writes", 1)
				if wr.Chance(1, 4) {
					time.Sleep(time.Duration(wr.Intn(3)) * time.Millisecond)
				}
			}
		}()
	}
	wg.Wait()
	model.mu.Lock()
	last := model.max
	model.mu.Unlock()
	stopAll := func() {
		cancel()
		// a parked feed looks at its context only when the listener wakes it (what the REST / BLIP handlers do on close)
		db.DatabaseContext.NotifyTerminatedChanges(ctx, "verif")
		for _, c := range clients {
			select {
			case <-c.stopped:
			case <-time.After(20 * time.Second):
				run.Inconclusive("a feed did not stop within the watchdog after its context was cancelled")
			}
		}
		close(auditStop)
		auditWG.Wait()
		run.Count("auditor_cache_inspections", int(audits.Load()))
	}
	if !waitCache(last) {
		run.Inconclusive("change cache did not reach the last written sequence within the watchdog")
		stopAll()
		return
	}
	wit := func() map[string]any {
		model.mu.Lock()
		defer model.mu.Unlock()
		w := map[string]any{"case": idx, "seed": run.Seed, "ops_in_commit_order_per_document": append([]c01Op{}, model.ops...), "cache_options": map[string]int{"ChannelCacheMaxLength": cacheOpts.ChannelCacheMaxLength, "ChannelQueryLimit": cacheOpts.ChannelQueryLimit}}
		for _, c := range clients {
			c.mu.Lock()
			w[c.String()] = c01List(c.got)
			c.mu.Unlock()
		}
		return w
	}
	// bounded delivery
	gauge := db.DbStats.CBLReplicationPull().NumPullReplCaughtUp
	nCont := 0
	for _, c := range clients {
		if !c.LongPoll {
			nCont++
		}
	}
	deadline := time.Now().Add(30 * time.Second)
	streak := 0
	delivered := false
	var owedNow map[string][]string
	for time.Now().Before(deadline) {
		owedNow = map[string][]string{}
		for _, c := range clients {
			if o := model.owed(c, static); len(o) > 0 {
				owedNow[c.String()] = o
			}
		}
		if len(owedNow) == 0 {
			delivered = true
			break
		}
		// the long-poll client is parked in Wait as well between its requests, so every client counts for the gauge
		if int(gauge.Value()) >= len(clients) && cc.GetHighCacheSequence() >= last {
			streak++
		} else {
			streak = 0
		}
		if streak >= 100 {
			break
		}
		time.Sleep(5 * time.Millisecond)
	}
	switch {
	case delivered:
		run.Count("rounds_all_feeds_delivered_everything", 1)
	case streak >= 100:
		run.Violation("bounded-delivery", "C01|feed|all-feeds-parked-with-undelivered-visible-changes",
			fmt.Sprintf("all %d feeds are parked in changeWaiter.Wait, the cache is at the last written sequence %d, and after 100 inspections 5 ms apart these entries are still undelivered: %v", len(clients), last, owedNow), wit())
	default:
		run.Inconclusive("feeds neither delivered everything nor stayed parked for 100 inspections before the watchdog")
		run.Note("case %d: owed %v gauge=%d", idx, owedNow, gauge.Value())
	}
	stopAll()
	// soundness of everything delivered, order and duplicates (no sequence was skipped in these runs unless counted)
	skipped := db.DbStats.Cache().NumSkippedSeqs.Value()
	run.Count("skipped_sequences_seen", int(skipped))
	for _, c := range clients {
		c.mu.Lock()
		got := append([]c01Entry{}, c.got...)
		errs := append([]string{}, c.errs...)
		run.Count("entries_delivered", len(got))
		run.Count("caught_up_notifications", c.nils)
		run.Count("feed_requests", c.reqs)
		c.mu.Unlock()
		if len(errs) > 0 {
			run.Violation("bounded-delivery", "C01|feed|feed-returned-error", fmt.Sprintf("%s: %v", c, errs), wit())
		}
		model.mu.Lock()
		seenTok := map[string]bool{}
		for i, e := range got {
			if strings.HasPrefix(e.ID, "_user/") {
				continue
			}
			d := model.docs[e.ID]
			var at *c01Ver
			ever := false
			if d != nil {
				for j := range d.Hist {
					if c01fInView(c.User, static, c.Chans, &d.Hist[j]) {
						ever = true
					}
					if d.Hist[j].Seq == e.Seq.Seq {
						at = &d.Hist[j]
					}
				}
			}
			switch {
			case d == nil || !ever:
				run.Violation("model", "C01|feed|model|entry-for-document-never-in-visible-requested-channel", fmt.Sprintf("%s: entry %s", c, e), wit())
			case at == nil:
				run.Violation("model", "C01|feed|model|entry-sequence-is-not-a-change-of-that-document", fmt.Sprintf("%s: entry %s", c, e), wit())
			case at.Rev != e.Rev:
				run.Violation("model", "C01|feed|model|entry-revision-is-not-the-revision-at-that-sequence", fmt.Sprintf("%s: entry %s, document had %s", c, e, at.Rev), wit())
			}
			if skipped == 0 {
				if seenTok[e.Tok] {
					run.Violation("structure", "C01|feed|sequence-delivered-twice", fmt.Sprintf("%s: entry %s", c, e), wit())
				}
				if i > 0 && !got[i-1].Seq.Before(e.Seq) && !strings.HasPrefix(got[i-1].ID, "_user/") {
					run.Violation("structure", "C01|feed|entries-not-strictly-increasing", fmt.Sprintf("%s: entry %s after %s", c, e, got[i-1]), wit())
				}
			}
			seenTok[e.Tok] = true
		}
		model.mu.Unlock()
	}
	run.Eval()
	run.Nontrivial(fmt.Sprintf("%d:%d", idx, last))
	if idx == 0 {
		run.Sample(wit())
	}
}

func TestVerif_C01_Feed(t *testing.T) {
	run := vlib.Start(t, "C01", "feed")
	defer run.Finish()
	n := run.N(16, 200)
	for i := 0; i < n; i++ {
		if only, ok := run.OnlyCase(); ok && only != i {
			continue
		}
		c01fRound(t, run, i)
	}
}
