//go:build verif

package db

import (
	"context"
	"encoding/json"
	"fmt"
	"sort"
	"strings"
	"sync"
	"sync/atomic"
	"testing"
	"time"

	"github.com/anishathalye/porcupine"
	sgbucket "github.com/couchbase/sg-bucket"
	"github.com/couchbase/sync_gateway/base"
	"verif/vlib"
)

// C05 — acknowledged writes are never lost; one accepted child per parent revision.
// N writers do read-modify-write (PUT with parent revision, DELETE, pushed revision with ancestry)
// on shared documents of a conflict-free database. The step scheduler interleaves their document
// storage steps (including the compute→CAS window); an interferer bumps the document's CAS at
// chosen retry points without superseding the parent (forced CAS failure). Oracles at quiescence.

const c05SyncFn = `function(doc, oldDoc){ channel(doc.chan || (oldDoc && oldDoc.chan) || "A"); }`

type c05Attempt struct {
	Writer  string `json:"writer"`
	Doc     string `json:"doc"`
	Kind    string `json:"kind"` // put | delete | push
	Marker  string `json:"marker"`
	Parent  string `json:"parent"`
	Rev     string `json:"rev,omitempty"`
	Seq     uint64 `json:"seq,omitempty"`
	Outcome string `json:"outcome"` // ok | conflict | error:<class>
	Call    int64  `json:"call"`
	Ret     int64  `json:"ret"`
	ReadRev string `json:"read_rev"`
	ReadDel bool   `json:"read_deleted,omitempty"`
}

type c05Env struct {
	vs         *vStore
	db         *Database
	ctx        context.Context
	collection *DatabaseCollectionWithUser
	rawDS      base.DataStore
	caseN      int
	clock      atomic.Int64
}

func c05NewEnv(t *testing.T, shortIdleRelease bool) *c05Env {
	vs := newVStore(t)
	cacheOpts := DefaultCacheOptions()
	db, ctx := SetupTestDBForBucketWithOptions(t, vs.vtb, DatabaseContextOptions{CacheOptions: &cacheOpts})
	collection, ctx := GetSingleDatabaseCollectionWithUser(ctx, t, db)
	if _, err := collection.UpdateSyncFun(ctx, c05SyncFn); err != nil {
		t.Fatalf("sync fn: %v", err)
	}
	if shortIdleRelease {
		db.sequences.mutex.Lock()
		db.sequences.releaseSequenceWait = 2 * time.Millisecond
		db.sequences.mutex.Unlock()
	}
	e := &c05Env{vs: vs, db: db, ctx: ctx, collection: collection, rawDS: base.GetBaseDataStore(collection.dataStore)}
	vs.SetStepFilter(func(op *base.VerifOp) bool { return strings.HasPrefix(op.Key, "c05-") })
	return e
}

func (e *c05Env) Close() {
	e.db.Close(e.ctx)
	e.vs.Close(e.ctx)
}

type c05Spec struct {
	Writers   int     `json:"writers"`
	Rounds    int     `json:"rounds"`
	Docs      int     `json:"docs"`
	Interfere []int   `json:"interfere_at_attempts,omitempty"` // forced CAS failure at these callback attempts (per write)
	Kinds     []string `json:"kinds"`
}

// c05RunCase runs one case; chooser nil ⇒ unscheduled goroutines (stress).
func c05RunCase(t *testing.T, run *vlib.Run, e *c05Env, spec c05Spec, chooser vlib.Chooser, r *vlib.Rand) *vlib.Sched {
	e.caseN++
	ctx, collection := e.ctx, e.collection
	docs := make([]string, spec.Docs)
	for i := range docs {
		docs[i] = fmt.Sprintf("c05-%d-%d", e.caseN, i)
	}
	var mu sync.Mutex
	var attempts []*c05Attempt
	// every case has its own channel: its channel cache is created by the first changes request, which in the
	// unscheduled (stress) cases races with the writers
	caseChannel := fmt.Sprintf("c05ch%d", e.caseN)
	fillers := map[string]c05Filler{}
	e.vs.ResetLog()
	interfereAt := map[int]bool{}
	for _, a := range spec.Interfere {
		interfereAt[a] = true
	}
	var forced atomic.Int64
	var tmu sync.Mutex
	_ = &tmu
	touches := map[string][]uint64{}
	e.vs.SetMid(func(op *base.VerifOp, actor string) error {
		if op.Kind == "WriteUpdateWithXattrs.mid" && strings.HasPrefix(op.Key, "c05-") && interfereAt[op.Attempt] {
			// forced CAS failure: the store is told to re-read and run the update again, exactly as after a lost
			// compare-and-swap, without any foreign mutation of the document (an xattr touch through the
			// store would be imported by the gateway as an external write)
			forced.Add(1)
			return base.ErrCasFailureShouldRetry
		}
		return nil
	})
	defer e.vs.SetMid(nil)

	writer := func(name string, wr *vlib.Rand) {
		for k := 0; k < spec.Rounds; k++ {
			doc := vlib.Pick(wr, docs)
			kind := vlib.Pick(wr, spec.Kinds)
			a := &c05Attempt{Writer: name, Doc: doc, Kind: kind, Marker: fmt.Sprintf("%s-%s-k%d", doc, name, k)}
			cur, err := collection.GetDocument(ctx, doc, DocUnmarshalSync)
			if err == nil && cur != nil {
				a.ReadRev, a.ReadDel = cur.GetRevTreeID(), cur.IsDeleted()
			}
			a.Parent = a.ReadRev
			if kind == "delete" && (a.ReadRev == "" || a.ReadDel) {
				kind, a.Kind = "put", "put"
			}
			if kind == "push" && a.ReadRev == "" {
				// a pushed revision without ancestry starts a new branch (legitimately, when the document is a
				// tombstone): outside the single-chain statement, so such writers create with PUT instead
				kind, a.Kind = "put", "put"
			}
			a.Call = e.clock.Add(1)
			var rev string
			var d *Document
			var werr error
			switch kind {
			case "put":
				body := Body{"m": a.Marker, "chan": caseChannel}
				if a.Parent != "" {
					body[BodyRev] = a.Parent
				}
				rev, d, werr = collection.Put(ctx, doc, body)
			case "delete":
				rev, d, werr = collection.DeleteDoc(ctx, doc, DocVersion{RevTreeID: a.Parent})
			case "push":
				gen := 1
				if a.Parent != "" {
					g, _ := ParseRevID(ctx, a.Parent)
					gen = g + 1
				}
				newRev := fmt.Sprintf("%d-%s", gen, strings.ReplaceAll(a.Marker, "-", ""))
				hist := []string{newRev}
				if a.Parent != "" {
					hist = append(hist, a.Parent)
				}
				d, rev, werr = collection.PutExistingRevWithBody(ctx, doc, Body{"m": a.Marker, "chan": caseChannel}, hist, true, ExistingVersionWithUpdateToHLV)
			}
			a.Ret = e.clock.Add(1)
			switch {
			case werr == nil:
				a.Outcome, a.Rev = "ok", rev
				if d != nil {
					a.Seq = d.Sequence
				}
			case verifErrClass(werr) == "conflict":
				a.Outcome = "conflict"
			case strings.Contains(werr.Error(), "when the document is a tombstone"):
				// rosmar reports "deleteBody=true on a tombstone" (a plain error) where the CAS comparison would also
				// have failed: the document was deleted by a concurrent writer after this writer read it. A store
				// artefact; logically a lost CAS that ends in a conflict. No effect may remain (checked below).
				a.Outcome = "conflict"
				run.Count("rosmar_tombstone_precedence_errors", 1)
			default:
				a.Outcome = "error:" + verifErrClass(werr) + ":" + werr.Error()
			}
			mu.Lock()
			attempts = append(attempts, a)
			mu.Unlock()
		}
	}
	var sc *vlib.Sched
	if chooser != nil {
		sc = vlib.NewSched(chooser)
		for w := 0; w < spec.Writers; w++ {
			name := fmt.Sprintf("w%d", w)
			wr := r.Fork(uint64(w) + 50)
			sc.Go(name, func() { writer(name, wr) })
		}
		e.vs.SetSched(sc)
		sc.Run()
		e.vs.SetSched(nil)
		if sc.Deadlock {
			run.Inconclusive("scheduler-hard-timeout")
		}
	} else {
		var wg sync.WaitGroup
		stopReader := make(chan struct{})
		readerDone := make(chan struct{})
		go func() {
			// a changes client of the case's channel racing with the writers (the first request creates the channel cache)
			defer close(readerDone)
			for {
				select {
				case <-stopReader:
					return
				default:
				}
				if feed, err := collection.MultiChangesFeed(ctx, base.SetOf(caseChannel), ChangesOptions{ChangesCtx: ctx}); err == nil {
					for range feed {
					}
					run.Count("changes_requests_racing_with_writers", 1)
				}
			}
		}()
		for w := 0; w < spec.Writers; w++ {
			name := fmt.Sprintf("w%d", w)
			wr := r.Fork(uint64(w) + 50)
			wg.Add(1)
			go func() { defer wg.Done(); writer(name, wr) }()
		}
		// single-write documents in the same channel: each one's only (= final) revision can fall into the window
		// in which the channel's cache is being created by the racing reader
		wg.Add(1)
		go func() {
			defer wg.Done()
			for i := 0; i < 40; i++ {
				id := fmt.Sprintf("c05-%d-f%d", e.caseN, i)
				if rev, d, err := collection.Put(ctx, id, Body{"m": id, "chan": caseChannel}); err == nil {
					mu.Lock()
					fillers[id] = c05Filler{rev, d.Sequence}
					mu.Unlock()
				}
			}
		}()
		wg.Wait()
		close(stopReader)
		<-readerDone
	}
	log := e.vs.Log()

	// ---------------- oracles
	schedule := []string{}
	var choices []int
	if sc != nil {
		schedule, choices = sc.Trace, sc.Choices
	}
	wit := func() map[string]any {
		return map[string]any{"spec": spec, "attempts": attempts, "schedule": schedule, "choices": choices, "forced_cas_failures": forced.Load()}
	}
	byDoc := map[string][]*c05Attempt{}
	for _, a := range attempts {
		byDoc[a.Doc] = append(byDoc[a.Doc], a)
	}
	var maxSeq uint64
	okCount, conflictCount := 0, 0
	// (0) storage level: every committed document write was computed from the state it replaced. The
	// committed versions of a key, ordered by the CAS the store gave them (interferer touches included),
	// must form a chain: CasIn of each = CasOut of its predecessor.
	staleResurrection := map[string]bool{}
	for _, doc := range docs {
		type commit struct {
			casIn, casOut uint64
			touch, resurrect bool
		}
		var cs []commit
		for _, op := range log {
			if op.Key != doc || !op.Applied || !op.Mutating || op.CasOut == 0 {
				continue
			}
			if op.Kind == "WriteUpdateWithXattrs" {
				cs = append(cs, commit{casIn: op.CasIn, casOut: op.CasOut, resurrect: op.PrevTombstone && !op.Deleted})
			} else {
				// e.g. the post-commit CAS re-stamp (UpdateXattrs guarded on the CAS): part of the chain; checked when it names a CAS
				cs = append(cs, commit{casIn: op.CasIn, casOut: op.CasOut, touch: op.CasIn == 0})
			}
		}
		for _, c := range touches[doc] {
			cs = append(cs, commit{casOut: c, touch: true})
		}
		sort.Slice(cs, func(i, j int) bool { return cs[i].casOut < cs[j].casOut })
		for i, c := range cs {
			if c.touch {
				continue
			}
			var prev uint64
			if i > 0 {
				prev = cs[i-1].casOut
			}
			run.Count("commit_chain_links_checked", 1)
			if c.casIn != prev {
				if c.resurrect {
					staleResurrection[doc] = true
					run.Violation("stale-overwrite", "C05|stale-overwrite|resurrection-of-tombstone-is-not-compare-and-swap", fmt.Sprintf("%s: a write that resurrects a tombstone was computed from the document at CAS %d but replaced the version at CAS %d (other acknowledged writes were committed in between and are overwritten)", doc, c.casIn, prev), wit())
				} else {
					run.Violation("stale-overwrite", "C05|stale-overwrite|write-replaced-a-version-it-had-not-read", fmt.Sprintf("%s: a committed write was computed from CAS %d but replaced CAS %d", doc, c.casIn, prev), wit())
				}
			}
		}
	}
	for _, doc := range docs {
		as := byDoc[doc]
		if staleResurrection[doc] {
			// the history checks below would only restate the consequences of the overwrite reported above
			run.Count("documents_skipped_after_stale_resurrection", 1)
			continue
		}
		final, err := collection.GetDocument(ctx, doc, DocUnmarshalAll)
		acked := []*c05Attempt{}
		for _, a := range as {
			switch {
			case a.Outcome == "ok":
				acked = append(acked, a)
				okCount++
			case a.Outcome == "conflict":
				conflictCount++
			default:
				run.Violation("unexpected-error", "C05|writer-received-non-conflict-error|kind="+a.Kind, fmt.Sprintf("%s on %s with parent %q: %s (no storage fault was injected)", a.Kind, doc, a.Parent, a.Outcome), wit())
			}
		}
		if len(acked) == 0 {
			if err == nil && final != nil && len(final.History) > 0 {
				run.Violation("no-trace", "C05|document-exists-without-any-acknowledged-write", fmt.Sprintf("%s has %d revisions but no write was acknowledged", doc, len(final.History)), wit())
			}
			continue
		}
		if err != nil || final == nil {
			run.Violation("lost-write", "C05|acknowledged-writes-but-document-unreadable", fmt.Sprintf("%s: %v", doc, err), wit())
			continue
		}
		// (1) every acknowledged revision is in the history
		seqOf := map[string]uint64{}
		parentAcked := map[string][]string{}
		for _, a := range acked {
			seqOf[a.Rev] = a.Seq
			if a.Seq > maxSeq {
				maxSeq = a.Seq
			}
			if _, ok := final.History[a.Rev]; !ok {
				run.Violation("lost-write", "C05|acknowledged-revision-missing-from-history|kind="+a.Kind, fmt.Sprintf("%s: %s by %s acknowledged as %s (seq %d) but the stored history is %v", doc, a.Kind, a.Writer, a.Rev, a.Seq, c05Revs(final)), wit())
				continue
			}
			parentAcked[final.History[a.Rev].Parent] = append(parentAcked[final.History[a.Rev].Parent], a.Rev)
			// the tombstone flag of the stored revision is what the writer asked for
			if final.History[a.Rev].Deleted != (a.Kind == "delete") {
				run.Violation("lost-write", "C05|acknowledged-"+a.Kind+"-stored-with-wrong-deletion-state", fmt.Sprintf("%s: %s acknowledged as %s, stored deleted=%v", doc, a.Kind, a.Rev, final.History[a.Rev].Deleted), wit())
			}
		}
		// (2) one acknowledged child per parent, single chain whose length is the number of acknowledged writes
		for p, kids := range parentAcked {
			if len(kids) > 1 {
				run.Violation("one-child", "C05|two-acknowledged-children-of-one-parent", fmt.Sprintf("%s: parent %q has acknowledged children %v", doc, p, kids), wit())
			}
		}
		if len(final.History) != len(acked) {
			run.Violation("chain", "C05|history-length-differs-from-acknowledged-writes", fmt.Sprintf("%s: %d revisions %v, %d acknowledged writes", doc, len(final.History), c05Revs(final), len(acked)), wit())
		}
		if leaves := final.History.GetLeaves(); len(leaves) != 1 {
			run.Violation("chain", "C05|history-is-not-a-single-chain", fmt.Sprintf("%s: leaves %v", doc, leaves), wit())
		}
		// (3) own sequence, strictly greater than the superseded write's
		seen := map[uint64]string{}
		for _, a := range acked {
			if other, dup := seen[a.Seq]; dup {
				run.Violation("sequence", "C05|two-acknowledged-writes-share-a-sequence", fmt.Sprintf("%s: %s and %s both at sequence %d", doc, other, a.Rev, a.Seq), wit())
			}
			seen[a.Seq] = a.Rev
			if info, ok := final.History[a.Rev]; ok && info.Parent != "" {
				if ps, ok := seqOf[info.Parent]; ok && a.Seq <= ps {
					run.Violation("sequence", "C05|acknowledged-write-sequence-not-greater-than-superseded", fmt.Sprintf("%s: %s at %d supersedes %s at %d", doc, a.Rev, a.Seq, info.Parent, ps), wit())
				}
			}
		}
		// (4) rejected writers leave no trace: the bodies ever committed for this document are acknowledged markers only
		ackedMarkers := map[string]bool{}
		for _, a := range acked {
			ackedMarkers[a.Marker] = true
		}
		for _, op := range log {
			if op.Key != doc || !op.Applied || op.Kind != "WriteUpdateWithXattrs" || len(op.Value) == 0 {
				continue
			}
			var b struct {
				M string `json:"m"`
			}
			if json.Unmarshal(op.Value, &b) == nil && b.M != "" && !ackedMarkers[b.M] {
				run.Violation("no-trace", "C05|rejected-writer-left-a-trace-in-storage", fmt.Sprintf("%s: body marker %q was committed but its writer was not acknowledged", doc, b.M), wit())
			}
		}
		// (5) per-document linearizability of the acknowledged/conflict history
		c05CheckLinearizable(run, doc, as, wit)
		run.Count("documents_checked", 1)
	}
	// (6) the changes feed ends on each document's final revision
	for _, f := range fillers {
		if f.Seq > maxSeq {
			maxSeq = f.Seq
		}
	}
	if maxSeq > 0 {
		deadline := time.Now().Add(15 * time.Second)
		for e.db.changeCache.getNextSequence() <= maxSeq && time.Now().Before(deadline) {
			time.Sleep(time.Millisecond)
		}
		if e.db.changeCache.getNextSequence() <= maxSeq {
			run.Inconclusive("change cache did not reach the last acknowledged sequence within the watchdog")
		} else {
			feed, err := collection.MultiChangesFeed(ctx, base.SetOf(caseChannel), ChangesOptions{ChangesCtx: ctx})
			if err != nil {
				run.Inconclusive("changes feed error: " + err.Error())
			} else {
				last := map[string]*ChangeEntry{}
				for entry := range feed {
					if entry != nil && entry.Err == nil {
						last[entry.ID] = entry
					}
				}
				for id, f := range fillers {
					ent := last[id]
					run.Count("single_write_documents_checked_on_feed", 1)
					if ent == nil || ent.Seq.Seq != f.Seq {
						run.Violation("feed", "C05|changes-feed-does-not-announce-an-acknowledged-single-write-document", fmt.Sprintf("%s acknowledged as %s at sequence %d while a changes client was first reading its channel; after quiescence the channel's feed does not list it", id, f.Rev, f.Seq), wit())
						break
					}
				}
				for _, doc := range docs {
					if staleResurrection[doc] {
						continue // consequence of the overwrite already reported for this document
					}
					final, err := collection.GetDocument(ctx, doc, DocUnmarshalSync)
					if err != nil || final == nil {
						continue
					}
					ent := last[doc]
					if ent == nil {
						run.Violation("feed", "C05|changes-feed-does-not-announce-the-document", fmt.Sprintf("%s (current %s at %d) has no entry on the feed", doc, final.GetRevTreeID(), final.Sequence), wit())
						continue
					}
					rev := ""
					for _, c := range ent.Changes {
						if v, ok := c[ChangesVersionTypeRevTreeID]; ok {
							rev = v
						}
					}
					if rev != final.GetRevTreeID() || ent.Seq.Seq != final.Sequence || ent.Deleted != final.IsDeleted() {
						run.Violation("feed", "C05|changes-feed-does-not-end-on-the-final-revision", fmt.Sprintf("%s: feed says rev %s seq %d deleted=%v, document is %s seq %d deleted=%v", doc, rev, ent.Seq.Seq, ent.Deleted, final.GetRevTreeID(), final.Sequence, final.IsDeleted()), wit())
					}
					run.Count("feed_entries_checked", 1)
				}
			}
		}
	}
	run.Eval()
	run.Count("acknowledged_writes", okCount)
	run.Count("conflict_rejections", conflictCount)
	run.Count("forced_cas_failures", int(forced.Load()))
	retries := 0
	for _, op := range log {
		if op.Kind == "WriteUpdateWithXattrs" && op.Attempt > 1 {
			retries += op.Attempt - 1
		}
	}
	run.Count("cas_retries_observed", retries)
	if sc != nil {
		run.Distinct("schedules", sc.Fingerprint())
	}
	if retries > 0 && conflictCount+okCount >= 2 {
		fp := ""
		if sc != nil {
			fp = sc.Fingerprint()
		}
		run.Nontrivial(vlib.JSON(spec) + "|" + fp + "|" + fmt.Sprint(e.caseN))
	}
	if e.caseN%50 == 1 {
		run.Sample(wit())
	}
	return sc
}

func c05Revs(d *Document) []string {
	out := []string{}
	for r := range d.History {
		out = append(out, r)
	}
	sort.Strings(out)
	return out
}

type c05Filler struct {
	Rev string
	Seq uint64
}

type c05In struct {
	Kind   string
	Parent string
}
type c05Out struct {
	Outcome string
	Rev     string
}
type c05State struct {
	Rev     string
	Deleted bool
}

// c05CheckLinearizable: sequential model "register = current revision (+ tombstone flag)".
func c05CheckLinearizable(run *vlib.Run, doc string, as []*c05Attempt, wit func() map[string]any) {
	ops := make([]porcupine.Operation, 0, len(as))
	for i, a := range as {
		if a.Outcome != "ok" && a.Outcome != "conflict" {
			continue
		}
		ops = append(ops, porcupine.Operation{ClientId: i % 64, Input: c05In{a.Kind, a.Parent}, Call: a.Call, Output: c05Out{a.Outcome, a.Rev}, Return: a.Ret})
	}
	if len(ops) == 0 {
		return
	}
	model := porcupine.Model{
		Init: func() any { return c05State{} },
		Step: func(st, in, out any) (bool, any) {
			s, i, o := st.(c05State), in.(c05In), out.(c05Out)
			accept := i.Parent == s.Rev
			either := i.Parent == "" && s.Rev != "" && s.Deleted // write without parent onto a tombstone: resurrection may be accepted
			if o.Outcome == "ok" {
				if !accept && !either {
					return false, s
				}
				return true, c05State{Rev: o.Rev, Deleted: i.Kind == "delete"}
			}
			if either {
				return true, s
			}
			return !accept, s
		},
		Equal: func(a, b any) bool { return a.(c05State) == b.(c05State) },
	}
	res := porcupine.CheckOperationsTimeout(model, ops, 20*time.Second)
	switch res {
	case porcupine.Illegal:
		run.Violation("linearizability", "C05|acknowledged-and-conflict-results-not-linearizable", fmt.Sprintf("%s: no sequential order of the %d write results (ok/conflict) respects parent = current revision", doc, len(ops)), wit())
	case porcupine.Unknown:
		run.Inconclusive("porcupine timeout")
	default:
		run.Count("linearizable_histories", 1)
	}
}

func TestVerif_C05_Systematic(t *testing.T) {
	run := vlib.Start(t, "C05", "systematic")
	defer run.Finish()
	e := c05NewEnv(t, false)
	defer e.Close()
	rnd := run.Rand()
	specs := []c05Spec{
		{Writers: 2, Rounds: 2, Docs: 1, Kinds: []string{"put"}},
		{Writers: 2, Rounds: 2, Docs: 1, Kinds: []string{"put", "delete"}, Interfere: []int{1}},
		{Writers: 2, Rounds: 2, Docs: 1, Kinds: []string{"push", "put"}, Interfere: []int{1, 2}},
		{Writers: 3, Rounds: 1, Docs: 1, Kinds: []string{"put", "delete", "push"}},
	}
	maxRuns := run.N(150, 2500)
	for si, spec := range specs {
		ex := vlib.NewExplorer(run.N(2, 3), 60)
		for !ex.Exhausted() && ex.Runs < maxRuns {
			sc := c05RunCase(t, run, e, spec, ex.Chooser(), rnd.Fork(uint64(si)))
			ex.Done(sc)
		}
		run.Count("systematic_runs", ex.Runs)
		if ex.Exhausted() {
			run.Count("specs_exhausted_within_bound", 1)
		}
	}
}

func TestVerif_C05_Random(t *testing.T) {
	run := vlib.Start(t, "C05", "random")
	defer run.Finish()
	e := c05NewEnv(t, false)
	defer e.Close()
	total := run.N(300, 8000)
	for i := 0; i < total; i++ {
		r := run.CaseRand(i)
		spec := c05Spec{Writers: r.Range(2, 4), Rounds: r.Range(2, 4), Docs: r.Range(1, 2), Kinds: []string{"put", "put", "delete", "push"}}
		for a := 1; a <= 3; a++ {
			if r.Chance(1, 3) {
				spec.Interfere = append(spec.Interfere, a)
			}
		}
		c05RunCase(t, run, e, spec, vlib.RandomChooser(r.Fork(3), 50), r)
	}
}

// TestVerif_C05_Stress: unscheduled goroutines under the race detector, idle sequence release firing
// every few milliseconds, forced CAS failures.
func TestVerif_C05_Stress(t *testing.T) {
	run := vlib.Start(t, "C05", "stress")
	defer run.Finish()
	// widen the window between "valid from the current high sequence" and the publication of a new channel cache
	// (hook H2; inside the cache's own lock on a correct tree, where the delay adds nothing)
	SetVerifPointHook(func(name string) {
		if name == "channel-cache-between-validfrom-and-insert" {
			time.Sleep(2 * time.Millisecond)
		}
	})
	defer SetVerifPointHook(nil)
	e := c05NewEnv(t, true)
	defer e.Close()
	total := run.N(60, 1500)
	for i := 0; i < total; i++ {
		r := run.CaseRand(i)
		spec := c05Spec{Writers: r.Range(3, 6), Rounds: r.Range(3, 6), Docs: r.Range(1, 2), Kinds: []string{"put", "put", "delete", "push"}}
		if r.Bool() {
			spec.Interfere = []int{1}
		}
		c05RunCase(t, run, e, spec, nil, r)
	}
}

// TestVerif_C05_Scenarios: deterministic histories that need a specific interleaving, built with the
// compute→CAS window hook instead of the scheduler.
func TestVerif_C05_Scenarios(t *testing.T) {
	run := vlib.Start(t, "C05", "scenarios")
	defer run.Finish()
	e := c05NewEnv(t, false)
	defer e.Close()
	ctx, collection := e.ctx, e.collection
	e.vs.SetStepFilter(func(op *base.VerifOp) bool { return false })

	// (S1) a writer resurrecting a tombstone is overtaken by a complete resurrect-and-delete of another
	// writer (tombstone → live → tombstone) inside its compute→CAS window.
	for variant := 0; variant < run.N(3, 12); variant++ {
		e.caseN++
		doc := fmt.Sprintf("c05-s1-%d", e.caseN)
		e.vs.ResetLog()
		type ackT struct {
			Who, Rev string
			Seq      uint64
		}
		var acks []ackT
		put := func(who, parent, marker string) (string, error) {
			b := Body{"m": marker}
			if parent != "" {
				b[BodyRev] = parent
			}
			rev, d, err := collection.Put(ctx, doc, b)
			if err == nil {
				acks = append(acks, ackT{who, rev, d.Sequence})
			}
			return rev, err
		}
		del := func(who, parent string) (string, error) {
			rev, d, err := collection.DeleteDoc(ctx, doc, DocVersion{RevTreeID: parent})
			if err == nil {
				acks = append(acks, ackT{who, rev, d.Sequence})
			}
			return rev, err
		}
		r1, err := put("setup", "", "s1-1")
		if err != nil {
			t.Fatalf("setup: %v", err)
		}
		r2, err := del("setup", r1)
		if err != nil {
			t.Fatalf("setup delete: %v", err)
		}
		nested := false
		var events []string
		e.vs.SetMid(func(op *base.VerifOp, actor string) error {
			if nested || op.Key != doc || op.Attempt != 1 {
				return nil
			}
			nested = true
			defer func() { nested = false }()
			// B: resurrect, optionally update, delete again
			cur, err := put("B", r2, "s1-B-resurrect")
			events = append(events, fmt.Sprintf("B resurrect -> %s %v", cur, err))
			for k := 0; k < variant%3 && err == nil; k++ {
				cur, err = put("B", cur, fmt.Sprintf("s1-B-update%d", k))
				events = append(events, fmt.Sprintf("B update -> %s %v", cur, err))
			}
			if err == nil {
				cur, err = del("B", cur)
				events = append(events, fmt.Sprintf("B delete -> %s %v", cur, err))
			}
			return nil
		})
		ra, errA := put("A", r2, "s1-A-resurrect")
		e.vs.SetMid(nil)
		events = append(events, fmt.Sprintf("A resurrect (computed before B ran) -> %s %v", ra, errA))
		final, ferr := collection.GetDocument(ctx, doc, DocUnmarshalAll)
		run.Eval()
		run.Nontrivial(fmt.Sprintf("s1/%d", variant))
		wit := map[string]any{"scenario": "tombstone→live→tombstone inside another resurrection's compute→CAS window", "variant": variant, "events": events, "acks": acks}
		if ferr != nil || final == nil {
			run.Violation("lost-write", "C05|acknowledged-writes-but-document-unreadable", fmt.Sprint(ferr), wit)
			continue
		}
		wit["stored_history"] = c05Revs(final)
		var lost []string
		for _, a := range acks {
			if _, ok := final.History[a.Rev]; !ok {
				lost = append(lost, a.Who+":"+a.Rev)
			}
		}
		run.Count("scenario_acknowledged_writes", len(acks))
		if len(lost) > 0 {
			// root cause as seen at the storage boundary
			stale := false
			for _, op := range e.vs.Log() {
				if op.Key == doc && op.Applied && op.Kind == "WriteUpdateWithXattrs" && op.PrevTombstone && !op.Deleted {
					stale = true
				}
			}
			if stale && errA == nil {
				run.Violation("stale-overwrite", "C05|stale-overwrite|resurrection-of-tombstone-is-not-compare-and-swap",
					fmt.Sprintf("%s: acknowledged writes %v are gone: A's resurrection was computed from the tombstone %s, B's acknowledged resurrect/update/delete were committed in between, and A's write replaced them without a compare-and-swap", doc, lost, r2), wit)
			} else {
				run.Violation("lost-write", "C05|acknowledged-revision-missing-from-history|scenario=aba", fmt.Sprintf("%s: lost %v", doc, lost), wit)
			}
		}
		if variant == 0 {
			run.Sample(wit)
		}
	}

	// (S3) the post-commit CAS re-stamp of writer 1 (generated version ahead of the CAS: gateway clock ahead of the
	// store's) is overtaken by writer 2's complete, acknowledged write: writer 2's revision must survive.
	for variant := 0; variant < run.N(3, 10); variant++ {
		e.caseN++
		doc := fmt.Sprintf("c05-s3-%d", e.caseN)
		e.vs.ResetLog()
		rev1, _, err := collection.Put(ctx, doc, Body{"m": "s3-1", "chan": "A"})
		if err != nil {
			t.Fatalf("s3 setup: %v", err)
		}
		offset := uint64(time.Duration(20+10*variant) * time.Millisecond)
		e.db.hlc.SetClockForTest(func() uint64 { return sgbucket.HLCWallClock() + offset })
		fired := false
		var rev3 string
		var seq3 uint64
		var err3 error
		e.vs.SetFault(func(op *base.VerifOp, actor string) base.VerifDecision {
			if op.Kind == "UpdateXattrs" && op.Key == doc && !fired {
				fired = true
				e.db.hlc.SetClockForTest(sgbucket.HLCWallClock)
				if cur, gerr := collection.GetDocument(ctx, doc, DocUnmarshalSync); gerr == nil {
					var d3 *Document
					rev3, d3, err3 = collection.Put(ctx, doc, Body{BodyRev: cur.GetRevTreeID(), "m": "s3-3", "chan": "A"})
					if err3 == nil {
						seq3 = d3.Sequence
					}
				}
			}
			return base.VerifDecision{}
		})
		rev2, _, err2 := collection.Put(ctx, doc, Body{BodyRev: rev1, "m": "s3-2", "chan": "A"})
		e.vs.SetFault(nil)
		e.db.hlc.SetClockForTest(sgbucket.HLCWallClock)
		run.Eval()
		if !fired {
			run.Count("s3_restamp_did_not_run", 1)
			continue
		}
		run.Count("s3_restamp_overtaken_cases", 1)
		run.Nontrivial(fmt.Sprintf("s3/%d", variant))
		final, ferr := collection.GetDocument(ctx, doc, DocUnmarshalAll)
		wit := map[string]any{"scenario": "writer 1's post-commit CAS re-stamp overtaken by writer 2", "rev1": rev1, "rev2": rev2, "err2": fmt.Sprint(err2), "rev3": rev3, "err3": fmt.Sprint(err3), "seq3": seq3}
		if ferr != nil || final == nil || err2 != nil || err3 != nil {
			run.Inconclusive("s3 scenario did not run as planned")
			continue
		}
		wit["stored_history"] = c05Revs(final)
		if _, ok := final.History[rev3]; !ok || final.GetRevTreeID() != rev3 || final.Sequence != seq3 || len(final.History) != 3 {
			run.Violation("lost-write", "C05|acknowledged-write-overwritten-by-the-post-commit-re-stamp-of-the-previous-writer",
				fmt.Sprintf("%s: writer 2 was acknowledged %s at sequence %d while writer 1's re-stamp was pending; stored current revision %s, sequence %d, history %v", doc, rev3, seq3, final.GetRevTreeID(), final.Sequence, c05Revs(final)), wit)
		}
	}

	// (S4) as S3, but writer 2's complete, acknowledged write lands right after writer 1's commit, i.e. while writer 1 waits
	// for the store's clock to catch up with its generated version (before it issues the re-stamp); writer 2's commit CAS is
	// still below writer 1's generated version. Writer 2's revision must survive.
	for variant := 0; variant < run.N(3, 10); variant++ {
		e.caseN++
		doc := fmt.Sprintf("c05-s4-%d", e.caseN)
		e.vs.ResetLog()
		rev1, _, err := collection.Put(ctx, doc, Body{"m": "s4-1", "chan": "A"})
		if err != nil {
			t.Fatalf("s4 setup: %v", err)
		}
		offset := uint64(time.Duration(250+100*(variant%3)) * time.Millisecond)
		e.db.hlc.SetClockForTest(func() uint64 { return sgbucket.HLCWallClock() + offset })
		fired := false
		var rev3 string
		var seq3 uint64
		var err3 error
		var cas1 uint64
		restamps := 0
		e.vs.SetAfter(func(op *base.VerifOp) {
			if op.Key != doc {
				return
			}
			if op.Kind == "UpdateXattrs" && fired {
				restamps++
			}
			if op.Kind == "WriteUpdateWithXattrs" && op.Applied && !fired {
				fired = true
				cas1 = op.CasOut
				e.db.hlc.SetClockForTest(sgbucket.HLCWallClock)
				if cur, gerr := collection.GetDocument(ctx, doc, DocUnmarshalSync); gerr == nil {
					var d3 *Document
					if variant%3 == 2 {
						// (a write that generates a version of its own waits for the clock itself: its CAS ends up above writer 1's version)
						rev3, d3, err3 = collection.Put(ctx, doc, Body{BodyRev: cur.GetRevTreeID(), "m": "s4-3", "chan": "A"})
					} else {
						// a pushed revision of a revision-tree peer generates no version: its commit CAS stays below writer 1's version
						g, _ := ParseRevID(ctx, cur.GetRevTreeID())
						rev3 = fmt.Sprintf("%d-abc%x", g+1, e.caseN)
						d3, _, err3 = collection.PutExistingRevWithBody(ctx, doc, Body{"m": "s4-3", "chan": "A"}, []string{rev3, cur.GetRevTreeID()}, true, ExistingVersionLegacyRev)
					}
					if err3 == nil && d3 != nil {
						seq3 = d3.Sequence
					}
				}
			}
		})
		rev2, _, err2 := collection.Put(ctx, doc, Body{BodyRev: rev1, "m": "s4-2", "chan": "A"})
		e.vs.SetAfter(nil)
		e.db.hlc.SetClockForTest(sgbucket.HLCWallClock)
		run.Eval()
		if !fired {
			run.Count("s4_writer1_commit_not_seen", 1)
			continue
		}
		run.Count("s4_writes_committed_while_writer1_waits_for_the_clock", 1)
		run.Count("s4_restamp_writes_issued_by_writer1_after_the_wait", restamps)
		run.Nontrivial(fmt.Sprintf("s4/%d", variant))
		final, ferr := collection.GetDocument(ctx, doc, DocUnmarshalAll)
		wit := map[string]any{"scenario": "writer 2 commits while writer 1 waits (clock ahead of the store) to re-stamp its version", "rev1": rev1, "rev2": rev2, "err2": fmt.Sprint(err2), "rev3": rev3, "err3": fmt.Sprint(err3), "seq3": seq3, "writer1_commit_cas": cas1, "clock_offset_ns": offset}
		if ferr != nil || final == nil || err2 != nil || err3 != nil {
			run.Note("s4 variant %d: ferr=%v err2=%v err3=%v", variant, ferr, err2, err3)
			run.Inconclusive("s4 scenario did not run as planned")
			continue
		}
		wit["stored_history"] = c05Revs(final)
		if _, ok := final.History[rev3]; !ok || final.GetRevTreeID() != rev3 || final.Sequence != seq3 || len(final.History) != 3 {
			run.Violation("lost-write", "C05|acknowledged-write-overwritten-by-the-post-commit-re-stamp-of-the-previous-writer|committed-while-the-writer-waited-for-the-clock",
				fmt.Sprintf("%s: writer 2 was acknowledged %s at sequence %d while writer 1 was waiting to re-stamp; stored current revision %s, sequence %d, history %v", doc, rev3, seq3, final.GetRevTreeID(), final.Sequence, c05Revs(final)), wit)
		}
	}

	// (S5) two gateway nodes (two DatabaseContexts with their own sequence allocators) on one bucket. Node A still holds
	// unallocated numbers of an older, lower batch; node B allocates from a newer, higher one. A push through node A
	// (history new, mid, parent) reserves a low number, loses its compare-and-swap to node B's acknowledged push of
	// "mid" (inside node A's compute->CAS window) and runs again on top of it: both are acknowledged, and the write that
	// superseded must carry the greater sequence.
	{
		dbB, ctxB := SetupTestDBForBucketWithOptions(t, e.vs.tb.NoCloseClone(), DatabaseContextOptions{})
		collB, ctxB := GetSingleDatabaseCollectionWithUser(ctxB, t, dbB)
		if _, err := collB.UpdateSyncFun(ctxB, c05SyncFn); err != nil {
			t.Fatalf("s5 sync fn: %v", err)
		}
		spareA := func() (last, max uint64) {
			e.db.sequences.mutex.Lock()
			defer e.db.sequences.mutex.Unlock()
			return e.db.sequences.last, e.db.sequences.max
		}
		for variant := 0; variant < run.N(4, 12); variant++ {
			e.caseN++
			doc := fmt.Sprintf("c05-s5-%d", e.caseN)
			rev1, _, err := collection.Put(ctx, doc, Body{"m": "s5-1", "chan": "A"})
			if err != nil {
				t.Fatalf("s5 setup: %v", err)
			}
			// busy node A: writes in quick succession grow its batch until it holds spare numbers
			for i := 0; i < 60; i++ {
				if last, max := spareA(); max-last >= 3 {
					break
				}
				if _, _, err := collection.Put(ctx, fmt.Sprintf("c05-s5-fillA-%d-%d", e.caseN, i), Body{"chan": "A"}); err != nil {
					t.Fatalf("s5 filler: %v", err)
				}
			}
			lastA, maxA := spareA()
			_, fillB, err := collB.Put(ctxB, fmt.Sprintf("c05-s5-fillB-%d", e.caseN), Body{"chan": "A"})
			if err != nil {
				t.Fatalf("s5 filler B: %v", err)
			}
			run.Eval()
			if maxA-lastA < 2 || fillB.Sequence <= maxA {
				run.Count("s5_precondition_not_reached", 1)
				continue
			}
			rev2, rev3 := fmt.Sprintf("2-abc%x", e.caseN), fmt.Sprintf("3-abc%x", e.caseN)
			var seqB uint64
			var errB error
			fired := false
			e.vs.SetMid(func(op *base.VerifOp, actor string) error {
				if op.Kind == "WriteUpdateWithXattrs.mid" && op.Key == doc && !fired {
					fired = true
					var dB *Document
					dB, _, errB = collB.PutExistingRevWithBody(ctxB, doc, Body{"m": "s5-2", "chan": "A"}, []string{rev2, rev1}, true, ExistingVersionWithUpdateToHLV)
					if errB == nil && dB != nil {
						seqB = dB.Sequence
					}
				}
				return nil
			})
			dA, _, errA := collection.PutExistingRevWithBody(ctx, doc, Body{"m": "s5-3", "chan": "A"}, []string{rev3, rev2, rev1}, true, ExistingVersionWithUpdateToHLV)
			e.vs.SetMid(nil)
			if !fired || errA != nil || errB != nil || dA == nil || seqB == 0 {
				run.Note("s5 variant %d: fired=%v errA=%v errB=%v", variant, fired, errA, errB)
				run.Inconclusive("s5 scenario did not run as planned")
				continue
			}
			run.Count("s5_retried_writes_over_another_nodes_write", 1)
			run.Nontrivial(fmt.Sprintf("s5/%d", variant))
			final, ferr := collB.GetDocument(ctxB, doc, DocUnmarshalAll)
			wit := map[string]any{"scenario": "node A's push of rev3 (history 3,2,1) loses its CAS to node B's push of rev2 and runs again", "node_a_batch_before": []uint64{lastA, maxA},
				"seq_of_rev2_via_node_b": seqB, "seq_of_rev3_via_node_a": dA.Sequence, "unused_listed_on_rev3": dA.UnusedSequences}
			if ferr != nil || final == nil {
				run.Inconclusive("s5 final read failed")
				continue
			}
			wit["stored_history"] = c05Revs(final)
			if final.GetRevTreeID() != rev3 || final.History[rev3] == nil || final.History[rev3].Parent != rev2 {
				run.Violation("lost-write", "C05|two-nodes|retried-push-did-not-end-on-top-of-the-other-nodes-write", fmt.Sprintf("%s: stored current %s history %v", doc, final.GetRevTreeID(), c05Revs(final)), wit)
				continue
			}
			if dA.Sequence <= seqB || final.Sequence <= seqB {
				run.Violation("sequence", "C05|two-nodes|superseding-write-sequence-not-greater-than-superseded",
					fmt.Sprintf("%s: rev3 superseded rev2 (sequence %d) but carries sequence %d (stored %d)", doc, seqB, dA.Sequence, final.Sequence), wit)
			}
		}
		dbB.Close(ctxB)
	}

	// (S2) every write kind with forced CAS failures at attempts 1..3: the acknowledged result is what is stored
	for _, kind := range []string{"put", "delete", "push"} {
		for _, interfere := range [][]int{{1}, {1, 2}, {2}, {1, 2, 3}} {
			spec := c05Spec{Writers: 1, Rounds: 3, Docs: 1, Kinds: []string{kind}, Interfere: interfere}
			e.vs.SetStepFilter(func(op *base.VerifOp) bool { return strings.HasPrefix(op.Key, "c05-") })
			c05RunCase(t, run, e, spec, vlib.RandomChooser(run.Rand(), 50), run.Rand())
		}
	}
}
