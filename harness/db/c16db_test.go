//go:build verif

package db

// C16 at database level.
//
// invalidation: a document's channels are changed WITHOUT a new revision (a raw user-xattr write,
//   imported on demand: updateAndReturnDoc with createNewRevIDSkipped; the import's own mutation
//   reaches change_cache.go DocChanged, which removes the revision from the revision cache). Every
//   update k of a document uses a fresh channel name, so a read identifies the update it observed.
//   Oracle: no read that STARTED AFTER "update k seen on the feed" (change cache moved past the
//   import's sequence) returns the channel set of an update older than k.
//   Plus a scripted history: a GetActive that has already read the pre-update document from the
//   bucket is held back while update k is imported and passes the feed, then continues.
//
// dbdiff: cached read vs fresh load. After arbitrary earlier reads of a revision with different
//   options (revs_limit, known ancestors, attachments-since, show-exp, by revID / by CV / active),
//   the revision served by the cache must equal a fresh load of the same version through the
//   bypass cache, and requests must return the history they asked for.

import (
	"context"
	"fmt"
	"sort"
	"strings"
	"sync"
	"sync/atomic"
	"testing"
	"time"

	"github.com/couchbase/sync_gateway/base"
	"verif/vlib"
)

const c16UserXattr = "ux"

const c16InvalSyncFn = `function(doc, oldDoc, meta){ channel("base-" + doc.n); if (meta.xattrs.ux !== undefined) { channel(meta.xattrs.ux); } }`

// c16DB is a database on a VerifBucket whose Post hook can park one chosen goroutine right after
// it has read a chosen document from the bucket.
type c16DB struct {
	t    testing.TB
	tb   *base.TestBucket
	db   *Database
	ctx  context.Context
	coll *DatabaseCollectionWithUser

	parkGid  atomic.Uint64
	parkKey  atomic.Value // string
	parked   chan struct{}
	release  chan struct{}
	parkOnce sync.Once
}

func c16OpenDB(t testing.TB, opts DatabaseContextOptions) *c16DB {
	d := &c16DB{t: t}
	d.tb = base.GetTestBucket(t)
	d.parkKey.Store("")
	vtb, _ := d.tb.VerifClone(&base.VerifHooks{Post: d.post})
	cacheOpts := DefaultCacheOptions()
	cacheOpts.CachePendingSeqMaxWait = time.Hour // a sequence is never skipped by the clock: "cache moved past s" means s was processed
	opts.CacheOptions = &cacheOpts
	d.db, d.ctx = SetupTestDBForBucketWithOptions(t, vtb, opts)
	d.coll, d.ctx = GetSingleDatabaseCollectionWithUser(d.ctx, t, d.db)
	return d
}

func (d *c16DB) Close() {
	d.db.Close(d.ctx)
	d.tb.Close(base.TestCtx(d.t))
}

func (d *c16DB) post(op *base.VerifOp) {
	if g := d.parkGid.Load(); g != 0 && op.Gid == g && op.Kind == "GetWithXattrs" && op.Err == nil && op.Key == d.parkKey.Load().(string) {
		d.parkGid.Store(0)
		close(d.parked)
		<-d.release
	}
}

// armPark makes the calling goroutine stop right after its next successful bucket read of key.
func (d *c16DB) armPark(key string) {
	d.parked, d.release = make(chan struct{}), make(chan struct{})
	d.parkKey.Store(key)
	d.parkGid.Store(base.VerifGoroutineID())
}

// c16ChanIndex extracts k from the fresh channel "c<k>-<doc>" of a channel set (0: none).
func c16ChanIndex(chs base.Set, doc string) (k int, hasBase bool, n int) {
	for c := range chs {
		n++
		if c == "base-"+doc {
			hasBase = true
			continue
		}
		var kk int
		var dd string
		if _, err := fmt.Sscanf(c, "c%d-%s", &kk, &dd); err == nil && dd == doc && kk > k {
			k = kk
		}
	}
	return
}

type c16InvalRead struct {
	Reader    int    `json:"reader"`
	Node      string `json:"node"`
	Kind      string `json:"kind"`
	Doc       string `json:"doc"`
	SeenStart int    `json:"seen_on_feed_before_start"`
	Got       int    `json:"returned_update"`
	Channels  string `json:"channels"`
}

func TestVerif_C16_Invalidation(t *testing.T) {
	run := vlib.Start(t, "C16", "invalidation")
	defer run.Finish()
	// two nodes allocate sequences on one counter: without batching neither waits for the other's unused reservations
	defer SuspendSequenceBatching()()
	rounds := run.N(8, 80)
	for i := 0; i < rounds; i++ {
		if only, ok := run.OnlyCase(); ok && only != i {
			continue
		}
		c16InvalRound(t, run, i)
	}
}

func c16InvalRound(t *testing.T, run *vlib.Run, round int) {
	r := run.CaseRand(round)
	shards := vlib.Pick(r, []uint16{1, 4})
	d := c16OpenDB(t, DatabaseContextOptions{UserXattrKey: c16UserXattr,
		RevisionCacheOptions: &RevisionCacheOptions{MaxItemCount: uint32(vlib.Pick(r, []int{8, 40})), ShardCount: shards, InsertOnWrite: r.Bool()}})
	defer d.Close()
	ctx, coll := d.ctx, d.coll
	if _, err := coll.UpdateSyncFun(ctx, c16InvalSyncFn); err != nil {
		t.Fatalf("c16: sync fn: %v", err)
	}
	// a second node on the same bucket: its revision cache learns about the update only from its feed
	cacheOptsB := DefaultCacheOptions()
	cacheOptsB.CachePendingSeqMaxWait = time.Hour
	dbB, ctxB := SetupTestDBForBucketWithOptions(t, d.tb.NoCloseClone(), DatabaseContextOptions{UserXattrKey: c16UserXattr, CacheOptions: &cacheOptsB,
		RevisionCacheOptions: &RevisionCacheOptions{MaxItemCount: uint32(vlib.Pick(r, []int{8, 40})), ShardCount: shards}})
	defer dbB.Close(ctxB)
	collB, ctxB := GetSingleDatabaseCollectionWithUser(ctxB, t, dbB)
	if _, err := collB.UpdateSyncFun(ctxB, c16InvalSyncFn); err != nil {
		t.Fatalf("c16: sync fn B: %v", err)
	}
	type node struct {
		name string
		db   *Database
		ctx  context.Context
		coll *DatabaseCollectionWithUser
	}
	nodes := []*node{{"writer-node", d.db, ctx, coll}, {"other-node", dbB, ctxB, collB}}
	rawDS := base.GetBaseDataStore(coll.dataStore)
	type docState struct {
		id, rev   string
		seen      [2]atomic.Int64 // per node: highest update whose import that node's change cache has moved past
		issued    atomic.Int64
		retiredAt atomic.Int64 // tick before the update whose import produced a new revision (0: never)
	}
	newDoc := func(id string) *docState {
		rev, _, err := coll.Put(ctx, id, Body{"n": id, "v": 1})
		if err != nil {
			t.Fatalf("c16: put: %v", err)
		}
		rev2, _, err := coll.Put(ctx, id, Body{"n": id, "v": 2, BodyRev: rev})
		if err != nil {
			t.Fatalf("c16: put2: %v", err)
		}
		return &docState{id: id, rev: rev2}
	}
	nDocs := r.Range(2, 3)
	docs := make([]*docState, nDocs)
	for i := range docs {
		docs[i] = newDoc(fmt.Sprintf("r%dd%d", round, i))
	}
	var tick atomic.Int64
	var vmu sync.Mutex
	type logged struct {
		c16InvalRead
		ds         *docState
		end        int64
		hasBase    bool
		n          int
		wrongRevID string
		node       string
	}
	var log []logged

	// applyUpdate performs update k of a document: raw user-xattr write, on-demand import, and
	// returns the sequence of the imported (metadata-only) version. newRev reports that the import
	// produced a new revision instead (sync_gateway does that when an on-demand import that was
	// started for an earlier mutation retries on a CAS mismatch: the retry no longer carries the
	// user xattr) - the update then is outside the clause under test and the document is retired.
	applyUpdate := func(ds *docState, k int, importNow bool) (seq uint64, ok, newRev bool) {
		ch := fmt.Sprintf("c%d-%s", k, ds.id)
		before := tick.Add(1)
		if _, err := rawDS.SetXattrs(ctx, ds.id, map[string][]byte{c16UserXattr: []byte(`"` + ch + `"`)}); err != nil {
			run.Inconclusive("invalidation: raw xattr write failed: " + err.Error())
			return 0, false, false
		}
		ds.issued.Store(int64(k))
		deadline := time.Now().Add(20 * time.Second)
		for {
			var sd *SyncData
			if importNow {
				if doc, err := coll.GetDocument(ctx, ds.id, DocUnmarshalSync); err == nil && doc != nil {
					sd = &doc.SyncData
				}
			} else {
				// leave the import to whichever reader gets there first; only look at the bucket
				if xattrs, _, err := rawDS.GetXattrs(ctx, ds.id, []string{base.SyncXattrName}); err == nil {
					var x SyncData
					if base.JSONUnmarshal(xattrs[base.SyncXattrName], &x) == nil {
						sd = &x
					}
				}
			}
			if sd != nil {
				if sd.GetRevTreeID() != ds.rev {
					ds.retiredAt.Store(before)
					return 0, false, true
				}
				if kk, _, _ := c16ChanIndex(sd.getCurrentChannels(), ds.id); kk == k {
					return sd.Sequence, true, false
				}
			}
			if time.Now().After(deadline) {
				importNow = true // nobody imported it: do it ourselves, then give up if still nothing
				if time.Now().After(deadline.Add(20 * time.Second)) {
					run.Inconclusive("invalidation: update was not imported")
					return 0, false, false
				}
			}
			time.Sleep(200 * time.Microsecond)
		}
	}
	// waitFeed waits until both nodes' change caches moved past seq, publishing "seen" per node as it happens
	waitFeed := func(ds *docState, k int, seq uint64) bool {
		deadline := time.Now().Add(30 * time.Second)
		var done [2]bool
		for !(done[0] && done[1]) {
			for ni, nd := range nodes {
				if !done[ni] && nd.db.changeCache.getNextSequence() > seq {
					done[ni] = true
					ds.seen[ni].Store(int64(k))
				}
			}
			if time.Now().After(deadline) {
				run.Inconclusive("invalidation: change cache did not reach the import's sequence")
				return false
			}
			time.Sleep(100 * time.Microsecond)
		}
		return true
	}

	read := func(reader int, ni int, kind string, ds *docState) {
		ctx, coll := nodes[ni].ctx, nodes[ni].coll
		seen := int(ds.seen[ni].Load())
		var chs base.Set
		var err error
		var found = true
		var rev DocumentRevision
		switch kind {
		case "cache-get-rev":
			rev, err = coll.revisionCache.Get(ctx, ds.id, ds.rev, RevCacheDontLoadBackupRev)
		case "cache-getactive":
			rev, err = coll.revisionCache.GetActive(ctx, ds.id)
		case "getrev-rev":
			rev, err = coll.GetRev(ctx, ds.id, ds.rev, true, nil)
		case "getrev-active":
			rev, err = coll.GetRev(ctx, ds.id, "", false, nil)
		case "peek":
			rev, found = coll.revisionCache.Peek(ctx, ds.id, ds.rev)
		case "revision-channels":
			chs, _, err = coll.getRevisionChannels(ctx, ds.id, ds.rev)
		}
		end := tick.Add(1)
		if err != nil || !found {
			run.Count("reads_absent_or_error", 1)
			return
		}
		l := logged{ds: ds, end: end, node: nodes[ni].name}
		if kind != "revision-channels" {
			chs = rev.Channels
			if rev.RevID != ds.rev {
				l.wrongRevID = rev.RevID
			}
		}
		got, hasBase, n := c16ChanIndex(chs, ds.id)
		l.c16InvalRead = c16InvalRead{Reader: reader, Node: nodes[ni].name, Kind: kind, Doc: ds.id, SeenStart: seen, Got: got, Channels: strings.Join(chs.ToArray(), ",")}
		l.hasBase, l.n = hasBase, n
		vmu.Lock()
		log = append(log, l)
		vmu.Unlock()
	}

	// ---- concurrent phase
	updates := run.N(10, 25)
	// GetActive reads the document from the bucket BEFORE it creates its cache value, so it can re-insert
	// pre-update channels after the feed removed the entry (finding D3, scripted below). Rounds therefore
	// either contain active reads or not, and the signature of a stale read says which.
	kinds := []string{"cache-get-rev", "cache-get-rev", "getrev-rev", "getrev-rev", "peek", "revision-channels"}
	workload := "no-getactive-in-workload"
	if round%2 == 1 {
		kinds = append(kinds, "cache-getactive", "cache-getactive", "getrev-active")
		workload = "getactive-in-workload"
	}
	stop := make(chan struct{})
	var rwg sync.WaitGroup
	nReaders := r.Range(4, 8)
	for g := 0; g < nReaders; g++ {
		g := g
		rr := r.Fork(uint64(300 + g))
		rwg.Add(1)
		go func() {
			defer rwg.Done()
			for {
				select {
				case <-stop:
					return
				default:
				}
				ds := vlib.Pick(rr, docs)
				read(g, g%2, vlib.Pick(rr, kinds), ds)
				if rr.Chance(1, 12) {
					// eviction / removal pressure on the entry itself is legitimate at any time
					nodes[g%2].coll.revisionCache.Remove(nodes[g%2].ctx, ds.id, ds.rev)
				}
			}
		}()
	}
	var wwg sync.WaitGroup
	for _, ds := range docs {
		ds := ds
		wr := r.Fork(vlib.HashStr(ds.id))
		wwg.Add(1)
		go func() {
			defer wwg.Done()
			for k := 1; k <= updates; k++ {
				seq, ok, newRev := applyUpdate(ds, k, wr.Chance(2, 3))
				if newRev {
					run.Count("documents_retired_import_made_new_revision", 1)
					return
				}
				if !ok || !waitFeed(ds, k, seq) {
					return
				}
				run.Count("updates_seen_on_feed", 1)
				if wr.Bool() {
					time.Sleep(time.Duration(wr.Intn(400)) * time.Microsecond)
				}
			}
		}()
	}
	wwg.Wait()
	close(stop)
	rwg.Wait()
	// at rest every read must return the last update
	for _, ds := range docs {
		if ds.retiredAt.Load() != 0 {
			continue
		}
		for ni := range nodes {
			for _, kind := range []string{"cache-get-rev", "getrev-rev", "revision-channels", "cache-getactive", "getrev-active"} {
				read(-1, ni, kind, ds)
			}
		}
	}

	// ---- judge the log
	stale := map[string]logged{}
	for _, l := range log {
		if ra := l.ds.retiredAt.Load(); ra != 0 && l.end >= ra {
			run.Count("reads_discarded_document_retired", 1)
			continue
		}
		run.Count("reads_judged", 1)
		switch {
		case l.wrongRevID != "":
			stale["C16|invalidation|"+l.Kind+"|wrong-revid"] = l
		case l.Kind == "peek" && l.n == 0:
			// found=true with no channels at all: the half-populated value of finding D2, not a stale one
			stale["C16|invalidation|peek|concurrent-with-load-or-store|partially-populated-revision"] = l
		case !l.hasBase || l.n > 2:
			stale["C16|invalidation|"+l.Kind+"|channel-set-not-of-any-update"] = l
		case l.Got < l.SeenStart:
			stale["C16|invalidation|concurrent|"+workload+"|"+l.node+"|stale-channels-after-update-seen-on-feed"] = l
		}
		if l.Got == l.SeenStart && l.SeenStart > 0 {
			run.Count("reads_returning_latest_seen_update", 1)
		}
		if l.Got > l.SeenStart {
			run.Count("reads_ahead_of_feed", 1)
		}
	}
	sigs := make([]string, 0, len(stale))
	for s := range stale {
		sigs = append(sigs, s)
	}
	sort.Strings(sigs)
	for _, s := range sigs {
		l := stale[s]
		var tail []c16InvalRead
		for _, x := range log {
			if x.ds == l.ds && x.end <= l.end && x.end > l.end-120 {
				tail = append(tail, x.c16InvalRead)
			}
		}
		oracle := "no-stale-read-after-invalidation"
		if strings.Contains(s, "partially-populated") || strings.Contains(s, "wrong-revid") {
			oracle = "content"
		}
		run.Violation(oracle, s, fmt.Sprintf("doc %s rev %s: on the "+l.node+" a %s that started after update %d had been seen on the feed returned channels %q (update %d) revid %q", l.Doc, l.ds.rev, l.Kind, l.SeenStart, l.Channels, l.Got, l.wrongRevID),
			map[string]any{"round": round, "read": l.c16InvalRead, "reads_of_this_document_just_before": tail})
	}

	// ---- scripted (documents of their own, no other readers): a reader is parked right after its bucket read of
	// the pre-update document; update k is imported and passes the feed; the reader continues.
	//   getactive        the read precedes GetActive's cache value: nothing is there to remove (finding D3)
	//   get-rev, get-cv  the loading placeholder already exists (Get creates it before loading), so the invalidation
	//                    arrives WHILE the value is loading: Remove has to unlink the placeholder, otherwise the load
	//                    completes with the pre-update channels and stays cached
	for si, shape := range []string{"getactive", "getactive", "get-rev", "get-rev", "get-cv"} {
		ds := newDoc(fmt.Sprintf("r%ds%d", round, si))
		d.db.WaitForPendingChanges(t)
		for k := 1; k <= 2; k++ { // two plain updates first, so that the held document is itself a metadata-only version
			seq, ok, _ := applyUpdate(ds, k, true)
			if !ok || !waitFeed(ds, k, seq) {
				break
			}
		}
		if ds.seen[0].Load() != 2 {
			run.Inconclusive("invalidation script: setup updates failed")
			continue
		}
		k := 3
		coll.revisionCache.Remove(ctx, ds.id, ds.rev)
		parkedVer, shapeSig, readerCall := "", "getactive-read-bucket-before-update-and-populated-cache-after-feed-removal", "revisionCache.GetActive(doc)"
		switch shape {
		case "get-rev":
			parkedVer, shapeSig, readerCall = ds.rev, "get-by-revid-read-bucket-then-invalidated-while-loading", "revisionCache.Get(doc, revID): placeholder created, then"
		case "get-cv":
			cur, gerr := coll.GetDocument(ctx, ds.id, DocUnmarshalSync)
			if gerr != nil || cur.HLV == nil {
				run.Inconclusive("invalidation script: no current version")
				continue
			}
			parkedVer, shapeSig, readerCall = cur.HLV.GetCurrentVersionString(), "get-by-cv-read-bucket-then-invalidated-while-loading", "revisionCache.Get(doc, currentCV): placeholder created, then"
			coll.revisionCache.Remove(ctx, ds.id, parkedVer)
		}
		var res DocumentRevision
		var rerr error
		done := make(chan struct{})
		armed := make(chan struct{})
		go func() {
			defer close(done)
			d.armPark(ds.id)
			close(armed)
			if shape == "getactive" {
				res, rerr = coll.revisionCache.GetActive(ctx, ds.id)
			} else {
				res, rerr = coll.revisionCache.Get(ctx, ds.id, parkedVer, RevCacheDontLoadBackupRev)
			}
		}()
		<-armed
		select {
		case <-d.parked:
		case <-done:
			run.Inconclusive("invalidation script: GetActive returned without reading the bucket")
			continue
		case <-time.After(20 * time.Second):
			run.Inconclusive("invalidation script: GetActive never read the bucket")
			continue
		}
		seq, ok, _ := applyUpdate(ds, k, true)
		if ok {
			ok = waitFeed(ds, k, seq)
		}
		close(d.release)
		<-done
		if !ok || rerr != nil {
			run.Inconclusive("invalidation script: update or parked read failed")
			continue
		}
		heldGot, _, _ := c16ChanIndex(res.Channels, ds.id)
		run.Count("scripted_histories", 1)
		run.Count("scripted_histories_"+shape, 1)
		if shape == "get-cv" {
			// the import gave the document a new version: what a read by the old version returns is not judged
			if _, err := coll.revisionCache.Get(ctx, ds.id, parkedVer, RevCacheDontLoadBackupRev); err == nil {
				run.Count("scripted_old_cv_still_served", 1)
			}
		}
		// reads that start now started after update k was seen on the feed
		for _, kind := range []string{"peek", "cache-get-rev", "cache-getactive", "getrev-rev", "revision-channels"} {
			seen := int(ds.seen[0].Load())
			var chs base.Set
			var err error
			switch kind {
			case "peek":
				rev, found := coll.revisionCache.Peek(ctx, ds.id, ds.rev)
				if !found {
					continue
				}
				chs = rev.Channels
			case "cache-get-rev":
				var rev DocumentRevision
				rev, err = coll.revisionCache.Get(ctx, ds.id, ds.rev, RevCacheDontLoadBackupRev)
				chs = rev.Channels
			case "cache-getactive":
				var rev DocumentRevision
				rev, err = coll.revisionCache.GetActive(ctx, ds.id)
				chs = rev.Channels
			case "getrev-rev":
				var rev DocumentRevision
				rev, err = coll.GetRev(ctx, ds.id, ds.rev, true, nil)
				chs = rev.Channels
			case "revision-channels":
				chs, _, err = coll.getRevisionChannels(ctx, ds.id, ds.rev)
			}
			if err != nil {
				continue
			}
			got, _, _ := c16ChanIndex(chs, ds.id)
			run.Count("reads_judged", 1)
			run.Count("scripted_reads_judged", 1)
			if got < seen {
				sig := "C16|invalidation|scripted|" + shapeSig + "|later-read-serves-stale-channels"
				run.Violation("no-stale-read-after-invalidation", sig,
					fmt.Sprintf("doc %s rev %s: update %d (channel c%d-%s) was imported at sequence %d and the change cache moved past it; a %s started afterwards returned the channels of update %d: %v", ds.id, ds.rev, k, k, ds.id, seq, kind, got, chs.ToArray()),
					map[string]any{"round": round, "doc": ds.id, "rev": ds.rev, "script": []string{
						"Remove(doc, rev) from the revision cache",
						"reader: " + readerCall + " parked right after its bucket read of the document (update " + fmt.Sprint(k-1) + ")",
						fmt.Sprintf("writer: raw user-xattr write (update %d), on-demand import (no new revision), wait until changeCache.nextSequence > %d", k, seq),
						fmt.Sprintf("reader released: it returns the channels of update %d; the value it loaded must not be resident", heldGot),
						kind + " started now returns update " + fmt.Sprint(got),
					}})
			}
		}
	}
	// ---- scripted: the update's mutation reaches a node's feed BEHIND A SEQUENCE GAP. Both nodes hold the revision in
	// their caches; a lower sequence is reserved and not used yet, so each change cache parks the update's mutation as
	// pending; the reserved sequence is then released and the pending mutation is applied. "Come through the mutation
	// feed" includes this path: reads that start after the change cache moved past the update must not see old channels.
	for si := 0; si < 2; si++ {
		ds := newDoc(fmt.Sprintf("r%dg%d", round, si))
		d.db.WaitForPendingChanges(t)
		for k := 1; k <= 2; k++ {
			seq, ok, _ := applyUpdate(ds, k, true)
			if !ok || !waitFeed(ds, k, seq) {
				break
			}
		}
		if ds.seen[0].Load() != 2 || ds.seen[1].Load() != 2 {
			run.Inconclusive("invalidation gap script: setup updates failed")
			continue
		}
		// make the revision resident on the other node always, on the writer node in one of the two scripts (there the
		// writer's own pre-save removal drops it again unless a reader re-caches it, which the second script leaves out)
		resident := []int{1}
		if si == 0 {
			resident = []int{0, 1}
		}
		for _, ni := range resident {
			if _, err := nodes[ni].coll.revisionCache.Get(nodes[ni].ctx, ds.id, ds.rev, RevCacheDontLoadBackupRev); err != nil {
				run.Inconclusive("invalidation gap script: could not make the revision resident")
			}
		}
		hold, herr := d.db.sequences.nextSequence(ctx)
		if herr != nil {
			run.Inconclusive("invalidation gap script: could not reserve a sequence")
			continue
		}
		k := 3
		seq, ok, _ := applyUpdate(ds, k, true)
		if !ok {
			_ = d.db.sequences.releaseSequence(ctx, hold)
			continue
		}
		if seq <= hold {
			run.Inconclusive("invalidation gap script: the update did not get a sequence above the reserved one")
			_ = d.db.sequences.releaseSequence(ctx, hold)
			continue
		}
		// wait until both change caches hold the update's mutation as pending behind the gap
		pendingOn := func(nd *node) bool {
			c := nd.db.changeCache
			c.lock.RLock()
			defer c.lock.RUnlock()
			if c.nextSequence > hold {
				return false
			}
			for _, e := range c.pendingLogs {
				if e.Sequence == seq {
					return true
				}
			}
			return false
		}
		deadline := time.Now().Add(20 * time.Second)
		gapOK := false
		for time.Now().Before(deadline) {
			if pendingOn(nodes[0]) && pendingOn(nodes[1]) {
				gapOK = true
				break
			}
			time.Sleep(200 * time.Microsecond)
		}
		if err := d.db.sequences.releaseSequence(ctx, hold); err != nil {
			run.Inconclusive("invalidation gap script: release failed")
			continue
		}
		if !gapOK {
			run.Inconclusive("invalidation gap script: the update's mutation was not observed pending behind the reserved sequence on both nodes")
			continue
		}
		if !waitFeed(ds, k, seq) {
			continue
		}
		run.Count("scripted_histories", 1)
		run.Count("scripted_histories_update-behind-sequence-gap", 1)
		for _, ni := range []int{0, 1} {
			nd := nodes[ni]
			for _, kind := range []string{"peek", "cache-get-rev", "revision-channels", "getrev-rev", "cache-getactive"} {
				seen := int(ds.seen[ni].Load())
				var chs base.Set
				var err error
				switch kind {
				case "peek":
					rev, found := nd.coll.revisionCache.Peek(nd.ctx, ds.id, ds.rev)
					if !found {
						continue
					}
					chs = rev.Channels
				case "cache-get-rev":
					var rev DocumentRevision
					rev, err = nd.coll.revisionCache.Get(nd.ctx, ds.id, ds.rev, RevCacheDontLoadBackupRev)
					chs = rev.Channels
				case "cache-getactive":
					var rev DocumentRevision
					rev, err = nd.coll.revisionCache.GetActive(nd.ctx, ds.id)
					chs = rev.Channels
				case "getrev-rev":
					var rev DocumentRevision
					rev, err = nd.coll.GetRev(nd.ctx, ds.id, ds.rev, true, nil)
					chs = rev.Channels
				case "revision-channels":
					chs, _, err = nd.coll.getRevisionChannels(nd.ctx, ds.id, ds.rev)
				}
				if err != nil {
					continue
				}
				got, _, _ := c16ChanIndex(chs, ds.id)
				run.Count("reads_judged", 1)
				run.Count("scripted_reads_judged", 1)
				run.Count("gap_script_reads_judged", 1)
				if got < seen {
					run.Violation("no-stale-read-after-invalidation", "C16|invalidation|scripted|update-arrives-behind-sequence-gap|"+nd.name+"|later-read-serves-stale-channels",
						fmt.Sprintf("doc %s rev %s: update %d (channel c%d-%s) was imported at sequence %d while sequence %d was reserved and unused; both change caches parked the mutation as pending, the reserved sequence was released, and the change caches moved past %d; a %s on the %s started afterwards returned the channels of update %d: %v", ds.id, ds.rev, k, k, ds.id, seq, hold, seq, kind, nd.name, got, chs.ToArray()),
						map[string]any{"round": round, "doc": ds.id, "rev": ds.rev, "script": []string{
							"Get(doc, rev) on the nodes " + fmt.Sprint(resident) + " (revision resident with the channels of update 2)",
							fmt.Sprintf("reserve sequence %d on the writer node and keep it", hold),
							fmt.Sprintf("raw user-xattr write (update %d), on-demand import on the writer node (no new revision) at sequence %d", k, seq),
							"wait until both change caches hold that mutation in pendingLogs with nextSequence <= the reserved sequence",
							fmt.Sprintf("release sequence %d as unused; wait until both change caches' nextSequence > %d", hold, seq),
							kind + " on the " + nd.name + " returns update " + fmt.Sprint(got),
						}})
				}
			}
		}
	}
	run.Eval()
	run.Nontrivial(fmt.Sprintf("round%d", round))
	if round == 0 {
		run.Sample(map[string]any{"docs": nDocs, "updates_per_doc": updates, "readers": nReaders, "shards": shards})
	}
}

// ---------------------------------------------------------------------------------------------
// dbdiff

const c16DiffSyncFn = `function(doc, oldDoc){ channel(doc.ch); }`

func TestVerif_C16_DBDiff(t *testing.T) {
	run := vlib.Start(t, "C16", "dbdiff")
	defer run.Finish()
	dbs := run.N(3, 40)
	perDB := run.N(30, 60)
	for i := 0; i < dbs; i++ {
		r := run.CaseRand(i)
		d := c16OpenDB(t, DatabaseContextOptions{
			RevisionCacheOptions: &RevisionCacheOptions{MaxItemCount: uint32(vlib.Pick(r, []int{6, 30, 200})), ShardCount: vlib.Pick(r, []uint16{1, 2}), InsertOnWrite: r.Bool()}})
		if _, err := d.coll.UpdateSyncFun(d.ctx, c16DiffSyncFn); err != nil {
			t.Fatalf("c16: sync fn: %v", err)
		}
		for c := 0; c < perDB; c++ {
			idx := i*1000 + c
			if only, ok := run.OnlyCase(); ok && only != idx {
				continue
			}
			c16DiffCase(t, run, d, idx)
		}
		d.Close()
	}
}

type c16DiffStep struct {
	Op   string `json:"op"`
	Arg  string `json:"arg,omitempty"`
	Res  string `json:"res,omitempty"`
	Diff string `json:"diff,omitempty"`
}

func c16DiffCase(t *testing.T, run *vlib.Run, d *c16DB, idx int) {
	r := run.CaseRand(idx)
	ctx, coll := d.ctx, d.coll
	docID := fmt.Sprintf("x%d", idx)
	var steps []c16DiffStep
	reported := map[string]bool{}
	viol := func(oracle, sig, msg string) {
		if reported[sig] {
			return
		}
		reported[sig] = true
		run.Violation(oracle, sig, msg, map[string]any{"case": idx, "doc": docID, "steps": steps})
	}
	var bypassStat base.SgwIntStat
	bypass := NewBypassRevisionCache(map[uint32]RevisionCacheBackingStore{coll.GetCollectionID(): coll.DatabaseCollection}, &bypassStat)

	// ---- history
	var revs []string
	tombWithBody := false
	write := func(deleted bool, withAtt bool) bool {
		gen := len(revs) + 1
		body := Body{"m": fmt.Sprintf("%s/g%d/%s", docID, gen, strings.Repeat("y", r.Intn(30))), "ch": []string{fmt.Sprintf("ch-%s-%d", docID, gen), "all"}}
		if deleted && r.Bool() {
			body, withAtt = Body{}, false // a plain delete, as DeleteDoc sends it
		} else if deleted {
			tombWithBody = true
		}
		if len(revs) > 0 {
			body[BodyRev] = revs[len(revs)-1]
		}
		if withAtt {
			body[BodyAttachments] = map[string]any{"a.txt": map[string]any{"data": "aGVsbG8gd29ybGQ="}}
		}
		if deleted {
			body[BodyDeleted] = true
		}
		if r.Chance(1, 5) {
			body[BodyExpiry] = int64(4000000000 + gen)
		}
		rev, _, err := coll.Put(ctx, docID, body)
		steps = append(steps, c16DiffStep{Op: "put", Arg: fmt.Sprintf("gen=%d deleted=%v att=%v", gen, deleted, withAtt), Res: fmt.Sprintf("%s err=%v", rev, err)})
		if err != nil {
			run.Inconclusive("dbdiff: write failed: " + err.Error())
			return false
		}
		revs = append(revs, rev)
		return true
	}
	depth := r.Range(3, 8)
	for g := 1; g <= depth; g++ {
		last := g == depth
		if !write(last && r.Chance(1, 6), last && r.Chance(1, 2)) {
			return
		}
	}

	// compare: the cache's answer for (doc, version) against a fresh load of the same version
	compare := func(when string) {
		cur := revs[len(revs)-1]
		fr, _, ferr := bypass.Get(ctx, docID, cur, coll.GetCollectionID(), RevCacheDontLoadBackupRev)
		if ferr != nil {
			run.Inconclusive("dbdiff: fresh load failed: " + ferr.Error())
			return
		}
		want := c16Render(fr)
		versions := []string{cur}
		if fr.CV != nil {
			versions = append(versions, fr.CV.String())
		}
		for vi, ver := range versions {
			keyKind := []string{"rev", "cv"}[vi]
			for _, how := range []string{"peek", "get"} {
				var got DocumentRevision
				if how == "peek" {
					var found bool
					got, found = coll.revisionCache.Peek(ctx, docID, ver)
					if !found {
						continue
					}
					run.Count("cached_values_compared", 1)
				} else {
					var err error
					got, err = coll.revisionCache.Get(ctx, docID, ver, RevCacheDontLoadBackupRev)
					if err != nil {
						viol("content", "C16|dbdiff|get|key="+keyKind+"|error-for-loadable-revision", err.Error())
						continue
					}
				}
				run.Count("differential_comparisons", 1)
				if diff := c16Diff(want, c16Render(got)); len(diff) > 0 {
					steps = append(steps, c16DiffStep{Op: "compare:" + how + ":" + keyKind, Arg: when, Diff: fmt.Sprintf("cached %+v fresh %+v", c16Render(got), want)})
					sig := "C16|dbdiff|cached-vs-fresh|key=" + keyKind + "|differs-in-" + strings.Join(diff, "+")
					if tombWithBody && len(diff) == 1 && diff[0] == "body" && want.Body == "{}" {
						// finding D4: the write path puts the submitted tombstone body into the cache, storage keeps none
						sig = "C16|dbdiff|cached-vs-fresh|tombstone-written-with-body|cache-keeps-body-storage-has-none"
						run.Count("tombstone_body_differences", 1)
					}
					viol("content", sig, fmt.Sprintf("%s %s/%s after %s: cached %+v, fresh load %+v", how, docID, ver, when, c16Render(got), want))
				}
			}
		}
	}
	freshIDs := func() (int, []string) {
		fr, _, err := bypass.Get(ctx, docID, revs[len(revs)-1], coll.GetCollectionID(), RevCacheDontLoadBackupRev)
		if err != nil {
			return 0, nil
		}
		return splitRevisionList(fr.History)
	}
	idsOf := func(b Body) []string {
		revisions, ok := b[BodyRevisions].(Revisions)
		if !ok {
			return nil
		}
		_, ids := splitRevisionList(revisions)
		return ids
	}

	compare("write")
	nReads := r.Range(4, 10)
	for i := 0; i < nReads; i++ {
		cur := revs[len(revs)-1]
		ver := cur
		byKey := "rev"
		if r.Chance(1, 3) {
			if fr, _, err := bypass.Get(ctx, docID, cur, coll.GetCollectionID(), false); err == nil && fr.CV != nil {
				ver, byKey = fr.CV.String(), "cv"
			}
		}
		_, full := freshIDs()
		switch op := r.Intn(7); op {
		case 0: // revs_limit
			max := r.Range(1, len(full)+1)
			b, err := coll.Get1xRevBodyWithHistory(ctx, docID, ver, Get1xRevBodyOptions{MaxHistory: max, ShowExp: r.Bool(), ShowCV: r.Bool()})
			when := "revs-limit"
			steps = append(steps, c16DiffStep{Op: when, Arg: fmt.Sprintf("%s max=%d", byKey, max), Res: fmt.Sprintf("ids=%v err=%v", idsOf(b), err)})
			if err == nil {
				wantN := max
				if wantN > len(full) {
					wantN = len(full)
				}
				if got := idsOf(b); strings.Join(got, ",") != strings.Join(full[:wantN], ",") {
					viol("content", "C16|dbdiff|request|revs-limit|wrong-history", fmt.Sprintf("asked for %d of %v, got %v", max, full, got))
				}
			}
			compare(when)
		case 1: // known ancestors
			var from []string
			for _, a := range revs[:len(revs)-1] {
				if r.Chance(1, 3) {
					from = append(from, a)
				}
			}
			if r.Chance(1, 4) {
				from = append(from, "9-bogus")
			}
			b, err := coll.Get1xRevBodyWithHistory(ctx, docID, ver, Get1xRevBodyOptions{MaxHistory: 1000, HistoryFrom: from})
			when := "known-ancestors"
			steps = append(steps, c16DiffStep{Op: when, Arg: fmt.Sprintf("%s from=%v", byKey, from), Res: fmt.Sprintf("ids=%v err=%v", idsOf(b), err)})
			compare(when)
		case 2: // full history
			b, err := coll.Get1xRevBody(ctx, docID, ver, true, nil)
			when := "full-history"
			steps = append(steps, c16DiffStep{Op: when, Arg: byKey, Res: fmt.Sprintf("ids=%v err=%v", idsOf(b), err)})
			if err == nil {
				if got := idsOf(b); strings.Join(got, ",") != strings.Join(full, ",") {
					viol("content", "C16|dbdiff|request|full-history|truncated-or-wrong-history", fmt.Sprintf("a fresh load has %v, the request returned %v", full, got))
				}
				run.Count("full_history_requests_checked", 1)
			}
			compare(when)
		case 3: // attachments since
			var since []string
			if r.Bool() && len(revs) > 1 {
				since = []string{revs[r.Intn(len(revs)-1)]}
			} else {
				since = []string{}
			}
			_, err := coll.Get1xRevBodyWithHistory(ctx, docID, ver, Get1xRevBodyOptions{MaxHistory: r.Range(0, 3), AttachmentsSince: since})
			when := "attachments-since"
			steps = append(steps, c16DiffStep{Op: when, Arg: fmt.Sprintf("%s since=%v", byKey, since), Res: fmt.Sprintf("err=%v", err)})
			compare(when)
		case 4: // GetRev / active
			v := vlib.Pick(r, []string{ver, ""})
			_, err := coll.GetRev(ctx, docID, v, r.Bool(), nil)
			when := "getrev"
			steps = append(steps, c16DiffStep{Op: when, Arg: v, Res: fmt.Sprintf("err=%v", err)})
			compare(when)
		case 5: // 1.x body without history (stamps _attachments into the body)
			_, err := coll.Get1xRevBody(ctx, docID, ver, false, nil)
			when := "body-no-history"
			steps = append(steps, c16DiffStep{Op: when, Arg: byKey, Res: fmt.Sprintf("err=%v", err)})
			compare(when)
		case 6: // drop it from the cache, or write a new revision
			if r.Bool() {
				coll.revisionCache.Remove(ctx, docID, ver)
				steps = append(steps, c16DiffStep{Op: "cache-remove", Arg: ver})
			} else {
				if doc, err := coll.GetDocument(ctx, docID, DocUnmarshalSync); err == nil && !doc.IsDeleted() {
					if !write(false, false) {
						return
					}
					compare("write")
				}
			}
		}
	}
	// final: a full-history request must return all of it
	if b, err := coll.Get1xRevBody(ctx, docID, revs[len(revs)-1], true, nil); err == nil {
		_, full := freshIDs()
		if got := idsOf(b); strings.Join(got, ",") != strings.Join(full, ",") {
			viol("content", "C16|dbdiff|request|full-history|truncated-or-wrong-history", fmt.Sprintf("a fresh load has %v, the request returned %v", full, got))
		}
		run.Count("full_history_requests_checked", 1)
	}
	compare("end")
	run.Eval()
	run.Nontrivial(fmt.Sprintf("%d/%d", depth, nReads))
	if idx < 2 {
		run.Sample(steps)
	}
}
