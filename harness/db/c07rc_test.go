//go:build verif

package db

import (
	"fmt"
	"testing"

	"verif/vlib"
)

// TestVerif_C07_RetryChain: conservation of sequence numbers over every (K, outcome) scenario.
func TestVerif_C07_RetryChain(t *testing.T) {
	run := vlib.Start(t, "C07", "retry-chain")
	defer run.Finish()
	e := vrcNewEnv(t)
	defer e.Close()
	maxK := run.N(3, 5)
	for _, batch := range []bool{false, true} {
		for K := 0; K <= maxK; K++ {
			for _, final := range vrcFinals {
				res := vrcRun(t, e, K, final, batch)
				run.Eval()
				missing, _, listed, _ := vrcLedger(e, res)
				sig := fmt.Sprintf("retries=%s|outcome=%s", vrcKClass(K), final)
				if len(missing) > 0 {
					w := res.witness()
					w["missing"] = missing
					run.Violation("conservation", "C07|retry-chain|reserved-number-neither-stored-nor-published|"+sig,
						fmt.Sprintf("writer lost its CAS %d time(s), final outcome %q: numbers %v in (%d,%d] are on no stored version, in no unused_sequences list and not published unused", K, final, missing, res.Counter0, res.Counter), w)
				}
				reached, stuck, inconc := vrcWaitFeed(e, res, missing)
				for _, m := range missing {
					_ = e.db.sequences.releaseSequence(e.ctx, m) // keep the shared change cache moving for the next scenario
				}
				switch {
				case inconc:
					run.Inconclusive("change cache did not reach the counter within the watchdog")
					cr, ls, pb := func() (map[uint64][]string, map[uint64][]string, map[uint64]int) { _, a, b, c := vrcLedger(e, res); return a, b, c }()
					run.Note("K=%d final=%s batch=%v stuck at %d counter=(%d,%d] carried=%v listed=%v published=%v events=%v", K, final, batch, stuck, res.Counter0, res.Counter, cr[stuck], ls[stuck], pb[stuck], res.Events)
				case !reached:
					run.Violation("feed-progress", "C07|retry-chain|change-feed-waits-for-number-that-never-arrives|"+sig,
						fmt.Sprintf("change cache still expects sequence %d after quiescence", stuck), res.witness())
				default:
					run.Count("scenarios_feed_reached_counter", 1)
				}
				run.Count("numbers_reserved", int(res.Counter-res.Counter0))
				run.Count("numbers_listed_unused_in_docs", len(listed))
				run.Count("writer_attempts", res.Attempts)
				if res.Attempts >= K+1 {
					run.Nontrivial(fmt.Sprintf("%v/%d/%s", batch, K, final))
				}
				run.Distinct("writer_outcomes", final+"/"+vrcErrClass(res.WriterErr))
				if K == 2 && !batch {
					run.Sample(res.witness())
				}
			}
		}
	}
}

