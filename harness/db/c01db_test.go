//go:build verif

package db

import (
	"context"
	"fmt"
	"sort"
	"strings"
	"sync"
	"testing"
	"time"

	"github.com/couchbase/sync_gateway/auth"
	"github.com/couchbase/sync_gateway/base"
	"verif/vlib"
)

// C01 — database level. A generated serial history (create / update / move channels / delete /
// resurrect / conflicting revision / access() grants / admin grants) is applied to a real database;
// at quiescence (change cache has processed the last written sequence) the same logical changes
// request is issued under many cache states, pagings and resume points and must give the same
// entry list (oracle 2, model free). Every response is checked structurally (oracle 1) and, for the
// requesters with static grants, against a small document model (oracle 3).

const c01SyncFn = `function(doc, oldDoc){ channel(doc.ch); if (doc.grant) { access(doc.grant.u, doc.grant.c); } }`

// ---------------------------------------------------------------------------------------------
// DocModel

type c01Rev struct {
	ID      string
	Parent  string
	Gen     int
	Ch      []string
	Deleted bool
	Grant   []string // [user, channel]
	hasKid  bool
}

// c01Ver is the state of a document after one committed write.
type c01Ver struct {
	Seq     uint64
	Rev     string   // winning revision
	Ch      []string // channels of the winning revision (nil when deleted)
	Deleted bool
}

type c01Doc struct {
	ID    string
	Revs  map[string]*c01Rev
	Order []string
	Hist  []c01Ver
}

func (d *c01Doc) leaves() []*c01Rev {
	var out []*c01Rev
	for _, id := range d.Order {
		if r := d.Revs[id]; !r.hasKid {
			out = append(out, r)
		}
	}
	return out
}

// winner: live before deleted, then higher generation, then higher digest.
func (d *c01Doc) winner() *c01Rev {
	var w *c01Rev
	for _, r := range d.leaves() {
		if w == nil {
			w = r
			continue
		}
		switch {
		case !r.Deleted && w.Deleted:
			w = r
		case r.Deleted != w.Deleted:
		case r.Gen > w.Gen, r.Gen == w.Gen && r.ID > w.ID:
			w = r
		}
	}
	return w
}

func (d *c01Doc) cur() *c01Ver {
	if len(d.Hist) == 0 {
		return nil
	}
	return &d.Hist[len(d.Hist)-1]
}

// at returns the version in force at position s (latest version with Seq <= s).
func (d *c01Doc) at(s uint64) *c01Ver {
	var v *c01Ver
	for i := range d.Hist {
		if d.Hist[i].Seq <= s {
			v = &d.Hist[i]
		}
	}
	return v
}

func c01Inter(a []string, set map[string]bool) bool {
	for _, x := range a {
		if set[x] {
			return true
		}
	}
	return false
}

// ---------------------------------------------------------------------------------------------
// history driver

type c01Op struct {
	N      int      `json:"n"`
	Kind   string   `json:"kind"`
	Doc    string   `json:"doc,omitempty"`
	Rev    string   `json:"rev,omitempty"`
	Parent string   `json:"parent,omitempty"`
	Ch     []string `json:"ch,omitempty"`
	Del    bool     `json:"del,omitempty"`
	Grant  []string `json:"grant,omitempty"`
	User   string   `json:"user,omitempty"`
	Seq    uint64   `json:"seq,omitempty"`
	Winner string   `json:"winner,omitempty"`
	Note   string   `json:"note,omitempty"`
}

type c01Entry struct {
	Seq    SequenceID
	Tok    string
	ID     string
	Rev    string
	Del    bool
	Rem    string
	AllRem bool
}

func (e c01Entry) String() string {
	s := e.Tok + " " + e.ID + " " + e.Rev
	if e.Del {
		s += " del"
	}
	if e.Rem != "" {
		s += " rm[" + e.Rem + "]"
	}
	return s
}

func c01List(es []c01Entry) string {
	parts := make([]string, len(es))
	for i, e := range es {
		parts[i] = e.String()
	}
	return "[" + strings.Join(parts, "; ") + "]"
}

type c01State struct {
	Name   string
	MaxLen int // 0 = creation value
	QL     int
	MaxCh  int // -1 = creation value
	Clear  bool
	Flush  bool
}

type c01H struct {
	t    *testing.T
	run  *vlib.Run
	r    *vlib.Rand
	idx  int
	db   *Database
	ctx  context.Context
	col  *DatabaseCollectionWithUser
	cc   *channelCacheImpl
	docs map[string]*c01Doc
	ids  []string
	ops  []c01Op

	maxSeq     uint64
	userNames  []string
	static     map[string][]string // requesters whose grants never change (model oracle)
	admCh      map[string][]string // current admin channels of all users
	users      map[string]auth.User
	createLen  int
	createQL   int
	createMax  int
	modelOK    bool
	bad        int // violations reported by this history (the walk stops after a few)
	state      string
	stateTrail []string
	dead       bool
}

var c01Chans = []string{"A", "B", "C"}

func (h *c01H) wit(extra map[string]any) map[string]any {
	w := map[string]any{"case": h.idx, "seed": h.run.Seed, "ops": h.ops, "sync_fn": c01SyncFn,
		"db_created_with": map[string]int{"ChannelCacheMaxLength": h.createLen, "ChannelQueryLimit": h.createQL, "MaxNumChannels": h.createMax},
		"users":           h.admCh, "cache_state": h.state, "cache_state_trail": h.stateTrail}
	for k, v := range extra {
		w[k] = v
	}
	return w
}

func (h *c01H) waitSeq(seq uint64) bool {
	if seq > h.maxSeq {
		h.maxSeq = seq
	}
	deadline := time.Now().Add(30 * time.Second)
	for i := 0; ; i++ {
		if h.db.changeCache.getNextSequence() > h.maxSeq && h.cc.GetHighCacheSequence() >= h.maxSeq && h.db.changeCache.getOldestSkippedSequence(h.ctx) == 0 {
			return true
		}
		if time.Now().After(deadline) {
			h.run.Inconclusive("change cache did not reach the last written sequence within the watchdog")
			h.run.Note("case %d: cache next=%d high=%d want>%d", h.idx, h.db.changeCache.getNextSequence(), h.cc.GetHighCacheSequence(), h.maxSeq)
			h.dead = true
			return false
		}
		if i < 50 {
			time.Sleep(50 * time.Microsecond)
		} else {
			time.Sleep(time.Millisecond)
		}
	}
}

func (h *c01H) putUser(name string, chans []string) {
	cfg := &auth.PrincipalConfig{Name: &name}
	if base.IsDefaultCollection(h.col.ScopeName, h.col.Name) {
		cfg.ExplicitChannels = base.SetFromArray(chans)
	} else {
		cfg.SetExplicitChannels(h.col.ScopeName, h.col.Name, chans...)
	}
	_, princ, err := h.db.UpdatePrincipal(h.ctx, cfg, true, true)
	if err != nil || princ == nil {
		h.t.Errorf("case %d: UpdatePrincipal(%s): %v", h.idx, name, err)
		h.dead = true
		return
	}
	h.admCh[name] = append([]string{}, chans...)
	h.ops = append(h.ops, c01Op{N: len(h.ops), Kind: "user", User: name, Ch: chans, Seq: princ.Sequence()})
	h.waitSeq(princ.Sequence())
}

func (h *c01H) writeRev(d *c01Doc, rev *c01Rev, kind string) {
	body := Body{"m": rev.ID}
	if rev.Deleted {
		body[BodyDeleted] = true
	} else {
		body["ch"] = rev.Ch
		if rev.Grant != nil {
			body["grant"] = map[string]any{"u": rev.Grant[0], "c": rev.Grant[1]}
		}
	}
	hist := []string{rev.ID}
	for p := rev.Parent; p != ""; p = d.Revs[p].Parent {
		hist = append(hist, p)
	}
	doc, _, err := h.col.PutExistingRevWithBody(h.ctx, d.ID, body, hist, false, ExistingVersionWithUpdateToHLV)
	op := c01Op{N: len(h.ops), Kind: kind, Doc: d.ID, Rev: rev.ID, Parent: rev.Parent, Ch: rev.Ch, Del: rev.Deleted, Grant: rev.Grant}
	if err != nil {
		op.Note = "error: " + err.Error()
		h.ops = append(h.ops, op)
		h.run.Count("writes_rejected", 1)
		return
	}
	d.Revs[rev.ID] = rev
	d.Order = append(d.Order, rev.ID)
	if rev.Parent != "" {
		d.Revs[rev.Parent].hasKid = true
	}
	w := d.winner()
	v := c01Ver{Seq: doc.Sequence, Rev: w.ID, Deleted: w.Deleted}
	if !w.Deleted {
		v.Ch = append([]string{}, w.Ch...)
	}
	d.Hist = append(d.Hist, v)
	op.Seq, op.Winner = doc.Sequence, doc.GetRevTreeID()
	h.ops = append(h.ops, op)
	// the model's winner / channels must agree with what the write reported, otherwise the model oracle is not used
	var live []string
	for name, rm := range doc.Channels {
		if rm == nil {
			live = append(live, name)
		}
	}
	sort.Strings(live)
	mch := append([]string{}, v.Ch...)
	sort.Strings(mch)
	if doc.GetRevTreeID() != w.ID || strings.Join(live, ",") != strings.Join(mch, ",") {
		h.modelOK = false
		h.run.Count("model_disagrees_with_write_result", 1)
		h.run.Note("case %d op %d: model winner %s ch %v, write reported winner %s ch %v", h.idx, op.N, w.ID, mch, doc.GetRevTreeID(), live)
	}
	h.run.Count("writes."+kind, 1)
	h.waitSeq(doc.Sequence)
}

func (h *c01H) randCh() []string {
	var out []string
	for _, c := range c01Chans {
		if h.r.Chance(2, 5) {
			out = append(out, c)
		}
	}
	return out
}

func (h *c01H) newRevID(gen int) string {
	return fmt.Sprintf("%d-%c%02x", gen, 'a'+rune(h.r.Intn(26)), len(h.ops))
}

func (h *c01H) step() {
	r := h.r
	d := h.docs[vlib.Pick(r, h.ids)]
	k := r.Intn(100)
	switch {
	case k < 6: // admin changes the channels of uAdm
		cur := h.admCh["uAdm"]
		var next []string
		for _, c := range c01Chans {
			has := false
			for _, x := range cur {
				has = has || x == c
			}
			if has != r.Chance(1, 3) {
				next = append(next, c)
			}
		}
		h.putUser("uAdm", next)
		return
	case len(d.Order) == 0: // create
		rev := &c01Rev{ID: h.newRevID(1), Gen: 1, Ch: h.randCh()}
		h.maybeGrant(rev)
		h.writeRev(d, rev, "create")
		return
	}
	w := d.winner()
	switch {
	case k < 20 && !w.Deleted: // delete the winning branch
		h.writeRev(d, &c01Rev{ID: h.newRevID(w.Gen + 1), Parent: w.ID, Gen: w.Gen + 1, Deleted: true}, "delete")
	case k < 34: // conflicting revision: sibling of some non-root revision
		var cands []*c01Rev
		for _, id := range d.Order {
			if x := d.Revs[id]; x.hasKid {
				cands = append(cands, x)
			}
		}
		if len(cands) == 0 {
			rev := &c01Rev{ID: h.newRevID(w.Gen + 1), Parent: w.ID, Gen: w.Gen + 1, Ch: h.randCh()}
			h.writeRev(d, rev, "update")
			return
		}
		p := vlib.Pick(r, cands)
		rev := &c01Rev{ID: h.newRevID(p.Gen + 1), Parent: p.ID, Gen: p.Gen + 1, Ch: h.randCh(), Deleted: r.Chance(1, 6)}
		if rev.Deleted {
			rev.Ch = nil
		}
		h.maybeGrant(rev)
		h.writeRev(d, rev, "conflict")
	default: // update / move channels / resurrect: child of a leaf (usually the winner)
		p := w
		if ls := d.leaves(); len(ls) > 1 && r.Chance(1, 4) {
			p = vlib.Pick(r, ls)
		}
		kind := "update"
		if p.Deleted {
			kind = "resurrect"
		}
		rev := &c01Rev{ID: h.newRevID(p.Gen + 1), Parent: p.ID, Gen: p.Gen + 1, Ch: h.randCh()}
		h.maybeGrant(rev)
		h.writeRev(d, rev, kind)
	}
}

func (h *c01H) maybeGrant(rev *c01Rev) {
	if rev.Deleted || !h.r.Chance(1, 4) {
		return
	}
	rev.Grant = []string{vlib.Pick(h.r, []string{"uDyn", "uDynA"}), vlib.Pick(h.r, c01Chans)}
	if h.r.Chance(1, 2) && len(rev.Ch) == 0 {
		rev.Ch = []string{"A"}
	}
}

// ---------------------------------------------------------------------------------------------
// requests

type c01Req struct {
	User   string
	Chans  []string
	Active bool
	Since  SequenceID
	Limit  int
}

func (q c01Req) String() string {
	return fmt.Sprintf("user=%s channels=%v active_only=%v since=%s limit=%d", q.User, q.Chans, q.Active, q.Since.String(), q.Limit)
}

func (h *c01H) fetch(q c01Req) ([]c01Entry, bool) {
	col := &DatabaseCollectionWithUser{DatabaseCollection: h.col.DatabaseCollection}
	if q.User != "admin" {
		col.user = h.users[q.User]
	}
	cctx, cancel := context.WithCancel(context.Background())
	defer cancel()
	opts := ChangesOptions{Since: q.Since, Limit: q.Limit, ActiveOnly: q.Active, ChangesCtx: cctx}
	feed, err := col.MultiChangesFeed(h.ctx, base.SetFromArray(q.Chans), opts)
	h.run.Count("requests", 1)
	if err != nil || feed == nil {
		h.run.Violation("request", "C01|db|one-shot-request-failed", fmt.Sprintf("%s: feed=%v err=%v", q, feed != nil, err), h.wit(map[string]any{"request": q.String()}))
		return nil, false
	}
	var out []c01Entry
	ok := true
	for e := range feed {
		if e == nil {
			continue
		}
		if e.Err != nil {
			h.run.Violation("request", "C01|db|one-shot-request-returned-error-entry", fmt.Sprintf("%s: %v", q, e.Err), h.wit(map[string]any{"request": q.String()}))
			ok = false
			continue
		}
		ce := c01Entry{Seq: e.Seq, Tok: e.Seq.String(), ID: e.ID, Del: e.Deleted, AllRem: e.allRemoved}
		if len(e.Changes) > 0 {
			ce.Rev = e.Changes[0][ChangesVersionTypeRevTreeID]
		}
		if len(e.Removed) > 0 {
			rm := e.Removed.ToArray()
			sort.Strings(rm)
			ce.Rem = strings.Join(rm, ",")
		}
		out = append(out, ce)
	}
	return out, ok
}

// oracle 1: strictly increasing under SequenceID.Before, no token twice, token round-trips.
func (h *c01H) structure(q c01Req, es []c01Entry) {
	for i, e := range es {
		if p, err := ParsePlainSequenceID(e.Tok); err != nil || p.String() != e.Tok {
			h.run.Violation("structure", "C01|db|entry-token-does-not-round-trip", fmt.Sprintf("%s: token %q", q, e.Tok), h.wit(map[string]any{"request": q.String(), "response": c01List(es)}))
		}
		if i > 0 && !es[i-1].Seq.Before(e.Seq) {
			sig := "C01|db|entries-not-strictly-increasing"
			if es[i-1].Tok == e.Tok {
				sig = "C01|db|sequence-returned-twice"
			}
			h.run.Violation("structure", sig, fmt.Sprintf("%s: entry %d (%s) does not sort after entry %d (%s)", q, i, e, i-1, es[i-1]), h.wit(map[string]any{"request": q.String(), "response": c01List(es)}))
			return
		}
		if !q.Since.Before(e.Seq) {
			h.run.Violation("structure", "C01|db|entry-not-after-since", fmt.Sprintf("%s: entry %s", q, e), h.wit(map[string]any{"request": q.String(), "response": c01List(es)}))
		}
	}
	if q.Limit > 0 && len(es) > q.Limit {
		h.run.Violation("structure", "C01|db|more-entries-than-limit", fmt.Sprintf("%s: %d entries", q, len(es)), h.wit(map[string]any{"request": q.String(), "response": c01List(es)}))
	}
}

func c01SameExact(a, b []c01Entry) bool {
	if len(a) != len(b) {
		return false
	}
	for i := range a {
		if a[i].Tok != b[i].Tok || a[i].ID != b[i].ID || a[i].Rev != b[i].Rev || a[i].Del != b[i].Del || a[i].Rem != b[i].Rem {
			return false
		}
	}
	return true
}

func c01SinceClass(s SequenceID) string {
	switch {
	case s.TriggeredBy > 0:
		return "compound"
	case s.Seq == 0:
		return "zero"
	}
	return "integer"
}

func c01UserClass(u string) string {
	switch u {
	case "admin":
		return "admin"
	case "uDyn", "uDynA":
		return "user-with-access()-grants"
	case "uAdm":
		return "user-with-changing-admin-grants"
	}
	return "user-with-static-grants"
}

func c01ReqClass(q c01Req) string {
	cl := "requester=" + c01UserClass(q.User) + "|since=" + c01SinceClass(q.Since)
	if q.Limit > 0 {
		cl += "|limit"
	}
	if q.Active {
		cl += "|active_only"
	}
	return cl
}

// expect compares a response with the list derived from the reference response.
func (h *c01H) expect(kind string, q c01Req, got, want []c01Entry, ref string) bool {
	h.run.Count("comparisons", 1)
	h.run.Count("comparisons."+kind, 1)
	if c01SameExact(got, want) {
		return true
	}
	what := "different-entries"
	switch {
	case len(got) < len(want):
		what = "fewer-entries"
	case len(got) > len(want):
		what = "more-entries"
	}
	sig := fmt.Sprintf("C01|db|differential|%s|state=%s|%s|%s", kind, h.stateClass(), c01ReqClass(q), what)
	h.bad++
	h.run.Violation("differential", sig,
		fmt.Sprintf("%s under cache state %q returned %s; the reference (%s) gives %s", q, h.state, c01List(got), ref, c01List(want)),
		h.wit(map[string]any{"request": q.String(), "got": c01List(got), "want": c01List(want), "reference": ref}))
	return false
}

func (h *c01H) stateClass() string {
	s := h.state
	if i := strings.Index(s, "("); i > 0 {
		s = s[:i]
	}
	return s
}

func (h *c01H) applyState(s c01State) {
	ml, ql, mc := h.createLen, h.createQL, h.createMax
	if s.MaxLen > 0 {
		ml = s.MaxLen
	}
	if s.QL > 0 {
		ql = s.QL
	}
	if s.MaxCh >= 0 {
		mc = s.MaxCh
	}
	h.cc.options.ChannelCacheMaxLength = ml
	if h.cc.options.ChannelCacheMinLength > ml {
		h.cc.options.ChannelCacheMinLength = ml
	}
	h.cc.maxChannels = mc
	h.db.Options.CacheOptions.ChannelQueryLimit = ql
	if s.Flush || s.Clear {
		// channelCacheImpl.Clear (a test-only entry point) must not overlap a running compaction: Clear re-initialises the
		// collection the compaction goroutine is about to remove its eviction candidates from
		deadline := time.Now().Add(20 * time.Second)
		for h.cc.isCompactActive() {
			if time.Now().After(deadline) {
				h.run.Inconclusive("channel cache compaction still running after the watchdog; cache state not changed")
				return
			}
			time.Sleep(200 * time.Microsecond)
		}
	}
	if s.Flush {
		h.db.DatabaseContext.FlushChannelCache(h.t)
		h.waitSeq(h.maxSeq)
	} else if s.Clear {
		if err := h.db.changeCache.Clear(h.ctx); err != nil {
			h.t.Errorf("clear: %v", err)
		}
	}
	h.state = fmt.Sprintf("%s(maxlen=%d,querylimit=%d,maxchannels=%d)", s.Name, ml, ql, mc)
	h.stateTrail = append(h.stateTrail, h.state)
	h.run.Distinct("cache_states", h.state)
}

func (h *c01H) loadUsers() bool {
	h.users = map[string]auth.User{}
	a := h.db.Authenticator(h.ctx)
	for _, n := range h.userNames {
		u, err := a.GetUser(n)
		if err != nil || u == nil {
			h.t.Errorf("case %d: GetUser(%s): %v", h.idx, n, err)
			return false
		}
		h.users[n] = u
	}
	return true
}

var c01Filters = [][]string{{"*"}, {"A"}, {"B"}, {"C"}, {"A", "B"}, {"A", "C"}, {"B", "C"}, {"A", "B", "C"}, {"A", "*"}}

// family issues, in the current cache state, the full request plus derived requests and compares
// each with what the reference full response implies.
func (h *c01H) family(user string, chans []string, refFull, refActive []c01Entry, everything bool) {
	r := h.r
	for _, ao := range []bool{false, true} {
		ref := refFull
		if ao {
			ref = refActive
		}
		base0 := c01Req{User: user, Chans: chans, Active: ao}
		refName := "since=0 unlimited response in the first cache state"
		// one unlimited request from zero
		if got, ok := h.fetch(base0); ok {
			h.structure(base0, got)
			h.expect("full", base0, got, ref, refName)
		}
		picks := []int{r.Intn(3)}
		if everything {
			picks = []int{0, 1, 2}
		}
		for _, p := range picks {
			switch p {
			case 0: // resume from every position the server handed out
				for i := range ref {
					since, err := ParsePlainSequenceID(ref[i].Tok)
					if err != nil {
						continue
					}
					q := base0
					q.Since = since
					if got, ok := h.fetch(q); ok {
						h.structure(q, got)
						h.expect("resume-from-entry-token", q, got, ref[i+1:], refName+", suffix after entry "+ref[i].Tok)
						if since.TriggeredBy > 0 {
							h.run.Count("compound_since_requests", 1)
						}
					}
				}
			case 1: // every integer position
				for n := uint64(0); n <= h.maxSeq; n++ {
					q := base0
					q.Since = SequenceID{Seq: n}
					var want []c01Entry
					for _, e := range ref {
						if q.Since.Before(e.Seq) {
							want = append(want, e)
						}
					}
					if got, ok := h.fetch(q); ok {
						h.structure(q, got)
						h.expect("integer-since", q, got, want, refName+", entries after the position")
					}
				}
			case 2: // paging
				ks := []int{1 + r.Intn(3)}
				if everything {
					ks = []int{1, 2, 3, 5}
				}
				for _, k := range ks {
					var cat []c01Entry
					q := base0
					q.Limit = k
					okAll := true
					for page := 0; page <= len(ref)+2; page++ {
						got, ok := h.fetch(q)
						if !ok {
							okAll = false
							break
						}
						h.structure(q, got)
						if q.Since.TriggeredBy > 0 {
							h.run.Count("compound_since_requests", 1)
							h.run.Count("paged_resume_inside_backfill", 1)
						}
						cat = append(cat, got...)
						// each page must be the next slice of the reference
						lo := len(cat) - len(got)
						hi := lo + k
						if hi > len(ref) {
							hi = len(ref)
						}
						if lo > len(ref) {
							lo = len(ref)
						}
						if !h.expect("paged", q, got, ref[lo:hi], fmt.Sprintf("%s, entries %d..%d", refName, lo, hi)) {
							okAll = false
							break
						}
						if len(got) == 0 {
							break
						}
						next, err := ParsePlainSequenceID(got[len(got)-1].Tok)
						if err != nil {
							break
						}
						q.Since = next
					}
					if okAll {
						h.run.Count("paged_walks_completed", 1)
					}
				}
			}
		}
	}
}

func (h *c01H) checkpoint(final bool) {
	if h.dead || !h.waitSeq(h.maxSeq) || !h.loadUsers() {
		return
	}
	r := h.r
	requesters := append([]string{"admin"}, h.userNames...)
	type key struct {
		u string
		f int
	}
	// which (requester, filter) combinations this checkpoint looks at
	var combos []key
	for _, u := range requesters {
		fs := r.Perm(len(c01Filters))
		n := 4
		if h.run.Thorough() {
			n = 6
		}
		combos = append(combos, key{u, 0})
		for _, f := range fs[:n] {
			if f != 0 {
				combos = append(combos, key{u, f})
			}
		}
	}
	// reference: the cache as the history left it
	h.applyState(c01State{Name: "as-left-by-history", MaxCh: -1})
	refFull, refAct := map[key][]c01Entry{}, map[key][]c01Entry{}
	for _, c := range combos {
		q := c01Req{User: c.u, Chans: c01Filters[c.f]}
		full, ok := h.fetch(q)
		if !ok {
			continue
		}
		h.structure(q, full)
		refFull[c] = full
		// active_only drops exactly deleted and all-removed entries
		var act []c01Entry
		for _, e := range full {
			if !e.Del && !(e.Rem != "" && e.AllRem) {
				act = append(act, e)
			}
		}
		refAct[c] = act
		for _, e := range full {
			if e.Seq.TriggeredBy > 0 {
				h.run.Count("compound_entries_in_reference", 1)
			}
			if e.Rem != "" {
				h.run.Count("removal_entries_in_reference", 1)
			}
			if e.Del {
				h.run.Count("deleted_entries_in_reference", 1)
			}
		}
		h.run.Count("reference_entries", len(full))
		if len(full) > 0 {
			h.run.Distinct("reference_lists", c01List(full))
		}
		if _, isStatic := h.static[c.u]; (isStatic || c.u == "admin") && h.modelOK {
			h.model(c.u, c01Filters[c.f], 0, false, full)
			for n := uint64(1); n <= h.maxSeq; n++ {
				var sub []c01Entry
				for _, e := range full {
					if (SequenceID{Seq: n}).Before(e.Seq) {
						sub = append(sub, e)
					}
				}
				h.model(c.u, c01Filters[c.f], n, false, sub)
			}
			h.model(c.u, c01Filters[c.f], 0, true, act)
		}
	}
	states := []c01State{
		{Name: "as-left-by-history", MaxCh: -1},
		{Name: "cleared", MaxCh: -1, Clear: true},
		{Name: "tiny-cache", MaxLen: 1 + r.Intn(3), QL: vlib.Pick(r, []int{1, 2, 5, 5000}), MaxCh: -1, Clear: true},
		{Name: "tiny-cache", MaxLen: 1 + r.Intn(3), QL: vlib.Pick(r, []int{1, 2, 5}), MaxCh: -1, Clear: true},
		{Name: "small-query-limit", QL: vlib.Pick(r, []int{1, 2, 5}), MaxCh: -1, Clear: true},
		{Name: "bypass", MaxCh: r.Intn(3), QL: vlib.Pick(r, []int{2, 5000}), Clear: true},
		{Name: "listener-restarted", MaxCh: -1, Flush: true},
	}
	for si, st := range states {
		h.applyState(st)
		order := r.Perm(len(combos))
		for _, ci := range order {
			c := combos[ci]
			if _, ok := refFull[c]; !ok || h.bad > 6 {
				continue
			}
			// in the reference state everything is asked for every combination; elsewhere one family member
			h.family(c.u, c01Filters[c.f], refFull[c], refAct[c], si == 0)
			if st.Name == "tiny-cache" && r.Chance(1, 3) {
				// a cold per-channel cache again in the middle of the walk
				h.applyState(c01State{Name: "tiny-cache", MaxLen: 1 + r.Intn(3), QL: vlib.Pick(r, []int{1, 2, 5, 5000}), MaxCh: -1, Clear: true})
			}
		}
	}
	// back to the creation values for the rest of the history
	h.applyState(c01State{Name: "restored", MaxCh: -1, Clear: r.Bool()})
}

// ---------------------------------------------------------------------------------------------
// oracle 3: model soundness / completeness for requesters whose grants never change

func (h *c01H) model(user string, filter []string, since uint64, activeOnly bool, es []c01Entry) {
	star := false // the requester reads the star channel: every document
	eff := map[string]bool{}
	req := map[string]bool{}
	reqStar := false
	for _, c := range filter {
		if c == "*" {
			reqStar = true
		} else {
			req[c] = true
		}
	}
	if user == "admin" {
		star = reqStar
		eff = req
	} else {
		uStar := false
		uch := map[string]bool{}
		for _, c := range h.static[user] {
			if c == "*" {
				uStar = true
			} else {
				uch[c] = true
			}
		}
		switch {
		case reqStar && uStar:
			star = true
		case reqStar:
			eff = uch
		case uStar:
			eff = req
		default:
			for c := range req {
				if uch[c] {
					eff[c] = true
				}
			}
		}
		if reqStar && uStar {
			for c := range uch {
				eff[c] = true
			}
		}
	}
	inView := func(v *c01Ver) bool {
		if v == nil || v.Deleted {
			return false
		}
		return star || c01Inter(v.Ch, eff)
	}
	h.run.Count("model_checks", 1)
	q := c01Req{User: user, Chans: filter, Active: activeOnly, Since: SequenceID{Seq: since}}
	fail := func(sig, msg string) {
		h.bad++
		h.run.Violation("model", "C01|db|model|"+sig, fmt.Sprintf("%s: %s; response %s", q, msg, c01List(es)), h.wit(map[string]any{"request": q.String(), "response": c01List(es)}))
	}
	byDoc := map[string][]c01Entry{}
	for _, e := range es {
		if strings.HasPrefix(e.ID, "_user/") {
			continue
		}
		byDoc[e.ID] = append(byDoc[e.ID], e)
	}
	for _, id := range h.ids {
		d := h.docs[id]
		cur := d.cur()
		if cur == nil {
			if len(byDoc[id]) > 0 {
				fail("entry-for-document-never-written", "document "+id)
			}
			continue
		}
		// (a) completeness: live, visible, changed after since
		if inView(cur) && cur.Seq > since {
			found := false
			for _, e := range byDoc[id] {
				if e.Seq.Seq == cur.Seq && e.Rev == cur.Rev && !e.Del && e.Seq.TriggeredBy == 0 {
					found = true
				}
			}
			if !found {
				fail("visible-changed-document-has-no-current-entry", fmt.Sprintf("document %s is in a visible requested channel (%v) at sequence %d rev %s", id, cur.Ch, cur.Seq, cur.Rev))
			}
			h.run.Count("model_completeness_obligations", 1)
		}
		// (b) left the view after since
		if !activeOnly && since > 0 && inView(d.at(since)) && !inView(cur) {
			found := false
			for _, e := range byDoc[id] {
				if e.Seq.Seq > since && (e.Del || e.Rem != "") {
					found = true
				}
			}
			if !found {
				fail("document-left-view-without-removal-or-deletion-entry", fmt.Sprintf("document %s was visible at position %d (%v) and is now %+v", id, since, d.at(since).Ch, *cur))
			}
			h.run.Count("model_left_view_obligations", 1)
		}
		// (c) soundness of each entry
		for _, e := range byDoc[id] {
			ever := false
			var at *c01Ver
			for i := range d.Hist {
				if inView(&d.Hist[i]) {
					ever = true
				}
				if d.Hist[i].Seq == e.Seq.Seq {
					at = &d.Hist[i]
				}
			}
			switch {
			case !ever:
				fail("entry-for-document-never-in-visible-requested-channel", fmt.Sprintf("entry %s", e))
			case at == nil:
				fail("entry-sequence-is-not-a-change-of-that-document", fmt.Sprintf("entry %s; document history %+v", e, d.Hist))
			case at.Rev != e.Rev:
				fail("entry-revision-is-not-the-revision-at-that-sequence", fmt.Sprintf("entry %s; document had %s at that sequence", e, at.Rev))
			case activeOnly && (e.Del || (e.Rem != "" && e.AllRem)):
				fail("active-only-returned-deleted-or-removed-entry", fmt.Sprintf("entry %s", e))
			}
			h.run.Count("model_entries_checked", 1)
		}
	}
}

// ---------------------------------------------------------------------------------------------

func c01RunHistory(t *testing.T, run *vlib.Run, idx int) {
	r := run.CaseRand(idx)
	h := &c01H{t: t, run: run, r: r, idx: idx, docs: map[string]*c01Doc{}, admCh: map[string][]string{}, modelOK: true,
		static: map[string][]string{"uA": {"A"}, "uAB": {"A", "B"}, "uStar": {"*"}, "uNone": {}}}
	cacheOpts := DefaultCacheOptions()
	h.createLen, h.createQL, h.createMax = cacheOpts.ChannelCacheMaxLength, cacheOpts.ChannelQueryLimit, cacheOpts.MaxNumChannels
	switch r.Intn(4) {
	case 0: // defaults
	case 1, 2:
		h.createLen = 1 + r.Intn(3)
		h.createQL = vlib.Pick(r, []int{1, 2, 5, 5000})
		cacheOpts.ChannelCacheMinLength = 1
	case 3:
		h.createLen = 2 + r.Intn(4)
		h.createMax = 2 + r.Intn(3)
		cacheOpts.ChannelCacheMinLength = 1
	}
	cacheOpts.ChannelCacheMaxLength, cacheOpts.ChannelQueryLimit, cacheOpts.MaxNumChannels = h.createLen, h.createQL, h.createMax
	db, ctx := SetupTestDBWithOptions(t, DatabaseContextOptions{CacheOptions: &cacheOpts, AllowConflicts: base.Ptr(true)})
	defer db.Close(ctx)
	db.AllowEmptyPassword = true
	h.db = db
	h.col, h.ctx = GetSingleDatabaseCollectionWithUser(ctx, t, db)
	if _, err := h.col.UpdateSyncFun(h.ctx, c01SyncFn); err != nil {
		t.Errorf("sync fn: %v", err)
		return
	}
	cc, ok := db.changeCache.getChannelCache().(*channelCacheImpl)
	if !ok {
		t.Errorf("unexpected channel cache type %T", db.changeCache.getChannelCache())
		return
	}
	h.cc = cc
	for i := 0; i < 6; i++ {
		id := fmt.Sprintf("d%d", i)
		h.ids = append(h.ids, id)
		h.docs[id] = &c01Doc{ID: id, Revs: map[string]*c01Rev{}}
	}
	h.userNames = []string{"uA", "uAB", "uStar", "uNone", "uDyn", "uDynA", "uAdm"}
	for _, u := range h.userNames {
		ch := h.static[u]
		switch u {
		case "uDynA":
			ch = []string{"A"}
		case "uAdm":
			ch = []string{"C"}
		}
		h.putUser(u, ch)
		if h.dead {
			return
		}
	}
	nops := r.Range(22, 28)
	mid := r.Range(8, 16)
	for k := 0; k < nops && !h.dead; k++ {
		h.step()
		if r.Chance(1, 3) && h.loadUsers() { // a request in the middle of the history: creates per-channel caches that then live through later writes
			u := vlib.Pick(r, append([]string{"admin"}, h.userNames...))
			q := c01Req{User: u, Chans: vlib.Pick(r, c01Filters), Active: r.Chance(1, 4), Since: SequenceID{Seq: uint64(r.Intn(int(h.maxSeq) + 1))}, Limit: r.Intn(3)}
			if got, ok := h.fetch(q); ok {
				h.structure(q, got)
				h.run.Count("mid_history_requests", 1)
			}
		}
		if k == mid {
			h.checkpoint(false)
		}
	}
	h.checkpoint(true)
	cs := db.DbStats.Cache()
	run.Count("sg_stats.channel_cache_bypass", int(cs.ChannelCacheBypassCount.Value()))
	run.Count("sg_stats.channel_cache_hits", int(cs.ChannelCacheHits.Value()))
	run.Count("sg_stats.channel_cache_misses_backfill_queries", int(cs.ChannelCacheMisses.Value()))
	run.Count("sg_stats.channel_cache_compactions", int(cs.ChannelCacheCompactCount.Value()))
	run.Eval()
	grants, conflicts := 0, 0
	for _, op := range h.ops {
		if op.Grant != nil && op.Note == "" {
			grants++
		}
		if op.Kind == "conflict" && op.Note == "" {
			conflicts++
		}
	}
	if grants > 0 && conflicts > 0 {
		run.Nontrivial(fmt.Sprintf("%d:%v", idx, h.ops))
	}
	if idx == 0 {
		run.Sample(map[string]any{"ops": h.ops})
	}
}

func TestVerif_C01_DB(t *testing.T) {
	run := vlib.Start(t, "C01", "db")
	defer run.Finish()
	n := run.N(40, 400)
	workers := 8
	var wg sync.WaitGroup
	next := make(chan int)
	for w := 0; w < workers; w++ {
		wg.Add(1)
		go func() {
			defer wg.Done()
			for i := range next {
				c01RunHistory(t, run, i)
			}
		}()
	}
	for i := 0; i < n; i++ {
		if only, ok := run.OnlyCase(); ok && only != i {
			continue
		}
		next <- i
	}
	close(next)
	wg.Wait()
}
