//go:build verif

package db

// C16, deterministic part: small scripts around one load that is parked inside the backing store.
//
//   first   Get(by rev) | Get(by cv) | GetActive, parked either in GetDocument ("doc") or in
//           getRevision/getCurrentVersion ("rev") - in both cases after its placeholder value
//           exists and (for Get) while it holds the value lock
//   mid     0..3 operations executed while the load is parked: put / upsert / remove / removecv /
//           get (joins the placeholder) / getother-key / getactive / peek / fill (other documents,
//           item- or byte-eviction pressure) / removeall / invalidate (the model document's channels
//           change without a new revision or version - its "channel epoch" is bumped - and both of its
//           keys are removed, as the feed does for a metadata-only update: whatever was computed from a
//           document read before that must not be resident or served afterwards)
//   then    the parked load is released as success or failure, everything is joined, and the
//           content, structure and gauge oracles of c16_test.go run at rest.
//
// Operations that can block on the value lock run on their own goroutine; "settling" (a bounded
// wait for them to finish or visibly take effect) only selects the interleaving, the verdict is
// taken from the state after all goroutines were joined.

import (
	"errors"
	"fmt"
	"strings"
	"testing"
	"time"

	"github.com/couchbase/sync_gateway/base"
	"verif/vlib"
)

type c16Script struct {
	First    string   `json:"first"`   // get-rev | get-cv | getactive
	Stage    string   `json:"stage"`   // doc | rev
	Outcome  string   `json:"outcome"` // ok | fail
	Mid      []string `json:"mid"`
	Cap      int      `json:"capacity"`
	MaxBytes int64    `json:"max_bytes"`
}

func (s c16Script) shape() string {
	return fmt.Sprintf("first=%s@%s|load=%s|mid=%s", s.First, s.Stage, s.Outcome, strings.Join(s.Mid, ","))
}

var c16MidOps = []string{"put", "upsert", "remove", "removecv", "get", "getotherkey", "getactive", "peek", "fill", "removeall", "invalidate"}

type c16Async struct {
	op     string
	done   chan struct{}
	rev    DocumentRevision
	err    error
	got    bool // a revision was returned (Get/GetActive, or Peek found one)
	key    c16Key
	peeked bool
	epoch0 int // the document's channel epoch when the operation started
}

func c16Go(op string, key c16Key, epoch0 int, fn func(a *c16Async)) *c16Async {
	a := &c16Async{op: op, key: key, epoch0: epoch0, done: make(chan struct{})}
	go func() {
		defer close(a.done)
		fn(a)
	}()
	return a
}

func (a *c16Async) wait(d time.Duration) bool {
	select {
	case <-a.done:
		return true
	case <-time.After(d):
		return false
	}
}

func TestVerif_C16_Scripts(t *testing.T) {
	run := vlib.Start(t, "C16", "scripts")
	defer run.Finish()
	r := run.Rand()
	type fs struct{ first, stage string }
	firsts := []fs{{"get-rev", "doc"}, {"get-rev", "rev"}, {"get-cv", "doc"}, {"get-cv", "rev"}, {"getactive", "rev"}}
	var scripts []c16Script
	conf := func(i int) (int, int64) {
		cr := r.Fork(uint64(7000 + i))
		return cr.Range(1, 3), vlib.Pick(cr, []int64{0, 0, 90, 200})
	}
	for _, f := range firsts {
		for _, out := range []string{"ok", "fail"} {
			var mids [][]string
			mids = append(mids, nil)
			for _, a := range c16MidOps {
				mids = append(mids, []string{a})
				for _, b := range c16MidOps {
					mids = append(mids, []string{a, b})
				}
			}
			for _, m := range mids {
				if run.Thorough() {
					for _, cp := range []int{1, 2, 3} {
						for _, mb := range []int64{0, 90, 200} {
							scripts = append(scripts, c16Script{First: f.first, Stage: f.stage, Outcome: out, Mid: m, Cap: cp, MaxBytes: mb})
						}
					}
				} else {
					cp, mb := conf(len(scripts))
					scripts = append(scripts, c16Script{First: f.first, Stage: f.stage, Outcome: out, Mid: m, Cap: cp, MaxBytes: mb})
				}
			}
		}
	}
	// random triples
	for i, n := 0, run.N(600, 12000); i < n; i++ {
		f := vlib.Pick(r, firsts)
		cp, mb := conf(100000 + i)
		scripts = append(scripts, c16Script{First: f.first, Stage: f.stage, Outcome: vlib.Pick(r, []string{"ok", "fail", "fail"}),
			Mid: []string{vlib.Pick(r, c16MidOps), vlib.Pick(r, c16MidOps), vlib.Pick(r, c16MidOps)}, Cap: cp, MaxBytes: mb})
	}
	reported := map[string]bool{} // distinct signatures itemised so far
	for i, sc := range scripts {
		if only, ok := run.OnlyCase(); ok && only != i {
			continue
		}
		c16RunScript(t, run, i, sc, reported)
	}
	run.Count("scripts", len(scripts))
}

func c16RunScript(t *testing.T, run *vlib.Run, idx int, sc c16Script, reported map[string]bool) {
	ctx := base.TestCtx(t)
	r := run.CaseRand(idx)
	u := c16NewUniverse(t, r, 3, false, "s")
	cc := c16NewCache(u, 1, sc.Cap, sc.MaxBytes, false)
	rc := cc.shards[0].revisionCache
	st := u.store
	var trace []string
	note := func(f string, a ...any) { trace = append(trace, fmt.Sprintf(f, a...)) }
	viol := func(oracle, sig, msg string) {
		if reported[sig] {
			return
		}
		if len(reported) >= 16 {
			run.Count("violations_not_itemised", 1)
			return
		}
		reported[sig] = true
		run.Violation(oracle, sig, msg, map[string]any{"case": idx, "script": sc, "trace": trace})
	}

	// one violation per script for "content computed before an invalidation is still resident / served"; the
	// signature names the parked load, not the whole script
	staleReported := false
	reportStale := func(where, msg string) {
		if staleReported {
			return
		}
		staleReported = true
		viol("no-stale-value-after-invalidation", "C16|scripts|invalidation-while-load-parked|first="+sc.First+"@"+sc.Stage+"|value-computed-before-the-invalidation-resident-or-served", where+": "+msg+" (script "+sc.shape()+")")
	}
	kRev, kCV := u.keyOf(0, "rev"), u.keyOf(0, "cv")
	K := kRev
	if sc.First == "get-cv" {
		K = kCV
	}
	gateID := K.id()
	if sc.Stage == "doc" {
		gateID = K.Doc
	}
	gate := st.setGate(sc.Stage, gateID)

	get := func(op string, k c16Key) *c16Async {
		return c16Go(op, k, st.curEpoch(k.Doc), func(a *c16Async) {
			a.rev, _, a.err = cc.c.Get(ctx, k.Doc, k.Ver, c16CollID, RevCacheDontLoadBackupRev)
			a.got = true
		})
	}
	getActive := func(op string) *c16Async {
		return c16Go(op, kRev, st.curEpoch(kRev.Doc), func(a *c16Async) {
			a.rev, _, a.err = cc.c.GetActive(ctx, kRev.Doc, c16CollID)
			a.got = true
		})
	}
	var first *c16Async
	if sc.First == "getactive" {
		first = getActive("first:getactive")
	} else {
		first = get("first:"+sc.First, K)
	}
	select {
	case <-gate.entered:
	case <-time.After(10 * time.Second):
		run.Inconclusive("script: parked load never reached the backing store")
		return
	}
	mapped := func(k c16Key) *revCacheValue {
		rc.lock.Lock()
		defer rc.lock.Unlock()
		if e := rc.cache[CreateRevisionCacheKey(k.Doc, k.Ver, c16CollID)]; e != nil {
			return e.Value.(*revCacheValue)
		}
		return nil
	}
	v0 := mapped(K)
	if v0 == nil {
		viol("structure", "C16|scripts|placeholder-missing-while-loading", "no value is mapped for the key whose load is in flight")
	}
	note("%s parked in %s; placeholder %p state=%d", first.op, sc.Stage, v0, v0.memState.Load())

	var asyncs []*c16Async
	writerSizedPlaceholder := false
	invalidations := 0
	for _, m := range sc.Mid {
		switch m {
		case "put":
			before := cc.stats.cacheMemoryStat.Value()
			target := mapped(kCV)
			pr := u.putRev(kCV) // a writer holds the document as it is now
			a := c16Go("put", kCV, st.curEpoch(kCV.Doc), func(a *c16Async) { a.err = cc.c.Put(ctx, pr, c16CollID) })
			// settle: finished, or its bytes were counted (it then waits for the value lock)
			for i := 0; i < 200 && !a.wait(50*time.Microsecond); i++ {
				if cc.stats.cacheMemoryStat.Value() != before {
					break
				}
			}
			if target != nil && target == v0 && v0.memState.Load() == memStateSized && mapped(kCV) == v0 {
				writerSizedPlaceholder = true
			}
			asyncs = append(asyncs, a)
			note("put(%s): gauge %d -> %d, placeholder state=%d", kCV.id(), before, cc.stats.cacheMemoryStat.Value(), v0.memState.Load())
		case "upsert":
			err := cc.c.Upsert(ctx, u.putRev(kCV), c16CollID)
			note("upsert(%s) err=%v", kCV.id(), err)
			if err != nil {
				viol("content", "C16|scripts|upsert|error-for-valid-revision", err.Error())
			}
		case "remove":
			cc.c.Remove(ctx, K.Doc, K.Ver, c16CollID)
			note("remove(%s)", K.id())
		case "removecv":
			cc.c.Remove(ctx, kCV.Doc, kCV.Ver, c16CollID)
			note("remove(%s)", kCV.id())
		case "removeall":
			for _, k := range u.keys {
				cc.c.Remove(ctx, k.Doc, k.Ver, c16CollID)
			}
			note("remove(every key)")
		case "get":
			a := get("get", K)
			a.wait(300 * time.Microsecond)
			asyncs = append(asyncs, a)
			note("get(%s) started", K.id())
		case "getotherkey":
			o := kCV
			if K == kCV {
				o = kRev
			}
			a := get("getotherkey", o)
			a.wait(10 * time.Second) // a value of its own: completes
			asyncs = append(asyncs, a)
			note("get(%s) started", o.id())
		case "getactive":
			a := getActive("getactive")
			if K == kRev {
				a.wait(300 * time.Microsecond) // joins the parked placeholder
			} else {
				a.wait(10 * time.Second) // a value of its own: completes (and so cannot straddle a later invalidate)
			}
			asyncs = append(asyncs, a)
			note("getactive(%s) started", kRev.Doc)
		case "peek":
			// on its own goroutine: a Peek that honours the value lock waits for the parked load
			a := c16Go("peek", K, st.curEpoch(K.Doc), func(a *c16Async) {
				var found bool
				a.rev, found = cc.c.Peek(ctx, K.Doc, K.Ver, c16CollID)
				a.peeked, a.got = true, found
			})
			a.wait(300 * time.Microsecond)
			asyncs = append(asyncs, a)
			note("peek(%s) started", K.id())
		case "invalidate":
			ep := st.bump(K.Doc)
			invalidations++
			cc.c.Remove(ctx, kRev.Doc, kRev.Ver, c16CollID)
			cc.c.Remove(ctx, kCV.Doc, kCV.Ver, c16CollID)
			note("invalidate: channel epoch of %s -> %d, Remove(%s), Remove(%s); K still mapped to placeholder: %v", K.Doc, ep, kRev.id(), kCV.id(), mapped(K) == v0)
		case "fill":
			for di := 1; di <= 2; di++ {
				if err := cc.c.Put(ctx, u.putRev(u.keyOf(di, "cv")), c16CollID); err != nil {
					viol("content", "C16|scripts|put|error-for-valid-revision", err.Error())
				}
			}
			_, _, _ = cc.c.Get(ctx, u.keyOf(1, "rev").Doc, u.keyOf(1, "rev").Ver, c16CollID, RevCacheDontLoadBackupRev)
			note("fill: put 2 other documents, get a third key; K still mapped to placeholder: %v", mapped(K) == v0)
		}
		if p, d := cc.auditStructure(); p != "" {
			viol("structure-under-lock", "C16|scripts|"+sc.shape()+"|"+p, d)
		}
	}
	gate.release <- sc.Outcome == "fail"
	all := append([]*c16Async{first}, asyncs...)
	for _, a := range all {
		if !a.wait(20 * time.Second) {
			run.Inconclusive("script: operation did not return after the parked load was released")
			return
		}
	}
	note("released as %s; all operations returned", sc.Outcome)
	replaced := mapped(K) != v0

	// ---- results of the operations
	for _, a := range all {
		if a.peeked && !a.got {
			continue // absent: always legitimate
		}
		if !a.got {
			if a.err != nil {
				viol("content", "C16|scripts|put|error-for-valid-revision", a.err.Error())
			}
			continue
		}
		k := a.key
		switch {
		case a.err != nil && !errors.Is(a.err, errC16Injected):
			viol("content", "C16|scripts|"+sc.shape()+"|"+a.op+"|unexpected-error", a.err.Error())
		case a.err != nil && sc.Outcome != "fail":
			viol("content", "C16|scripts|"+sc.shape()+"|"+a.op+"|error-although-no-load-failed", a.err.Error())
		case a.err == nil && a == first && sc.Outcome == "fail":
			viol("content", "C16|scripts|"+sc.shape()+"|first|no-error-although-its-load-failed", fmt.Sprintf("%+v", c16Render(a.rev)))
		case a.err == nil:
			run.Count("returned_revisions_checked", 1)
			if bad, stale, want, got := u.checkRevRange(k, a.rev, a.epoch0, st.curEpoch(k.Doc)); stale {
				reportStale(a.op, fmt.Sprintf("started at channel epoch %d, got %+v", a.epoch0, got))
			} else if len(bad) > 0 {
				viol("content", "C16|scripts|"+sc.shape()+"|"+a.op+"|wrong-"+strings.Join(bad, "+"), fmt.Sprintf("got %+v want %+v", got, want))
			}
		}
	}

	// ---- at rest
	class := sc.shape()
	if writerSizedPlaceholder && sc.Outcome == "fail" {
		class = "writer-sizes-placeholder-whose-load-then-fails"
		run.Count("scripts_writer_sized_failing_placeholder", 1)
	}
	if p, d := cc.auditStructure(); p != "" {
		viol("structure-under-lock", "C16|scripts|"+class+"|"+p, d)
	}
	findings, cached := cc.quiescent(u)
	var drifts []string
	var driftBy int64
	judge := func(stage string, fs []c16Finding) {
		for _, f := range fs {
			if f.Oracle == "byte-gauge" {
				drifts = append(drifts, stage+": "+f.Detail)
				if driftBy == 0 {
					driftBy = f.Drift
				}
				continue
			}
			if f.Oracle == "no-stale-value-after-invalidation" {
				reportStale(stage, f.Detail)
				continue
			}
			viol(f.Oracle, "C16|scripts|"+class+"|"+stage+"|"+f.What, f.Detail)
		}
	}
	judge("quiescence", findings)
	for _, k := range u.keys {
		if rev, found := cc.c.Peek(ctx, k.Doc, k.Ver, c16CollID); found {
			run.Count("returned_revisions_checked", 1)
			if bad, want, got := u.checkRev(k, rev); len(bad) > 0 {
				if e, stale := u.staleEpoch(k.id(), st.curEpoch(k.Doc), got); stale {
					reportStale("peek-at-rest", fmt.Sprintf("Peek(%s) serves the channels of update %d, the store is at update %d: %+v", k.id(), e, st.curEpoch(k.Doc), got))
				} else {
					viol("content", "C16|scripts|"+class+"|peek-at-rest-wrong-"+strings.Join(bad, "+"), fmt.Sprintf("Peek(%s) got %+v want %+v", k.id(), got, want))
				}
			}
		}
	}
	// a later read of the key must still be served correctly (re-load allowed)
	if rev, _, err := cc.c.Get(ctx, K.Doc, K.Ver, c16CollID, RevCacheDontLoadBackupRev); err != nil {
		viol("content", "C16|scripts|"+class+"|get-at-rest|unexpected-error", err.Error())
	} else if bad, want, got := u.checkRev(K, rev); len(bad) > 0 {
		if e, stale := u.staleEpoch(K.id(), st.curEpoch(K.Doc), got); stale {
			reportStale("get-at-rest", fmt.Sprintf("Get(%s) serves the channels of update %d, the store is at update %d: %+v", K.id(), e, st.curEpoch(K.Doc), got))
		} else {
			viol("content", "C16|scripts|"+class+"|get-at-rest|wrong-"+strings.Join(bad, "+"), fmt.Sprintf("got %+v want %+v", got, want))
		}
	}
	findings2, _ := cc.quiescent(u)
	judge("after-read-at-rest", findings2)
	judge("emptied", cc.emptyAndCheck(ctx, u))
	if len(drifts) > 0 {
		sign := "gauge-above-contents"
		if driftBy < 0 {
			sign = "gauge-below-contents"
		}
		viol("byte-gauge", "C16|scripts|"+class+"|byte-gauge-drift|"+sign, strings.Join(drifts, "; "))
	}

	run.Eval()
	run.Count("values_resident_at_rest", cached)
	run.Count("quiescence_checks", 1)
	run.Nontrivial(sc.shape())
	run.Distinct("script_shapes", sc.shape())
	if replaced || sc.Outcome == "fail" {
		run.Count("scripts_placeholder_replaced_or_failed", 1)
	}
	if invalidations > 0 {
		run.Count("scripts_with_invalidation_during_parked_load", 1)
	}
	if idx < 2 {
		run.Sample(map[string]any{"script": sc, "trace": trace})
	}
}
